/-
Lemmas/TrimeshSeedTetra.lean — C16: is the verdict of the seed test `is_facet_inwards` GEOMETRIC?  `mask_inside_trimesh` split into its
three ingredients (bounding-box pre-filter, parity of the crossing count, any touch); the first two do not depend on how the corners of
the faces are listed (`insideBox_rewind`, `crossCount_rewind`).  For a mesh that is ONE tetrahedron (any windings): a check point strictly
inside is found inside (crossing count 1: Lemmas/TrimeshTetra.lean); a check point beyond exactly one face plane gives an EVEN crossing
count (`crossCount_tetra_beyond_one_face`), so the verdict is "outside" unless a face is touched.
-/
import MagpyVerif.Lemmas.TrimeshSeed
namespace MagpyVerif.Kern
open MagpyVerif

/-! ### `mask_inside_trimesh` = box ∧ (odd crossing count ∨ any touch) -/

/-- the per-face results of `lines_end_in_trimesh` for the test line of observer `x` (start point outside, lengths in units of the mesh
size when it is positive) -/
noncomputable def rayResults (faces : List (Tri ℝ)) (x : V3 ℝ) : List (Bool × Bool) :=
  if 0 < meshSize faces then
    (faces.map (triDiv (meshSize faces))).map
      (faceTest (vd (startPointOutside (meshVerts faces)) (meshSize faces)) (vd x (meshSize faces)))
  else faces.map (faceTest (startPointOutside (meshVerts faces)) x)

/-- number of faces the test line of `x` crosses (`result_cross.sum`) -/
noncomputable def crossCount (faces : List (Tri ℝ)) (x : V3 ℝ) : Nat := (rayResults faces x).countP (·.1)
/-- `np.any(result_touch)` -/
noncomputable def anyTouch (faces : List (Tri ℝ)) (x : V3 ℝ) : Bool := (rayResults faces x).any (·.2)

theorem maskInsideTrimesh_eq (faces : List (Tri ℝ)) (x : V3 ℝ) :
    maskInsideTrimesh faces x = (insideBoxV (meshVerts faces) x && (crossCount faces x % 2 != 0 || anyTouch faces x)) := by
  simp only [maskInsideTrimesh, linesEndInTrimesh, crossCount, anyTouch, rayResults, lt_real, n, ofNat_real, Nat.cast_zero]
  by_cases hb : insideBoxV (meshVerts faces) x = true
  · by_cases hs : 0 < meshSize faces
    · simp only [hb, hs, if_true, decide_true, Bool.true_and, linesEndCore]
    · simp only [hb, hs, if_true, if_false, decide_false, Bool.true_and, linesEndCore, Bool.false_eq_true]
  · simp only [hb, Bool.false_and, Bool.false_eq_true, if_false]

/-! ### listing the corners of the faces differently -/

theorem triVerts_winding_perm {f g : Tri ℝ} (h : g ∈ triWindings f) : (triVerts g).Perm (triVerts f) := by
  obtain ⟨a, b, c⟩ := f
  simp only [triWindings, triRotate, triFlip, List.mem_cons, List.not_mem_nil, or_false] at h
  rcases h with rfl | rfl | rfl | rfl | rfl | rfl <;> simp only [triVerts]
  · exact List.Perm.refl _
  · exact (List.perm_append_comm : ([a] ++ [b, c]).Perm ([b, c] ++ [a])).symm
  · exact (List.perm_append_comm : ([a, b] ++ [c]).Perm ([c] ++ [a, b])).symm
  · exact List.Perm.cons a (List.Perm.swap b c [])
  · exact List.reverse_perm [a, b, c]
  · exact List.Perm.swap a b [c]

theorem meshVerts_rewind_perm {f1 f2 : List (Tri ℝ)} (h : List.Forall₂ (fun f g => g ∈ triWindings f) f1 f2) :
    (meshVerts f2).Perm (meshVerts f1) := by
  induction h with
  | nil => exact List.Perm.refl _
  | cons hg _ ih =>
    simp only [meshVerts, List.flatMap_cons] at ih ⊢
    exact (triVerts_winding_perm hg).append ih

theorem triDiv_winding (s : ℝ) {f g : Tri ℝ} (h : g ∈ triWindings f) : triDiv s g ∈ triWindings (triDiv s f) := by
  simp only [triWindings, triRotate, triFlip, List.mem_cons, List.not_mem_nil, or_false] at h ⊢
  rcases h with rfl | rfl | rfl | rfl | rfl | rfl <;> simp [triDiv]

theorem rewind_map_triDiv (s : ℝ) {f1 f2 : List (Tri ℝ)} (h : List.Forall₂ (fun f g => g ∈ triWindings f) f1 f2) :
    List.Forall₂ (fun f g => g ∈ triWindings f) (f1.map (triDiv s)) (f2.map (triDiv s)) := by
  induction h with
  | nil => exact List.Forall₂.nil
  | cons hg _ ih => exact List.Forall₂.cons (triDiv_winding s hg) ih

section rewind
variable {f1 f2 : List (Tri ℝ)} (h : List.Forall₂ (fun f g => g ∈ triWindings f) f1 f2)
include h

theorem vertsMin_rewind : vertsMin (meshVerts f2) = vertsMin (meshVerts f1) := vertsMin_perm (meshVerts_rewind_perm h)
theorem vertsMax_rewind : vertsMax (meshVerts f2) = vertsMax (meshVerts f1) := vertsMax_perm (meshVerts_rewind_perm h)
theorem meshSize_rewind : meshSize f2 = meshSize f1 := by
  simp only [meshSize, vertsSize, vertsMin_rewind h, vertsMax_rewind h]
theorem startPoint_rewind : startPointOutside (meshVerts f2) = startPointOutside (meshVerts f1) := by
  simp only [startPointOutside, vertsSize, vertsMin_rewind h, vertsMax_rewind h]

/-- the bounding-box pre-filter does not depend on how the corners of the faces are listed -/
theorem insideBox_rewind (x : V3 ℝ) : insideBoxV (meshVerts f2) x = insideBoxV (meshVerts f1) x := by
  simp only [insideBoxV, vertsMin_rewind h, vertsMax_rewind h]

/-- the crossing count of the test line does not depend on how the corners of the faces are listed -/
theorem crossCount_rewind (x : V3 ℝ) : crossCount f2 x = crossCount f1 x := by
  simp only [crossCount, rayResults, meshSize_rewind h, startPoint_rewind h]
  split
  · exact crossCount_winding _ _ _ _ (rewind_map_triDiv _ h)
  · exact crossCount_winding _ _ _ _ h

/-- a mesh given with other windings: an odd crossing count decides "inside" whatever the touch tests say -/
theorem maskInside_rewind_of_odd (x : V3 ℝ) (hb : insideBoxV (meshVerts f1) x = true) (hodd : crossCount f1 x % 2 = 1) :
    maskInsideTrimesh f2 x = true := by
  rw [maskInsideTrimesh_eq, insideBox_rewind h, crossCount_rewind h, hb, hodd]; rfl

/-- … an even crossing count and no touched face decide "outside" -/
theorem maskInside_rewind_of_even (x : V3 ℝ) (heven : crossCount f1 x % 2 = 0) (ht : anyTouch f2 x = false) :
    maskInsideTrimesh f2 x = false := by
  rw [maskInsideTrimesh_eq, crossCount_rewind h, heven, ht]; simp

end rewind

/-! ### one tetrahedron, check point strictly inside (the seed facet given INWARDS) -/

theorem crossCount_tetra_inside' (v0 v1 v2 v3 X : V3 ℝ) (hd : 0 < tdet v0 v1 v2 v3)
    (hx : ∀ k, 0 < bary v0 v1 v2 v3 X k) (hgen : RayGeneric (tetraFaces v0 v1 v2 v3) X) :
    insideBoxV (meshVerts (tetraFaces v0 v1 v2 v3)) X = true ∧ crossCount (tetraFaces v0 v1 v2 v3) X = 1 := by
  obtain ⟨hbox, hsize, hcnt⟩ := tetra_inside_count v0 v1 v2 v3 X hd hx hgen
  refine ⟨hbox, ?_⟩
  simp only [crossCount, rayResults, meshSize, hsize, if_true, hcnt]

/-- a tetrahedron given with ANY windings: a point strictly inside whose test ray is generic is found inside -/
theorem maskInside_tetra_rewound_inside (v0 v1 v2 v3 X : V3 ℝ) (faces : List (Tri ℝ))
    (hw : List.Forall₂ (fun f g => g ∈ triWindings f) (tetraFaces v0 v1 v2 v3) faces) (hd : 0 < tdet v0 v1 v2 v3)
    (hx : ∀ k, 0 < bary v0 v1 v2 v3 X k) (hgen : RayGeneric (tetraFaces v0 v1 v2 v3) X) :
    maskInsideTrimesh faces X = true := by
  obtain ⟨hb, hc⟩ := crossCount_tetra_inside' v0 v1 v2 v3 X hd hx hgen
  exact maskInside_rewind_of_odd hw X hb (by rw [hc])

/-- the check point lies on the positive side of the facet's AS-GIVEN normal (seen from any corner) -/
theorem seedCheckPoint_dot_pos (face : Tri ℝ) (harea : 0 < vNorm2 (V3.cross (face.1 - face.2.1) (face.2.1 - face.2.2)))
    (r : V3 ℝ) (hr : r = face.1 ∨ r = face.2.1 ∨ r = face.2.2) :
    0 < V3.dot (seedCheckPoint face - r) (V3.cross (face.1 - face.2.2) (face.2.1 - face.2.2)) := by
  have h := seedCheckPoint_proj_ge face harea r hr
  have hb : (0 : ℝ) < (1 / 100000 : ℝ) / (1 + 1 / 100000) := by norm_num
  have hp := lt_of_lt_of_le hb h
  simp only [vNormProj, sqrt_real] at hp
  rcases div_pos_iff.mp hp with ⟨h1, _⟩ | ⟨_, h2⟩
  · exact h1
  · exact absurd h2 (not_lt.mpr (Real.sqrt_nonneg _))

/-- first face of `tetraFaces` (the seed facet of `get_inwards_mask`): given outwards its check point is beyond the face's plane,
given flipped it is on the body's side -/
theorem seed_side_tetra (v0 v1 v2 v3 : V3 ℝ) (hd : 0 < tdet v0 v1 v2 v3) :
    bary v0 v1 v2 v3 (seedCheckPoint (v0, v2, v1)) 3 < 0 ∧ 0 < bary v0 v1 v2 v3 (seedCheckPoint (triFlip (v0, v2, v1))) 3 := by
  have hdet : V3.dot (V3.cross (v0 - v2) (v2 - v1)) (v3 - v0) = -tdet v0 v1 v2 v3 := by
    simp only [tdet, det3, V3.dot, V3.cross, V3.sub_x, V3.sub_y, V3.sub_z]; ring
  have ha1 : 0 < vNorm2 (V3.cross (v0 - v2) (v2 - v1)) := vNorm2_pos_of_dot_left _ _ (by rw [hdet]; exact neg_ne_zero.mpr hd.ne')
  have hdet' : V3.dot (V3.cross (v0 - v1) (v1 - v2)) (v3 - v0) = tdet v0 v1 v2 v3 := by
    simp only [tdet, det3, V3.dot, V3.cross, V3.sub_x, V3.sub_y, V3.sub_z]; ring
  have ha2 : 0 < vNorm2 (V3.cross (v0 - v1) (v1 - v2)) :=
    vNorm2_pos_of_dot_left _ _ (by rw [hdet']; exact hd.ne')
  have h1 := seedCheckPoint_dot_pos (v0, v2, v1) ha1 v1 (Or.inr (Or.inr rfl))
  have h2 := seedCheckPoint_dot_pos (triFlip (v0, v2, v1)) ha2 v2 (Or.inr (Or.inr rfl))
  simp only [triFlip] at h2
  rw [N_face3_a v0 v1 v2 v3] at h1
  have h2' : V3.dot (seedCheckPoint (v0, v1, v2) - v2) (V3.cross (v0 - v2) (v1 - v2)) =
      -V3.dot (seedCheckPoint (v0, v1, v2) - v2) (V3.cross (v0 - v1) (v2 - v1)) := by
    simp only [V3.dot, V3.cross, V3.sub_x, V3.sub_y, V3.sub_z]; ring
  rw [h2', N_face3_b v0 v1 v2 v3] at h2
  exact ⟨by linarith, by simpa [triFlip] using h2⟩

/-! ### one tetrahedron, check point beyond exactly one face plane (the seed facet given OUTWARDS) -/

/-- the combinatorial core, in terms of the ratios `r_i = (barycentric numerator of the start point)/(… of the end point)`: `k` is the vertex
whose numerator is negative at the end point.  The face opposite `k` is crossed iff `r_k ≤ 0` and `r_k` is the strict minimum or maximum;
the face opposite `i ≠ k` iff `r_i ≤ 0` and `r_i` is next to the extreme `r_k`.  `H1`, `H2` say that the start point lies outside.  The number
of crossed faces is even. -/
theorem beyond_one_face_parity (rk ra rb rc : ℝ) (hka : rk ≠ ra) (hkb : rk ≠ rb) (hkc : rk ≠ rc)
    (hab : ra ≠ rb) (hac : ra ≠ rc) (hbc : rb ≠ rc)
    (H1 : rk ≤ 0 → (ra < 0 ∨ rb < 0 ∨ rc < 0)) (H2 : ra ≤ 0 → rb ≤ 0 → rc ≤ 0 → rk < 0) :
    (decide (rk ≤ 0 ∧ ((rk < ra ∧ rk < rb ∧ rk < rc) ∨ (ra < rk ∧ rb < rk ∧ rc < rk))) ^^
     (decide (ra ≤ 0 ∧ ((rk < ra ∧ ra < rb ∧ ra < rc) ∨ (ra < rk ∧ rb < ra ∧ rc < ra))) ^^
     (decide (rb ≤ 0 ∧ ((rk < rb ∧ rb < ra ∧ rb < rc) ∨ (rb < rk ∧ ra < rb ∧ rc < rb))) ^^
     decide (rc ≤ 0 ∧ ((rk < rc ∧ rc < ra ∧ rc < rb) ∨ (rc < rk ∧ ra < rc ∧ rb < rc)))))) = false := by
  rcases lt_or_gt_of_ne hka with h1 | h1 <;> rcases lt_or_gt_of_ne hkb with h2 | h2 <;>
  rcases lt_or_gt_of_ne hkc with h3 | h3 <;> rcases lt_or_gt_of_ne hab with h4 | h4 <;>
  rcases lt_or_gt_of_ne hac with h5 | h5 <;> rcases lt_or_gt_of_ne hbc with h6 | h6 <;>
  simp only [h1, h2, h3, h4, h5, h6, lt_asymm h1, lt_asymm h2, lt_asymm h3, lt_asymm h4, lt_asymm h5, lt_asymm h6,
    and_true, and_false, or_false, false_or, decide_false, Bool.false_xor, Bool.xor_false, and_self] <;>
  first
  | rfl
  | (exfalso; linarith)
  | (by_cases p : rk ≤ 0 <;> by_cases qa : ra ≤ 0 <;> by_cases qb : rb ≤ 0 <;> by_cases qc : rc ≤ 0 <;>
      simp only [p, qa, qb, qc, decide_true, decide_false, Bool.xor_self, Bool.false_xor, Bool.xor_false] <;>
      first
      | rfl
      | (exfalso; first
          | linarith
          | (rcases H1 p with h' | h' | h' <;> linarith)
          | (have := H2 (by linarith) (by linarith) (by linarith); linarith)))


/-! #### from the face tests to the ratios -/

theorem minor_eq (si sj xi xj : ℝ) (hi : xi ≠ 0) (hj : xj ≠ 0) : si * xj - sj * xi = xi * xj * (si / xi - sj / xj) := by
  field_simp

theorem minor_neg_pos (si sj xi xj : ℝ) (h : 0 < xi * xj) : si * xj - sj * xi < 0 ↔ si / xi < sj / xj := by
  have hi : xi ≠ 0 := left_ne_zero_of_mul h.ne'
  have hj : xj ≠ 0 := right_ne_zero_of_mul h.ne'
  rw [minor_eq si sj xi xj hi hj, mul_neg_iff]
  constructor
  · rintro (⟨_, h2⟩ | ⟨h1, _⟩) <;> linarith
  · intro h2; exact Or.inl ⟨h, by linarith⟩
theorem minor_pos_pos (si sj xi xj : ℝ) (h : 0 < xi * xj) : 0 < si * xj - sj * xi ↔ sj / xj < si / xi := by
  have hi : xi ≠ 0 := left_ne_zero_of_mul h.ne'
  have hj : xj ≠ 0 := right_ne_zero_of_mul h.ne'
  rw [minor_eq si sj xi xj hi hj, mul_pos_iff]
  constructor
  · rintro (⟨_, h2⟩ | ⟨h1, _⟩) <;> linarith
  · intro h2; exact Or.inl ⟨h, by linarith⟩
theorem minor_neg_neg (si sj xi xj : ℝ) (h : xi * xj < 0) : si * xj - sj * xi < 0 ↔ sj / xj < si / xi := by
  have hi : xi ≠ 0 := left_ne_zero_of_mul h.ne
  have hj : xj ≠ 0 := right_ne_zero_of_mul h.ne
  rw [minor_eq si sj xi xj hi hj, mul_neg_iff]
  constructor
  · rintro (⟨h1, _⟩ | ⟨_, h2⟩) <;> linarith
  · intro h2; exact Or.inr ⟨h, by linarith⟩
theorem minor_pos_neg (si sj xi xj : ℝ) (h : xi * xj < 0) : 0 < si * xj - sj * xi ↔ si / xi < sj / xj := by
  have hi : xi ≠ 0 := left_ne_zero_of_mul h.ne
  have hj : xj ≠ 0 := right_ne_zero_of_mul h.ne
  rw [minor_eq si sj xi xj hi hj, mul_pos_iff]
  constructor
  · rintro (⟨h1, _⟩ | ⟨_, h2⟩) <;> linarith
  · intro h2; exact Or.inr ⟨h, by linarith⟩

theorem sgn_cross_pos (s x : ℝ) (hx : 0 < x) : (sgn (-s) != sgn (-x)) = decide (s / x ≤ 0) := by
  have e : s / x ≤ 0 ↔ s ≤ 0 := by rw [div_le_iff₀ hx, zero_mul]
  rw [sgn_neg_of_pos x hx, sgn_neg_ne_zero_iff, decide_eq_decide.mpr e]
theorem sgn_cross_neg (s x : ℝ) (hx : x < 0) : (sgn (-s) != sgn (-x)) = decide (s / x ≤ 0) := by
  have e : s / x ≤ 0 ↔ 0 ≤ s := by
    rw [div_le_iff_of_neg hx, zero_mul]
  have h2 : sgn (-x) = 2 := by rw [sgn_real]; simp [hx, not_lt.mpr hx.le]
  rw [h2, sgn_real]
  by_cases h : 0 ≤ s
  · have h1 : s / x ≤ 0 := e.mpr h
    have : ¬ 0 < -s := by linarith
    by_cases h' : -s < 0 <;> simp [h1, h', this]
  · have h1 : ¬ s / x ≤ 0 := fun hh => h (e.mp hh)
    have : 0 < -s := by linarith
    have h'' : ¬ -s < 0 := by linarith
    simp [h1, this, h'']

/-- the crossing verdict of one face for ANY end point off the face's plane (generalises `faceTest_fst_of`) -/
theorem faceTest_fst_of' (l0 l1 : V3 ℝ) (f : Tri ℝ) (δ sk xk m1 m2 m3 : ℝ) (hδ : 0 < δ)
    (hb : rayNearEdge l0 l1 f = false)
    (hn : 0 < vNorm2 (V3.cross (f.1 - f.2.2) (f.2.1 - f.2.2)))
    (h0 : 0 < vNorm2 (l0 - refPoint l1 f)) (h1 : 0 < vNorm2 (l1 - refPoint l1 f))
    (hN0 : V3.dot (l0 - refPoint l1 f) (V3.cross (f.1 - f.2.2) (f.2.1 - f.2.2)) = -sk)
    (hN1 : V3.dot (l1 - refPoint l1 f) (V3.cross (f.1 - f.2.2) (f.2.1 - f.2.2)) = -xk)
    (hA1 : δ * vDotCross3d (f.1 - l0) (f.2.1 - l0) (l1 - l0) = m1)
    (hA2 : δ * vDotCross3d (f.2.1 - l0) (f.2.2 - l0) (l1 - l0) = m2)
    (hA3 : δ * vDotCross3d (f.2.2 - l0) (f.1 - l0) (l1 - l0) = m3) :
    (faceTest l0 l1 f).1 =
      ((sgn (-sk) != sgn (-xk)) && decide ((m1 < 0 ∧ m2 < 0 ∧ m3 < 0) ∨ (0 < m1 ∧ 0 < m2 ∧ 0 < m3))) := by
  have hs : ∀ a m : ℝ, δ * a = m → sgn a = sgn m := by
    intro a m h
    have : a = m / δ := by rw [← h]; field_simp
    rw [this, sgn_pos_mul _ _ hδ]
  obtain ⟨hb1, hb2, hb3⟩ := rayNearEdge_false _ _ _ hb
  have hm1 := minor_ne_zero _ _ _ hδ hA1 hb1
  have hm2 := minor_ne_zero _ _ _ hδ hA2 hb2
  have hm3 := minor_ne_zero _ _ _ hδ hA3 hb3
  rw [faceTest_fst, hb, Bool.false_or, signNe_real, vNormProj_sgn _ _ (mul_pos h0 hn), vNormProj_sgn _ _ (mul_pos h1 hn),
    hN0, hN1]
  simp only [signEq, signNe_real, not_bne_nat, hs _ _ hA1, hs _ _ hA2, hs _ _ hA3, sgn_chain _ _ _ hm1 hm2 hm3]
  exact Bool.and_comm _ _

/-- one face of the tetrahedron, end point anywhere off that face's plane -/
theorem tetra_face_cross' (v0 v1 v2 v3 S X : V3 ℝ) (f : Tri ℝ) (k j1 j2 j3 : Fin 4)
    (hd : 0 < tdet v0 v1 v2 v3) (hxk : bary v0 v1 v2 v3 X k ≠ 0)
    (hb : rayNearEdge S X f = false)
    (hS1 : S ≠ f.2.1) (hS2 : S ≠ f.2.2)
    (hNa : ∀ P, V3.dot (P - f.2.2) (V3.cross (f.1 - f.2.2) (f.2.1 - f.2.2)) = -(bary v0 v1 v2 v3 P k))
    (hNb : ∀ P, V3.dot (P - f.2.1) (V3.cross (f.1 - f.2.2) (f.2.1 - f.2.2)) = -(bary v0 v1 v2 v3 P k))
    (hA1 : tdet v0 v1 v2 v3 * vDotCross3d (f.1 - S) (f.2.1 - S) (X - S) =
      bary v0 v1 v2 v3 S k * bary v0 v1 v2 v3 X j1 - bary v0 v1 v2 v3 S j1 * bary v0 v1 v2 v3 X k)
    (hA2 : tdet v0 v1 v2 v3 * vDotCross3d (f.2.1 - S) (f.2.2 - S) (X - S) =
      bary v0 v1 v2 v3 S k * bary v0 v1 v2 v3 X j2 - bary v0 v1 v2 v3 S j2 * bary v0 v1 v2 v3 X k)
    (hA3 : tdet v0 v1 v2 v3 * vDotCross3d (f.2.2 - S) (f.1 - S) (X - S) =
      bary v0 v1 v2 v3 S k * bary v0 v1 v2 v3 X j3 - bary v0 v1 v2 v3 S j3 * bary v0 v1 v2 v3 X k) :
    (faceTest S X f).1 = ((sgn (-(bary v0 v1 v2 v3 S k)) != sgn (-(bary v0 v1 v2 v3 X k))) && decide
      ((bary v0 v1 v2 v3 S k * bary v0 v1 v2 v3 X j1 - bary v0 v1 v2 v3 S j1 * bary v0 v1 v2 v3 X k < 0 ∧
        bary v0 v1 v2 v3 S k * bary v0 v1 v2 v3 X j2 - bary v0 v1 v2 v3 S j2 * bary v0 v1 v2 v3 X k < 0 ∧
        bary v0 v1 v2 v3 S k * bary v0 v1 v2 v3 X j3 - bary v0 v1 v2 v3 S j3 * bary v0 v1 v2 v3 X k < 0) ∨
       (0 < bary v0 v1 v2 v3 S k * bary v0 v1 v2 v3 X j1 - bary v0 v1 v2 v3 S j1 * bary v0 v1 v2 v3 X k ∧
        0 < bary v0 v1 v2 v3 S k * bary v0 v1 v2 v3 X j2 - bary v0 v1 v2 v3 S j2 * bary v0 v1 v2 v3 X k ∧
        0 < bary v0 v1 v2 v3 S k * bary v0 v1 v2 v3 X j3 - bary v0 v1 v2 v3 S j3 * bary v0 v1 v2 v3 X k))) := by
  have hN : ∀ P, V3.dot (P - refPoint X f) (V3.cross (f.1 - f.2.2) (f.2.1 - f.2.2)) = -(bary v0 v1 v2 v3 P k) := by
    intro P; unfold refPoint; split
    · exact hNb P
    · exact hNa P
  have hSr : S ≠ refPoint X f := by
    unfold refPoint; split
    · exact hS1
    · exact hS2
  have hXne : V3.dot (X - refPoint X f) (V3.cross (f.1 - f.2.2) (f.2.1 - f.2.2)) ≠ 0 := by
    rw [hN]; exact neg_ne_zero.mpr hxk
  exact faceTest_fst_of' S X f (tdet v0 v1 v2 v3) (bary v0 v1 v2 v3 S k) (bary v0 v1 v2 v3 X k) _ _ _ hd hb
    (vNorm2_pos_of_dot_right _ _ hXne) (vNorm2_pos_of_ne _ _ hSr) (vNorm2_pos_of_dot_left _ _ hXne) (hN S) (hN X)
    hA1 hA2 hA3

theorem ratio_ne' (si sj xi xj : ℝ) (hi : xi ≠ 0) (hj : xj ≠ 0) (hM : si * xj - sj * xi ≠ 0) : si / xi ≠ sj / xj := by
  intro h
  apply hM
  rw [minor_eq si sj xi xj hi hj, h, sub_self, mul_zero]

/-- **a generic ray from a point outside the tetrahedron to a point beyond exactly the plane of its FIRST face (the face opposite `v3`, the
seed facet of `get_inwards_mask`) crosses an even number of faces** as `lines_end_in_trimesh` counts crossings -/
theorem crossCount_tetra_beyond_first_face (v0 v1 v2 v3 S X : V3 ℝ) (hd : 0 < tdet v0 v1 v2 v3)
    (hx3 : bary v0 v1 v2 v3 X 3 < 0) (hx0 : 0 < bary v0 v1 v2 v3 X 0) (hx1 : 0 < bary v0 v1 v2 v3 X 1)
    (hx2 : 0 < bary v0 v1 v2 v3 X 2) (hs : ∃ k, bary v0 v1 v2 v3 S k < 0)
    (hSv : S ≠ v1 ∧ S ≠ v2 ∧ S ≠ v3)
    (hgen : ∀ f ∈ tetraFaces v0 v1 v2 v3, rayNearEdge S X f = false) :
    ((tetraFaces v0 v1 v2 v3).map (faceTest S X)).countP (·.1) % 2 = 0 := by
  obtain ⟨hS1, hS2, hS3⟩ := hSv
  have hg3 := hgen (v0, v2, v1) (by simp [tetraFaces])
  have hg2 := hgen (v0, v1, v3) (by simp [tetraFaces])
  have hg0 := hgen (v1, v2, v3) (by simp [tetraFaces])
  have hg1 := hgen (v0, v3, v2) (by simp [tetraFaces])
  have f3 := tetra_face_cross' v0 v1 v2 v3 S X (v0, v2, v1) 3 1 0 2 hd hx3.ne hg3 hS2 hS1
    (fun P => N_face3_a v0 v1 v2 v3 P) (fun P => N_face3_b v0 v1 v2 v3 P)
    (area_face3_a1 v0 v1 v2 v3 S X) (area_face3_a2 v0 v1 v2 v3 S X) (area_face3_a3 v0 v1 v2 v3 S X)
  have f2 := tetra_face_cross' v0 v1 v2 v3 S X (v0, v1, v3) 2 3 0 1 hd hx2.ne' hg2 hS1 hS3
    (fun P => N_face2_a v0 v1 v2 v3 P) (fun P => N_face2_b v0 v1 v2 v3 P)
    (area_face2_a1 v0 v1 v2 v3 S X) (area_face2_a2 v0 v1 v2 v3 S X) (area_face2_a3 v0 v1 v2 v3 S X)
  have f0 := tetra_face_cross' v0 v1 v2 v3 S X (v1, v2, v3) 0 3 1 2 hd hx0.ne' hg0 hS2 hS3
    (fun P => N_face0_a v0 v1 v2 v3 P) (fun P => N_face0_b v0 v1 v2 v3 P)
    (area_face0_a1 v0 v1 v2 v3 S X) (area_face0_a2 v0 v1 v2 v3 S X) (area_face0_a3 v0 v1 v2 v3 S X)
  have f1 := tetra_face_cross' v0 v1 v2 v3 S X (v0, v3, v2) 1 2 0 3 hd hx1.ne' hg1 hS3 hS2
    (fun P => N_face1_a v0 v1 v2 v3 P) (fun P => N_face1_b v0 v1 v2 v3 P)
    (area_face1_a1 v0 v1 v2 v3 S X) (area_face1_a2 v0 v1 v2 v3 S X) (area_face1_a3 v0 v1 v2 v3 S X)
  -- distinct ratios, from the genericity of the ray
  have m3 := rayNearEdge_false _ _ _ hg3
  have m2 := rayNearEdge_false _ _ _ hg2
  have m0 := rayNearEdge_false _ _ _ hg0
  have r31 := ratio_ne' _ _ _ _ hx3.ne hx1.ne' (minor_ne_zero _ _ _ hd (area_face3_a1 v0 v1 v2 v3 S X) m3.1)
  have r30 := ratio_ne' _ _ _ _ hx3.ne hx0.ne' (minor_ne_zero _ _ _ hd (area_face3_a2 v0 v1 v2 v3 S X) m3.2.1)
  have r32 := ratio_ne' _ _ _ _ hx3.ne hx2.ne' (minor_ne_zero _ _ _ hd (area_face3_a3 v0 v1 v2 v3 S X) m3.2.2)
  have r20 := ratio_ne' _ _ _ _ hx2.ne' hx0.ne' (minor_ne_zero _ _ _ hd (area_face2_a2 v0 v1 v2 v3 S X) m2.2.1)
  have r21 := ratio_ne' _ _ _ _ hx2.ne' hx1.ne' (minor_ne_zero _ _ _ hd (area_face2_a3 v0 v1 v2 v3 S X) m2.2.2)
  have r01 := ratio_ne' _ _ _ _ hx0.ne' hx1.ne' (minor_ne_zero _ _ _ hd (area_face0_a2 v0 v1 v2 v3 S X) m0.2.1)
  have hsum := bary_sum v0 v1 v2 v3 S
  -- the start point lies outside
  have H1 : bary v0 v1 v2 v3 S 3 / bary v0 v1 v2 v3 X 3 ≤ 0 → (bary v0 v1 v2 v3 S 0 / bary v0 v1 v2 v3 X 0 < 0 ∨
      bary v0 v1 v2 v3 S 1 / bary v0 v1 v2 v3 X 1 < 0 ∨ bary v0 v1 v2 v3 S 2 / bary v0 v1 v2 v3 X 2 < 0) := by
    intro h
    have h3 : 0 ≤ bary v0 v1 v2 v3 S 3 := by
      rwa [div_le_iff_of_neg hx3, zero_mul] at h
    obtain ⟨k, hk⟩ := hs
    fin_cases k
    · exact Or.inl (div_neg_of_neg_of_pos hk hx0)
    · exact Or.inr (Or.inl (div_neg_of_neg_of_pos hk hx1))
    · exact Or.inr (Or.inr (div_neg_of_neg_of_pos hk hx2))
    · exact absurd hk (not_lt.mpr h3)
  have H2 : bary v0 v1 v2 v3 S 0 / bary v0 v1 v2 v3 X 0 ≤ 0 → bary v0 v1 v2 v3 S 1 / bary v0 v1 v2 v3 X 1 ≤ 0 →
      bary v0 v1 v2 v3 S 2 / bary v0 v1 v2 v3 X 2 ≤ 0 → bary v0 v1 v2 v3 S 3 / bary v0 v1 v2 v3 X 3 < 0 := by
    intro h0 h1 h2
    rw [div_le_iff₀ hx0, zero_mul] at h0
    rw [div_le_iff₀ hx1, zero_mul] at h1
    rw [div_le_iff₀ hx2, zero_mul] at h2
    exact div_neg_of_pos_of_neg (by linarith) hx3
  have hp := beyond_one_face_parity _ _ _ _ r30 r31 r32 r01 (fun h => r20 h.symm) (fun h => r21 h.symm) H1 H2
  have n01 := minor_neg_pos (bary v0 v1 v2 v3 S 0) (bary v0 v1 v2 v3 S 1) (bary v0 v1 v2 v3 X 0) (bary v0 v1 v2 v3 X 1) (mul_pos hx0 hx1)
  have p01 := minor_pos_pos (bary v0 v1 v2 v3 S 0) (bary v0 v1 v2 v3 S 1) (bary v0 v1 v2 v3 X 0) (bary v0 v1 v2 v3 X 1) (mul_pos hx0 hx1)
  have n02 := minor_neg_pos (bary v0 v1 v2 v3 S 0) (bary v0 v1 v2 v3 S 2) (bary v0 v1 v2 v3 X 0) (bary v0 v1 v2 v3 X 2) (mul_pos hx0 hx2)
  have p02 := minor_pos_pos (bary v0 v1 v2 v3 S 0) (bary v0 v1 v2 v3 S 2) (bary v0 v1 v2 v3 X 0) (bary v0 v1 v2 v3 X 2) (mul_pos hx0 hx2)
  have n03 := minor_neg_neg (bary v0 v1 v2 v3 S 0) (bary v0 v1 v2 v3 S 3) (bary v0 v1 v2 v3 X 0) (bary v0 v1 v2 v3 X 3) (mul_neg_of_pos_of_neg hx0 hx3)
  have p03 := minor_pos_neg (bary v0 v1 v2 v3 S 0) (bary v0 v1 v2 v3 S 3) (bary v0 v1 v2 v3 X 0) (bary v0 v1 v2 v3 X 3) (mul_neg_of_pos_of_neg hx0 hx3)
  have n10 := minor_neg_pos (bary v0 v1 v2 v3 S 1) (bary v0 v1 v2 v3 S 0) (bary v0 v1 v2 v3 X 1) (bary v0 v1 v2 v3 X 0) (mul_pos hx1 hx0)
  have p10 := minor_pos_pos (bary v0 v1 v2 v3 S 1) (bary v0 v1 v2 v3 S 0) (bary v0 v1 v2 v3 X 1) (bary v0 v1 v2 v3 X 0) (mul_pos hx1 hx0)
  have n12 := minor_neg_pos (bary v0 v1 v2 v3 S 1) (bary v0 v1 v2 v3 S 2) (bary v0 v1 v2 v3 X 1) (bary v0 v1 v2 v3 X 2) (mul_pos hx1 hx2)
  have p12 := minor_pos_pos (bary v0 v1 v2 v3 S 1) (bary v0 v1 v2 v3 S 2) (bary v0 v1 v2 v3 X 1) (bary v0 v1 v2 v3 X 2) (mul_pos hx1 hx2)
  have n13 := minor_neg_neg (bary v0 v1 v2 v3 S 1) (bary v0 v1 v2 v3 S 3) (bary v0 v1 v2 v3 X 1) (bary v0 v1 v2 v3 X 3) (mul_neg_of_pos_of_neg hx1 hx3)
  have p13 := minor_pos_neg (bary v0 v1 v2 v3 S 1) (bary v0 v1 v2 v3 S 3) (bary v0 v1 v2 v3 X 1) (bary v0 v1 v2 v3 X 3) (mul_neg_of_pos_of_neg hx1 hx3)
  have n20 := minor_neg_pos (bary v0 v1 v2 v3 S 2) (bary v0 v1 v2 v3 S 0) (bary v0 v1 v2 v3 X 2) (bary v0 v1 v2 v3 X 0) (mul_pos hx2 hx0)
  have p20 := minor_pos_pos (bary v0 v1 v2 v3 S 2) (bary v0 v1 v2 v3 S 0) (bary v0 v1 v2 v3 X 2) (bary v0 v1 v2 v3 X 0) (mul_pos hx2 hx0)
  have n21 := minor_neg_pos (bary v0 v1 v2 v3 S 2) (bary v0 v1 v2 v3 S 1) (bary v0 v1 v2 v3 X 2) (bary v0 v1 v2 v3 X 1) (mul_pos hx2 hx1)
  have p21 := minor_pos_pos (bary v0 v1 v2 v3 S 2) (bary v0 v1 v2 v3 S 1) (bary v0 v1 v2 v3 X 2) (bary v0 v1 v2 v3 X 1) (mul_pos hx2 hx1)
  have n23 := minor_neg_neg (bary v0 v1 v2 v3 S 2) (bary v0 v1 v2 v3 S 3) (bary v0 v1 v2 v3 X 2) (bary v0 v1 v2 v3 X 3) (mul_neg_of_pos_of_neg hx2 hx3)
  have p23 := minor_pos_neg (bary v0 v1 v2 v3 S 2) (bary v0 v1 v2 v3 S 3) (bary v0 v1 v2 v3 X 2) (bary v0 v1 v2 v3 X 3) (mul_neg_of_pos_of_neg hx2 hx3)
  have n30 := minor_neg_neg (bary v0 v1 v2 v3 S 3) (bary v0 v1 v2 v3 S 0) (bary v0 v1 v2 v3 X 3) (bary v0 v1 v2 v3 X 0) (mul_neg_of_neg_of_pos hx3 hx0)
  have p30 := minor_pos_neg (bary v0 v1 v2 v3 S 3) (bary v0 v1 v2 v3 S 0) (bary v0 v1 v2 v3 X 3) (bary v0 v1 v2 v3 X 0) (mul_neg_of_neg_of_pos hx3 hx0)
  have n31 := minor_neg_neg (bary v0 v1 v2 v3 S 3) (bary v0 v1 v2 v3 S 1) (bary v0 v1 v2 v3 X 3) (bary v0 v1 v2 v3 X 1) (mul_neg_of_neg_of_pos hx3 hx1)
  have p31 := minor_pos_neg (bary v0 v1 v2 v3 S 3) (bary v0 v1 v2 v3 S 1) (bary v0 v1 v2 v3 X 3) (bary v0 v1 v2 v3 X 1) (mul_neg_of_neg_of_pos hx3 hx1)
  have n32 := minor_neg_neg (bary v0 v1 v2 v3 S 3) (bary v0 v1 v2 v3 S 2) (bary v0 v1 v2 v3 X 3) (bary v0 v1 v2 v3 X 2) (mul_neg_of_neg_of_pos hx3 hx2)
  have p32 := minor_pos_neg (bary v0 v1 v2 v3 S 3) (bary v0 v1 v2 v3 S 2) (bary v0 v1 v2 v3 X 3) (bary v0 v1 v2 v3 X 2) (mul_neg_of_neg_of_pos hx3 hx2)
  simp only [n01, p01, n02, p02, n03, p03, n10, p10, n12, p12, n13, p13, n20, p20, n21, p21, n23, p23, n30, p30, n31, p31, n32, p32, sgn_cross_neg _ _ hx3, sgn_cross_pos _ _ hx0, sgn_cross_pos _ _ hx1,
    sgn_cross_pos _ _ hx2, ← Bool.decide_and] at f3 f2 f0 f1
  clear n01 p01 n02 p02 n03 p03 n10 p10 n12 p12 n13 p13 n20 p20 n21 p21 n23 p23 n30 p30 n31 p31 n32 p32 r31 r30 r32 r20 r21 r01 H1 H2 m3 m2 m0 hg3 hg2 hg0 hg1 hgen hsum hs
  generalize bary v0 v1 v2 v3 S 0 / bary v0 v1 v2 v3 X 0 = r0 at hp f3 f2 f0 f1
  generalize bary v0 v1 v2 v3 S 1 / bary v0 v1 v2 v3 X 1 = r1 at hp f3 f2 f0 f1
  generalize bary v0 v1 v2 v3 S 2 / bary v0 v1 v2 v3 X 2 = r2 at hp f3 f2 f0 f1
  generalize bary v0 v1 v2 v3 S 3 / bary v0 v1 v2 v3 X 3 = r3 at hp f3 f2 f0 f1
  have e3 : (faceTest S X (v0, v2, v1)).1 =
      decide (r3 ≤ 0 ∧ ((r3 < r0 ∧ r3 < r1 ∧ r3 < r2) ∨ (r0 < r3 ∧ r1 < r3 ∧ r2 < r3))) := by
    rw [f3]; exact decide_eq_decide.mpr (by tauto)
  have e0 : (faceTest S X (v1, v2, v3)).1 =
      decide (r0 ≤ 0 ∧ ((r3 < r0 ∧ r0 < r1 ∧ r0 < r2) ∨ (r0 < r3 ∧ r1 < r0 ∧ r2 < r0))) := by
    rw [f0]
  have e1 : (faceTest S X (v0, v3, v2)).1 =
      decide (r1 ≤ 0 ∧ ((r3 < r1 ∧ r1 < r0 ∧ r1 < r2) ∨ (r1 < r3 ∧ r0 < r1 ∧ r2 < r1))) := by
    rw [f1]; exact decide_eq_decide.mpr (by tauto)
  have e2 : (faceTest S X (v0, v1, v3)).1 =
      decide (r2 ≤ 0 ∧ ((r3 < r2 ∧ r2 < r0 ∧ r2 < r1) ∨ (r2 < r3 ∧ r0 < r2 ∧ r1 < r2))) := by
    rw [f2]
  simp only [tetraFaces, List.map_cons, List.map_nil, List.countP_cons, List.countP_nil, e3, e2, e0, e1]
  generalize decide (r3 ≤ 0 ∧ ((r3 < r0 ∧ r3 < r1 ∧ r3 < r2) ∨ (r0 < r3 ∧ r1 < r3 ∧ r2 < r3))) = d3 at hp ⊢
  generalize decide (r0 ≤ 0 ∧ ((r3 < r0 ∧ r0 < r1 ∧ r0 < r2) ∨ (r0 < r3 ∧ r1 < r0 ∧ r2 < r0))) = d0 at hp ⊢
  generalize decide (r1 ≤ 0 ∧ ((r3 < r1 ∧ r1 < r0 ∧ r1 < r2) ∨ (r1 < r3 ∧ r0 < r1 ∧ r2 < r1))) = d1 at hp ⊢
  generalize decide (r2 ≤ 0 ∧ ((r3 < r2 ∧ r2 < r0 ∧ r2 < r1) ∨ (r2 < r3 ∧ r0 < r2 ∧ r1 < r2))) = d2 at hp ⊢
  cases d3 <;> cases d0 <;> cases d1 <;> cases d2 <;> simp_all


/-- the start point of the test ray of a tetrahedron: the mesh size is positive, the start point lies below the bounding box in x (so it is
no vertex) and outside the tetrahedron -/
theorem tetra_start_data (v0 v1 v2 v3 : V3 ℝ) (hd : 0 < tdet v0 v1 v2 v3) :
    0 < vertsSize (meshVerts (tetraFaces v0 v1 v2 v3)) ∧
    (∃ k, bary v0 v1 v2 v3 (startPointOutside (meshVerts (tetraFaces v0 v1 v2 v3))) k < 0) ∧
    (startPointOutside (meshVerts (tetraFaces v0 v1 v2 v3))).x < v1.x ∧
    (startPointOutside (meshVerts (tetraFaces v0 v1 v2 v3))).x < v2.x ∧
    (startPointOutside (meshVerts (tetraFaces v0 v1 v2 v3))).x < v3.x := by
  have hm0 : v0 ∈ meshVerts (tetraFaces v0 v1 v2 v3) := by simp [meshVerts, tetraFaces, triVerts]
  have hm1 : v1 ∈ meshVerts (tetraFaces v0 v1 v2 v3) := by simp [meshVerts, tetraFaces, triVerts]
  have hm2 : v2 ∈ meshVerts (tetraFaces v0 v1 v2 v3) := by simp [meshVerts, tetraFaces, triVerts]
  have hm3 : v3 ∈ meshVerts (tetraFaces v0 v1 v2 v3) := by simp [meshVerts, tetraFaces, triVerts]
  generalize meshVerts (tetraFaces v0 v1 v2 v3) = verts at *
  obtain ⟨l0x, l0y, l0z⟩ := vertsMin_le verts v0 hm0
  obtain ⟨l1x, l1y, l1z⟩ := vertsMin_le verts v1 hm1
  obtain ⟨l2x, -, -⟩ := vertsMin_le verts v2 hm2
  obtain ⟨l3x, -, -⟩ := vertsMin_le verts v3 hm3
  obtain ⟨u0x, u0y, u0z⟩ := le_vertsMax verts v0 hm0
  obtain ⟨u1x, u1y, u1z⟩ := le_vertsMax verts v1 hm1
  obtain ⟨u2x, -, -⟩ := le_vertsMax verts v2 hm2
  obtain ⟨u3x, -, -⟩ := le_vertsMax verts v3 hm3
  have hsz : vertsSize verts = max (max ((vertsMax verts).x - (vertsMin verts).x) ((vertsMax verts).y - (vertsMin verts).y))
      ((vertsMax verts).z - (vertsMin verts).z) := by
    simp only [vertsSize, npMax_real]
  have hsize : 0 < vertsSize verts := by
    by_contra hneg
    rw [not_lt, hsz] at hneg
    have hxle := (le_max_left _ _).trans ((le_max_left _ _).trans hneg)
    have hyle := (le_max_right _ _).trans ((le_max_left _ _).trans hneg)
    have hzle := (le_max_right _ _).trans hneg
    have e1x : v1.x - v0.x = 0 := by linarith
    have e1y : v1.y - v0.y = 0 := by linarith
    have e1z : v1.z - v0.z = 0 := by linarith
    have : tdet v0 v1 v2 v3 = 0 := by
      simp [tdet, det3, e1x, e1y, e1z]
    linarith
  have hSx : (startPointOutside verts).x < (vertsMin verts).x := by
    simp only [startPointOutside, n, ofNat_real]
    have : 0 < vertsSize verts * ((120012345 : ℕ) / (10000000 : ℕ) : ℝ) := by positivity
    linarith
  refine ⟨hsize, ?_, by linarith, by linarith, by linarith⟩
  by_contra hcon
  have hall : ∀ k, 0 ≤ bary v0 v1 v2 v3 (startPointOutside verts) k := fun k => not_lt.mp fun h => hcon ⟨k, h⟩
  obtain ⟨sx, -, -⟩ := bary_combo v0 v1 v2 v3 (startPointOutside verts)
  have := (combo_bounds _ _ _ _ _ _ _ _ _ (startPointOutside verts).x (vertsMin verts).x (vertsMax verts).x hd
    (bary_sum v0 v1 v2 v3 _) (hall 0) (hall 1) (hall 2) (hall 3) sx l0x l1x l2x l3x u0x u1x u2x u3x).1
  linarith

/-- in the units `lines_end_in_trimesh` works with: a check point beyond exactly the plane of the first face, generic test ray ⇒ the
crossing count of `mask_inside_trimesh` is even -/
theorem crossCount_tetra_beyond_first (v0 v1 v2 v3 X : V3 ℝ) (hd : 0 < tdet v0 v1 v2 v3)
    (hx3 : bary v0 v1 v2 v3 X 3 < 0) (hx0 : 0 < bary v0 v1 v2 v3 X 0) (hx1 : 0 < bary v0 v1 v2 v3 X 1)
    (hx2 : 0 < bary v0 v1 v2 v3 X 2) (hgen : RayGeneric (tetraFaces v0 v1 v2 v3) X) :
    crossCount (tetraFaces v0 v1 v2 v3) X % 2 = 0 := by
  obtain ⟨hsize, ⟨k, hk⟩, h1, h2, h3⟩ := tetra_start_data v0 v1 v2 v3 hd
  unfold RayGeneric at hgen
  simp only [meshSize] at hgen
  simp only [crossCount, rayResults, meshSize, hsize, if_true]
  generalize meshVerts (tetraFaces v0 v1 v2 v3) = verts at *
  have hs3 : 0 < vertsSize verts ^ 3 := by positivity
  rw [tetraFaces_triDiv] at hgen ⊢
  apply crossCount_tetra_beyond_first_face
  · rw [tdet_vd _ _ _ _ _ hsize.ne']; exact div_pos hd hs3
  · rw [bary_vd _ _ _ _ _ _ hsize.ne']; exact div_neg_of_neg_of_pos hx3 hs3
  · rw [bary_vd _ _ _ _ _ _ hsize.ne']; exact div_pos hx0 hs3
  · rw [bary_vd _ _ _ _ _ _ hsize.ne']; exact div_pos hx1 hs3
  · rw [bary_vd _ _ _ _ _ _ hsize.ne']; exact div_pos hx2 hs3
  · exact ⟨k, by rw [bary_vd _ _ _ _ _ _ hsize.ne']; exact div_neg_of_neg_of_pos hk hs3⟩
  · exact ⟨vd_ne_of_x_lt _ _ _ hsize h1, vd_ne_of_x_lt _ _ _ hsize h2, vd_ne_of_x_lt _ _ _ hsize h3⟩
  · exact hgen

/-! #### no face touched -/

theorem touchProj_cases (X : V3 ℝ) (f : Tri ℝ) :
    touchProj X f = vNormProj (X - f.2.1) (V3.cross (f.1 - f.2.2) (f.2.1 - f.2.2)) ∨
    touchProj X f = vNormProj (X - f.2.2) (V3.cross (f.1 - f.2.2) (f.2.1 - f.2.2)) := by
  unfold touchProj; split
  · exact Or.inl rfl
  · exact Or.inr rfl

theorem touchProj_vd_cases (X : V3 ℝ) (f : Tri ℝ) (s : ℝ) (hs : 0 < s) :
    touchProj (vd X s) (triDiv s f) = vNormProj (X - f.2.1) (V3.cross (f.1 - f.2.2) (f.2.1 - f.2.2)) ∨
    touchProj (vd X s) (triDiv s f) = vNormProj (X - f.2.2) (V3.cross (f.1 - f.2.2) (f.2.1 - f.2.2)) := by
  unfold touchProj
  simp only [triDiv, vd_sub]
  split
  · left; rw [vd_sub, vNormProj_vd _ _ _ s hs]
  · right; rw [vd_sub, vNormProj_vd _ _ _ s hs]

theorem faceTest_snd_false_of_abs (l0 l1 : V3 ℝ) (f : Tri ℝ) (h : (1 / 10000000 : ℝ) ≤ |touchProj l1 f|) :
    (faceTest l0 l1 f).2 = false := by
  rw [faceTest_snd]
  have : ¬ |touchProj l1 f| < 1 / 10000000 := not_lt.mpr h
  simp only [lt_real, abs_real, n, ofNat_real, Nat.cast_one, Nat.cast_ofNat, this, decide_false, Bool.and_false]

/-- no face is touched if the observer is, for every face and from both corners the ray test may measure from, at least the touch
tolerance (as a normalised projection) off the face's plane -/
theorem anyTouch_false_of (faces : List (Tri ℝ)) (X : V3 ℝ)
    (h : ∀ f ∈ faces, (1 / 10000000 : ℝ) ≤ |vNormProj (X - f.2.1) (V3.cross (f.1 - f.2.2) (f.2.1 - f.2.2))| ∧
      (1 / 10000000 : ℝ) ≤ |vNormProj (X - f.2.2) (V3.cross (f.1 - f.2.2) (f.2.1 - f.2.2))|) :
    anyTouch faces X = false := by
  simp only [anyTouch, rayResults]
  split
  · rename_i hs
    simp only [List.any_map, List.any_eq_false, Function.comp]
    intro f hf
    obtain ⟨h1, h2⟩ := h f hf
    simp only [Bool.not_eq_true]
    apply faceTest_snd_false_of_abs
    rcases touchProj_vd_cases X f _ hs with e | e <;> rw [e] <;> assumption
  · simp only [List.any_map, List.any_eq_false, Function.comp]
    intro f hf
    obtain ⟨h1, h2⟩ := h f hf
    simp only [Bool.not_eq_true]
    apply faceTest_snd_false_of_abs
    rcases touchProj_cases X f with e | e <;> rw [e] <;> assumption

/-- a tetrahedron given with ANY windings: a point beyond exactly the plane of the first face, generic test ray, no face touched (as
listed) ⇒ found outside -/
theorem maskInside_tetra_rewound_beyond_first (v0 v1 v2 v3 X : V3 ℝ) (faces : List (Tri ℝ))
    (hw : List.Forall₂ (fun f g => g ∈ triWindings f) (tetraFaces v0 v1 v2 v3) faces) (hd : 0 < tdet v0 v1 v2 v3)
    (hx3 : bary v0 v1 v2 v3 X 3 < 0) (hx0 : 0 < bary v0 v1 v2 v3 X 0) (hx1 : 0 < bary v0 v1 v2 v3 X 1)
    (hx2 : 0 < bary v0 v1 v2 v3 X 2) (hgen : RayGeneric (tetraFaces v0 v1 v2 v3) X)
    (ht : ∀ f ∈ faces, (1 / 10000000 : ℝ) ≤ |vNormProj (X - f.2.1) (V3.cross (f.1 - f.2.2) (f.2.1 - f.2.2))| ∧
      (1 / 10000000 : ℝ) ≤ |vNormProj (X - f.2.2) (V3.cross (f.1 - f.2.2) (f.2.1 - f.2.2))|) :
    maskInsideTrimesh faces X = false :=
  maskInside_rewind_of_even hw X (crossCount_tetra_beyond_first v0 v1 v2 v3 X hd hx3 hx0 hx1 hx2 hgen)
    (anyTouch_false_of faces X ht)


/-! ### non-vacuity: the tetrahedron (0,0,0), (3,0,0), (0,4,0), (0,0,1) — its first face has the rational edge lengths 4, 5, 3 -/

noncomputable def t345 : List (Tri ℝ) := tetraFaces (⟨0, 0, 0⟩ : V3 ℝ) ⟨3, 0, 0⟩ ⟨0, 4, 0⟩ ⟨0, 0, 1⟩

theorem t345_min : vertsMin (meshVerts t345) = ⟨0, 0, 0⟩ := by
  simp [t345, tetraFaces, meshVerts, triVerts, vertsMin, vMin, npMin_real]
theorem t345_max : vertsMax (meshVerts t345) = ⟨3, 4, 1⟩ := by
  simp [t345, tetraFaces, meshVerts, triVerts, vertsMax, vMax, npMax_real]
theorem t345_size : vertsSize (meshVerts t345) = 4 := by
  simp only [vertsSize, t345_min, t345_max, npMax_real]; norm_num
theorem t345_start : startPointOutside (meshVerts t345) =
    ⟨-(4 * (120012345 / 10000000)), -(4 * (59923456 / 10000000)), -(4 * (69932109 / 10000000))⟩ := by
  simp only [startPointOutside, t345_size, t345_min, n, ofNat_real]
  apply V3.ext' <;> norm_num

theorem norm_eq_of_sq (v : V3 ℝ) (y : ℝ) (hy : 0 ≤ y) (h : v.x * v.x + v.y * v.y + v.z * v.z = y * y) : Kern.norm v = y := by
  simp only [Kern.norm, sqrt_real]; exact sqrt_eq_of_sq _ _ hy h

/-- the check point of the first face as `tetraFaces` lists it (outwards): 5e-5 below the face -/
theorem t345_check_out : seedCheckPoint ((⟨0, 0, 0⟩, ⟨0, 4, 0⟩, ⟨3, 0, 0⟩) : Tri ℝ) = ⟨1, 4 / 3, -(1 / 20000)⟩ := by
  have h1 : Kern.norm ((⟨0, 0, 0⟩ : V3 ℝ) - ⟨0, 4, 0⟩) = 4 := norm_eq_of_sq _ _ (by norm_num) (by simp)
  have h2 : Kern.norm ((⟨0, 4, 0⟩ : V3 ℝ) - ⟨3, 0, 0⟩) = 5 := norm_eq_of_sq _ _ (by norm_num) (by simp; norm_num)
  have h3 : Kern.norm ((⟨3, 0, 0⟩ : V3 ℝ) - ⟨0, 0, 0⟩) = 3 := norm_eq_of_sq _ _ (by norm_num) (by simp)
  have hn : Kern.norm (V3.cross ((⟨0, 0, 0⟩ : V3 ℝ) - ⟨0, 4, 0⟩) ((⟨0, 4, 0⟩ : V3 ℝ) - ⟨3, 0, 0⟩)) = 12 :=
    norm_eq_of_sq _ _ (by norm_num) (by simp [V3.cross]; norm_num)
  simp only [seedCheckPoint, pyMax_real, hn, h1, h2, h3]
  simp only [V3.cross, vd, n, ofNat_real, V3.sub_x, V3.sub_y, V3.sub_z, V3.add_x, V3.add_y, V3.add_z]
  apply V3.ext' <;> norm_num

/-- … and of the same face given flipped: 5e-5 above it, inside the body -/
theorem t345_check_in : seedCheckPoint (triFlip ((⟨0, 0, 0⟩, ⟨0, 4, 0⟩, ⟨3, 0, 0⟩) : Tri ℝ)) = ⟨1, 4 / 3, 1 / 20000⟩ := by
  have h1 : Kern.norm ((⟨0, 0, 0⟩ : V3 ℝ) - ⟨3, 0, 0⟩) = 3 := norm_eq_of_sq _ _ (by norm_num) (by simp)
  have h2 : Kern.norm ((⟨3, 0, 0⟩ : V3 ℝ) - ⟨0, 4, 0⟩) = 5 := norm_eq_of_sq _ _ (by norm_num) (by simp; norm_num)
  have h3 : Kern.norm ((⟨0, 4, 0⟩ : V3 ℝ) - ⟨0, 0, 0⟩) = 4 := norm_eq_of_sq _ _ (by norm_num) (by simp)
  have hn : Kern.norm (V3.cross ((⟨0, 0, 0⟩ : V3 ℝ) - ⟨3, 0, 0⟩) ((⟨3, 0, 0⟩ : V3 ℝ) - ⟨0, 4, 0⟩)) = 12 :=
    norm_eq_of_sq _ _ (by norm_num) (by simp [V3.cross]; norm_num)
  simp only [seedCheckPoint, triFlip, pyMax_real, hn, h1, h2, h3]
  simp only [V3.cross, vd, n, ofNat_real, V3.sub_x, V3.sub_y, V3.sub_z, V3.add_x, V3.add_y, V3.add_z]
  apply V3.ext' <;> norm_num

theorem t345_generic (z : ℝ) (hz : z = 1 / 20000 ∨ z = -(1 / 20000)) : RayGeneric t345 ⟨1, 4 / 3, z⟩ := by
  have hs : meshSize t345 = 4 := t345_size
  intro f hf
  rw [hs] at hf ⊢
  rw [t345_start]
  simp only [t345, tetraFaces, triDiv, vd, List.map_cons, List.map_nil, List.mem_cons, List.not_mem_nil, or_false] at hf
  rcases hz with rfl | rfl <;> rcases hf with rfl | rfl | rfl | rfl <;>
    (simp only [rayNearEdge, lt_real, abs_real, n, ofNat_real, vDotCross3d, vd, V3.sub_x, V3.sub_y, V3.sub_z]; norm_num)

end MagpyVerif.Kern
