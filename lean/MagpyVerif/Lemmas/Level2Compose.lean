/- composition of the stages of Model/Level2.lean `tensor` into one pointwise specification
(`level2_refines`): used by Props/C03–C07 -/
import MagpyVerif.Lemmas.Level2
namespace MagpyVerif.Level2
variable {G V : Type}

/-! ### no collapse needed when every entry contributes exactly one leaf -/
section single
variable [Add V]

theorem length_le_flatMap_leaves (es : List (Entry G V)) (h : ∀ e ∈ es, e.leaves ≠ []) :
    es.length ≤ (es.flatMap Entry.leaves).length := by
  induction es with
  | nil => simp
  | cons e es ih =>
    have h1 : 0 < e.leaves.length := List.length_pos_iff.mpr (h e (by simp))
    have h2 := ih (fun e' h' => h e' (by simp [h']))
    simp only [List.flatMap_cons, List.length_append, List.length_cons]
    omega

theorem map_leaves_of_length_le (f : Src G V → List (List V)) (es : List (Entry G V))
    (h : ∀ e ∈ es, e.leaves ≠ []) (hle : (es.flatMap Entry.leaves).length ≤ es.length) :
    (es.flatMap Entry.leaves).map f = es.map (fun e => sumT (e.leaves.map f)) := by
  induction es with
  | nil => simp
  | cons e es ih =>
    have hrest : ∀ e' ∈ es, e'.leaves ≠ [] := fun e' h' => h e' (by simp [h'])
    have h1 : 0 < e.leaves.length := List.length_pos_iff.mpr (h e (by simp))
    have h2 := length_le_flatMap_leaves es hrest
    simp only [List.flatMap_cons, List.length_append, List.length_cons] at hle
    have he : e.leaves.length = 1 := by omega
    obtain ⟨s, hs⟩ := List.length_eq_one_iff.mp he
    have hle' : (es.flatMap Entry.leaves).length ≤ es.length := by omega
    simp only [List.flatMap_cons, List.map_append, List.map_cons, hs, List.map_nil,
      sumT_singleton, List.singleton_append, ih hrest hle']

/-- stage B1 of `tensor`: one block per top-level entry, the sum over its leaves -/
theorem stage_collapse (f : Src G V → List (List V)) (es : List (Entry G V))
    (h : ∀ e ∈ es, e.leaves ≠ []) :
    (if (es.flatMap Entry.leaves).length > es.length
      then collapse 0 (es.map Entry.colLen) ((es.flatMap Entry.leaves).map f)
      else (es.flatMap Entry.leaves).map f) = es.map (fun e => sumT (e.leaves.map f)) := by
  split
  · have := collapse_spec f es [] h
    simpa using this
  · exact map_leaves_of_length_le f es h (by omega)
end single

/-! ### the sum over leaves, pointwise -/
section sums
variable [AddCommGroup V]

theorem sumT_map_rows {σ ι κ : Type} (ls : List σ) (hls : ls ≠ []) (ms : List ι) (X : ι → List κ)
    (φ : σ → ι → κ → V) :
    sumT (ls.map fun s => ms.map fun m => (X m).map (φ s m)) =
      ms.map fun m => (X m).map fun x => (ls.map fun s => φ s m x).sum := by
  induction ls with
  | nil => exact absurd rfl hls
  | cons s ls ih =>
    cases ls with
    | nil => simp [sumT]
    | cons s2 ls =>
      have ih' := ih (by simp)
      simp only [List.map_cons] at ih' ⊢
      rw [sumT]
      · rw [ih']
        simp only [addT, List.zipWith_map, List.zipWith_self, List.sum_cons]
      · simp
end sums

/-! ### the sensor loop -/
section sensors
variable [Group G] [AddCommGroup V] [DistribMulAction G V] [BEq G] [LawfulBEq G]

/-- what the code does to one value of sensor `k` at path index `m` -/
def sensT (flipX : V → V) (k : Sens G V) (m : Nat) (v : V) : V :=
  if k.left then flipX (match clampGet k.ori m with | some r => r⁻¹ • v | none => v)
  else (match clampGet k.ori m with | some r => r⁻¹ • v | none => v)

/-- the sensor loop with explicit running offset -/
def sensGo (flipX : V → V) : Nat → List (Sens G V) → List (List (List V)) → List (List (List V))
  | _, [], B => B
  | off, k :: ks, B => sensGo flipX (off + pixNum k) ks (sensorFrame flipX k off (off + pixNum k) B)

theorem sensorFrame_sensT (flipX : V → V) (k : Sens G V) (hk : k.ori ≠ [])
    (hlen : k.pos.length = k.ori.length) (lo hi : Nat) (B : List (List (List V))) :
    sensorFrame flipX k lo hi B =
      B.map fun Bl => Bl.mapIdx fun m row => row.mapIdx fun j v =>
        if lo ≤ j ∧ j < hi then sensT flipX k m v else v := by
  rw [sensorFrame_spec flipX k hk hlen]
  rfl

theorem cumsum_getD_zero (a : Nat) (ns : List Nat) : (cumsum a ns).getD 0 0 = a := by
  cases ns <;> simp [cumsum]

theorem foldl_zipIdx_cumsum (flipX : V → V) (ks : List (Sens G V)) :
    ∀ (pre : List Nat) (off : Nat) (B : List (List (List V))),
      ((ks.zipIdx pre.length).foldl (fun B (ki : Sens G V × Nat) =>
          sensorFrame flipX ki.1 ((pre ++ cumsum off (ks.map pixNum)).getD ki.2 0)
            ((pre ++ cumsum off (ks.map pixNum)).getD (ki.2 + 1) 0) B) B)
        = sensGo flipX off ks B := by
  induction ks with
  | nil => intro pre off B; simp [sensGo]
  | cons k ks ih =>
    intro pre off B
    simp only [List.zipIdx_cons, List.foldl_cons, List.map_cons, cumsum, sensGo]
    have h0 : (pre ++ off :: cumsum (off + pixNum k) (ks.map pixNum)).getD pre.length 0 = off := by
      simp [List.getD_eq_getElem?_getD]
    have h1 : (pre ++ off :: cumsum (off + pixNum k) (ks.map pixNum)).getD (pre.length + 1) 0
        = off + pixNum k := by
      obtain ⟨t, ht⟩ := cumsum_head (off + pixNum k) (ks.map pixNum)
      simp [List.getD_eq_getElem?_getD, ht, List.getElem?_append_right]
    rw [h0, h1]
    have := ih (pre ++ [off]) (off + pixNum k) (sensorFrame flipX k off (off + pixNum k) B)
    simp only [List.length_append, List.length_singleton, List.append_assoc, List.singleton_append] at this
    exact this

theorem applySensors_eq_go (flipX : V → V) (ks : List (Sens G V)) (B : List (List (List V))) :
    applySensors flipX ks B = sensGo flipX 0 ks B := by
  unfold applySensors pixInds
  have := foldl_zipIdx_cumsum flipX ks [] 0 B
  simpa using this

/-- `mapIdx` acting on a window `[off, off + c.length)` of a row -/
theorem mapIdx_window {β : Type} (T : β → β) (pre c post : List β) (n : Nat) (hn : c.length = n) :
    (pre ++ c ++ post).mapIdx (fun j v => if pre.length ≤ j ∧ j < pre.length + n then T v else v)
      = pre ++ c.map T ++ post := by
  apply List.ext_getElem?
  intro j
  rw [List.getElem?_mapIdx]
  by_cases h1 : j < pre.length
  · have : ¬ (pre.length ≤ j ∧ j < pre.length + n) := by omega
    simp [List.getElem?_append_left, h1, this, List.append_assoc]
  · by_cases h2 : j < pre.length + n
    · have hin : pre.length ≤ j ∧ j < pre.length + n := by omega
      have e1 : (pre ++ c ++ post)[j]? = c[j - pre.length]? := by
        rw [List.append_assoc, List.getElem?_append_right (by omega),
          List.getElem?_append_left (by omega)]
      have e2 : (pre ++ c.map T ++ post)[j]? = (c.map T)[j - pre.length]? := by
        rw [List.append_assoc, List.getElem?_append_right (by omega),
          List.getElem?_append_left (by simp; omega)]
      rw [e1, e2, List.getElem?_map]
      cases c[j - pre.length]? <;> simp [hin]
    · have hout : ¬ (pre.length ≤ j ∧ j < pre.length + n) := by omega
      have e1 : (pre ++ c ++ post)[j]? = post[j - pre.length - c.length]? := by
        rw [List.getElem?_append_right (by simp; omega)]; simp [Nat.sub_sub]
      have e2 : (pre ++ c.map T ++ post)[j]? = post[j - pre.length - c.length]? := by
        rw [List.getElem?_append_right (by simp; omega)]; simp [Nat.sub_sub]
      rw [e1, e2]
      cases post[j - pre.length - c.length]? <;> simp [hout]

theorem mapIdx_map_range {β γ : Type} (M : Nat) (f : Nat → β) (g : Nat → β → γ) :
    ((List.range M).map f).mapIdx g = (List.range M).map (fun m => g m (f m)) := by
  apply List.ext_getElem?
  intro i
  rw [List.getElem?_mapIdx, List.getElem?_map, List.getElem?_map]
  by_cases h : i < M
  · simp [List.getElem?_range h]
  · simp [List.getElem?_eq_none (l := List.range M) (by simpa using h)]

/-- the sensor loop on rows that are concatenations of per-sensor chunks -/
theorem sensGo_spec (flipX : V → V) {E : Type} (es : List E) (M : Nat) (ks : List (Sens G V))
    (hk : ∀ k ∈ ks, k.ori ≠ [] ∧ k.pos.length = k.ori.length)
    (g : E → Nat → Sens G V → List V) (hg : ∀ e m, ∀ k ∈ ks, (g e m k).length = pixNum k) :
    ∀ (off : Nat) (pre : E → Nat → List V), (∀ e m, (pre e m).length = off) →
      sensGo flipX off ks (es.map fun e => (List.range M).map fun m => pre e m ++ ks.flatMap (g e m))
        = es.map fun e => (List.range M).map fun m =>
            pre e m ++ ks.flatMap (fun k => (g e m k).map (sensT flipX k m)) := by
  induction ks with
  | nil => intro off pre _; simp [sensGo]
  | cons k ks ih =>
    intro off pre hpre
    have hk' : ∀ k' ∈ ks, k'.ori ≠ [] ∧ k'.pos.length = k'.ori.length :=
      fun k' h' => hk k' (by simp [h'])
    have hg' : ∀ e m, ∀ k' ∈ ks, (g e m k').length = pixNum k' :=
      fun e m k' h' => hg e m k' (by simp [h'])
    obtain ⟨hk1, hk2⟩ := hk k (by simp)
    simp only [sensGo]
    rw [sensorFrame_sensT flipX k hk1 hk2]
    have hstep : (es.map fun e => (List.range M).map fun m => pre e m ++ (k :: ks).flatMap (g e m)).map
        (fun Bl => Bl.mapIdx fun m row => row.mapIdx fun j v =>
          if off ≤ j ∧ j < off + pixNum k then sensT flipX k m v else v)
        = es.map fun e => (List.range M).map fun m =>
            (pre e m ++ (g e m k).map (sensT flipX k m)) ++ ks.flatMap (g e m) := by
      rw [List.map_map]
      apply List.map_congr_left
      intro e _
      simp only [Function.comp]
      rw [mapIdx_map_range]
      apply List.map_congr_left
      intro m _
      have := mapIdx_window (sensT flipX k m) (pre e m) (g e m k) (ks.flatMap (g e m)) (pixNum k)
        (hg e m k (by simp))
      rw [hpre e m] at this
      simp only [List.flatMap_cons, ← List.append_assoc]
      exact this
    rw [hstep]
    have := ih hk' hg' (off + pixNum k) (fun e m => pre e m ++ (g e m k).map (sensT flipX k m))
      (by intro e m; simp [hpre e m, hg e m k (by simp)])
    rw [this]
    apply List.map_congr_left
    intro e _
    apply List.map_congr_left
    intro m _
    simp [List.append_assoc]
end sensors

/-! ### the composed statement -/
section refines
variable [Group G] [AddCommGroup V] [DistribMulAction G V] [BEq G] [LawfulBEq G]

/-- global positions of sensor `k`'s pixels at path index `m` (staying at the last pose) -/
def pixPos (k : Sens G V) (m : Nat) : List V :=
  match clampGet k.ori m, clampGet k.pos m with
  | some r, some p => k.pixels.map fun px => r • px + p
  | _, _ => []

theorem poso_eq_flatMap (ks : List (Sens G V)) (m : Nat) : poso ks m = ks.flatMap (pixPos · m) := rfl

theorem clampGet_isSome {α : Type} (xs : List α) (h : xs ≠ []) (m : Nat) : ∃ a, clampGet xs m = some a := by
  unfold clampGet
  have : min m (xs.length - 1) < xs.length := by
    have := List.length_pos_iff.mpr h; omega
  exact ⟨xs[min m (xs.length - 1)], List.getElem?_eq_getElem this⟩

theorem pixPos_length (k : Sens G V) (hk : k.ori ≠ []) (hlen : k.pos.length = k.ori.length) (m : Nat) :
    (pixPos k m).length = k.pixels.length := by
  have hp : k.pos ≠ [] := by
    intro h; rw [h] at hlen; exact hk (List.length_eq_zero_iff.mp hlen.symm)
  obtain ⟨r, hr⟩ := clampGet_isSome k.ori hk m
  obtain ⟨p, hp'⟩ := clampGet_isSome k.pos hp m
  simp [pixPos, hr, hp']

/-- the value the library returns for (entry, path index, sensor, pixel position `x`): the sum of the
leaves' fields at `x`, taken into the sensor's frame -/
def specValue (flipX : V → V) (e : Entry G V) (k : Sens G V) (m : Nat) (x : V) : V :=
  sensT flipX k m ((e.leaves.map fun s => level1 s m x).sum)

/-- the specification tensor `[entry][m][sensor][pixel]` -/
def specTensor (flipX : V → V) (entries : List (Entry G V)) (sensors : List (Sens G V)) :
    List (List (List (List V))) :=
  entries.map fun e => (List.range (pathLen (entries.flatMap Entry.leaves) sensors)).map fun m =>
    sensors.map fun k => (pixPos k m).map (specValue flipX e k m)

/-- well-formed sensors: non-empty paths of equal length, as many pixel offsets as the pixel shape says -/
def Sens.WF (k : Sens G V) : Prop :=
  k.ori ≠ [] ∧ k.pos.length = k.ori.length ∧ k.pixels.length = pixNum k

/-- **level2_refines**: the whole marshalling pipeline (flattening, evaluation per leaf through its
own frame, tiling of short paths, collection loop, the three back-rotation code paths, handedness,
split into sensors) computes exactly the pointwise specification, for every number, order and
nesting of sources and collections, every path length mix and every pixel shape mix. -/
theorem tensor_eq_spec (flipX : V → V) (entries : List (Entry G V)) (sensors : List (Sens G V))
    (he : ∀ e ∈ entries, e.leaves ≠ []) (hs : ∀ k ∈ sensors, k.WF) :
    tensor flipX entries sensors = specTensor flipX entries sensors := by
  unfold tensor specTensor
  simp only []
  generalize pathLen (entries.flatMap Entry.leaves) sensors = M
  rw [stage_collapse (leafB sensors M) entries he]
  have hB1 : (entries.map fun e => sumT (e.leaves.map (leafB sensors M))) =
      entries.map fun e => (List.range M).map fun m =>
        ([] : List V) ++ sensors.flatMap (fun k => (pixPos k m).map fun x => (e.leaves.map fun s => level1 s m x).sum) := by
    apply List.map_congr_left
    intro e hmem
    have := sumT_map_rows e.leaves (he e hmem) (List.range M) (poso sensors) (fun s m x => level1 s m x)
    unfold leafB
    rw [this]
    apply List.map_congr_left
    intro m _
    rw [poso_eq_flatMap, List.map_flatMap, List.nil_append]
  rw [hB1, applySensors_eq_go]
  rw [sensGo_spec flipX entries M sensors (fun k hk => ⟨(hs k hk).1, (hs k hk).2.1⟩)
    (fun e m k => (pixPos k m).map fun x => (e.leaves.map fun s => level1 s m x).sum)
    (by intro e m k hk; rw [List.length_map, pixPos_length k (hs k hk).1 (hs k hk).2.1, (hs k hk).2.2])
    0 (fun _ _ => []) (by intro _ _; rfl)]
  rw [List.map_map]
  apply List.map_congr_left
  intro e _
  simp only [Function.comp, List.map_map]
  apply List.map_congr_left
  intro m _
  have hsplit := splitRow_pixInds sensors (fun k => ((pixPos k m).map fun x => (e.leaves.map fun s => level1 s m x).sum).map (sensT flipX k m))
    (by intro k hk; rw [List.length_map, List.length_map, pixPos_length k (hs k hk).1 (hs k hk).2.1, (hs k hk).2.2])
  simp only [Function.comp, List.nil_append, List.map_map] at hsplit ⊢
  rw [hsplit]
  rfl

/-! ### corollaries of the specification -/

/-- the same rigid motion applied to a sensor's whole path -/
def Sens.moved (Q : G) (t : V) (k : Sens G V) : Sens G V :=
  { k with pos := k.pos.map (fun p => Q • p + t), ori := k.ori.map (Q * ·) }

theorem pixPos_moved (Q : G) (t : V) (k : Sens G V) (m : Nat) :
    pixPos (k.moved Q t) m = (pixPos k m).map (fun x => Q • x + t) := by
  unfold pixPos Sens.moved
  simp only [clampGet_map]
  cases clampGet k.ori m with
  | none => simp
  | some r =>
    cases clampGet k.pos m with
    | none => simp
    | some p =>
      simp only [Option.map_some, List.map_map]
      apply List.map_congr_left
      intro px _
      simp only [Function.comp, mul_smul, smul_add, add_assoc]

theorem sensT_moved (flipX : V → V) (Q : G) (t : V) (k : Sens G V) (m : Nat) (v : V) :
    sensT flipX (k.moved Q t) m (Q • v) = sensT flipX k m v ∨ clampGet k.ori m = none := by
  cases h : clampGet k.ori m with
  | none => right; rfl
  | some r =>
    left
    unfold sensT Sens.moved
    simp only [clampGet_map, h, Option.map_some, mul_inv_rev, mul_smul, inv_smul_smul]

theorem sum_map_smul (Q : G) (l : List V) : (l.map (Q • ·)).sum = Q • l.sum := by
  induction l with
  | nil => simp
  | cons a l ih => simp [ih, smul_add]

/-- C03 with Sensor observers: moving every source and the sensor by one rigid motion leaves the
sensor's reading unchanged (the sensor turns with the system) -/
theorem specValue_moved (flipX : V → V) (Q : G) (t : V) (e e' : Entry G V)
    (hl : e'.leaves = e.leaves.map (Src.moved Q t)) (k : Sens G V) (hk : k.ori ≠ []) (m : Nat) (x : V) :
    specValue flipX e' (k.moved Q t) m (Q • x + t) = specValue flipX e k m x := by
  unfold specValue
  rw [hl, List.map_map]
  have : (e.leaves.map ((fun s => level1 s m (Q • x + t)) ∘ Src.moved Q t)) =
      (e.leaves.map fun s => level1 s m x).map (Q • ·) := by
    rw [List.map_map]
    apply List.map_congr_left
    intro s _
    exact level1_covariant Q t s m x
  rw [this, sum_map_smul]
  rcases sensT_moved flipX Q t k m ((e.leaves.map fun s => level1 s m x).sum) with h | h
  · exact h
  · obtain ⟨r, hr⟩ := clampGet_isSome k.ori hk m
    rw [hr] at h; cases h

theorem sum_flatten_map {α : Type} (f : α → V) (ls : List (List α)) :
    (ls.flatten.map f).sum = (ls.map fun l => (l.map f).sum).sum := by
  induction ls with
  | nil => simp
  | cons l ls ih =>
    simp only [List.flatten_cons, List.map_append, List.sum_append, List.map_cons, List.sum_cons, ih]

theorem sensT_add (flipX : V → V) (hf : ∀ a b, flipX (a + b) = flipX a + flipX b)
    (k : Sens G V) (m : Nat) (a b : V) :
    sensT flipX k m (a + b) = sensT flipX k m a + sensT flipX k m b := by
  unfold sensT
  cases clampGet k.ori m <;> by_cases hl : k.left = true <;> simp [hl, hf, smul_add]

theorem sensT_zero (flipX : V → V) (h0 : flipX 0 = 0) (k : Sens G V) (m : Nat) :
    sensT flipX k m 0 = 0 := by
  unfold sensT
  cases clampGet k.ori m <;> by_cases hl : k.left = true <;> simp [hl, h0]

theorem sensT_sum (flipX : V → V) (hf : ∀ a b, flipX (a + b) = flipX a + flipX b) (h0 : flipX 0 = 0)
    (k : Sens G V) (m : Nat) (l : List V) :
    sensT flipX k m l.sum = (l.map (sensT flipX k m)).sum := by
  induction l with
  | nil => simp [sensT_zero flipX h0]
  | cons a l ih => simp [sensT_add flipX hf, ih]

/-- C05: what a sensor reads from a Collection is the sum of what it reads from each child,
for every nesting -/
theorem specValue_coll (flipX : V → V) (hf : ∀ a b, flipX (a + b) = flipX a + flipX b) (h0 : flipX 0 = 0)
    (cs : List (Entry G V)) (k : Sens G V) (m : Nat) (x : V) :
    specValue flipX (.coll cs) k m x = (cs.map fun c => specValue flipX c k m x).sum := by
  unfold specValue
  simp only [Entry.leaves]
  rw [sum_flatten_map, sensT_sum flipX hf h0, List.map_map, List.map_map]
  rfl
end refines


/-! ### rigid motion of whole entries / sensors (used by Props/C03 end-to-end statements; added by the audit) -/
section movedEntries
variable [Group G] [AddCommGroup V] [DistribMulAction G V]

/-- the rigid motion applied to every leaf of a (nested) source entry -/
def Entry.moved (Q : G) (t : V) : Entry G V → Entry G V
  | .leaf s => .leaf (s.moved Q t)
  | .coll cs => .coll (cs.map (Entry.moved Q t))

theorem Entry.moved_leaves (Q : G) (t : V) (e : Entry G V) :
    (e.moved Q t).leaves = e.leaves.map (Src.moved Q t) := by
  induction e using Entry.leaves.induct with
  | case1 s => simp [Entry.moved, Entry.leaves]
  | case2 cs ih =>
    simp only [Entry.moved, Entry.leaves, List.map_map, List.map_flatten]
    congr 1
    apply List.map_congr_left
    intro c hc
    exact ih c hc

theorem flatMap_leaves_moved (Q : G) (t : V) (entries : List (Entry G V)) :
    (entries.map (Entry.moved Q t)).flatMap Entry.leaves =
      (entries.flatMap Entry.leaves).map (Src.moved Q t) := by
  induction entries with
  | nil => rfl
  | cons e es ih => simp only [List.map_cons, List.flatMap_cons, List.map_append, ih, Entry.moved_leaves]

theorem moved_leaves_ne_nil (Q : G) (t : V) (entries : List (Entry G V)) (he : ∀ e ∈ entries, e.leaves ≠ []) :
    ∀ e ∈ entries.map (Entry.moved Q t), e.leaves ≠ [] := by
  intro e h
  obtain ⟨e0, h0, rfl⟩ := List.mem_map.mp h
  rw [Entry.moved_leaves]
  simpa using he e0 h0

theorem Sens.moved_WF (Q : G) (t : V) (k : Sens G V) (h : k.WF) : (k.moved Q t).WF := by
  obtain ⟨h1, h2, h3⟩ := h
  refine ⟨?_, ?_, ?_⟩
  · simpa [Sens.moved] using h1
  · simp [Sens.moved, h2]
  · simpa [Sens.moved, pixNum] using h3

theorem pathLen_moved (Q : G) (t : V) (ls : List (Src G V)) (ks : List (Sens G V)) :
    pathLen (ls.map (Src.moved Q t)) (ks.map (Sens.moved Q t)) = pathLen ls ks := by
  unfold pathLen
  simp [List.map_map, Function.comp_def, Src.moved, Sens.moved]

omit [DistribMulAction G V] in
theorem obsSensor_WF (X : List V) : (obsSensor (G := G) X).WF :=
  ⟨by simp [obsSensor], by simp [obsSensor], by simp [obsSensor, pixNum]⟩

theorem pixPos_obsSensor (X : List V) (m : Nat) : pixPos (obsSensor (G := G) X) m = X := by
  simp [pixPos, obsSensor, clampGet]

theorem specValue_obsSensor (flipX : V → V) (e : Entry G V) (X : List V) (m : Nat) (x : V) :
    specValue flipX e (obsSensor (G := G) X) m x = (e.leaves.map fun s => level1 s m x).sum := by
  simp [specValue, sensT, obsSensor, clampGet]
end movedEntries

end MagpyVerif.Level2
