/-
Lemmas/CelvDiv.lean — the divisors of `celv` / `cel0` (special_cel.py; Model/Celv.lean) in exact arithmetic.

Every division of the routine, in the order of the source:
  prologue, `p > 0`:   `s / pp`                      with `pp = √p`
  prologue, `p <= 0`:  `f / g`, `(c - ss) / g`       with `g = 1 − p`
                       `-q / (g * g * pp)`           with `pp = √((kc² − p) / (1 − p))`
  common block:        `ss / pp`, `k / pp`           with the prologue's `pp`
  loop body:           `ss / pp`, `kk / pp`          with the current `pp` (= previous `g + pp`, `g = kk / pp`)
  return:              `… / (em * (em + pp))`
All of them are positive for `kc ≠ 0`, whatever `p`, `c`, `s`; for `kc = 0` and `p = 0` the prologue's `pp` is 0.
-/
import MagpyVerif.Lemmas.Celv

namespace MagpyVerif.Kern

theorem celvPre_pp_of_pos (kc p c s : ℝ) (hp : 0 < p) : (celvPre kc p c s).1 = √p := by
  have : ¬ p ≤ 0 := not_le.mpr hp
  simp [celvPre, Kern.n, this]

theorem celvPre_pp_of_nonpos (kc p c s : ℝ) (hp : p ≤ 0) : (celvPre kc p c s).1 = √((kc * kc - p) / (1 - p)) := by
  simp [celvPre, Kern.n, hp]

/-- the prologue's `pp` is positive for `kc ≠ 0` -/
theorem celvPre_pp_pos (kc p c s : ℝ) (hkc : kc ≠ 0) : 0 < (celvPre kc p c s).1 := by
  rcases lt_or_ge 0 p with hp | hp
  · rw [celvPre_pp_of_pos _ _ _ _ hp]; exact Real.sqrt_pos.2 hp
  · rw [celvPre_pp_of_nonpos _ _ _ _ hp]
    apply Real.sqrt_pos.2
    have h1 : 0 < kc * kc := mul_self_pos.mpr hkc
    apply div_pos <;> linarith

/-- … and it is 0 for `kc = 0`, `p = 0`: the divisions `-q / (g*g*pp)`, `ss / pp`, `k / pp` are by zero there (`cel0` raises before it
gets there; `celv` has no such guard, but does not return for `kc = 0` either: `celv_loops_at_zero`) -/
theorem celvPre_pp_zero (c s : ℝ) : (celvPre 0 0 c s).1 = 0 := by
  rw [celvPre_pp_of_nonpos _ _ _ _ le_rfl]; simp

theorem celvInit_pp (x : CelArg ℝ) :
    (celvInit x).pp = |x.kc| / (celvPre x.kc x.p x.c x.s).1 + (celvPre x.kc x.p x.c x.s).1 := by
  simp [celvInit]

@[simp] theorem celvStep_pp (r : CelvRow ℝ) : (celvStep r).pp = 2 * √r.kk * r.em / r.pp + r.pp := by
  simp [celvStep, Kern.n]

/-- the state on entry to the loop -/
theorem celvInit_pos (x : CelArg ℝ) (hkc : x.kc ≠ 0) :
    0 < (celvInit x).pp ∧ 0 < (celvInit x).em ∧ 0 < (celvInit x).kk := by
  have hk : 0 < |x.kc| := abs_pos.mpr hkc
  have hpp := celvPre_pp_pos x.kc x.p x.c x.s hkc
  refine ⟨?_, ?_, ?_⟩
  · rw [celvInit_pp]; positivity
  · rw [celvInit_em]; positivity
  · rw [celvInit_kk]; exact hk

theorem celvStep_pos {r : CelvRow ℝ} (hpp : 0 < r.pp) (hem : 0 < r.em) (hkk : 0 < r.kk) :
    0 < (celvStep r).pp ∧ 0 < (celvStep r).em ∧ 0 < (celvStep r).kk := by
  have hs : 0 < √r.kk := Real.sqrt_pos.2 hkk
  simp only [celvStep_pp, celvStep_em, celvStep_kk]
  exact ⟨by positivity, by positivity, by positivity⟩

theorem celvIterate_pos (x : CelArg ℝ) (hkc : x.kc ≠ 0) (m : ℕ) :
    0 < (celvStep^[m] (celvInit x)).pp ∧ 0 < (celvStep^[m] (celvInit x)).em ∧ 0 < (celvStep^[m] (celvInit x)).kk := by
  induction m with
  | zero => exact celvInit_pos x hkc
  | succ m ih =>
    rw [Function.iterate_succ_apply']
    exact celvStep_pos ih.1 ih.2.1 ih.2.2

/-- a value `celv` returns for an entry is the return expression after `m ≥ 1` passes of the loop body (any carrier): the divisions
executed are those of the prologue, of the passes `0 … m−1` and of the return expression at pass `m` -/
theorem celvDo_some_spec {α : Type} [Num α] (fuel : ℕ) : ∀ (r : CelvRow α) (v : α), celvDo fuel r = some v →
    ∃ m, 1 ≤ m ∧ m ≤ fuel ∧ v = celvOut (celvStep^[m] r) := by
  induction fuel with
  | zero => intro r v h; simp [celvDo] at h
  | succ n ih =>
    intro r v h
    rw [celvDo] at h
    split_ifs at h with hc
    · obtain ⟨m, h1, h2, hv⟩ := ih _ _ h
      exact ⟨m + 1, by omega, by omega, by rw [Function.iterate_succ_apply]; exact hv⟩
    · exact ⟨1, le_rfl, by omega, by simpa using (Option.some.inj h).symm⟩

end MagpyVerif.Kern
