/-
Lemmas/StyleState.lean — helper lemmas about the defaults / style state machine (Model/StyleState.lean):
frame lemmas of the world, the shape of the `DefaultSettings` tree, `reset` does not read the old state,
failed attribute assignments leave the tree as it was.
-/
import MagpyVerif.Model.StyleState
import MagpyVerif.Lemmas.StyleNested

namespace MagpyVerif.StyleState
open MagpyVerif.StyleNested

/-! ### dict primitives -/

theorem setKey_self {α : Type} {k : Key} {v : α} : ∀ {l : List (Key × α)}, lookup k l = some v → setKey k v l = l := by
  intro l
  induction l with
  | nil => intro h; simp at h
  | cons hd t ih =>
    obtain ⟨k', v'⟩ := hd
    intro h
    by_cases hk : k' = k
    · simp only [lookup_cons, hk, if_true] at h
      injection h with h
      simp [setKey, hk, h]
    · simp only [lookup_cons, hk, if_false] at h
      simp [setKey, hk, ih h]

/-! ### Boolean equality of trees is equality -/

mutual
theorem eq_of_beq : ∀ (a b : Tree), a.beq b = true → a = b
  | .leaf x, .leaf y, h => by simp only [Tree.beq, beq_iff_eq] at h; rw [h]
  | .node a, .node b, h => by rw [eq_of_beqKids a b (by simpa [Tree.beq] using h)]
  | .leaf _, .node _, h => by simp [Tree.beq] at h
  | .node _, .leaf _, h => by simp [Tree.beq] at h
theorem eq_of_beqKids : ∀ (a b : List (Key × Tree)), beqKids a b = true → a = b
  | [], [], _ => rfl
  | (k, v) :: r, (k', v') :: r', h => by
    simp only [beqKids, Bool.and_eq_true, beq_iff_eq] at h
    rw [h.1.1, eq_of_beq v v' h.1.2, eq_of_beqKids r r' h.2]
  | [], _ :: _, h => by simp [beqKids] at h
  | _ :: _, [], h => by simp [beqKids] at h
end

/-! ### the loop of `update` -/

theorem setAllS_nil (T : Tables) (props : List (Key × Schema)) (others : List Str) (cur : Dict) :
    setAllS T props others cur [] = (cur, .ok ()) := rfl

theorem setAllS_cons (T : Tables) (props : List (Key × Schema)) (others : List Str) (cur : Dict) (k : Key) (v : Tree) (rest : Dict) :
    setAllS T props others cur ((k, v) :: rest) =
      match setAttr T props others cur k v with
      | .ok cur' => setAllS T props others cur' rest
      | .error e => (cur, .error e) := rfl

theorem setAllS_append (T : Tables) (props : List (Key × Schema)) (others : List Str) : ∀ (a b cur : Dict),
    setAllS T props others cur (a ++ b) =
      match setAllS T props others cur a with
      | (c, .ok _) => setAllS T props others c b
      | (c, .error e) => (c, .error e) := by
  intro a
  induction a with
  | nil => intro b cur; simp [setAllS_nil]
  | cons hd t ih =>
    obtain ⟨k, v⟩ := hd
    intro b cur
    simp only [List.cons_append, setAllS_cons]
    cases setAttr T props others cur k v with
    | ok c => simp only []; exact ih b c
    | error e => simp

/-- if some item of the loop is rejected in every state, the loop raises -/
theorem setAllS_error_of_mem (T : Tables) (props : List (Key × Schema)) (others : List Str) (k : Key) (v : Tree)
    (hbad : ∀ c, ∃ e, setAttr T props others c k v = .error e) :
    ∀ (items cur : Dict), (k, v) ∈ items → ∃ e, (setAllS T props others cur items).2 = .error e := by
  intro items
  induction items with
  | nil => intro cur h; cases h
  | cons hd t ih =>
    obtain ⟨k', v'⟩ := hd
    intro cur h
    rw [setAllS_cons]
    cases hs : setAttr T props others cur k' v' with
    | error e => exact ⟨e, rfl⟩
    | ok c' =>
      rcases List.mem_cons.mp h with heq | hmem
      · injection heq with h1 h2
        subst h1; subst h2
        obtain ⟨e, he⟩ := hbad cur
        rw [he] at hs; cases hs
      · exact ih c' hmem

/-- `update` either succeeds or raises with the object as it was -/
theorem updateObj_cases (T : Tables) (props : List (Key × Schema)) (others : List Str) (cur : Dict) (arg : Option Tree)
    (kwargs : Dict) (mt rno : Bool) :
    (∃ e, updateObj T props others cur arg kwargs mt rno = (cur, .error e)) ∨
    (∃ c u, updateObj T props others cur arg kwargs mt rno = (c, .ok u)) := by
  unfold updateObj
  simp only []
  split
  · exact .inl ⟨_, rfl⟩
  · split
    · exact .inl ⟨_, rfl⟩
    · split
      · exact .inl ⟨_, rfl⟩
      · exact .inl ⟨_, rfl⟩
      · split
        · exact .inr ⟨_, _, rfl⟩
        · exact .inl ⟨_, rfl⟩

/-- **`update` is all or nothing** (repo fix cea5f08): when it raises, the object is as it was -/
theorem updateObj_error_unchanged (T : Tables) (props : List (Key × Schema)) (others : List Str) (cur : Dict) (arg : Option Tree)
    (kwargs : Dict) (mt rno : Bool) (e : Kind) (h : (updateObj T props others cur arg kwargs mt rno).2 = .error e) :
    (updateObj T props others cur arg kwargs mt rno).1 = cur := by
  rcases updateObj_cases T props others cur arg kwargs mt rno with ⟨e', he⟩ | ⟨c, u, hc⟩
  · rw [he]
  · rw [hc] at h; cases h

/-! ### the world -/

theorem setTree_getElem?_ne (w : World) (i j : Nat) (t : Dict) (h : j ≠ i) : (setTree w i t)[j]? = w[j]? := by
  unfold setTree
  cases hi : w[i]? with
  | none => rfl
  | some o => simp only []; rw [List.getElem?_set_ne (Ne.symm h)]

theorem setTree_getElem?_self (w : World) (i : Nat) (t : Dict) (o : Obj) (h : w[i]? = some o) :
    (setTree w i t)[i]? = some { o with tree := t } := by
  unfold setTree
  simp only [h]
  have hl : i < w.length := by
    rcases Nat.lt_or_ge i w.length with hlt | hge
    · exact hlt
    · rw [List.getElem?_eq_none hge] at h; cases h
  simp [List.getElem?_set_self hl]

theorem setTree_same (w : World) (i : Nat) (o : Obj) (h : w[i]? = some o) : setTree w i o.tree = w := by
  unfold setTree
  simp only [h]
  apply List.ext_getElem?
  intro j
  by_cases hj : i = j
  · subst hj
    have hl : i < w.length := by
      rcases Nat.lt_or_ge i w.length with hlt | hge
      · exact hlt
      · rw [List.getElem?_eq_none hge] at h; cases h
    rw [List.getElem?_set_self hl, h]
  · rw [List.getElem?_set_ne hj]

theorem setTree_length (w : World) (i : Nat) (t : Dict) : (setTree w i t).length = w.length := by
  unfold setTree
  cases w[i]? <;> simp

theorem onObj_getElem?_ne (Cs : List ClassInfo) (w : World) (i j : Nat)
    (f : List (Key × Schema) → List Str → Dict → Dict × Except Kind Unit) (h : j ≠ i) :
    (onObj Cs w i f).1[j]? = w[j]? := by
  unfold onObj
  cases w[i]? with
  | none => rfl
  | some o =>
    simp only []
    cases Cs[o.cls]? with
    | none => rfl
    | some c => simp only []; exact setTree_getElem?_ne w i j _ h

/-- **frame**: an operation changes no object but its target -/
theorem step_frame (T : Tables) (Cs : List ClassInfo) (D : Tree) (w : World) (op : Op) (j : Nat) (h : j ≠ op.target) :
    (step T Cs D w op).1[j]? = w[j]? := by
  cases op with
  | update i path arg kwargs mt rno => exact onObj_getElem?_ne Cs w i j _ h
  | setattr i path name val => exact onObj_getElem?_ne Cs w i j _ h
  | reset => exact onObj_getElem?_ne Cs w 0 j _ h
  | resetStyle => exact onObj_getElem?_ne Cs w 0 j _ h
  | setStyle i val =>
    simp only [step]
    split
    · rfl
    · cases val with
      | leaf v =>
        cases v with
        | none => exact onObj_getElem?_ne Cs w i j _ h
        | some n => rfl
      | node kv => exact onObj_getElem?_ne Cs w i j _ h
  | setStyleObj i k =>
    simp only [step]
    split
    · rfl
    · split
      · split
        · split <;> rfl
        · rfl
      · rfl
  | read i path =>
    simp only [step]
    split
    · rfl
    · split
      · rfl
      · split <;> rfl

theorem exec_nil (T : Tables) (Cs : List ClassInfo) (D : Tree) (w : World) : exec T Cs D w [] = w := rfl

theorem exec_cons (T : Tables) (Cs : List ClassInfo) (D : Tree) (w : World) (op : Op) (ops : List Op) :
    exec T Cs D w (op :: ops) = exec T Cs D (step T Cs D w op).1 ops := rfl

theorem exec_append (T : Tables) (Cs : List ClassInfo) (D : Tree) : ∀ (a b : List Op) (w : World),
    exec T Cs D w (a ++ b) = exec T Cs D (exec T Cs D w a) b := by
  intro a
  induction a with
  | nil => intro b w; rfl
  | cons op t ih => intro b w; simp only [List.cons_append, exec_cons]; exact ih b _

/-- a history none of whose operations targets object `j` leaves object `j` as it was -/
theorem exec_frame (T : Tables) (Cs : List ClassInfo) (D : Tree) : ∀ (ops : List Op) (w : World) (j : Nat),
    (∀ op ∈ ops, op.target ≠ j) → (exec T Cs D w ops)[j]? = w[j]? := by
  intro ops
  induction ops with
  | nil => intro w j _; rfl
  | cons op t ih =>
    intro w j h
    rw [exec_cons, ih _ j (fun o ho => h o (List.mem_cons_of_mem _ ho))]
    exact step_frame T Cs D w op j (Ne.symm (h op (List.mem_cons_self ..)))

/-! ### failed operations on a sub-object -/

theorem atPath_nil (f : List (Key × Schema) → List Str → Dict → Dict × Except Kind Unit) (props : List (Key × Schema))
    (others : List Str) (cur : Dict) : atPath f props others cur [] = f props others cur := rfl

/-- if the operation itself leaves the sub-object unchanged when it raises, so does the operation at a path
(also when the path cannot be followed) -/
theorem atPath_error_unchanged (f : List (Key × Schema) → List Str → Dict → Dict × Except Kind Unit)
    (hf : ∀ ps os c e, (f ps os c).2 = .error e → (f ps os c).1 = c) :
    ∀ (path : List Key) (props : List (Key × Schema)) (others : List Str) (cur : Dict) (e : Kind),
      (atPath f props others cur path).2 = .error e → (atPath f props others cur path).1 = cur := by
  intro path
  induction path with
  | nil => intro props others cur e h; exact hf _ _ _ e h
  | cons k ks ih =>
    intro props others cur e h
    unfold atPath at h ⊢
    split at h
    · rename_i ps os _ _ _ sub hp hc
      simp only [] at h ⊢
      rw [ih ps os sub e h]
      exact setKey_self hc
    · rfl

/-! ### the `DefaultSettings` tree: one property `display`, a sub-object -/

/-- the key `display` -/
def dk : Key := .str "display".toList

/-- the shape of `magpylib.defaults.as_dict()` at top level: `{"display": …}` -/
def Shape0 (t : Dict) : Prop := ∃ x, t = [(dk, x)]

theorem setKey_shape0 (v x : Tree) : Shape0 (setKey dk v [(dk, x)]) := ⟨v, by simp [setKey]⟩

section shape0
variable (T : Tables) (ps : List (Key × Schema)) (os : List Str) (sh : Option Key) (ct : List (Key × Option Val)) (vk : Bool)
  (others : List Str)

theorem setAttr_shape0 (x : Tree) (k : Key) (v : Tree) (c' : Dict)
    (h : setAttr T [(dk, .obj ps os sh ct vk)] others [(dk, x)] k v = .ok c') : Shape0 c' := by
  unfold setAttr at h
  by_cases hk : dk = k
  · subst hk
    simp only [lookup_cons, if_true] at h
    rw [setProp] at h
    split at h
    · cases h
    · split at h
      · cases h
      · split at h
        · injection h with h
          subst h
          exact setKey_shape0 _ _
        · cases h
  · simp only [lookup_cons, hk, if_false, lookup_nil] at h
    split at h
    · split at h <;> cases h
    · cases h

theorem setAllS_shape0 : ∀ (items cur : Dict), Shape0 cur →
    Shape0 (setAllS T [(dk, .obj ps os sh ct vk)] others cur items).1 := by
  intro items
  induction items with
  | nil => intro cur h; exact h
  | cons hd t ih =>
    obtain ⟨k, v⟩ := hd
    intro cur h
    rw [setAllS_cons]
    cases hs : setAttr T [(dk, .obj ps os sh ct vk)] others cur k v with
    | error e => exact h
    | ok c' =>
      obtain ⟨x, rfl⟩ := h
      exact ih c' (setAttr_shape0 T ps os sh ct vk others x k v c' hs)

theorem updateObj_shape0 (cur : Dict) (h : Shape0 cur) (arg : Option Tree) (kwargs : Dict) (mt rno : Bool) :
    Shape0 (updateObj T [(dk, .obj ps os sh ct vk)] others cur arg kwargs mt rno).1 := by
  unfold updateObj
  simp only []
  split
  · exact h
  · split
    · exact h
    · split
      · exact h
      · exact h
      · rename_i nd _
        have := setAllS_shape0 T ps os sh ct vk others nd cur h
        split
        · rename_i c u heq
          rw [heq] at this
          exact this
        · exact h

theorem atPath_shape0 (f : List (Key × Schema) → List Str → Dict → Dict × Except Kind Unit) (path : List Key)
    (hf : path = [] → ∀ cur, Shape0 cur → Shape0 (f [(dk, .obj ps os sh ct vk)] others cur).1) (cur : Dict) (h : Shape0 cur) :
    Shape0 (atPath f [(dk, .obj ps os sh ct vk)] others cur path).1 := by
  cases path with
  | nil => exact hf rfl cur h
  | cons k ks =>
    unfold atPath
    split
    · rename_i hp hc
      obtain ⟨x, rfl⟩ := h
      by_cases hk : dk = k
      · subst hk
        exact setKey_shape0 (Tree.node (atPath f _ _ _ ks).1) x
      · simp [lookup_cons, hk] at hc
    · exact h

/-- `reset` at a state of this shape does not read the old `display` object: it is replaced before the update -/
theorem resetDefaults_shape (D : Tree) (x : Tree) :
    resetDefaults T D [(dk, .obj ps os sh ct vk)] others [(dk, x)] =
      match construct T ps ct vk [] with
      | .error e => ([(dk, x)], .error e)
      | .ok r => updateObj T [(dk, .obj ps os sh ct vk)] others [(dk, .node r)] (some D) [] false false := by
  unfold resetDefaults setAttr
  have hl : lookup (Key.str "display".toList) [(dk, Schema.obj ps os sh ct vk)] = some (Schema.obj ps os sh ct vk) := by
    simp [lookup_cons, dk]
  rw [hl]
  simp only []
  rw [setProp]
  simp only [objKwargs, construct]
  cases ctorDict ps ct vk [] with
  | error e => rfl
  | ok g =>
    simp only []
    cases constructProps T ps g ps [] with
    | error e => rfl
    | ok r => simp [setKey, dk]

theorem resetDefaults_indep (D : Tree) (x y : Tree) (r : Dict) (hok : construct T ps ct vk [] = .ok r) :
    resetDefaults T D [(dk, .obj ps os sh ct vk)] others [(dk, x)] =
    resetDefaults T D [(dk, .obj ps os sh ct vk)] others [(dk, y)] := by
  rw [resetDefaults_shape, resetDefaults_shape, hok]

theorem resetDefaults_shape0 (D : Tree) (cur : Dict) (h : Shape0 cur) :
    Shape0 (resetDefaults T D [(dk, .obj ps os sh ct vk)] others cur).1 := by
  obtain ⟨x, rfl⟩ := h
  rw [resetDefaults_shape]
  cases construct T ps ct vk [] with
  | error e => exact ⟨x, rfl⟩
  | ok r => exact updateObj_shape0 T ps os sh ct vk others _ ⟨_, rfl⟩ _ _ _ _

theorem resetStyle_shape0 (D : Tree) (cur : Dict) (h : Shape0 cur) :
    Shape0 (resetStyle T D [(dk, .obj ps os sh ct vk)] others cur).1 := by
  unfold resetStyle
  split
  · exact atPath_shape0 ps os sh ct vk others _ _ (fun hn => by cases hn) cur h
  · exact h

end shape0

/-! ### sub-objects -/

/-- the sub-object `self.k1.….kn`: its properties, other attributes and state -/
def subObj : List (Key × Schema) → List Str → Dict → List Key → Option (List (Key × Schema) × List Str × Dict)
  | ps, os, c, [] => some (ps, os, c)
  | ps, _, c, k :: ks =>
    match lookup k ps, lookup k c with
    | some (.obj ps' os' _ _ _), some (.node sub) => subObj ps' os' sub ks
    | _, _ => none

/-- an operation that raises on the sub-object at `path` without changing it leaves the whole object unchanged -/
theorem atPath_of_subObj_error (f : List (Key × Schema) → List Str → Dict → Dict × Except Kind Unit) (e : Kind) :
    ∀ (path : List Key) (ps : List (Key × Schema)) (os : List Str) (c : Dict) (ps' : List (Key × Schema)) (os' : List Str) (c' : Dict),
      subObj ps os c path = some (ps', os', c') → f ps' os' c' = (c', .error e) → atPath f ps os c path = (c, .error e) := by
  intro path
  induction path with
  | nil =>
    intro ps os c ps' os' c' h hf
    simp only [subObj, Option.some.injEq, Prod.mk.injEq] at h
    obtain ⟨rfl, rfl, rfl⟩ := h
    exact hf
  | cons k ks ih =>
    intro ps os c ps' os' c' h hf
    unfold subObj at h
    unfold atPath
    split at h
    · rename_i hp hc
      simp only [hp, hc]
      rw [ih _ _ _ _ _ _ h hf]
      simp only []
      rw [setKey_self hc]
    · cases h

/-! ### all class nodes of a schema -/

mutual
/-- (properties, assignable other names) of a class and of every class nested in it -/
def Schema.nodes : Schema → List (List (Key × Schema) × List Str)
  | .obj ps os _ _ _ => (ps, os) :: nodesL ps
  | .leaf _ => []
  | .alias _ => []
def nodesL : List (Key × Schema) → List (List (Key × Schema) × List Str)
  | [] => []
  | (_, s) :: r => s.nodes ++ nodesL r
end

theorem nodes_of_lookup {k : Key} {s : Schema} : ∀ {ps : List (Key × Schema)}, lookup k ps = some s →
    ∀ x ∈ s.nodes, x ∈ nodesL ps := by
  intro ps
  induction ps with
  | nil => intro h; simp at h
  | cons hd t ih =>
    obtain ⟨k', s'⟩ := hd
    intro h x hx
    rw [nodesL]
    by_cases hk : k' = k
    · simp only [lookup_cons, hk, if_true] at h
      injection h with h
      subst h
      exact List.mem_append_left _ hx
    · simp only [lookup_cons, hk, if_false] at h
      exact List.mem_append_right _ (ih h x hx)

/-- the class of a sub-object reached by attribute access is one of the classes nested in the schema -/
theorem subObj_mem_nodes : ∀ (path : List Key) (ps : List (Key × Schema)) (os : List Str) (c : Dict)
    (ps' : List (Key × Schema)) (os' : List Str) (c' : Dict),
    subObj ps os c path = some (ps', os', c') → (ps', os') ∈ (ps, os) :: nodesL ps := by
  intro path
  induction path with
  | nil =>
    intro ps os c ps' os' c' h
    simp only [subObj, Option.some.injEq, Prod.mk.injEq] at h
    obtain ⟨rfl, rfl, rfl⟩ := h
    exact List.mem_cons_self ..
  | cons k ks ih =>
    intro ps os c ps' os' c' h
    unfold subObj at h
    split at h
    · rename_i ps1 os1 sh ct vk sub hp hc
      have h1 := ih ps1 os1 sub ps' os' c' h
      have h2 : (ps', os') ∈ (Schema.obj ps1 os1 sh ct vk).nodes := by rw [Schema.nodes]; exact h1
      exact List.mem_cons_of_mem _ (nodes_of_lookup hp _ h2)
    · cases h

/-! ### leaf assignments at a path: acceptance, read-back, frame -/

/-- the validator row of the leaf at a path of a schema (`none`: the path does not name a plain property) -/
def leafVid : List (Key × Schema) → List Key → Option Nat
  | _, [] => none
  | ps, [k] => match lookup k ps with | some (.leaf vid) => some vid | _ => none
  | ps, k :: k2 :: ks => match lookup k ps with | some (.obj ps' _ _ _ _) => leafVid ps' (k2 :: ks) | _ => none

/-- the attribute assignment `X.k = val` as the in-place operation `step` runs at a path -/
def assignOp (T : Tables) (k : Key) (val : Tree) : List (Key × Schema) → List Str → Dict → Dict × Except Kind Unit :=
  fun ps' os' c => match setAttr T ps' os' c k val with
    | .ok c' => (c', .ok ())
    | .error e => (c, .error e)

theorem leafVid_cons_append (ps : List (Key × Schema)) (k1 k : Key) (p : List Key) :
    leafVid ps (k1 :: (p ++ [k])) =
      match lookup k1 ps with | some (.obj ps' _ _ _ _) => leafVid ps' (p ++ [k]) | _ => none := by
  cases p <;> rfl

theorem setAttr_leaf (T : Tables) (ps : List (Key × Schema)) (os : List Str) (c : Dict) (k : Key) (val : Tree) (vid : Nat)
    (hk : lookup k ps = some (.leaf vid)) :
    setAttr T ps os c k val = match runV T vid val with | .ok v => .ok (setKey k (.leaf v) c) | .error e => .error e := by
  simp only [setAttr, hk]
  rw [setProp]
  cases runV T vid val <;> rfl

/-- an accepted assignment to a path that names a plain property: the path was followed, the setter accepted -/
theorem assign_accepted_elim (T : Tables) (k : Key) (val : Tree) :
    ∀ (p : List Key) (ps : List (Key × Schema)) (os : List Str) (c : Dict) (vid : Nat),
      leafVid ps (p ++ [k]) = some vid → (atPath (assignOp T k val) ps os c p).2 = .ok () →
      ∃ ps' os' c' v', subObj ps os c p = some (ps', os', c') ∧ lookup k ps' = some (.leaf vid) ∧ runV T vid val = .ok v' := by
  intro p
  induction p with
  | nil =>
    intro ps os c vid h hacc
    have hk : lookup k ps = some (.leaf vid) := by
      simp only [List.nil_append, leafVid] at h
      split at h
      · rename_i vid' hl; injection h with h; rw [hl, h]
      · cases h
    rw [atPath_nil, assignOp, setAttr_leaf T ps os c k val vid hk] at hacc
    cases hv : runV T vid val with
    | ok v' => exact ⟨ps, os, c, v', rfl, hk, rfl⟩
    | error e => rw [hv] at hacc; cases hacc
  | cons k1 p' ih =>
    intro ps os c vid h hacc
    rw [List.cons_append, leafVid_cons_append] at h
    split at h
    · rename_i ps1 os1 sh ct vk hp
      unfold atPath at hacc
      cases hc : lookup k1 c with
      | none => rw [hp, hc] at hacc; cases hacc
      | some t =>
        cases t with
        | leaf v => rw [hp, hc] at hacc; cases hacc
        | node sub =>
          rw [hp, hc] at hacc
          obtain ⟨ps', os', c', v', h1, h2, h3⟩ := ih ps1 os1 sub vid h hacc
          refine ⟨ps', os', c', v', ?_, h2, h3⟩
          unfold subObj
          rw [hp, hc]
          exact h1
    · cases h

/-- **frame of an accepted leaf assignment**: every OTHER plain property of the object, at any depth, reads as before -/
theorem assign_frame (T : Tables) (k : Key) (val : Tree) (vid : Nat) (v' : Option Val) (hv : runV T vid val = .ok v') :
    ∀ (p : List Key) (ps : List (Key × Schema)) (os : List Str) (c : Dict) (ps' : List (Key × Schema)) (os' : List Str) (c' : Dict)
      (q : List Key) (vq : Nat),
      subObj ps os c p = some (ps', os', c') → lookup k ps' = some (.leaf vid) → leafVid ps q = some vq → q ≠ p ++ [k] →
      readPath ps (atPath (assignOp T k val) ps os c p).1 q = readPath ps c q := by
  intro p
  induction p with
  | nil =>
    intro ps os c ps' os' c' q vq h hk hq hne
    simp only [subObj, Option.some.injEq, Prod.mk.injEq] at h
    obtain ⟨rfl, rfl, rfl⟩ := h
    rw [atPath_nil, assignOp, setAttr_leaf T ps os c k val vid hk, hv]
    simp only []
    cases q with
    | nil => simp [leafVid] at hq
    | cons k0 ks =>
      cases ks with
      | nil =>
        have hk0 : ∃ v0, lookup k0 ps = some (.leaf v0) := by
          simp only [leafVid] at hq
          split at hq
          · rename_i v0 hl; exact ⟨v0, hl⟩
          · cases hq
        obtain ⟨v0, hk0⟩ := hk0
        have hkk : k ≠ k0 := by intro e; apply hne; rw [e]; rfl
        simp only [readPath, hk0, lookup_setKey_ne hkk]
      | cons k2 ks' =>
        have hk0 : ∃ ps1 os1 sh ct vk, lookup k0 ps = some (.obj ps1 os1 sh ct vk) := by
          simp only [leafVid] at hq
          split at hq
          · rename_i ps1 os1 sh ct vk hl; exact ⟨ps1, os1, sh, ct, vk, hl⟩
          · cases hq
        obtain ⟨ps1, os1, sh, ct, vk, hk0⟩ := hk0
        have hkk : k ≠ k0 := by intro e; rw [e, hk0] at hk; cases hk
        simp only [readPath, hk0, lookup_setKey_ne hkk]
  | cons k1 p' ih =>
    intro ps os c ps' os' c' q vq h hk hq hne
    unfold subObj at h
    split at h
    · rename_i ps1 os1 sh ct vk sub hp hc
      unfold atPath
      simp only [hp, hc]
      cases q with
      | nil => simp [leafVid] at hq
      | cons k0 ks =>
        by_cases hkk : k1 = k0
        · subst hkk
          cases ks with
          | nil => simp [leafVid, hp] at hq
          | cons k2 ks' =>
            have hq' : leafVid ps1 (k2 :: ks') = some vq := by simpa [leafVid, hp] using hq
            have hne' : k2 :: ks' ≠ p' ++ [k] := by intro e; apply hne; rw [e]; rfl
            simp only [readPath, hp, lookup_setKey_self, hc]
            exact ih ps1 os1 sub ps' os' c' (k2 :: ks') vq h hk hq' hne'
        · cases ks with
          | nil =>
            have hk0 : ∃ v0, lookup k0 ps = some (.leaf v0) := by
              simp only [leafVid] at hq
              split at hq
              · rename_i v0 hl; exact ⟨v0, hl⟩
              · cases hq
            obtain ⟨v0, hk0⟩ := hk0
            simp only [readPath, hk0, lookup_setKey_ne hkk]
          | cons k2 ks' =>
            have hk0 : ∃ ps2 os2 sh2 ct2 vk2, lookup k0 ps = some (.obj ps2 os2 sh2 ct2 vk2) := by
              simp only [leafVid] at hq
              split at hq
              · rename_i ps2 os2 sh2 ct2 vk2 hl; exact ⟨ps2, os2, sh2, ct2, vk2, hl⟩
              · cases hq
            obtain ⟨ps2, os2, sh2, ct2, vk2, hk0⟩ := hk0
            simp only [readPath, hk0, lookup_setKey_ne hkk]
    · cases h

/-! ### stable states: re-assigning every property its own value changes nothing -/

/-- `obj.update()` (which re-assigns every property from `as_dict()`) succeeds and changes nothing -/
def Stable (T : Tables) (props : List (Key × Schema)) (others : List Str) (cur : Dict) : Prop :=
  setAllS T props others cur cur = (cur, .ok ())

def isOkU : Except Kind Unit → Bool
  | .ok _ => true
  | .error _ => false

def stableB (T : Tables) (props : List (Key × Schema)) (others : List Str) (cur : Dict) : Bool :=
  isOkU (setAllS T props others cur cur).2 && beqKids (setAllS T props others cur cur).1 cur

theorem stable_of_stableB (T : Tables) (props : List (Key × Schema)) (others : List Str) (cur : Dict)
    (h : stableB T props others cur = true) : Stable T props others cur := by
  unfold stableB at h
  simp only [Bool.and_eq_true] at h
  unfold Stable
  have h1 := eq_of_beqKids _ _ h.2
  have h2 : (setAllS T props others cur cur).2 = .ok () := by
    cases hh : (setAllS T props others cur cur).2 with
    | ok u => rfl
    | error e => rw [hh] at h; simp [isOkU] at h
  exact Prod.ext h1 h2

end MagpyVerif.StyleState
