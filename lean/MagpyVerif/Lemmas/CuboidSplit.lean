/-
Lemmas/CuboidSplit.lean — the field of a Cuboid is the sum of the fields of the Cuboids it is cut into.

Route.  `cuboidB_eq_coulomb` (Lemmas/CuboidCoulomb.lean) writes the port of `magnet_cuboid_Bfield` as the
Coulombian surface-charge integral over the six faces plus the polarization inside; `faceX_x … faceZ_z`
evaluate every face integral as the mixed second difference `d2` of an antiderivative over the four corners
of the face, in observer − source offsets.  In these offsets a cuboid occupying `[lo, hi]` seen from `p` is
the "offset box" `(p.x − hi.x, p.x − lo.x) × (p.y − hi.y, p.y − lo.y) × (p.z − hi.z, p.z − lo.z)`, and

  * the faces parallel to the cut are `d2`s over a rectangle that is split in one of its ranges:
    `d2` is additive in each range (pure algebra — this IS the additivity of the iterated integral, already
    integrated);
  * the outer faces perpendicular to the cut axis belong to one part each;
  * the two internal faces at the cut carry `+J·n` and `−J·n` over the same rectangle at the same normal offset:
    they cancel literally;
  * the indicator "offsets straddle 0 in all three axes" of the whole is the sum of the indicators of the parts
    when the observer is not in the cut plane.

`boxB` is that offset-box expression; `cuboidB_eq_boxB` ties it to the model function `cuboidB`,
`bhjmCuboid_eq_box` to the wrapper `bhjmCuboid` outside the surface shells.
-/
import MagpyVerif.Lemmas.CuboidCoulomb

namespace MagpyVerif.CuboidSplit
open MagpyVerif MagpyVerif.Kern MagpyVerif.RectCharge MagpyVerif.CuboidCoulomb Real

/-! ### the offset box -/

/-- one Cartesian component of the six-face corner sum.  `FX w u v` is the antiderivative for a face `x' = const`
at normal offset `w`, corner offsets `(u, v) = (y, z)`; `FY w u v` has `(u, v) = (x, z)`; `FZ w u v` has
`(u, v) = (x, y)`.  The face at the *upper* source coordinate has the *lower* offset and charge `+J·n`. -/
noncomputable def boxComp (pol : V3 ℝ) (FX FY FZ : ℝ → ℝ → ℝ → ℝ) (x1 x2 y1 y2 z1 z2 : ℝ) : ℝ :=
  1 / (4 * Real.pi) *
    (pol.x * d2 (FX x1) y1 y2 z1 z2 + (-pol.x) * d2 (FX x2) y1 y2 z1 z2 +
     pol.y * d2 (FY y1) x1 x2 z1 z2 + (-pol.y) * d2 (FY y2) x1 x2 z1 z2 +
     pol.z * d2 (FZ z1) x1 x2 y1 y2 + (-pol.z) * d2 (FZ z2) x1 x2 y1 y2)

theorem boxComp_split_x (pol : V3 ℝ) (FX FY FZ : ℝ → ℝ → ℝ → ℝ) (x1 x2 x3 y1 y2 z1 z2 : ℝ) :
    boxComp pol FX FY FZ x1 x3 y1 y2 z1 z2 =
      boxComp pol FX FY FZ x1 x2 y1 y2 z1 z2 + boxComp pol FX FY FZ x2 x3 y1 y2 z1 z2 := by
  unfold boxComp d2; ring

theorem boxComp_split_y (pol : V3 ℝ) (FX FY FZ : ℝ → ℝ → ℝ → ℝ) (x1 x2 y1 y2 y3 z1 z2 : ℝ) :
    boxComp pol FX FY FZ x1 x2 y1 y3 z1 z2 =
      boxComp pol FX FY FZ x1 x2 y1 y2 z1 z2 + boxComp pol FX FY FZ x1 x2 y2 y3 z1 z2 := by
  unfold boxComp d2; ring

theorem boxComp_split_z (pol : V3 ℝ) (FX FY FZ : ℝ → ℝ → ℝ → ℝ) (x1 x2 y1 y2 z1 z2 z3 : ℝ) :
    boxComp pol FX FY FZ x1 x2 y1 y2 z1 z3 =
      boxComp pol FX FY FZ x1 x2 y1 y2 z1 z2 + boxComp pol FX FY FZ x1 x2 y1 y2 z2 z3 := by
  unfold boxComp d2; ring

/-- the surface-charge field (μ₀H) of the offset box -/
noncomputable def boxC (pol : V3 ℝ) (x1 x2 y1 y2 z1 z2 : ℝ) : V3 ℝ :=
  ⟨boxComp pol (fun w u v => Real.arctan (u * v / (w * dist3 w u v))) (fun w u v => Real.log (dist3 u w v - v))
      (fun w u v => Real.log (dist3 u v w - v)) x1 x2 y1 y2 z1 z2,
   boxComp pol (fun w u v => Real.log (dist3 w u v - v)) (fun w u v => Real.arctan (u * v / (w * dist3 u w v)))
      (fun w u v => -Real.log (u + dist3 u v w)) x1 x2 y1 y2 z1 z2,
   boxComp pol (fun w u v => Real.log (dist3 w u v - u)) (fun w u v => -Real.log (u + dist3 u w v))
      (fun w u v => Real.arctan (u * v / (w * dist3 u v w))) x1 x2 y1 y2 z1 z2⟩

/-- the observer is strictly inside: every offset range straddles 0 -/
abbrev boxIn (x1 x2 y1 y2 z1 z2 : ℝ) : Prop := (x1 < 0 ∧ 0 < x2) ∧ (y1 < 0 ∧ 0 < y2) ∧ (z1 < 0 ∧ 0 < z2)

/-- polarization inside, zero outside -/
noncomputable def boxJ (pol : V3 ℝ) (x1 x2 y1 y2 z1 z2 : ℝ) : V3 ℝ :=
  if boxIn x1 x2 y1 y2 z1 z2 then pol else ⟨0, 0, 0⟩

/-- B of the offset box -/
noncomputable def boxB (pol : V3 ℝ) (x1 x2 y1 y2 z1 z2 : ℝ) : V3 ℝ :=
  boxC pol x1 x2 y1 y2 z1 z2 + boxJ pol x1 x2 y1 y2 z1 z2

theorem v3_add_zero (v : V3 ℝ) : v + ⟨0, 0, 0⟩ = v := by apply V3.ext' <;> simp
theorem v3_zero_add (v : V3 ℝ) : (⟨0, 0, 0⟩ : V3 ℝ) + v = v := by apply V3.ext' <;> simp
theorem v3_add_assoc (a b c : V3 ℝ) : a + b + c = a + (b + c) := by apply V3.ext' <;> simp [add_assoc]
theorem v3_add_comm (a b : V3 ℝ) : a + b = b + a := by apply V3.ext' <;> simp [add_comm]
theorem v3_add4(a b c d : V3 ℝ) : (a + b) + (c + d) = (a + c) + (b + d) := by
  apply V3.ext' <;> simp only [V3.add_x, V3.add_y, V3.add_z] <;> ring

theorem boxC_split_x (pol : V3 ℝ) (x1 x2 x3 y1 y2 z1 z2 : ℝ) :
    boxC pol x1 x3 y1 y2 z1 z2 = boxC pol x1 x2 y1 y2 z1 z2 + boxC pol x2 x3 y1 y2 z1 z2 := by
  apply V3.ext' <;> simp only [boxC, V3.add_x, V3.add_y, V3.add_z] <;> exact boxComp_split_x ..

theorem boxC_split_y (pol : V3 ℝ) (x1 x2 y1 y2 y3 z1 z2 : ℝ) :
    boxC pol x1 x2 y1 y3 z1 z2 = boxC pol x1 x2 y1 y2 z1 z2 + boxC pol x1 x2 y2 y3 z1 z2 := by
  apply V3.ext' <;> simp only [boxC, V3.add_x, V3.add_y, V3.add_z] <;> exact boxComp_split_y ..

theorem boxC_split_z (pol : V3 ℝ) (x1 x2 y1 y2 z1 z2 z3 : ℝ) :
    boxC pol x1 x2 y1 y2 z1 z3 = boxC pol x1 x2 y1 y2 z1 z2 + boxC pol x1 x2 y1 y2 z2 z3 := by
  apply V3.ext' <;> simp only [boxC, V3.add_x, V3.add_y, V3.add_z] <;> exact boxComp_split_z ..

/-- one axis: for `a < b < c`, `b ≠ 0`: `(a, c)` straddles 0 iff exactly one of `(a, b)`, `(b, c)` does -/
theorem straddle_split {a b c : ℝ} (hab : a < b) (hbc : b < c) (hb : b ≠ 0) :
    ((a < 0 ∧ 0 < c) ↔ ((a < 0 ∧ 0 < b) ∨ (b < 0 ∧ 0 < c))) ∧ ¬ ((a < 0 ∧ 0 < b) ∧ (b < 0 ∧ 0 < c)) := by
  refine ⟨⟨fun h => ?_, fun h => ?_⟩, fun h => ?_⟩
  · rcases lt_or_gt_of_ne hb with hb | hb
    · exact Or.inr ⟨hb, h.2⟩
    · exact Or.inl ⟨h.1, hb⟩
  · rcases h with h | h
    · exact ⟨h.1, by linarith⟩
    · exact ⟨by linarith, h.2⟩
  · linarith [h.1.2, h.2.1]

/-- inside the whole ⇔ inside exactly one part (observer off the cut plane) -/
theorem boxJ_split_x (pol : V3 ℝ) {x1 x2 x3 : ℝ} (y1 y2 z1 z2 : ℝ) (h12 : x1 < x2) (h23 : x2 < x3) (h2 : x2 ≠ 0) :
    boxJ pol x1 x3 y1 y2 z1 z2 = boxJ pol x1 x2 y1 y2 z1 z2 + boxJ pol x2 x3 y1 y2 z1 z2 := by
  obtain ⟨hiff, hex⟩ := straddle_split h12 h23 h2
  unfold boxJ boxIn
  by_cases hL : x1 < 0 ∧ 0 < x2
  · have hR : ¬ (x2 < 0 ∧ 0 < x3) := fun h => hex ⟨hL, h⟩
    have hW : x1 < 0 ∧ 0 < x3 := hiff.mpr (Or.inl hL)
    by_cases hyz : (y1 < 0 ∧ 0 < y2) ∧ (z1 < 0 ∧ 0 < z2)
    · rw [if_pos ⟨hW, hyz⟩, if_pos ⟨hL, hyz⟩, if_neg (fun h => hR h.1), v3_add_zero]
    · rw [if_neg (fun h => hyz h.2), if_neg (fun h => hyz h.2), if_neg (fun h => hR h.1), v3_add_zero]
  · by_cases hR : x2 < 0 ∧ 0 < x3
    · have hW : x1 < 0 ∧ 0 < x3 := hiff.mpr (Or.inr hR)
      by_cases hyz : (y1 < 0 ∧ 0 < y2) ∧ (z1 < 0 ∧ 0 < z2)
      · rw [if_pos ⟨hW, hyz⟩, if_neg (fun h => hL h.1), if_pos ⟨hR, hyz⟩, v3_zero_add]
      · rw [if_neg (fun h => hyz h.2), if_neg (fun h => hL h.1), if_neg (fun h => hyz h.2), v3_zero_add]
    · have hW : ¬ (x1 < 0 ∧ 0 < x3) := fun h => (hiff.mp h).elim hL hR
      rw [if_neg (fun h => hW h.1), if_neg (fun h => hL h.1), if_neg (fun h => hR h.1), v3_zero_add]

theorem boxJ_perm_y (pol : V3 ℝ) (x1 x2 y1 y2 z1 z2 : ℝ) :
    boxJ pol x1 x2 y1 y2 z1 z2 = boxJ pol y1 y2 x1 x2 z1 z2 := by
  unfold boxJ boxIn
  exact if_congr (by tauto) rfl rfl

theorem boxJ_perm_z (pol : V3 ℝ) (x1 x2 y1 y2 z1 z2 : ℝ) :
    boxJ pol x1 x2 y1 y2 z1 z2 = boxJ pol z1 z2 y1 y2 x1 x2 := by
  unfold boxJ boxIn
  exact if_congr (by tauto) rfl rfl

theorem boxJ_split_y (pol : V3 ℝ) (x1 x2 : ℝ) {y1 y2 y3 : ℝ} (z1 z2 : ℝ) (h12 : y1 < y2) (h23 : y2 < y3) (h2 : y2 ≠ 0) :
    boxJ pol x1 x2 y1 y3 z1 z2 = boxJ pol x1 x2 y1 y2 z1 z2 + boxJ pol x1 x2 y2 y3 z1 z2 := by
  rw [boxJ_perm_y pol x1 x2 y1 y3, boxJ_perm_y pol x1 x2 y1 y2, boxJ_perm_y pol x1 x2 y2 y3]
  exact boxJ_split_x pol x1 x2 z1 z2 h12 h23 h2

theorem boxJ_split_z (pol : V3 ℝ) (x1 x2 y1 y2 : ℝ) {z1 z2 z3 : ℝ} (h12 : z1 < z2) (h23 : z2 < z3) (h2 : z2 ≠ 0) :
    boxJ pol x1 x2 y1 y2 z1 z3 = boxJ pol x1 x2 y1 y2 z1 z2 + boxJ pol x1 x2 y1 y2 z2 z3 := by
  rw [boxJ_perm_z pol x1 x2 y1 y2 z1 z3, boxJ_perm_z pol x1 x2 y1 y2 z1 z2, boxJ_perm_z pol x1 x2 y1 y2 z2 z3]
  exact boxJ_split_x pol y1 y2 x1 x2 h12 h23 h2

theorem boxB_split_x (pol : V3 ℝ) {x1 x2 x3 : ℝ} (y1 y2 z1 z2 : ℝ) (h12 : x1 < x2) (h23 : x2 < x3) (h2 : x2 ≠ 0) :
    boxB pol x1 x3 y1 y2 z1 z2 = boxB pol x1 x2 y1 y2 z1 z2 + boxB pol x2 x3 y1 y2 z1 z2 := by
  unfold boxB
  rw [boxC_split_x pol x1 x2 x3, boxJ_split_x pol y1 y2 z1 z2 h12 h23 h2, v3_add4]

theorem boxB_split_y (pol : V3 ℝ) (x1 x2 : ℝ) {y1 y2 y3 : ℝ} (z1 z2 : ℝ) (h12 : y1 < y2) (h23 : y2 < y3) (h2 : y2 ≠ 0) :
    boxB pol x1 x2 y1 y3 z1 z2 = boxB pol x1 x2 y1 y2 z1 z2 + boxB pol x1 x2 y2 y3 z1 z2 := by
  unfold boxB
  rw [boxC_split_y pol x1 x2 y1 y2 y3, boxJ_split_y pol x1 x2 z1 z2 h12 h23 h2, v3_add4]

theorem boxB_split_z (pol : V3 ℝ) (x1 x2 y1 y2 : ℝ) {z1 z2 z3 : ℝ} (h12 : z1 < z2) (h23 : z2 < z3) (h2 : z2 ≠ 0) :
    boxB pol x1 x2 y1 y2 z1 z3 = boxB pol x1 x2 y1 y2 z1 z2 + boxB pol x1 x2 y1 y2 z2 z3 := by
  unfold boxB
  rw [boxC_split_z pol x1 x2 y1 y2 z1 z2 z3, boxJ_split_z pol x1 x2 y1 y2 h12 h23 h2, v3_add4]

/-! ### the model functions are the offset box -/

section tie
variable (dim pol q : V3 ℝ)
variable (hx1 : q.x - dim.x / 2 ≠ 0) (hx2 : q.x + dim.x / 2 ≠ 0)
variable (hy1 : q.y - dim.y / 2 ≠ 0) (hy2 : q.y + dim.y / 2 ≠ 0)
variable (hz1 : q.z - dim.z / 2 ≠ 0) (hz2 : q.z + dim.z / 2 ≠ 0)
include hx1 hx2 hy1 hy2 hz1 hz2

/-- the six face integrals of `cuboidCoulombB`, evaluated: the surface-charge integral of the cuboid `dim` seen from
`q` is the corner sum over the offset box `q ∓ dim/2` -/
theorem cuboidCoulombB_eq_boxC :
    cuboidCoulombB dim pol q =
      boxC pol (q.x - dim.x / 2) (q.x + dim.x / 2) (q.y - dim.y / 2) (q.y + dim.y / 2) (q.z - dim.z / 2) (q.z + dim.z / 2) := by
  have hx2' : q.x - -(dim.x / 2) ≠ 0 := by rwa [sub_neg_eq_add]
  have hy2' : q.y - -(dim.y / 2) ≠ 0 := by rwa [sub_neg_eq_add]
  have hz2' : q.z - -(dim.z / 2) ≠ 0 := by rwa [sub_neg_eq_add]
  apply V3.ext'
  · simp only [cuboidCoulombB, cuboidCoulombComp, boxC, boxComp]
    rw [faceX_x dim q _ hx1, faceX_x dim q _ hx2', faceY_x dim q _ hy1, faceY_x dim q _ hy2',
      faceZ_x dim q _ hz1, faceZ_x dim q _ hz2']
    simp only [sub_neg_eq_add]
  · simp only [cuboidCoulombB, cuboidCoulombComp, boxC, boxComp]
    rw [faceX_y dim q _ hx1, faceX_y dim q _ hx2', faceY_y dim q _ hy1, faceY_y dim q _ hy2',
      faceZ_y dim q _ hz1, faceZ_y dim q _ hz2']
    simp only [sub_neg_eq_add]
  · simp only [cuboidCoulombB, cuboidCoulombComp, boxC, boxComp]
    rw [faceX_z dim q _ hx1, faceX_z dim q _ hx2', faceY_z dim q _ hy1, faceY_z dim q _ hy2',
      faceZ_z dim q _ hz1, faceZ_z dim q _ hz2']
    simp only [sub_neg_eq_add]

omit hx1 hx2 hy1 hy2 hz1 hz2 in
theorem insideP_iff_boxIn :
    insideP dim q ↔
      boxIn (q.x - dim.x / 2) (q.x + dim.x / 2) (q.y - dim.y / 2) (q.y + dim.y / 2) (q.z - dim.z / 2) (q.z + dim.z / 2) := by
  simp only [insideP, boxIn, abs_lt_half]

/-- **`cuboidB` is the offset box**: positive side lengths, observer off the six face planes -/
theorem cuboidB_eq_boxB (hdx : 0 < dim.x) (hdy : 0 < dim.y) (hdz : 0 < dim.z) :
    cuboidB dim pol q =
      boxB pol (q.x - dim.x / 2) (q.x + dim.x / 2) (q.y - dim.y / 2) (q.y + dim.y / 2) (q.z - dim.z / 2) (q.z + dim.z / 2) := by
  rw [cuboidB_eq_coulomb dim pol q hdx hdy hdz hx1 hx2 hy1 hy2 hz1 hz2,
    cuboidCoulombB_eq_boxC dim pol q hx1 hx2 hy1 hy2 hz1 hz2]
  unfold boxB boxJ
  congr 1
  exact if_congr (insideP_iff_boxIn dim q) rfl rfl

end tie

/-- `|t| ≠ a` with `a > 0`: `t` is on neither of the planes `±a` -/
theorem off_of_abs {t a : ℝ} (ha : 0 < a) (h : |t| ≠ a) : t - a ≠ 0 ∧ t + a ≠ 0 := by
  constructor
  · intro e; apply h; rw [show t = a by linarith]; exact abs_of_pos ha
  · intro e; apply h; rw [show t = -a by linarith, abs_neg]; exact abs_of_pos ha

/-! ### a cuboid anywhere: the box `[lo, hi]` -/

/-- the field at `p` of the Cuboid with side lengths `hi − lo` whose centre sits at `(lo + hi)/2` (the kernel is
centred at the origin, the observer is shifted): B of the homogeneously polarised box `[lo.x, hi.x] × [lo.y, hi.y] ×
[lo.z, hi.z]`, as `cuboidB` computes it -/
noncomputable def cuboidBox (lo hi pol p : V3 ℝ) : V3 ℝ :=
  cuboidB ⟨hi.x - lo.x, hi.y - lo.y, hi.z - lo.z⟩ pol (p - ⟨(lo.x + hi.x) / 2, (lo.y + hi.y) / 2, (lo.z + hi.z) / 2⟩)

/-- the observer lies in none of the six face planes of the box `[lo, hi]` -/
def OffBox (lo hi p : V3 ℝ) : Prop :=
  (p.x ≠ lo.x ∧ p.x ≠ hi.x) ∧ (p.y ≠ lo.y ∧ p.y ≠ hi.y) ∧ (p.z ≠ lo.z ∧ p.z ≠ hi.z)

theorem cuboidBox_eq_boxB (lo hi pol p : V3 ℝ) (hx : lo.x < hi.x) (hy : lo.y < hi.y) (hz : lo.z < hi.z)
    (hoff : OffBox lo hi p) :
    cuboidBox lo hi pol p = boxB pol (p.x - hi.x) (p.x - lo.x) (p.y - hi.y) (p.y - lo.y) (p.z - hi.z) (p.z - lo.z) := by
  obtain ⟨⟨ox1, ox2⟩, ⟨oy1, oy2⟩, ⟨oz1, oz2⟩⟩ := hoff
  unfold cuboidBox
  have e1 : ∀ t l h : ℝ, (t - (l + h) / 2) - (h - l) / 2 = t - h := fun t l h => by ring
  have e2 : ∀ t l h : ℝ, (t - (l + h) / 2) + (h - l) / 2 = t - l := fun t l h => by ring
  rw [cuboidB_eq_boxB]
  · simp only [V3.sub_x, V3.sub_y, V3.sub_z, e1, e2]
  all_goals simp only [V3.sub_x, V3.sub_y, V3.sub_z, e1, e2]
  · exact sub_ne_zero.mpr ox2
  · exact sub_ne_zero.mpr ox1
  · exact sub_ne_zero.mpr oy2
  · exact sub_ne_zero.mpr oy1
  · exact sub_ne_zero.mpr oz2
  · exact sub_ne_zero.mpr oz1
  · linarith
  · linarith
  · linarith

/-- a box cut by the plane `x = t` -/
theorem cuboidBox_split_x (lo hi pol p : V3 ℝ) (t : ℝ) (hx1 : lo.x < t) (hx2 : t < hi.x) (hy : lo.y < hi.y)
    (hz : lo.z < hi.z) (hoff : OffBox lo hi p) (ht : p.x ≠ t) :
    cuboidBox lo hi pol p = cuboidBox lo ⟨t, hi.y, hi.z⟩ pol p + cuboidBox ⟨t, lo.y, lo.z⟩ hi pol p := by
  obtain ⟨⟨ox1, ox2⟩, oy, oz⟩ := hoff
  rw [cuboidBox_eq_boxB lo hi pol p (hx1.trans hx2) hy hz ⟨⟨ox1, ox2⟩, oy, oz⟩,
    cuboidBox_eq_boxB lo ⟨t, hi.y, hi.z⟩ pol p hx1 hy hz ⟨⟨ox1, ht⟩, oy, oz⟩,
    cuboidBox_eq_boxB ⟨t, lo.y, lo.z⟩ hi pol p hx2 hy hz ⟨⟨ht, ox2⟩, oy, oz⟩]
  rw [boxB_split_x pol (x2 := p.x - t) _ _ _ _ (by linarith) (by linarith) (sub_ne_zero.mpr ht)]
  exact v3_add_comm _ _

/-- a box cut by the plane `y = t` -/
theorem cuboidBox_split_y (lo hi pol p : V3 ℝ) (t : ℝ) (hx : lo.x < hi.x) (hy1 : lo.y < t) (hy2 : t < hi.y)
    (hz : lo.z < hi.z) (hoff : OffBox lo hi p) (ht : p.y ≠ t) :
    cuboidBox lo hi pol p = cuboidBox lo ⟨hi.x, t, hi.z⟩ pol p + cuboidBox ⟨lo.x, t, lo.z⟩ hi pol p := by
  obtain ⟨ox, ⟨oy1, oy2⟩, oz⟩ := hoff
  rw [cuboidBox_eq_boxB lo hi pol p hx (hy1.trans hy2) hz ⟨ox, ⟨oy1, oy2⟩, oz⟩,
    cuboidBox_eq_boxB lo ⟨hi.x, t, hi.z⟩ pol p hx hy1 hz ⟨ox, ⟨oy1, ht⟩, oz⟩,
    cuboidBox_eq_boxB ⟨lo.x, t, lo.z⟩ hi pol p hx hy2 hz ⟨ox, ⟨ht, oy2⟩, oz⟩]
  rw [boxB_split_y pol _ _ (y2 := p.y - t) _ _ (by linarith) (by linarith) (sub_ne_zero.mpr ht)]
  exact v3_add_comm _ _

/-- a box cut by the plane `z = t` -/
theorem cuboidBox_split_z (lo hi pol p : V3 ℝ) (t : ℝ) (hx : lo.x < hi.x) (hy : lo.y < hi.y) (hz1 : lo.z < t)
    (hz2 : t < hi.z) (hoff : OffBox lo hi p) (ht : p.z ≠ t) :
    cuboidBox lo hi pol p = cuboidBox lo ⟨hi.x, hi.y, t⟩ pol p + cuboidBox ⟨lo.x, lo.y, t⟩ hi pol p := by
  obtain ⟨ox, oy, ⟨oz1, oz2⟩⟩ := hoff
  rw [cuboidBox_eq_boxB lo hi pol p hx hy (hz1.trans hz2) ⟨ox, oy, ⟨oz1, oz2⟩⟩,
    cuboidBox_eq_boxB lo ⟨hi.x, hi.y, t⟩ pol p hx hy hz1 ⟨ox, oy, ⟨oz1, ht⟩⟩,
    cuboidBox_eq_boxB ⟨lo.x, lo.y, t⟩ hi pol p hx hy hz2 ⟨ox, oy, ⟨ht, oz2⟩⟩]
  rw [boxB_split_z pol _ _ _ _ (z2 := p.z - t) (by linarith) (by linarith) (sub_ne_zero.mpr ht)]
  exact v3_add_comm _ _

/-! ### the wrapper `bhjmCuboid` (all four fields) outside the surface shells -/

/-- what `BHJM_magnet_cuboid` returns for the offset box, per field -/
noncomputable def boxField (f : Field) (pol : V3 ℝ) (x1 x2 y1 y2 z1 z2 : ℝ) : V3 ℝ :=
  match f with
  | .B => boxB pol x1 x2 y1 y2 z1 z2
  | .H => vd (boxC pol x1 x2 y1 y2 z1 z2) mu0R
  | .J => boxJ pol x1 x2 y1 y2 z1 z2
  | .M => vd (boxJ pol x1 x2 y1 y2 z1 z2) mu0R

theorem vd_add (a b : V3 ℝ) (m : ℝ) : vd (a + b) m = vd a m + vd b m := by
  apply V3.ext' <;> simp [vd, add_div]

theorem boxField_split_x (f : Field) (pol : V3 ℝ) {x1 x2 x3 : ℝ} (y1 y2 z1 z2 : ℝ) (h12 : x1 < x2) (h23 : x2 < x3)
    (h2 : x2 ≠ 0) :
    boxField f pol x1 x3 y1 y2 z1 z2 = boxField f pol x1 x2 y1 y2 z1 z2 + boxField f pol x2 x3 y1 y2 z1 z2 := by
  cases f <;> simp only [boxField]
  · exact boxB_split_x pol y1 y2 z1 z2 h12 h23 h2
  · rw [boxC_split_x pol x1 x2 x3, vd_add]
  · exact boxJ_split_x pol y1 y2 z1 z2 h12 h23 h2
  · rw [boxJ_split_x pol y1 y2 z1 z2 h12 h23 h2, vd_add]

theorem boxField_split_y (f : Field) (pol : V3 ℝ) (x1 x2 : ℝ) {y1 y2 y3 : ℝ} (z1 z2 : ℝ) (h12 : y1 < y2) (h23 : y2 < y3)
    (h2 : y2 ≠ 0) :
    boxField f pol x1 x2 y1 y3 z1 z2 = boxField f pol x1 x2 y1 y2 z1 z2 + boxField f pol x1 x2 y2 y3 z1 z2 := by
  cases f <;> simp only [boxField]
  · exact boxB_split_y pol x1 x2 z1 z2 h12 h23 h2
  · rw [boxC_split_y pol x1 x2 y1 y2 y3, vd_add]
  · exact boxJ_split_y pol x1 x2 z1 z2 h12 h23 h2
  · rw [boxJ_split_y pol x1 x2 z1 z2 h12 h23 h2, vd_add]

theorem boxField_split_z (f : Field) (pol : V3 ℝ) (x1 x2 y1 y2 : ℝ) {z1 z2 z3 : ℝ} (h12 : z1 < z2) (h23 : z2 < z3)
    (h2 : z2 ≠ 0) :
    boxField f pol x1 x2 y1 y2 z1 z3 = boxField f pol x1 x2 y1 y2 z1 z2 + boxField f pol x1 x2 y1 y2 z2 z3 := by
  cases f <;> simp only [boxField]
  · exact boxB_split_z pol x1 x2 y1 y2 h12 h23 h2
  · rw [boxC_split_z pol x1 x2 y1 y2 z1 z2 z3, vd_add]
  · exact boxJ_split_z pol x1 x2 y1 y2 h12 h23 h2
  · rw [boxJ_split_z pol x1 x2 y1 y2 h12 h23 h2, vd_add]

theorem boxC_zero_pol (x1 x2 y1 y2 z1 z2 : ℝ) : boxC ⟨0, 0, 0⟩ x1 x2 y1 y2 z1 z2 = ⟨0, 0, 0⟩ := by
  apply V3.ext' <;> simp [boxC, boxComp]

/-- **`bhjmCuboid` is the offset box** for all four fields: positive side lengths, every polarization (zero
included), observer outside the three shells `| |q_i| − dim_i/2 | < 1e-15·dim_i/2` where `BHJM_magnet_cuboid`
switches to its surface / edge special cases -/
theorem bhjmCuboid_eq_boxField (f : Field) (dim pol q : V3 ℝ) (hdx : 0 < dim.x) (hdy : 0 < dim.y) (hdz : 0 < dim.z)
    (hx : rtol * (dim.x / 2) ≤ |(|q.x| - dim.x / 2)|) (hy : rtol * (dim.y / 2) ≤ |(|q.y| - dim.y / 2)|)
    (hz : rtol * (dim.z / 2) ≤ |(|q.z| - dim.z / 2)|) :
    bhjmCuboid f dim pol q =
      boxField f pol (q.x - dim.x / 2) (q.x + dim.x / 2) (q.y - dim.y / 2) (q.y + dim.y / 2) (q.z - dim.z / 2)
        (q.z + dim.z / 2) := by
  obtain ⟨hin, hgen⟩ := cuboidMasks_clear dim pol q hdx hdy hdz hx hy hz
  obtain ⟨ox1, ox2⟩ := off_of_abs (half_pos hdx) (shell_clear (half_pos hdx) hx).2.2
  obtain ⟨oy1, oy2⟩ := off_of_abs (half_pos hdy) (shell_clear (half_pos hdy) hy).2.2
  obtain ⟨oz1, oz2⟩ := off_of_abs (half_pos hdz) (shell_clear (half_pos hdz) hz).2.2
  have hcore := cuboidB_eq_boxB dim pol q ox1 ox2 oy1 oy2 oz1 oz2 hdx hdy hdz
  have hins : (cuboidMasks dim pol q).inside =
      decide (boxIn (q.x - dim.x / 2) (q.x + dim.x / 2) (q.y - dim.y / 2) (q.y + dim.y / 2) (q.z - dim.z / 2)
        (q.z + dim.z / 2)) := by
    rw [hin]; exact decide_eq_decide.mpr (insideP_iff_boxIn dim q)
  by_cases hp : pol.x = 0 ∧ pol.y = 0 ∧ pol.z = 0
  · have hpol : pol = ⟨0, 0, 0⟩ := V3.ext' hp.1 hp.2.1 hp.2.2
    subst hpol
    have hgen' : (cuboidMasks dim ⟨0, 0, 0⟩ q).general = false := by rw [hgen]; simp
    cases f <;>
      simp only [bhjmCuboid, wrapB, boxField, boxB, boxJ, hgen', boxC_zero_pol, mu0_real, Bool.false_eq_true, if_false,
        ite_self] <;>
      apply V3.ext' <;> simp [vd, zero3, n]
  · simp only [hp, decide_false, Bool.not_false] at hgen
    cases f <;>
      simp only [bhjmCuboid, wrapB, boxField, boxB, boxJ, hgen, hins, if_true, hcore, mu0_real, decide_eq_true_eq] <;>
      split_ifs <;> apply V3.ext' <;> simp [vd, zero3, n]

/-- the wrapper for a cuboid anywhere -/
noncomputable def bhjmCuboidBox (f : Field) (lo hi pol p : V3 ℝ) : V3 ℝ :=
  bhjmCuboid f ⟨hi.x - lo.x, hi.y - lo.y, hi.z - lo.z⟩ pol (p - ⟨(lo.x + hi.x) / 2, (lo.y + hi.y) / 2, (lo.z + hi.z) / 2⟩)

/-- one axis of the wrapper's shell test for the body `[l, h]`: the observer coordinate `t` is outside the shell of
relative half-width 1e-15 around both faces -/
def Clear1 (l h t : ℝ) : Prop := rtol * ((h - l) / 2) ≤ |(|t - (l + h) / 2| - (h - l) / 2)|

/-- the observer is outside all three surface shells of the body `[lo, hi]` -/
def ClearBox (lo hi p : V3 ℝ) : Prop := Clear1 lo.x hi.x p.x ∧ Clear1 lo.y hi.y p.y ∧ Clear1 lo.z hi.z p.z

theorem Clear1.off {l h t : ℝ} (hlt : l < h) (hc : Clear1 l h t) : t ≠ l ∧ t ≠ h := by
  have hpos : 0 < (h - l) / 2 := by linarith
  obtain ⟨o1, o2⟩ := off_of_abs hpos (shell_clear hpos hc).2.2
  constructor
  · intro e; apply o2; rw [e]; ring
  · intro e; apply o1; rw [e]; ring

theorem bhjmCuboidBox_eq_boxField (f : Field) (lo hi pol p : V3 ℝ) (hx : lo.x < hi.x) (hy : lo.y < hi.y)
    (hz : lo.z < hi.z) (hc : ClearBox lo hi p) :
    bhjmCuboidBox f lo hi pol p =
      boxField f pol (p.x - hi.x) (p.x - lo.x) (p.y - hi.y) (p.y - lo.y) (p.z - hi.z) (p.z - lo.z) := by
  obtain ⟨cx, cy, cz⟩ := hc
  unfold bhjmCuboidBox
  have e1 : ∀ t l h : ℝ, (t - (l + h) / 2) - (h - l) / 2 = t - h := fun t l h => by ring
  have e2 : ∀ t l h : ℝ, (t - (l + h) / 2) + (h - l) / 2 = t - l := fun t l h => by ring
  rw [bhjmCuboid_eq_boxField]
  · simp only [V3.sub_x, V3.sub_y, V3.sub_z, e1, e2]
  · show 0 < hi.x - lo.x; linarith
  · show 0 < hi.y - lo.y; linarith
  · show 0 < hi.z - lo.z; linarith
  · exact cx
  · exact cy
  · exact cz

theorem bhjmCuboidBox_split_x (f : Field) (lo hi pol p : V3 ℝ) (t : ℝ) (hx1 : lo.x < t) (hx2 : t < hi.x)
    (hy : lo.y < hi.y) (hz : lo.z < hi.z) (hc : ClearBox lo hi p) (hcL : Clear1 lo.x t p.x) (hcR : Clear1 t hi.x p.x) :
    bhjmCuboidBox f lo hi pol p =
      bhjmCuboidBox f lo ⟨t, hi.y, hi.z⟩ pol p + bhjmCuboidBox f ⟨t, lo.y, lo.z⟩ hi pol p := by
  have ht : p.x ≠ t := (hcR.off hx2).1
  rw [bhjmCuboidBox_eq_boxField f lo hi pol p (hx1.trans hx2) hy hz hc,
    bhjmCuboidBox_eq_boxField f lo ⟨t, hi.y, hi.z⟩ pol p hx1 hy hz ⟨hcL, hc.2⟩,
    bhjmCuboidBox_eq_boxField f ⟨t, lo.y, lo.z⟩ hi pol p hx2 hy hz ⟨hcR, hc.2⟩]
  rw [boxField_split_x f pol (x2 := p.x - t) _ _ _ _ (by linarith) (by linarith) (sub_ne_zero.mpr ht)]
  exact v3_add_comm _ _

theorem bhjmCuboidBox_split_y (f : Field) (lo hi pol p : V3 ℝ) (t : ℝ) (hx : lo.x < hi.x) (hy1 : lo.y < t)
    (hy2 : t < hi.y) (hz : lo.z < hi.z) (hc : ClearBox lo hi p) (hcL : Clear1 lo.y t p.y) (hcR : Clear1 t hi.y p.y) :
    bhjmCuboidBox f lo hi pol p =
      bhjmCuboidBox f lo ⟨hi.x, t, hi.z⟩ pol p + bhjmCuboidBox f ⟨lo.x, t, lo.z⟩ hi pol p := by
  have ht : p.y ≠ t := (hcR.off hy2).1
  rw [bhjmCuboidBox_eq_boxField f lo hi pol p hx (hy1.trans hy2) hz hc,
    bhjmCuboidBox_eq_boxField f lo ⟨hi.x, t, hi.z⟩ pol p hx hy1 hz ⟨hc.1, hcL, hc.2.2⟩,
    bhjmCuboidBox_eq_boxField f ⟨lo.x, t, lo.z⟩ hi pol p hx hy2 hz ⟨hc.1, hcR, hc.2.2⟩]
  rw [boxField_split_y f pol _ _ (y2 := p.y - t) _ _ (by linarith) (by linarith) (sub_ne_zero.mpr ht)]
  exact v3_add_comm _ _

theorem bhjmCuboidBox_split_z (f : Field) (lo hi pol p : V3 ℝ) (t : ℝ) (hx : lo.x < hi.x) (hy : lo.y < hi.y)
    (hz1 : lo.z < t) (hz2 : t < hi.z) (hc : ClearBox lo hi p) (hcL : Clear1 lo.z t p.z) (hcR : Clear1 t hi.z p.z) :
    bhjmCuboidBox f lo hi pol p =
      bhjmCuboidBox f lo ⟨hi.x, hi.y, t⟩ pol p + bhjmCuboidBox f ⟨lo.x, lo.y, t⟩ hi pol p := by
  have ht : p.z ≠ t := (hcR.off hz2).1
  rw [bhjmCuboidBox_eq_boxField f lo hi pol p hx hy (hz1.trans hz2) hc,
    bhjmCuboidBox_eq_boxField f lo ⟨hi.x, hi.y, t⟩ pol p hx hy hz1 ⟨hc.1, hc.2.1, hcL⟩,
    bhjmCuboidBox_eq_boxField f ⟨lo.x, lo.y, t⟩ hi pol p hx hy hz2 ⟨hc.1, hc.2.1, hcR⟩]
  rw [boxField_split_z f pol _ _ _ _ (z2 := p.z - t) (by linarith) (by linarith) (sub_ne_zero.mpr ht)]
  exact v3_add_comm _ _

/-! ### many cuts: chains along one axis, grids -/

/-- `f t0 t1 + f t1 t2 + … + f t(n-1) tn` for the list `t1 … tn` -/
noncomputable def chainSum (f : ℝ → ℝ → V3 ℝ) : ℝ → List ℝ → V3 ℝ
  | _, [] => ⟨0, 0, 0⟩
  | t0, t1 :: ts => f t0 t1 + chainSum f t1 ts

theorem chainSum_congr {f g : ℝ → ℝ → V3 ℝ} (ok : ℝ → Prop) (h : ∀ a b, a < b → ok a → ok b → f a b = g a b) :
    ∀ (ts : List ℝ) (t0 : ℝ), (t0 :: ts).Pairwise (· < ·) → (∀ t ∈ t0 :: ts, ok t) →
      chainSum f t0 ts = chainSum g t0 ts
  | [], _, _, _ => rfl
  | t1 :: ts, t0, hp, hok => by
      have hp' := List.pairwise_cons.mp hp
      rw [chainSum, chainSum, chainSum_congr ok h ts t1 hp'.2 (fun t ht => hok t (List.mem_cons_of_mem _ ht)),
        h t0 t1 (hp'.1 t1 List.mem_cons_self) (hok t0 List.mem_cons_self)
          (hok t1 (List.mem_cons_of_mem _ List.mem_cons_self))]

theorem chainSum_telescope (f : ℝ → ℝ → V3 ℝ) (ok : ℝ → Prop)
    (hadd : ∀ a b c, a < b → b < c → ok a → ok b → ok c → f a b + f b c = f a c) :
    ∀ (ts : List ℝ) (t0 : ℝ) (hne : ts ≠ []), (t0 :: ts).Pairwise (· < ·) → (∀ t ∈ t0 :: ts, ok t) →
      chainSum f t0 ts = f t0 (ts.getLast hne)
  | [], _, hne, _, _ => absurd rfl hne
  | [t1], t0, _, _, _ => by simp [chainSum, v3_add_zero]
  | t1 :: t2 :: ts, t0, _, hp, hok => by
      have hp' := List.pairwise_cons.mp hp
      have hp'' := List.pairwise_cons.mp hp'.2
      have hmem : (t2 :: ts).getLast (by simp) ∈ t2 :: ts := List.getLast_mem _
      have ih := chainSum_telescope f ok hadd (t2 :: ts) t1 (by simp) hp'.2
        (fun t ht => hok t (List.mem_cons_of_mem _ ht))
      rw [chainSum, ih, List.getLast_cons_cons]
      exact hadd _ _ _ (hp'.1 t1 List.mem_cons_self) (hp''.1 _ hmem) (hok t0 List.mem_cons_self)
        (hok t1 (List.mem_cons_of_mem _ List.mem_cons_self))
        (hok _ (List.mem_cons_of_mem _ (List.mem_cons_of_mem _ hmem)))

/-- first element below the last of a strictly increasing non-empty tail -/
theorem lt_getLast {t0 : ℝ} {ts : List ℝ} (hne : ts ≠ []) (hp : (t0 :: ts).Pairwise (· < ·)) : t0 < ts.getLast hne :=
  (List.pairwise_cons.mp hp).1 _ (List.getLast_mem hne)

theorem getLast_mem_cons {t0 : ℝ} {ts : List ℝ} (hne : ts ≠ []) : ts.getLast hne ∈ t0 :: ts :=
  List.mem_cons_of_mem _ (List.getLast_mem hne)

/-- slabs along x: the box `[t0, tn] × [ly, hy] × [lz, hz]` cut at `t1 < … < t(n-1)` -/
theorem cuboidBox_chain_x (pol p : V3 ℝ) (ly hy lz hz : ℝ) (hyl : ly < hy) (hzl : lz < hz)
    (oy : p.y ≠ ly ∧ p.y ≠ hy) (oz : p.z ≠ lz ∧ p.z ≠ hz) (ts : List ℝ) (t0 : ℝ) (hne : ts ≠ [])
    (hp : (t0 :: ts).Pairwise (· < ·)) (hoff : ∀ t ∈ t0 :: ts, p.x ≠ t) :
    chainSum (fun a b => cuboidBox ⟨a, ly, lz⟩ ⟨b, hy, hz⟩ pol p) t0 ts =
      cuboidBox ⟨t0, ly, lz⟩ ⟨ts.getLast hne, hy, hz⟩ pol p :=
  chainSum_telescope _ (fun t => p.x ≠ t)
    (fun a b c hab hbc oa ob oc =>
      (cuboidBox_split_x ⟨a, ly, lz⟩ ⟨c, hy, hz⟩ pol p b hab hbc hyl hzl ⟨⟨oa, oc⟩, oy, oz⟩ ob).symm)
    ts t0 hne hp hoff

/-- slabs along y -/
theorem cuboidBox_chain_y (pol p : V3 ℝ) (lx hx lz hz : ℝ) (hxl : lx < hx) (hzl : lz < hz)
    (ox : p.x ≠ lx ∧ p.x ≠ hx) (oz : p.z ≠ lz ∧ p.z ≠ hz) (ts : List ℝ) (t0 : ℝ) (hne : ts ≠ [])
    (hp : (t0 :: ts).Pairwise (· < ·)) (hoff : ∀ t ∈ t0 :: ts, p.y ≠ t) :
    chainSum (fun a b => cuboidBox ⟨lx, a, lz⟩ ⟨hx, b, hz⟩ pol p) t0 ts =
      cuboidBox ⟨lx, t0, lz⟩ ⟨hx, ts.getLast hne, hz⟩ pol p :=
  chainSum_telescope _ (fun t => p.y ≠ t)
    (fun a b c hab hbc oa ob oc =>
      (cuboidBox_split_y ⟨lx, a, lz⟩ ⟨hx, c, hz⟩ pol p b hxl hab hbc hzl ⟨ox, ⟨oa, oc⟩, oz⟩ ob).symm)
    ts t0 hne hp hoff

/-- slabs along z -/
theorem cuboidBox_chain_z (pol p : V3 ℝ) (lx hx ly hy : ℝ) (hxl : lx < hx) (hyl : ly < hy)
    (ox : p.x ≠ lx ∧ p.x ≠ hx) (oy : p.y ≠ ly ∧ p.y ≠ hy) (ts : List ℝ) (t0 : ℝ) (hne : ts ≠ [])
    (hp : (t0 :: ts).Pairwise (· < ·)) (hoff : ∀ t ∈ t0 :: ts, p.z ≠ t) :
    chainSum (fun a b => cuboidBox ⟨lx, ly, a⟩ ⟨hx, hy, b⟩ pol p) t0 ts =
      cuboidBox ⟨lx, ly, t0⟩ ⟨hx, hy, ts.getLast hne⟩ pol p :=
  chainSum_telescope _ (fun t => p.z ≠ t)
    (fun a b c hab hbc oa ob oc =>
      (cuboidBox_split_z ⟨lx, ly, a⟩ ⟨hx, hy, c⟩ pol p b hxl hyl hab hbc ⟨ox, oy, ⟨oa, oc⟩⟩ ob).symm)
    ts t0 hne hp hoff

/-- **grid partition**: the `n × m × k` cells of an axis-aligned grid (strictly increasing grid coordinates
`x0 :: xs`, `y0 :: ys`, `z0 :: zs`, at least one cell per axis) sum to the whole box, for every observer in none of the
grid planes -/
theorem cuboidBox_grid (pol p : V3 ℝ) (x0 y0 z0 : ℝ) (xs ys zs : List ℝ) (hxne : xs ≠ []) (hyne : ys ≠ [])
    (hzne : zs ≠ []) (hxp : (x0 :: xs).Pairwise (· < ·)) (hyp : (y0 :: ys).Pairwise (· < ·))
    (hzp : (z0 :: zs).Pairwise (· < ·)) (hxo : ∀ t ∈ x0 :: xs, p.x ≠ t) (hyo : ∀ t ∈ y0 :: ys, p.y ≠ t)
    (hzo : ∀ t ∈ z0 :: zs, p.z ≠ t) :
    chainSum (fun xa xb => chainSum (fun ya yb => chainSum (fun za zb =>
        cuboidBox ⟨xa, ya, za⟩ ⟨xb, yb, zb⟩ pol p) z0 zs) y0 ys) x0 xs =
      cuboidBox ⟨x0, y0, z0⟩ ⟨xs.getLast hxne, ys.getLast hyne, zs.getLast hzne⟩ pol p := by
  have hzl := lt_getLast hzne hzp
  have hyl := lt_getLast hyne hyp
  have oz : p.z ≠ z0 ∧ p.z ≠ zs.getLast hzne := ⟨hzo _ List.mem_cons_self, hzo _ (getLast_mem_cons hzne)⟩
  have oy : p.y ≠ y0 ∧ p.y ≠ ys.getLast hyne := ⟨hyo _ List.mem_cons_self, hyo _ (getLast_mem_cons hyne)⟩
  rw [chainSum_congr (g := fun xa xb => cuboidBox ⟨xa, y0, z0⟩ ⟨xb, ys.getLast hyne, zs.getLast hzne⟩ pol p)
    (fun t => p.x ≠ t) ?_ xs x0 hxp hxo]
  · exact cuboidBox_chain_x pol p _ _ _ _ hyl hzl oy oz xs x0 hxne hxp hxo
  · intro xa xb hxab oxa oxb
    rw [chainSum_congr (g := fun ya yb => cuboidBox ⟨xa, ya, z0⟩ ⟨xb, yb, zs.getLast hzne⟩ pol p)
      (fun t => p.y ≠ t) ?_ ys y0 hyp hyo]
    · exact cuboidBox_chain_y pol p _ _ _ _ hxab hzl ⟨oxa, oxb⟩ oz ys y0 hyne hyp hyo
    · intro ya yb hyab oya oyb
      exact cuboidBox_chain_z pol p _ _ _ _ hxab hyab ⟨oxa, oxb⟩ ⟨oya, oyb⟩ zs z0 hzne hzp hzo

/-! ### the centred statements (the kernel's own frame: whole body centred at the origin) -/

theorem cuboidBox_congr {lo hi pol p dim q : V3 ℝ} (hd : (⟨hi.x - lo.x, hi.y - lo.y, hi.z - lo.z⟩ : V3 ℝ) = dim)
    (hq : p - ⟨(lo.x + hi.x) / 2, (lo.y + hi.y) / 2, (lo.z + hi.z) / 2⟩ = q) :
    cuboidBox lo hi pol p = cuboidB dim pol q := by
  subst hd hq; rfl

theorem bhjmCuboidBox_congr {f : Field} {lo hi pol p dim q : V3 ℝ}
    (hd : (⟨hi.x - lo.x, hi.y - lo.y, hi.z - lo.z⟩ : V3 ℝ) = dim)
    (hq : p - ⟨(lo.x + hi.x) / 2, (lo.y + hi.y) / 2, (lo.z + hi.z) / 2⟩ = q) :
    bhjmCuboidBox f lo hi pol p = bhjmCuboid f dim pol q := by
  subst hd hq; rfl

/-- the corners of the centred body -/
noncomputable def loC (dim : V3 ℝ) : V3 ℝ := ⟨-(dim.x / 2), -(dim.y / 2), -(dim.z / 2)⟩
noncomputable def hiC (dim : V3 ℝ) : V3 ℝ := ⟨dim.x / 2, dim.y / 2, dim.z / 2⟩

theorem cuboidBox_centred (dim pol p : V3 ℝ) : cuboidBox (loC dim) (hiC dim) pol p = cuboidB dim pol p :=
  cuboidBox_congr (by apply V3.ext' <;> simp only [loC, hiC] <;> ring)
    (by apply V3.ext' <;> simp only [loC, hiC, V3.sub_x, V3.sub_y, V3.sub_z] <;> ring)

theorem bhjmCuboidBox_centred (f : Field) (dim pol p : V3 ℝ) :
    bhjmCuboidBox f (loC dim) (hiC dim) pol p = bhjmCuboid f dim pol p :=
  bhjmCuboidBox_congr (by apply V3.ext' <;> simp only [loC, hiC] <;> ring)
    (by apply V3.ext' <;> simp only [loC, hiC, V3.sub_x, V3.sub_y, V3.sub_z] <;> ring)

theorem offBox_centred {dim p : V3 ℝ} (hdx : 0 < dim.x) (hdy : 0 < dim.y) (hdz : 0 < dim.z)
    (hx : |p.x| ≠ dim.x / 2) (hy : |p.y| ≠ dim.y / 2) (hz : |p.z| ≠ dim.z / 2) : OffBox (loC dim) (hiC dim) p := by
  obtain ⟨x1, x2⟩ := off_of_abs (half_pos hdx) hx
  obtain ⟨y1, y2⟩ := off_of_abs (half_pos hdy) hy
  obtain ⟨z1, z2⟩ := off_of_abs (half_pos hdz) hz
  refine ⟨⟨fun e => x2 ?_, fun e => x1 ?_⟩, ⟨fun e => y2 ?_, fun e => y1 ?_⟩, ⟨fun e => z2 ?_, fun e => z1 ?_⟩⟩ <;>
    simp only [loC, hiC] at e <;> rw [e] <;> ring

theorem clear1_of {l h t c w : ℝ} (hc : (l + h) / 2 = c) (hw : (h - l) / 2 = w)
    (hcl : rtol * w ≤ |(|t - c| - w)|) : Clear1 l h t := by
  subst hc hw; exact hcl

theorem clearBox_centred {dim p : V3 ℝ} (hx : rtol * (dim.x / 2) ≤ |(|p.x| - dim.x / 2)|)
    (hy : rtol * (dim.y / 2) ≤ |(|p.y| - dim.y / 2)|) (hz : rtol * (dim.z / 2) ≤ |(|p.z| - dim.z / 2)|) :
    ClearBox (loC dim) (hiC dim) p :=
  ⟨clear1_of (c := 0) (w := dim.x / 2) (by simp only [loC, hiC]; ring) (by simp only [loC, hiC]; ring) (by rwa [sub_zero]),
   clear1_of (c := 0) (w := dim.y / 2) (by simp only [loC, hiC]; ring) (by simp only [loC, hiC]; ring) (by rwa [sub_zero]),
   clear1_of (c := 0) (w := dim.z / 2) (by simp only [loC, hiC]; ring) (by simp only [loC, hiC]; ring) (by rwa [sub_zero])⟩

section centred
variable (dim pol p : V3 ℝ) (t : ℝ) (hdx : 0 < dim.x) (hdy : 0 < dim.y) (hdz : 0 < dim.z)
include hdx hdy hdz

/-- a centred Cuboid cut by the plane `x = t` -/
theorem cuboid_split_x (ht1 : -(dim.x / 2) < t) (ht2 : t < dim.x / 2)
    (hx : |p.x| ≠ dim.x / 2) (hxt : p.x ≠ t) (hy : |p.y| ≠ dim.y / 2) (hz : |p.z| ≠ dim.z / 2) :
    cuboidB dim pol p =
      cuboidB ⟨t + dim.x / 2, dim.y, dim.z⟩ pol (p - ⟨(t - dim.x / 2) / 2, 0, 0⟩) +
      cuboidB ⟨dim.x / 2 - t, dim.y, dim.z⟩ pol (p - ⟨(t + dim.x / 2) / 2, 0, 0⟩) := by
  have h := cuboidBox_split_x (loC dim) (hiC dim) pol p t ht1 ht2 (by simp only [loC, hiC]; linarith)
    (by simp only [loC, hiC]; linarith) (offBox_centred hdx hdy hdz hx hy hz) hxt
  rw [cuboidBox_centred] at h
  rw [h]
  congr 1 <;> apply cuboidBox_congr <;> apply V3.ext' <;>
    simp only [loC, hiC, V3.sub_x, V3.sub_y, V3.sub_z] <;> ring

/-- a centred Cuboid cut by the plane `y = t` -/
theorem cuboid_split_y (ht1 : -(dim.y / 2) < t) (ht2 : t < dim.y / 2)
    (hx : |p.x| ≠ dim.x / 2) (hy : |p.y| ≠ dim.y / 2) (hyt : p.y ≠ t) (hz : |p.z| ≠ dim.z / 2) :
    cuboidB dim pol p =
      cuboidB ⟨dim.x, t + dim.y / 2, dim.z⟩ pol (p - ⟨0, (t - dim.y / 2) / 2, 0⟩) +
      cuboidB ⟨dim.x, dim.y / 2 - t, dim.z⟩ pol (p - ⟨0, (t + dim.y / 2) / 2, 0⟩) := by
  have h := cuboidBox_split_y (loC dim) (hiC dim) pol p t (by simp only [loC, hiC]; linarith) ht1 ht2
    (by simp only [loC, hiC]; linarith) (offBox_centred hdx hdy hdz hx hy hz) hyt
  rw [cuboidBox_centred] at h
  rw [h]
  congr 1 <;> apply cuboidBox_congr <;> apply V3.ext' <;>
    simp only [loC, hiC, V3.sub_x, V3.sub_y, V3.sub_z] <;> ring

/-- a centred Cuboid cut by the plane `z = t` -/
theorem cuboid_split_z (ht1 : -(dim.z / 2) < t) (ht2 : t < dim.z / 2)
    (hx : |p.x| ≠ dim.x / 2) (hy : |p.y| ≠ dim.y / 2) (hz : |p.z| ≠ dim.z / 2) (hzt : p.z ≠ t) :
    cuboidB dim pol p =
      cuboidB ⟨dim.x, dim.y, t + dim.z / 2⟩ pol (p - ⟨0, 0, (t - dim.z / 2) / 2⟩) +
      cuboidB ⟨dim.x, dim.y, dim.z / 2 - t⟩ pol (p - ⟨0, 0, (t + dim.z / 2) / 2⟩) := by
  have h := cuboidBox_split_z (loC dim) (hiC dim) pol p t (by simp only [loC, hiC]; linarith)
    (by simp only [loC, hiC]; linarith) ht1 ht2 (offBox_centred hdx hdy hdz hx hy hz) hzt
  rw [cuboidBox_centred] at h
  rw [h]
  congr 1 <;> apply cuboidBox_congr <;> apply V3.ext' <;>
    simp only [loC, hiC, V3.sub_x, V3.sub_y, V3.sub_z] <;> ring

omit hdx in
/-- the wrapper, all four fields: a centred Cuboid cut by the plane `x = t`; the observer is outside the surface
shells of all three bodies (the y- and z-shells are common to them; `0 < dim.x` follows from the cut position) -/
theorem cuboid_split_wrapper_x (f : Field) (ht1 : -(dim.x / 2) < t) (ht2 : t < dim.x / 2)
    (hx : rtol * (dim.x / 2) ≤ |(|p.x| - dim.x / 2)|) (hy : rtol * (dim.y / 2) ≤ |(|p.y| - dim.y / 2)|)
    (hz : rtol * (dim.z / 2) ≤ |(|p.z| - dim.z / 2)|)
    (hL : rtol * ((t + dim.x / 2) / 2) ≤ |(|p.x - (t - dim.x / 2) / 2| - (t + dim.x / 2) / 2)|)
    (hR : rtol * ((dim.x / 2 - t) / 2) ≤ |(|p.x - (t + dim.x / 2) / 2| - (dim.x / 2 - t) / 2)|) :
    bhjmCuboid f dim pol p =
      bhjmCuboid f ⟨t + dim.x / 2, dim.y, dim.z⟩ pol (p - ⟨(t - dim.x / 2) / 2, 0, 0⟩) +
      bhjmCuboid f ⟨dim.x / 2 - t, dim.y, dim.z⟩ pol (p - ⟨(t + dim.x / 2) / 2, 0, 0⟩) := by
  have h := bhjmCuboidBox_split_x f (loC dim) (hiC dim) pol p t ht1 ht2 (by simp only [loC, hiC]; linarith)
    (by simp only [loC, hiC]; linarith) (clearBox_centred hx hy hz)
    (clear1_of (c := (t - dim.x / 2) / 2) (w := (t + dim.x / 2) / 2) (by simp only [loC]; ring)
      (by simp only [loC]; ring) hL)
    (clear1_of (c := (t + dim.x / 2) / 2) (w := (dim.x / 2 - t) / 2) rfl
      rfl hR)
  rw [bhjmCuboidBox_centred] at h
  rw [h]
  congr 1 <;> apply bhjmCuboidBox_congr <;> apply V3.ext' <;>
    simp only [loC, hiC, V3.sub_x, V3.sub_y, V3.sub_z] <;> ring

omit hdy in
theorem cuboid_split_wrapper_y (f : Field) (ht1 : -(dim.y / 2) < t) (ht2 : t < dim.y / 2)
    (hx : rtol * (dim.x / 2) ≤ |(|p.x| - dim.x / 2)|) (hy : rtol * (dim.y / 2) ≤ |(|p.y| - dim.y / 2)|)
    (hz : rtol * (dim.z / 2) ≤ |(|p.z| - dim.z / 2)|)
    (hL : rtol * ((t + dim.y / 2) / 2) ≤ |(|p.y - (t - dim.y / 2) / 2| - (t + dim.y / 2) / 2)|)
    (hR : rtol * ((dim.y / 2 - t) / 2) ≤ |(|p.y - (t + dim.y / 2) / 2| - (dim.y / 2 - t) / 2)|) :
    bhjmCuboid f dim pol p =
      bhjmCuboid f ⟨dim.x, t + dim.y / 2, dim.z⟩ pol (p - ⟨0, (t - dim.y / 2) / 2, 0⟩) +
      bhjmCuboid f ⟨dim.x, dim.y / 2 - t, dim.z⟩ pol (p - ⟨0, (t + dim.y / 2) / 2, 0⟩) := by
  have h := bhjmCuboidBox_split_y f (loC dim) (hiC dim) pol p t (by simp only [loC, hiC]; linarith) ht1 ht2
    (by simp only [loC, hiC]; linarith) (clearBox_centred hx hy hz)
    (clear1_of (c := (t - dim.y / 2) / 2) (w := (t + dim.y / 2) / 2) (by simp only [loC]; ring)
      (by simp only [loC]; ring) hL)
    (clear1_of (c := (t + dim.y / 2) / 2) (w := (dim.y / 2 - t) / 2) rfl
      rfl hR)
  rw [bhjmCuboidBox_centred] at h
  rw [h]
  congr 1 <;> apply bhjmCuboidBox_congr <;> apply V3.ext' <;>
    simp only [loC, hiC, V3.sub_x, V3.sub_y, V3.sub_z] <;> ring

omit hdz in
theorem cuboid_split_wrapper_z (f : Field) (ht1 : -(dim.z / 2) < t) (ht2 : t < dim.z / 2)
    (hx : rtol * (dim.x / 2) ≤ |(|p.x| - dim.x / 2)|) (hy : rtol * (dim.y / 2) ≤ |(|p.y| - dim.y / 2)|)
    (hz : rtol * (dim.z / 2) ≤ |(|p.z| - dim.z / 2)|)
    (hL : rtol * ((t + dim.z / 2) / 2) ≤ |(|p.z - (t - dim.z / 2) / 2| - (t + dim.z / 2) / 2)|)
    (hR : rtol * ((dim.z / 2 - t) / 2) ≤ |(|p.z - (t + dim.z / 2) / 2| - (dim.z / 2 - t) / 2)|) :
    bhjmCuboid f dim pol p =
      bhjmCuboid f ⟨dim.x, dim.y, t + dim.z / 2⟩ pol (p - ⟨0, 0, (t - dim.z / 2) / 2⟩) +
      bhjmCuboid f ⟨dim.x, dim.y, dim.z / 2 - t⟩ pol (p - ⟨0, 0, (t + dim.z / 2) / 2⟩) := by
  have h := bhjmCuboidBox_split_z f (loC dim) (hiC dim) pol p t (by simp only [loC, hiC]; linarith)
    (by simp only [loC, hiC]; linarith) ht1 ht2 (clearBox_centred hx hy hz)
    (clear1_of (c := (t - dim.z / 2) / 2) (w := (t + dim.z / 2) / 2) (by simp only [loC]; ring)
      (by simp only [loC]; ring) hL)
    (clear1_of (c := (t + dim.z / 2) / 2) (w := (dim.z / 2 - t) / 2) rfl
      rfl hR)
  rw [bhjmCuboidBox_centred] at h
  rw [h]
  congr 1 <;> apply bhjmCuboidBox_congr <;> apply V3.ext' <;>
    simp only [loC, hiC, V3.sub_x, V3.sub_y, V3.sub_z] <;> ring

end centred

/-! ### centred lists of cuts and grids -/

theorem getLast_snoc (l : List ℝ) (a : ℝ) (h : l ++ [a] ≠ []) : (l ++ [a]).getLast h = a := by simp

/-- a centred Cuboid cut by the planes `x = t` for `t` in `cuts` (strictly increasing, strictly between the faces):
the slabs `[t_k, t_(k+1)]` sum to the whole -/
theorem cuboid_split_x_list (dim pol p : V3 ℝ) (cuts : List ℝ) (hdy : 0 < dim.y) (hdz : 0 < dim.z)
    (hp : (-(dim.x / 2) :: (cuts ++ [dim.x / 2])).Pairwise (· < ·))
    (hxo : ∀ t ∈ -(dim.x / 2) :: (cuts ++ [dim.x / 2]), p.x ≠ t) (hy : |p.y| ≠ dim.y / 2) (hz : |p.z| ≠ dim.z / 2) :
    chainSum (fun a b => cuboidB ⟨b - a, dim.y, dim.z⟩ pol (p - ⟨(a + b) / 2, 0, 0⟩)) (-(dim.x / 2))
      (cuts ++ [dim.x / 2]) = cuboidB dim pol p := by
  have hne : cuts ++ [dim.x / 2] ≠ [] := by simp
  obtain ⟨y1, y2⟩ := off_of_abs (half_pos hdy) hy
  obtain ⟨z1, z2⟩ := off_of_abs (half_pos hdz) hz
  have h := cuboidBox_chain_x pol p (-(dim.y / 2)) (dim.y / 2) (-(dim.z / 2)) (dim.z / 2) (by linarith) (by linarith)
    ⟨fun e => y2 (by rw [e]; ring), fun e => y1 (by rw [e]; ring)⟩
    ⟨fun e => z2 (by rw [e]; ring), fun e => z1 (by rw [e]; ring)⟩ (cuts ++ [dim.x / 2]) (-(dim.x / 2)) hne hp hxo
  rw [getLast_snoc] at h
  have hf : (fun a b => cuboidB ⟨b - a, dim.y, dim.z⟩ pol (p - ⟨(a + b) / 2, 0, 0⟩)) =
      fun a b => cuboidBox ⟨a, -(dim.y / 2), -(dim.z / 2)⟩ ⟨b, dim.y / 2, dim.z / 2⟩ pol p := by
    funext a b
    symm
    apply cuboidBox_congr <;> apply V3.ext' <;> simp only [V3.sub_x, V3.sub_y, V3.sub_z] <;> ring
  rw [hf, h]
  exact cuboidBox_centred dim pol p

/-- **grid partition of a centred Cuboid**: interior cut positions `xs`, `ys`, `zs` per axis (strictly increasing,
strictly between the faces; any of them may be empty); the `(|xs|+1)·(|ys|+1)·(|zs|+1)` cells — each a Cuboid of its
own side lengths, evaluated at the observer shifted by its own centre — sum to the whole, for every observer in none
of the grid planes (the six faces included) -/
theorem cuboid_grid_partition (dim pol p : V3 ℝ) (xs ys zs : List ℝ)
    (hxp : (-(dim.x / 2) :: (xs ++ [dim.x / 2])).Pairwise (· < ·))
    (hyp : (-(dim.y / 2) :: (ys ++ [dim.y / 2])).Pairwise (· < ·))
    (hzp : (-(dim.z / 2) :: (zs ++ [dim.z / 2])).Pairwise (· < ·))
    (hxo : ∀ t ∈ -(dim.x / 2) :: (xs ++ [dim.x / 2]), p.x ≠ t)
    (hyo : ∀ t ∈ -(dim.y / 2) :: (ys ++ [dim.y / 2]), p.y ≠ t)
    (hzo : ∀ t ∈ -(dim.z / 2) :: (zs ++ [dim.z / 2]), p.z ≠ t) :
    chainSum (fun xa xb => chainSum (fun ya yb => chainSum (fun za zb =>
        cuboidB ⟨xb - xa, yb - ya, zb - za⟩ pol (p - ⟨(xa + xb) / 2, (ya + yb) / 2, (za + zb) / 2⟩))
        (-(dim.z / 2)) (zs ++ [dim.z / 2])) (-(dim.y / 2)) (ys ++ [dim.y / 2])) (-(dim.x / 2)) (xs ++ [dim.x / 2]) =
      cuboidB dim pol p := by
  have h := cuboidBox_grid pol p (-(dim.x / 2)) (-(dim.y / 2)) (-(dim.z / 2)) (xs ++ [dim.x / 2]) (ys ++ [dim.y / 2])
    (zs ++ [dim.z / 2]) (by simp) (by simp) (by simp) hxp hyp hzp hxo hyo hzo
  simp only [getLast_snoc] at h
  exact h.trans (cuboidBox_centred dim pol p)

/-! ### grids for the wrapper: one clearance hypothesis per grid plane -/

/-- `t` is a grid coordinate of the body `[L, H]` and the observer coordinate `u` keeps the distance `1e-15·(H − L)/2`
(the shell half-width of the WHOLE body, the largest of all the cells' and slabs' shells) from the plane at `t` -/
def Near (L H u t : ℝ) : Prop := L ≤ t ∧ t ≤ H ∧ rtol * ((H - L) / 2) ≤ |u - t|

theorem clear1_of_near {a b u τ : ℝ} (hτ : rtol * ((b - a) / 2) ≤ τ) (ha : τ ≤ |u - a|) (hb : τ ≤ |u - b|) :
    Clear1 a b u := by
  unfold Clear1
  rcases le_or_gt 0 (u - (a + b) / 2) with h | h
  · rw [abs_of_nonneg h, show u - (a + b) / 2 - (b - a) / 2 = u - b by ring]; linarith
  · rw [abs_of_neg h, show -(u - (a + b) / 2) - (b - a) / 2 = -(u - a) by ring, abs_neg]; linarith

theorem near_clear {L H u a b : ℝ} (ha : Near L H u a) (hb : Near L H u b) : Clear1 a b u := by
  obtain ⟨la, _, na⟩ := ha
  obtain ⟨_, bh, nb⟩ := hb
  exact clear1_of_near (mul_le_mul_of_nonneg_left (by linarith) rtol_pos.le) na nb

theorem le_getLast_of_pairwise : ∀ (l : List ℝ) (hne : l ≠ []), l.Pairwise (· < ·) → ∀ t ∈ l, t ≤ l.getLast hne
  | [], hne, _, _, _ => absurd rfl hne
  | [a], _, _, t, ht => by simp only [List.mem_singleton] at ht; simp [ht]
  | a :: b :: l, _, hp, t, ht => by
      rw [List.getLast_cons_cons]
      rcases List.mem_cons.mp ht with rfl | ht'
      · exact ((List.pairwise_cons.mp hp).1 _ (List.getLast_mem _)).le
      · exact le_getLast_of_pairwise (b :: l) (by simp) (List.pairwise_cons.mp hp).2 t ht'

/-- the grid coordinates `t0 :: ts` of one axis, each at shell distance of the whole range from `u` -/
theorem near_of_grid {u t0 : ℝ} {ts : List ℝ} (hne : ts ≠ []) (hp : (t0 :: ts).Pairwise (· < ·))
    (h : ∀ t ∈ t0 :: ts, rtol * ((ts.getLast hne - t0) / 2) ≤ |u - t|) :
    ∀ t ∈ t0 :: ts, Near t0 (ts.getLast hne) u t := by
  intro t ht
  refine ⟨?_, ?_, h t ht⟩
  · rcases List.mem_cons.mp ht with rfl | ht'
    · exact le_rfl
    · exact ((List.pairwise_cons.mp hp).1 t ht').le
  · have := le_getLast_of_pairwise (t0 :: ts) (by simp) hp t ht
    rwa [List.getLast_cons hne] at this

theorem bhjmCuboidBox_chain_x (f : Field) (pol p : V3 ℝ) (ly hy lz hz : ℝ) (hyl : ly < hy) (hzl : lz < hz)
    (cy : Clear1 ly hy p.y) (cz : Clear1 lz hz p.z) (ts : List ℝ) (t0 : ℝ) (hne : ts ≠ [])
    (hp : (t0 :: ts).Pairwise (· < ·)) (L H : ℝ) (hn : ∀ t ∈ t0 :: ts, Near L H p.x t) :
    chainSum (fun a b => bhjmCuboidBox f ⟨a, ly, lz⟩ ⟨b, hy, hz⟩ pol p) t0 ts =
      bhjmCuboidBox f ⟨t0, ly, lz⟩ ⟨ts.getLast hne, hy, hz⟩ pol p :=
  chainSum_telescope _ (Near L H p.x)
    (fun a b c hab hbc oa ob oc =>
      (bhjmCuboidBox_split_x f ⟨a, ly, lz⟩ ⟨c, hy, hz⟩ pol p b hab hbc hyl hzl ⟨near_clear oa oc, cy, cz⟩
        (near_clear oa ob) (near_clear ob oc)).symm)
    ts t0 hne hp hn

theorem bhjmCuboidBox_chain_y (f : Field) (pol p : V3 ℝ) (lx hx lz hz : ℝ) (hxl : lx < hx) (hzl : lz < hz)
    (cx : Clear1 lx hx p.x) (cz : Clear1 lz hz p.z) (ts : List ℝ) (t0 : ℝ) (hne : ts ≠ [])
    (hp : (t0 :: ts).Pairwise (· < ·)) (L H : ℝ) (hn : ∀ t ∈ t0 :: ts, Near L H p.y t) :
    chainSum (fun a b => bhjmCuboidBox f ⟨lx, a, lz⟩ ⟨hx, b, hz⟩ pol p) t0 ts =
      bhjmCuboidBox f ⟨lx, t0, lz⟩ ⟨hx, ts.getLast hne, hz⟩ pol p :=
  chainSum_telescope _ (Near L H p.y)
    (fun a b c hab hbc oa ob oc =>
      (bhjmCuboidBox_split_y f ⟨lx, a, lz⟩ ⟨hx, c, hz⟩ pol p b hxl hab hbc hzl ⟨cx, near_clear oa oc, cz⟩
        (near_clear oa ob) (near_clear ob oc)).symm)
    ts t0 hne hp hn

theorem bhjmCuboidBox_chain_z (f : Field) (pol p : V3 ℝ) (lx hx ly hy : ℝ) (hxl : lx < hx) (hyl : ly < hy)
    (cx : Clear1 lx hx p.x) (cy : Clear1 ly hy p.y) (ts : List ℝ) (t0 : ℝ) (hne : ts ≠ [])
    (hp : (t0 :: ts).Pairwise (· < ·)) (L H : ℝ) (hn : ∀ t ∈ t0 :: ts, Near L H p.z t) :
    chainSum (fun a b => bhjmCuboidBox f ⟨lx, ly, a⟩ ⟨hx, hy, b⟩ pol p) t0 ts =
      bhjmCuboidBox f ⟨lx, ly, t0⟩ ⟨hx, hy, ts.getLast hne⟩ pol p :=
  chainSum_telescope _ (Near L H p.z)
    (fun a b c hab hbc oa ob oc =>
      (bhjmCuboidBox_split_z f ⟨lx, ly, a⟩ ⟨hx, hy, c⟩ pol p b hxl hyl hab hbc ⟨cx, cy, near_clear oa oc⟩
        (near_clear oa ob) (near_clear ob oc)).symm)
    ts t0 hne hp hn

/-- grid partition for the wrapper, all four fields: the observer keeps, along each axis, the whole body's shell
distance `1e-15·(extent/2)` from every grid plane of that axis -/
theorem bhjmCuboidBox_grid (f : Field) (pol p : V3 ℝ) (x0 y0 z0 : ℝ) (xs ys zs : List ℝ) (hxne : xs ≠ [])
    (hyne : ys ≠ []) (hzne : zs ≠ []) (hxp : (x0 :: xs).Pairwise (· < ·)) (hyp : (y0 :: ys).Pairwise (· < ·))
    (hzp : (z0 :: zs).Pairwise (· < ·))
    (hxo : ∀ t ∈ x0 :: xs, rtol * ((xs.getLast hxne - x0) / 2) ≤ |p.x - t|)
    (hyo : ∀ t ∈ y0 :: ys, rtol * ((ys.getLast hyne - y0) / 2) ≤ |p.y - t|)
    (hzo : ∀ t ∈ z0 :: zs, rtol * ((zs.getLast hzne - z0) / 2) ≤ |p.z - t|) :
    chainSum (fun xa xb => chainSum (fun ya yb => chainSum (fun za zb =>
        bhjmCuboidBox f ⟨xa, ya, za⟩ ⟨xb, yb, zb⟩ pol p) z0 zs) y0 ys) x0 xs =
      bhjmCuboidBox f ⟨x0, y0, z0⟩ ⟨xs.getLast hxne, ys.getLast hyne, zs.getLast hzne⟩ pol p := by
  have nx := near_of_grid hxne hxp hxo
  have ny := near_of_grid hyne hyp hyo
  have nz := near_of_grid hzne hzp hzo
  have hzl := lt_getLast hzne hzp
  have hyl := lt_getLast hyne hyp
  have cz : Clear1 z0 (zs.getLast hzne) p.z := near_clear (nz _ List.mem_cons_self) (nz _ (getLast_mem_cons hzne))
  have cy : Clear1 y0 (ys.getLast hyne) p.y := near_clear (ny _ List.mem_cons_self) (ny _ (getLast_mem_cons hyne))
  rw [chainSum_congr (g := fun xa xb => bhjmCuboidBox f ⟨xa, y0, z0⟩ ⟨xb, ys.getLast hyne, zs.getLast hzne⟩ pol p)
    (Near x0 (xs.getLast hxne) p.x) ?_ xs x0 hxp nx]
  · exact bhjmCuboidBox_chain_x f pol p _ _ _ _ hyl hzl cy cz xs x0 hxne hxp _ _ nx
  · intro xa xb hxab oxa oxb
    rw [chainSum_congr (g := fun ya yb => bhjmCuboidBox f ⟨xa, ya, z0⟩ ⟨xb, yb, zs.getLast hzne⟩ pol p)
      (Near y0 (ys.getLast hyne) p.y) ?_ ys y0 hyp ny]
    · exact bhjmCuboidBox_chain_y f pol p _ _ _ _ hxab hzl (near_clear oxa oxb) cz ys y0 hyne hyp _ _ ny
    · intro ya yb hyab oya oyb
      exact bhjmCuboidBox_chain_z f pol p _ _ _ _ hxab hyab (near_clear oxa oxb) (near_clear oya oyb) zs z0 hzne hzp
        _ _ nz

/-- **grid partition of a centred Cuboid, wrapper, all four fields** -/
theorem cuboid_grid_partition_wrapper (f : Field) (dim pol p : V3 ℝ) (xs ys zs : List ℝ)
    (hxp : (-(dim.x / 2) :: (xs ++ [dim.x / 2])).Pairwise (· < ·))
    (hyp : (-(dim.y / 2) :: (ys ++ [dim.y / 2])).Pairwise (· < ·))
    (hzp : (-(dim.z / 2) :: (zs ++ [dim.z / 2])).Pairwise (· < ·))
    (hxo : ∀ t ∈ -(dim.x / 2) :: (xs ++ [dim.x / 2]), rtol * (dim.x / 2) ≤ |p.x - t|)
    (hyo : ∀ t ∈ -(dim.y / 2) :: (ys ++ [dim.y / 2]), rtol * (dim.y / 2) ≤ |p.y - t|)
    (hzo : ∀ t ∈ -(dim.z / 2) :: (zs ++ [dim.z / 2]), rtol * (dim.z / 2) ≤ |p.z - t|) :
    chainSum (fun xa xb => chainSum (fun ya yb => chainSum (fun za zb =>
        bhjmCuboid f ⟨xb - xa, yb - ya, zb - za⟩ pol (p - ⟨(xa + xb) / 2, (ya + yb) / 2, (za + zb) / 2⟩))
        (-(dim.z / 2)) (zs ++ [dim.z / 2])) (-(dim.y / 2)) (ys ++ [dim.y / 2])) (-(dim.x / 2)) (xs ++ [dim.x / 2]) =
      bhjmCuboid f dim pol p := by
  have e : ∀ a : ℝ, (a / 2 - -(a / 2)) / 2 = a / 2 := fun a => by ring
  have h := bhjmCuboidBox_grid f pol p (-(dim.x / 2)) (-(dim.y / 2)) (-(dim.z / 2)) (xs ++ [dim.x / 2])
    (ys ++ [dim.y / 2]) (zs ++ [dim.z / 2]) (by simp) (by simp) (by simp) hxp hyp hzp
    (by simpa only [getLast_snoc, e] using hxo) (by simpa only [getLast_snoc, e] using hyo)
    (by simpa only [getLast_snoc, e] using hzo)
  simp only [getLast_snoc] at h
  exact h.trans (bhjmCuboidBox_centred f dim pol p)

/-! ### the surface-charge integral itself -/

/-- the Coulombian surface integral (μ₀H) of the whole is the sum of the surface integrals of the two parts: the
four faces parallel to the cut axis are the unions of the parts' faces, the two internal faces cancel (any cut position
`t` off the observer, even outside the body: then one "part" has negative width and the identity is still true) -/
theorem cuboidCoulombB_split_x (dim pol p : V3 ℝ) (t : ℝ) (hdx : 0 < dim.x) (hdy : 0 < dim.y) (hdz : 0 < dim.z)
    (hx : |p.x| ≠ dim.x / 2) (hxt : p.x ≠ t) (hy : |p.y| ≠ dim.y / 2) (hz : |p.z| ≠ dim.z / 2) :
    cuboidCoulombB dim pol p =
      cuboidCoulombB ⟨t + dim.x / 2, dim.y, dim.z⟩ pol (p - ⟨(t - dim.x / 2) / 2, 0, 0⟩) +
      cuboidCoulombB ⟨dim.x / 2 - t, dim.y, dim.z⟩ pol (p - ⟨(t + dim.x / 2) / 2, 0, 0⟩) := by
  obtain ⟨x1, x2⟩ := off_of_abs (half_pos hdx) hx
  obtain ⟨y1, y2⟩ := off_of_abs (half_pos hdy) hy
  obtain ⟨z1, z2⟩ := off_of_abs (half_pos hdz) hz
  have eL1 : p.x - (t - dim.x / 2) / 2 - (t + dim.x / 2) / 2 = p.x - t := by ring
  have eL2 : p.x - (t - dim.x / 2) / 2 + (t + dim.x / 2) / 2 = p.x + dim.x / 2 := by ring
  have eR1 : p.x - (t + dim.x / 2) / 2 - (dim.x / 2 - t) / 2 = p.x - dim.x / 2 := by ring
  have eR2 : p.x - (t + dim.x / 2) / 2 + (dim.x / 2 - t) / 2 = p.x - t := by ring
  have ht : p.x - t ≠ 0 := sub_ne_zero.mpr hxt
  rw [cuboidCoulombB_eq_boxC dim pol p x1 x2 y1 y2 z1 z2,
    cuboidCoulombB_eq_boxC ⟨t + dim.x / 2, dim.y, dim.z⟩ pol (p - ⟨(t - dim.x / 2) / 2, 0, 0⟩)
      (by simpa only [V3.sub_x, eL1] using ht) (by simpa only [V3.sub_x, eL2] using x2)
      (by simpa only [V3.sub_y, sub_zero] using y1) (by simpa only [V3.sub_y, sub_zero] using y2)
      (by simpa only [V3.sub_z, sub_zero] using z1) (by simpa only [V3.sub_z, sub_zero] using z2),
    cuboidCoulombB_eq_boxC ⟨dim.x / 2 - t, dim.y, dim.z⟩ pol (p - ⟨(t + dim.x / 2) / 2, 0, 0⟩)
      (by simpa only [V3.sub_x, eR1] using x1) (by simpa only [V3.sub_x, eR2] using ht)
      (by simpa only [V3.sub_y, sub_zero] using y1) (by simpa only [V3.sub_y, sub_zero] using y2)
      (by simpa only [V3.sub_z, sub_zero] using z1) (by simpa only [V3.sub_z, sub_zero] using z2)]
  simp only [V3.sub_x, V3.sub_y, V3.sub_z, sub_zero, eL1, eL2, eR1, eR2]
  rw [boxC_split_x pol (p.x - dim.x / 2) (p.x - t) (p.x + dim.x / 2)]
  exact v3_add_comm _ _

end MagpyVerif.CuboidSplit
