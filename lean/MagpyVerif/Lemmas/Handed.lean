/- the handedness flip as a concrete map (AUDIT2 §6 item 8, C04 (b)): `V3.flipX` of Model/Basic.lean — the definition every
driver stream runs — is the statement `B[..., pix_slice, 0] *= -1` that translate/gen.py reads from getBH_level2 on every run
(Gen/Handed.lean), a linear involution that is a REFLECTION (it reverses the cross product), i.e. a change of handedness. -/
import MagpyVerif.Model.Basic
import MagpyVerif.Gen.Handed
import Mathlib.Tactic.Ring
import Mathlib.Data.Real.Basic
namespace MagpyVerif
namespace V3
variable {α : Type}

@[simp] theorem flipX_x [Neg α] (a : V3 α) : (flipX a).x = -a.x := rfl
@[simp] theorem flipX_y [Neg α] (a : V3 α) : (flipX a).y = a.y := rfl
@[simp] theorem flipX_z [Neg α] (a : V3 α) : (flipX a).z = a.z := rfl

theorem flipX_involutive [InvolutiveNeg α] (a : V3 α) : flipX (flipX a) = a := by
  cases a; simp [flipX]

/-- in-place multiplication of component 0 by -1 is the x-flip, over any ring -/
theorem scaleComp_zero_neg_one [Ring α] (a : V3 α) : scaleComp 0 (-1 : α) a = flipX a := by
  cases a; simp [scaleComp, flipX]

theorem flipX_add [AddCommGroup α] (a b : V3 α) : flipX (a + b) = flipX a + flipX b := by
  cases a; cases b
  show (⟨_, _, _⟩ : V3 α) = ⟨_, _, _⟩
  congr 1
  exact neg_add _ _

theorem flipX_smul [Ring α] (c : α) (a : V3 α) : flipX (smul c a) = smul c (flipX a) := by
  cases a; simp [flipX, smul]

/-- a reflection keeps the scalar product … -/
theorem flipX_dot [CommRing α] (a b : V3 α) : dot (flipX a) (flipX b) = dot a b := by
  cases a; cases b; simp only [flipX, dot]; ring

/-- … and REVERSES the vector product: it maps a right-handed triple to a left-handed one (det = -1) -/
theorem flipX_cross [CommRing α] (a b : V3 α) : cross (flipX a) (flipX b) = -flipX (cross a b) := by
  cases a; cases b
  show (⟨_, _, _⟩ : V3 α) = ⟨_, _, _⟩
  simp only [flipX, cross]
  congr 1 <;> ring

end V3
end MagpyVerif
