/- (audit2) a carrier on which the c03post theorems can be INSTANTIATED with the reductions of Model/PixelAgg:
the group `Oct` (the 24 octahedral rotation matrices, Lemmas/OctaCarrier) acting on `V3 ℝ` through the model's own
`M3.apply` after casting the integer matrix to ℝ; `+`, `-`, `0` of `V3 ℝ` are the instances of Model/Basic.lean.
`Num ℝ` (Lemmas/KernReal) makes `PixelAgg.npMean / npMedian / npStd / npPtp` functions `List (V3 ℝ) → V3 ℝ`. -/
import MagpyVerif.Lemmas.OctaCarrier
import MagpyVerif.Lemmas.KernReal
import MagpyVerif.Model.PixelAgg
namespace MagpyVerif
open MagpyVerif.Level2

namespace V3
theorem zero_defR : (0 : V3 ℝ) = ⟨0, 0, 0⟩ := rfl

noncomputable instance instAddCommGroupReal : AddCommGroup (V3 ℝ) :=
  { (inferInstance : Add (V3 ℝ)), (inferInstance : Zero (V3 ℝ)),
    (inferInstance : Neg (V3 ℝ)), (inferInstance : Sub (V3 ℝ)) with
    add_assoc := fun a b c => by simp only [add_def, mk.injEq]; refine ⟨?_, ?_, ?_⟩ <;> ring
    zero_add := fun a => by simp only [add_def, zero_defR, ext_iff']; refine ⟨?_, ?_, ?_⟩ <;> ring
    add_zero := fun a => by simp only [add_def, zero_defR, ext_iff']; refine ⟨?_, ?_, ?_⟩ <;> ring
    nsmul := nsmulRec
    zsmul := zsmulRec
    neg_add_cancel := fun a => by simp only [add_def, neg_def, zero_defR, mk.injEq]; refine ⟨?_, ?_, ?_⟩ <;> ring
    add_comm := fun a b => by simp only [add_def, mk.injEq]; refine ⟨?_, ?_, ?_⟩ <;> ring
    sub_eq_add_neg := fun a b => by simp only [add_def, sub_def, neg_def, mk.injEq]; refine ⟨?_, ?_, ?_⟩ <;> ring }
end V3

/-- an integer matrix as a real matrix -/
def M3.toReal (m : M3 Int) : M3 ℝ :=
  ⟨⟨m.r1.x, m.r1.y, m.r1.z⟩, ⟨m.r2.x, m.r2.y, m.r2.z⟩, ⟨m.r3.x, m.r3.y, m.r3.z⟩⟩

theorem M3.toReal_mul_apply (a b : M3 Int) (v : V3 ℝ) : (a * b).toReal • v = a.toReal • b.toReal • v := by
  cases a with | mk a1 a2 a3 => cases b with | mk b1 b2 b3 =>
  cases a1; cases a2; cases a3; cases b1; cases b2; cases b3; cases v
  simp only [M3.toReal, M3.mul_def, M3.mul, M3.smul_def, M3.apply, M3.transpose, V3.dot, V3.mk.injEq]
  push_cast
  refine ⟨?_, ?_, ?_⟩ <;> ring

noncomputable instance : DistribMulAction Oct (V3 ℝ) where
  smul a v := a.1.toReal • v
  one_smul v := by
    show (1 : M3 Int).toReal • v = v
    cases v
    simp [M3.toReal, M3.one_def, M3.smul_def, M3.apply, V3.dot]
  mul_smul a b v := M3.toReal_mul_apply a.1 b.1 v
  smul_zero a := by
    show a.1.toReal • (0 : V3 ℝ) = 0
    simp [M3.smul_def, M3.apply, V3.dot, V3.zero_defR]
  smul_add a v w := by
    show a.1.toReal • (v + w) = a.1.toReal • v + a.1.toReal • w
    cases v; cases w
    simp only [M3.smul_def, M3.apply, V3.dot, V3.add_def, V3.mk.injEq]
    refine ⟨?_, ?_, ?_⟩ <;> ring

end MagpyVerif
