/-
Lemmas/DisplayArrow.lean — Model/DisplayArrow.lean at α = ℝ: the arrow head on a Circle, the arrow template of a Polyline
segment, the pixel cubes of a Sensor.
-/
import Mathlib.Analysis.SpecialFunctions.Trigonometric.Basic
import Mathlib.Tactic
import MagpyVerif.Lemmas.DisplayTrig
import MagpyVerif.Model.DisplayArrow
namespace MagpyVerif.DisplayTrig
open MagpyVerif MagpyVerif.Kern

theorem sgn_real (x : ℝ) : sgn x = if 0 < x then 1 else if x < 0 then -1 else 0 := by
  simp [sgn]

theorem sgn_pos {x : ℝ} (h : 0 < x) : sgn x = 1 := by rw [sgn_real, if_pos h]
theorem sgn_neg {x : ℝ} (h : x < 0) : sgn x = -1 := by rw [sgn_real, if_neg (by linarith), if_pos h]
theorem sgn_zero : sgn (0 : ℝ) = 0 := by simp [sgn_real]

/-- the unscaled barb length `hy` of `draw_arrow_on_circle` before the sign -/
noncomputable def circHy (d a : ℝ) (scaled : Bool) : ℝ := if scaled then 1 / 5 * a else a / d * 2

/-- `draw_arrow_on_circle` in closed form: with `φ = angle_pos_deg · π/180`, `e_r = (cos φ, sin φ)`, `e_t = (−sin φ, cos φ)`
(the counter-clockwise tangent), `hy = circHy · sgn(sign)`, `hx = 0.6 · circHy`: barb, tip, barb -/
theorem arrowOnCircle_eq (sign d a : ℝ) (scaled : Bool) (θ : ℝ) :
    arrowOnCircle sign d a scaled θ =
      let φ := θ * (Real.pi / 180)
      let hy := circHy d a scaled * sgn sign
      let hx := 3 / 5 * circHy d a scaled
      [⟨d / 2 * ((1 + hx) * Real.cos φ + hy * Real.sin φ), d / 2 * ((1 + hx) * Real.sin φ - hy * Real.cos φ), 0⟩,
       ⟨d / 2 * Real.cos φ, d / 2 * Real.sin φ, 0⟩,
       ⟨d / 2 * ((1 - hx) * Real.cos φ + hy * Real.sin φ), d / 2 * ((1 - hx) * Real.sin φ - hy * Real.cos φ), 0⟩] := by
  unfold arrowOnCircle circHy
  by_cases h0 : θ = 0
  · subst h0
    cases scaled <;> simp <;> refine ⟨⟨?_, ?_⟩, ⟨?_, ?_⟩⟩ <;> ring
  · cases scaled <;> simp [h0, deg2rad] <;> refine ⟨⟨?_, ?_⟩, ⟨?_, ?_⟩, ⟨?_, ?_⟩⟩ <;> ring

/-- the arrow template of a Polyline segment of length `L` in its own frame (default `arrow_pos = 0.5`) -/
theorem arrowedLineLocal_eq (sign a L : ℝ) :
    arrowedLineLocal sign a (1 / 2) L =
      [⟨0, -(L / 2), 0⟩, ⟨0, 0, 0⟩, ⟨-(3 / 5 * a * L), -(sgn sign * a * L), 0⟩, ⟨0, 0, 0⟩,
       ⟨3 / 5 * a * L, -(sgn sign * a * L), 0⟩, ⟨0, 0, 0⟩, ⟨0, L / 2, 0⟩] := by
  unfold arrowedLineLocal
  simp
  (try constructorm* _ ∧ _) <;> ring

/-- general `arrow_pos`: the tip sits at `(arrow_pos − 1/2) · L` along the segment -/
theorem arrowedLineLocal_tip (sign a p L : ℝ) :
    (arrowedLineLocal sign a p L)[1]? = some ⟨0, (p - 1 / 2) * L, 0⟩ ∧
    (arrowedLineLocal sign a p L)[0]? = some ⟨0, -(L / 2), 0⟩ ∧ (arrowedLineLocal sign a p L)[6]? = some ⟨0, L / 2, 0⟩ := by
  unfold arrowedLineLocal
  simp
  (try constructorm* _ ∧ _) <;> ring

/-! ### sensor pixels -/

theorem cubeAt_eq (p : V3 ℝ) (s : ℝ) :
    cubeAt p s = [⟨p.x - s / 2, p.y - s / 2, p.z - s / 2⟩, ⟨p.x - s / 2, p.y + s / 2, p.z - s / 2⟩,
      ⟨p.x + s / 2, p.y + s / 2, p.z - s / 2⟩, ⟨p.x + s / 2, p.y - s / 2, p.z - s / 2⟩,
      ⟨p.x - s / 2, p.y - s / 2, p.z + s / 2⟩, ⟨p.x - s / 2, p.y + s / 2, p.z + s / 2⟩,
      ⟨p.x + s / 2, p.y + s / 2, p.z + s / 2⟩, ⟨p.x + s / 2, p.y - s / 2, p.z + s / 2⟩] := by
  simp [cubeAt, Display.cuboidSignX, Display.cuboidSignY, Display.cuboidSignZ]
  refine ⟨⟨?_, ?_, ?_⟩, ⟨?_, ?_, ?_⟩, ⟨?_, ?_, ?_⟩, ⟨?_, ?_, ?_⟩, ⟨?_, ?_, ?_⟩, ⟨?_, ?_, ?_⟩, ⟨?_, ?_, ?_⟩, ⟨?_, ?_, ?_⟩⟩ <;> ring

theorem pixelCubes_cons (p : V3 ℝ) (ps : List (V3 ℝ)) (s : ℝ) : pixelCubes (p :: ps) s = cubeAt p s ++ pixelCubes ps s := rfl

theorem minOf_spec : ∀ (l : List ℝ) (m : ℝ), minOf l = some m → m ∈ l ∧ ∀ x ∈ l, m ≤ x := by
  intro l m h
  have hg : (fun (m x : ℝ) => if Num.lt x m = true then x else m) = fun m x => if x < m then x else m := by
    funext m x; simp
  cases l with
  | nil => simp [minOf] at h
  | cons a l =>
    simp only [minOf, Option.some.injEq, hg] at h
    subst h
    have key : ∀ (l : List ℝ) (a : ℝ), (l.foldl (fun m x => if x < m then x else m) a ∈ a :: l) ∧
        (l.foldl (fun m x => if x < m then x else m) a ≤ a) ∧
        ∀ x ∈ l, l.foldl (fun m x => if x < m then x else m) a ≤ x := by
      intro l
      induction l with
      | nil => intro a; simp
      | cons b l ih =>
        intro a
        simp only [List.foldl_cons]
        by_cases hb : b < a
        · simp only [hb, if_true]
          obtain ⟨i1, i2, i3⟩ := ih b
          refine ⟨List.mem_cons_of_mem _ i1, by linarith, ?_⟩
          intro x hx
          rcases List.mem_cons.1 hx with rfl | hx
          · exact i2
          · exact i3 x hx
        · simp only [hb, if_false]
          obtain ⟨i1, i2, i3⟩ := ih a
          refine ⟨?_, i2, ?_⟩
          · rcases List.mem_cons.1 i1 with h | h
            · rw [h]; simp
            · exact List.mem_cons_of_mem _ (List.mem_cons_of_mem _ h)
          · intro x hx
            rcases List.mem_cons.1 hx with rfl | hx
            · linarith
            · exact i3 x hx
    obtain ⟨k1, k2, k3⟩ := key l a
    refine ⟨k1, ?_⟩
    intro x hx
    rcases List.mem_cons.1 hx with rfl | hx
    · exact k2
    · exact k3 x hx

end MagpyVerif.DisplayTrig
