/-
Lemmas/SegmentDiv.lean — the straight current segment in canonical placement (on the z-axis from
`a` to `b`): closed form of the model `segmentH` there (through the Biot–Savart form of
Lemmas/SegmentBS.lean) and vanishing divergence off the axis (property C14).

  H(x, y, z) = I/(4π) · G(x² + y², z) · (−y, x, 0),
  G(u, z) = ((b − z)/√((b − z)² + u) − (a − z)/√((a − z)² + u)) / u

The field is azimuthal and its magnitude does not depend on the azimuth:
∂Hx/∂x + ∂Hy/∂y = −y·c·G₁·2x + x·c·G₁·2y = 0 and Hz ≡ 0.
-/
import MagpyVerif.Lemmas.SegmentBS
import MagpyVerif.Lemmas.DipoleCalc
import Mathlib.Analysis.Calculus.Deriv.Prod
import Mathlib.Analysis.Calculus.Deriv.Comp
import Mathlib.Analysis.Calculus.FDeriv.Mul

namespace MagpyVerif.SegBS
open MagpyVerif MagpyVerif.Kern Real intervalIntegral

/-- the scalar profile of the field of a segment on the z-axis from `a` to `b` as a function of
`u = ρ²` (squared distance from the axis) and the height `z` -/
noncomputable def segCanonG (a b z u : ℝ) : ℝ :=
  ((b - z) / √((b - z) ^ 2 + u) - (a - z) / √((a - z) ^ 2 + u)) / u

/-- the scalar Biot–Savart integral of the canonical segment in closed form -/
theorem K_canonical (a b x y z : ℝ) (hab : a ≠ b) (hρ : 0 < x * x + y * y) :
    K ⟨0, 0, a⟩ ⟨0, 0, b⟩ ⟨x, y, z⟩ = (b - a)⁻¹ * segCanonG a b z (x * x + y * y) := by
  have hh : b - a ≠ 0 := sub_ne_zero.mpr (Ne.symm hab)
  unfold K
  have hq : ∀ s : ℝ, nsq ((⟨x, y, z⟩ : V3 ℝ) - (⟨0, 0, a⟩ + vs s (⟨0, 0, b⟩ - ⟨0, 0, a⟩))) =
      ((b - a) * s - (z - a)) ^ 2 + (x * x + y * y) := by
    intro s
    simp only [nsq, vs, V3.add_x, V3.add_y, V3.add_z, V3.sub_x, V3.sub_y, V3.sub_z]
    ring
  simp only [hq]
  have hsub := intervalIntegral.integral_comp_mul_sub (a := (0 : ℝ)) (b := 1)
    (fun t => 1 / ((t ^ 2 + (x * x + y * y)) * Real.sqrt (t ^ 2 + (x * x + y * y)))) hh (z - a)
  beta_reduce at hsub
  rw [hsub, integral_g _ _ _ hρ, smul_eq_mul]
  unfold segCanonG
  have e1 : (b - a) * 1 - (z - a) = b - z := by ring
  have e2 : (b - a) * 0 - (z - a) = a - z := by ring
  rw [e1, e2]
  have hu : x * x + y * y ≠ 0 := hρ.ne'
  have s1 : √((b - z) ^ 2 + (x * x + y * y)) ≠ 0 := (Real.sqrt_pos.mpr (by positivity)).ne'
  have s2 : √((a - z) ^ 2 + (x * x + y * y)) ≠ 0 := (Real.sqrt_pos.mpr (by positivity)).ne'
  field_simp

/-- **the model's `segmentH` for the canonical placement** (segment on the z-axis from `a` to
`b ≠ a`, observer off the axis): purely azimuthal, `H = I/(4π) · G(ρ², z) · (−y, x, 0)` -/
theorem segmentH_canonical_eq (cur a b x y z : ℝ) (hab : a ≠ b) (hρ : 0 < x * x + y * y) :
    segmentH cur ⟨0, 0, a⟩ ⟨0, 0, b⟩ ⟨x, y, z⟩ =
      ⟨-y * (cur / (4 * Real.pi) * segCanonG a b z (x * x + y * y)),
        x * (cur / (4 * Real.pi) * segCanonG a b z (x * x + y * y)), 0⟩ := by
  have hh : b - a ≠ 0 := sub_ne_zero.mpr (Ne.symm hab)
  have hoff : 0 < nsq (V3.cross ((⟨0, 0, b⟩ : V3 ℝ) - ⟨0, 0, a⟩) (⟨x, y, z⟩ - ⟨0, 0, a⟩)) := by
    have : nsq (V3.cross ((⟨0, 0, b⟩ : V3 ℝ) - ⟨0, 0, a⟩) (⟨x, y, z⟩ - ⟨0, 0, a⟩)) =
        (b - a) ^ 2 * (x * x + y * y) := by
      simp only [nsq, V3.cross, V3.sub_x, V3.sub_y, V3.sub_z]; ring
    rw [this]; positivity
  rw [segmentH_eq _ _ _ cur hoff, K_canonical a b x y z hab hρ]
  apply V3.ext' <;> simp only [vs, V3.cross, V3.sub_x, V3.sub_y, V3.sub_z] <;> field_simp <;> ring

/-- the profile is differentiable in `u = ρ²` at every `u > 0` -/
theorem segCanonG_differentiableAt (a b z u : ℝ) (hu : 0 < u) :
    DifferentiableAt ℝ (segCanonG a b z) u := by
  have hb : (b - z) ^ 2 + u ≠ 0 := by positivity
  have ha : (a - z) ^ 2 + u ≠ 0 := by positivity
  have d1 : DifferentiableAt ℝ (fun v : ℝ => √((b - z) ^ 2 + v)) u :=
    ((differentiableAt_const _).add differentiableAt_id).sqrt hb
  have d2 : DifferentiableAt ℝ (fun v : ℝ => √((a - z) ^ 2 + v)) u :=
    ((differentiableAt_const _).add differentiableAt_id).sqrt ha
  have s1 : √((b - z) ^ 2 + u) ≠ 0 := (Real.sqrt_pos.mpr (by positivity)).ne'
  have s2 : √((a - z) ^ 2 + u) ≠ 0 := (Real.sqrt_pos.mpr (by positivity)).ne'
  unfold segCanonG
  exact (((differentiableAt_const _).div d1 s1).sub ((differentiableAt_const _).div d2 s2)).div
    differentiableAt_id hu.ne'

/-- derivative of `t ↦ k · G(t² + c)` -/
theorem hasDerivAt_segCanon_section (a b z k c t : ℝ) (h : 0 < t * t + c) :
    HasDerivAt (fun s : ℝ => k * segCanonG a b z (s * s + c))
      (k * (deriv (segCanonG a b z) (t * t + c) * (2 * t))) t := by
  have hG := (segCanonG_differentiableAt a b z (t * t + c) h).hasDerivAt
  have hin : HasDerivAt (fun s : ℝ => s * s + c) (2 * t) t := by
    have := ((hasDerivAt_id' t).mul (hasDerivAt_id' t)).add_const c
    refine this.congr_deriv ?_
    ring
  exact (hG.comp t hin).const_mul k

/-- C14 for the canonical segment: the three diagonal partial derivatives of the model's `segmentH`
exist at every point off the axis and add up to zero -/
theorem segment_canonical_divFree (cur a b : ℝ) (hab : a ≠ b) (p : V3 ℝ) (hρ : 0 < p.x * p.x + p.y * p.y) :
    DivFreeAt (segmentH cur ⟨0, 0, a⟩ ⟨0, 0, b⟩) p := by
  obtain ⟨x, y, z⟩ := p
  simp only at hρ
  set c := cur / (4 * Real.pi) with hc
  set G' := deriv (segCanonG a b z) (x * x + y * y) with hG'
  refine ⟨-y * (c * (G' * (2 * x))), x * (c * (G' * (2 * y))), 0, ?_, ?_, ?_, by ring⟩
  · -- ∂Hx/∂x
    have hd : HasDerivAt (fun t : ℝ => -y * (c * segCanonG a b z (t * t + y * y)))
        (-y * (c * (G' * (2 * x)))) x :=
      (hasDerivAt_segCanon_section a b z c (y * y) x hρ).const_mul (-y)
    refine hd.congr_of_eventuallyEq ?_
    have hopen : ∀ᶠ t in nhds x, 0 < t * t + y * y :=
      (by fun_prop : Continuous fun t : ℝ => t * t + y * y).continuousAt.eventually (lt_mem_nhds hρ)
    filter_upwards [hopen] with t ht
    rw [segmentH_canonical_eq cur a b t y z hab ht]
  · -- ∂Hy/∂y
    have hρ' : 0 < y * y + x * x := by linarith
    have hd : HasDerivAt (fun t : ℝ => x * (c * segCanonG a b z (t * t + x * x)))
        (x * (c * (deriv (segCanonG a b z) (y * y + x * x) * (2 * y)))) y :=
      (hasDerivAt_segCanon_section a b z c (x * x) y hρ').const_mul x
    have e : y * y + x * x = x * x + y * y := by ring
    rw [e] at hd
    refine hd.congr_of_eventuallyEq ?_
    have hopen : ∀ᶠ t in nhds y, 0 < x * x + t * t :=
      (by fun_prop : Continuous fun t : ℝ => x * x + t * t).continuousAt.eventually (lt_mem_nhds hρ)
    filter_upwards [hopen] with t ht
    have e' : x * x + t * t = t * t + x * x := by ring
    rw [segmentH_canonical_eq cur a b x t z hab ht, e']
  · -- ∂Hz/∂z: Hz ≡ 0 off the axis
    have hz : (fun t : ℝ => (segmentH cur (⟨0, 0, a⟩ : V3 ℝ) ⟨0, 0, b⟩ ⟨x, y, t⟩).z) = fun _ => 0 := by
      funext t
      rw [segmentH_canonical_eq cur a b x y t hab hρ]
    rw [hz]
    exact hasDerivAt_const z 0

/-- `segmentH` depends on the three points only through their differences: translating segment
and observer together does not change the field (off the carrier line) -/
theorem segmentH_translate (cur : ℝ) (p1 p2 po d : V3 ℝ)
    (hoff : 0 < nsq (V3.cross (p2 - p1) (po - p1))) :
    segmentH cur (p1 + d) (p2 + d) (po + d) = segmentH cur p1 p2 po := by
  have e1 : p2 + d - (p1 + d) = p2 - p1 := by
    apply V3.ext' <;> simp only [V3.add_x, V3.add_y, V3.add_z, V3.sub_x, V3.sub_y, V3.sub_z] <;> ring
  have e2 : po + d - (p1 + d) = po - p1 := by
    apply V3.ext' <;> simp only [V3.add_x, V3.add_y, V3.add_z, V3.sub_x, V3.sub_y, V3.sub_z] <;> ring
  have hoff' : 0 < nsq (V3.cross (p2 + d - (p1 + d)) (po + d - (p1 + d))) := by rw [e1, e2]; exact hoff
  rw [segmentH_eq _ _ _ cur hoff', segmentH_eq _ _ _ cur hoff, e1, e2]
  congr 2
  unfold K
  congr 1
  funext s
  have e3 : po + d - (p1 + d + vs s (p2 - p1)) = po - (p1 + vs s (p2 - p1)) := by
    apply V3.ext' <;> simp only [vs, V3.add_x, V3.add_y, V3.add_z, V3.sub_x, V3.sub_y, V3.sub_z] <;> ring
  rw [e1, e3]

/-! ### arbitrary placement: `K` as a function of `u = (po − p1)·(p2 − p1)` and `v = |po − p1|²` -/

/-- the scalar Biot–Savart integral as a function of `u = w·d`, `v = |w|²` (`w = po − p1`,
`d = p2 − p1`, `L2 = |d|²`): `((1 − σ)/|w − d| + σ/|w|) / E`, `σ = u/L2`, `E = v − u²/L2` -/
noncomputable def segPhi (L2 : ℝ) (p : ℝ × ℝ) : ℝ :=
  ((1 - p.1 * L2⁻¹) * (√(p.2 - 2 * p.1 + L2))⁻¹ + (p.1 * L2⁻¹) * (√p.2)⁻¹) * (p.2 - p.1 * p.1 * L2⁻¹)⁻¹

theorem lagrange (d w : V3 ℝ) : nsq (V3.cross d w) = nsq d * nsq w - V3.dot w d * V3.dot w d := by
  simp only [nsq, V3.cross, V3.dot]; ring

/-- positivity facts off the carrier line -/
theorem off_line_uv (p1 p2 po : V3 ℝ) (hoff : 0 < nsq (V3.cross (p2 - p1) (po - p1))) :
    0 < nsq (p2 - p1) ∧ 0 < nsq (po - p1) ∧
    0 < nsq (po - p1) - 2 * V3.dot (po - p1) (p2 - p1) + nsq (p2 - p1) ∧
    0 < nsq (po - p1) - V3.dot (po - p1) (p2 - p1) * V3.dot (po - p1) (p2 - p1) * (nsq (p2 - p1))⁻¹ := by
  have hlag := lagrange (p2 - p1) (po - p1)
  have hL2 : 0 < nsq (p2 - p1) := by
    by_contra h
    have h0 : nsq (p2 - p1) = 0 := le_antisymm (not_lt.mp h) (nsq_nonneg _)
    rw [h0, zero_mul] at hlag
    nlinarith [mul_self_nonneg (V3.dot (po - p1) (p2 - p1))]
  have hv : 0 < nsq (po - p1) := by
    by_contra h
    have h0 : nsq (po - p1) = 0 := le_antisymm (not_lt.mp h) (nsq_nonneg _)
    rw [h0, mul_zero] at hlag
    nlinarith [mul_self_nonneg (V3.dot (po - p1) (p2 - p1))]
  have hE : 0 < nsq (po - p1) - V3.dot (po - p1) (p2 - p1) * V3.dot (po - p1) (p2 - p1) * (nsq (p2 - p1))⁻¹ := by
    have : nsq (po - p1) - V3.dot (po - p1) (p2 - p1) * V3.dot (po - p1) (p2 - p1) * (nsq (p2 - p1))⁻¹ =
        nsq (V3.cross (p2 - p1) (po - p1)) / nsq (p2 - p1) := by
      rw [hlag]; field_simp
    rw [this]; exact div_pos hoff hL2
  refine ⟨hL2, hv, ?_, hE⟩
  -- |w − d|² ≥ |d × (w − d)|² / |d|² = |d × w|² / |d|² > 0
  have h2 : nsq (po - p1) - 2 * V3.dot (po - p1) (p2 - p1) + nsq (p2 - p1) = nsq (po - p2) := by
    simp only [nsq, V3.dot, V3.sub_x, V3.sub_y, V3.sub_z]; ring
  rw [h2]
  have hc : V3.cross (p2 - p1) (po - p2) = V3.cross (p2 - p1) (po - p1) := by
    apply V3.ext' <;> simp only [V3.cross, V3.sub_x, V3.sub_y, V3.sub_z] <;> ring
  have hle := nsq_cross_le (p2 - p1) (po - p2)
  rw [hc] at hle
  by_contra h
  have h0 : nsq (po - p2) = 0 := le_antisymm (not_lt.mp h) (nsq_nonneg _)
  rw [h0, mul_zero] at hle
  linarith

/-- the scalar Biot–Savart integral of an arbitrary segment in closed form -/
theorem K_closed (p1 p2 po : V3 ℝ) (hoff : 0 < nsq (V3.cross (p2 - p1) (po - p1))) :
    K p1 p2 po = segPhi (nsq (p2 - p1)) (V3.dot (po - p1) (p2 - p1), nsq (po - p1)) := by
  obtain ⟨hL2, hv, hn2, hE⟩ := off_line_uv p1 p2 po hoff
  set u := V3.dot (po - p1) (p2 - p1) with hu
  set v := nsq (po - p1) with hvdef
  set L := √(nsq (p2 - p1)) with hLdef
  have hL : 0 < L := Real.sqrt_pos.mpr hL2
  have hLL : nsq (p2 - p1) = L * L := (Real.mul_self_sqrt hL2.le).symm
  rw [hLL] at hn2 hE ⊢
  set E := v - u * u * (L * L)⁻¹ with hEdef
  have hL0 : L ≠ 0 := hL.ne'
  unfold K
  have hq : ∀ s : ℝ, nsq (po - (p1 + vs s (p2 - p1))) = (L * s - u / L) ^ 2 + E := by
    intro s
    have e1 : nsq (po - (p1 + vs s (p2 - p1))) = nsq (p2 - p1) * s ^ 2 - 2 * s * u + v := by
      simp only [hu, hvdef, nsq, vs, V3.dot, V3.add_x, V3.add_y, V3.add_z, V3.sub_x, V3.sub_y, V3.sub_z]; ring
    rw [e1, hLL, hEdef]; field_simp; ring
  simp only [hq]
  have hsub := intervalIntegral.integral_comp_mul_sub (a := (0 : ℝ)) (b := 1)
    (fun t => 1 / ((t ^ 2 + E) * Real.sqrt (t ^ 2 + E))) hL0 (u / L)
  beta_reduce at hsub
  rw [hsub, integral_g _ _ _ hE, smul_eq_mul]
  have hb : (L * 1 - u / L) ^ 2 + E = v - 2 * u + L * L := by rw [hEdef]; field_simp; ring
  have ha : (L * 0 - u / L) ^ 2 + E = v := by rw [hEdef]; field_simp; ring
  rw [hb, ha]
  unfold segPhi
  simp only
  have s1 : √(v - 2 * u + L * L) ≠ 0 := (Real.sqrt_pos.mpr hn2).ne'
  have s2 : √v ≠ 0 := (Real.sqrt_pos.mpr hv).ne'
  have hE0 : E ≠ 0 := hE.ne'
  rw [← hEdef]
  field_simp
  ring

theorem segPhi_differentiableAt (L2 : ℝ) (p : ℝ × ℝ) (h1 : 0 < p.2) (h2 : 0 < p.2 - 2 * p.1 + L2)
    (h3 : p.2 - p.1 * p.1 * L2⁻¹ ≠ 0) : DifferentiableAt ℝ (segPhi L2) p := by
  have f1 : DifferentiableAt ℝ (fun q : ℝ × ℝ => q.1) p := differentiableAt_fst
  have f2 : DifferentiableAt ℝ (fun q : ℝ × ℝ => q.2) p := differentiableAt_snd
  have a1 : DifferentiableAt ℝ (fun q : ℝ × ℝ => 1 - q.1 * L2⁻¹) p :=
    (differentiableAt_const _).sub (f1.mul_const _)
  have a2 : DifferentiableAt ℝ (fun q : ℝ × ℝ => √(q.2 - 2 * q.1 + L2)) p :=
    ((f2.sub (f1.const_mul 2)).add_const L2).sqrt h2.ne'
  have a3 : DifferentiableAt ℝ (fun q : ℝ × ℝ => (√(q.2 - 2 * q.1 + L2))⁻¹) p :=
    a2.inv (Real.sqrt_pos.mpr h2).ne'
  have a4 : DifferentiableAt ℝ (fun q : ℝ × ℝ => (√q.2)⁻¹) p :=
    (f2.sqrt h1.ne').inv (Real.sqrt_pos.mpr h1).ne'
  have a5 : DifferentiableAt ℝ (fun q : ℝ × ℝ => (q.2 - q.1 * q.1 * L2⁻¹)⁻¹) p :=
    (f2.sub ((f1.mul f1).mul_const _)).inv h3
  exact ((a1.mul a3).add ((f1.mul_const _).mul a4)).mul a5

/-- derivative of `t ↦ c · Φ(u t, v t) · k` through the Fréchet derivative of `Φ` -/
theorem hasDerivAt_segPhi_line (L2 c k : ℝ) (u v : ℝ → ℝ) (u' v' t0 : ℝ) (hu : HasDerivAt u u' t0)
    (hv : HasDerivAt v v' t0) (hΦ : DifferentiableAt ℝ (segPhi L2) (u t0, v t0)) :
    HasDerivAt (fun t => c * segPhi L2 (u t, v t) * k)
      (c * (u' * fderiv ℝ (segPhi L2) (u t0, v t0) (1, 0) + v' * fderiv ℝ (segPhi L2) (u t0, v t0) (0, 1)) * k) t0 := by
  have hcomp := hΦ.hasFDerivAt.comp_hasDerivAt t0 (hu.prodMk hv)
  have hlin : (fderiv ℝ (segPhi L2) (u t0, v t0)) (u', v') =
      u' * fderiv ℝ (segPhi L2) (u t0, v t0) (1, 0) + v' * fderiv ℝ (segPhi L2) (u t0, v t0) (0, 1) := by
    have : ((u', v') : ℝ × ℝ) = u' • ((1, 0) : ℝ × ℝ) + v' • ((0, 1) : ℝ × ℝ) := by simp
    rw [this, map_add, map_smul, map_smul, smul_eq_mul, smul_eq_mul]
  rw [hlin] at hcomp
  exact (hcomp.const_mul c).mul_const k

theorem hasDerivAt_lin (a k m t0 : ℝ) : HasDerivAt (fun t : ℝ => (t - a) * k + m) k t0 := by
  have := (((hasDerivAt_id' t0).sub_const a).mul_const k).add_const m
  simpa using this

theorem hasDerivAt_quad (a m t0 : ℝ) : HasDerivAt (fun t : ℝ => (t - a) * (t - a) + m) (2 * (t0 - a)) t0 := by
  have h := ((hasDerivAt_id' t0).sub_const a)
  have := (h.mul h).add_const m
  refine this.congr_deriv ?_
  ring

/-- one coordinate section of one component of `segmentH`: `γ` is the coordinate line through the
observer, `comp` the component; the component of `d × w` in question does not change along the line -/
theorem segmentH_section (cur : ℝ) (p1 p2 : V3 ℝ) (γ : ℝ → V3 ℝ) (t0 : ℝ) (comp : V3 ℝ → ℝ) (k u' v' : ℝ)
    (hu : HasDerivAt (fun t => V3.dot (γ t - p1) (p2 - p1)) u' t0)
    (hv : HasDerivAt (fun t => nsq (γ t - p1)) v' t0)
    (hcont : Continuous fun t => nsq (V3.cross (p2 - p1) (γ t - p1)))
    (hoff : 0 < nsq (V3.cross (p2 - p1) (γ t0 - p1)))
    (hk : ∀ t, comp (V3.cross (p2 - p1) (γ t - p1)) = k)
    (hcomp : ∀ (a : ℝ) (C : V3 ℝ), comp (vs a C) = a * comp C) :
    HasDerivAt (fun t => comp (segmentH cur p1 p2 (γ t)))
      (cur / (4 * Real.pi) *
        (u' * fderiv ℝ (segPhi (nsq (p2 - p1))) (V3.dot (γ t0 - p1) (p2 - p1), nsq (γ t0 - p1)) (1, 0) +
         v' * fderiv ℝ (segPhi (nsq (p2 - p1))) (V3.dot (γ t0 - p1) (p2 - p1), nsq (γ t0 - p1)) (0, 1)) * k) t0 := by
  obtain ⟨_, hv0, hn2, hE⟩ := off_line_uv p1 p2 (γ t0) hoff
  have hΦ : DifferentiableAt ℝ (segPhi (nsq (p2 - p1))) (V3.dot (γ t0 - p1) (p2 - p1), nsq (γ t0 - p1)) :=
    segPhi_differentiableAt _ _ hv0 hn2 hE.ne'
  have hd := hasDerivAt_segPhi_line (nsq (p2 - p1)) (cur / (4 * Real.pi)) k
    (fun t => V3.dot (γ t - p1) (p2 - p1)) (fun t => nsq (γ t - p1)) u' v' t0 hu hv hΦ
  refine hd.congr_of_eventuallyEq ?_
  have hopen : ∀ᶠ t in nhds t0, 0 < nsq (V3.cross (p2 - p1) (γ t - p1)) :=
    hcont.continuousAt.eventually (lt_mem_nhds hoff)
  filter_upwards [hopen] with t ht
  rw [segmentH_eq _ _ _ cur ht, K_closed p1 p2 _ ht, hcomp, hk]

/-- **C14 for one straight segment in arbitrary placement**: off the carrier line the three diagonal
partial derivatives of the model's `segmentH` exist and add up to zero.
`H = c·Φ(u, v)·(d × w)` with `u = w·d`, `v = |w|²`; along the x-line `(d × w).x` is constant and
`d/dx Φ = Φ_u d.x + 2 Φ_v w.x`, so the divergence is `c (Φ_u d + 2 Φ_v w)·(d × w) = 0`. -/
theorem segment_divFree (cur : ℝ) (p1 p2 p : V3 ℝ) (hoff : 0 < nsq (V3.cross (p2 - p1) (p - p1))) :
    DivFreeAt (segmentH cur p1 p2) p := by
  obtain ⟨x, y, z⟩ := p
  have hx := segmentH_section cur p1 p2 (fun t => ⟨t, y, z⟩) x V3.x
    ((p2.y - p1.y) * (z - p1.z) - (p2.z - p1.z) * (y - p1.y)) (p2.x - p1.x) (2 * (x - p1.x))
    (by
      simp only [V3.dot, V3.sub_x, V3.sub_y, V3.sub_z]
      convert hasDerivAt_lin p1.x (p2.x - p1.x) ((y - p1.y) * (p2.y - p1.y) + (z - p1.z) * (p2.z - p1.z)) x using 1
      funext t; ring)
    (by
      simp only [nsq, V3.sub_x, V3.sub_y, V3.sub_z]
      convert hasDerivAt_quad p1.x ((y - p1.y) * (y - p1.y) + (z - p1.z) * (z - p1.z)) x using 1
      funext t; ring)
    (by simp only [nsq, V3.cross, V3.sub_x, V3.sub_y, V3.sub_z]; fun_prop)
    hoff (fun t => by simp only [V3.cross, V3.sub_x, V3.sub_y, V3.sub_z]) (fun a C => rfl)
  have hy := segmentH_section cur p1 p2 (fun t => ⟨x, t, z⟩) y V3.y
    ((p2.z - p1.z) * (x - p1.x) - (p2.x - p1.x) * (z - p1.z)) (p2.y - p1.y) (2 * (y - p1.y))
    (by
      simp only [V3.dot, V3.sub_x, V3.sub_y, V3.sub_z]
      convert hasDerivAt_lin p1.y (p2.y - p1.y) ((x - p1.x) * (p2.x - p1.x) + (z - p1.z) * (p2.z - p1.z)) y using 1
      funext t; ring)
    (by
      simp only [nsq, V3.sub_x, V3.sub_y, V3.sub_z]
      convert hasDerivAt_quad p1.y ((x - p1.x) * (x - p1.x) + (z - p1.z) * (z - p1.z)) y using 1
      funext t; ring)
    (by simp only [nsq, V3.cross, V3.sub_x, V3.sub_y, V3.sub_z]; fun_prop)
    hoff (fun t => by simp only [V3.cross, V3.sub_x, V3.sub_y, V3.sub_z]) (fun a C => rfl)
  have hz := segmentH_section cur p1 p2 (fun t => ⟨x, y, t⟩) z V3.z
    ((p2.x - p1.x) * (y - p1.y) - (p2.y - p1.y) * (x - p1.x)) (p2.z - p1.z) (2 * (z - p1.z))
    (by
      simp only [V3.dot, V3.sub_x, V3.sub_y, V3.sub_z]
      convert hasDerivAt_lin p1.z (p2.z - p1.z) ((x - p1.x) * (p2.x - p1.x) + (y - p1.y) * (p2.y - p1.y)) z using 1
      funext t; ring)
    (by
      simp only [nsq, V3.sub_x, V3.sub_y, V3.sub_z]
      convert hasDerivAt_quad p1.z ((x - p1.x) * (x - p1.x) + (y - p1.y) * (y - p1.y)) z using 1
      funext t; ring)
    (by simp only [nsq, V3.cross, V3.sub_x, V3.sub_y, V3.sub_z]; fun_prop)
    hoff (fun t => by simp only [V3.cross, V3.sub_x, V3.sub_y, V3.sub_z]) (fun a C => rfl)
  exact ⟨_, _, _, hx, hy, hz, by ring⟩

end MagpyVerif.SegBS
