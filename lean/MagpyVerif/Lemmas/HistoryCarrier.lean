/-
Lemmas/HistoryCarrier.lean — the history theorems of Lemmas/HistoryAddr.lean on the carrier the driver computes with
(`M3 Int`, `⁻¹` = transpose — not a group; AUDIT X1).  Histories of base operations (`Op`, run by `Node.step`; a
`rotate_from_*` step IS such a step by C09(j), `add` / `remove` copy subtrees and compute nothing): length, index map,
member tracking and admissibility are written without any algebraic structure on the rotation carrier (`opsLen`,
`opsIdx`, `opsTrack`, `OpsAdm`), shown equal to `histLen` / `histIdx` / `histTrack` / `AdmissibleAt` on a group, and
invariant under a change of the rotation carrier (`Op.mapG`); `history_on_driver_carrier` (Lemmas/OctaCarrier.lean) then
transfers the pointwise statement of `history_index_map` to the driver's evaluation on octahedral matrices.
-/
import MagpyVerif.Lemmas.OctaCarrier
import MagpyVerif.Lemmas.OwnSensorHist
import MagpyVerif.Lemmas.KernReal
namespace MagpyVerif
open Gen Spec RotFrom
variable {G H V : Type}

/-! ### carrier-free bookkeeping of a history of base operations -/
def opsLen : Nat → List (Op G V) → Nat
  | N, [] => N
  | N, op :: rest => opsLen (op.newLen N) rest
def opsIdx : Nat → List (Op G V) → Nat → Nat
  | _, [] => id
  | N, op :: rest => op.idx N ∘ opsIdx (op.newLen N) rest
def opsTrack : List (Op G V) → List Nat → Option (List Nat)
  | [], m => some m
  | op :: rest, m => (op.track m).bind (opsTrack rest)
def OpsAdm : Nat → List (Op G V) → Prop
  | _, [] => True
  | N, op :: rest => op.AdmAt N ∧ OpsAdm (op.newLen N) rest

section grp
variable [Group G] [AddCommGroup V] [DistribMulAction G V] {α : Type} [Kern.Num α]

theorem histLen_base (sc : Scipy α G) : ∀ (ops : List (Op G V)) (N : Nat),
    histLen sc N (ops.map HOp.base) = opsLen N ops
  | [], _ => rfl
  | op :: rest, N => by simp only [List.map_cons, histLen, opsLen, HOp.newLen]; exact histLen_base sc rest _

theorem histIdx_base (sc : Scipy α G) : ∀ (ops : List (Op G V)) (N : Nat),
    histIdx sc N (ops.map HOp.base) = opsIdx N ops
  | [], _ => rfl
  | op :: rest, N => by
    simp only [List.map_cons, histIdx, opsIdx, HOp.newLen, HOp.idx]; rw [histIdx_base sc rest _]

theorem histTrack_base (sc : Scipy α G) : ∀ (ops : List (Op G V)) (m : List Nat),
    histTrack sc (ops.map HOp.base) m = opsTrack ops m
  | [], _ => rfl
  | op :: rest, m => by
    simp only [List.map_cons, histTrack, opsTrack, HOp.track]
    cases op.track m with
    | none => rfl
    | some m1 => exact histTrack_base sc rest m1

theorem admissibleAt_base (sc : Scipy α G) : ∀ (ops : List (Op G V)) (N : Nat),
    OpsAdm N ops → AdmissibleAt sc N (ops.map HOp.base)
  | [], _, _ => trivial
  | op :: rest, N, h => ⟨h.1, admissibleAt_base sc rest _ h.2⟩

theorem foldl_hstep_base (sc : Scipy α G) : ∀ (ops : List (Op G V)) (t : Node G V),
    (ops.map HOp.base).foldl (Node.hstep sc) t = ops.foldl Node.step t
  | [], _ => rfl
  | op :: rest, t => by simp only [List.map_cons, List.foldl_cons, Node.hstep]; exact foldl_hstep_base sc rest _
end grp

/-! ### invariance under a change of the rotation carrier -/
section mapG
variable (φ : G → H)

theorem Op.effect_mapG (op : Op G V) (N : Nat) : (op.mapG φ).effect N = op.effect N := by
  cases op <;> simp [Op.mapG, Op.effect, rotWindow, PathIn.isScalar_map, PathIn.len0_map]
theorem Op.addr_mapG (op : Op G V) : (op.mapG φ).addr = op.addr := by cases op <;> rfl
theorem Op.isNoop_mapG (op : Op G V) : (op.mapG φ).isNoop = op.isNoop := by
  cases op <;> simp [Op.mapG, Op.isNoop]
theorem Op.WF_mapG (op : Op G V) : (op.mapG φ).WF ↔ op.WF := by
  cases op <;> simp [Op.mapG, Op.WF, PathIn.WF_map]
theorem Op.newLen_mapG (op : Op G V) (N : Nat) : (op.mapG φ).newLen N = op.newLen N := by
  simp only [Op.newLen, Op.effect_mapG]
theorem Op.idx_mapG (op : Op G V) (N : Nat) : (op.mapG φ).idx N = op.idx N := by
  simp only [Op.idx, Op.effect_mapG, Op.addr_mapG]
theorem Op.track_mapG (op : Op G V) (m : List Nat) : (op.mapG φ).track m = op.track m := by
  simp only [Op.track, Op.isNoop_mapG, Op.addr_mapG]
theorem Op.AdmAt_mapG (op : Op G V) (N : Nat) : (op.mapG φ).AdmAt N ↔ op.AdmAt N := by
  simp only [Op.AdmAt, Op.WF_mapG, Op.addr_mapG, Op.newLen_mapG]

theorem opsLen_mapG : ∀ (ops : List (Op G V)) (N : Nat), opsLen N (ops.map (Op.mapG φ)) = opsLen N ops
  | [], _ => rfl
  | op :: rest, N => by simp only [List.map_cons, opsLen, Op.newLen_mapG]; exact opsLen_mapG rest _
theorem opsIdx_mapG : ∀ (ops : List (Op G V)) (N : Nat), opsIdx N (ops.map (Op.mapG φ)) = opsIdx N ops
  | [], _ => rfl
  | op :: rest, N => by simp only [List.map_cons, opsIdx, Op.newLen_mapG, Op.idx_mapG]; rw [opsIdx_mapG rest _]
theorem opsTrack_mapG : ∀ (ops : List (Op G V)) (m : List Nat), opsTrack (ops.map (Op.mapG φ)) m = opsTrack ops m
  | [], _ => rfl
  | op :: rest, m => by
    simp only [List.map_cons, opsTrack, Op.track_mapG]
    cases op.track m with
    | none => rfl
    | some m1 => exact opsTrack_mapG rest m1
theorem OpsAdm_mapG : ∀ (ops : List (Op G V)) (N : Nat), OpsAdm N (ops.map (Op.mapG φ)) → OpsAdm N ops
  | [], _, _ => trivial
  | op :: rest, N, h => by
    simp only [List.map_cons, OpsAdm, Op.AdmAt_mapG, Op.newLen_mapG] at h
    exact ⟨h.1, OpsAdm_mapG rest _ h.2⟩

theorem Node.objs_mapG : ∀ n : Node G V, (n.mapG φ).objs = n.objs.map (Obj.mapG φ) := by
  apply Node.induct
  intro o cs ih
  simp only [Node.mapG_mk, Node.objs, List.map_cons, List.map_map, List.map_flatten]
  congr 2
  apply List.map_congr_left
  intro c hc
  exact ih c hc

theorem Node.uniform_of_mapG (n : Node G V) (N : Nat) (h : (n.mapG φ).UniformLen N) : n.UniformLen N := by
  intro d hd
  have := h (d.mapG φ) (by rw [Node.objs_mapG]; exact List.mem_map_of_mem hd)
  simpa [Obj.mapG] using this

theorem Node.objAt?_mapG : ∀ (m : List Nat) (n : Node G V), (n.mapG φ).objAt? m = (n.objAt? m).map (Obj.mapG φ) := by
  intro m
  induction m with
  | nil => intro n; cases n with | mk o cs => simp [Node.mapG_mk, Node.objAt?]
  | cons i rest ih =>
    intro n
    cases n with | mk o cs =>
    simp only [Node.mapG_mk, Node.objAt?, List.getElem?_map]
    cases cs[i]? with
    | none => rfl
    | some c => exact ih c

theorem Node.obj_mapG (n : Node G V) : (n.mapG φ).obj = n.obj.mapG φ := by
  cases n with | mk o cs => simp [Node.mapG_mk, Node.obj]
end mapG

/-! ### the index map of a history, on the driver's carrier -/

/-- **`history_index_map` on the driver's carrier**: a history of base operations (any addresses) with octahedral rotation
inputs, run with the integer matrix operations on a tree with octahedral orientations.  For every member the history does
not touch, the pose relative to the collection — computed with `⁻¹` = transpose, as the driver computes it — at every
final index `i` is the initial one at index `opsIdx N ops i`. -/
theorem relAt_history_on_driver_carrier (t : NodeZ) (ops : List OpZ) (ht : t.RotsOct) (hops : ∀ op ∈ ops, op.RotsOct)
    (N : Nat) (hN : 1 ≤ N) (hU : t.UniformLen N) (hadm : OpsAdm N ops) (k : Nat) (m0 m' : List Nat) (d : ObjZ)
    (htr : opsTrack ops (k :: m0) = some m') (hd : t.objAt? (k :: m0) = some d) :
    ∃ d', (ops.foldl Node.step t).objAt? m' = some d' ∧
      (ops.foldl Node.step t).UniformLen (opsLen N ops) ∧
      ∀ i, i < opsLen N ops → opsIdx N ops i < N ∧
        relAt (ops.foldl Node.step t).obj d' i = relAt t.obj d (opsIdx N ops i) := by
  obtain ⟨⟨t0, ops0, rfl, rfl, hfold⟩, _⟩ := history_on_driver_carrier t ops ht hops
  let sc : Scipy ℝ Oct := ⟨fun _ => 1, fun _ => some 1, fun _ => 1, fun _ => some 1⟩
  have hU0 : t0.UniformLen N := Node.uniform_of_mapG Oct.toM3 t0 N hU
  have hadm0 := admissibleAt_base sc ops0 N (OpsAdm_mapG Oct.toM3 ops0 N hadm)
  rw [opsTrack_mapG, ← histTrack_base sc] at htr
  rw [Node.objAt?_mapG] at hd
  obtain ⟨d0, hd0, rfl⟩ := Option.map_eq_some_iff.mp hd
  obtain ⟨d0', hd0', hrel⟩ := objAt_history sc (ops0.map HOp.base) t0 N hN hU0 hadm0 k m0 m' d0 htr hd0
  obtain ⟨_, hU0', _⟩ := absH_history sc (ops0.map HOp.base) t0 N hN hU0 hadm0
  rw [foldl_hstep_base] at hd0' hrel hU0'
  rw [histLen_base] at hrel hU0'
  rw [histIdx_base] at hrel
  rw [hfold, opsLen_mapG, opsIdx_mapG]
  refine ⟨d0'.toM3, by rw [Node.objAt?_mapG, hd0']; rfl, ?_, ?_⟩
  · intro x hx
    rw [Node.objs_mapG] at hx
    obtain ⟨x0, hx0, rfl⟩ := List.mem_map.mp hx
    simpa [Obj.mapG] using hU0' x0 hx0
  · intro i hi
    have hlt : opsIdx N ops0 i < N := by
      have := histIdx_lt sc (ops0.map HOp.base) N hN hadm0 i (by rw [histLen_base]; exact hi)
      rwa [histIdx_base] at this
    refine ⟨hlt, ?_⟩
    have ho := hU0 t0.obj (Node.mem_objs_self t0)
    have ho' := hU0' _ (Node.mem_objs_self _)
    have hdl := hU0 d0 (Node.objAt?_mem _ _ _ hd0)
    have hdl' := hU0' d0' (Node.objAt?_mem _ _ _ hd0')
    have h4 := relAt_of_relPath_reindex _ _ _ _ N _ _ ho hdl ho' hdl' hrel i hi hlt
    rw [Node.obj_mapG, Node.obj_mapG, relAt_at_Oct_eq_at_M3Int, relAt_at_Oct_eq_at_M3Int, h4]
end MagpyVerif
