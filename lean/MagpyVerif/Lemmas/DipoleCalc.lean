/-
Lemmas/DipoleCalc.lean — one-variable calculus of the point-dipole kernel `dipoleH`
(and of the Sphere wrapper, which is a dipole outside and constant inside).

All statements are about the MODEL functions of `Model/Kernels.lean` at the carrier ℝ.  A
"partial derivative" is the `HasDerivAt` of a one-variable section such as
`fun t => (dipoleH m ⟨t, y, z⟩).x`; `V3 ℝ` carries no topology, and none is needed.
-/
import Mathlib.Analysis.SpecialFunctions.Sqrt
import Mathlib.Analysis.Calculus.Deriv.Add
import Mathlib.Analysis.Calculus.Deriv.Mul
import Mathlib.Analysis.Calculus.Deriv.Inv
import Mathlib.Analysis.Calculus.Deriv.Pow
import MagpyVerif.Lemmas.KernReal

namespace MagpyVerif.Kern
open Real Filter Topology

/-! ### the norm `sqrt (x*x + y*y + z*z)` -/

theorem norm_nonneg (x : V3 ℝ) : 0 ≤ Kern.norm x := Real.sqrt_nonneg _

/-- the model's norm vanishes exactly at the origin -/
theorem norm_eq_zero_iff (x : V3 ℝ) : Kern.norm x = 0 ↔ x = ⟨0, 0, 0⟩ := by
  obtain ⟨a, b, c⟩ := x
  simp only [Kern.norm, sqrt_real, Real.sqrt_eq_zero', V3.mk.injEq]
  constructor
  · intro h
    have ha := mul_self_nonneg a
    have hb := mul_self_nonneg b
    have hc := mul_self_nonneg c
    exact ⟨mul_self_eq_zero.mp (by linarith), mul_self_eq_zero.mp (by linarith),
      mul_self_eq_zero.mp (by linarith)⟩
  · rintro ⟨rfl, rfl, rfl⟩; simp

theorem norm_ne_zero_of_ne {x : V3 ℝ} (h : x ≠ ⟨0, 0, 0⟩) : Kern.norm x ≠ 0 :=
  fun h0 => h ((norm_eq_zero_iff x).mp h0)

theorem norm_pos_of_ne {x : V3 ℝ} (h : x ≠ ⟨0, 0, 0⟩) : 0 < Kern.norm x :=
  lt_of_le_of_ne (norm_nonneg x) (Ne.symm (norm_ne_zero_of_ne h))

/-- rewriting of `Kern.norm` along the x-, y-, z-section as `sqrt (t*t + c)` -/
theorem norm_section_x (t y z : ℝ) : Kern.norm (⟨t, y, z⟩ : V3 ℝ) = Real.sqrt (t * t + (y * y + z * z)) := by
  simp only [Kern.norm, sqrt_real, add_assoc]

theorem norm_section_y (x t z : ℝ) : Kern.norm (⟨x, t, z⟩ : V3 ℝ) = Real.sqrt (t * t + (x * x + z * z)) := by
  simp only [Kern.norm, sqrt_real]; congr 1; ring

theorem norm_section_z (x y t : ℝ) : Kern.norm (⟨x, y, t⟩ : V3 ℝ) = Real.sqrt (t * t + (x * x + y * y)) := by
  simp only [Kern.norm, sqrt_real]; congr 1; ring

/-- d/dt sqrt(t² + c) = t / sqrt(t² + c) where the radicand is positive -/
theorem hasDerivAt_sqrt_sq_add (c t : ℝ) (h : 0 < t * t + c) :
    HasDerivAt (fun s => Real.sqrt (s * s + c)) (t / Real.sqrt (t * t + c)) t := by
  have h1 : HasDerivAt (fun s : ℝ => s * s + c) (1 * t + t * 1) t :=
    ((hasDerivAt_id' t).fun_mul (hasDerivAt_id' t)).add_const c
  have hs : Real.sqrt (t * t + c) ≠ 0 := (Real.sqrt_pos.mpr h).ne'
  refine (h1.sqrt h.ne').congr_deriv ?_
  field_simp
  ring

theorem continuous_sqrt_sq_add (c : ℝ) : Continuous (fun s : ℝ => Real.sqrt (s * s + c)) :=
  Real.continuous_sqrt.comp (by fun_prop)

/-- ∂|x|/∂x = x/|x| off the origin -/
theorem hasDerivAt_norm_x (x y z : ℝ) (h : Kern.norm (⟨x, y, z⟩ : V3 ℝ) ≠ 0) :
    HasDerivAt (fun t => Kern.norm (⟨t, y, z⟩ : V3 ℝ)) (x / Kern.norm (⟨x, y, z⟩ : V3 ℝ)) x := by
  simp only [norm_section_x] at h ⊢
  exact hasDerivAt_sqrt_sq_add _ _ (Real.sqrt_ne_zero'.mp h)

/-- ∂|x|/∂y = y/|x| off the origin -/
theorem hasDerivAt_norm_y (x y z : ℝ) (h : Kern.norm (⟨x, y, z⟩ : V3 ℝ) ≠ 0) :
    HasDerivAt (fun t => Kern.norm (⟨x, t, z⟩ : V3 ℝ)) (y / Kern.norm (⟨x, y, z⟩ : V3 ℝ)) y := by
  simp only [norm_section_y] at h ⊢
  exact hasDerivAt_sqrt_sq_add _ _ (Real.sqrt_ne_zero'.mp h)

/-- ∂|x|/∂z = z/|x| off the origin -/
theorem hasDerivAt_norm_z (x y z : ℝ) (h : Kern.norm (⟨x, y, z⟩ : V3 ℝ) ≠ 0) :
    HasDerivAt (fun t => Kern.norm (⟨x, y, t⟩ : V3 ℝ)) (z / Kern.norm (⟨x, y, z⟩ : V3 ℝ)) z := by
  simp only [norm_section_z] at h ⊢
  exact hasDerivAt_sqrt_sq_add _ _ (Real.sqrt_ne_zero'.mp h)

theorem continuous_norm_x (y z : ℝ) : Continuous (fun t => Kern.norm (⟨t, y, z⟩ : V3 ℝ)) := by
  simp only [norm_section_x]; exact continuous_sqrt_sq_add _

theorem continuous_norm_y (x z : ℝ) : Continuous (fun t => Kern.norm (⟨x, t, z⟩ : V3 ℝ)) := by
  simp only [norm_section_y]; exact continuous_sqrt_sq_add _

theorem continuous_norm_z (x y : ℝ) : Continuous (fun t => Kern.norm (⟨x, y, t⟩ : V3 ℝ)) := by
  simp only [norm_section_z]; exact continuous_sqrt_sq_add _

/-! ### powers of a radius function `R` with `R' = u / R` -/

section radius
variable {R : ℝ → ℝ} {t u : ℝ}

/-- d/dt R⁻³ = −3 u R⁻⁵ when R' = u/R -/
theorem hasDerivAt_inv_cube (hR : HasDerivAt R (u / R t) t) (h0 : R t ≠ 0) :
    HasDerivAt (fun s => 1 / (R s * R s * R s)) (-3 * u / R t ^ 5) t := by
  have h3 : HasDerivAt (fun s => R s * R s * R s) _ t := (hR.fun_mul hR).fun_mul hR
  have hq := (hasDerivAt_const t (1 : ℝ)).fun_div h3 (by positivity)
  refine hq.congr_deriv ?_
  field_simp
  ring

/-- d/dt R⁻⁵ = −5 u R⁻⁷ when R' = u/R -/
theorem hasDerivAt_inv_fifth (hR : HasDerivAt R (u / R t) t) (h0 : R t ≠ 0) :
    HasDerivAt (fun s => 1 / (R s * R s * R s * R s * R s)) (-5 * u / R t ^ 7) t := by
  have h5 : HasDerivAt (fun s => R s * R s * R s * R s * R s) _ t := (((hR.fun_mul hR).fun_mul hR).fun_mul hR).fun_mul hR
  have hq := (hasDerivAt_const t (1 : ℝ)).fun_div h5 (by positivity)
  refine hq.congr_deriv ?_
  field_simp
  ring

/-- one component of the dipole kernel along one coordinate line: numerator `3 (a s + b)(p s + q)`
over R⁵ minus `k` over R³, all divided by 4 and by π (the order of operations of the code) -/
theorem hasDerivAt_dipole_component (hR : HasDerivAt R (u / R t) t) (h0 : R t ≠ 0) (a b p q k : ℝ) :
    HasDerivAt
      (fun s => (3 * (a * s + b) * (p * s + q) / (R s * R s * R s * R s * R s) - k / (R s * R s * R s)) / 4 / π)
      ((3 * (a * (p * t + q) + p * (a * t + b)) / R t ^ 5 - 15 * (a * t + b) * (p * t + q) * u / R t ^ 7
        + 3 * k * u / R t ^ 5) / (4 * π)) t := by
  have hN : HasDerivAt (fun s : ℝ => 3 * (a * s + b) * (p * s + q))
      (3 * (a * (p * t + q) + p * (a * t + b))) t := by
    have ha : HasDerivAt (fun s : ℝ => a * s + b) a t := by
      simpa using ((hasDerivAt_id' t).const_mul a).add_const b
    have hp : HasDerivAt (fun s : ℝ => p * s + q) p t := by
      simpa using ((hasDerivAt_id' t).const_mul p).add_const q
    exact ((ha.const_mul 3).fun_mul hp).congr_deriv (by ring)
  have h5 := hasDerivAt_inv_fifth hR h0
  have h3 := hasDerivAt_inv_cube hR h0
  have hπ : π ≠ 0 := Real.pi_ne_zero
  have hf := (((hN.fun_mul h5).fun_sub (h3.const_mul k)).div_const 4).div_const π
  refine (hf.congr_deriv ?_).congr_of_eventuallyEq (Eventually.of_forall fun s => ?_)
  · field_simp
    ring
  · ring

/-- the scalar potential (a s + b) / (4π R³) along one coordinate line -/
theorem hasDerivAt_potential_section (hR : HasDerivAt R (u / R t) t) (h0 : R t ≠ 0) (a b : ℝ) :
    HasDerivAt (fun s => (a * s + b) / (4 * π * (R s * R s * R s)))
      ((a / R t ^ 3 - 3 * (a * t + b) * u / R t ^ 5) / (4 * π)) t := by
  have ha : HasDerivAt (fun s : ℝ => a * s + b) a t := by
    simpa using ((hasDerivAt_id' t).const_mul a).add_const b
  have h3 := hasDerivAt_inv_cube hR h0
  have hπ : π ≠ 0 := Real.pi_ne_zero
  have hf := (ha.fun_mul h3).div_const (4 * π)
  refine (hf.congr_deriv ?_).congr_of_eventuallyEq (Eventually.of_forall fun s => ?_)
  · field_simp
    ring
  · field_simp

end radius

/-! ### Jacobian bookkeeping: nine partial derivatives of a vector field -/

/-- `F` has at the point `p` the nine partial derivatives collected in `J` (row = component of
`F`, column = the coordinate that varies); each is the `HasDerivAt` of a one-variable section -/
structure HasPartials (F : V3 ℝ → V3 ℝ) (p : V3 ℝ) (J : M3 ℝ) : Prop where
  xx : HasDerivAt (fun t => (F ⟨t, p.y, p.z⟩).x) J.r1.x p.x
  xy : HasDerivAt (fun t => (F ⟨p.x, t, p.z⟩).x) J.r1.y p.y
  xz : HasDerivAt (fun t => (F ⟨p.x, p.y, t⟩).x) J.r1.z p.z
  yx : HasDerivAt (fun t => (F ⟨t, p.y, p.z⟩).y) J.r2.x p.x
  yy : HasDerivAt (fun t => (F ⟨p.x, t, p.z⟩).y) J.r2.y p.y
  yz : HasDerivAt (fun t => (F ⟨p.x, p.y, t⟩).y) J.r2.z p.z
  zx : HasDerivAt (fun t => (F ⟨t, p.y, p.z⟩).z) J.r3.x p.x
  zy : HasDerivAt (fun t => (F ⟨p.x, t, p.z⟩).z) J.r3.y p.y
  zz : HasDerivAt (fun t => (F ⟨p.x, p.y, t⟩).z) J.r3.z p.z

/-- divergence read off a Jacobian: ∂Fx/∂x + ∂Fy/∂y + ∂Fz/∂z -/
def jacDiv (J : M3 ℝ) : ℝ := J.r1.x + J.r2.y + J.r3.z

/-- curl read off a Jacobian: (∂Fz/∂y − ∂Fy/∂z, ∂Fx/∂z − ∂Fz/∂x, ∂Fy/∂x − ∂Fx/∂y) -/
def jacCurl (J : M3 ℝ) : V3 ℝ := ⟨J.r3.y - J.r2.z, J.r1.z - J.r3.x, J.r2.x - J.r1.y⟩

/-- Jacobian scaled by a constant -/
noncomputable def jacScale (c : ℝ) (J : M3 ℝ) : M3 ℝ := ⟨vs c J.r1, vs c J.r2, vs c J.r3⟩

theorem jacDiv_scale (c : ℝ) (J : M3 ℝ) : jacDiv (jacScale c J) = c * jacDiv J := by
  simp only [jacDiv, jacScale, vs]; ring

theorem jacCurl_scale (c : ℝ) (J : M3 ℝ) : jacCurl (jacScale c J) = vs c (jacCurl J) := by
  apply V3.ext' <;> simp only [jacCurl, jacScale, vs] <;> ring

/-- the zero Jacobian -/
def jacZero : M3 ℝ := ⟨⟨0, 0, 0⟩, ⟨0, 0, 0⟩, ⟨0, 0, 0⟩⟩

/-- a constant field has all partial derivatives 0 -/
theorem HasPartials.const (v p : V3 ℝ) : HasPartials (fun _ => v) p jacZero :=
  ⟨hasDerivAt_const _ _, hasDerivAt_const _ _, hasDerivAt_const _ _,
   hasDerivAt_const _ _, hasDerivAt_const _ _, hasDerivAt_const _ _,
   hasDerivAt_const _ _, hasDerivAt_const _ _, hasDerivAt_const _ _⟩

/-- partial derivatives of a constant multiple -/
theorem HasPartials.const_smul {F : V3 ℝ → V3 ℝ} {p : V3 ℝ} {J : M3 ℝ} (h : HasPartials F p J) (c : ℝ) :
    HasPartials (fun q => vs c (F q)) p (jacScale c J) :=
  ⟨h.xx.const_mul c, h.xy.const_mul c, h.xz.const_mul c,
   h.yx.const_mul c, h.yy.const_mul c, h.yz.const_mul c,
   h.zx.const_mul c, h.zy.const_mul c, h.zz.const_mul c⟩

/-- partial derivatives only depend on the field near the point (along the three coordinate lines) -/
theorem HasPartials.congr_of_eventuallyEq {F G : V3 ℝ → V3 ℝ} {p : V3 ℝ} {J : M3 ℝ} (h : HasPartials G p J)
    (hx : ∀ᶠ t in 𝓝 p.x, F ⟨t, p.y, p.z⟩ = G ⟨t, p.y, p.z⟩)
    (hy : ∀ᶠ t in 𝓝 p.y, F ⟨p.x, t, p.z⟩ = G ⟨p.x, t, p.z⟩)
    (hz : ∀ᶠ t in 𝓝 p.z, F ⟨p.x, p.y, t⟩ = G ⟨p.x, p.y, t⟩) : HasPartials F p J :=
  ⟨h.xx.congr_of_eventuallyEq (hx.mono fun _ e => congrArg V3.x e),
   h.xy.congr_of_eventuallyEq (hy.mono fun _ e => congrArg V3.x e),
   h.xz.congr_of_eventuallyEq (hz.mono fun _ e => congrArg V3.x e),
   h.yx.congr_of_eventuallyEq (hx.mono fun _ e => congrArg V3.y e),
   h.yy.congr_of_eventuallyEq (hy.mono fun _ e => congrArg V3.y e),
   h.yz.congr_of_eventuallyEq (hz.mono fun _ e => congrArg V3.y e),
   h.zx.congr_of_eventuallyEq (hx.mono fun _ e => congrArg V3.z e),
   h.zy.congr_of_eventuallyEq (hy.mono fun _ e => congrArg V3.z e),
   h.zz.congr_of_eventuallyEq (hz.mono fun _ e => congrArg V3.z e)⟩

/-- two fields that agree on the open set `c < |q|` have the same partial derivatives there -/
theorem HasPartials.congr_on_norm_gt {F G : V3 ℝ → V3 ℝ} {p : V3 ℝ} {J : M3 ℝ} {c : ℝ}
    (h : HasPartials G p J) (hp : c < Kern.norm p) (heq : ∀ q, c < Kern.norm q → F q = G q) :
    HasPartials F p J := by
  obtain ⟨x, y, z⟩ := p
  exact h.congr_of_eventuallyEq
    (((continuous_norm_x y z).continuousAt.eventually (eventually_gt_nhds hp)).mono fun t ht => heq _ ht)
    (((continuous_norm_y x z).continuousAt.eventually (eventually_gt_nhds hp)).mono fun t ht => heq _ ht)
    (((continuous_norm_z x y).continuousAt.eventually (eventually_gt_nhds hp)).mono fun t ht => heq _ ht)

/-- two fields that agree on the open ball `|q| < c` have the same partial derivatives there -/
theorem HasPartials.congr_on_norm_lt {F G : V3 ℝ → V3 ℝ} {p : V3 ℝ} {J : M3 ℝ} {c : ℝ}
    (h : HasPartials G p J) (hp : Kern.norm p < c) (heq : ∀ q, Kern.norm q < c → F q = G q) :
    HasPartials F p J := by
  obtain ⟨x, y, z⟩ := p
  exact h.congr_of_eventuallyEq
    (((continuous_norm_x y z).continuousAt.eventually (eventually_lt_nhds hp)).mono fun t ht => heq _ ht)
    (((continuous_norm_y x z).continuousAt.eventually (eventually_lt_nhds hp)).mono fun t ht => heq _ ht)
    (((continuous_norm_z x y).continuousAt.eventually (eventually_lt_nhds hp)).mono fun t ht => heq _ ht)

/-- the field `F` is divergence-free at `p`: the three partial derivatives ∂Fx/∂x, ∂Fy/∂y, ∂Fz/∂z
exist (each as `HasDerivAt` of the one-variable section through `p`) and add up to 0 -/
def DivFreeAt (F : V3 ℝ → V3 ℝ) (p : V3 ℝ) : Prop :=
  ∃ dxx dyy dzz : ℝ,
    HasDerivAt (fun t => (F ⟨t, p.y, p.z⟩).x) dxx p.x ∧
    HasDerivAt (fun t => (F ⟨p.x, t, p.z⟩).y) dyy p.y ∧
    HasDerivAt (fun t => (F ⟨p.x, p.y, t⟩).z) dzz p.z ∧
    dxx + dyy + dzz = 0

/-- the field `F` is curl-free at `p`: the six mixed partial derivatives exist and
∂Fz/∂y − ∂Fy/∂z = 0, ∂Fx/∂z − ∂Fz/∂x = 0, ∂Fy/∂x − ∂Fx/∂y = 0 -/
def CurlFreeAt (F : V3 ℝ → V3 ℝ) (p : V3 ℝ) : Prop :=
  ∃ dzy dyz dxz dzx dyx dxy : ℝ,
    HasDerivAt (fun t => (F ⟨p.x, t, p.z⟩).z) dzy p.y ∧
    HasDerivAt (fun t => (F ⟨p.x, p.y, t⟩).y) dyz p.z ∧
    HasDerivAt (fun t => (F ⟨p.x, p.y, t⟩).x) dxz p.z ∧
    HasDerivAt (fun t => (F ⟨t, p.y, p.z⟩).z) dzx p.x ∧
    HasDerivAt (fun t => (F ⟨t, p.y, p.z⟩).y) dyx p.x ∧
    HasDerivAt (fun t => (F ⟨p.x, t, p.z⟩).x) dxy p.y ∧
    dzy - dyz = 0 ∧ dxz - dzx = 0 ∧ dyx - dxy = 0

theorem HasPartials.divFreeAt {F : V3 ℝ → V3 ℝ} {p : V3 ℝ} {J : M3 ℝ} (h : HasPartials F p J)
    (hd : jacDiv J = 0) : DivFreeAt F p :=
  ⟨_, _, _, h.xx, h.yy, h.zz, hd⟩

theorem HasPartials.curlFreeAt {F : V3 ℝ → V3 ℝ} {p : V3 ℝ} {J : M3 ℝ} (h : HasPartials F p J)
    (hc : jacCurl J = ⟨0, 0, 0⟩) : CurlFreeAt F p :=
  ⟨_, _, _, _, _, _, h.zy, h.yz, h.xz, h.zx, h.yx, h.xy,
    congrArg V3.x hc, congrArg V3.y hc, congrArg V3.z hc⟩

theorem jacDiv_zero : jacDiv jacZero = 0 := by simp [jacDiv, jacZero]
theorem jacCurl_zero : jacCurl jacZero = ⟨0, 0, 0⟩ := by simp [jacCurl, jacZero]

/-- the norm of a point on the positive z-axis (for concrete instances) -/
theorem norm_axis_z (c : ℝ) (hc : 0 ≤ c) : Kern.norm (⟨0, 0, c⟩ : V3 ℝ) = c := by
  simp only [Kern.norm, sqrt_real]
  rw [show (0 : ℝ) * 0 + 0 * 0 + c * c = c * c by ring]
  exact Real.sqrt_mul_self hc

/-! ### the dipole kernel -/

/-- entry ∂H_i/∂x_j of the Jacobian of the point-dipole field, arguments (m_i, x_i, m_j, x_j, δ_ij):
(3 (m_j x_i + m_i x_j + δ_ij m·x) / r⁵ − 15 (m·x) x_i x_j / r⁷) / 4π -/
noncomputable def dipoleJ (m x : V3 ℝ) (mi xi mj xj δ : ℝ) : ℝ :=
  (3 * (mj * xi + mi * xj + δ * V3.dot m x) / Kern.norm x ^ 5
    - 15 * V3.dot m x * xi * xj / Kern.norm x ^ 7) / (4 * π)

/-- Jacobian of the point-dipole field -/
noncomputable def dipoleJac (m x : V3 ℝ) : M3 ℝ :=
  ⟨⟨dipoleJ m x m.x x.x m.x x.x 1, dipoleJ m x m.x x.x m.y x.y 0, dipoleJ m x m.x x.x m.z x.z 0⟩,
   ⟨dipoleJ m x m.y x.y m.x x.x 0, dipoleJ m x m.y x.y m.y x.y 1, dipoleJ m x m.y x.y m.z x.z 0⟩,
   ⟨dipoleJ m x m.z x.z m.x x.x 0, dipoleJ m x m.z x.z m.y x.y 0, dipoleJ m x m.z x.z m.z x.z 1⟩⟩

theorem dipoleJ_symm (m x : V3 ℝ) (mi xi mj xj : ℝ) :
    dipoleJ m x mi xi mj xj 0 = dipoleJ m x mj xj mi xi 0 := by
  unfold dipoleJ; ring

/-- the Jacobian of the dipole field is symmetric: its curl vanishes -/
theorem dipoleJac_curl (m x : V3 ℝ) : jacCurl (dipoleJac m x) = ⟨0, 0, 0⟩ := by
  apply V3.ext' <;> simp only [jacCurl, dipoleJac] <;> rw [dipoleJ_symm] <;> ring

/-- the Jacobian of the dipole field is trace-free off the origin: its divergence vanishes -/
theorem dipoleJac_div (m x : V3 ℝ) (hx : Kern.norm x ≠ 0) : jacDiv (dipoleJac m x) = 0 := by
  have hsq := norm_sq x
  have hπ : π ≠ 0 := Real.pi_ne_zero
  simp only [jacDiv, dipoleJac, dipoleJ, V3.dot]
  generalize Kern.norm x = r at *
  field_simp
  linear_combination (15 * (m.x * x.x + m.y * x.y + m.z * x.z)) * hsq

/-- all nine partial derivatives of the model's `dipoleH m` off the dipole position -/
theorem dipoleH_hasPartials (m p : V3 ℝ) (hp : Kern.norm p ≠ 0) :
    HasPartials (dipoleH m) p (dipoleJac m p) := by
  obtain ⟨x, y, z⟩ := p
  obtain ⟨a, b, c⟩ := m
  have hx := hasDerivAt_norm_x x y z hp
  have hy := hasDerivAt_norm_y x y z hp
  have hz := hasDerivAt_norm_z x y z hp
  refine ⟨?_, ?_, ?_, ?_, ?_, ?_, ?_, ?_, ?_⟩
  · refine ((hasDerivAt_dipole_component hx hp a (b * y + c * z) 1 0 a).congr_deriv ?_).congr_of_eventuallyEq
      (Eventually.of_forall fun s => ?_)
    · simp only [dipoleJac, dipoleJ, V3.dot]; ring
    · simp only [dipoleH, vs, vd, n, ofNat_real, pi_real, V3.dot, V3.sub_x, Nat.cast_ofNat]; ring
  · refine ((hasDerivAt_dipole_component hy hp b (a * x + c * z) 0 x a).congr_deriv ?_).congr_of_eventuallyEq
      (Eventually.of_forall fun s => ?_)
    · simp only [dipoleJac, dipoleJ, V3.dot]; ring
    · simp only [dipoleH, vs, vd, n, ofNat_real, pi_real, V3.dot, V3.sub_x, Nat.cast_ofNat]; ring
  · refine ((hasDerivAt_dipole_component hz hp c (a * x + b * y) 0 x a).congr_deriv ?_).congr_of_eventuallyEq
      (Eventually.of_forall fun s => ?_)
    · simp only [dipoleJac, dipoleJ, V3.dot]; ring
    · simp only [dipoleH, vs, vd, n, ofNat_real, pi_real, V3.dot, V3.sub_x, Nat.cast_ofNat]; ring
  · refine ((hasDerivAt_dipole_component hx hp a (b * y + c * z) 0 y b).congr_deriv ?_).congr_of_eventuallyEq
      (Eventually.of_forall fun s => ?_)
    · simp only [dipoleJac, dipoleJ, V3.dot]; ring
    · simp only [dipoleH, vs, vd, n, ofNat_real, pi_real, V3.dot, V3.sub_y, Nat.cast_ofNat]; ring
  · refine ((hasDerivAt_dipole_component hy hp b (a * x + c * z) 1 0 b).congr_deriv ?_).congr_of_eventuallyEq
      (Eventually.of_forall fun s => ?_)
    · simp only [dipoleJac, dipoleJ, V3.dot]; ring
    · simp only [dipoleH, vs, vd, n, ofNat_real, pi_real, V3.dot, V3.sub_y, Nat.cast_ofNat]; ring
  · refine ((hasDerivAt_dipole_component hz hp c (a * x + b * y) 0 y b).congr_deriv ?_).congr_of_eventuallyEq
      (Eventually.of_forall fun s => ?_)
    · simp only [dipoleJac, dipoleJ, V3.dot]; ring
    · simp only [dipoleH, vs, vd, n, ofNat_real, pi_real, V3.dot, V3.sub_y, Nat.cast_ofNat]; ring
  · refine ((hasDerivAt_dipole_component hx hp a (b * y + c * z) 0 z c).congr_deriv ?_).congr_of_eventuallyEq
      (Eventually.of_forall fun s => ?_)
    · simp only [dipoleJac, dipoleJ, V3.dot]; ring
    · simp only [dipoleH, vs, vd, n, ofNat_real, pi_real, V3.dot, V3.sub_z, Nat.cast_ofNat]; ring
  · refine ((hasDerivAt_dipole_component hy hp b (a * x + c * z) 0 z c).congr_deriv ?_).congr_of_eventuallyEq
      (Eventually.of_forall fun s => ?_)
    · simp only [dipoleJac, dipoleJ, V3.dot]; ring
    · simp only [dipoleH, vs, vd, n, ofNat_real, pi_real, V3.dot, V3.sub_z, Nat.cast_ofNat]; ring
  · refine ((hasDerivAt_dipole_component hz hp c (a * x + b * y) 1 0 c).congr_deriv ?_).congr_of_eventuallyEq
      (Eventually.of_forall fun s => ?_)
    · simp only [dipoleJac, dipoleJ, V3.dot]; ring
    · simp only [dipoleH, vs, vd, n, ofNat_real, pi_real, V3.dot, V3.sub_z, Nat.cast_ofNat]; ring

/-! ### the scalar potential of the dipole -/

/-- magnetic scalar potential of a point dipole: φ(x) = m·x / (4π |x|³) -/
noncomputable def dipolePotential (m x : V3 ℝ) : ℝ := V3.dot m x / (4 * π * Kern.norm x ^ 3)

/-- the three partial derivatives of the potential are minus the components of `dipoleH` -/
theorem dipolePotential_grad (m p : V3 ℝ) (hp : Kern.norm p ≠ 0) :
    HasDerivAt (fun t => dipolePotential m ⟨t, p.y, p.z⟩) (-(dipoleH m p).x) p.x ∧
    HasDerivAt (fun t => dipolePotential m ⟨p.x, t, p.z⟩) (-(dipoleH m p).y) p.y ∧
    HasDerivAt (fun t => dipolePotential m ⟨p.x, p.y, t⟩) (-(dipoleH m p).z) p.z := by
  obtain ⟨x, y, z⟩ := p
  obtain ⟨a, b, c⟩ := m
  have hx := hasDerivAt_norm_x x y z hp
  have hy := hasDerivAt_norm_y x y z hp
  have hz := hasDerivAt_norm_z x y z hp
  refine ⟨?_, ?_, ?_⟩
  · refine ((hasDerivAt_potential_section hx hp a (b * y + c * z)).congr_deriv ?_).congr_of_eventuallyEq
      (Eventually.of_forall fun s => ?_)
    · simp only [dipoleH, vs, vd, n, ofNat_real, pi_real, V3.dot, V3.sub_x, Nat.cast_ofNat]; ring
    · simp only [dipolePotential, V3.dot]; ring
  · refine ((hasDerivAt_potential_section hy hp b (a * x + c * z)).congr_deriv ?_).congr_of_eventuallyEq
      (Eventually.of_forall fun s => ?_)
    · simp only [dipoleH, vs, vd, n, ofNat_real, pi_real, V3.dot, V3.sub_y, Nat.cast_ofNat]; ring
    · simp only [dipolePotential, V3.dot]; ring
  · refine ((hasDerivAt_potential_section hz hp c (a * x + b * y)).congr_deriv ?_).congr_of_eventuallyEq
      (Eventually.of_forall fun s => ?_)
    · simp only [dipoleH, vs, vd, n, ofNat_real, pi_real, V3.dot, V3.sub_z, Nat.cast_ofNat]; ring
    · simp only [dipolePotential, V3.dot]; ring

end MagpyVerif.Kern
