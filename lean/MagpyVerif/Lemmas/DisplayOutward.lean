/-
Lemmas/DisplayOutward.lean — Model/DisplayOutward.lean at α = ℝ: one explicit triangle of each closed-surface generator has its normal
(cross product of its edge vectors in index order) pointing away from the interior.
-/
import Mathlib.Analysis.SpecialFunctions.Trigonometric.Basic
import Mathlib.Tactic
import MagpyVerif.Lemmas.DisplayTrig
import MagpyVerif.Lemmas.DisplayWind
import MagpyVerif.Model.DisplayOutward
namespace MagpyVerif.DisplayTrig
open MagpyVerif MagpyVerif.Kern MagpyVerif.Display

/-- `det[a - o, b - o, c - o]` = (normal in index order) · (centroid − o) -/
theorem det3v_eq_normal_dot (a b c o : V3 ℝ) :
    det3v (a - o) (b - o) (c - o) =
      V3.dot (V3.cross (b - a) (c - a)) (⟨(a.x + b.x + c.x) / 3 - o.x, (a.y + b.y + c.y) / 3 - o.y, (a.z + b.z + c.z) / 3 - o.z⟩ : V3 ℝ) := by
  simp only [det3v, V3.dot, V3.cross, V3.sub_x, V3.sub_y, V3.sub_z]
  ring

theorem faceOut_some {vs : List (V3 ℝ)} {f : Mesh.Face} {a b c : V3 ℝ} (ha : vs[f.1]? = some a) (hb : vs[f.2.1]? = some b)
    (hc : vs[f.2.2]? = some c) (o : V3 ℝ) : faceOut vs f o = some (det3v (a - o) (b - o) (c - o)) := by
  simp [faceOut, ha, hb, hc]

theorem sin_two_pi_div_pos {N : Nat} (hN : 3 ≤ N) : 0 < Real.sin (2 * Real.pi / N) := by
  have hN' : (3 : ℝ) ≤ (N : ℝ) := by exact_mod_cast hN
  have hpos : (0 : ℝ) < N := by linarith
  apply Real.sin_pos_of_pos_of_lt_pi
  · have := Real.pi_pos; positivity
  · rw [div_lt_iff₀ hpos]
    nlinarith [Real.pi_pos]

/-! ### `make_Prism` -/

/-- side triangle `(0, 1, N)` (bottom ring 0, bottom ring 1, top ring 0), seen from the centre: `det = (d/2)² · sin(2π/N) · h` -/
theorem prism_face0_out (N : Nat) (hN : 3 ≤ N) (d h : ℝ) :
    faceOut (prismVerts N d h) (0, 1, N) ⟨0, 0, 0⟩ = some ((d / 2) ^ 2 * Real.sin (2 * Real.pi / N) * h) := by
  have h0 := prism_vertex_formula N d h 0 (by omega)
  have h1 := (prism_vertex_formula N d h 1 (by omega)).1
  rw [faceOut_some (f := (0, 1, N)) h0.1 h1 (by simpa using h0.2)]
  simp only [det3v, V3.dot, V3.cross, V3.sub_x, V3.sub_y, V3.sub_z, Nat.cast_zero, Nat.cast_one, mul_zero, zero_div, Real.cos_zero,
    Real.sin_zero, mul_one]
  congr 1
  ring

/-! ### `make_Pyramid` -/

theorem ringAngles_getElem? (N k : Nat) (hk : k < N) : (ringAngles N : List ℝ)[k]? = some (2 * Real.pi * k / N) := by
  rw [ringAngles_eq]
  simp [hk]

/-- cone triangle `(0, 1, N)` (base ring 0, base ring 1, tip), seen from the point of the axis at base height:
`det = (d/2)² · sin(2π/N) · h` -/
theorem pyramid_face0_out (N : Nat) (hN : 3 ≤ N) (d h : ℝ) (p : Pivot) :
    faceOut (pyramidVerts N d h p) (0, 1, N) ⟨0, 0, -(h / 2) + zShift p h⟩ = some ((d / 2) ^ 2 * Real.sin (2 * Real.pi / N) * h) := by
  have hl : ((ringAngles N).map (fun t => (⟨d / 2 * Real.cos t, d / 2 * Real.sin t, -(h / 2) + zShift p h⟩ : V3 ℝ))).length = N := by
    rw [List.length_map, ringAngles_length]
  have e0 : (pyramidVerts N d h p)[0]? = some ⟨d / 2 * Real.cos (2 * Real.pi * (0 : ℕ) / N), d / 2 * Real.sin (2 * Real.pi * (0 : ℕ) / N), -(h / 2) + zShift p h⟩ := by
    rw [pyramidVerts_eq, List.getElem?_append_left (by rw [hl]; omega), List.getElem?_map, ringAngles_getElem? N 0 (by omega)]
    rfl
  have e1 : (pyramidVerts N d h p)[1]? = some ⟨d / 2 * Real.cos (2 * Real.pi * (1 : ℕ) / N), d / 2 * Real.sin (2 * Real.pi * (1 : ℕ) / N), -(h / 2) + zShift p h⟩ := by
    rw [pyramidVerts_eq, List.getElem?_append_left (by rw [hl]; omega), List.getElem?_map, ringAngles_getElem? N 1 (by omega)]
    rfl
  have eN := (pyramid_on_cone N d h p).2.2
  rw [faceOut_some (f := (0, 1, N)) e0 e1 eN]
  simp only [det3v, V3.dot, V3.cross, V3.sub_x, V3.sub_y, V3.sub_z, Nat.cast_zero, Nat.cast_one, mul_zero, zero_div, Real.cos_zero,
    Real.sin_zero, mul_one]
  congr 1
  ring

/-! ### `make_CylinderSegment` -/

theorem linspace_true_getElem? (a b : ℝ) (N k : Nat) (hN : 2 ≤ N) (hk : k < N) :
    (linspace a b N true)[k]? = some (a + (k : ℝ) * ((b - a) / ((N - 1 : ℕ) : ℝ))) := by
  rw [linspace_true_eq a b N hN]
  simp [hk]

theorem segArc_getElem? (phis : List ℝ) (r h : ℝ) (top : Bool) (k : Nat) (p : ℝ) (hp : phis[k]? = some p) :
    (segArc phis r h top)[k]? = some ⟨r * Real.cos (p * (Real.pi / 180)), r * Real.sin (p * (Real.pi / 180)), if top then h / 2 else -(h / 2)⟩ := by
  unfold segArc
  rw [List.getElem?_map, hp]
  cases top <;> simp [deg2rad_real]

/-- top-face triangle `(1, N, N + 1)` (inner arc 1, outer arc 0, outer arc 1), seen from ANY point `o` below the top plane
(`o.z < h/2`; every interior point is one): `det = (r2 − r1) · r2 · sin δ · (h/2 − o.z)`, `δ` = one arc step in radians -/
theorem seg_face_out (N : Nat) (hN : 2 ≤ N) (r1 r2 h phi1 phi2 : ℝ) (o : V3 ℝ) :
    faceOut (segVertsN N r1 r2 h phi1 phi2) (1, N, N + 1) o =
      some ((r2 - r1) * r2 * Real.sin ((phi2 - phi1) / ((N - 1 : ℕ) : ℝ) * (Real.pi / 180)) * (h / 2 - o.z)) := by
  have hlen : (linspace phi1 phi2 N true).length = N := linspace_length _ _ _ _
  have l0 := linspace_true_getElem? phi1 phi2 N 0 hN (by omega)
  have l1 := linspace_true_getElem? phi1 phi2 N 1 hN (by omega)
  have hA : (segArc (linspace phi1 phi2 N true) r1 h true).length = N := by rw [segArc_length, hlen]
  have hB : (segArc (linspace phi1 phi2 N true) r2 h true).length = N := by rw [segArc_length, hlen]
  have e1 : (segVertsN N r1 r2 h phi1 phi2)[1]? = some (⟨r1 * Real.cos ((phi1 + ((1 : ℕ) : ℝ) * ((phi2 - phi1) / ((N - 1 : ℕ) : ℝ))) * (Real.pi / 180)), r1 * Real.sin ((phi1 + ((1 : ℕ) : ℝ) * ((phi2 - phi1) / ((N - 1 : ℕ) : ℝ))) * (Real.pi / 180)), h / 2⟩ : V3 ℝ) := by
    unfold segVertsN
    rw [List.append_assoc, List.append_assoc, List.getElem?_append_left (by rw [hA]; omega)]
    simpa using segArc_getElem? _ r1 h true 1 _ l1
  have eN : (segVertsN N r1 r2 h phi1 phi2)[N]? = some (⟨r2 * Real.cos ((phi1 + ((0 : ℕ) : ℝ) * ((phi2 - phi1) / ((N - 1 : ℕ) : ℝ))) * (Real.pi / 180)), r2 * Real.sin ((phi1 + ((0 : ℕ) : ℝ) * ((phi2 - phi1) / ((N - 1 : ℕ) : ℝ))) * (Real.pi / 180)), h / 2⟩ : V3 ℝ) := by
    unfold segVertsN
    rw [List.append_assoc, List.append_assoc, List.getElem?_append_right (by rw [hA]), hA, Nat.sub_self,
      List.getElem?_append_left (by rw [hB]; omega)]
    simpa using segArc_getElem? _ r2 h true 0 _ l0
  have eN1 : (segVertsN N r1 r2 h phi1 phi2)[N + 1]? = some (⟨r2 * Real.cos ((phi1 + ((1 : ℕ) : ℝ) * ((phi2 - phi1) / ((N - 1 : ℕ) : ℝ))) * (Real.pi / 180)), r2 * Real.sin ((phi1 + ((1 : ℕ) : ℝ) * ((phi2 - phi1) / ((N - 1 : ℕ) : ℝ))) * (Real.pi / 180)), h / 2⟩ : V3 ℝ) := by
    unfold segVertsN
    rw [List.append_assoc, List.append_assoc, List.getElem?_append_right (by rw [hA]; omega), hA, Nat.add_sub_cancel_left,
      List.getElem?_append_left (by rw [hB]; omega)]
    simpa using segArc_getElem? _ r2 h true 1 _ l1
  rw [faceOut_some (f := (1, N, N + 1)) e1 eN eN1]
  simp only [det3v, V3.dot, V3.cross, V3.sub_x, V3.sub_y, V3.sub_z, Nat.cast_zero, Nat.cast_one, zero_mul, one_mul, add_zero, if_true]
  congr 1
  set θ := phi1 * (Real.pi / 180) with hθ
  set δ := (phi2 - phi1) / ((N - 1 : ℕ) : ℝ) * (Real.pi / 180) with hδ
  have e : (phi1 + (phi2 - phi1) / ((N - 1 : ℕ) : ℝ)) * (Real.pi / 180) = θ + δ := by rw [hθ, hδ]; ring
  rw [e, Real.cos_add, Real.sin_add]
  have := Real.sin_sq_add_cos_sq θ
  linear_combination ((r2 - r1) * r2 * Real.sin δ * (h / 2 - o.z)) * this

/-- one arc step of at most a half turn has a positive sine: `0 < φ2 − φ1 < 180·(N − 1)` -/
theorem seg_step_sin_pos (N : Nat) (hN : 2 ≤ N) (phi1 phi2 : ℝ) (h1 : phi1 < phi2) (h2 : phi2 - phi1 < 180 * ((N - 1 : ℕ) : ℝ)) :
    0 < Real.sin ((phi2 - phi1) / ((N - 1 : ℕ) : ℝ) * (Real.pi / 180)) := by
  have hm : (0 : ℝ) < ((N - 1 : ℕ) : ℝ) := by exact_mod_cast (show 0 < N - 1 by omega)
  have hq : 0 < (phi2 - phi1) / ((N - 1 : ℕ) : ℝ) := div_pos (by linarith) hm
  have hq2 : (phi2 - phi1) / ((N - 1 : ℕ) : ℝ) < 180 := by rw [div_lt_iff₀ hm]; linarith
  apply Real.sin_pos_of_pos_of_lt_pi
  · have := Real.pi_pos; positivity
  · nlinarith [Real.pi_pos]

/-! ### `make_Ellipsoid` -/

theorem getElem?_flatMap_rows {β γ : Type} (l : List β) (g : β → List γ) (N : Nat) (hg : ∀ x, (g x).length = N) (r c : Nat)
    (hc : c < N) : (l.flatMap g)[r * N + c]? = (l[r]?).bind (fun x => (g x)[c]?) := by
  induction l generalizing r with
  | nil => simp
  | cons x xs ih =>
    rw [List.flatMap_cons]
    cases r with
    | zero =>
      rw [Nat.zero_mul, Nat.zero_add, List.getElem?_append_left (by rw [hg]; exact hc)]
      simp
    | succ r =>
      have e : (r + 1) * N + c - N = r * N + c := by rw [Nat.succ_mul]; omega
      rw [List.getElem?_append_right (by rw [hg, Nat.succ_mul]; omega), hg, e, ih]
      simp

/-- the latitude of the first ring above the south pole -/
noncomputable def ellTheta1 (N : Nat) : ℝ := -Real.pi / 2 + ((1 : ℕ) : ℝ) * ((Real.pi / 2 - -Real.pi / 2) / ((N - 1 : ℕ) : ℝ))

theorem cos_ellTheta1_pos {N : Nat} (hN : 3 ≤ N) : 0 < Real.cos (ellTheta1 N) := by
  have hm : (2 : ℝ) ≤ ((N - 1 : ℕ) : ℝ) := by exact_mod_cast (show 2 ≤ N - 1 by omega)
  have hpi := Real.pi_pos
  have hx : 0 < Real.pi / ((N - 1 : ℕ) : ℝ) := by positivity
  have hx2 : Real.pi / ((N - 1 : ℕ) : ℝ) ≤ Real.pi / 2 := by
    apply div_le_div_of_nonneg_left hpi.le (by norm_num) hm
  have e : ellTheta1 N = -(Real.pi / 2) + Real.pi / ((N - 1 : ℕ) : ℝ) := by
    unfold ellTheta1
    have : ((N - 1 : ℕ) : ℝ) ≠ 0 := by linarith
    field_simp
    ring
  rw [e]
  apply Real.cos_pos_of_mem_Ioo
  constructor <;> linarith

theorem ellipsoidGrid_getElem? (N : Nat) (a b c : ℝ) (r k : Nat) (hk : k < N) :
    (ellipsoidGrid N a b c)[r * N + k]? =
      ((linspace (-Real.pi / 2) (Real.pi / 2) N true)[r]?).bind (fun th =>
        ((linspace (0 : ℝ) (2 * Real.pi) N false)[k]?).map (fun ph =>
          (⟨Real.cos th * Real.sin ph * a * (1 / 2), Real.cos th * Real.cos ph * b * (1 / 2), Real.sin th * c * (1 / 2)⟩ : V3 ℝ))) := by
  rw [ellipsoidGrid_unfold, getElem?_flatMap_rows _ _ N (fun th => ellipsoidRow_length N a b c th) r k hk]
  congr 1
  funext th
  rw [List.getElem?_map]

theorem linspace_false_getElem? (a b : ℝ) (N k : Nat) (hk : k < N) :
    (linspace a b N false)[k]? = some (a + (k : ℝ) * ((b - a) / N)) := by
  rw [linspace_false_eq]
  simp [hk]

/-- south-cap triangle `(0, 1, 2)` (south pole, first ring longitude 0, first ring longitude 2π/N), seen from the centre:
`det = (a/2)(b/2)(c/2) · cos²θ₁ · sin(2π/N)` -/
theorem ellipsoid_face_out (N : Nat) (hN : 3 ≤ N) (a b c : ℝ) :
    faceOut (ellipsoidVerts N a b c) (0, 1, 2) ⟨0, 0, 0⟩ =
      some (a / 2 * (b / 2) * (c / 2) * Real.cos (ellTheta1 N) ^ 2 * Real.sin (2 * Real.pi / N)) := by
  have hNN : N + 2 ≤ N * N - (N - 1) := by
    obtain ⟨m, rfl⟩ : ∃ m, N = m + 3 := ⟨N - 3, by omega⟩
    have : (m + 3) * (m + 3) = m * m + 6 * m + 9 := by ring
    omega
  have e0 : (ellipsoidVerts N a b c)[0]? = some ⟨0, 0, -(c / 2)⟩ := by
    rw [← List.head?_eq_getElem?]
    exact (ellipsoidVerts_poles N a b c (by omega)).1
  have th1 := linspace_true_getElem? (-Real.pi / 2) (Real.pi / 2) N 1 (by omega) (by omega)
  have ph0 := linspace_false_getElem? 0 (2 * Real.pi) N 0 (by omega)
  have ph1 := linspace_false_getElem? 0 (2 * Real.pi) N 1 (by omega)
  have g0 := ellipsoidGrid_getElem? N a b c 1 0 (by omega)
  have g1 := ellipsoidGrid_getElem? N a b c 1 1 (by omega)
  rw [th1, ph0] at g0
  rw [th1, ph1] at g1
  simp only [Option.bind_some, Option.map_some, one_mul, Nat.add_zero] at g0 g1
  have e1 : (ellipsoidVerts N a b c)[1]? = (ellipsoidGrid N a b c)[N]? := by
    unfold ellipsoidVerts poleSlice
    rw [if_neg (by omega), List.getElem?_drop, List.getElem?_take_of_lt (by omega),
      show N - 1 + 1 = N by omega]
  have e2 : (ellipsoidVerts N a b c)[2]? = (ellipsoidGrid N a b c)[N + 1]? := by
    unfold ellipsoidVerts poleSlice
    rw [if_neg (by omega), List.getElem?_drop, List.getElem?_take_of_lt (by omega),
      show N - 1 + 2 = N + 1 by omega]
  rw [g0] at e1
  rw [g1] at e2
  rw [faceOut_some (f := (0, 1, 2)) e0 e1 e2]
  simp only [det3v, V3.dot, V3.cross, V3.sub_x, V3.sub_y, V3.sub_z, Nat.cast_zero, Nat.cast_one, zero_mul, one_mul, add_zero,
    Real.sin_zero, Real.cos_zero, sub_zero, zero_add]
  congr 1
  have e : (2 * Real.pi / (N : ℝ)) = 2 * Real.pi / N := rfl
  unfold ellTheta1
  simp only [Nat.cast_one, one_mul]
  ring

end MagpyVerif.DisplayTrig
