/-
Lemmas/StyleUpdate.lean — what an ACCEPTED `update` does to a well-formed object (C20), leaf by leaf.
  * `Shaped`: the class's keys in order at every level, any leaf values; `update_nested_dict` of a shaped dictionary with
    a dictionary that FITS the class (keys are properties; plain properties get non-dict values, sub-objects get
    fitting dictionaries) is shaped again,
  * on a shaped dictionary a constructor call is `normKids`: every leaf through its validator, in order,
  * the loop of `update` over a shaped `new_dict` replaces the whole tree by `normKids new_dict`,
  * reading a plain property of `normKids d` gives the validator's image of the leaf `d` has there.
-/
import MagpyVerif.Lemmas.StyleRebuild

namespace MagpyVerif.StyleState
open MagpyVerif.StyleNested

/-! ### shaped dictionaries -/

/-- no condition on the stored leaves -/
def anyLeaf : Nat → Option Val → Bool := fun _ _ => true

mutual
theorem wfVal_shaped (P : Nat → Option Val → Bool) : ∀ (s : Schema) (v : Tree), wfVal P s v = true → wfVal anyLeaf s v = true
  | .leaf _, v, h => by
    cases v with
    | leaf x => rw [wfVal]; rfl
    | node kv => rw [wfVal] at h; cases h
  | .alias _, v, h => by rw [wfVal] at h; cases h
  | .obj ps a b c d, v, h => by
    obtain ⟨kids, rfl, hk⟩ := wfVal_obj_elim h
    rw [wfVal]
    exact wfKids_shaped P ps kids hk
theorem wfKids_shaped (P : Nat → Option Val → Bool) : ∀ (ps : List (Key × Schema)) (kids : Dict), wfKids P ps kids = true →
    wfKids anyLeaf ps kids = true
  | [], kids, h => by rw [wfKids_nil] at h ⊢; exact h
  | (k, s) :: ps, kids, h => by
    cases ha : s.isAlias with
    | true =>
      rw [wfKids_cons_alias P k s ps kids ha] at h
      rw [wfKids_cons_alias anyLeaf k s ps kids ha]
      exact wfKids_shaped P ps kids h
    | false =>
      cases kids with
      | nil => rw [wfKids_cons_nil P k s ps ha] at h; cases h
      | cons kv kids' =>
        obtain ⟨k', v⟩ := kv
        rw [wfKids_cons_cons P k k' s v ps kids' ha] at h
        rw [wfKids_cons_cons anyLeaf k k' s v ps kids' ha]
        simp only [Bool.and_eq_true] at h ⊢
        exact ⟨⟨h.1.1, wfVal_shaped P s v h.1.2⟩, wfKids_shaped P ps kids' h.2⟩
end

/-! ### dictionaries that fit a class -/

mutual
/-- a value fits a property: a non-dict value for a plain property, a fitting dictionary for a sub-object -/
def fitsVal : Schema → Tree → Bool
  | .leaf _, .leaf _ => true
  | .leaf _, .node _ => false
  | .alias _, _ => false
  | .obj ps _ _ _ _, .node m => fitsKids ps m
  | .obj _ _ _ _ _, .leaf _ => false
/-- every key is a (non-alias) property and its value fits it -/
def fitsKids : List (Key × Schema) → Dict → Bool
  | _, [] => true
  | ps, (k, v) :: r => (match lookup k ps with | some s => fitsVal s v | none => false) && fitsKids ps r
end

theorem fitsKids_cons (ps : List (Key × Schema)) (k : Key) (v : Tree) (r : Dict) :
    fitsKids ps ((k, v) :: r) = ((match lookup k ps with | some s => fitsVal s v | none => false) && fitsKids ps r) := by
  rw [fitsKids]

theorem fitsKids_lookup {ps : List (Key × Schema)} {k : Key} {v : Tree} : ∀ {m : Dict}, fitsKids ps m = true → lookup k m = some v →
    ∃ s, lookup k ps = some s ∧ fitsVal s v = true := by
  intro m
  induction m with
  | nil => intro _ h; simp at h
  | cons hd t ih =>
    obtain ⟨k', v'⟩ := hd
    intro hf hl
    rw [fitsKids_cons] at hf
    simp only [Bool.and_eq_true] at hf
    by_cases hk : k' = k
    · simp only [lookup_cons, hk, if_true, Option.some.injEq] at hl
      subst hl; subst hk
      cases hs : lookup k' ps with
      | none => rw [hs] at hf; cases hf.1
      | some s => rw [hs] at hf; exact ⟨s, rfl, hf.1⟩
    · simp only [lookup_cons, hk, if_false] at hl
      exact ih hf.2 hl

/-! ### `update_nested_dict(shaped, fitting)` is shaped -/

mutual
theorem updVal_shaped (sko : Bool) : ∀ (v : Tree) (s : Schema) (cv : Tree), fitsVal s v = true → wfVal anyLeaf s cv = true →
    ∃ r, updVal sko false (some cv) v = some r ∧ wfVal anyLeaf s r = true
  | .leaf x, s, cv, hf, hc => by
    cases s with
    | leaf vid =>
      refine ⟨.leaf x, ?_, by rw [wfVal]; rfl⟩
      simp [updVal]
    | alias t => rw [fitsVal] at hf; cases hf
    | obj a b c d e => rw [fitsVal] at hf; cases hf
  | .node mk, s, cv, hf, hc => by
    cases s with
    | leaf vid => rw [fitsVal] at hf; cases hf
    | alias t => rw [fitsVal] at hf; cases hf
    | obj ps a b c d =>
      rw [fitsVal] at hf
      obtain ⟨ck, rfl, hck⟩ := wfVal_obj_elim hc
      refine ⟨.node (updLoop sko false ck mk), ?_, ?_⟩
      · rw [updVal_node]; simp [updDict]
      · rw [wfVal]; exact updLoop_shaped sko mk ps ck hf hck
theorem updLoop_shaped (sko : Bool) : ∀ (m : Dict) (ps : List (Key × Schema)) (acc : Dict), fitsKids ps m = true →
    wfKids anyLeaf ps acc = true → wfKids anyLeaf ps (updLoop sko false acc m) = true
  | [], ps, acc, _, h => by rw [updLoop_nil]; exact h
  | (k, v) :: r, ps, acc, hf, h => by
    rw [fitsKids_cons] at hf
    simp only [Bool.and_eq_true] at hf
    cases hs : lookup k ps with
    | none => rw [hs] at hf; cases hf.1
    | some s =>
      rw [hs] at hf
      have hna : s.isAlias = false := by
        cases s with
        | leaf v' => rfl
        | obj a b c d e => rfl
        | alias t => have h1 := hf.1; cases v <;> simp [fitsVal] at h1
      obtain ⟨cv, hcv1, hcv2⟩ := wfKids_lookup anyLeaf k s hna ps acc h hs
      obtain ⟨r', hr1, hr2⟩ := updVal_shaped sko v s cv hf.1 hcv2
      rw [updLoop_cons, hcv1, hr1]
      simp only []
      exact updLoop_shaped sko r ps _ hf.2 (wfKids_setKey anyLeaf k s r' hr2 ps acc h hs)
end

/-! ### a constructor call on a shaped dictionary: every value through its setter, in order -/

/-- the tree a constructor builds from a shaped dictionary (`setVal` of every value, first exception wins) -/
def normKids (T : Tables) : List (Key × Schema) → Dict → Except Kind Dict
  | [], _ => .ok []
  | (_, s) :: ps, kids =>
    if s.isAlias then normKids T ps kids else
    match kids with
    | [] => .error .other
    | (k', v) :: kids' =>
      match setVal T s v with
      | .error e => .error e
      | .ok v' =>
        match normKids T ps kids' with
        | .ok r => .ok ((k', v') :: r)
        | .error e => .error e

theorem normKids_nil (T : Tables) (kids : Dict) : normKids T [] kids = .ok [] := by rw [normKids.eq_def]

theorem normKids_cons_alias (T : Tables) (k : Key) (s : Schema) (ps : List (Key × Schema)) (kids : Dict) (h : s.isAlias = true) :
    normKids T ((k, s) :: ps) kids = normKids T ps kids := by rw [normKids.eq_def]; simp [h]

theorem normKids_cons_cons (T : Tables) (k k' : Key) (s : Schema) (v : Tree) (ps : List (Key × Schema)) (kids : Dict) (h : s.isAlias = false) :
    normKids T ((k, s) :: ps) ((k', v) :: kids) =
      match setVal T s v with
      | .error e => .error e
      | .ok v' =>
        match normKids T ps kids with
        | .ok r => .ok ((k', v') :: r)
        | .error e => .error e := by
  rw [normKids.eq_def]; simp [h]

/-- the loop of `__init__` on a shaped dictionary -/
theorem constructProps_shaped (T : Tables) : ∀ (rest : List (Key × Schema)) (all : List (Key × Schema)) (g acc suf : Dict),
    (∀ kv ∈ rest, lookup kv.1 acc = none) → nodupK rest = true → wfKids anyLeaf rest suf = true →
    (∀ k v, lookup k suf = some v → lookup k g = some v) →
    (∀ a tgt, (a, Schema.alias tgt) ∈ rest → (lookup a g).getD (.leaf none) = .leaf none) →
    constructProps T all g rest acc =
      match normKids T rest suf with
      | .ok out => .ok (acc ++ out)
      | .error e => .error e := by
  intro rest
  induction rest with
  | nil =>
    intro all g acc suf _ _ _ _ _
    rw [constructProps_nil, normKids_nil]; simp
  | cons hd rest' ih =>
    obtain ⟨k, s⟩ := hd
    intro all g acc suf hfresh hnd hw hg1 hg2
    rw [nodupK_cons] at hnd
    simp only [Bool.and_eq_true, Option.isNone_iff_eq_none] at hnd
    rw [constructProps_cons]
    cases ha : s.isAlias with
    | true =>
      cases s with
      | leaf v => cases ha
      | obj p1 p2 p3 p4 p5 => cases ha
      | alias tgt =>
        rw [hg2 k tgt (List.mem_cons_self ..), setProp_alias_none, normKids_cons_alias T k _ rest' suf rfl]
        simp only []
        rw [wfKids_cons_alias anyLeaf k _ rest' suf rfl] at hw
        exact ih all g acc suf (fun kv hkv => hfresh kv (List.mem_cons_of_mem _ hkv)) hnd.2 hw hg1
          (fun a t hm => hg2 a t (List.mem_cons_of_mem _ hm))
    | false =>
      cases suf with
      | nil => rw [wfKids_cons_nil anyLeaf k s rest' ha] at hw; cases hw
      | cons kv suf' =>
        obtain ⟨k', v⟩ := kv
        rw [wfKids_cons_cons anyLeaf k k' s v rest' suf' ha] at hw
        simp only [Bool.and_eq_true, beq_iff_eq] at hw
        have hkk : k' = k := hw.1.1.symm
        subst hkk
        have hval : (lookup k' g).getD (.leaf none) = v := by
          rw [hg1 k' v (by simp [lookup_cons])]; rfl
        rw [hval, setProp_eq_setVal T all acc k' s v ha, normKids_cons_cons T k' k' s v rest' suf' ha]
        cases hsv : setVal T s v with
        | error e => rfl
        | ok v' =>
          simp only []
          rw [setKey_of_lookup_none (hfresh (k', s) (List.mem_cons_self ..))]
          have hsuf' : lookup k' suf' = none := wfKids_lookup_none anyLeaf k' rest' suf' hw.2 hnd.1
          rw [ih all g (acc ++ [(k', v')]) suf'
            (fun kv hkv => by
              rw [lookup_append, hfresh kv (List.mem_cons_of_mem _ hkv)]
              have hne : kv.1 ≠ k' := lookup_eq_none_iff.mp hnd.1 kv hkv
              simp [lookup_cons, Ne.symm hne])
            hnd.2 hw.2
            (fun k2 v2 hl => by
              apply hg1
              have hne : k' ≠ k2 := by intro e; rw [e] at hsuf'; rw [hsuf'] at hl; cases hl
              simp [lookup_cons, hne, hl])
            (fun a t hm => hg2 a t (List.mem_cons_of_mem _ hm))]
          cases normKids T rest' suf' with
          | ok r => simp
          | error e => rfl

/-- **a constructor call on a shaped dictionary is `normKids`** -/
theorem construct_shaped (T : Tables) (ps : List (Key × Schema)) (a : List Str) (b : Option Key) (ct : List (Key × Option Val)) (vk : Bool)
    (hok : okSchema (.obj ps a b ct vk) = true) (hok2 : okSchema2 (.obj ps a b ct vk) = true) (d : Dict)
    (hd : wfKids anyLeaf ps d = true) : construct T ps ct vk d = normKids T ps d := by
  rw [okSchema] at hok
  rw [okSchema2] at hok2
  simp only [Bool.and_eq_true] at hok hok2
  obtain ⟨⟨⟨⟨⟨h2p, h2k⟩, h2c⟩, h2a⟩, h2m⟩, h2v⟩ := hok2
  have hgood := goodKids_ctorKwargs ct d h2c (wfKids_good anyLeaf ps h2p h2k d hd)
  have hnames : (ctorKwargs ct d).all (fun kv => (lookup kv.1 ps).isSome) = true := by
    rw [List.all_eq_true]
    intro kv hkv
    unfold ctorKwargs at hkv
    rcases List.mem_append.mp hkv with h1 | h1
    · simp only [List.mem_map] at h1
      obtain ⟨pd, hpd, rfl⟩ := h1
      exact List.all_eq_true.mp h2m pd hpd
    · exact wfKids_keys_props anyLeaf ps d hd kv (List.mem_filter.mp h1).1
  have hcp := constructProps_shaped T ps ps (ctorKwargs ct d) [] d (fun _ _ => rfl) hok.1.2 hd
    (fun k v hl => by
      rw [lookup_ctorKwargs]
      cases lookup k ct with
      | none => exact hl
      | some dd => simp [hl])
    (fun al tgt hm => by
      have hla : lookup al ps = some (.alias tgt) := lookup_of_mem_keysOK h2k hm
      have hnone : lookup al d = none := wfKids_lookup_alias_none anyLeaf al tgt ps d hd hla hok.1.2
      rw [lookup_ctorKwargs]
      cases hc : lookup al ct with
      | none => simp [hnone]
      | some dd =>
        have := aliasCtorNone_mem h2a hm dd hc
        subst this
        simp [hnone])
  simp only [construct, ctorDict, h2v, Bool.not_true, Bool.false_and, Bool.false_eq_true, if_false,
    magicToDict_good '_' _ hgood, hnames, if_true, hcp]
  cases normKids T ps d with
  | ok out => simp
  | error e => rfl

/-! ### the loop of `update` over a shaped `new_dict` -/

theorem setKey_append_of_none {α : Type} {k : Key} {v : α} : ∀ (pre l : List (Key × α)), lookup k pre = none →
    setKey k v (pre ++ l) = pre ++ setKey k v l := by
  intro pre
  induction pre with
  | nil => intro l _; rfl
  | cons hd t ih =>
    obtain ⟨k', v'⟩ := hd
    intro l h
    have hk : k' ≠ k := by intro e; simp [lookup_cons, e] at h
    simp only [lookup_cons, hk, if_false] at h
    simp [setKey, hk, ih l h]

/-- `for k, v in new_dict.items(): setattr(self, k, v)` over a shaped `new_dict` on a shaped object: every value is
replaced by what its setter makes of the new one — the object becomes `normKids new_dict` — or the first setter that
raises ends the loop -/
theorem setAllS_shaped (T : Tables) (props : List (Key × Schema)) (others : List Str) :
    ∀ (rest : List (Key × Schema)) (pre csuf items : Dict),
      (∀ k s, lookup k rest = some s → lookup k props = some s) → nodupK rest = true →
      (∀ kv ∈ rest, lookup kv.1 pre = none) → wfKids anyLeaf rest items = true → wfKids anyLeaf rest csuf = true →
      match normKids T rest items with
      | .ok out => setAllS T props others (pre ++ csuf) items = (pre ++ out, .ok ())
      | .error e => (setAllS T props others (pre ++ csuf) items).2 = .error e := by
  intro rest
  induction rest with
  | nil =>
    intro pre csuf items _ _ _ hi hc
    rw [wfKids_nil] at hi hc
    cases items with
    | cons a b => simp at hi
    | nil =>
      cases csuf with
      | cons a b => simp at hc
      | nil => rw [normKids_nil]; simp [setAllS_nil]
  | cons hd rest' ih =>
    obtain ⟨k, s⟩ := hd
    intro pre csuf items hsub hnd hfresh hi hc
    rw [nodupK_cons] at hnd
    simp only [Bool.and_eq_true, Option.isNone_iff_eq_none] at hnd
    have hsub' : ∀ k2 s2, lookup k2 rest' = some s2 → lookup k2 props = some s2 := by
      intro k2 s2 hl
      apply hsub
      have hne : k ≠ k2 := by intro e; rw [e] at hnd; rw [hnd.1] at hl; cases hl
      simp [lookup_cons, hne, hl]
    cases ha : s.isAlias with
    | true =>
      rw [wfKids_cons_alias anyLeaf k s rest' _ ha] at hi hc
      rw [normKids_cons_alias T k s rest' items ha]
      exact ih pre csuf items hsub' hnd.2 (fun kv hkv => hfresh kv (List.mem_cons_of_mem _ hkv)) hi hc
    | false =>
      cases items with
      | nil => rw [wfKids_cons_nil anyLeaf k s rest' ha] at hi; cases hi
      | cons kv items' =>
        cases csuf with
        | nil => rw [wfKids_cons_nil anyLeaf k s rest' ha] at hc; cases hc
        | cons kc csuf' =>
          obtain ⟨k1, v⟩ := kv
          obtain ⟨k2, old⟩ := kc
          rw [wfKids_cons_cons anyLeaf k k1 s v rest' items' ha] at hi
          rw [wfKids_cons_cons anyLeaf k k2 s old rest' csuf' ha] at hc
          simp only [Bool.and_eq_true, beq_iff_eq] at hi hc
          have e1 : k = k1 := hi.1.1
          have e2 : k = k2 := hc.1.1
          subst e1; subst e2
          have hp : lookup k props = some s := hsub k s (by simp [lookup_cons])
          have hpre : lookup k pre = none := hfresh (k, s) (List.mem_cons_self ..)
          rw [normKids_cons_cons T k k s v rest' items' ha, setAllS_cons]
          have hsa : setAttr T props others (pre ++ (k, old) :: csuf') k v =
              match setVal T s v with
              | .ok v' => .ok (pre ++ (k, v') :: csuf')
              | .error e => .error e := by
            simp only [setAttr, hp]
            rw [setProp_eq_setVal T props _ k s v ha]
            cases setVal T s v with
            | error e => rfl
            | ok v' => simp only []; rw [setKey_append_of_none pre _ hpre]; simp [setKey]
          rw [hsa]
          cases hsv : setVal T s v with
          | error e => rfl
          | ok v' =>
            simp only []
            have := ih (pre ++ [(k, v')]) csuf' items' hsub' hnd.2
              (fun kv hkv => by
                rw [lookup_append, hfresh kv (List.mem_cons_of_mem _ hkv)]
                have hne : kv.1 ≠ k := lookup_eq_none_iff.mp hnd.1 kv hkv
                simp [lookup_cons, Ne.symm hne]) hi.2 hc.2
            cases hn : normKids T rest' items' with
            | error e => rw [hn] at this; simp only [List.append_assoc, List.cons_append, List.nil_append] at this; exact this
            | ok out' =>
              rw [hn] at this
              simp only [List.append_assoc, List.cons_append, List.nil_append] at this
              exact this

/-- the value under a property of `normKids d` -/
theorem normKids_lookup (T : Tables) (k : Key) (s : Schema) (hs : s.isAlias = false) : ∀ (ps : List (Key × Schema)) (d out : Dict),
    wfKids anyLeaf ps d = true → normKids T ps d = .ok out → lookup k ps = some s →
    ∃ v v', lookup k d = some v ∧ setVal T s v = .ok v' ∧ lookup k out = some v' := by
  intro ps
  induction ps with
  | nil => intro d out _ _ hl; simp at hl
  | cons hd t ih =>
    obtain ⟨k0, s0⟩ := hd
    intro d out hw hn hl
    cases ha : s0.isAlias with
    | true =>
      rw [wfKids_cons_alias anyLeaf k0 s0 t d ha] at hw
      rw [normKids_cons_alias T k0 s0 t d ha] at hn
      have hk0 : k0 ≠ k := by
        intro e
        simp only [lookup_cons, e, if_true, Option.some.injEq] at hl
        rw [hl] at ha; rw [ha] at hs; cases hs
      simp only [lookup_cons, hk0, if_false] at hl
      exact ih d out hw hn hl
    | false =>
      cases d with
      | nil => rw [wfKids_cons_nil anyLeaf k0 s0 t ha] at hw; cases hw
      | cons kv d' =>
        obtain ⟨k', v⟩ := kv
        rw [wfKids_cons_cons anyLeaf k0 k' s0 v t d' ha] at hw
        rw [normKids_cons_cons T k0 k' s0 v t d' ha] at hn
        simp only [Bool.and_eq_true, beq_iff_eq] at hw
        have e1 : k0 = k' := hw.1.1
        subst e1
        cases hsv : setVal T s0 v with
        | error e => rw [hsv] at hn; cases hn
        | ok v' =>
          rw [hsv] at hn
          simp only [] at hn
          cases hr : normKids T t d' with
          | error e => rw [hr] at hn; cases hn
          | ok r =>
            rw [hr] at hn
            injection hn with hn
            subst hn
            by_cases hk : k0 = k
            · simp only [lookup_cons, hk, if_true, Option.some.injEq] at hl
              subst hl; subst hk
              exact ⟨v, v', by simp [lookup_cons], hsv, by simp [lookup_cons]⟩
            · simp only [lookup_cons, hk, if_false] at hl
              obtain ⟨x, x', h1, h2, h3⟩ := ih d' r hw.2 hr hl
              exact ⟨x, x', by simp [lookup_cons, hk, h1], h2, by simp [lookup_cons, hk, h3]⟩

/-! ### reading plain properties -/

/-- a plain property of a well-formed object: it is there, `getPath` and attribute access agree, the leaf predicate holds -/
theorem read_wf (P : Nat → Option Val → Bool) : ∀ (q : List Key) (ps : List (Key × Schema)) (cur : Dict) (vid : Nat),
    wfKids P ps cur = true → leafVid ps q = some vid →
    ∃ y, getPath (.node cur) q = some (.leaf y) ∧ readPath ps cur q = .ok (.leaf y) ∧ P vid y = true
  | [], ps, cur, vid, _, hq => by simp [leafVid] at hq
  | [k], ps, cur, vid, hw, hq => by
    have hk : lookup k ps = some (.leaf vid) := by
      simp only [leafVid] at hq
      split at hq
      · rename_i v0 hl; injection hq with hq; rw [hl, hq]
      · cases hq
    obtain ⟨v, hv1, hv2⟩ := wfKids_lookup P k (.leaf vid) rfl ps cur hw hk
    cases v with
    | node kv => rw [wfVal] at hv2; cases hv2
    | leaf y =>
      rw [wfVal] at hv2
      exact ⟨y, by simp [getPath, hv1], by simp [readPath, hk, hv1], hv2⟩
  | k :: k2 :: ks, ps, cur, vid, hw, hq => by
    simp only [leafVid] at hq
    split at hq
    · rename_i ps1 a b c d hl
      obtain ⟨v, hv1, hv2⟩ := wfKids_lookup P k (.obj ps1 a b c d) rfl ps cur hw hl
      obtain ⟨sub, rfl, hsub⟩ := wfVal_obj_elim hv2
      obtain ⟨y, h1, h2, h3⟩ := read_wf P (k2 :: ks) ps1 sub vid hsub hq
      exact ⟨y, by simp only [getPath, hv1]; exact h1, by simp only [readPath, hl, hv1]; exact h2, h3⟩
    · cases hq

/-- a plain property of `normKids d` is the validator's image of the leaf `d` has there -/
theorem read_normKids (T : Tables) : ∀ (q : List Key) (ps : List (Key × Schema)) (d out : Dict) (vid : Nat),
    okProps ps = true → okProps2 ps = true → wfKids anyLeaf ps d = true → normKids T ps d = .ok out → leafVid ps q = some vid →
    ∃ x x', getPath (.node d) q = some (.leaf x) ∧ runV T vid (.leaf x) = .ok x' ∧ readPath ps out q = .ok (.leaf x')
  | [], ps, d, out, vid, _, _, _, _, hq => by simp [leafVid] at hq
  | [k], ps, d, out, vid, _, _, hw, hn, hq => by
    have hk : lookup k ps = some (.leaf vid) := by
      simp only [leafVid] at hq
      split at hq
      · rename_i v0 hl; injection hq with hq; rw [hl, hq]
      · cases hq
    obtain ⟨v, v', h1, h2, h3⟩ := normKids_lookup T k (.leaf vid) rfl ps d out hw hn hk
    obtain ⟨v0, hv1, hv2⟩ := wfKids_lookup anyLeaf k (.leaf vid) rfl ps d hw hk
    rw [h1] at hv1
    injection hv1 with hv1
    subst hv1
    cases v with
    | node kv => rw [wfVal] at hv2; cases hv2
    | leaf x =>
      rw [setVal] at h2
      cases hr : runV T vid (.leaf x) with
      | error e => rw [hr] at h2; cases h2
      | ok x' =>
        rw [hr] at h2
        injection h2 with h2
        subst h2
        exact ⟨x, x', by simp [getPath, h1], hr, by simp [readPath, hk, h3]⟩
  | k :: k2 :: ks, ps, d, out, vid, hok, hok2, hw, hn, hq => by
    simp only [leafVid] at hq
    split at hq
    · rename_i ps1 a b ct vk hl
      obtain ⟨v, v', h1, h2, h3⟩ := normKids_lookup T k (.obj ps1 a b ct vk) rfl ps d out hw hn hl
      obtain ⟨v0, hv1, hv2⟩ := wfKids_lookup anyLeaf k (.obj ps1 a b ct vk) rfl ps d hw hl
      rw [h1] at hv1
      injection hv1 with hv1
      subst hv1
      obtain ⟨d1, rfl, hd1⟩ := wfVal_obj_elim hv2
      have hs1 := okProps_lookup hok hl
      have hs2 := okProps2_lookup hok2 hl
      rw [setVal] at h2
      simp only [objKwargs] at h2
      rw [construct_shaped T ps1 a b ct vk hs1 hs2 d1 hd1] at h2
      cases hn1 : normKids T ps1 d1 with
      | error e => rw [hn1] at h2; cases h2
      | ok out1 =>
        rw [hn1] at h2
        injection h2 with h2
        subst h2
        rw [okSchema] at hs1
        rw [okSchema2] at hs2
        simp only [Bool.and_eq_true] at hs1 hs2
        obtain ⟨x, x', g1, g2, g3⟩ := read_normKids T (k2 :: ks) ps1 d1 out1 vid hs1.1.1 hs2.1.1.1.1.1 hd1 hn1 hq
        exact ⟨x, x', by simp only [getPath, h1]; exact g1, g2, by simp only [readPath, hl, h3]; exact g3⟩
    · cases hq

/-! ### what a fitting dictionary says about a plain property -/

theorem fitsVal_leaf_elim {vid : Nat} {t : Tree} (h : fitsVal (.leaf vid) t = true) : ∃ v, t = .leaf v := by
  cases t with
  | leaf v => exact ⟨v, rfl⟩
  | node kv => rw [fitsVal] at h; cases h

theorem fitsVal_obj_elim {ps : List (Key × Schema)} {a : List Str} {b : Option Key} {c : List (Key × Option Val)} {d : Bool} {t : Tree}
    (h : fitsVal (.obj ps a b c d) t = true) : ∃ m, t = .node m ∧ fitsKids ps m = true := by
  cases t with
  | leaf v => rw [fitsVal] at h; cases h
  | node m => rw [fitsVal] at h; exact ⟨m, rfl, h⟩

/-- a fitting dictionary either has a non-dict value exactly at a plain property's path, or does not reach it -/
theorem fits_leaf_cases : ∀ (q : List Key) (ps : List (Key × Schema)) (m : Dict) (vid : Nat), fitsKids ps m = true →
    leafVid ps q = some vid → (∃ v, getPath (.node m) q = some (.leaf v)) ∨ covers (.node m) q = false
  | [], ps, m, vid, _, hq => by simp [leafVid] at hq
  | [k], ps, m, vid, hf, hq => by
    have hk : lookup k ps = some (.leaf vid) := by
      simp only [leafVid] at hq
      split at hq
      · rename_i v0 hl; injection hq with hq; rw [hl, hq]
      · cases hq
    cases hm : lookup k m with
    | none => exact .inr (by simp [covers_node_cons, hm])
    | some t =>
      obtain ⟨s, hs1, hs2⟩ := fitsKids_lookup hf hm
      rw [hk] at hs1
      injection hs1 with hs1
      subst hs1
      obtain ⟨v, rfl⟩ := fitsVal_leaf_elim hs2
      exact .inl ⟨v, by simp [getPath, hm]⟩
  | k :: k2 :: ks, ps, m, vid, hf, hq => by
    simp only [leafVid] at hq
    split at hq
    · rename_i ps1 a b c d hl
      cases hm : lookup k m with
      | none => exact .inr (by simp [covers_node_cons, hm])
      | some t =>
        obtain ⟨s, hs1, hs2⟩ := fitsKids_lookup hf hm
        rw [hl] at hs1
        injection hs1 with hs1
        subst hs1
        obtain ⟨m1, rfl, hm1⟩ := fitsVal_obj_elim hs2
        rcases fits_leaf_cases (k2 :: ks) ps1 m1 vid hm1 hq with ⟨v, hv⟩ | hc
        · exact .inl ⟨v, by simp only [getPath, hm]; exact hv⟩
        · exact .inr (by simp only [covers_node_cons, hm]; exact hc)
    · cases hq

/-- the leaf `new_dict = update_nested_dict(as_dict(), m)` has at a plain property's path: the value `m` gives it, if
`m` has one there, else the old one (`replace_None_only=False`, either setting of `same_keys_only`) -/
theorem getPath_updLoop_fits (sko : Bool) (ps : List (Key × Schema)) (cur m : Dict) (q : List Key) (vid : Nat)
    (hcur : wfKids anyLeaf ps cur = true) (hf : fitsKids ps m = true) (hm : StyleNested.wfKids m = true)
    (hq : leafVid ps q = some vid) :
    getPath (.node (updLoop sko false cur m)) q =
      match getPath (.node m) q with
      | some (.leaf v) => some (.leaf v)
      | _ => getPath (.node cur) q := by
  have hnd : Tree.node (updLoop sko false cur m) = updDict sko false (.node cur) m := rfl
  rw [hnd]
  obtain ⟨y, hy, _, _⟩ := read_wf anyLeaf q ps cur vid hcur hq
  rcases fits_leaf_cases q ps m vid hf hq with ⟨v, hv⟩ | hc
  · rw [getPath_updDict_leaf sko false v q (.node cur) m hm hv, writable_of_getPath_leaf sko false q (.node cur) y hy, hv]
    simp
  · rw [getPath_updDict_untouched sko false q (.node cur) m hm hc, getPath_eq_none_of_not_covers q (.node m) hc]

/-! ### an accepted `update` with a fitting argument, leaf by leaf -/

/-- the nested dictionary `update` works with: `magic_to_dict({**arg, **kwargs})` (computed from the call alone) -/
def updArg (arg : Option Tree) (kwargs : Dict) : Except Kind Dict :=
  match arg with
  | some (.leaf _) => .error .attribute
  | none =>
    match magicToDict '_' (.node (mergeDict [] kwargs)) with
    | .ok (.node m) => .ok m
    | .ok (.leaf _) => .error .attribute
    | .error e => .error (.ofErr e)
  | some (.node ka) =>
    match magicToDict '_' (.node (mergeDict ka kwargs)) with
    | .ok (.node m) => .ok m
    | .ok (.leaf _) => .error .attribute
    | .error e => .error (.ofErr e)

theorem updateObj_eq (T : Tables) (ps : List (Key × Schema)) (os : List Str) (cur : Dict) (arg : Option Tree) (kwargs : Dict)
    (mt rno : Bool) :
    updateObj T ps os cur arg kwargs mt rno =
      match updArg arg kwargs with
      | .error e => (cur, .error e)
      | .ok m =>
        match setAllS T ps os cur (updLoop (!mt) rno cur m) with
        | (c, .ok u) => (c, .ok u)
        | (_, .error e) => (cur, .error e) := by
  unfold updateObj updArg
  cases arg with
  | none =>
    simp only []
    cases magicToDict '_' (.node (mergeDict [] kwargs)) with
    | error e => rfl
    | ok t =>
      cases t with
      | leaf v => simp [updateNested, Kind.ofErr]
      | node m =>
        simp only [updateNested, updDict]
        rcases setAllS T ps os cur (updLoop (!mt) rno cur m) with ⟨c, r⟩
        cases r <;> rfl
  | some a =>
    cases a with
    | leaf v => rfl
    | node ka =>
      simp only []
      cases magicToDict '_' (.node (mergeDict ka kwargs)) with
      | error e => rfl
      | ok t =>
        cases t with
        | leaf v => simp [updateNested, Kind.ofErr]
        | node m =>
        simp only [updateNested, updDict]
        rcases setAllS T ps os cur (updLoop (!mt) rno cur m) with ⟨c, r⟩
        cases r <;> rfl

/-- **an accepted `update` whose argument fits the class, on a well-formed object, leaf by leaf**: a plain property at
which the argument (in whatever notation it was written) has a value now holds what its setter makes of that value;
every other plain property of the object, at every depth, holds what it held. -/
theorem updateObj_fits_read (T : Tables) (ps : List (Key × Schema)) (os : List Str) (cur : Dict) (arg : Option Tree) (kwargs : Dict)
    (mt : Bool) (m : Dict) (hm : updArg arg kwargs = .ok m) (hfit : fitsKids ps m = true) (hmw : StyleNested.wfKids m = true)
    (hok : okProps ps = true) (hok2 : okProps2 ps = true) (hnd : nodupK ps = true) (hw : wfKids (fixB T) ps cur = true)
    (hacc : (updateObj T ps os cur arg kwargs mt false).2 = .ok ()) (q : List Key) (vid : Nat) (hq : leafVid ps q = some vid) :
    match getPath (.node m) q with
    | some (.leaf v) => ∃ x, runV T vid (.leaf v) = .ok x ∧ readPath ps (updateObj T ps os cur arg kwargs mt false).1 q = .ok (.leaf x)
    | _ => readPath ps (updateObj T ps os cur arg kwargs mt false).1 q = readPath ps cur q := by
  have hsh := wfKids_shaped (fixB T) ps cur hw
  have hnds := updLoop_shaped (!mt) m ps cur hfit hsh
  have hsa := setAllS_shaped T ps os ps [] cur (updLoop (!mt) false cur m) (fun _ _ h => h) hnd (fun _ _ => rfl) hnds hsh
  rw [updateObj_eq, hm] at hacc ⊢
  simp only [] at hacc ⊢
  simp only [List.nil_append] at hsa
  cases hn : normKids T ps (updLoop (!mt) false cur m) with
  | error e =>
    rw [hn] at hsa
    simp only [] at hsa hacc
    rcases hs : setAllS T ps os cur (updLoop (!mt) false cur m) with ⟨c, r⟩
    rw [hs] at hsa hacc
    simp only [] at hsa
    subst hsa
    simp only [] at hacc
    cases hacc
  | ok out =>
    rw [hn] at hsa
    simp only [] at hsa
    rw [hsa]
    simp only []
    obtain ⟨x, x', g1, g2, g3⟩ := read_normKids T q ps _ out vid hok hok2 hnds hn hq
    rw [getPath_updLoop_fits (!mt) ps cur m q vid hsh hfit hmw hq] at g1
    obtain ⟨y, hy1, hy2, hy3⟩ := read_wf (fixB T) q ps cur vid hw hq
    have hold : getPath (Tree.node cur) q = some (Tree.leaf x) → readPath ps out q = readPath ps cur q := by
      intro h
      rw [hy1] at h
      injection h with h
      injection h with h
      subst h
      rw [runV_of_fixB hy3] at g2
      injection g2 with g2
      rw [g3, hy2, g2]
    cases hg : getPath (.node m) q with
    | none => rw [hg] at g1; exact hold g1
    | some t =>
      cases t with
      | leaf v =>
        rw [hg] at g1
        simp only [] at g1 ⊢
        injection g1 with g1
        injection g1 with g1
        subst g1
        exact ⟨x', g2, g3⟩
      | node kv => rw [hg] at g1; exact hold g1

/-! ### operations on a sub-object: reading below and beside the receiver -/

theorem atPath_read_inside (f : List (Key × Schema) → List Str → Dict → Dict × Except Kind Unit) :
    ∀ (p : List Key) (ps : List (Key × Schema)) (os : List Str) (c : Dict) (ps' : List (Key × Schema)) (os' : List Str) (c' : Dict)
      (q' : List Key), subObj ps os c p = some (ps', os', c') →
      readPath ps (atPath f ps os c p).1 (p ++ q') = readPath ps' (f ps' os' c').1 q' := by
  intro p
  induction p with
  | nil =>
    intro ps os c ps' os' c' q' h
    simp only [subObj, Option.some.injEq, Prod.mk.injEq] at h
    obtain ⟨rfl, rfl, rfl⟩ := h
    rfl
  | cons k p' ih =>
    intro ps os c ps' os' c' q' h
    unfold subObj at h
    split at h
    · rename_i ps1 os1 _ _ _ sub hp hc
      unfold atPath
      simp only [hp, hc, List.cons_append, readPath, lookup_setKey_self]
      exact ih ps1 os1 sub ps' os' c' q' h
    · cases h

/-- an operation on the sub-object at `p` leaves every plain property that does not lie below `p` as it was -/
theorem atPath_read_outside (f : List (Key × Schema) → List Str → Dict → Dict × Except Kind Unit) :
    ∀ (p : List Key) (ps : List (Key × Schema)) (os : List Str) (c : Dict) (q : List Key) (vq : Nat),
      leafVid ps q = some vq → ¬ p <+: q → readPath ps (atPath f ps os c p).1 q = readPath ps c q := by
  intro p
  induction p with
  | nil => intro ps os c q vq _ hn; exact absurd (List.nil_prefix) hn
  | cons k1 p' ih =>
    intro ps os c q vq hq hn
    unfold atPath
    split
    · rename_i ps1 os1 _ _ _ sub hp hc
      simp only []
      cases q with
      | nil => simp [leafVid] at hq
      | cons k0 ks =>
        by_cases hkk : k1 = k0
        · subst hkk
          cases ks with
          | nil => simp [leafVid, hp] at hq
          | cons k2 ks' =>
            have hq' : leafVid ps1 (k2 :: ks') = some vq := by simpa [leafVid, hp] using hq
            have hn' : ¬ p' <+: (k2 :: ks') := by
              intro hpre; exact hn ((List.cons_prefix_cons).mpr ⟨rfl, hpre⟩)
            simp only [readPath, hp, lookup_setKey_self, hc]
            exact ih ps1 os1 sub (k2 :: ks') vq hq' hn'
        · cases ks with
          | nil =>
            have hk0 : ∃ v0, lookup k0 ps = some (.leaf v0) := by
              simp only [leafVid] at hq
              split at hq
              · rename_i v0 hl; exact ⟨v0, hl⟩
              · cases hq
            obtain ⟨v0, hk0⟩ := hk0
            simp only [readPath, hk0, lookup_setKey_ne hkk]
          | cons k2 ks' =>
            have hk0 : ∃ ps2 os2 sh2 ct2 vk2, lookup k0 ps = some (.obj ps2 os2 sh2 ct2 vk2) := by
              simp only [leafVid] at hq
              split at hq
              · rename_i ps2 os2 sh2 ct2 vk2 hl; exact ⟨ps2, os2, sh2, ct2, vk2, hl⟩
              · cases hq
            obtain ⟨ps2, os2, sh2, ct2, vk2, hk0⟩ := hk0
            simp only [readPath, hk0, lookup_setKey_ne hkk]
    · rfl

/-- an operation at a path that succeeds: the path was followed and the operation succeeded on the sub-object -/
theorem atPath_ok_elim (f : List (Key × Schema) → List Str → Dict → Dict × Except Kind Unit) :
    ∀ (p : List Key) (ps : List (Key × Schema)) (os : List Str) (c : Dict), (atPath f ps os c p).2 = .ok () →
      ∃ ps' os' c', subObj ps os c p = some (ps', os', c') ∧ (f ps' os' c').2 = .ok () := by
  intro p
  induction p with
  | nil => intro ps os c h; exact ⟨ps, os, c, rfl, h⟩
  | cons k p' ih =>
    intro ps os c h
    unfold atPath at h
    split at h
    · rename_i ps1 os1 _ _ _ sub hp hc
      obtain ⟨ps', os', c', h1, h2⟩ := ih ps1 os1 sub h
      exact ⟨ps', os', c', by unfold subObj; simp only [hp, hc]; exact h1, h2⟩
    · cases h

/-- the sub-object reached is well formed, its class satisfies the schema conditions, and a plain property below the
path is a plain property of it -/
theorem subObj_facts (P : Nat → Option Val → Bool) :
    ∀ (p : List Key) (ps : List (Key × Schema)) (os : List Str) (c : Dict) (ps' : List (Key × Schema)) (os' : List Str) (c' : Dict),
      subObj ps os c p = some (ps', os', c') → okProps ps = true → okProps2 ps = true → nodupK ps = true → wfKids P ps c = true →
      okProps ps' = true ∧ okProps2 ps' = true ∧ nodupK ps' = true ∧ wfKids P ps' c' = true ∧
      ∀ q' vid, leafVid ps (p ++ q') = some vid → leafVid ps' q' = some vid := by
  intro p
  induction p with
  | nil =>
    intro ps os c ps' os' c' h hok hok2 hnd hw
    simp only [subObj, Option.some.injEq, Prod.mk.injEq] at h
    obtain ⟨rfl, rfl, rfl⟩ := h
    exact ⟨hok, hok2, hnd, hw, fun q' vid hq => hq⟩
  | cons k p' ih =>
    intro ps os c ps' os' c' h hok hok2 hnd hw
    unfold subObj at h
    split at h
    · rename_i ps1 os1 b ct vk sub hp hc
      obtain ⟨v, hv1, hv2⟩ := wfKids_lookup P k (.obj ps1 os1 b ct vk) rfl ps c hw hp
      rw [hc] at hv1
      injection hv1 with hv1
      subst hv1
      rw [wfVal] at hv2
      have hs1 := okProps_lookup hok hp
      have hs2 := okProps2_lookup hok2 hp
      rw [okSchema] at hs1
      rw [okSchema2] at hs2
      simp only [Bool.and_eq_true] at hs1 hs2
      obtain ⟨g1, g2, g3, g4, g5⟩ := ih ps1 os1 sub ps' os' c' h hs1.1.1 hs2.1.1.1.1.1 hs1.1.2 hv2
      refine ⟨g1, g2, g3, g4, fun q' vid hq => g5 q' vid ?_⟩
      cases hpq : p' ++ q' with
      | nil => rw [List.cons_append, hpq] at hq; simp [leafVid, hp] at hq
      | cons a b' =>
        rw [List.cons_append, hpq] at hq
        simpa [leafVid, hp] using hq
    · cases h

/-- attribute access through a path that leads to a sub-object -/
theorem subObj_read (P : Nat → Option Val → Bool) : ∀ (p : List Key) (ps : List (Key × Schema)) (os : List Str) (c : Dict)
    (ps' : List (Key × Schema)) (os' : List Str) (c' : Dict) (q' : List Key), subObj ps os c p = some (ps', os', c') →
    readPath ps c (p ++ q') = readPath ps' c' q' := by
  intro p
  induction p with
  | nil =>
    intro ps os c ps' os' c' q' h
    simp only [subObj, Option.some.injEq, Prod.mk.injEq] at h
    obtain ⟨rfl, rfl, rfl⟩ := h
    rfl
  | cons k p' ih =>
    intro ps os c ps' os' c' q' h
    unfold subObj at h
    split at h
    · rename_i ps1 os1 _ _ _ sub hp hc
      simp only [List.cons_append, readPath, hp, hc]
      exact ih ps1 os1 sub ps' os' c' q' h
    · cases h

/-! ### an accepted update at a path, as a transformation of what is read -/

/-- the class of the sub-object at a path (from the schema alone) -/
def propsAt : List (Key × Schema) → List Key → Option (List (Key × Schema))
  | ps, [] => some ps
  | ps, k :: r =>
    match lookup k ps with
    | some (.obj ps1 _ _ _ _) => propsAt ps1 r
    | _ => none

theorem propsAt_of_subObj : ∀ (p : List Key) (ps : List (Key × Schema)) (os : List Str) (c : Dict) (ps' : List (Key × Schema))
    (os' : List Str) (c' : Dict), subObj ps os c p = some (ps', os', c') → propsAt ps p = some ps' := by
  intro p
  induction p with
  | nil =>
    intro ps os c ps' os' c' h
    simp only [subObj, Option.some.injEq, Prod.mk.injEq] at h
    rw [propsAt, h.1]
  | cons k p' ih =>
    intro ps os c ps' os' c' h
    unfold subObj at h
    split at h
    · rename_i ps1 os1 _ _ _ sub hp hc
      rw [propsAt]
      simp only [hp]
      exact ih ps1 os1 sub ps' os' c' h
    · cases h

/-- what is read at the plain property `q` after an accepted `X.update(…)` with nested argument `m`, `X` the sub-object
at `p`: below `p`, where `m` has a value, the setter's image of it; everywhere else what was read before -/
def updRead (T : Tables) (p q : List Key) (m : Dict) (vid : Nat) (base : Except Kind Tree) : Except Kind Tree :=
  if p.isPrefixOf q then
    match getPath (.node m) (q.drop p.length) with
    | some (.leaf v) => (match runV T vid (.leaf v) with | .ok x => .ok (.leaf x) | .error _ => base)
    | _ => base
  else base

theorem update_at_read (T : Tables) (ps : List (Key × Schema)) (os : List Str) (tree : Dict) (p : List Key) (arg : Option Tree)
    (kwargs : Dict) (mt : Bool) (m : Dict) (hm : updArg arg kwargs = .ok m) (ps' : List (Key × Schema))
    (hp : propsAt ps p = some ps') (hfit : fitsKids ps' m = true) (hmw : StyleNested.wfKids m = true)
    (hok : okProps ps = true) (hok2 : okProps2 ps = true) (hnd : nodupK ps = true) (hw : wfKids (fixB T) ps tree = true)
    (hacc : (atPath (fun ps' os' c' => updateObj T ps' os' c' arg kwargs mt false) ps os tree p).2 = .ok ())
    (q : List Key) (vid : Nat) (hq : leafVid ps q = some vid) :
    readPath ps (atPath (fun ps' os' c' => updateObj T ps' os' c' arg kwargs mt false) ps os tree p).1 q =
      updRead T p q m vid (readPath ps tree q) := by
  unfold updRead
  by_cases hpre : p.isPrefixOf q = true
  · simp only [hpre, if_true]
    have hpq : p ++ q.drop p.length = q := List.prefix_iff_eq_append.mp (List.isPrefixOf_iff_prefix.mp hpre)
    obtain ⟨ps1, os1, c1, hsub, hacc1⟩ := atPath_ok_elim _ p ps os tree hacc
    have hps : ps1 = ps' := by
      have := propsAt_of_subObj p ps os tree ps1 os1 c1 hsub
      rw [hp] at this
      injection this with this
      exact this.symm
    subst hps
    obtain ⟨g1, g2, g3, g4, g5⟩ := subObj_facts (fixB T) p ps os tree ps1 os1 c1 hsub hok hok2 hnd hw
    have hq' : leafVid ps1 (q.drop p.length) = some vid := g5 _ vid (by rw [hpq]; exact hq)
    have hin := atPath_read_inside (fun ps' os' c' => updateObj T ps' os' c' arg kwargs mt false) p ps os tree ps1 os1 c1
      (q.drop p.length) hsub
    have hin0 := atPath_read_inside (fun _ _ c' => (c', Except.ok ())) p ps os tree ps1 os1 c1 (q.drop p.length) hsub
    rw [hpq] at hin
    have hbase : readPath ps tree q = readPath ps1 c1 (q.drop p.length) := by
      obtain ⟨y, _, hy2, _⟩ := read_wf (fixB T) q ps tree vid hw hq
      obtain ⟨y', _, hy2', _⟩ := read_wf (fixB T) (q.drop p.length) ps1 c1 vid g4 hq'
      have := subObj_read (fixB T) p ps os tree ps1 os1 c1 (q.drop p.length) hsub
      rw [hpq] at this
      exact this
    rw [hin, hbase]
    have key := updateObj_fits_read T ps1 os1 c1 arg kwargs mt m hm hfit hmw g1 g2 g3 g4 hacc1 (q.drop p.length) vid hq'
    cases hg : getPath (.node m) (q.drop p.length) with
    | none => rw [hg] at key; exact key
    | some t =>
      cases t with
      | leaf v =>
        rw [hg] at key
        obtain ⟨x, hx1, hx2⟩ := key
        simp only [hx1, hx2]
      | node kv => rw [hg] at key; exact key
  · simp only [hpre, Bool.false_eq_true, if_false]
    exact atPath_read_outside _ p ps os tree q vid hq (fun h => hpre (List.isPrefixOf_iff_prefix.mpr h))

end MagpyVerif.StyleState
