/-
Lemmas/OctaCarrier.lean — the carrier the compiled driver computes with, as a genuine group action.

THE GAP THIS FILE CLOSES (AUDIT.md X1).  The marshalling / object-model theorems (Props/C03 … C07, C10;
Lemmas/Level2*.lean, RelPose.lean) are stated over an abstract Mathlib `Group G` with
`DistribMulAction G V` (+ `LawfulBEq G`).  The driver (lean/Driver/PathFam.lean: `Rot := M3 Int`,
`Vec := V3 Int`) runs the same polymorphic model functions at integer 3×3 matrices with the ad-hoc
instances of Model/Basic.lean (`Mul`, `One`, `SMul`, `Inv := transpose`).  `M3 Int` with transpose as
inverse is not a group, so none of those theorems literally applies to what the driver computes and the
correspondence streams compare with the real code.

WHAT IS PROVED HERE.
* `IsOct m`: `m mᵀ = 1 ∧ mᵀ m = 1 ∧ det m = 1` for an integer matrix — decidable; exactly the 24
  signed permutation matrices of determinant 1 (`isOct_iff_mem_octList`), the proper rotations of the
  cube, which is the set the streams draw from (vlib/octa.py `OCTA`) and snap scipy's results to.
* `Oct := {m : M3 Int // IsOct m}` with proved instances `Group Oct` (multiplication, unit and inverse
  are *the driver's* `M3.mul`, `M3.one`, `M3.transpose` restricted), `AddCommGroup (V3 Int)` (built on
  the `Add/Sub/Neg/Zero` instances of Model/Basic.lean, nothing duplicated) and
  `DistribMulAction Oct (V3 Int)` (the driver's `M3.apply`), `DecidableEq`, lawful `==`.
* transfer lemmas `Oct.coe_mul`, `coe_inv`, `coe_one`, `coe_smul`, `coe_beq`: the inclusion
  `Oct.toM3 : Oct → M3 Int` commutes with every operation the models use; packaged as
  `octHom : OpHom (V3 Int) Oct.toM3`.
* with the naturality lemmas of Lemmas/OpHom.lean: every model function evaluated at `G := Oct` equals the
  same function evaluated at `M3 Int` on the included inputs (`tensor_at_Oct_eq_at_M3Int`,
  `getBH_at_Oct_eq_at_M3Int`, `level1_at_Oct_eq_at_M3Int`, `Node.step_at_Oct_eq_at_M3Int`, …).
* lifting: data over `M3 Int` all of whose rotation matrices satisfy `IsOct` is the inclusion of data
  over `Oct` (`exists_oct_entries`, `exists_oct_sensors`, `exists_oct_obj`, `exists_oct_node`, `exists_oct_ops`),
  so the hypotheses of the `…_on_driver_carrier` corollaries in Props/C03–C06, C10 are plain decidable
  conditions on the integer matrices of the input.
* `history_on_driver_carrier`: the driver never leaves the group — a history of `move` / `rotate` / setters /
  `reset_path` with octahedral inputs on a tree with octahedral orientations, run at `M3 Int`, is the inclusion of
  the same history run at `Oct`, and all resulting orientation matrices are octahedral again.
* the `M3 Int` / `V3 Int` sides of all these statements elaborate to exactly the instance terms of
  Model/Basic.lean (`M3.instInv`, `M3.instSMul…`, `V3.instAdd`, `V3.instSub`, `V3.instZero…`, derived `instBEqM3`)
  that a Mathlib-free file — the driver — gets (checked with `pp.explicit`); the `AddCommGroup (V3 Int)` instance
  declared here is built from them and does not shadow them.
* C09 needs none of this: its theorems are stated with the bare operation classes and apply verbatim at `M3 Int`.
* the interface models (Model/Iface.lean: input formatting, `getBtop`, the three method forms; Model/DictIface.lean:
  `getBH_dict_level2`) are treated in Lemmas/OctaIface.lean in the same way (`getBtop_mapG`, `srcMethod_mapG`,
  `sensMethod_mapG`, `collMethod_mapG`, `formatSrc_mapG`, `formatObs_mapG`, `call_mapG`, lifting of call inputs),
  with the corollaries in Props/C07.
* C05 `collection_is_sum_of_children_on_M3Int` (from `specValueOp_coll_M3Int` here) holds for ARBITRARY integer
  matrices: only additivity of `M3.apply` is used.

WHAT REMAINS ASSUMED AFTER THIS (and is not a theorem anywhere):
1. that scipy's `Rotation`, restricted to the 24 octahedral rotations, composes (`*`), inverts (`inv`),
   applies (`apply`) and compares like these integer matrices.  This is what the `path`, `level2`, `iface`
   correspondence streams validate, exactly (integer data, scipy results snapped to the grid with
   tolerance 1e-6 by vlib/octa.py and compared for equality) — validated on the sampled inputs, not proved;
2. that for *general* rotations scipy `Rotation` is a group acting on ℝ³ up to floating-point rounding
   (DESIGN §4): the theorems over an abstract `Group G` describe the code's behaviour for arbitrary
   rotations only modulo that assumption; rounding itself is covered by the float oracles, not by proofs;
3. entries of the driver's `M3 Int` that are *not* octahedral (the parser accepts any nine integers;
   the streams never send such a line) are outside every group-theoretic statement: for them `⁻¹` is just
   the transpose.  The theorems stated with bare operation classes (all of C09, the shape / error /
   ordering theorems of C06, C07, C08) do apply to them.
-/
import MagpyVerif.Lemmas.OpHom
import Mathlib.Tactic.Ring
import Mathlib.Tactic.Linarith
import Mathlib.Tactic.IntervalCases

namespace MagpyVerif

/-! ### `V3 Int` is an additive commutative group under the model's own `+`, `-`, `0` -/
namespace V3

theorem ext_iff' {α : Type} (a b : V3 α) : a = b ↔ a.x = b.x ∧ a.y = b.y ∧ a.z = b.z := by
  cases a; cases b; simp

theorem add_def {α : Type} [Add α] (a b : V3 α) : a + b = ⟨a.x + b.x, a.y + b.y, a.z + b.z⟩ := rfl
theorem sub_def {α : Type} [Sub α] (a b : V3 α) : a - b = ⟨a.x - b.x, a.y - b.y, a.z - b.z⟩ := rfl
theorem neg_def {α : Type} [Neg α] (a : V3 α) : -a = ⟨-a.x, -a.y, -a.z⟩ := rfl
theorem zero_def : (0 : V3 Int) = ⟨0, 0, 0⟩ := rfl

/-- the additive group structure of `V3 Int`; `+`, `-`, unary `-`, `0` ARE the instances of
Model/Basic.lean that the driver uses -/
instance instAddCommGroupInt : AddCommGroup (V3 Int) :=
  { (inferInstance : Add (V3 Int)), (inferInstance : Zero (V3 Int)),
    (inferInstance : Neg (V3 Int)), (inferInstance : Sub (V3 Int)) with
    add_assoc := fun a b c => by simp only [add_def, mk.injEq]; omega
    zero_add := fun a => by simp only [add_def, zero_def, ext_iff']; omega
    add_zero := fun a => by simp only [add_def, zero_def, ext_iff']; omega
    nsmul := nsmulRec
    zsmul := zsmulRec
    neg_add_cancel := fun a => by simp only [add_def, neg_def, zero_def, mk.injEq]; omega
    add_comm := fun a b => by simp only [add_def, mk.injEq]; omega
    sub_eq_add_neg := fun a b => by simp only [add_def, sub_def, neg_def, mk.injEq]; omega }

-- the group structure does not change the operations the model functions see
example : (instAddCommGroupInt.toAddGroup.toSubNegMonoid.toAddMonoid.toAddSemigroup.toAdd : Add (V3 Int)) =
    (inferInstance : Add (V3 Int)) := rfl
example (a b : V3 Int) : a - b = ⟨a.x - b.x, a.y - b.y, a.z - b.z⟩ := rfl

end V3

/-! ### algebra of the driver's integer matrices -/
namespace M3

theorem ext_iff' {α : Type} (a b : M3 α) : a = b ↔ a.r1 = b.r1 ∧ a.r2 = b.r2 ∧ a.r3 = b.r3 := by
  cases a; cases b; simp

theorem mul_def {α : Type} [Mul α] [Add α] (a b : M3 α) : a * b = M3.mul a b := rfl
theorem one_def : (1 : M3 Int) = ⟨⟨1, 0, 0⟩, ⟨0, 1, 0⟩, ⟨0, 0, 1⟩⟩ := rfl
theorem inv_def {α : Type} (a : M3 α) : a⁻¹ = a.transpose := rfl
theorem smul_def {α : Type} [Mul α] [Add α] (a : M3 α) (v : V3 α) : a • v = a.apply v := rfl

/-- determinant (rule of Sarrus) -/
def det (m : M3 Int) : Int :=
  m.r1.x * (m.r2.y * m.r3.z - m.r2.z * m.r3.y) - m.r1.y * (m.r2.x * m.r3.z - m.r2.z * m.r3.x) +
    m.r1.z * (m.r2.x * m.r3.y - m.r2.y * m.r3.x)

theorem mul_assoc' (a b c : M3 Int) : a * b * c = a * (b * c) := by
  simp only [mul_def, mul, transpose, V3.dot, ext_iff', V3.ext_iff']
  refine ⟨⟨?_, ?_, ?_⟩, ⟨?_, ?_, ?_⟩, ⟨?_, ?_, ?_⟩⟩ <;> ring

theorem one_mul' (a : M3 Int) : 1 * a = a := by
  simp only [mul_def, one_def, mul, transpose, V3.dot, ext_iff', V3.ext_iff']
  refine ⟨⟨?_, ?_, ?_⟩, ⟨?_, ?_, ?_⟩, ⟨?_, ?_, ?_⟩⟩ <;> ring

theorem mul_one' (a : M3 Int) : a * 1 = a := by
  simp only [mul_def, one_def, mul, transpose, V3.dot, ext_iff', V3.ext_iff']
  refine ⟨⟨?_, ?_, ?_⟩, ⟨?_, ?_, ?_⟩, ⟨?_, ?_, ?_⟩⟩ <;> ring

theorem transpose_mul (a b : M3 Int) : (a * b).transpose = b.transpose * a.transpose := by
  simp only [mul_def, mul, transpose, V3.dot, ext_iff', V3.ext_iff']
  refine ⟨⟨?_, ?_, ?_⟩, ⟨?_, ?_, ?_⟩, ⟨?_, ?_, ?_⟩⟩ <;> ring

theorem transpose_transpose {α : Type} (a : M3 α) : a.transpose.transpose = a := rfl

theorem transpose_one : (1 : M3 Int).transpose = 1 := rfl

theorem det_mul (a b : M3 Int) : (a * b).det = a.det * b.det := by
  simp only [mul_def, mul, transpose, V3.dot, det]
  ring

theorem det_transpose (a : M3 Int) : a.transpose.det = a.det := by
  simp only [transpose, det]
  ring

theorem det_one : (1 : M3 Int).det = 1 := by decide

theorem one_smul' (v : V3 Int) : (1 : M3 Int) • v = v := by
  simp only [smul_def, one_def, apply, V3.dot, V3.ext_iff']
  refine ⟨?_, ?_, ?_⟩ <;> ring

theorem mul_smul' (a b : M3 Int) (v : V3 Int) : (a * b) • v = a • b • v := by
  simp only [smul_def, mul_def, mul, transpose, apply, V3.dot, V3.ext_iff']
  refine ⟨?_, ?_, ?_⟩ <;> ring

theorem smul_add' (a : M3 Int) (v w : V3 Int) : a • (v + w) = a • v + a • w := by
  simp only [smul_def, apply, V3.dot, V3.add_def, V3.ext_iff']
  refine ⟨?_, ?_, ?_⟩ <;> ring

theorem smul_zero' (a : M3 Int) : a • (0 : V3 Int) = 0 := by
  simp only [smul_def, apply, V3.dot, V3.zero_def, V3.ext_iff']
  refine ⟨?_, ?_, ?_⟩ <;> ring

end M3

/-! ### the octahedral rotation group inside `M3 Int` -/

/-- an integer matrix that is orthogonal (from both sides) with determinant 1.  (For integer matrices
`m mᵀ = 1` implies `mᵀ m = 1`; both are listed so that no adjugate argument is needed — for a concrete
matrix all three conditions are checked by `decide`.) -/
def IsOct (m : M3 Int) : Prop := m * m.transpose = 1 ∧ m.transpose * m = 1 ∧ m.det = 1

instance : DecidablePred IsOct := fun m => by unfold IsOct; infer_instance

namespace IsOct
theorem one : IsOct 1 := by decide

theorem mul {a b : M3 Int} (ha : IsOct a) (hb : IsOct b) : IsOct (a * b) := by
  obtain ⟨a1, a2, a3⟩ := ha
  obtain ⟨b1, b2, b3⟩ := hb
  refine ⟨?_, ?_, ?_⟩
  · rw [M3.transpose_mul, M3.mul_assoc', ← M3.mul_assoc' b, b1, M3.one_mul', a1]
  · rw [M3.transpose_mul, M3.mul_assoc', ← M3.mul_assoc' a.transpose, a2, M3.one_mul', b2]
  · rw [M3.det_mul, a3, b3]; rfl

theorem inv {a : M3 Int} (ha : IsOct a) : IsOct a⁻¹ := by
  obtain ⟨a1, a2, a3⟩ := ha
  exact ⟨by rw [M3.inv_def, M3.transpose_transpose]; exact a2,
    by rw [M3.inv_def, M3.transpose_transpose]; exact a1, by rw [M3.inv_def, M3.det_transpose]; exact a3⟩
end IsOct

/-! #### `IsOct` = the 24 rotations of the cube (vlib/octa.py `OCTA`) -/

/-- the six signed unit vectors -/
def unitVecs : List (V3 Int) := [⟨1, 0, 0⟩, ⟨-1, 0, 0⟩, ⟨0, 1, 0⟩, ⟨0, -1, 0⟩, ⟨0, 0, 1⟩, ⟨0, 0, -1⟩]

/-- the octahedral rotation matrices, enumerated: matrices with signed unit rows that pass the test -/
def octList : List (M3 Int) :=
  (unitVecs.flatMap fun a => unitVecs.flatMap fun b => unitVecs.map fun c => (⟨a, b, c⟩ : M3 Int)).filter
    fun m => decide (IsOct m)

theorem octList_length : octList.length = 24 := by decide

theorem mem_unitVecs_of_norm_one (x y z : Int) (h : x * x + y * y + z * z = 1) : (⟨x, y, z⟩ : V3 Int) ∈ unitVecs := by
  have hx : -1 ≤ x ∧ x ≤ 1 := by constructor <;> nlinarith [mul_self_nonneg y, mul_self_nonneg z]
  have hy : -1 ≤ y ∧ y ≤ 1 := by constructor <;> nlinarith [mul_self_nonneg x, mul_self_nonneg z]
  have hz : -1 ≤ z ∧ z ≤ 1 := by constructor <;> nlinarith [mul_self_nonneg x, mul_self_nonneg y]
  obtain ⟨hx1, hx2⟩ := hx
  obtain ⟨hy1, hy2⟩ := hy
  obtain ⟨hz1, hz2⟩ := hz
  interval_cases x <;> interval_cases y <;> interval_cases z <;> simp_all [unitVecs]

/-- **`IsOct` is exactly membership in the list of the 24 rotations of the cube** -/
theorem isOct_iff_mem_octList (m : M3 Int) : IsOct m ↔ m ∈ octList := by
  constructor
  · intro h
    obtain ⟨⟨a1, a2, a3⟩, ⟨b1, b2, b3⟩, ⟨c1, c2, c3⟩⟩ := m
    have h1 := h.1
    simp only [M3.mul_def, M3.one_def, M3.mul, M3.transpose, V3.dot, M3.ext_iff', V3.ext_iff'] at h1
    obtain ⟨⟨ha, _, _⟩, ⟨_, hb, _⟩, ⟨_, _, hc⟩⟩ := h1
    simp only [octList, List.mem_filter, List.mem_flatMap, List.mem_map, decide_eq_true_eq]
    exact ⟨⟨_, mem_unitVecs_of_norm_one a1 a2 a3 ha, _, mem_unitVecs_of_norm_one b1 b2 b3 hb, _,
      mem_unitVecs_of_norm_one c1 c2 c3 hc, rfl⟩, h⟩
  · intro h
    simp only [octList, List.mem_filter, decide_eq_true_eq] at h
    exact h.2

/-- the rotations the driver's streams use: orthogonal integer matrices of determinant 1 -/
def Oct : Type := {m : M3 Int // IsOct m}

namespace Oct

/-- the inclusion into the driver's carrier -/
def toM3 (a : Oct) : M3 Int := a.1
instance : CoeOut Oct (M3 Int) := ⟨toM3⟩
instance : DecidableEq Oct := inferInstanceAs (DecidableEq {m : M3 Int // IsOct m})

theorem ext {a b : Oct} (h : (a : M3 Int) = b) : a = b := Subtype.ext h
theorem toM3_injective : Function.Injective toM3 := fun _ _ h => Subtype.ext h
theorem isOct (a : Oct) : IsOct a.toM3 := a.2
/-- every octahedral matrix is the inclusion of an element of `Oct` -/
theorem exists_toM3_eq {m : M3 Int} (h : IsOct m) : ∃ a : Oct, a.toM3 = m := ⟨⟨m, h⟩, rfl⟩

/-- the group structure: product, unit and inverse are the driver's `M3.mul`, `M3.one`,
`M3.transpose` -/
instance : Group Oct where
  mul a b := ⟨a.1 * b.1, a.2.mul b.2⟩
  one := ⟨1, IsOct.one⟩
  inv a := ⟨a.1⁻¹, a.2.inv⟩
  mul_assoc a b c := Subtype.ext (M3.mul_assoc' a.1 b.1 c.1)
  one_mul a := Subtype.ext (M3.one_mul' a.1)
  mul_one a := Subtype.ext (M3.mul_one' a.1)
  inv_mul_cancel a := Subtype.ext a.2.2.1

/-- the action on integer vectors is the driver's `M3.apply` -/
instance : DistribMulAction Oct (V3 Int) where
  smul a v := a.1 • v
  one_smul v := M3.one_smul' v
  mul_smul a b v := M3.mul_smul' a.1 b.1 v
  smul_zero a := M3.smul_zero' a.1
  smul_add a v w := M3.smul_add' a.1 v w

/-! #### transfer lemmas: the inclusion commutes with everything the models use -/
@[simp] theorem coe_mul (a b : Oct) : ((a * b : Oct) : M3 Int) = (a : M3 Int) * (b : M3 Int) := rfl
@[simp] theorem coe_inv (a : Oct) : ((a⁻¹ : Oct) : M3 Int) = (a : M3 Int)⁻¹ := rfl
@[simp] theorem coe_one : ((1 : Oct) : M3 Int) = 1 := rfl
@[simp] theorem coe_smul (a : Oct) (v : V3 Int) : (a : M3 Int) • v = a • v := rfl
/-- for every lawful `==` on the two carriers (in particular the derived one of `M3 Int`) -/
theorem coe_beq [BEq Oct] [LawfulBEq Oct] [BEq (M3 Int)] [LawfulBEq (M3 Int)] (a b : Oct) :
    ((a : M3 Int) == (b : M3 Int)) = (a == b) := by
  by_cases h : a = b
  · subst h; simp
  · have h' : (a : M3 Int) ≠ b := fun e => h (Subtype.ext e)
    simp [h, h']

end Oct

/-- the derived `==` of the driver's vectors and matrices is lawful -/
instance {α : Type} [BEq α] [LawfulBEq α] : LawfulBEq (V3 α) where
  rfl := by
    intro ⟨x, y, z⟩
    show (x == x && (y == y && z == z)) = true
    simp
  eq_of_beq := by
    intro ⟨x, y, z⟩ ⟨x', y', z'⟩ h
    have h' : (x == x' && (y == y' && z == z')) = true := h
    simp only [Bool.and_eq_true, beq_iff_eq] at h'
    simp [h'.1, h'.2.1, h'.2.2]

instance {α : Type} [BEq α] [LawfulBEq α] : LawfulBEq (M3 α) where
  rfl := by
    intro ⟨x, y, z⟩
    show (x == x && (y == y && z == z)) = true
    simp
  eq_of_beq := by
    intro ⟨x, y, z⟩ ⟨x', y', z'⟩ h
    have h' : (x == x' && (y == y' && z == z')) = true := h
    simp only [Bool.and_eq_true, beq_iff_eq] at h'
    simp [h'.1, h'.2.1, h'.2.2]

/-- **the inclusion `Oct → M3 Int` is a homomorphism of all operations the models use** -/
theorem octHom : OpHom (V3 Int) Oct.toM3 where
  map_mul := Oct.coe_mul
  map_inv := Oct.coe_inv
  map_one := Oct.coe_one
  map_smul := Oct.coe_smul
  map_beq := Oct.coe_beq


/-! ### Level 2 (`getBH_level2` marshalling): evaluation at `Oct` = evaluation at `M3 Int` -/
namespace Level2

/-- driver-side scene data: entries / sensors over integer matrices -/
abbrev EntryZ := Entry (M3 Int) (V3 Int)
abbrev SensZ := Sens (M3 Int) (V3 Int)
abbrev SrcZ := Src (M3 Int) (V3 Int)

/-- inclusion of a source / entry / sensor over `Oct` into the driver's types -/
abbrev Src.toM3 (s : Src Oct (V3 Int)) : SrcZ := s.mapG Oct.toM3
abbrev Entry.toM3 (e : Entry Oct (V3 Int)) : EntryZ := e.mapG Oct.toM3
abbrev Sens.toM3 (k : Sens Oct (V3 Int)) : SensZ := k.mapG Oct.toM3

/-- all rotation matrices of the entry (of all its leaves, at any depth) are octahedral -/
def Entry.RotsOct (e : EntryZ) : Prop := ∀ s ∈ e.leaves, ∀ r ∈ s.ori, IsOct r
/-- all rotation matrices of the sensor's orientation path are octahedral -/
def Sens.RotsOct (k : SensZ) : Prop := ∀ r ∈ k.ori, IsOct r

theorem Entry.toM3_rotsOct (e : Entry Oct (V3 Int)) : e.toM3.RotsOct := by
  intro s hs r hr
  rw [Entry.mapG_leaves] at hs
  obtain ⟨s0, _, rfl⟩ := List.mem_map.mp hs
  obtain ⟨a, _, rfl⟩ := List.mem_map.mp hr
  exact a.isOct

theorem Sens.toM3_rotsOct (k : Sens Oct (V3 Int)) : k.toM3.RotsOct := by
  intro r hr
  obtain ⟨a, _, rfl⟩ := List.mem_map.mp hr
  exact a.isOct

theorem Entry.rotsOct_coll (cs : List EntryZ) :
    (Entry.coll cs : EntryZ).RotsOct ↔ ∀ c ∈ cs, c.RotsOct := by
  constructor
  · intro h c hc s hs r hr
    apply h s _ r hr
    simp only [Entry.leaves, List.mem_flatten, List.mem_map]
    exact ⟨c.leaves, ⟨c, hc, rfl⟩, hs⟩
  · intro h s hs r hr
    simp only [Entry.leaves, List.mem_flatten, List.mem_map] at hs
    obtain ⟨_, ⟨c, hc, rfl⟩, hs'⟩ := hs
    exact h c hc s hs' r hr

theorem Entry.toM3_coll (cs : List (Entry Oct (V3 Int))) :
    (Entry.coll cs).toM3 = .coll (cs.map Entry.toM3) := by
  simp only [Entry.toM3, Entry.mapG]

/-- **lifting**: driver-side entries whose rotation matrices are all octahedral are inclusions of entries
over the group `Oct` -/
theorem exists_oct_entries (es : List EntryZ) (h : ∀ e ∈ es, e.RotsOct) :
    ∃ es' : List (Entry Oct (V3 Int)), es'.map Entry.toM3 = es :=
  exists_map_eq_of_forall_mem _ es fun e he =>
    Entry.exists_mapG_eq Oct.toM3 e fun s hs r hr => Oct.exists_toM3_eq (h e he s hs r hr)

theorem exists_oct_sensors (ks : List SensZ) (h : ∀ k ∈ ks, k.RotsOct) :
    ∃ ks' : List (Sens Oct (V3 Int)), ks'.map Sens.toM3 = ks :=
  exists_map_eq_of_forall_mem _ ks fun k hk =>
    Sens.exists_mapG_eq Oct.toM3 k fun r hr => Oct.exists_toM3_eq (h k hk r hr)

theorem exists_oct_entry (e : EntryZ) (h : e.RotsOct) : ∃ e' : Entry Oct (V3 Int), e'.toM3 = e :=
  Entry.exists_mapG_eq Oct.toM3 e fun s hs r hr => Oct.exists_toM3_eq (h s hs r hr)

theorem exists_oct_sensor (k : SensZ) (h : k.RotsOct) : ∃ k' : Sens Oct (V3 Int), k'.toM3 = k :=
  Sens.exists_mapG_eq Oct.toM3 k fun r hr => Oct.exists_toM3_eq (h r hr)

/-! #### `model @ Oct` = `model @ M3 Int` on included inputs.  Left-hand sides are what the driver
evaluates (carrier `M3 Int`, instances of Model/Basic.lean); right-hand sides are the same polymorphic
definitions at the group `Oct`, to which every theorem over `[Group G] [DistribMulAction G V]` applies. -/

theorem level1_at_Oct_eq_at_M3Int (s : Src Oct (V3 Int)) (m : Nat) (x : V3 Int) :
    level1 s.toM3 m x = level1 s m x := level1_mapG octHom s m x

theorem poso_at_Oct_eq_at_M3Int (ks : List (Sens Oct (V3 Int))) (m : Nat) :
    poso (ks.map Sens.toM3) m = poso ks m := poso_mapG octHom ks m

theorem leafB_at_Oct_eq_at_M3Int (ks : List (Sens Oct (V3 Int))) (M : Nat) (s : Src Oct (V3 Int)) :
    leafB (ks.map Sens.toM3) M s.toM3 = leafB ks M s := leafB_mapG octHom ks M s

theorem sensorFrame_at_Oct_eq_at_M3Int (flipX : V3 Int → V3 Int) (k : Sens Oct (V3 Int)) (lo hi : Nat)
    (B : List (List (List (V3 Int)))) :
    sensorFrame flipX k.toM3 lo hi B = sensorFrame flipX k lo hi B := sensorFrame_mapG octHom flipX k lo hi B

theorem tensor_at_Oct_eq_at_M3Int (flipX : V3 Int → V3 Int) (es : List (Entry Oct (V3 Int)))
    (ks : List (Sens Oct (V3 Int))) :
    tensor flipX (es.map Entry.toM3) (ks.map Sens.toM3) = tensor flipX es ks := tensor_mapG octHom flipX es ks

theorem getBH_at_Oct_eq_at_M3Int (flipX : V3 Int → V3 Int) (vmin vmax : V3 Int → V3 Int → V3 Int)
    (es : List (Entry Oct (V3 Int))) (ks : List (Sens Oct (V3 Int))) (sumup squeeze : Bool) (agg : Agg) :
    getBH flipX vmin vmax (es.map Entry.toM3) (ks.map Sens.toM3) sumup squeeze agg =
      getBH flipX vmin vmax es ks sumup squeeze agg := getBH_mapG octHom flipX vmin vmax es ks sumup squeeze agg

theorem dataframe_at_Oct_eq_at_M3Int (flipX : V3 Int → V3 Int) (vmin vmax : V3 Int → V3 Int → V3 Int)
    (es : List (Entry Oct (V3 Int))) (ks : List (Sens Oct (V3 Int))) (sumup : Bool) (agg : Agg) :
    dataframe flipX vmin vmax (es.map Entry.toM3) (ks.map Sens.toM3) sumup agg =
      dataframe flipX vmin vmax es ks sumup agg := dataframe_mapG octHom flipX vmin vmax es ks sumup agg

/-- the specification tensor of Lemmas/Level2Compose at `Oct` is the bare-class specification tensor at
`M3 Int` on the included inputs -/
theorem specTensor_at_Oct_eq_at_M3Int (flipX : V3 Int → V3 Int) (es : List (Entry Oct (V3 Int)))
    (ks : List (Sens Oct (V3 Int))) :
    specTensorOp flipX (es.map Entry.toM3) (ks.map Sens.toM3) = specTensor flipX es ks := by
  rw [specTensor_eq_op]; exact specTensorOp_mapG octHom flipX es ks

theorem specValue_at_Oct_eq_at_M3Int (flipX : V3 Int → V3 Int) (e : Entry Oct (V3 Int))
    (k : Sens Oct (V3 Int)) (m : Nat) (x : V3 Int) :
    specValueOp flipX e.toM3 k.toM3 m x = specValue flipX e k m x := by
  rw [specValue_eq_op]; exact specValueOp_mapG octHom flipX e k m x

theorem pixPos_at_Oct_eq_at_M3Int (k : Sens Oct (V3 Int)) (m : Nat) :
    pixPosOp k.toM3 m = pixPos k m := by
  rw [pixPos_eq_op]; exact pixPosOp_mapG octHom k m

theorem Entry.moved_toM3 (Q : Oct) (t : V3 Int) (e : Entry Oct (V3 Int)) :
    (e.moved Q t).toM3 = e.toM3.movedOp Q.toM3 t := by
  rw [Entry.moved_eq_op]; exact Entry.movedOp_mapG octHom Q t e

theorem Sens.moved_toM3 (Q : Oct) (t : V3 Int) (k : Sens Oct (V3 Int)) :
    (k.moved Q t).toM3 = k.toM3.movedOp Q.toM3 t := by
  rw [Sens.moved_eq_op]; exact Sens.movedOp_mapG octHom Q t k

theorem Src.moved_toM3 (Q : Oct) (t : V3 Int) (s : Src Oct (V3 Int)) :
    (s.moved Q t).toM3 = s.toM3.movedOp Q.toM3 t := by
  rw [Src.moved_eq_op]; exact Src.movedOp_mapG octHom Q t s

theorem obsSensor_toM3 (X : List (V3 Int)) : (obsSensor (G := Oct) X).toM3 = obsSensorOp X := by
  rw [obsSensor_eq_op]; exact obsSensorOp_mapG octHom X

/-! #### the headline theorems of the level-2 model, transferred to the driver's carrier -/

/-- `tensor_eq_spec` (C06 `level2_refines`) at `M3 Int` for octahedral rotation matrices -/
theorem tensor_eq_spec_on_driver_carrier (flipX : V3 Int → V3 Int) (entries : List EntryZ)
    (sensors : List SensZ) (heo : ∀ e ∈ entries, e.RotsOct) (hso : ∀ k ∈ sensors, k.RotsOct)
    (he : ∀ e ∈ entries, e.leaves ≠ []) (hs : ∀ k ∈ sensors, k.WF) :
    tensor flipX entries sensors = specTensorOp flipX entries sensors := by
  obtain ⟨es, rfl⟩ := exists_oct_entries entries heo
  obtain ⟨ks, rfl⟩ := exists_oct_sensors sensors hso
  rw [tensor_at_Oct_eq_at_M3Int, specTensor_at_Oct_eq_at_M3Int]
  apply tensor_eq_spec
  · intro e h
    exact (Entry.mapG_leaves_ne_nil Oct.toM3 e).mp (he _ (List.mem_map_of_mem h))
  · intro k h
    exact (Sens.mapG_WF Oct.toM3 k).mp (hs _ (List.mem_map_of_mem h))

/-! #### C05 for ARBITRARY integer matrices: only additivity of `M3.apply` is used -/

theorem sensTOp_add_M3Int (flipX : V3 Int → V3 Int) (hf : ∀ a b, flipX (a + b) = flipX a + flipX b)
    (k : SensZ) (m : Nat) (a b : V3 Int) :
    sensTOp flipX k m (a + b) = sensTOp flipX k m a + sensTOp flipX k m b := by
  unfold sensTOp
  cases clampGet k.ori m <;> by_cases hl : k.left = true <;> simp [hl, hf, M3.smul_add']

theorem sensTOp_zero_M3Int (flipX : V3 Int → V3 Int) (h0 : flipX 0 = 0) (k : SensZ) (m : Nat) :
    sensTOp flipX k m 0 = 0 := by
  unfold sensTOp
  cases clampGet k.ori m <;> by_cases hl : k.left = true <;> simp [hl, h0, M3.smul_zero']

theorem sensTOp_sum_M3Int (flipX : V3 Int → V3 Int) (hf : ∀ a b, flipX (a + b) = flipX a + flipX b)
    (h0 : flipX 0 = 0) (k : SensZ) (m : Nat) (l : List (V3 Int)) :
    sensTOp flipX k m l.sum = (l.map (sensTOp flipX k m)).sum := by
  induction l with
  | nil => simpa using sensTOp_zero_M3Int flipX h0 k m
  | cons a l ih => simp only [List.sum_cons, List.map_cons, sensTOp_add_M3Int flipX hf, ih]

/-- `specValue_coll` (C05) at `M3 Int` for arbitrary integer matrices (no orthogonality, no determinant condition) -/
theorem specValueOp_coll_M3Int (flipX : V3 Int → V3 Int) (hf : ∀ a b, flipX (a + b) = flipX a + flipX b)
    (h0 : flipX 0 = 0) (cs : List EntryZ) (k : SensZ) (m : Nat) (x : V3 Int) :
    specValueOp flipX (.coll cs) k m x = (cs.map fun c => specValueOp flipX c k m x).sum := by
  unfold specValueOp
  simp only [Entry.leaves]
  rw [sum_flatten_map, sensTOp_sum_M3Int flipX hf h0, List.map_map, List.map_map]
  rfl

/-! #### driver-style data for the non-vacuity examples of Props/C03–C06 -/
namespace DriverExample
/-- 90° about z / about x, as the `level2` / `path` streams send them -/
def rotZ90 : M3 Int := ⟨⟨0, -1, 0⟩, ⟨1, 0, 0⟩, ⟨0, 0, 1⟩⟩
def rotX90 : M3 Int := ⟨⟨1, 0, 0⟩, ⟨0, 0, -1⟩, ⟨0, 1, 0⟩⟩
/-- a nested entry: the first leaf has a 2-step path and is rotated by 90° about z at its second entry -/
def drvEntries : List EntryZ :=
  [.coll [.leaf ⟨[⟨3, 0, 0⟩, ⟨4, 0, 0⟩], [1, rotZ90], fun x => x + ⟨1, 0, 0⟩⟩,
          .coll [.leaf ⟨[⟨0, 0, 2⟩], [rotX90], fun x => x + x⟩]]]
/-- a left-handed two-pixel sensor with a 2-step path, rotated by 90° about z at its first step -/
def drvSensors : List SensZ :=
  [⟨[⟨7, 0, 0⟩, ⟨8, 1, 0⟩], [rotZ90, 1], [⟨0, 0, 0⟩, ⟨1, 0, 0⟩], [2], true⟩]
def drvFlip (a : V3 Int) : V3 Int := ⟨-a.x, a.y, a.z⟩

theorem isOct_rotZ90 : IsOct rotZ90 := by decide
theorem isOct_rotX90 : IsOct rotX90 := by decide
-- a scaling and a reflection are refused
example : ¬ IsOct ⟨⟨2, 0, 0⟩, ⟨0, 1, 0⟩, ⟨0, 0, 1⟩⟩ ∧ ¬ IsOct ⟨⟨-1, 0, 0⟩, ⟨0, 1, 0⟩, ⟨0, 0, 1⟩⟩ := by decide

theorem drvEntries_rotsOct : ∀ e ∈ drvEntries, e.RotsOct := by
  simp only [drvEntries, forall_eq, Entry.RotsOct, Entry.leaves, List.map_cons,
    List.map_nil, List.flatten_cons, List.flatten_nil, List.append_nil, List.singleton_append,
    List.mem_cons, List.not_mem_nil, or_false, forall_eq_or_imp]
  decide
theorem drvSensors_rotsOct : ∀ k ∈ drvSensors, k.RotsOct := by
  simp only [drvSensors, forall_eq, Sens.RotsOct, List.mem_cons, List.not_mem_nil, or_false, forall_eq_or_imp]
  decide
theorem drvEntries_leaves : ∀ e ∈ drvEntries, e.leaves ≠ [] := by simp [drvEntries, Entry.leaves]
theorem drvSensors_WF : ∀ k ∈ drvSensors, k.WF := by simp [drvSensors, Sens.WF, pixNum]
end DriverExample

end Level2


/-! ### path / tree model (`move`, `rotate`, setters, relative poses): evaluation at `Oct` = evaluation at `M3 Int` -/
section pathTree
open Gen Spec

/-- driver-side objects: position path over `V3 Int`, orientation path over `M3 Int` -/
abbrev ObjZ := Obj (M3 Int) (V3 Int)
abbrev Obj.toM3 (o : Obj Oct (V3 Int)) : ObjZ := o.mapG Oct.toM3
abbrev PathIn.toM3 (p : PathIn Oct) : PathIn (M3 Int) := p.map Oct.toM3

/-- every matrix of the orientation path is octahedral -/
def Obj.RotsOct (o : ObjZ) : Prop := ∀ r ∈ o.ori, IsOct r
/-- every matrix of a scalar / vector rotation input is octahedral -/
def PathIn.RotsOct (p : PathIn (M3 Int)) : Prop := ∀ r ∈ p.toList, IsOct r

theorem exists_oct_obj (o : ObjZ) (h : o.RotsOct) : ∃ o' : Obj Oct (V3 Int), o'.toM3 = o :=
  Obj.exists_mapG_eq Oct.toM3 o fun r hr => Oct.exists_toM3_eq (h r hr)

theorem exists_oct_pathIn (p : PathIn (M3 Int)) (h : p.RotsOct) : ∃ p' : PathIn Oct, p'.toM3 = p :=
  PathIn.exists_map_eq Oct.toM3 p fun r hr => Oct.exists_toM3_eq (h r hr)

theorem Obj.toM3_rotsOct (o : Obj Oct (V3 Int)) : o.toM3.RotsOct := by
  intro r hr
  obtain ⟨a, _, rfl⟩ := List.mem_map.mp hr
  exact a.isOct

theorem applyMove_at_Oct_eq_at_M3Int (inp : PathIn (V3 Int)) (start : Option Int) (o : Obj Oct (V3 Int)) :
    applyMove inp start o.toM3 = (applyMove inp start o).toM3 := applyMove_mapG Oct.toM3 inp start o

theorem applyRotation_at_Oct_eq_at_M3Int (rot : PathIn Oct) (anchor : Option (PathIn (V3 Int)))
    (start : Option Int) (pp : Option (List (V3 Int))) (o : Obj Oct (V3 Int)) :
    applyRotation rot.toM3 anchor start pp o.toM3 = (applyRotation rot anchor start pp o).toM3 :=
  applyRotation_mapG octHom rot anchor start pp o

/-- relative poses: the rotation part of the `M3 Int` evaluation is the inclusion of the `Oct` one, the
vector part is equal -/
theorem relAt_at_Oct_eq_at_M3Int (c d : Obj Oct (V3 Int)) (i : Nat) :
    relAt c.toM3 d.toM3 i = (relAt c d i).map (Prod.map id Oct.toM3) := relAt_mapG octHom c d i

/-- `rel_applyRotation` (Lemmas/RelPose, the core of C10(b)) on the driver's carrier -/
theorem rel_applyRotation_on_driver_carrier (rot : PathIn (M3 Int)) (anchor : Option (PathIn (V3 Int)))
    (start : Option Int) (c d : ObjZ) (N : Nat) (hN : 1 ≤ N)
    (hc : c.pos.length = N ∧ c.ori.length = N) (hd : d.pos.length = N ∧ d.ori.length = N)
    (hr : rot.WF) (ha : ∀ a, anchor = some a → a.WF)
    (hro : rot.RotsOct) (hco : c.RotsOct) (hdo : d.RotsOct) (i : Nat) :
    relAt (applyRotation rot anchor start none c) (applyRotation rot anchor start (some c.pos) d) i =
      if i < (rotWindow rot anchor N start).newLen then
        relAt c d (min (i - (rotWindow rot anchor N start).b) (N - 1))
      else none := by
  obtain ⟨rot', rfl⟩ := exists_oct_pathIn rot hro
  obtain ⟨c', rfl⟩ := exists_oct_obj c hco
  obtain ⟨d', rfl⟩ := exists_oct_obj d hdo
  have hc' : c'.pos.length = N ∧ c'.ori.length = N := by simpa [Obj.mapG] using hc
  have hd' : d'.pos.length = N ∧ d'.ori.length = N := by simpa [Obj.mapG] using hd
  have h := rel_applyRotation rot' anchor start c' d' N hN hc' hd' ((PathIn.WF_map _ _).mp hr) ha i
  have hw : rotWindow (rot'.map Oct.toM3) anchor N start = rotWindow rot' anchor N start := by
    simp only [rotWindow, PathIn.isScalar_map, PathIn.len0_map]
  have hpos : (Obj.mapG Oct.toM3 c').pos = c'.pos := rfl
  rw [hw, hpos, applyRotation_at_Oct_eq_at_M3Int, applyRotation_at_Oct_eq_at_M3Int,
    relAt_at_Oct_eq_at_M3Int, relAt_at_Oct_eq_at_M3Int, h]
  split <;> rfl

/-- the same for `move` (`rel_applyMove`, the core of C10(a)) -/
theorem rel_applyMove_on_driver_carrier (inp : PathIn (V3 Int)) (start : Option Int) (c d : ObjZ)
    (N : Nat) (hN : 1 ≤ N) (hc : c.pos.length = N ∧ c.ori.length = N)
    (hd : d.pos.length = N ∧ d.ori.length = N) (hco : c.RotsOct) (hdo : d.RotsOct) (i : Nat) :
    relAt (applyMove inp start c) (applyMove inp start d) i =
      if i < (window inp.isScalar N inp.lenip start).newLen then
        relAt c d (min (i - (window inp.isScalar N inp.lenip start).b) (N - 1))
      else none := by
  obtain ⟨c', rfl⟩ := exists_oct_obj c hco
  obtain ⟨d', rfl⟩ := exists_oct_obj d hdo
  have hc' : c'.pos.length = N ∧ c'.ori.length = N := by simpa [Obj.mapG] using hc
  have hd' : d'.pos.length = N ∧ d'.ori.length = N := by simpa [Obj.mapG] using hd
  have h := rel_applyMove inp start c' d' N hN hc' hd' i
  rw [applyMove_at_Oct_eq_at_M3Int, applyMove_at_Oct_eq_at_M3Int,
    relAt_at_Oct_eq_at_M3Int, relAt_at_Oct_eq_at_M3Int, h]
  split <;> rfl

/-! #### whole histories: what the `path` driver family runs -/

abbrev NodeZ := Node (M3 Int) (V3 Int)
abbrev OpZ := Op (M3 Int) (V3 Int)
abbrev Node.toM3 (t : Node Oct (V3 Int)) : NodeZ := t.mapG Oct.toM3
abbrev Op.toM3 (op : Op Oct (V3 Int)) : OpZ := op.mapG Oct.toM3

/-- every orientation matrix of every object of the tree is octahedral -/
def Node.RotsOct (t : NodeZ) : Prop := t.All Obj.RotsOct
/-- every rotation matrix the operation mentions (`rotate` input, `orientation=` input) is octahedral -/
def Op.RotsOct (op : OpZ) : Prop := ∀ r ∈ op.rots, IsOct r

theorem exists_oct_node (t : NodeZ) (h : t.RotsOct) : ∃ t' : Node Oct (V3 Int), t'.toM3 = t := by
  apply Node.exists_mapG_eq Oct.toM3 t
  have : ∀ n : NodeZ, n.All Obj.RotsOct → n.All (fun o => ∀ r ∈ o.ori, ∃ a : Oct, a.toM3 = r) := by
    intro n
    induction n using Node.induct with
    | h o cs ih =>
      intro hn
      obtain ⟨ho, hcs⟩ := Node.all_mk.mp hn
      exact .mk (fun r hr => Oct.exists_toM3_eq (ho r hr)) (fun c hc => ih c hc (hcs c hc))
  exact this t h

theorem exists_oct_ops (ops : List OpZ) (h : ∀ op ∈ ops, op.RotsOct) :
    ∃ ops' : List (Op Oct (V3 Int)), ops'.map Op.toM3 = ops :=
  exists_map_eq_of_forall_mem _ ops fun op hop =>
    Op.exists_mapG_eq Oct.toM3 op fun r hr => Oct.exists_toM3_eq (h op hop r hr)

theorem Node.toM3_rotsOct (t : Node Oct (V3 Int)) : t.toM3.RotsOct :=
  Node.mapG_all Oct.toM3 IsOct Oct.isOct t

/-- one user-level operation (`move`, `rotate`, `position=`, `orientation=`, `reset_path`, a rejected call) on any
node of any tree: the driver's evaluation is the inclusion of the evaluation at the group `Oct` -/
theorem Node.step_at_Oct_eq_at_M3Int (t : Node Oct (V3 Int)) (op : Op Oct (V3 Int)) :
    t.toM3.step op.toM3 = (t.step op).toM3 := Node.step_mapG octHom t op

/-- … and so is every finite history -/
theorem history_at_Oct_eq_at_M3Int (ops : List (Op Oct (V3 Int))) (t : Node Oct (V3 Int)) :
    (ops.map Op.toM3).foldl Node.step t.toM3 = (ops.foldl Node.step t).toM3 :=
  Node.foldl_step_mapG octHom ops t

/-- **the driver never leaves the group**: a history of operations with octahedral rotation inputs, run by the
driver (carrier `M3 Int`, `⁻¹` = transpose) on a tree whose orientation matrices are octahedral, is the inclusion
of the same history run at the group `Oct`; in particular every orientation matrix of the result is octahedral
again.  (Every line of the `path` stream is of this form: the tree starts with unit orientations.) -/
theorem history_on_driver_carrier (t : NodeZ) (ops : List OpZ) (ht : t.RotsOct) (hops : ∀ op ∈ ops, op.RotsOct) :
    (∃ (t' : Node Oct (V3 Int)) (ops' : List (Op Oct (V3 Int))), t'.toM3 = t ∧ ops'.map Op.toM3 = ops ∧
      ops.foldl Node.step t = (ops'.foldl Node.step t').toM3) ∧
    (ops.foldl Node.step t).RotsOct := by
  obtain ⟨t', rfl⟩ := exists_oct_node t ht
  obtain ⟨ops', rfl⟩ := exists_oct_ops ops hops
  refine ⟨⟨t', ops', rfl, rfl, history_at_Oct_eq_at_M3Int ops' t'⟩, ?_⟩
  rw [history_at_Oct_eq_at_M3Int]
  exact Node.toM3_rotsOct _

end pathTree

end MagpyVerif
