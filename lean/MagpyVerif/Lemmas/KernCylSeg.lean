/-
Lemmas/KernCylSeg.lean — theorems about the CylinderSegment port
(Model/CylSeg.lean = translated case functions, `determine_cases`, dispatch table;
 Model/CylSegWrap.lean = boundary sum and the two BHJM wrappers).

The real carrier `realNumX μ S`: `Real.tan`, `Real.arctan`, `Real.artanh`, sign, round-half-even,
ceiling, floored remainder; the three special functions `ellipkinc`, `ellipeinc`, `el3angle` are the
fields of an arbitrary record `S : SegSpecial` — nothing below looks inside them.

  (a) `determineCases_range`, `determineCases_unhandled_iff`, `caseDispatch_eq_none_iff`
        every id `determine_cases` returns is one of the 26 handled ids or one of 111, 114, 121, 131 —
        the four ids the source itself lists as "nan-cases"; exactly those fall through the dispatch
        (any carrier, any inputs: finite case analysis over the eight mask bits)
  (b) `bhjmCylSeg_consistent`        B = μ₀H + J and J = μ₀M for `BHJM_cylinder_segment`, every observer
  (c) `segH_smul`, `bhjmCylSeg_smul` the fields are proportional to the polarization magnitude (c > 0,
        direction fixed)
  (d) `internal_full_ring`, `internal_segment`   the 360° switch of `BHJM_cylinder_segment_internal`
  (e) `arctan_k_tan_2_add_two_pi`    arctan_k_tan_2 k (φ + 2π) = arctan_k_tan_2 k φ + π
-/
import Mathlib.Analysis.SpecialFunctions.Trigonometric.Arctan
import Mathlib.Analysis.SpecialFunctions.Artanh
import Mathlib.Algebra.Order.Round
import MagpyVerif.Lemmas.KernReal
import MagpyVerif.Lemmas.KernAlgebra
import MagpyVerif.Lemmas.KernCylinder
import MagpyVerif.Model.CylSegWrap

namespace MagpyVerif.Kern.CylSeg
open MagpyVerif MagpyVerif.Kern

/-! ### (a) the case ids: any carrier -/

section generic
variable {α : Type} [NumX α]
open Num NumX

/-- the ids the dispatch table does not handle (the source: "excluding the nan-cases 111, 114, 121, 131") -/
def nanIds : List Nat := [111, 114, 121, 131]

/-- `determine_cases` as three digits chosen by the eight `close` tests -/
theorem determine_cases_digits (r phi z r1 phi1 z1 : α) :
    determine_cases r phi z r1 phi1 z1 =
      (if close z z1 then 100 else 200) +
      (if close (pymod (abs (phi - phi1)) (n 2 * pi)) (n 0) || close (pymod (abs (phi - phi1)) (n 2 * pi)) (n 2 * pi) then 10
        else if close (pymod (abs (phi - phi1)) pi) (n 0) || close (pymod (abs (phi - phi1)) pi) pi then 20 else 30) +
      (if close r (n 0) && close r1 (n 0) then 1 else if close r (n 0) then 2 else if close r1 (n 0) then 3
        else if close r r1 then 4 else 5) := by
  unfold determine_cases
  dsimp only

/-- every id `determine_cases` can return — for all inputs, whatever the masks — is one of the 26 ids of
the dispatch table or one of the four "nan-cases" -/
theorem determineCases_range (r phi z r1 phi1 z1 : α) :
    determine_cases r phi z r1 phi1 z1 ∈ caseIds ∨ determine_cases r phi z r1 phi1 z1 ∈ nanIds := by
  rw [determine_cases_digits]
  generalize close z z1 = b1
  generalize close (pymod (abs (phi - phi1)) (n 2 * pi)) (n 0) = b2
  generalize close (pymod (abs (phi - phi1)) (n 2 * pi)) (n 2 * pi) = b3
  generalize close (pymod (abs (phi - phi1)) pi) (n 0) = b4
  generalize close (pymod (abs (phi - phi1)) pi) pi = b5
  generalize close r (n 0) = b6
  generalize close r1 (n 0) = b7
  generalize close r r1 = b8
  revert b1 b2 b3 b4 b5 b6 b7 b8
  decide

/-- which inputs get an unhandled id: the observer is at the height of the boundary plane (`z ≈ z_k`) and
either on the axis of a segment without bore (`r ≈ 0`, `r_i ≈ 0`: ids 111, 121, 131) or on the boundary
radius in the boundary half-plane (`phi ≈ phi_j` mod 2π, `r ≈ r_i > 0`: id 114) -/
theorem determineCases_unhandled_iff (r phi z r1 phi1 z1 : α) :
    determine_cases r phi z r1 phi1 z1 ∈ nanIds ↔
      (close z z1 &&
        ((close r (n 0) && close r1 (n 0)) ||
         ((close (pymod (abs (phi - phi1)) (n 2 * pi)) (n 0) || close (pymod (abs (phi - phi1)) (n 2 * pi)) (n 2 * pi)) &&
           close r r1 && !close r1 (n 0) && !close r (n 0)))) = true := by
  rw [determine_cases_digits]
  generalize close z z1 = b1
  generalize close (pymod (abs (phi - phi1)) (n 2 * pi)) (n 0) = b2
  generalize close (pymod (abs (phi - phi1)) (n 2 * pi)) (n 2 * pi) = b3
  generalize close (pymod (abs (phi - phi1)) pi) (n 0) = b4
  generalize close (pymod (abs (phi - phi1)) pi) pi = b5
  generalize close r (n 0) = b6
  generalize close r1 (n 0) = b7
  generalize close r r1 = b8
  revert b1 b2 b3 b4 b5 b6 b7 b8
  decide

/-- the dispatch returns a block for exactly the ids of its table -/
theorem caseDispatch_isSome_of_mem (cid : Nat) (a : AllArgs α) (h : cid ∈ caseIds) :
    (caseDispatch cid a).isSome = true := by
  simp only [caseIds, List.mem_cons, List.not_mem_nil, or_false] at h
  rcases h with h | h | h | h | h | h | h | h | h | h | h | h | h | h | h | h | h | h | h | h | h | h | h | h | h | h <;>
    (subst h; rfl)

theorem caseDispatch_eq_none_of_nanId (cid : Nat) (a : AllArgs α) (h : cid ∈ nanIds) :
    caseDispatch cid a = none := by
  simp only [nanIds, List.mem_cons, List.not_mem_nil, or_false] at h
  rcases h with h | h | h | h <;> (subst h; rfl)

theorem caseIds_disjoint_nanIds (cid : Nat) (h : cid ∈ caseIds) (h' : cid ∈ nanIds) : False := by
  simp only [caseIds, nanIds, List.mem_cons, List.not_mem_nil, or_false] at h h'
  omega

/-- the dispatch falls through (block left at NaN in the code) exactly for the four nan-ids -/
theorem caseDispatch_eq_none_iff (r phi z r1 phi1 z1 : α) (a : AllArgs α) :
    caseDispatch (determine_cases r phi z r1 phi1 z1) a = none ↔ determine_cases r phi z r1 phi1 z1 ∈ nanIds := by
  constructor
  · intro h
    rcases determineCases_range r phi z r1 phi1 z1 with hm | hm
    · have := caseDispatch_isSome_of_mem _ a hm
      rw [h] at this
      exact absurd this (by simp)
    · exact hm
  · exact caseDispatch_eq_none_of_nanId _ a

end generic

/-! ### the real carrier -/

/-- the three special functions as opaque parameters -/
structure SegSpecial where
  ellipkinc : ℝ → ℝ → ℝ
  ellipeinc : ℝ → ℝ → ℝ
  el3angle : ℝ → ℝ → ℝ → ℝ

/-- `np.round` on ℝ: nearest integer, ties to the even one -/
noncomputable def rintR (x : ℝ) : ℝ :=
  if Int.fract x = 1 / 2 ∧ Even ⌊x⌋ then (⌊x⌋ : ℝ) else (round x : ℝ)

/-- `np.sign` on ℝ -/
noncomputable def sgnR (x : ℝ) : ℝ := if 0 < x then 1 else if x < 0 then -1 else 0

/-- exact real arithmetic; `μ` is the value of mu_0, `S` the special functions -/
@[reducible] noncomputable def realNumX (μ : ℝ) (S : SegSpecial) : NumX ℝ where
  toNum := realNum μ
  tan := Real.tan
  atan := Real.arctan
  atanh := Real.artanh
  sgn := sgnR
  round := rintR
  ceil := fun x => (⌈x⌉ : ℝ)
  pymod := fun a b => a - b * (⌊a / b⌋ : ℝ)
  ellipkinc := S.ellipkinc
  ellipeinc := S.ellipeinc
  el3angle := S.el3angle

/-! ### (b) B = μ₀H + J, J = μ₀M -/

theorem wrapSegment_consistent' (μ : ℝ) (hμ : μ ≠ 0) (inside notOnSurf : Bool) (pol core : V3 ℝ) :
    letI := realNum μ
    wrapSegment .B inside notOnSurf pol core =
      vs μ (wrapSegment .H inside notOnSurf pol core) + wrapSegment .J inside notOnSurf pol core ∧
    wrapSegment .J inside notOnSurf pol core = vs μ (wrapSegment .M inside notOnSurf pol core) := by
  constructor <;> cases inside <;> cases notOnSurf <;>
    (apply V3.ext' <;> simp [wrapSegment, vs, vd, zero3, n] <;> (try field_simp))

/-- the J and M outputs do not depend on the core value -/
theorem wrapSegment_JM_core (μ : ℝ) (inside notOnSurf : Bool) (pol c1 c2 : V3 ℝ) :
    letI := realNum μ
    wrapSegment .J inside notOnSurf pol c1 = wrapSegment .J inside notOnSurf pol c2 ∧
    wrapSegment .M inside notOnSurf pol c1 = wrapSegment .M inside notOnSurf pol c2 := ⟨rfl, rfl⟩

/-- **C02 for the ported `BHJM_cylinder_segment`**: J and M are always returned and J = μ₀M; B is returned
iff H is (`none` = a boundary of the observer has one of the four unhandled case ids: NaN row), and then
B = μ₀H + J — at every observer: inside, outside, on the surface (where B = H = J = M = 0) -/
theorem bhjmCylSeg_consistent (μ : ℝ) (hμ : μ ≠ 0) (S : SegSpecial) (x : V3 ℝ) (r1 r2 h p1 p2 : ℝ) (pol : V3 ℝ) :
    letI := realNumX μ S
    ∃ j m, bhjmCylSeg .J x r1 r2 h p1 p2 pol = some j ∧ bhjmCylSeg .M x r1 r2 h p1 p2 pol = some m ∧ j = vs μ m ∧
      (bhjmCylSeg .B x r1 r2 h p1 p2 pol).isSome = (bhjmCylSeg .H x r1 r2 h p1 p2 pol).isSome ∧
      ∀ b hh, bhjmCylSeg .B x r1 r2 h p1 p2 pol = some b → bhjmCylSeg .H x r1 r2 h p1 p2 pol = some hh →
        b = vs μ hh + j := by
  let _ := realNumX μ S
  unfold bhjmCylSeg
  dsimp only
  generalize segMasks (α := ℝ) _ _ _ _ _ _ _ _ _ = m
  obtain ⟨ins, nos⟩ := m
  refine ⟨_, _, rfl, rfl, (wrapSegment_consistent' μ hμ ins nos pol zero3).2, ?_, ?_⟩
  · cases nos <;> simp
  · intro b hh hb hH
    cases nos
    · simp only [Bool.false_eq_true, if_false, Option.some.injEq] at hb hH
      rw [← hb, ← hH]
      exact (wrapSegment_consistent' μ hμ ins false pol zero3).1
    · simp only [if_true] at hb hH
      cases hc : segCoreH (segNormalise x r1 r2 h p1 p2) pol with
      | none => rw [hc] at hb; simp at hb
      | some c =>
        rw [hc] at hb hH
        simp only [Option.map_some, Option.some.injEq] at hb hH
        rw [← hb, ← hH]
        exact (wrapSegment_consistent' μ hμ ins true pol c).1

/-! ### (d) the 360° switch -/

/-- section angles spanning 360° or more: the internal wrapper returns Cylinder(2·r2, h) minus, for a
hollow ring (`r1 ≠ 0`), Cylinder(2·r1, h) — the segment formulas are not used at all -/
theorem internal_full_ring (μ : ℝ) (S : SegSpecial) (fuel : Nat) (f : Field) (x : V3 ℝ) (r1 r2 h p1 p2 : ℝ)
    (pol : V3 ℝ) (hfull : 360 ≤ p2 - p1) :
    @bhjmCylSegInternal ℝ (realNumX μ S) fuel f x r1 r2 h p1 p2 pol =
      (@bhjmCylinder ℝ (realNum μ) fuel f (2 * r2, h) pol x).bind fun outer =>
        if r1 ≠ 0 then (@bhjmCylinder ℝ (realNum μ) fuel f (2 * r1, h) pol x).map fun inner => outer - inner
        else some outer := by
  have hlt : ¬ (p2 - p1 < 360) := not_lt.mpr hfull
  unfold bhjmCylSegInternal
  simp only [lt_real, n, ofNat_real, Nat.cast_ofNat, hlt, decide_false, Bool.false_eq_true, if_false, eq0_real]
  generalize @bhjmCylinder ℝ (realNum μ) fuel f (2 * r2, h) pol x = o
  cases o with
  | none => rfl
  | some o =>
    by_cases h0 : r1 = 0 <;> simp [h0]

/-- section angles spanning less than 360°: the internal wrapper is `BHJM_cylinder_segment` -/
theorem internal_segment (μ : ℝ) (S : SegSpecial) (fuel : Nat) (f : Field) (x : V3 ℝ) (r1 r2 h p1 p2 : ℝ)
    (pol : V3 ℝ) (hseg : p2 - p1 < 360) :
    letI := realNumX μ S
    bhjmCylSegInternal fuel f x r1 r2 h p1 p2 pol = bhjmCylSeg f x r1 r2 h p1 p2 pol := by
  let _ := realNumX μ S
  unfold bhjmCylSegInternal
  simp only [lt_real, n, ofNat_real, Nat.cast_ofNat, hseg, decide_true, if_true]

end MagpyVerif.Kern.CylSeg

namespace MagpyVerif.Kern.CylSeg
open MagpyVerif MagpyVerif.Kern

/-! ### witnesses for (a): the four nan-ids are reachable -/

theorem close_self_real (μ : ℝ) (S : SegSpecial) (a : ℝ) : @close ℝ (realNumX μ S) a a = true := by
  simp [close, isclose]

/-- on the axis of a segment without bore, at the height of a base and in a boundary half-plane the case id
is 111, which the dispatch does not handle: the block stays NaN in the code -/
theorem determine_cases_111 (μ : ℝ) (S : SegSpecial) (phi z : ℝ) :
    @determine_cases ℝ (realNumX μ S) 0 phi z 0 phi z = 111 := by
  rw [@determine_cases_digits ℝ (realNumX μ S)]
  have h0 : @close ℝ (realNumX μ S) (@Kern.n ℝ (realNum μ) 0) (@Kern.n ℝ (realNum μ) 0) = true := close_self_real μ S _
  have hz : @close ℝ (realNumX μ S) z z = true := close_self_real μ S z
  have hm : @NumX.pymod ℝ (realNumX μ S) (@Num.abs ℝ (realNum μ) (phi - phi)) (@Kern.n ℝ (realNum μ) 2 * @Num.pi ℝ (realNum μ)) =
      @Kern.n ℝ (realNum μ) 0 := by
    simp only [n, ofNat_real, abs_real, pi_real, sub_self, abs_zero, Nat.cast_zero]
    show (0 : ℝ) - 2 * Real.pi * (⌊(0 : ℝ) / (2 * Real.pi)⌋ : ℝ) = 0
    simp
  simp only [hm]
  have e0 : (0 : ℝ) = @Kern.n ℝ (realNum μ) 0 := by simp [n]
  rw [e0]
  simp only [h0, hz, Bool.true_or, Bool.and_self, if_true]

end MagpyVerif.Kern.CylSeg

namespace MagpyVerif.Kern.CylSeg
open MagpyVerif MagpyVerif.Kern

/-! ### (c) proportionality to the polarization magnitude -/

/-- `magnet_cylinder_segment_Hfield` is proportional to the magnetization amplitude (any real factor):
the amplitude enters only through the final `result.T * magnetizations[:, 0] * 1e-7 / MU0` -/
theorem segH_smul (μ : ℝ) (S : SegSpecial) (c r phi z r1 r2 p1 p2 z1 z2 mag phiM thM : ℝ) :
    @segH ℝ (realNumX μ S) r phi z r1 r2 p1 p2 z1 z2 (c * mag) phiM thM =
      (@segH ℝ (realNumX μ S) r phi z r1 r2 p1 p2 z1 z2 mag phiM thM).map (@vs ℝ (realNum μ) c) := by
  unfold segH
  dsimp only
  split
  · rw [Option.map_map]
    congr 1
    funext s
    apply V3.ext' <;> simp [vs, n] <;> ring
  · rfl

theorem sqrt3_scale (l : ℝ) (hl : 0 < l) (a b d : ℝ) :
    Real.sqrt (l * a * (l * a) + l * b * (l * b) + l * d * (l * d)) = l * Real.sqrt (a * a + b * b + d * d) := by
  have : l * a * (l * a) + l * b * (l * b) + l * d * (l * d) = l ^ 2 * (a * a + b * b + d * d) := by ring
  rw [this, Real.sqrt_mul (by positivity), Real.sqrt_sq hl.le]

theorem wrapSegment_smul (μ c : ℝ) (f : Field) (i ns : Bool) (pol h : V3 ℝ) :
    letI := realNum μ
    wrapSegment f i ns (vs c pol) (vs c h) = vs c (wrapSegment f i ns pol h) := by
  cases f <;> cases i <;> cases ns <;>
    (apply V3.ext' <;> simp [wrapSegment, vs, vd, zero3, n] <;> ring)

theorem vs_zero3_seg (μ c : ℝ) : letI := realNum μ
    vs c (zero3 : V3 ℝ) = zero3 := by
  apply V3.ext' <;> simp [vs, zero3, n]

/-- the Cartesian core H of the not-on-surface branch is proportional to the polarization for a positive factor:
the spherical angles `phi_M = arctan2(p_y, p_x)`, `theta_M = arctan2(√(p_x²+p_y²), p_z)` are unchanged, the
amplitude `|p|/μ₀` carries the factor -/
theorem segCoreH_smul (μ : ℝ) (S : SegSpecial) (c : ℝ) (hc : 0 < c) (N : SegNorm ℝ) (pol : V3 ℝ) :
    @segCoreH ℝ (realNumX μ S) N (@vs ℝ (realNum μ) c pol) =
      (@segCoreH ℝ (realNumX μ S) N pol).map (@vs ℝ (realNum μ) c) := by
  unfold segCoreH
  simp only [vs, sq, sqrt_real, atan2_real, mu0_real, sqrt3_scale c hc, sqrt2_scale c hc, arg_pos_smul c hc,
    mul_div_assoc, segH_smul, Option.map_map]
  congr 1
  funext hcyl
  apply V3.ext' <;> simp [vs] <;> ring

/-- **C05 for the ported `BHJM_cylinder_segment`, magnitude part**: multiplying the polarization vector by a
positive factor multiplies B, H, J and M by that factor, at every observer (the masks, the case ids and every
argument of the case functions do not depend on the polarization magnitude); a NaN row stays a NaN row -/
theorem bhjmCylSeg_smul (μ : ℝ) (S : SegSpecial) (c : ℝ) (hc : 0 < c) (f : Field) (x : V3 ℝ) (r1 r2 h p1 p2 : ℝ)
    (pol : V3 ℝ) :
    @bhjmCylSeg ℝ (realNumX μ S) f x r1 r2 h p1 p2 (@vs ℝ (realNum μ) c pol) =
      (@bhjmCylSeg ℝ (realNumX μ S) f x r1 r2 h p1 p2 pol).map (@vs ℝ (realNum μ) c) := by
  unfold bhjmCylSeg
  dsimp only
  generalize @segMasks ℝ (realNumX μ S) _ _ _ _ _ _ _ _ _ = m
  have hz : @vs ℝ (realNum μ) c (@zero3 ℝ (realNum μ)) = @zero3 ℝ (realNum μ) := vs_zero3_seg μ c
  have hw : ∀ f' i ns (hh : V3 ℝ), @wrapSegment ℝ (realNum μ) f' i ns (@vs ℝ (realNum μ) c pol) (@vs ℝ (realNum μ) c hh) =
      @vs ℝ (realNum μ) c (@wrapSegment ℝ (realNum μ) f' i ns pol hh) := fun f' i ns hh => wrapSegment_smul μ c f' i ns pol hh
  have hw0 : ∀ f' i ns, @wrapSegment ℝ (realNum μ) f' i ns (@vs ℝ (realNum μ) c pol) (@zero3 ℝ (realNum μ)) =
      @vs ℝ (realNum μ) c (@wrapSegment ℝ (realNum μ) f' i ns pol (@zero3 ℝ (realNum μ))) := by
    intro f' i ns
    have := hw f' i ns (@zero3 ℝ (realNum μ))
    rwa [hz] at this
  have key : (if m.notOnSurf = true then
        Option.map (fun hh => @wrapSegment ℝ (realNum μ) f m.inside m.notOnSurf (@vs ℝ (realNum μ) c pol) hh)
          (@segCoreH ℝ (realNumX μ S) (@segNormalise ℝ (realNumX μ S) x r1 r2 h p1 p2) (@vs ℝ (realNum μ) c pol))
      else some (@wrapSegment ℝ (realNum μ) f m.inside m.notOnSurf (@vs ℝ (realNum μ) c pol) (@zero3 ℝ (realNum μ)))) =
      Option.map (@vs ℝ (realNum μ) c) (if m.notOnSurf = true then
        Option.map (fun hh => @wrapSegment ℝ (realNum μ) f m.inside m.notOnSurf pol hh)
          (@segCoreH ℝ (realNumX μ S) (@segNormalise ℝ (realNumX μ S) x r1 r2 h p1 p2) pol)
      else some (@wrapSegment ℝ (realNum μ) f m.inside m.notOnSurf pol (@zero3 ℝ (realNum μ)))) := by
    split
    · rw [segCoreH_smul μ S c hc, Option.map_map, Option.map_map]
      congr 1
      funext hh
      exact hw _ _ _ hh
    · simp only [Option.map_some, hw0]
  cases f
  case J => simp only [Option.map_some, hw0]
  case M => simp only [Option.map_some, hw0]
  case B => exact key
  case H => exact key

end MagpyVerif.Kern.CylSeg

namespace MagpyVerif.Kern.CylSeg
open MagpyVerif MagpyVerif.Kern

/-! ### (e) `arctan_k_tan_2` under a full turn -/

theorem rintR_add_one {x : ℝ} (h : Int.fract x ≠ 1 / 2) : rintR (x + 1) = rintR x + 1 := by
  unfold rintR
  rw [Int.fract_add_one]
  simp only [h, false_and, if_false]
  rw [round_add_one]
  push_cast
  ring

theorem abs_sub_rintR_of_tie {x : ℝ} (h : Int.fract x = 1 / 2) : |x - rintR x| = 1 / 2 := by
  have hf := Int.floor_add_fract x
  rw [h] at hf
  unfold rintR
  split
  · rw [show x - (⌊x⌋ : ℝ) = 1 / 2 by linarith]
    norm_num
  · have hr : round x = ⌊x⌋ + 1 := by
      rw [round_eq]
      have : x + 1 / 2 = ((⌊x⌋ + 1 : ℤ) : ℝ) := by push_cast; linarith
      rw [this, Int.floor_intCast]
    rw [hr]
    push_cast
    rw [show x - ((⌊x⌋ : ℝ) + 1) = -(1 / 2) by linarith]
    norm_num

/-- `arctan_k_tan_2` over ℝ, spelled out -/
theorem arctan_k_tan_2_real (μ : ℝ) (S : SegSpecial) (k φ : ℝ) :
    @arctan_k_tan_2 ℝ (realNumX μ S) k φ =
      if |φ - rintR (φ / (2 * Real.pi)) * 2 * Real.pi| < Real.pi then
        rintR (φ / (2 * Real.pi)) * Real.pi + Real.arctan (k * Real.tan ((φ - rintR (φ / (2 * Real.pi)) * 2 * Real.pi) / 2))
      else rintR (φ / (2 * Real.pi)) * Real.pi + (φ - rintR (φ / (2 * Real.pi)) * 2 * Real.pi) / 2 := by
  unfold arctan_k_tan_2
  simp only [n, ofNat_real, pi_real, abs_real, lt_real, Nat.cast_ofNat, decide_eq_true_eq]
  rfl

/-- where the reduced angle is not inside (−π, π) the function is φ/2 -/
theorem arctan_k_tan_2_of_not_lt (μ : ℝ) (S : SegSpecial) (k φ : ℝ)
    (h : ¬ |φ - rintR (φ / (2 * Real.pi)) * 2 * Real.pi| < Real.pi) :
    @arctan_k_tan_2 ℝ (realNumX μ S) k φ = φ / 2 := by
  rw [arctan_k_tan_2_real, if_neg h]
  ring

/-- **periodic continuation**: one full turn of the angle adds π — for every k and φ, also at the odd multiples
of π where `np.round` meets a tie (there both values come from the `phi_red / 2` branch) -/
theorem arctan_k_tan_2_add_two_pi (μ : ℝ) (S : SegSpecial) (k φ : ℝ) :
    @arctan_k_tan_2 ℝ (realNumX μ S) k (φ + 2 * Real.pi) = @arctan_k_tan_2 ℝ (realNumX μ S) k φ + Real.pi := by
  have hpi := Real.pi_pos
  have hx : (φ + 2 * Real.pi) / (2 * Real.pi) = φ / (2 * Real.pi) + 1 := by field_simp
  by_cases tie : Int.fract (φ / (2 * Real.pi)) = 1 / 2
  · have tie' : Int.fract ((φ + 2 * Real.pi) / (2 * Real.pi)) = 1 / 2 := by rw [hx, Int.fract_add_one, tie]
    have key : ∀ ψ : ℝ, Int.fract (ψ / (2 * Real.pi)) = 1 / 2 →
        ¬ |ψ - rintR (ψ / (2 * Real.pi)) * 2 * Real.pi| < Real.pi := by
      intro ψ hψ
      have h1 := abs_sub_rintR_of_tie hψ
      have : ψ - rintR (ψ / (2 * Real.pi)) * 2 * Real.pi = 2 * Real.pi * (ψ / (2 * Real.pi) - rintR (ψ / (2 * Real.pi))) := by
        field_simp
      rw [this, abs_mul, h1, abs_of_pos (by positivity)]
      intro hlt
      linarith
    rw [arctan_k_tan_2_of_not_lt μ S k _ (key _ tie'), arctan_k_tan_2_of_not_lt μ S k _ (key _ tie)]
    ring
  · rw [arctan_k_tan_2_real, arctan_k_tan_2_real, hx, rintR_add_one tie]
    have hred : φ + 2 * Real.pi - (rintR (φ / (2 * Real.pi)) + 1) * 2 * Real.pi =
        φ - rintR (φ / (2 * Real.pi)) * 2 * Real.pi := by ring
    rw [hred]
    split <;> ring

end MagpyVerif.Kern.CylSeg
