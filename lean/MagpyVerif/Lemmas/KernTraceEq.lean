/-
Lemmas/KernTraceEq.lean — the regenerated traces of the real numpy kernels (Gen/KernTrace.lean, written on every
check run by translate/ktrace.py from /repo's working tree) compute the same real functions as the hand-written
model (Model/Kernels.lean) that all kernel theorems are about.  One theorem per traced branch, under that branch's
path condition.  A source edit that changes the arithmetic of a kernel changes the trace and breaks the theorem for
the affected branch; an algebraically neutral rewrite (re-association, `x*x` for `x**2`, …) keeps it provable.
-/
import MagpyVerif.Lemmas.KernReal
import MagpyVerif.Gen.KernTrace

set_option linter.unusedSimpArgs false

namespace MagpyVerif.KernTraceEq
open MagpyVerif MagpyVerif.Kern MagpyVerif.Gen

@[simp] theorem powN_real (x : ℝ) (k : Nat) : powN x k = x ^ k := by
  induction k using Nat.strongRecOn with
  | _ k ih =>
    match k with
    | 0 => simp [powN, Kern.n]
    | 1 => simp [powN]
    | k + 2 => rw [powN, ih (k + 1) (by omega)]; ring

/-- a model 3-vector as the list the traces return -/
def toList (v : V3 ℝ) : List ℝ := [v.x, v.y, v.z]

theorem dipoleH_general_eq (x y z mx my mz : ℝ) :
    KernTrace.dipoleH_general x y z mx my mz = toList (dipoleH ⟨mx, my, mz⟩ ⟨x, y, z⟩) := by
  simp only [KernTrace.dipoleH_general, dipoleH, toList, Kern.norm, vd, vs, V3.dot, Kern.n, powN_real, ofNat_real, sqrt_real,
    pi_real, V3.sub_x, V3.sub_y, V3.sub_z]
  refine List.cons_eq_cons.mpr ⟨?_, List.cons_eq_cons.mpr ⟨?_, List.cons_eq_cons.mpr ⟨?_, rfl⟩⟩⟩ <;> ring_nf


/-- componentwise closing step: three ring identities -/
macro "trace3" : tactic =>
  `(tactic| first | done | (refine List.cons_eq_cons.mpr ⟨?_, List.cons_eq_cons.mpr ⟨?_, List.cons_eq_cons.mpr ⟨?_, rfl⟩⟩⟩ <;> ring_nf))

theorem bhjmDipole_B_eq (x y z mx my mz : ℝ) :
    KernTrace.bhjmDipole_B x y z mx my mz = toList (bhjmDipole .B ⟨mx, my, mz⟩ ⟨x, y, z⟩) := by
  simp only [KernTrace.bhjmDipole_B, bhjmDipole, dipoleH, toList, Kern.norm, vd, vs, V3.dot, Kern.n, powN_real, ofNat_real,
    sqrt_real, pi_real, mu0_real, V3.sub_x, V3.sub_y, V3.sub_z]
  trace3

theorem bhjmDipole_H_eq (x y z mx my mz : ℝ) :
    KernTrace.bhjmDipole_H x y z mx my mz = toList (bhjmDipole .H ⟨mx, my, mz⟩ ⟨x, y, z⟩) := by
  simp only [KernTrace.bhjmDipole_H, bhjmDipole, dipoleH, toList, Kern.norm, vd, vs, V3.dot, Kern.n, powN_real, ofNat_real,
    sqrt_real, pi_real, V3.sub_x, V3.sub_y, V3.sub_z]
  trace3

/-! ### Sphere -/

theorem sq_sum (x y z : ℝ) : x ^ 2 + y ^ 2 + z ^ 2 = x * x + y * y + z * z := by ring

section sphere
variable (d px py pz x y z : ℝ)

theorem sphere_path_outside (f : Bool) (h : (decide (|d| / 2 < Real.sqrt (x ^ 2 + y ^ 2 + z ^ 2))) = f) :
    decide (|d| / 2 < Real.sqrt (x * x + y * y + z * z)) = f := by rw [← sq_sum]; exact h

end sphere


theorem bhjmSphere_B_inside_eq (d px py pz x y z : ℝ) (h : KernTrace.bhjmSphere_B_inside_path d px py pz x y z = true) :
    KernTrace.bhjmSphere_B_inside d px py pz x y z = toList (bhjmSphere .B d ⟨px, py, pz⟩ ⟨x, y, z⟩) := by
  simp only [KernTrace.bhjmSphere_B_inside_path, Kern.n, powN_real, ofNat_real, sqrt_real, abs_real, lt_real, Bool.not_eq_true',
    Nat.cast_ofNat] at h
  have h' := sphere_path_outside d x y z _ h
  simp only [KernTrace.bhjmSphere_B_inside, bhjmSphere, toList, Kern.norm, vd, vs, V3.dot, Kern.n, powN_real, ofNat_real,
    sqrt_real, abs_real, lt_real, mu0_real, zero3, Nat.cast_ofNat, h', V3.sub_x, V3.sub_y, V3.sub_z, if_true, if_false, Bool.false_eq_true]
  trace3

theorem bhjmSphere_B_outside_eq (d px py pz x y z : ℝ) (h : KernTrace.bhjmSphere_B_outside_path d px py pz x y z = true) :
    KernTrace.bhjmSphere_B_outside d px py pz x y z = toList (bhjmSphere .B d ⟨px, py, pz⟩ ⟨x, y, z⟩) := by
  simp only [KernTrace.bhjmSphere_B_outside_path, Kern.n, powN_real, ofNat_real, sqrt_real, abs_real, lt_real, Bool.not_eq_true',
    Nat.cast_ofNat] at h
  have h' := sphere_path_outside d x y z _ h
  simp only [KernTrace.bhjmSphere_B_outside, bhjmSphere, toList, Kern.norm, vd, vs, V3.dot, Kern.n, powN_real, ofNat_real,
    sqrt_real, abs_real, lt_real, mu0_real, zero3, Nat.cast_ofNat, h', V3.sub_x, V3.sub_y, V3.sub_z, if_true, if_false, Bool.false_eq_true]
  trace3

theorem bhjmSphere_H_inside_eq (d px py pz x y z : ℝ) (h : KernTrace.bhjmSphere_H_inside_path d px py pz x y z = true) :
    KernTrace.bhjmSphere_H_inside d px py pz x y z = toList (bhjmSphere .H d ⟨px, py, pz⟩ ⟨x, y, z⟩) := by
  simp only [KernTrace.bhjmSphere_H_inside_path, Kern.n, powN_real, ofNat_real, sqrt_real, abs_real, lt_real, Bool.not_eq_true',
    Nat.cast_ofNat] at h
  have h' := sphere_path_outside d x y z _ h
  simp only [KernTrace.bhjmSphere_H_inside, bhjmSphere, toList, Kern.norm, vd, vs, V3.dot, Kern.n, powN_real, ofNat_real,
    sqrt_real, abs_real, lt_real, mu0_real, zero3, Nat.cast_ofNat, h', V3.sub_x, V3.sub_y, V3.sub_z, if_true, if_false, Bool.false_eq_true]
  trace3

theorem bhjmSphere_H_outside_eq (d px py pz x y z : ℝ) (h : KernTrace.bhjmSphere_H_outside_path d px py pz x y z = true) :
    KernTrace.bhjmSphere_H_outside d px py pz x y z = toList (bhjmSphere .H d ⟨px, py, pz⟩ ⟨x, y, z⟩) := by
  simp only [KernTrace.bhjmSphere_H_outside_path, Kern.n, powN_real, ofNat_real, sqrt_real, abs_real, lt_real, Bool.not_eq_true',
    Nat.cast_ofNat] at h
  have h' := sphere_path_outside d x y z _ h
  simp only [KernTrace.bhjmSphere_H_outside, bhjmSphere, toList, Kern.norm, vd, vs, V3.dot, Kern.n, powN_real, ofNat_real,
    sqrt_real, abs_real, lt_real, mu0_real, zero3, Nat.cast_ofNat, h', V3.sub_x, V3.sub_y, V3.sub_z, if_true, if_false, Bool.false_eq_true]
  trace3

theorem bhjmSphere_J_inside_eq (d px py pz x y z : ℝ) (h : KernTrace.bhjmSphere_J_inside_path d px py pz x y z = true) :
    KernTrace.bhjmSphere_J_inside d px py pz x y z = toList (bhjmSphere .J d ⟨px, py, pz⟩ ⟨x, y, z⟩) := by
  simp only [KernTrace.bhjmSphere_J_inside_path, Kern.n, powN_real, ofNat_real, sqrt_real, abs_real, lt_real, Bool.not_eq_true',
    Nat.cast_ofNat] at h
  have h' := sphere_path_outside d x y z _ h
  simp only [KernTrace.bhjmSphere_J_inside, bhjmSphere, toList, Kern.norm, vd, vs, V3.dot, Kern.n, powN_real, ofNat_real,
    sqrt_real, abs_real, lt_real, mu0_real, zero3, Nat.cast_ofNat, h', V3.sub_x, V3.sub_y, V3.sub_z, if_true, if_false, Bool.false_eq_true]
  trace3

theorem bhjmSphere_J_outside_eq (d px py pz x y z : ℝ) (h : KernTrace.bhjmSphere_J_outside_path d px py pz x y z = true) :
    KernTrace.bhjmSphere_J_outside d px py pz x y z = toList (bhjmSphere .J d ⟨px, py, pz⟩ ⟨x, y, z⟩) := by
  simp only [KernTrace.bhjmSphere_J_outside_path, Kern.n, powN_real, ofNat_real, sqrt_real, abs_real, lt_real, Bool.not_eq_true',
    Nat.cast_ofNat] at h
  have h' := sphere_path_outside d x y z _ h
  simp only [KernTrace.bhjmSphere_J_outside, bhjmSphere, toList, Kern.norm, vd, vs, V3.dot, Kern.n, powN_real, ofNat_real,
    sqrt_real, abs_real, lt_real, mu0_real, zero3, Nat.cast_ofNat, h', V3.sub_x, V3.sub_y, V3.sub_z, if_true, if_false, Bool.false_eq_true]
  trace3

theorem bhjmSphere_M_inside_eq (d px py pz x y z : ℝ) (h : KernTrace.bhjmSphere_M_inside_path d px py pz x y z = true) :
    KernTrace.bhjmSphere_M_inside d px py pz x y z = toList (bhjmSphere .M d ⟨px, py, pz⟩ ⟨x, y, z⟩) := by
  simp only [KernTrace.bhjmSphere_M_inside_path, Kern.n, powN_real, ofNat_real, sqrt_real, abs_real, lt_real, Bool.not_eq_true',
    Nat.cast_ofNat] at h
  have h' := sphere_path_outside d x y z _ h
  simp only [KernTrace.bhjmSphere_M_inside, bhjmSphere, toList, Kern.norm, vd, vs, V3.dot, Kern.n, powN_real, ofNat_real,
    sqrt_real, abs_real, lt_real, mu0_real, zero3, Nat.cast_ofNat, h', V3.sub_x, V3.sub_y, V3.sub_z, if_true, if_false, Bool.false_eq_true]
  trace3

theorem bhjmSphere_M_outside_eq (d px py pz x y z : ℝ) (h : KernTrace.bhjmSphere_M_outside_path d px py pz x y z = true) :
    KernTrace.bhjmSphere_M_outside d px py pz x y z = toList (bhjmSphere .M d ⟨px, py, pz⟩ ⟨x, y, z⟩) := by
  simp only [KernTrace.bhjmSphere_M_outside_path, Kern.n, powN_real, ofNat_real, sqrt_real, abs_real, lt_real, Bool.not_eq_true',
    Nat.cast_ofNat] at h
  have h' := sphere_path_outside d x y z _ h
  simp only [KernTrace.bhjmSphere_M_outside, bhjmSphere, toList, Kern.norm, vd, vs, V3.dot, Kern.n, powN_real, ofNat_real,
    sqrt_real, abs_real, lt_real, mu0_real, zero3, Nat.cast_ofNat, h', V3.sub_x, V3.sub_y, V3.sub_z, if_true, if_false, Bool.false_eq_true]
  trace3

/-! ### Cuboid closed form: one trace per octant of the observer (the reflection into the bottom-Q4 octant, the eight corner
distances, the arctan2 / log sums and the sign bookkeeping `qsigns`) -/

set_option maxRecDepth 8192 in
set_option maxHeartbeats 1000000 in
theorem cuboidB_ppp_eq (a b c px py pz x y z : ℝ) (h : KernTrace.cuboidB_ppp_path a b c px py pz x y z = true) :
    KernTrace.cuboidB_ppp a b c px py pz x y z = toList (cuboidB ⟨a, b, c⟩ ⟨px, py, pz⟩ ⟨x, y, z⟩) := by
  simp only [KernTrace.cuboidB_ppp_path, Kern.n, ofNat_real, lt_real, Bool.and_eq_true, Bool.not_eq_true',
    decide_eq_true_eq, decide_eq_false_iff_not, Nat.cast_ofNat, Nat.cast_zero, Nat.cast_one] at h
  obtain ⟨⟨hx, hy⟩, hz⟩ := h
  simp only [KernTrace.cuboidB_ppp, cuboidB, cuboidAssemble, cuboidFF, cuboidReflect, cuboidFlip, toList, vd, Kern.n, powN_real,
    ofNat_real, sqrt_real, lt_real, pi_real, log_real, atan2_real, Nat.cast_ofNat, Nat.cast_zero, Nat.cast_one, hx, hy, hz,
    decide_true, decide_false, if_true, if_false, Bool.false_eq_true]
  trace3

set_option maxRecDepth 8192 in
set_option maxHeartbeats 1000000 in
theorem cuboidB_ppm_eq (a b c px py pz x y z : ℝ) (h : KernTrace.cuboidB_ppm_path a b c px py pz x y z = true) :
    KernTrace.cuboidB_ppm a b c px py pz x y z = toList (cuboidB ⟨a, b, c⟩ ⟨px, py, pz⟩ ⟨x, y, z⟩) := by
  simp only [KernTrace.cuboidB_ppm_path, Kern.n, ofNat_real, lt_real, Bool.and_eq_true, Bool.not_eq_true',
    decide_eq_true_eq, decide_eq_false_iff_not, Nat.cast_ofNat, Nat.cast_zero, Nat.cast_one] at h
  obtain ⟨⟨hx, hy⟩, hz⟩ := h
  simp only [KernTrace.cuboidB_ppm, cuboidB, cuboidAssemble, cuboidFF, cuboidReflect, cuboidFlip, toList, vd, Kern.n, powN_real,
    ofNat_real, sqrt_real, lt_real, pi_real, log_real, atan2_real, Nat.cast_ofNat, Nat.cast_zero, Nat.cast_one, hx, hy, hz,
    decide_true, decide_false, if_true, if_false, Bool.false_eq_true]
  trace3

set_option maxRecDepth 8192 in
set_option maxHeartbeats 1000000 in
theorem cuboidB_pmp_eq (a b c px py pz x y z : ℝ) (h : KernTrace.cuboidB_pmp_path a b c px py pz x y z = true) :
    KernTrace.cuboidB_pmp a b c px py pz x y z = toList (cuboidB ⟨a, b, c⟩ ⟨px, py, pz⟩ ⟨x, y, z⟩) := by
  simp only [KernTrace.cuboidB_pmp_path, Kern.n, ofNat_real, lt_real, Bool.and_eq_true, Bool.not_eq_true',
    decide_eq_true_eq, decide_eq_false_iff_not, Nat.cast_ofNat, Nat.cast_zero, Nat.cast_one] at h
  obtain ⟨⟨hx, hy⟩, hz⟩ := h
  simp only [KernTrace.cuboidB_pmp, cuboidB, cuboidAssemble, cuboidFF, cuboidReflect, cuboidFlip, toList, vd, Kern.n, powN_real,
    ofNat_real, sqrt_real, lt_real, pi_real, log_real, atan2_real, Nat.cast_ofNat, Nat.cast_zero, Nat.cast_one, hx, hy, hz,
    decide_true, decide_false, if_true, if_false, Bool.false_eq_true]
  trace3

set_option maxRecDepth 8192 in
set_option maxHeartbeats 1000000 in
theorem cuboidB_pmm_eq (a b c px py pz x y z : ℝ) (h : KernTrace.cuboidB_pmm_path a b c px py pz x y z = true) :
    KernTrace.cuboidB_pmm a b c px py pz x y z = toList (cuboidB ⟨a, b, c⟩ ⟨px, py, pz⟩ ⟨x, y, z⟩) := by
  simp only [KernTrace.cuboidB_pmm_path, Kern.n, ofNat_real, lt_real, Bool.and_eq_true, Bool.not_eq_true',
    decide_eq_true_eq, decide_eq_false_iff_not, Nat.cast_ofNat, Nat.cast_zero, Nat.cast_one] at h
  obtain ⟨⟨hx, hy⟩, hz⟩ := h
  simp only [KernTrace.cuboidB_pmm, cuboidB, cuboidAssemble, cuboidFF, cuboidReflect, cuboidFlip, toList, vd, Kern.n, powN_real,
    ofNat_real, sqrt_real, lt_real, pi_real, log_real, atan2_real, Nat.cast_ofNat, Nat.cast_zero, Nat.cast_one, hx, hy, hz,
    decide_true, decide_false, if_true, if_false, Bool.false_eq_true]
  trace3

set_option maxRecDepth 8192 in
set_option maxHeartbeats 1000000 in
theorem cuboidB_mpp_eq (a b c px py pz x y z : ℝ) (h : KernTrace.cuboidB_mpp_path a b c px py pz x y z = true) :
    KernTrace.cuboidB_mpp a b c px py pz x y z = toList (cuboidB ⟨a, b, c⟩ ⟨px, py, pz⟩ ⟨x, y, z⟩) := by
  simp only [KernTrace.cuboidB_mpp_path, Kern.n, ofNat_real, lt_real, Bool.and_eq_true, Bool.not_eq_true',
    decide_eq_true_eq, decide_eq_false_iff_not, Nat.cast_ofNat, Nat.cast_zero, Nat.cast_one] at h
  obtain ⟨⟨hx, hy⟩, hz⟩ := h
  simp only [KernTrace.cuboidB_mpp, cuboidB, cuboidAssemble, cuboidFF, cuboidReflect, cuboidFlip, toList, vd, Kern.n, powN_real,
    ofNat_real, sqrt_real, lt_real, pi_real, log_real, atan2_real, Nat.cast_ofNat, Nat.cast_zero, Nat.cast_one, hx, hy, hz,
    decide_true, decide_false, if_true, if_false, Bool.false_eq_true]
  trace3

set_option maxRecDepth 8192 in
set_option maxHeartbeats 1000000 in
theorem cuboidB_mpm_eq (a b c px py pz x y z : ℝ) (h : KernTrace.cuboidB_mpm_path a b c px py pz x y z = true) :
    KernTrace.cuboidB_mpm a b c px py pz x y z = toList (cuboidB ⟨a, b, c⟩ ⟨px, py, pz⟩ ⟨x, y, z⟩) := by
  simp only [KernTrace.cuboidB_mpm_path, Kern.n, ofNat_real, lt_real, Bool.and_eq_true, Bool.not_eq_true',
    decide_eq_true_eq, decide_eq_false_iff_not, Nat.cast_ofNat, Nat.cast_zero, Nat.cast_one] at h
  obtain ⟨⟨hx, hy⟩, hz⟩ := h
  simp only [KernTrace.cuboidB_mpm, cuboidB, cuboidAssemble, cuboidFF, cuboidReflect, cuboidFlip, toList, vd, Kern.n, powN_real,
    ofNat_real, sqrt_real, lt_real, pi_real, log_real, atan2_real, Nat.cast_ofNat, Nat.cast_zero, Nat.cast_one, hx, hy, hz,
    decide_true, decide_false, if_true, if_false, Bool.false_eq_true]
  trace3

set_option maxRecDepth 8192 in
set_option maxHeartbeats 1000000 in
theorem cuboidB_mmp_eq (a b c px py pz x y z : ℝ) (h : KernTrace.cuboidB_mmp_path a b c px py pz x y z = true) :
    KernTrace.cuboidB_mmp a b c px py pz x y z = toList (cuboidB ⟨a, b, c⟩ ⟨px, py, pz⟩ ⟨x, y, z⟩) := by
  simp only [KernTrace.cuboidB_mmp_path, Kern.n, ofNat_real, lt_real, Bool.and_eq_true, Bool.not_eq_true',
    decide_eq_true_eq, decide_eq_false_iff_not, Nat.cast_ofNat, Nat.cast_zero, Nat.cast_one] at h
  obtain ⟨⟨hx, hy⟩, hz⟩ := h
  simp only [KernTrace.cuboidB_mmp, cuboidB, cuboidAssemble, cuboidFF, cuboidReflect, cuboidFlip, toList, vd, Kern.n, powN_real,
    ofNat_real, sqrt_real, lt_real, pi_real, log_real, atan2_real, Nat.cast_ofNat, Nat.cast_zero, Nat.cast_one, hx, hy, hz,
    decide_true, decide_false, if_true, if_false, Bool.false_eq_true]
  trace3

set_option maxRecDepth 8192 in
set_option maxHeartbeats 1000000 in
theorem cuboidB_mmm_eq (a b c px py pz x y z : ℝ) (h : KernTrace.cuboidB_mmm_path a b c px py pz x y z = true) :
    KernTrace.cuboidB_mmm a b c px py pz x y z = toList (cuboidB ⟨a, b, c⟩ ⟨px, py, pz⟩ ⟨x, y, z⟩) := by
  simp only [KernTrace.cuboidB_mmm_path, Kern.n, ofNat_real, lt_real, Bool.and_eq_true, Bool.not_eq_true',
    decide_eq_true_eq, decide_eq_false_iff_not, Nat.cast_ofNat, Nat.cast_zero, Nat.cast_one] at h
  obtain ⟨⟨hx, hy⟩, hz⟩ := h
  simp only [KernTrace.cuboidB_mmm, cuboidB, cuboidAssemble, cuboidFF, cuboidReflect, cuboidFlip, toList, vd, Kern.n, powN_real,
    ofNat_real, sqrt_real, lt_real, pi_real, log_real, atan2_real, Nat.cast_ofNat, Nat.cast_zero, Nat.cast_one, hx, hy, hz,
    decide_true, decide_false, if_true, if_false, Bool.false_eq_true]
  trace3

end MagpyVerif.KernTraceEq
