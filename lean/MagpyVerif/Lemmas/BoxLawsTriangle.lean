/-
Lemmas/BoxLawsTriangle.lean — what the integral laws of Lemmas/BoxLaws.lean need in order to apply to the Triangle sheet
(`triangleB`), to sums of sheets (`sheetSum`: the four faces of a Tetrahedron, one row of a TriangularMesh) and to the wrappers
built on them:

  * continuity ON A CLOSED BOX of the smooth closed form `triSmooth` (solid angle through `Complex.arg` on the slit plane, edge
    integrals through `Real.log` of positive arguments) and of the nine entries of the Jacobian `triJac` (`bsBeta`, `edgeGrad`:
    quotients whose denominators do not vanish where `TriClear` holds), for every box all of whose points satisfy `TriClear`;
  * a bundle `SmoothBox F J a b` (partial derivatives `J` on the box, `J` and `F` continuous there, trace 0, symmetric) closed under
    sums, constants and division by a constant, from which both laws follow (`SmoothBox.flux`, `SmoothBox.circ`);
  * a CHECKABLE sufficient condition for "every point of the box satisfies `TriClear`" (`TriFarBox`): the eight corners of the box lie
    on one side of the plane of the triangle with `|N| ≥ m` (`N = 2·area × signed distance`, affine in the observer), the box is
    not absurdly far compared with `m` (`16·ρ₀²ρ₁²ρ₂² ≤ 1e16·m²`, which keeps the solid angle off the clamp `6.2831853` of the code,
    `solidAngleRaw_lt_of_far`), and `m` exceeds the `on_edge` tube radius (`1e-30·l²·|A|² < m²` for the three edges; the distance to
    the line of an edge is at least the distance to the plane — Bessel's inequality);
  * the inside test of `BHJM_magnet_tetrahedron` is constant on a box that avoids the four face planes (locally constant along the
    segment from a corner, and a segment is connected).
-/
import MagpyVerif.Lemmas.BoxLawsCuboid
import MagpyVerif.Lemmas.TriangleDiv

namespace MagpyVerif.BoxLaws
open MagpyVerif MagpyVerif.Kern MagpyVerif.CuboidDiv MagpyVerif.TriDiv Set Filter Topology

set_option linter.unusedSectionVars false

/-! ### more algebra of maps with continuous entries -/

section algebra
variable {X : Type*} [TopologicalSpace X] {S : Set X}

theorem VecCont.const (v : V3 ℝ) : VecCont (fun _ : X => v) S := ⟨continuousOn_const, continuousOn_const, continuousOn_const⟩

theorem VecCont.neg {F : X → V3 ℝ} (hF : VecCont F S) : VecCont (fun q => -F q) S := ⟨hF.c1.neg, hF.c2.neg, hF.c3.neg⟩

theorem VecCont.sub {F G : X → V3 ℝ} (hF : VecCont F S) (hG : VecCont G S) : VecCont (fun q => F q - G q) S :=
  ⟨hF.c1.sub hG.c1, hF.c2.sub hG.c2, hF.c3.sub hG.c3⟩

/-- a continuous scalar function times a continuous vector function -/
theorem VecCont.fsmul {F : X → V3 ℝ} {f : X → ℝ} (hf : ContinuousOn f S) (hF : VecCont F S) :
    VecCont (fun q => vs (f q) (F q)) S := ⟨hf.mul hF.c1, hf.mul hF.c2, hf.mul hF.c3⟩

theorem VecCont.crossL {F : X → V3 ℝ} (hF : VecCont F S) (L : V3 ℝ) : VecCont (fun q => V3.cross (F q) L) S :=
  ⟨(hF.c2.mul continuousOn_const).sub (hF.c3.mul continuousOn_const),
   (hF.c3.mul continuousOn_const).sub (hF.c1.mul continuousOn_const),
   (hF.c1.mul continuousOn_const).sub (hF.c2.mul continuousOn_const)⟩

theorem VecCont.congr {F G : X → V3 ℝ} (hG : VecCont G S) (h : ∀ q ∈ S, F q = G q) : VecCont F S :=
  ⟨hG.c1.congr fun q hq => congrArg V3.x (h q hq), hG.c2.congr fun q hq => congrArg V3.y (h q hq),
   hG.c3.congr fun q hq => congrArg V3.z (h q hq)⟩

theorem JacCont.const (J : M3 ℝ) : JacCont (fun _ : X => J) S :=
  ⟨continuousOn_const, continuousOn_const, continuousOn_const, continuousOn_const, continuousOn_const, continuousOn_const,
   continuousOn_const, continuousOn_const, continuousOn_const⟩

/-- the Jacobian `v ⊗ g` of `q ↦ f(q)·v` with a continuous gradient -/
theorem JacCont.outer {g : X → V3 ℝ} (v : V3 ℝ) (hg : VecCont g S) : JacCont (fun q => outer v (g q)) S :=
  ⟨continuousOn_const.mul hg.c1, continuousOn_const.mul hg.c2, continuousOn_const.mul hg.c3,
   continuousOn_const.mul hg.c1, continuousOn_const.mul hg.c2, continuousOn_const.mul hg.c3,
   continuousOn_const.mul hg.c1, continuousOn_const.mul hg.c2, continuousOn_const.mul hg.c3⟩

end algebra

/-! ### the ingredients of the Triangle closed form as functions of a parameter -/

section ingredients
variable {X : Type*} [TopologicalSpace X] {S : Set X} {fx fy fz : X → ℝ} (cx : Continuous fx)
  (cy : Continuous fy) (cz : Continuous fz)
include cx cy cz

theorem cont_dotSub (a b : V3 ℝ) :
    Continuous fun q => V3.dot (a - ⟨fx q, fy q, fz q⟩) (b - ⟨fx q, fy q, fz q⟩) := by
  simp only [V3.dot, V3.sub_x, V3.sub_y, V3.sub_z]; fun_prop

theorem cont_dotSubL (a L : V3 ℝ) : Continuous fun q => V3.dot (a - ⟨fx q, fy q, fz q⟩) L := by
  simp only [V3.dot, V3.sub_x, V3.sub_y, V3.sub_z]; fun_prop

theorem cont_normSub (v : V3 ℝ) : Continuous fun q => Kern.norm (v - ⟨fx q, fy q, fz q⟩) := by
  have h := Real.continuous_sqrt.comp (cont_dotSub cx cy cz v v)
  exact h

theorem vecCont_sub (v : V3 ℝ) : VecCont (fun q => v - (⟨fx q, fy q, fz q⟩ : V3 ℝ)) S :=
  ⟨(continuous_const.sub cx).continuousOn, (continuous_const.sub cy).continuousOn, (continuous_const.sub cz).continuousOn⟩

theorem cont_saN (v0 v1 v2 : V3 ℝ) :
    Continuous fun q => saN (v0 - ⟨fx q, fy q, fz q⟩) (v1 - ⟨fx q, fy q, fz q⟩) (v2 - ⟨fx q, fy q, fz q⟩) := by
  simp only [saN, V3.dot, V3.cross, V3.sub_x, V3.sub_y, V3.sub_z]; fun_prop

theorem cont_saD (v0 v1 v2 : V3 ℝ) :
    Continuous fun q => saD (v0 - ⟨fx q, fy q, fz q⟩) (v1 - ⟨fx q, fy q, fz q⟩) (v2 - ⟨fx q, fy q, fz q⟩) := by
  unfold saD
  have n0 := cont_normSub cx cy cz v0
  have n1 := cont_normSub cx cy cz v1
  have n2 := cont_normSub cx cy cz v2
  exact ((((n0.mul n1).mul n2).add ((cont_dotSub cx cy cz v2 v1).mul n0)).add ((cont_dotSub cx cy cz v2 v0).mul n1)).add
    ((cont_dotSub cx cy cz v1 v0).mul n2)

/-- the solid angle before the clamp is continuous off the plane of the triangle -/
theorem contOn_solidAngleRaw (v0 v1 v2 : V3 ℝ)
    (hN : ∀ q ∈ S, saN (v0 - ⟨fx q, fy q, fz q⟩) (v1 - ⟨fx q, fy q, fz q⟩) (v2 - ⟨fx q, fy q, fz q⟩) ≠ 0) :
    ContinuousOn (fun q => solidAngleRaw (v0 - ⟨fx q, fy q, fz q⟩) (v1 - ⟨fx q, fy q, fz q⟩) (v2 - ⟨fx q, fy q, fz q⟩)) S := by
  have cZ : Continuous fun q => saZ (v0 - ⟨fx q, fy q, fz q⟩) (v1 - ⟨fx q, fy q, fz q⟩) (v2 - ⟨fx q, fy q, fz q⟩) := by
    unfold saZ
    simp only [Complex.mk_eq_add_mul_I]
    exact (Complex.continuous_ofReal.comp (cont_saD cx cy cz v0 v1 v2)).add
      ((Complex.continuous_ofReal.comp (cont_saN cx cy cz v0 v1 v2)).mul continuous_const)
  have hmem : ∀ q ∈ S, saZ (v0 - ⟨fx q, fy q, fz q⟩) (v1 - ⟨fx q, fy q, fz q⟩) (v2 - ⟨fx q, fy q, fz q⟩) ∈ Complex.slitPlane := by
    intro q hq
    rw [Complex.mem_slitPlane_iff]
    right
    exact hN q hq
  unfold solidAngleRaw
  exact continuousOn_const.mul (Complex.continuousOn_arg.comp cZ.continuousOn hmem)

/-- the edge integral (closed form) is continuous where the arguments of its two logarithms do not vanish -/
theorem contOn_edgeI (a b : V3 ℝ)
    (hga : ∀ q ∈ S, √(V3.dot (b - a) (b - a)) * Kern.norm (a - ⟨fx q, fy q, fz q⟩) + V3.dot (a - ⟨fx q, fy q, fz q⟩) (b - a) ≠ 0)
    (hgb : ∀ q ∈ S, √(V3.dot (b - a) (b - a)) * Kern.norm (b - ⟨fx q, fy q, fz q⟩) + V3.dot (b - ⟨fx q, fy q, fz q⟩) (b - a) ≠ 0) :
    ContinuousOn (fun q => edgeI a b ⟨fx q, fy q, fz q⟩) S := by
  unfold edgeI
  have ca : Continuous fun q => √(V3.dot (b - a) (b - a)) * Kern.norm (a - ⟨fx q, fy q, fz q⟩) + V3.dot (a - ⟨fx q, fy q, fz q⟩) (b - a) :=
    (continuous_const.mul (cont_normSub cx cy cz a)).add (cont_dotSubL cx cy cz a (b - a))
  have cb : Continuous fun q => √(V3.dot (b - a) (b - a)) * Kern.norm (b - ⟨fx q, fy q, fz q⟩) + V3.dot (b - ⟨fx q, fy q, fz q⟩) (b - a) :=
    (continuous_const.mul (cont_normSub cx cy cz b)).add (cont_dotSubL cx cy cz b (b - a))
  exact ((cb.continuousOn.log hgb).sub (ca.continuousOn.log hga)).div_const _

/-- the gradient of the edge integral is continuous where its denominators do not vanish -/
theorem vecCont_edgeGrad (a b : V3 ℝ) (hl : √(V3.dot (b - a) (b - a)) ≠ 0)
    (hra : ∀ q ∈ S, Kern.norm (a - ⟨fx q, fy q, fz q⟩) ≠ 0) (hrb : ∀ q ∈ S, Kern.norm (b - ⟨fx q, fy q, fz q⟩) ≠ 0)
    (hga : ∀ q ∈ S, √(V3.dot (b - a) (b - a)) * Kern.norm (a - ⟨fx q, fy q, fz q⟩) + V3.dot (a - ⟨fx q, fy q, fz q⟩) (b - a) ≠ 0)
    (hgb : ∀ q ∈ S, √(V3.dot (b - a) (b - a)) * Kern.norm (b - ⟨fx q, fy q, fz q⟩) + V3.dot (b - ⟨fx q, fy q, fz q⟩) (b - a) ≠ 0) :
    VecCont (fun q => edgeGrad (a - ⟨fx q, fy q, fz q⟩) (b - ⟨fx q, fy q, fz q⟩) (b - a) (√(V3.dot (b - a) (b - a)))
      (Kern.norm (a - ⟨fx q, fy q, fz q⟩)) (Kern.norm (b - ⟨fx q, fy q, fz q⟩))) S := by
  unfold edgeGrad
  have na := (cont_normSub cx cy cz a).continuousOn (s := S)
  have nb := (cont_normSub cx cy cz b).continuousOn (s := S)
  have ga : ContinuousOn (fun q => √(V3.dot (b - a) (b - a)) * Kern.norm (a - ⟨fx q, fy q, fz q⟩) +
      V3.dot (a - ⟨fx q, fy q, fz q⟩) (b - a)) S :=
    ((continuous_const.mul (cont_normSub cx cy cz a)).add (cont_dotSubL cx cy cz a (b - a))).continuousOn
  have gb : ContinuousOn (fun q => √(V3.dot (b - a) (b - a)) * Kern.norm (b - ⟨fx q, fy q, fz q⟩) +
      V3.dot (b - ⟨fx q, fy q, fz q⟩) (b - a)) S :=
    ((continuous_const.mul (cont_normSub cx cy cz b)).add (cont_dotSubL cx cy cz b (b - a))).continuousOn
  have s1 := continuousOn_const (c := (1 : ℝ)) |>.div (na.mul ga) fun q hq => mul_ne_zero (hra q hq) (hga q hq)
  have t1 := continuousOn_const (c := (1 : ℝ)) |>.div (continuousOn_const (c := √(V3.dot (b - a) (b - a))) |>.mul ga)
    fun q hq => mul_ne_zero hl (hga q hq)
  have s2 := continuousOn_const (c := (1 : ℝ)) |>.div (nb.mul gb) fun q hq => mul_ne_zero (hrb q hq) (hgb q hq)
  have t2 := continuousOn_const (c := (1 : ℝ)) |>.div (continuousOn_const (c := √(V3.dot (b - a) (b - a))) |>.mul gb)
    fun q hq => mul_ne_zero hl (hgb q hq)
  exact (((VecCont.fsmul s1 (vecCont_sub cx cy cz a)).add (VecCont.fsmul t1 (VecCont.const _))).sub
    (VecCont.fsmul s2 (vecCont_sub cx cy cz b))).sub (VecCont.fsmul t2 (VecCont.const _))

/-- the Biot–Savart scalar of an edge is continuous where its denominator does not vanish -/
theorem contOn_bsBeta (a b : V3 ℝ) (hra : ∀ q ∈ S, Kern.norm (a - ⟨fx q, fy q, fz q⟩) ≠ 0)
    (hrb : ∀ q ∈ S, Kern.norm (b - ⟨fx q, fy q, fz q⟩) ≠ 0)
    (hg : ∀ q ∈ S, Kern.norm (a - ⟨fx q, fy q, fz q⟩) * Kern.norm (b - ⟨fx q, fy q, fz q⟩) +
      V3.dot (b - ⟨fx q, fy q, fz q⟩) (a - ⟨fx q, fy q, fz q⟩) ≠ 0) :
    ContinuousOn (fun q => bsBeta (Kern.norm (a - ⟨fx q, fy q, fz q⟩)) (Kern.norm (b - ⟨fx q, fy q, fz q⟩))
      (V3.dot (b - ⟨fx q, fy q, fz q⟩) (a - ⟨fx q, fy q, fz q⟩))) S := by
  unfold bsBeta
  have na := (cont_normSub cx cy cz a).continuousOn (s := S)
  have nb := (cont_normSub cx cy cz b).continuousOn (s := S)
  have d := (cont_dotSub cx cy cz b a).continuousOn (s := S)
  exact (na.add nb).div ((na.mul nb).mul ((na.mul nb).add d))
    fun q hq => mul_ne_zero (mul_ne_zero (hra q hq) (hrb q hq)) (hg q hq)

end ingredients

/-! ### the Triangle sheet: `triSmooth` and `triJac` on a set all of whose points satisfy `TriClear` -/

section triangle
variable {X : Type*} [TopologicalSpace X] {S : Set X} {fx fy fz : X → ℝ} (cx : Continuous fx)
  (cy : Continuous fy) (cz : Continuous fz) (v0 v1 v2 pol : V3 ℝ)
  (hS : ∀ q ∈ S, TriClear v0 v1 v2 ⟨fx q, fy q, fz q⟩)
include cx cy cz hS

theorem vecCont_omegaGrad :
    VecCont (fun q => omegaGrad (v0 - ⟨fx q, fy q, fz q⟩) (v1 - ⟨fx q, fy q, fz q⟩) (v2 - ⟨fx q, fy q, fz q⟩)
      (v1 - v0) (v2 - v1) (v0 - v2)) S := by
  unfold omegaGrad
  have F := fun q hq => triClear_facts v0 v1 v2 ⟨fx q, fy q, fz q⟩ (hS q hq)
  have b0 := contOn_bsBeta cx cy cz v0 v1 (fun q hq => (F q hq).1.1) (fun q hq => (F q hq).1.2.1)
    (fun q hq => (F q hq).2.2.2.2.2.1)
  have b1 := contOn_bsBeta cx cy cz v1 v2 (fun q hq => (F q hq).1.2.1) (fun q hq => (F q hq).1.2.2)
    (fun q hq => (F q hq).2.2.2.2.2.2.1)
  have b2' := contOn_bsBeta cx cy cz v2 v0 (fun q hq => (F q hq).1.2.2) (fun q hq => (F q hq).1.1)
    (fun q hq => (F q hq).2.2.2.2.2.2.2)
  have b2 : ContinuousOn (fun q => bsBeta (Kern.norm (v2 - ⟨fx q, fy q, fz q⟩)) (Kern.norm (v0 - ⟨fx q, fy q, fz q⟩))
      (V3.dot (v2 - ⟨fx q, fy q, fz q⟩) (v0 - ⟨fx q, fy q, fz q⟩))) S :=
    b2'.congr fun q _ => by rw [dot_comm' (v2 - ⟨fx q, fy q, fz q⟩)]
  exact (((VecCont.fsmul b0 ((vecCont_sub cx cy cz v0).crossL _)).add
    (VecCont.fsmul b1 ((vecCont_sub cx cy cz v1).crossL _))).add
    (VecCont.fsmul b2 ((vecCont_sub cx cy cz v2).crossL _))).neg

/-- **every entry of the Jacobian of `triangle_Bfield` is continuous** on a set all of whose points satisfy `TriClear` -/
theorem jacCont_triJac : JacCont (fun q => triJac v0 v1 v2 pol ⟨fx q, fy q, fz q⟩) S := by
  unfold triJac
  have F := fun q hq => triClear_facts v0 v1 v2 ⟨fx q, fy q, fz q⟩ (hS q hq)
  have hne : S.Nonempty ∨ S = ∅ := (S.eq_empty_or_nonempty).symm
  rcases hne with ⟨q0, hq0⟩ | he
  · obtain ⟨-, ⟨l0, l1, l2⟩, -⟩ := F q0 hq0
    have e0 := vecCont_edgeGrad cx cy cz v0 v1 l0 (fun q hq => (F q hq).1.1) (fun q hq => (F q hq).1.2.1)
      (fun q hq => (F q hq).2.2.1.1) (fun q hq => (F q hq).2.2.1.2)
    have e1 := vecCont_edgeGrad cx cy cz v1 v2 l1 (fun q hq => (F q hq).1.2.1) (fun q hq => (F q hq).1.2.2)
      (fun q hq => (F q hq).2.2.2.1.1) (fun q hq => (F q hq).2.2.2.1.2)
    have e2 := vecCont_edgeGrad cx cy cz v2 v0 l2 (fun q hq => (F q hq).1.2.2) (fun q hq => (F q hq).1.1)
      (fun q hq => (F q hq).2.2.2.2.1.1) (fun q hq => (F q hq).2.2.2.2.1.2)
    exact ((((JacCont.outer _ (vecCont_omegaGrad cx cy cz v0 v1 v2 hS)).add (JacCont.outer _ e0)).add (JacCont.outer _ e1)).add
      (JacCont.outer _ e2)).scale _
  · subst he
    exact ⟨continuousOn_empty _, continuousOn_empty _, continuousOn_empty _, continuousOn_empty _, continuousOn_empty _,
      continuousOn_empty _, continuousOn_empty _, continuousOn_empty _, continuousOn_empty _⟩

/-- the smooth closed form of `triangle_Bfield` is continuous there -/
theorem vecCont_triSmooth : VecCont (fun q => triSmooth v0 v1 v2 pol ⟨fx q, fy q, fz q⟩) S := by
  unfold triSmooth
  have F := fun q hq => triClear_facts v0 v1 v2 ⟨fx q, fy q, fz q⟩ (hS q hq)
  have cΩ := contOn_solidAngleRaw cx cy cz v0 v1 v2 (fun q hq => (hS q hq).1)
  have i0 := contOn_edgeI cx cy cz v0 v1 (fun q hq => (F q hq).2.2.1.1) (fun q hq => (F q hq).2.2.1.2)
  have i1 := contOn_edgeI cx cy cz v1 v2 (fun q hq => (F q hq).2.2.2.1.1) (fun q hq => (F q hq).2.2.2.1.2)
  have i2 := contOn_edgeI cx cy cz v2 v0 (fun q hq => (F q hq).2.2.2.2.1.1) (fun q hq => (F q hq).2.2.2.2.1.2)
  exact ((((VecCont.fsmul cΩ (VecCont.const _)).add (VecCont.fsmul i0 (VecCont.const _))).add
    (VecCont.fsmul i1 (VecCont.const _))).add (VecCont.fsmul i2 (VecCont.const _))).smul _

/-- … and so is the model of `triangle_Bfield` itself (it equals the smooth form where `TriClear` holds) -/
theorem vecCont_triangleB : VecCont (fun q => triangleB v0 v1 v2 pol ⟨fx q, fy q, fz q⟩) S :=
  (vecCont_triSmooth cx cy cz v0 v1 v2 pol hS).congr fun q hq => triangleB_eq_smooth v0 v1 v2 pol _ (hS q hq)

end triangle

/-! ### `SmoothBox`: what both integral laws need on a closed box -/

/-- `F` has on the closed box `[a, b]` the partial derivatives `J`, `J` and `F` are continuous there, `J` has trace 0 and is symmetric -/
structure SmoothBox (F : V3 ℝ → V3 ℝ) (J : V3 ℝ → M3 ℝ) (a b : V3 ℝ) : Prop where
  part : ∀ p, InBox a b p → HasPartials F p (J p)
  jc : JacCont (fun q : ℝ × ℝ × ℝ => J ⟨q.1, q.2.1, q.2.2⟩) (Icc a.x b.x ×ˢ Icc a.y b.y ×ˢ Icc a.z b.z)
  fc : FieldContOnBox F a b
  div0 : ∀ p, InBox a b p → jacDiv (J p) = 0
  curl0 : ∀ p, InBox a b p → jacCurl (J p) = ⟨0, 0, 0⟩

namespace SmoothBox
variable {F G : V3 ℝ → V3 ℝ} {J K : V3 ℝ → M3 ℝ} {a b : V3 ℝ}

theorem const (v a b : V3 ℝ) : SmoothBox (fun _ => v) (fun _ => jacZero) a b :=
  ⟨fun p _ => HasPartials.const v p, JacCont.const _, ⟨continuousOn_const, continuousOn_const, continuousOn_const⟩,
    fun _ _ => jacDiv_zero, fun _ _ => jacCurl_zero⟩

theorem add (hF : SmoothBox F J a b) (hG : SmoothBox G K a b) :
    SmoothBox (fun q => F q + G q) (fun p => jacAdd (J p) (K p)) a b :=
  ⟨fun p hp => (hF.part p hp).add (hG.part p hp), hF.jc.add hG.jc,
    ⟨hF.fc.1.add hG.fc.1, hF.fc.2.1.add hG.fc.2.1, hF.fc.2.2.add hG.fc.2.2⟩,
    fun p hp => by rw [jacDiv_add, hF.div0 p hp, hG.div0 p hp, add_zero],
    fun p hp => by rw [jacCurl_add, hF.curl0 p hp, hG.curl0 p hp]; apply V3.ext' <;> simp⟩

theorem add_const (hF : SmoothBox F J a b) (c : V3 ℝ) : SmoothBox (fun q => F q + c) J a b :=
  ⟨fun p hp => (hF.part p hp).add_const c, hF.jc,
    ⟨hF.fc.1.add continuousOn_const, hF.fc.2.1.add continuousOn_const, hF.fc.2.2.add continuousOn_const⟩, hF.div0, hF.curl0⟩

theorem vd (hF : SmoothBox F J a b) (c : ℝ) : SmoothBox (fun q => Kern.vd (F q) c) (fun p => jacScale (1 / c) (J p)) a b :=
  ⟨fun p hp => (hF.part p hp).vd c, hF.jc.scale _,
    ⟨hF.fc.1.div_const c, hF.fc.2.1.div_const c, hF.fc.2.2.div_const c⟩,
    fun p hp => by rw [jacDiv_scale, hF.div0 p hp, mul_zero], fun p hp => jacCurl_scale_zero (hF.curl0 p hp)⟩

/-- Gauss: zero flux through the closed box, paired form and sum of the six face integrals -/
theorem flux (hF : SmoothBox F J a b) (hx : a.x ≤ b.x) (hy : a.y ≤ b.y) (hz : a.z ≤ b.z) :
    boxFlux F a b = 0 ∧ boxFlux6 F a b = 0 := by
  have h : boxFlux F a b = 0 :=
    box_flux_zero_of_hasPartials F a b hx hy hz J hF.part hF.jc.c11 hF.jc.c22 hF.jc.c33 hF.div0
  exact ⟨h, (boxFlux6_eq_boxFlux _ a b hx hy hz (hF.fc.faceCont hx hy hz)).trans h⟩

/-- Green/Stokes: zero circulation around every axis-aligned rectangle cut out of the box (which may be flat), paired form and
sum of the four line integrals -/
theorem circ (hF : SmoothBox F J a b) (hx : a.x ≤ b.x) (hy : a.y ≤ b.y) (hz : a.z ≤ b.z) :
    (∀ c ∈ Icc a.z b.z, rectCircZ F a b c = 0 ∧ rectCircZ4 F a b c = 0) ∧
    (∀ c ∈ Icc a.x b.x, rectCircX F a b c = 0 ∧ rectCircX4 F a b c = 0) ∧
    (∀ c ∈ Icc a.y b.y, rectCircY F a b c = 0 ∧ rectCircY4 F a b c = 0) := by
  have h := rect_circulation_zero_of_hasPartials F a b hx hy hz J hF.part hF.jc.c12 hF.jc.c13 hF.jc.c21 hF.jc.c23 hF.jc.c31
    hF.jc.c32 hF.curl0
  have h4 := hF.fc.rectCirc4_eq hx hy hz
  exact ⟨fun c hc' => ⟨h.1 c hc', (h4.1 c hc').trans (h.1 c hc')⟩,
    fun c hc' => ⟨h.2.1 c hc', (h4.2.1 c hc').trans (h.2.1 c hc')⟩,
    fun c hc' => ⟨h.2.2 c hc', (h4.2.2 c hc').trans (h.2.2 c hc')⟩⟩

end SmoothBox

/-- every point of the closed box satisfies `TriClear` w.r.t. the triangle -/
def TriClearBox (v0 v1 v2 a b : V3 ℝ) : Prop := ∀ p, InBox a b p → TriClear v0 v1 v2 p

/-- every point of the closed box satisfies `TriClear` w.r.t. every face of the list -/
def FacesClearBox (faces : List (Tri ℝ)) (a b : V3 ℝ) : Prop := ∀ p, InBox a b p → FacesClear faces p

/-- **the Triangle sheet on a box all of whose points satisfy `TriClear`** -/
theorem triangleB_smoothBox (v0 v1 v2 pol : V3 ℝ) {a b : V3 ℝ} (h : TriClearBox v0 v1 v2 a b) :
    SmoothBox (triangleB v0 v1 v2 pol) (triJac v0 v1 v2 pol) a b := by
  have hS : ∀ q ∈ Icc a.x b.x ×ˢ Icc a.y b.y ×ˢ Icc a.z b.z, TriClear v0 v1 v2 ⟨q.1, q.2.1, q.2.2⟩ := fun q hq =>
    h ⟨q.1, q.2.1, q.2.2⟩ ⟨hq.1, hq.2.1, hq.2.2⟩
  have r := vecCont_triangleB (fx := fun q : ℝ × ℝ × ℝ => q.1) (fy := fun q => q.2.1) (fz := fun q => q.2.2)
    (by fun_prop) (by fun_prop) (by fun_prop) v0 v1 v2 pol hS
  exact ⟨fun p hp => triangleB_hasPartials v0 v1 v2 pol p (h p hp),
    jacCont_triJac (fx := fun q : ℝ × ℝ × ℝ => q.1) (fy := fun q => q.2.1) (fz := fun q => q.2.2)
      (by fun_prop) (by fun_prop) (by fun_prop) v0 v1 v2 pol hS,
    ⟨r.c1, r.c2, r.c3⟩, fun p hp => triJac_div v0 v1 v2 pol p (h p hp), fun p hp => triJac_curl v0 v1 v2 pol p (h p hp)⟩

/-! ### sums of sheets -/

/-- the Jacobian of a sum of sheets -/
noncomputable def sheetJac (faces : List (Tri ℝ)) (pol p : V3 ℝ) : M3 ℝ :=
  match faces with
  | [] => jacZero
  | t :: l => jacAdd (triJac t.1 t.2.1 t.2.2 pol p) (sheetJac l pol p)

/-- **a sum of sheets on a box all of whose points satisfy `TriClear` for every face** -/
theorem sheetSum_smoothBox (faces : List (Tri ℝ)) (pol : V3 ℝ) {a b : V3 ℝ} (h : FacesClearBox faces a b) :
    SmoothBox (fun q => sheetSum faces pol q) (sheetJac faces pol) a b := by
  induction faces with
  | nil => exact SmoothBox.const _ a b
  | cons t l ih =>
    have e : (fun q => sheetSum (t :: l) pol q) = fun q => triangleB t.1 t.2.1 t.2.2 pol q + sheetSum l pol q :=
      funext (sheetSum_cons t l pol)
    rw [e]
    exact (triangleB_smoothBox t.1 t.2.1 t.2.2 pol fun p hp => h p hp t (by simp)).add
      (ih fun p hp s hs => h p hp s (by simp [hs]))

/-! ### a checkable sufficient condition for `TriClear` on a whole box -/

/-- the eight corners of the box -/
def boxCorners (a b : V3 ℝ) : List (V3 ℝ) :=
  [⟨a.x, a.y, a.z⟩, ⟨b.x, a.y, a.z⟩, ⟨a.x, b.y, a.z⟩, ⟨b.x, b.y, a.z⟩, ⟨a.x, a.y, b.z⟩, ⟨b.x, a.y, b.z⟩, ⟨a.x, b.y, b.z⟩,
    ⟨b.x, b.y, b.z⟩]

theorem lin1_ge {c k lo hi t m : ℝ} (ht : t ∈ Icc lo hi) (h1 : m ≤ c + k * lo) (h2 : m ≤ c + k * hi) : m ≤ c + k * t := by
  rcases le_total 0 k with hk | hk
  · have := mul_le_mul_of_nonneg_left ht.1 hk
    linarith
  · have := mul_le_mul_of_nonpos_left ht.2 hk
    linarith

/-- an affine function that is `≥ m` at the eight corners of a box is `≥ m` on the box -/
theorem affine_box_ge {k0 kx ky kz m : ℝ} {a b p : V3 ℝ} (hp : InBox a b p)
    (h : ∀ c ∈ boxCorners a b, m ≤ k0 + kx * c.x + ky * c.y + kz * c.z) : m ≤ k0 + kx * p.x + ky * p.y + kz * p.z := by
  simp only [boxCorners, List.mem_cons, List.not_mem_nil, or_false, forall_eq_or_imp, forall_eq] at h
  obtain ⟨c1, c2, c3, c4, c5, c6, c7, c8⟩ := h
  have x1 : m ≤ (k0 + ky * a.y + kz * a.z) + kx * p.x := lin1_ge hp.1 (by linarith) (by linarith)
  have x2 : m ≤ (k0 + ky * b.y + kz * a.z) + kx * p.x := lin1_ge hp.1 (by linarith) (by linarith)
  have x3 : m ≤ (k0 + ky * a.y + kz * b.z) + kx * p.x := lin1_ge hp.1 (by linarith) (by linarith)
  have x4 : m ≤ (k0 + ky * b.y + kz * b.z) + kx * p.x := lin1_ge hp.1 (by linarith) (by linarith)
  have y1 : m ≤ (k0 + kx * p.x + kz * a.z) + ky * p.y := lin1_ge hp.2.1 (by linarith) (by linarith)
  have y2 : m ≤ (k0 + kx * p.x + kz * b.z) + ky * p.y := lin1_ge hp.2.1 (by linarith) (by linarith)
  have z1 : m ≤ (k0 + kx * p.x + ky * p.y) + kz * p.z := lin1_ge hp.2.2 (by linarith) (by linarith)
  linarith

/-- `N` is affine in the observer: `N(q) = N(0) + A·q`, `A = (v1 − v0) × (v2 − v0)` -/
theorem saN_affine (v0 v1 v2 q : V3 ℝ) :
    saN (v0 - q) (v1 - q) (v2 - q) = saN v0 v1 v2 + (V3.cross (v1 - v0) (v2 - v0)).x * q.x +
      (V3.cross (v1 - v0) (v2 - v0)).y * q.y + (V3.cross (v1 - v0) (v2 - v0)).z * q.z := by
  simp only [saN, V3.dot, V3.cross, V3.sub_x, V3.sub_y, V3.sub_z]; ring

/-- largest squared distance, along one axis, from `v` to a point of `[lo, hi]` -/
noncomputable def farAx (v lo hi : ℝ) : ℝ := max ((v - lo) ^ 2) ((v - hi) ^ 2)

theorem sq_le_farAx {v lo hi t : ℝ} (ht : t ∈ Icc lo hi) : (v - t) * (v - t) ≤ farAx v lo hi := by
  unfold farAx
  rcases le_total t v with h | h
  · exact le_max_of_le_left (by nlinarith [ht.1, ht.2])
  · exact le_max_of_le_right (by nlinarith [ht.1, ht.2])

/-- squared distance from the vertex `v` to the farthest corner of the box -/
noncomputable def far2 (v a b : V3 ℝ) : ℝ := farAx v.x a.x b.x + farAx v.y a.y b.y + farAx v.z a.z b.z

theorem dot_le_far2 {v a b p : V3 ℝ} (hp : InBox a b p) : V3.dot (v - p) (v - p) ≤ far2 v a b := by
  have h1 := sq_le_farAx (v := v.x) hp.1
  have h2 := sq_le_farAx (v := v.y) hp.2.1
  have h3 := sq_le_farAx (v := v.z) hp.2.2
  simp only [V3.dot, V3.sub_x, V3.sub_y, V3.sub_z, far2]
  linarith

theorem dot_self_nonneg (w : V3 ℝ) : 0 ≤ V3.dot w w := by
  simp only [V3.dot]; nlinarith [mul_self_nonneg w.x, mul_self_nonneg w.y, mul_self_nonneg w.z]

/-- Bessel's inequality for the orthogonal pair `A ⟂ L`: `(R·A)² |L|² ≤ |R × L|² |A|²` — the distance from the observer to the
line of an edge is at least its distance to the plane of the triangle -/
theorem bessel_edge (R A L : V3 ℝ) (hAL : V3.dot A L = 0) :
    V3.dot R A ^ 2 * V3.dot L L ≤ V3.dot (V3.cross R L) (V3.cross R L) * V3.dot A A := by
  have key : V3.dot (V3.cross R L) (V3.cross R L) * V3.dot A A - V3.dot R A ^ 2 * V3.dot L L =
      V3.dot R (V3.cross A L) ^ 2 - (2 * V3.dot R A * V3.dot R L - V3.dot R R * V3.dot A L) * V3.dot A L := by
    simp only [V3.dot, V3.cross]; ring
  have h0 : 0 ≤ V3.dot R (V3.cross A L) ^ 2 := sq_nonneg _
  rw [hAL, mul_zero, sub_zero] at key
  linarith

/-- **checkable condition** on a triangle and a closed box (decided by comparing rational expressions in the data): with
`N(q) = saN (v0 − q) (v1 − q) (v2 − q)` (= `2·area × signed distance` from the plane of the triangle, affine in `q`) and a margin
`m > 0`,
  * the eight corners lie on ONE side of the plane with `|N| ≥ m` (`s = ±1` picks the side),
  * `16·ρ₀²ρ₁²ρ₂² ≤ 1e16·m²`, `ρ_i²` the squared distance from vertex `i` to the farthest corner: the solid angle stays off the
    clamp `6.2831853` of the code,
  * `1e-30·l_i²·|A|² < m²` for the three edges: the box is farther from the plane than the radius of the `on_edge` tubes. -/
structure TriFarBox (v0 v1 v2 a b : V3 ℝ) (m s : ℝ) : Prop where
  mpos : 0 < m
  sign : s = 1 ∨ s = -1
  side : ∀ c ∈ boxCorners a b, m ≤ s * saN (v0 - c) (v1 - c) (v2 - c)
  clamp : 16 * (far2 v0 a b * far2 v1 a b * far2 v2 a b) ≤ 10000000000000000 * m ^ 2
  e0 : 1 / 1000000000000000000000000000000 * V3.dot (v1 - v0) (v1 - v0) *
    V3.dot (V3.cross (v1 - v0) (v2 - v0)) (V3.cross (v1 - v0) (v2 - v0)) < m ^ 2
  e1 : 1 / 1000000000000000000000000000000 * V3.dot (v2 - v1) (v2 - v1) *
    V3.dot (V3.cross (v1 - v0) (v2 - v0)) (V3.cross (v1 - v0) (v2 - v0)) < m ^ 2
  e2 : 1 / 1000000000000000000000000000000 * V3.dot (v0 - v2) (v0 - v2) *
    V3.dot (V3.cross (v1 - v0) (v2 - v0)) (V3.cross (v1 - v0) (v2 - v0)) < m ^ 2

/-- one edge: strictly outside the `on_edge` tube when the observer is farther from the plane than the tube radius -/
theorem triEdgeClear_of_far (R Rn L A : V3 ℝ) (N m : ℝ) (hAL : V3.dot A L = 0) (hRA : V3.dot R A ^ 2 = N ^ 2) (hm : m ^ 2 ≤ N ^ 2)
    (hL : 0 < V3.dot L L) (hA : 0 < V3.dot A A)
    (he : 1 / 1000000000000000000000000000000 * V3.dot L L * V3.dot A A < m ^ 2) : TriEdgeClear R Rn L := by
  left
  rw [lt_div_iff₀ hL]
  have hb := bessel_edge R A L hAL
  rw [hRA] at hb
  have h1 : 1 / 1000000000000000000000000000000 * V3.dot L L * V3.dot A A * V3.dot L L < m ^ 2 * V3.dot L L :=
    mul_lt_mul_of_pos_right he hL
  have h2 : m ^ 2 * V3.dot L L ≤ N ^ 2 * V3.dot L L := mul_le_mul_of_nonneg_right hm hL.le
  have h3 : 1 / 1000000000000000000000000000000 * V3.dot L L * V3.dot L L * V3.dot A A <
      V3.dot (V3.cross R L) (V3.cross R L) * V3.dot A A := by linarith
  exact lt_of_mul_lt_mul_right h3 hA.le

/-- **the checkable condition implies `TriClear` at every point of the box** -/
theorem TriFarBox.triClearBox {v0 v1 v2 a b : V3 ℝ} {m s : ℝ} (h : TriFarBox v0 v1 v2 a b m s) : TriClearBox v0 v1 v2 a b := by
  intro p hp
  set A := V3.cross (v1 - v0) (v2 - v0) with hAdef
  -- the margin holds on the whole box
  have hside : m ≤ s * saN (v0 - p) (v1 - p) (v2 - p) := by
    have := affine_box_ge (k0 := s * saN v0 v1 v2) (kx := s * A.x) (ky := s * A.y) (kz := s * A.z) (m := m) hp
      (fun c hc => by have := h.side c hc; rw [saN_affine] at this; linarith)
    rw [saN_affine]; linarith
  set N := saN (v0 - p) (v1 - p) (v2 - p) with hNdef
  have hs2 : s ^ 2 = 1 := by rcases h.sign with e | e <;> rw [e] <;> norm_num
  have hsN : (s * N) ^ 2 = N ^ 2 := by rw [mul_pow, hs2, one_mul]
  have hmN : m ^ 2 ≤ N ^ 2 := by rw [← hsN]; exact pow_le_pow_left₀ h.mpos.le hside 2
  have hN0 : N ≠ 0 := by
    intro e
    rw [e] at hside
    linarith [h.mpos]
  have hArea := area_of_offplane v0 v1 v2 p hN0
  obtain ⟨p0, p2, p1⟩ := edges_pos_of_area _ _ hArea
  have p1' : 0 < V3.dot (v2 - v1) (v2 - v1) := by
    have : V3.dot (v2 - v1) (v2 - v1) = V3.dot (v2 - v0 - (v1 - v0)) (v2 - v0 - (v1 - v0)) := by simp [V3.dot]
    rw [this]; exact p1
  have p2' : 0 < V3.dot (v0 - v2) (v0 - v2) := by
    have : V3.dot (v0 - v2) (v0 - v2) = V3.dot (v2 - v0) (v2 - v0) := by simp [V3.dot]; ring
    rw [this]; exact p2
  have hA : 0 < V3.dot A A := by
    apply dot_self_pos_of_ne
    intro e
    apply hArea
    rw [norm_eq_sqrt_dot, e, Real.sqrt_zero]
  refine ⟨hN0, ?_, ?_, ?_, ?_⟩
  · apply solidAngleRaw_lt_of_far _ _ _ hN0
    have d0 := dot_le_far2 (v := v0) hp
    have d1 := dot_le_far2 (v := v1) hp
    have d2 := dot_le_far2 (v := v2) hp
    have n0 := dot_self_nonneg (v0 - p)
    have n1 := dot_self_nonneg (v1 - p)
    have n2 := dot_self_nonneg (v2 - p)
    have m01 : V3.dot (v0 - p) (v0 - p) * V3.dot (v1 - p) (v1 - p) ≤ far2 v0 a b * far2 v1 a b :=
      mul_le_mul d0 d1 n1 (le_trans n0 d0)
    have m012 : V3.dot (v0 - p) (v0 - p) * V3.dot (v1 - p) (v1 - p) * V3.dot (v2 - p) (v2 - p) ≤
        far2 v0 a b * far2 v1 a b * far2 v2 a b :=
      mul_le_mul m01 d2 n2 (le_trans (mul_nonneg n0 n1) m01)
    have := h.clamp
    nlinarith
  · refine triEdgeClear_of_far _ _ _ A N m ?_ ?_ hmN p0 hA h.e0
    · simp only [hAdef, V3.dot, V3.cross, V3.sub_x, V3.sub_y, V3.sub_z]; ring
    · simp only [hAdef, hNdef, saN, V3.dot, V3.cross, V3.sub_x, V3.sub_y, V3.sub_z]; ring
  · refine triEdgeClear_of_far _ _ _ A N m ?_ ?_ hmN p1' hA h.e1
    · simp only [hAdef, V3.dot, V3.cross, V3.sub_x, V3.sub_y, V3.sub_z]; ring
    · simp only [hAdef, hNdef, saN, V3.dot, V3.cross, V3.sub_x, V3.sub_y, V3.sub_z]; ring
  · refine triEdgeClear_of_far _ _ _ A N m ?_ ?_ hmN p2' hA h.e2
    · simp only [hAdef, V3.dot, V3.cross, V3.sub_x, V3.sub_y, V3.sub_z]; ring
    · simp only [hAdef, hNdef, saN, V3.dot, V3.cross, V3.sub_x, V3.sub_y, V3.sub_z]; ring

/-- the checkable condition for every face of a list (margin and side chosen face by face) -/
def FacesFarBox (faces : List (Tri ℝ)) (a b : V3 ℝ) : Prop := ∀ t ∈ faces, ∃ m s, TriFarBox t.1 t.2.1 t.2.2 a b m s

theorem FacesFarBox.facesClearBox {faces : List (Tri ℝ)} {a b : V3 ℝ} (h : FacesFarBox faces a b) : FacesClearBox faces a b :=
  fun p hp t ht => by
    obtain ⟨m, s, hf⟩ := h t ht
    exact hf.triClearBox p hp

/-! ### the inside test of the Tetrahedron is constant on a box that avoids the four face planes -/

theorem tetraInside_const_on_box (v0 v1 v2 v3 a b : V3 ℝ)
    (h : ∀ p, InBox a b p → ∀ t ∈ tetraFaces (v0, v1, v2, v3), saN (t.1 - p) (t.2.1 - p) (t.2.2 - p) ≠ 0)
    {p q : V3 ℝ} (hp : InBox a b p) (hq : InBox a b q) : tetraInside v0 v1 v2 v3 q = tetraInside v0 v1 v2 v3 p := by
  -- the segment from p to q stays in the box
  set γ : ℝ → V3 ℝ := fun t => ⟨p.x + t * (q.x - p.x), p.y + t * (q.y - p.y), p.z + t * (q.z - p.z)⟩ with hγ
  have seg : ∀ {lo hi u w t : ℝ}, u ∈ Icc lo hi → w ∈ Icc lo hi → t ∈ Icc (0 : ℝ) 1 → u + t * (w - u) ∈ Icc lo hi := by
    intro lo hi u w t hu hw ht
    constructor
    · nlinarith [hu.1, hw.1, ht.1, ht.2, mul_nonneg ht.1 (sub_nonneg.mpr hw.1), mul_nonneg (sub_nonneg.mpr ht.2) (sub_nonneg.mpr hu.1)]
    · nlinarith [hu.2, hw.2, ht.1, ht.2, mul_nonneg ht.1 (sub_nonneg.mpr hw.2), mul_nonneg (sub_nonneg.mpr ht.2) (sub_nonneg.mpr hu.2)]
  have hin : ∀ t ∈ Icc (0 : ℝ) 1, InBox a b (γ t) := fun t ht => ⟨seg hp.1 hq.1 ht, seg hp.2.1 hq.2.1 ht, seg hp.2.2 hq.2.2 ht⟩
  have cx : Continuous fun t => (γ t).x := by simp only [hγ]; fun_prop
  have cy : Continuous fun t => (γ t).y := by simp only [hγ]; fun_prop
  have cz : Continuous fun t => (γ t).z := by simp only [hγ]; fun_prop
  have hc : ContinuousOn (fun t => tetraInside v0 v1 v2 v3 (γ t)) (Icc (0 : ℝ) 1) := by
    intro t0 ht0
    obtain ⟨o1, o2, o3, o4⟩ := tetraFaces_offplane v0 v1 v2 v3 (γ t0) (h _ (hin t0 ht0))
    have ev := tetraInside_eventually γ cx cy cz v0 v1 v2 v3 t0 o1 o2 o3 o4
    exact ((continuousAt_const (y := tetraInside v0 v1 v2 v3 (γ t0))).congr (ev.mono fun _ e => e.symm)).continuousWithinAt
  have := (isPreconnected_Icc (a := (0 : ℝ)) (b := 1)).constant hc (x := 1) (y := 0) (by simp) (by simp)
  have e1 : γ 1 = q := by simp [hγ]
  have e0 : γ 0 = p := by simp [hγ]
  simpa only [e1, e0] using this

/-- discharges `TriFarBox v0 v1 v2 a b m s` for numeric data: the eight corner inequalities, the clamp bound and the three tube bounds
are comparisons of rational numbers -/
macro "tri_far_box" : tactic => `(tactic| (
  refine ⟨by norm_num, by norm_num, ?_, ?_, ?_, ?_, ?_⟩
  · simp only [boxCorners, List.mem_cons, List.not_mem_nil, or_false, forall_eq_or_imp, forall_eq, saN, V3.dot, V3.cross, V3.sub_x,
      V3.sub_y, V3.sub_z]
    norm_num
  · simp only [far2, farAx, max_def]; norm_num
  all_goals (simp only [V3.dot, V3.cross, V3.sub_x, V3.sub_y, V3.sub_z]; norm_num)))

end MagpyVerif.BoxLaws
