/-
Lemmas/KernCylSegLin.lean — C05 for the CylinderSegment: the fields are linear in the polarization *vector*.

  per case function / assembler / dispatch:  Lemmas/KernCylSegLinGen.lean (generated statements, uniform tactic)
  (a) `sph_of_cart`          the code's Cartesian → spherical conversion (|p|/μ₀, arctan2(p_y, p_x),
                             arctan2(√(p_x²+p_y²), p_z)) is a right inverse of spherical → Cartesian — every vector,
                             also 0 and the z-axis (Mathlib: `Complex.sin_arg`, `Complex.cos_arg`)
  (b) `segH_sphlin`          `magnet_cylinder_segment_Hfield` at (M, φ_M, θ_M) = M cos θ · H(e_z) + M sin θ sin φ · H(e_y)
                             + M sin θ cos φ · H(e_x); NaN rows do not depend on the magnetization
  (c) `segCoreH_cartesian`, `segCoreH_linear`, `segCoreH_isSome`   the Cartesian core of the wrapper
  (d) `bhjmCylSeg_linear`    all four outputs of `BHJM_cylinder_segment`, every observer
-/
import MagpyVerif.Lemmas.KernCylSegLinGen
namespace MagpyVerif.Kern.CylSeg
open MagpyVerif MagpyVerif.Kern

/-! ### Cartesian → spherical -/

theorem norm_mk (a b : ℝ) : ‖(⟨a, b⟩ : ℂ)‖ = Real.sqrt (a * a + b * b) := by
  rw [Complex.norm_def, Complex.normSq_mk]

/-- the conversion of `BHJM_cylinder_segment` (amplitude `|p|/μ₀`, azimuth `arctan2(p_y, p_x)`, polar angle
`arctan2(√(p_x²+p_y²), p_z)`) is a right inverse of spherical → Cartesian, for every vector including 0 and the
vectors on the z-axis (where `arctan2(0, 0) = 0`) -/
theorem sph_of_cart (μ : ℝ) (p : V3 ℝ) :
    let m := Real.sqrt (p.x * p.x + p.y * p.y + p.z * p.z) / μ
    let φ := Complex.arg ⟨p.x, p.y⟩
    let θ := Complex.arg ⟨p.z, Real.sqrt (p.x * p.x + p.y * p.y)⟩
    m * Real.cos θ = p.z / μ ∧ m * Real.sin θ * Real.sin φ = p.y / μ ∧ m * Real.sin θ * Real.cos φ = p.x / μ := by
  intro m φ θ
  set ρ := Real.sqrt (p.x * p.x + p.y * p.y) with hρ
  set R := Real.sqrt (p.x * p.x + p.y * p.y + p.z * p.z) with hR
  have hρ0 : 0 ≤ ρ := Real.sqrt_nonneg _
  have hρ2 : ρ * ρ = p.x * p.x + p.y * p.y := Real.mul_self_sqrt (by nlinarith [mul_self_nonneg p.x, mul_self_nonneg p.y])
  have hnθ : ‖(⟨p.z, ρ⟩ : ℂ)‖ = R := by
    rw [norm_mk, hρ2, hR]; congr 1; ring
  have hnφ : ‖(⟨p.x, p.y⟩ : ℂ)‖ = ρ := norm_mk _ _
  have hsθ : Real.sin θ = ρ / R := by
    show Real.sin (Complex.arg _) = _
    rw [Complex.sin_arg, hnθ]
  have hsφ : Real.sin φ = p.y / ρ := by
    show Real.sin (Complex.arg _) = _
    rw [Complex.sin_arg, hnφ]
  by_cases hR0 : R = 0
  · -- the zero vector
    have hsum : p.x * p.x + p.y * p.y + p.z * p.z = 0 := by
      have := Real.sqrt_eq_zero'.mp hR0
      nlinarith [mul_self_nonneg p.x, mul_self_nonneg p.y, mul_self_nonneg p.z]
    have hx : p.x = 0 := by nlinarith [mul_self_nonneg p.x, mul_self_nonneg p.y, mul_self_nonneg p.z]
    have hy : p.y = 0 := by nlinarith [mul_self_nonneg p.x, mul_self_nonneg p.y, mul_self_nonneg p.z]
    have hz : p.z = 0 := by nlinarith [mul_self_nonneg p.x, mul_self_nonneg p.y, mul_self_nonneg p.z]
    have hm : m = 0 := by show R / μ = 0; rw [hR0]; simp
    simp [hm, hx, hy, hz]
  · have hθne : (⟨p.z, ρ⟩ : ℂ) ≠ 0 := by
      intro h; apply hR0; rw [← hnθ, h]; simp
    have hcθ : Real.cos θ = p.z / R := by
      show Real.cos (Complex.arg _) = _
      rw [Complex.cos_arg hθne, hnθ]
    refine ⟨?_, ?_, ?_⟩
    · show R / μ * Real.cos θ = _
      rw [hcθ]; field_simp
    · show R / μ * Real.sin θ * Real.sin φ = _
      rw [hsθ, hsφ]
      by_cases hρne : ρ = 0
      · have : p.y = 0 := by nlinarith [mul_self_nonneg p.x, mul_self_nonneg p.y]
        simp [hρne, this]
      · field_simp
    · show R / μ * Real.sin θ * Real.cos φ = _
      by_cases hρne : ρ = 0
      · have : p.x = 0 := by nlinarith [mul_self_nonneg p.x, mul_self_nonneg p.y]
        rw [hsθ]; simp [hρne, this]
      · have hφne : (⟨p.x, p.y⟩ : ℂ) ≠ 0 := by
          intro h; apply hρne; rw [← hnφ, h]; simp
        have hcφ : Real.cos φ = p.x / ρ := by
          show Real.cos (Complex.arg _) = _
          rw [Complex.cos_arg hφne, hnφ]
        rw [hsθ, hcφ]; field_simp

/-! ### lists -/
theorem filterMap_eq_map_of_forall {β γ : Type} (f : β → Option γ) (g : β → γ) (l : List β)
    (h : ∀ x ∈ l, f x = some (g x)) : l.filterMap f = l.map g := by
  induction l with
  | nil => rfl
  | cons a t ih =>
    rw [List.filterMap_cons, h a (by simp), List.map_cons, ih (fun x hx => h x (by simp [hx]))]

theorem filterMap_length_lt_of_none {β γ : Type} (f : β → Option γ) (l : List β) (x : β) (hx : x ∈ l)
    (h : f x = none) : (l.filterMap f).length < l.length := by
  induction l with
  | nil => simp at hx
  | cons a t ih =>
    rw [List.filterMap_cons]
    rcases List.mem_cons.mp hx with rfl | hx'
    · rw [h]
      exact Nat.lt_succ_of_le (List.length_filterMap_le f t)
    · have := ih hx'
      cases f a <;> simp only [List.length_cons] <;> omega


/-! ### the boundary sum -/

/-- `a·X + b·Y + c·Z` where all three are present -/
def ocomb (a b c : ℝ) : Option (V3 ℝ) → Option (V3 ℝ) → Option (V3 ℝ) → Option (V3 ℝ)
  | some X, some Y, some Z =>
    some ⟨a * X.x + b * Y.x + c * Z.x, a * X.y + b * Y.y + c * Z.y, a * X.z + b * Y.z + c * Z.z⟩
  | _, _, _ => none

theorem boundaryBlock_sphlin (μ : ℝ) (S : SegSpecial) (r phi z r1 r2 p1 p2 z1 z2 : ℝ) (s : Nat) :
    SphLinO fun φ θ => @boundaryBlock ℝ (realNumX μ S) r phi z r1 r2 p1 p2 z1 z2 φ θ s := by
  unfold boundaryBlock
  exact caseDispatch_sphlin μ S _ r phi z _ _ _

/-- the signed sum over the eight boundaries and the three face types, and the amplitude factor, written out -/
noncomputable def segSum (μ : ℝ) (S : SegSpecial) (mag : ℝ) (g : Nat → V3 (V3 ℝ)) : V3 ℝ :=
  let s := [@faceDiff ℝ (realNumX μ S) (g 1) (g 0), @faceDiff ℝ (realNumX μ S) (g 2) (g 3),
      @faceDiff ℝ (realNumX μ S) (g 4) (g 5), @faceDiff ℝ (realNumX μ S) (g 7) (g 6)].foldl
    (fun (acc : V3 ℝ) d => ⟨acc.x + @rowSum ℝ (realNumX μ S) d.x, acc.y + @rowSum ℝ (realNumX μ S) d.y,
      acc.z + @rowSum ℝ (realNumX μ S) d.z⟩) (@zero3 ℝ (realNum μ))
  let c (v : ℝ) : ℝ := v * mag * (@n ℝ (realNum μ) 1 / @n ℝ (realNum μ) 10000000) / μ
  ⟨c s.x, c s.y, c s.z⟩

theorem segH_of_some (μ : ℝ) (S : SegSpecial) (r phi z r1 r2 p1 p2 z1 z2 mag φ θ : ℝ) (g : Nat → V3 (V3 ℝ))
    (h : ∀ s ∈ List.range 8, @boundaryBlock ℝ (realNumX μ S) r phi z r1 r2 p1 p2 z1 z2 φ θ s = some (g s)) :
    @segH ℝ (realNumX μ S) r phi z r1 r2 p1 p2 z1 z2 mag φ θ = some (segSum μ S mag g) := by
  unfold segH
  dsimp only
  rw [filterMap_eq_map_of_forall _ g _ h]
  have e : (List.range 8).map g = [g 0, g 1, g 2, g 3, g 4, g 5, g 6, g 7] := rfl
  rw [e]
  have eb : @boundarySum ℝ (realNumX μ S) [g 0, g 1, g 2, g 3, g 4, g 5, g 6, g 7] =
      some ([@faceDiff ℝ (realNumX μ S) (g 1) (g 0), @faceDiff ℝ (realNumX μ S) (g 2) (g 3), @faceDiff ℝ (realNumX μ S) (g 4) (g 5),
        @faceDiff ℝ (realNumX μ S) (g 7) (g 6)].foldl
        (fun (acc : V3 ℝ) d => ⟨acc.x + @rowSum ℝ (realNumX μ S) d.x, acc.y + @rowSum ℝ (realNumX μ S) d.y, acc.z + @rowSum ℝ (realNumX μ S) d.z⟩)
        (@zero3 ℝ (realNum μ))) := by
    simp [boundarySum, plusIdx, minusIdx]
  rw [eb, if_pos (by rfl), Option.map_some]
  rfl

theorem segH_of_none (μ : ℝ) (S : SegSpecial) (r phi z r1 r2 p1 p2 z1 z2 mag φ θ : ℝ) (s : Nat) (hs : s ∈ List.range 8)
    (h : @boundaryBlock ℝ (realNumX μ S) r phi z r1 r2 p1 p2 z1 z2 φ θ s = none) :
    @segH ℝ (realNumX μ S) r phi z r1 r2 p1 p2 z1 z2 mag φ θ = none := by
  unfold segH
  dsimp only
  have := filterMap_length_lt_of_none _ _ s hs h
  rw [List.length_range] at this
  rw [if_neg]
  simp only [beq_iff_eq]
  omega


/-- the boundary sum is linear in the eight blocks, the amplitude factor in the amplitude -/
theorem segSum_comb3 (μ : ℝ) (S : SegSpecial) (mag a b c : ℝ) (X Y Z : Nat → V3 (V3 ℝ)) :
    segSum μ S mag (fun s => comb3 a b c (X s) (Y s) (Z s)) =
      ⟨(mag * a) * (segSum μ S 1 X).x + (mag * b) * (segSum μ S 1 Y).x + (mag * c) * (segSum μ S 1 Z).x,
       (mag * a) * (segSum μ S 1 X).y + (mag * b) * (segSum μ S 1 Y).y + (mag * c) * (segSum μ S 1 Z).y,
       (mag * a) * (segSum μ S 1 X).z + (mag * b) * (segSum μ S 1 Y).z + (mag * c) * (segSum μ S 1 Z).z⟩ := by
  apply V3.ext' <;>
    (simp only [segSum, comb3, faceDiff, rowSum, List.foldl_cons, List.foldl_nil, zero3, n, ofNat_real]; ring)

/-- the block of boundary `s`, with `none` replaced by anything -/
noncomputable def blockD (μ : ℝ) (S : SegSpecial) (r phi z r1 r2 p1 p2 z1 z2 : ℝ) (s : Nat) (φ θ : ℝ) : V3 (V3 ℝ) :=
  (@boundaryBlock ℝ (realNumX μ S) r phi z r1 r2 p1 p2 z1 z2 φ θ s).getD ⟨⟨0, 0, 0⟩, ⟨0, 0, 0⟩, ⟨0, 0, 0⟩⟩

theorem boundaryBlock_kind (μ : ℝ) (S : SegSpecial) (r phi z r1 r2 p1 p2 z1 z2 : ℝ) (s : Nat) :
    (∀ φ θ, @boundaryBlock ℝ (realNumX μ S) r phi z r1 r2 p1 p2 z1 z2 φ θ s = none) ∨
    ((∀ φ θ, @boundaryBlock ℝ (realNumX μ S) r phi z r1 r2 p1 p2 z1 z2 φ θ s =
        some (blockD μ S r phi z r1 r2 p1 p2 z1 z2 s φ θ)) ∧
      SphLinB (blockD μ S r phi z r1 r2 p1 p2 z1 z2 s)) := by
  rcases boundaryBlock_sphlin μ S r phi z r1 r2 p1 p2 z1 z2 s with h | ⟨G', h1, h2⟩
  · exact Or.inl h
  · have h1 : ∀ φ θ, @boundaryBlock ℝ (realNumX μ S) r phi z r1 r2 p1 p2 z1 z2 φ θ s = some (G' φ θ) := h1
    have e : blockD μ S r phi z r1 r2 p1 p2 z1 z2 s = G' := by
      funext φ θ
      simp only [blockD]
      rw [h1 φ θ]
      rfl
    rw [e]
    exact Or.inr ⟨h1, h2⟩

/-- **`magnet_cylinder_segment_Hfield` is linear in the magnetization vector** `M·(sin θ cos φ, sin θ sin φ, cos θ)`:
its value at amplitude `M` and angles `(φ, θ)` is the combination of its values at unit amplitude along `e_z`,
`e_y`, `e_x` with the Cartesian components of the vector as coefficients; whether a row is NaN (`none`) does not
depend on the magnetization at all -/
theorem segH_sphlin (μ : ℝ) (S : SegSpecial) (r phi z r1 r2 p1 p2 z1 z2 mag φ θ : ℝ) :
    @segH ℝ (realNumX μ S) r phi z r1 r2 p1 p2 z1 z2 mag φ θ =
      ocomb (mag * Real.cos θ) (mag * (Real.sin θ * Real.sin φ)) (mag * (Real.sin θ * Real.cos φ))
        (@segH ℝ (realNumX μ S) r phi z r1 r2 p1 p2 z1 z2 1 0 0)
        (@segH ℝ (realNumX μ S) r phi z r1 r2 p1 p2 z1 z2 1 (Real.pi / 2) (Real.pi / 2))
        (@segH ℝ (realNumX μ S) r phi z r1 r2 p1 p2 z1 z2 1 0 (Real.pi / 2)) := by
  by_cases hnone : ∃ s ∈ List.range 8, ∀ φ θ, @boundaryBlock ℝ (realNumX μ S) r phi z r1 r2 p1 p2 z1 z2 φ θ s = none
  · obtain ⟨s, hs, h⟩ := hnone
    rw [segH_of_none μ S r phi z r1 r2 p1 p2 z1 z2 mag φ θ s hs (h φ θ),
      segH_of_none μ S r phi z r1 r2 p1 p2 z1 z2 1 0 0 s hs (h 0 0)]
    rfl
  · have hall : ∀ s ∈ List.range 8, (∀ φ θ, @boundaryBlock ℝ (realNumX μ S) r phi z r1 r2 p1 p2 z1 z2 φ θ s =
          some (blockD μ S r phi z r1 r2 p1 p2 z1 z2 s φ θ)) ∧ SphLinB (blockD μ S r phi z r1 r2 p1 p2 z1 z2 s) := by
      intro s hs
      rcases boundaryBlock_kind μ S r phi z r1 r2 p1 p2 z1 z2 s with h | h
      · exact absurd ⟨s, hs, h⟩ hnone
      · exact h
    have hsome : ∀ mag φ θ, @segH ℝ (realNumX μ S) r phi z r1 r2 p1 p2 z1 z2 mag φ θ =
        some (segSum μ S mag fun s => blockD μ S r phi z r1 r2 p1 p2 z1 z2 s φ θ) := fun mag φ θ =>
      segH_of_some μ S r phi z r1 r2 p1 p2 z1 z2 mag φ θ _ fun s hs => (hall s hs).1 φ θ
    rw [hsome, hsome, hsome, hsome]
    simp only [ocomb]
    congr 1
    -- only the blocks 0 … 7 enter the sum
    have hlin : segSum μ S mag (fun s => blockD μ S r phi z r1 r2 p1 p2 z1 z2 s φ θ) =
        segSum μ S mag (fun s => comb3 (Real.cos θ) (Real.sin θ * Real.sin φ) (Real.sin θ * Real.cos φ)
          (blockD μ S r phi z r1 r2 p1 p2 z1 z2 s 0 0) (blockD μ S r phi z r1 r2 p1 p2 z1 z2 s (Real.pi / 2) (Real.pi / 2))
          (blockD μ S r phi z r1 r2 p1 p2 z1 z2 s 0 (Real.pi / 2))) := by
      have h8 : ∀ s, s < 8 → blockD μ S r phi z r1 r2 p1 p2 z1 z2 s φ θ = comb3 (Real.cos θ) (Real.sin θ * Real.sin φ) (Real.sin θ * Real.cos φ)
          (blockD μ S r phi z r1 r2 p1 p2 z1 z2 s 0 0) (blockD μ S r phi z r1 r2 p1 p2 z1 z2 s (Real.pi / 2) (Real.pi / 2))
          (blockD μ S r phi z r1 r2 p1 p2 z1 z2 s 0 (Real.pi / 2)) := fun s hs => (hall s (List.mem_range.mpr hs)).2 φ θ
      simp only [segSum, h8 0 (by omega), h8 1 (by omega), h8 2 (by omega), h8 3 (by omega), h8 4 (by omega), h8 5 (by omega),
        h8 6 (by omega), h8 7 (by omega)]
    rw [hlin, segSum_comb3]


/-! ### the Cartesian core and the wrapper -/

/-- `a·X + b·Y` where both are present (a NaN row stays a NaN row) -/
def olin (a b : ℝ) : Option (V3 ℝ) → Option (V3 ℝ) → Option (V3 ℝ)
  | some X, some Y => some ⟨a * X.x + b * Y.x, a * X.y + b * Y.y, a * X.z + b * Y.z⟩
  | _, _ => none

/-- `a·p + b·q` -/
def lin2 (a b : ℝ) (p q : V3 ℝ) : V3 ℝ := ⟨a * p.x + b * q.x, a * p.y + b * q.y, a * p.z + b * q.z⟩

/-- the Cartesian H of the segment core for *unit magnetization* in the direction with azimuth `φ` and polar angle
`θ` — a function of the geometry and the observer only -/
noncomputable def segCoreUnit (μ : ℝ) (S : SegSpecial) (N : SegNorm ℝ) (φ θ : ℝ) : Option (V3 ℝ) :=
  let r := Real.sqrt (N.obs.x * N.obs.x + N.obs.y * N.obs.y)
  let phi := Complex.arg ⟨N.obs.x, N.obs.y⟩
  (@segH ℝ (realNumX μ S) r phi N.obs.z N.r1 N.r2 N.phi1 N.phi2 N.z1 N.z2 1 φ θ).map fun hc =>
    ⟨hc.x * Real.cos phi - hc.y * Real.sin phi, hc.x * Real.sin phi + hc.y * Real.cos phi, hc.z⟩

theorem ocomb_map_rot (a b c cs sn : ℝ) (X Y Z : Option (V3 ℝ)) :
    (ocomb a b c X Y Z).map (fun hc : V3 ℝ => (⟨hc.x * cs - hc.y * sn, hc.x * sn + hc.y * cs, hc.z⟩ : V3 ℝ)) =
      ocomb a b c (X.map fun hc => ⟨hc.x * cs - hc.y * sn, hc.x * sn + hc.y * cs, hc.z⟩)
        (Y.map fun hc => ⟨hc.x * cs - hc.y * sn, hc.x * sn + hc.y * cs, hc.z⟩)
        (Z.map fun hc => ⟨hc.x * cs - hc.y * sn, hc.x * sn + hc.y * cs, hc.z⟩) := by
  cases X <;> cases Y <;> cases Z <;> simp only [ocomb, Option.map_none, Option.map_some]
  congr 1
  apply V3.ext' <;> simp only [] <;> ring

/-- **the segment core in Cartesian components of the polarization**: `BHJM_cylinder_segment` converts the
polarization to spherical coordinates and calls the core; the result is `p_x/μ₀ · E_x + p_y/μ₀ · E_y + p_z/μ₀ · E_z`
with the three unit fields `E` depending on geometry and observer only -/
theorem segCoreH_cartesian (μ : ℝ) (S : SegSpecial) (N : SegNorm ℝ) (pol : V3 ℝ) :
    @segCoreH ℝ (realNumX μ S) N pol =
      ocomb (pol.z / μ) (pol.y / μ) (pol.x / μ) (segCoreUnit μ S N 0 0)
        (segCoreUnit μ S N (Real.pi / 2) (Real.pi / 2)) (segCoreUnit μ S N 0 (Real.pi / 2)) := by
  obtain ⟨h1, h2, h3⟩ := sph_of_cart μ pol
  simp only [mul_assoc] at h2 h3
  unfold segCoreH segCoreUnit
  simp only [sq, sqrt_real, atan2_real, mu0_real, sin_real, cos_real]
  rw [segH_sphlin, h1, h2, h3, ocomb_map_rot]

theorem olin_ocomb (a b a1 b1 c1 a2 b2 c2 : ℝ) (X Y Z : Option (V3 ℝ)) :
    ocomb (a * a1 + b * a2) (a * b1 + b * b2) (a * c1 + b * c2) X Y Z =
      olin a b (ocomb a1 b1 c1 X Y Z) (ocomb a2 b2 c2 X Y Z) := by
  cases X <;> cases Y <;> cases Z <;> simp only [ocomb, olin]
  congr 1
  apply V3.ext' <;> simp only [] <;> ring

/-- **C05: the segment core is linear in the polarization vector** (same geometry, same observer): also for
vectors of different direction, for the zero vector and for vectors on the z-axis -/
theorem segCoreH_linear (μ : ℝ) (S : SegSpecial) (N : SegNorm ℝ) (a b : ℝ) (p q : V3 ℝ) :
    @segCoreH ℝ (realNumX μ S) N (lin2 a b p q) =
      olin a b (@segCoreH ℝ (realNumX μ S) N p) (@segCoreH ℝ (realNumX μ S) N q) := by
  rw [segCoreH_cartesian, segCoreH_cartesian, segCoreH_cartesian, ← olin_ocomb]
  congr 1 <;> simp only [lin2] <;> ring

/-- whether the core returns a NaN row does not depend on the polarization -/
theorem segCoreH_isSome (μ : ℝ) (S : SegSpecial) (N : SegNorm ℝ) (p q : V3 ℝ) :
    (@segCoreH ℝ (realNumX μ S) N p).isSome = (@segCoreH ℝ (realNumX μ S) N q).isSome := by
  rw [segCoreH_cartesian, segCoreH_cartesian]
  cases segCoreUnit μ S N 0 0 <;> cases segCoreUnit μ S N (Real.pi / 2) (Real.pi / 2) <;>
    cases segCoreUnit μ S N 0 (Real.pi / 2) <;> rfl

theorem wrapSegment_lin2 (μ a b : ℝ) (f : Field) (i ns : Bool) (p q c1 c2 : V3 ℝ) :
    @wrapSegment ℝ (realNum μ) f i ns (lin2 a b p q) (lin2 a b c1 c2) =
      lin2 a b (@wrapSegment ℝ (realNum μ) f i ns p c1) (@wrapSegment ℝ (realNum μ) f i ns q c2) := by
  cases f <;> cases i <;> cases ns <;>
    (apply V3.ext' <;> simp [wrapSegment, lin2, vs, vd, zero3, n] <;> ring)

theorem lin2_zero3 (μ a b : ℝ) : lin2 a b (@zero3 ℝ (realNum μ)) (@zero3 ℝ (realNum μ)) = @zero3 ℝ (realNum μ) := by
  apply V3.ext' <;> simp [lin2, zero3, n]

/-- **C05 for the ported `BHJM_cylinder_segment`: every output (B, H, J, M) is linear in the polarization
vector**, at every observer (inside, outside, on the surface); a NaN row (an unhandled case id at one of the eight
boundaries, which depends on geometry and observer only) is a NaN row for every polarization -/
theorem bhjmCylSeg_linear (μ : ℝ) (S : SegSpecial) (a b : ℝ) (f : Field) (x : V3 ℝ) (r1 r2 h p1 p2 : ℝ) (p q : V3 ℝ) :
    @bhjmCylSeg ℝ (realNumX μ S) f x r1 r2 h p1 p2 (lin2 a b p q) =
      olin a b (@bhjmCylSeg ℝ (realNumX μ S) f x r1 r2 h p1 p2 p) (@bhjmCylSeg ℝ (realNumX μ S) f x r1 r2 h p1 p2 q) := by
  unfold bhjmCylSeg
  dsimp only
  generalize @segMasks ℝ (realNumX μ S) _ _ _ _ _ _ _ _ _ = m
  have hw0 : ∀ f' i ns, some (@wrapSegment ℝ (realNum μ) f' i ns (lin2 a b p q) (@zero3 ℝ (realNum μ))) =
      olin a b (some (@wrapSegment ℝ (realNum μ) f' i ns p (@zero3 ℝ (realNum μ))))
        (some (@wrapSegment ℝ (realNum μ) f' i ns q (@zero3 ℝ (realNum μ)))) := by
    intro f' i ns
    have := wrapSegment_lin2 μ a b f' i ns p q (@zero3 ℝ (realNum μ)) (@zero3 ℝ (realNum μ))
    rw [lin2_zero3] at this
    rw [this]
    rfl
  have key : (if m.notOnSurf = true then
        Option.map (fun hh => @wrapSegment ℝ (realNum μ) f m.inside m.notOnSurf (lin2 a b p q) hh)
          (@segCoreH ℝ (realNumX μ S) (@segNormalise ℝ (realNumX μ S) x r1 r2 h p1 p2) (lin2 a b p q))
      else some (@wrapSegment ℝ (realNum μ) f m.inside m.notOnSurf (lin2 a b p q) (@zero3 ℝ (realNum μ)))) =
      olin a b (if m.notOnSurf = true then
        Option.map (fun hh => @wrapSegment ℝ (realNum μ) f m.inside m.notOnSurf p hh)
          (@segCoreH ℝ (realNumX μ S) (@segNormalise ℝ (realNumX μ S) x r1 r2 h p1 p2) p)
      else some (@wrapSegment ℝ (realNum μ) f m.inside m.notOnSurf p (@zero3 ℝ (realNum μ))))
      (if m.notOnSurf = true then
        Option.map (fun hh => @wrapSegment ℝ (realNum μ) f m.inside m.notOnSurf q hh)
          (@segCoreH ℝ (realNumX μ S) (@segNormalise ℝ (realNumX μ S) x r1 r2 h p1 p2) q)
      else some (@wrapSegment ℝ (realNum μ) f m.inside m.notOnSurf q (@zero3 ℝ (realNum μ)))) := by
    split
    · rw [segCoreH_linear]
      cases @segCoreH ℝ (realNumX μ S) (@segNormalise ℝ (realNumX μ S) x r1 r2 h p1 p2) p <;>
        cases @segCoreH ℝ (realNumX μ S) (@segNormalise ℝ (realNumX μ S) x r1 r2 h p1 p2) q <;>
        simp only [olin, Option.map_none, Option.map_some]
      congr 1
      exact wrapSegment_lin2 μ a b f _ _ p q _ _
    · exact hw0 _ _ _
  cases f
  case J => exact hw0 _ _ _
  case M => exact hw0 _ _ _
  case B => exact key
  case H => exact key

/-! ### the translator's syntactic scan (tables emitted into Model/CylSeg.lean and regenerated into Gen/CylSegGen.lean) -/

/-- no case function passes an expression that depends on `theta_M`, `phi_bar_M` or `phi_bar_Mj` to anything but
`np.sin` / `np.cos`, divides by one, raises one to a power, or compares one -/
theorem magArgOffences_empty : magArgOffences = [] := rfl

/-- the arguments of `ellipkinc`, `ellipeinc`, `el3_angle` never depend on the magnetization direction: in every
call, in every case function, they are built from `r`, `r_i`, `r_bar_i`, `phi_bar_j`, `z_bar_k` only -/
theorem specialCallDeps_magnetization_free :
    specialCallDeps.all (fun e => e.2.2.all fun v => v ∈ ["r", "r_i", "r_bar_i", "phi_bar_j", "z_bar_k"]) = true := by
  decide

end MagpyVerif.Kern.CylSeg
