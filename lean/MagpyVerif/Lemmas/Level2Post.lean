/- the post-processing of getBH_level2 (pixel_agg as an arbitrary reduction, sumup, squeeze, dataframe):
closed forms of `Model/Level2.level2CoreF / getBHF / dataframeF`, their relation to the `Agg` versions the integer
driver runs, and the lemmas behind Props/C03 `covariance_after_postprocessing`, Props/C04
`pixel_agg_is_reduction_of_sensor_frame_values`, Props/C05 `sumup_after_eq_sum_before` (c03post) -/
import MagpyVerif.Lemmas.Level2Shape
import MagpyVerif.Lemmas.OpHom
namespace MagpyVerif.Level2
set_option linter.unusedSectionVars false
variable {G V : Type}

/-! ### the `Agg` versions are instances of the `…F` versions -/
section inst
variable [Mul G] [Inv G] [One G] [SMul G V] [Add V] [Sub V] [Zero V] [BEq G]

theorem aggT_eq_F (a : Agg) (vmin vmax : V → V → V) (B : List (List (List (List V)))) :
    aggT a vmin vmax B = aggTF (aggList a vmin vmax) B := rfl

theorem level2Core_eq_F (flipX : V → V) (vmin vmax : V → V → V) (entries : List (Entry G V))
    (sensors : List (Sens G V)) (sumup : Bool) (agg : Agg) :
    level2Core flipX vmin vmax entries sensors sumup agg =
      level2CoreF flipX entries sensors sumup (agg.fn vmin vmax) := by
  cases agg <;> rfl

theorem getBH_eq_F (flipX : V → V) (vmin vmax : V → V → V) (entries : List (Entry G V))
    (sensors : List (Sens G V)) (sumup squeeze : Bool) (agg : Agg) :
    getBH flipX vmin vmax entries sensors sumup squeeze agg =
      getBHF flipX entries sensors sumup squeeze (agg.fn vmin vmax) := by
  unfold getBH getBHF
  rw [level2Core_eq_F]
  cases agg <;> rfl

theorem dataframe_eq_F (flipX : V → V) (vmin vmax : V → V → V) (entries : List (Entry G V))
    (sensors : List (Sens G V)) (sumup : Bool) (agg : Agg) :
    dataframe flipX vmin vmax entries sensors sumup agg =
      dataframeF flipX entries sensors sumup (agg.fn vmin vmax) := by
  unfold dataframe dataframeF
  rw [level2Core_eq_F]
  cases agg <;> rfl
end inst

/-! ### closed forms -/
section core
variable [Mul G] [Inv G] [One G] [SMul G V] [Add V] [Sub V] [Zero V] [BEq G]

/-- the inputs getBH_level2 rejects (as `BadInput`, for an arbitrary reduction) -/
def BadInputF (entries : List (Entry G V)) (sensors : List (Sens G V)) (agg : Option (List V → V)) : Prop :=
  entries = [] ∨ sensors = [] ∨ (∃ e ∈ entries, e.leaves = []) ∨
    (agg = none ∧ ∃ k ∈ sensors, ∃ k' ∈ sensors, k.pixShape ≠ k'.pixShape)

/-- B after pixel_agg and sumup -/
def coreBF (flipX : V → V) (entries : List (Entry G V)) (sensors : List (Sens G V)) (sumup : Bool)
    (agg : Option (List V → V)) : List (List (List (List V))) :=
  (if sumup then sumupT else id)
    (match agg with
     | none => tensor flipX entries sensors
     | some f => aggTF f (tensor flipX entries sensors))

/-- shape of B after pixel_agg and sumup -/
def shape0F (entries : List (Entry G V)) (sensors : List (Sens G V)) (sumup : Bool)
    (agg : Option (List V → V)) : List Nat :=
  [if sumup then 1 else entries.length, pathLen (entries.flatMap Entry.leaves) sensors, sensors.length] ++
    (match agg with | none => (sensors.map (·.pixShape)).headD [] | some _ => [])

theorem level2CoreF_error_iff (flipX : V → V) (entries : List (Entry G V))
    (sensors : List (Sens G V)) (sumup : Bool) (agg : Option (List V → V)) (err : Err) :
    level2CoreF flipX entries sensors sumup agg = .error err ↔
      err = .badUserInput ∧ BadInputF entries sensors agg := by
  have hall := allSame_iff sensors
  unfold level2CoreF BadInputF
  by_cases h1 : (entries.isEmpty || sensors.isEmpty || entries.any fun e => e.leaves.isEmpty) = true
  · rw [if_pos h1]
    simp only [Bool.or_eq_true, List.isEmpty_iff, List.any_eq_true] at h1
    constructor
    · intro h
      refine ⟨by cases h; rfl, ?_⟩
      rcases h1 with (h1 | h1) | h1
      · exact Or.inl h1
      · exact Or.inr (Or.inl h1)
      · exact Or.inr (Or.inr (Or.inl h1))
    · rintro ⟨rfl, _⟩; rfl
  · rw [if_neg h1]
    simp only [Bool.or_eq_true, List.isEmpty_iff, List.any_eq_true, not_or, not_exists, not_and] at h1
    obtain ⟨⟨hE, hS⟩, hC⟩ := h1
    by_cases h2 : (agg.isNone && !((sensors.map (·.pixShape)).all
        (· == (sensors.map (·.pixShape)).headD []))) = true
    · simp only [] at h2 ⊢
      rw [if_pos h2]
      simp only [Bool.and_eq_true, Option.isNone_iff_eq_none, Bool.not_eq_true'] at h2
      constructor
      · intro h
        refine ⟨by cases h; rfl, Or.inr (Or.inr (Or.inr ⟨h2.1, ?_⟩))⟩
        by_contra hcon
        have : ∀ k ∈ sensors, ∀ k' ∈ sensors, k.pixShape = k'.pixShape := by
          intro k hk k' hk'
          by_contra hne
          exact hcon ⟨k, hk, k', hk', hne⟩
        rw [hall.mpr this] at h2
        exact Bool.noConfusion h2.2
      · rintro ⟨rfl, _⟩; rfl
    · simp only [] at h2 ⊢
      rw [if_neg h2]
      simp only [Bool.and_eq_true, Option.isNone_iff_eq_none, Bool.not_eq_true', not_and,
        Bool.not_eq_false] at h2
      constructor
      · intro h; cases agg <;> cases h
      · rintro ⟨_, hbad⟩
        exfalso
        rcases hbad with h | h | ⟨e, he, hl⟩ | ⟨ha, k, hk, k', hk', hne⟩
        · exact hE h
        · exact hS h
        · exact hC e he (by simp [hl])
        · exact hne ((hall.mp (h2 ha)) k hk k' hk')

theorem level2CoreF_ok (flipX : V → V) (entries : List (Entry G V))
    (sensors : List (Sens G V)) (sumup : Bool) (agg : Option (List V → V))
    (hok : ¬ BadInputF entries sensors agg) :
    level2CoreF flipX entries sensors sumup agg = .ok
      { nsrc := if sumup then 1 else entries.length
        M := pathLen (entries.flatMap Entry.leaves) sensors
        pixShapeOut := (match agg with | none => (sensors.map (·.pixShape)).headD [] | some _ => [])
        B := coreBF flipX entries sensors sumup agg } := by
  cases hc : level2CoreF flipX entries sensors sumup agg with
  | error err => exact absurd ((level2CoreF_error_iff _ _ _ _ _ _).mp hc).2 hok
  | ok c =>
    unfold level2CoreF at hc
    split at hc
    · cases hc
    · simp only [] at hc
      split at hc
      · cases hc
      · cases agg <;> cases sumup <;> simp_all [coreBF]

theorem getBHF_ok (flipX : V → V) (entries : List (Entry G V))
    (sensors : List (Sens G V)) (sumup squeeze : Bool) (agg : Option (List V → V))
    (hok : ¬ BadInputF entries sensors agg) :
    getBHF flipX entries sensors sumup squeeze agg = .ok
      { shape := if squeeze then (shape0F entries sensors sumup agg).filter (· ≠ 1)
                 else if agg.isSome then shape0F entries sensors sumup agg ++ [1]
                 else shape0F entries sensors sumup agg
        data := flat4 (coreBF flipX entries sensors sumup agg) } := by
  unfold getBHF
  rw [level2CoreF_ok flipX entries sensors sumup agg hok]
  cases agg <;> cases squeeze <;> simp [shape0F]

theorem getBHF_error_iff (flipX : V → V) (entries : List (Entry G V))
    (sensors : List (Sens G V)) (sumup squeeze : Bool) (agg : Option (List V → V)) (err : Err) :
    getBHF flipX entries sensors sumup squeeze agg = .error err ↔
      err = .badUserInput ∧ BadInputF entries sensors agg := by
  rw [← level2CoreF_error_iff flipX entries sensors sumup agg err]
  unfold getBHF
  cases level2CoreF flipX entries sensors sumup agg <;> simp

theorem not_bad_of_getBHF_ok {flipX : V → V} {entries : List (Entry G V)}
    {sensors : List (Sens G V)} {sumup squeeze : Bool} {agg : Option (List V → V)} {out : Out V}
    (h : getBHF flipX entries sensors sumup squeeze agg = .ok out) :
    ¬ BadInputF entries sensors agg := by
  intro hbad
  have := (getBHF_error_iff flipX entries sensors sumup squeeze agg .badUserInput).mpr ⟨rfl, hbad⟩
  rw [this] at h
  cases h

theorem dataframeF_ok (flipX : V → V) (entries : List (Entry G V))
    (sensors : List (Sens G V)) (sumup : Bool) (agg : Option (List V → V))
    (hok : ¬ BadInputF entries sensors agg) :
    dataframeF flipX entries sensors sumup agg = .ok
      { index := product4 (srcIds entries sumup)
          (List.range (pathLen (entries.flatMap Entry.leaves) sensors)) (List.range sensors.length)
          (List.range (if agg.isNone then ((sensors.map (·.pixShape)).headD []).foldl (· * ·) 1 else 1))
        values := flat4 (coreBF flipX entries sensors sumup agg) } := by
  unfold dataframeF
  rw [level2CoreF_ok flipX entries sensors sumup agg hok]
  cases agg <;> simp [srcIds]
end core

/-! ### pixel_agg with an arbitrary reduction -/
section agg

theorem aggTF_rect {T : List (List (List (List V)))} {L M K : Nat} (f : List V → V)
    (h : Rect3 T L M K) : Rect4 (aggTF f T) L M K 1 := by
  refine ⟨⟨?_, ?_, ?_⟩, ?_⟩
  · simp [aggTF, h.len]
  · intro x hx
    simp only [aggTF, List.mem_map] at hx
    obtain ⟨y, hy, rfl⟩ := hx
    simp [h.l1 y hy]
  · intro x hx b hb
    simp only [aggTF, List.mem_map] at hx
    obtain ⟨y, hy, rfl⟩ := hx
    simp only [List.mem_map] at hb
    obtain ⟨z, hz, rfl⟩ := hb
    simp [h.l2 y hy z hz]
  · intro x hx b hb c hc
    simp only [aggTF, List.mem_map] at hx
    obtain ⟨y, hy, rfl⟩ := hx
    simp only [List.mem_map] at hb
    obtain ⟨z, hz, rfl⟩ := hb
    simp only [List.mem_map] at hc
    obtain ⟨w, _, rfl⟩ := hc
    rfl

/-- the single value pixel_agg leaves for `[l][m][k]` is the reduction of that sensor's pixel list -/
theorem aggTF_getElem? (f : List V → V) (T : List (List (List (List V)))) (l m k : Nat) :
    ((((aggTF f T)[l]?.bind (·[m]?)).bind (·[k]?)).bind (·[0]?)) =
      ((T[l]?.bind (·[m]?)).bind (·[k]?)).map f := by
  simp only [aggTF, List.getElem?_map]
  cases T[l]? with
  | none => rfl
  | some x =>
    simp only [Option.map_some, Option.bind_some, List.getElem?_map]
    cases x[m]? with
    | none => rfl
    | some y =>
      simp only [Option.map_some, Option.bind_some, List.getElem?_map]
      cases y[k]? with
      | none => rfl
      | some z => rfl
end agg

section rect
variable [Group G] [AddCommGroup V] [DistribMulAction G V] [BEq G] [LawfulBEq G]

/-- the array the library returns is rectangular, with the documented axis lengths (any reduction) -/
theorem coreBF_rect (flipX : V → V) (entries : List (Entry G V))
    (sensors : List (Sens G V)) (sumup : Bool) (agg : Option (List V → V))
    (hok : ¬ BadInputF entries sensors agg) (hs : ∀ k ∈ sensors, k.WF)
    (k0 : Sens G V) (hk0 : sensors.head? = some k0) :
    Rect4 (coreBF flipX entries sensors sumup agg)
      (if sumup then 1 else entries.length) (pathLen (entries.flatMap Entry.leaves) sensors)
      sensors.length (if agg.isNone then pixNum k0 else 1) := by
  have he : ∀ e ∈ entries, e.leaves ≠ [] := fun e he hl => hok (Or.inr (Or.inr (Or.inl ⟨e, he, hl⟩)))
  have hL : 0 < entries.length := List.length_pos_iff.mpr (fun h => hok (Or.inl h))
  have hk0mem : k0 ∈ sensors := List.mem_of_mem_head? (by rw [hk0]; rfl)
  have hbase : Rect4 (match agg with
      | none => tensor flipX entries sensors
      | some f => aggTF f (tensor flipX entries sensors)) entries.length
      (pathLen (entries.flatMap Entry.leaves) sensors) sensors.length
      (if agg.isNone then pixNum k0 else 1) := by
    rw [tensor_eq_spec flipX entries sensors he hs]
    cases agg with
    | none =>
      simp only [Option.isNone_none, if_true]
      apply specTensor_rect4
      intro k hk
      refine ⟨hs k hk, pixNum_congr k k0 ?_⟩
      by_contra hne
      exact hok (Or.inr (Or.inr (Or.inr ⟨rfl, k, hk, k0, hk0mem, hne⟩)))
    | some f =>
      simp only [Option.isNone_some, Bool.false_eq_true, if_false]
      exact aggTF_rect f (specTensor_rect3 flipX entries sensors)
  unfold coreBF
  cases sumup
  · simpa using hbase
  · simp only [if_true]
    exact sumupT_rect hbase hL
end rect

/-! ### a common rigid motion of all sources and all sensors: nothing downstream of the tensor sees it -/
section moved
variable [Group G] [AddCommGroup V] [DistribMulAction G V] [BEq G] [LawfulBEq G]

/-- the pipeline tensor of the moved scene (this is Props/C03 `covariance_end_to_end`, needed here as a lemma) -/
theorem tensor_moved (flipX : V → V) (Q : G) (t : V) (entries : List (Entry G V))
    (sensors : List (Sens G V)) (he : ∀ e ∈ entries, e.leaves ≠ []) (hs : ∀ k ∈ sensors, k.WF) :
    tensor flipX (entries.map (Entry.moved Q t)) (sensors.map (Sens.moved Q t)) =
      tensor flipX entries sensors := by
  have hs' : ∀ k ∈ sensors.map (Sens.moved Q t), k.WF := by
    intro k h
    obtain ⟨k0, h0, rfl⟩ := List.mem_map.mp h
    exact Sens.moved_WF Q t k0 (hs k0 h0)
  rw [tensor_eq_spec _ _ _ (moved_leaves_ne_nil Q t entries he) hs', tensor_eq_spec _ _ _ he hs]
  unfold specTensor
  rw [flatMap_leaves_moved, pathLen_moved, List.map_map]
  apply List.map_congr_left
  intro e _
  apply List.map_congr_left
  intro m _
  rw [List.map_map]
  apply List.map_congr_left
  intro k hk
  simp only [Function.comp]
  rw [pixPos_moved, List.map_map]
  apply List.map_congr_left
  intro x _
  exact specValue_moved flipX Q t e (e.moved Q t) (Entry.moved_leaves Q t e) k (hs k hk).1 m x

theorem map_pixShape_moved (Q : G) (t : V) (sensors : List (Sens G V)) :
    (sensors.map (Sens.moved Q t)).map (·.pixShape) = sensors.map (·.pixShape) := by
  rw [List.map_map]; rfl

theorem badInputF_moved (Q : G) (t : V) (entries : List (Entry G V)) (sensors : List (Sens G V))
    (agg : Option (List V → V)) :
    BadInputF (entries.map (Entry.moved Q t)) (sensors.map (Sens.moved Q t)) agg ↔
      BadInputF entries sensors agg := by
  unfold BadInputF
  have h3 : (∃ e ∈ entries.map (Entry.moved Q t), e.leaves = []) ↔ ∃ e ∈ entries, e.leaves = [] := by
    constructor
    · rintro ⟨e, he, hl⟩
      obtain ⟨e0, h0, rfl⟩ := List.mem_map.mp he
      rw [Entry.moved_leaves] at hl
      exact ⟨e0, h0, by simpa using hl⟩
    · rintro ⟨e, he, hl⟩
      exact ⟨e.moved Q t, List.mem_map_of_mem he, by rw [Entry.moved_leaves, hl]; rfl⟩
  have h4 : (∃ k ∈ sensors.map (Sens.moved Q t), ∃ k' ∈ sensors.map (Sens.moved Q t), k.pixShape ≠ k'.pixShape) ↔
      ∃ k ∈ sensors, ∃ k' ∈ sensors, k.pixShape ≠ k'.pixShape := by
    constructor
    · rintro ⟨k, hk, k', hk', hne⟩
      obtain ⟨a, ha, rfl⟩ := List.mem_map.mp hk
      obtain ⟨b, hb, rfl⟩ := List.mem_map.mp hk'
      exact ⟨a, ha, b, hb, hne⟩
    · rintro ⟨a, ha, b, hb, hne⟩
      exact ⟨a.moved Q t, List.mem_map_of_mem ha, b.moved Q t, List.mem_map_of_mem hb, hne⟩
  rw [h3, h4]
  simp only [List.map_eq_nil_iff]

theorem coreBF_moved (flipX : V → V) (Q : G) (t : V) (entries : List (Entry G V))
    (sensors : List (Sens G V)) (sumup : Bool) (agg : Option (List V → V))
    (he : ∀ e ∈ entries, e.leaves ≠ []) (hs : ∀ k ∈ sensors, k.WF) :
    coreBF flipX (entries.map (Entry.moved Q t)) (sensors.map (Sens.moved Q t)) sumup agg =
      coreBF flipX entries sensors sumup agg := by
  unfold coreBF
  rw [tensor_moved flipX Q t entries sensors he hs]

theorem shape0F_moved (Q : G) (t : V) (entries : List (Entry G V)) (sensors : List (Sens G V))
    (sumup : Bool) (agg : Option (List V → V)) :
    shape0F (entries.map (Entry.moved Q t)) (sensors.map (Sens.moved Q t)) sumup agg =
      shape0F entries sensors sumup agg := by
  unfold shape0F
  rw [flatMap_leaves_moved, pathLen_moved, map_pixShape_moved, List.length_map, List.length_map]

/-- **the whole of getBH_level2 (ndarray output) is invariant under a common rigid motion of all sources and all
sensors** — error exits, shape and every value, whatever `pixel_agg` reduction, `sumup`, `squeeze` -/
theorem getBHF_moved (flipX : V → V) (Q : G) (t : V) (entries : List (Entry G V))
    (sensors : List (Sens G V)) (sumup squeeze : Bool) (agg : Option (List V → V))
    (hs : ∀ k ∈ sensors, k.WF) :
    getBHF flipX (entries.map (Entry.moved Q t)) (sensors.map (Sens.moved Q t)) sumup squeeze agg =
      getBHF flipX entries sensors sumup squeeze agg := by
  by_cases hbad : BadInputF entries sensors agg
  · rw [(getBHF_error_iff flipX entries sensors sumup squeeze agg .badUserInput).mpr ⟨rfl, hbad⟩,
      (getBHF_error_iff flipX _ _ sumup squeeze agg .badUserInput).mpr
        ⟨rfl, (badInputF_moved Q t entries sensors agg).mpr hbad⟩]
  · have he : ∀ e ∈ entries, e.leaves ≠ [] := fun e he hl => hbad (Or.inr (Or.inr (Or.inl ⟨e, he, hl⟩)))
    rw [getBHF_ok flipX entries sensors sumup squeeze agg hbad,
      getBHF_ok flipX _ _ sumup squeeze agg (fun h => hbad ((badInputF_moved Q t entries sensors agg).mp h)),
      coreBF_moved flipX Q t entries sensors sumup agg he hs, shape0F_moved]

theorem srcIds_moved (Q : G) (t : V) (entries : List (Entry G V)) (sumup : Bool) :
    srcIds (entries.map (Entry.moved Q t)) sumup = srcIds entries sumup := by
  unfold srcIds; rw [List.length_map]

/-- … and so is `output="dataframe"` (index columns and values) -/
theorem dataframeF_moved (flipX : V → V) (Q : G) (t : V) (entries : List (Entry G V))
    (sensors : List (Sens G V)) (sumup : Bool) (agg : Option (List V → V))
    (hs : ∀ k ∈ sensors, k.WF) :
    (dataframeF flipX (entries.map (Entry.moved Q t)) (sensors.map (Sens.moved Q t)) sumup agg).map dataframeRows =
      (dataframeF flipX entries sensors sumup agg).map dataframeRows := by
  by_cases hbad : BadInputF entries sensors agg
  · have e1 : dataframeF flipX entries sensors sumup agg = .error .badUserInput := by
      have := (level2CoreF_error_iff flipX entries sensors sumup agg .badUserInput).mpr ⟨rfl, hbad⟩
      unfold dataframeF; rw [this]
    have e2 : dataframeF flipX (entries.map (Entry.moved Q t)) (sensors.map (Sens.moved Q t)) sumup agg =
        .error .badUserInput := by
      have := (level2CoreF_error_iff flipX (entries.map (Entry.moved Q t)) (sensors.map (Sens.moved Q t)) sumup agg
        .badUserInput).mpr ⟨rfl, (badInputF_moved Q t entries sensors agg).mpr hbad⟩
      unfold dataframeF; rw [this]
    rw [e1, e2]
  · have he : ∀ e ∈ entries, e.leaves ≠ [] := fun e he hl => hbad (Or.inr (Or.inr (Or.inl ⟨e, he, hl⟩)))
    rw [dataframeF_ok flipX entries sensors sumup agg hbad,
      dataframeF_ok flipX _ _ sumup agg (fun h => hbad ((badInputF_moved Q t entries sensors agg).mp h)),
      coreBF_moved flipX Q t entries sensors sumup agg he hs, srcIds_moved, flatMap_leaves_moved, pathLen_moved,
      map_pixShape_moved, List.length_map]
end moved

/-! ### position observers: the final output is rotated -/
section map4
variable {α β : Type}

/-- apply `g` to every vector of a 4-axis array -/
def map4 (g : α → β) (T : List (List (List (List α)))) : List (List (List (List β))) :=
  T.map (List.map (List.map (List.map g)))

theorem flat4_map4 (g : α → β) (T : List (List (List (List α)))) : flat4 (map4 g T) = (flat4 T).map g := by
  simp only [flat4, map4, List.map_map, List.map_flatten, Function.comp_def]

theorem aggTF_map4 (g : α → α) (f : List α → α) (hf : ∀ l, f (l.map g) = g (f l))
    (T : List (List (List (List α)))) : aggTF f (map4 g T) = map4 g (aggTF f T) := by
  simp only [aggTF, map4, List.map_map, Function.comp_def, hf, List.map_cons, List.map_nil]
end map4

section sumupmap
variable [Add V]

theorem zipWith3_map (g : V → V) (hg : ∀ a b, g (a + b) = g a + g b) (a b : List (List (List V))) :
    List.zipWith (List.zipWith (List.zipWith (· + ·))) (a.map (List.map (List.map g))) (b.map (List.map (List.map g))) =
      (List.zipWith (List.zipWith (List.zipWith (· + ·))) a b).map (List.map (List.map g)) := by
  simp only [List.zipWith_map_left, List.zipWith_map_right, List.map_zipWith, hg]

theorem sumupT_map4 (g : V → V) (hg : ∀ a b, g (a + b) = g a + g b) (T : List (List (List (List V)))) :
    sumupT (map4 g T) = map4 g (sumupT T) := by
  cases T with
  | nil => rfl
  | cons t ts =>
    simp only [sumupT, map4, List.map_cons, List.map_nil, List.cons.injEq, and_true]
    induction ts generalizing t with
    | nil => rfl
    | cons u us ih =>
      simp only [List.map_cons, List.foldl_cons]
      rw [zipWith3_map g hg, ih]
end sumupmap

section positions
variable [Group G] [AddCommGroup V] [DistribMulAction G V] [BEq G] [LawfulBEq G]

/-- the pipeline tensor for position observers of the moved scene (Props/C03 `covariance_positions_end_to_end`) -/
theorem tensor_positions_moved (flipX : V → V) (Q : G) (t : V) (entries : List (Entry G V))
    (X : List V) (he : ∀ e ∈ entries, e.leaves ≠ []) :
    tensor flipX (entries.map (Entry.moved Q t)) [obsSensor (X.map fun x => Q • x + t)] =
      map4 (Q • ·) (tensor flipX entries [obsSensor X]) := by
  have hw : ∀ (Y : List V), ∀ k ∈ [obsSensor (G := G) Y], k.WF := by
    intro Y k hk
    rw [List.mem_singleton.mp hk]
    exact obsSensor_WF Y
  rw [tensor_eq_spec _ _ _ (moved_leaves_ne_nil Q t entries he) (hw _), tensor_eq_spec _ _ _ he (hw _)]
  unfold specTensor map4
  have hpl : pathLen ((entries.map (Entry.moved Q t)).flatMap Entry.leaves)
      [obsSensor (G := G) (X.map fun x => Q • x + t)] =
      pathLen (entries.flatMap Entry.leaves) [obsSensor (G := G) X] := by
    rw [flatMap_leaves_moved]
    unfold pathLen
    simp [List.map_map, Function.comp_def, Src.moved, obsSensor]
  rw [hpl, List.map_map, List.map_map]
  apply List.map_congr_left
  intro e _
  simp only [Function.comp, List.map_map]
  apply List.map_congr_left
  intro m _
  simp only [Function.comp, List.map_cons, List.map_nil, pixPos_obsSensor, List.map_map]
  congr 1
  apply List.map_congr_left
  intro x _
  simp only [Function.comp, specValue_obsSensor, Entry.moved_leaves, List.map_map]
  rw [← sum_map_smul, List.map_map]
  congr 1
  apply List.map_congr_left
  intro s _
  exact level1_covariant Q t s m x

theorem pathLen_positions_moved (Q : G) (t : V) (entries : List (Entry G V)) (X : List V) :
    pathLen ((entries.map (Entry.moved Q t)).flatMap Entry.leaves) [obsSensor (G := G) (X.map fun x => Q • x + t)] =
      pathLen (entries.flatMap Entry.leaves) [obsSensor (G := G) X] := by
  rw [flatMap_leaves_moved]
  unfold pathLen
  simp [List.map_map, Function.comp_def, Src.moved, obsSensor]

theorem badInputF_positions_moved (Q : G) (t : V) (entries : List (Entry G V)) (X : List V)
    (agg : Option (List V → V)) :
    BadInputF (entries.map (Entry.moved Q t)) [obsSensor (G := G) (X.map fun x => Q • x + t)] agg ↔
      BadInputF entries [obsSensor (G := G) X] agg := by
  unfold BadInputF
  have h3 : (∃ e ∈ entries.map (Entry.moved Q t), e.leaves = []) ↔ ∃ e ∈ entries, e.leaves = [] := by
    constructor
    · rintro ⟨e, he, hl⟩
      obtain ⟨e0, h0, rfl⟩ := List.mem_map.mp he
      rw [Entry.moved_leaves] at hl
      exact ⟨e0, h0, by simpa using hl⟩
    · rintro ⟨e, he, hl⟩
      exact ⟨e.moved Q t, List.mem_map_of_mem he, by rw [Entry.moved_leaves, hl]; rfl⟩
  rw [h3]
  simp [obsSensor]

/-- **position observers, the final output**: sources and observer positions moved together — the returned array has
the same shape and every vector is rotated by `Q`, after `sumup` and `squeeze`; with a `pixel_agg` this needs the
reduction to commute with the rotation (`f (l.map (Q • ·)) = Q • f l`: true of sum / mean, false of max / min / std) -/
theorem getBHF_positions_moved (flipX : V → V) (Q : G) (t : V) (entries : List (Entry G V))
    (X : List V) (sumup squeeze : Bool) (agg : Option (List V → V))
    (hagg : ∀ f, agg = some f → ∀ l : List V, f (l.map (Q • ·)) = Q • f l) :
    getBHF flipX (entries.map (Entry.moved Q t)) [obsSensor (X.map fun x => Q • x + t)] sumup squeeze agg =
      (getBHF flipX entries [obsSensor X] sumup squeeze agg).map
        (fun o => { o with data := o.data.map (Q • ·) }) := by
  by_cases hbad : BadInputF entries [obsSensor (G := G) X] agg
  · rw [(getBHF_error_iff flipX entries _ sumup squeeze agg .badUserInput).mpr ⟨rfl, hbad⟩,
      (getBHF_error_iff flipX _ _ sumup squeeze agg .badUserInput).mpr
        ⟨rfl, (badInputF_positions_moved Q t entries X agg).mpr hbad⟩]
    rfl
  · have he : ∀ e ∈ entries, e.leaves ≠ [] := fun e he hl => hbad (Or.inr (Or.inr (Or.inl ⟨e, he, hl⟩)))
    rw [getBHF_ok flipX entries _ sumup squeeze agg hbad,
      getBHF_ok flipX _ _ sumup squeeze agg (fun h => hbad ((badInputF_positions_moved Q t entries X agg).mp h))]
    have hshape : shape0F (entries.map (Entry.moved Q t)) [obsSensor (G := G) (X.map fun x => Q • x + t)] sumup agg =
        shape0F entries [obsSensor (G := G) X] sumup agg := by
      unfold shape0F
      rw [pathLen_positions_moved]
      simp [obsSensor]
    have hcore : coreBF flipX (entries.map (Entry.moved Q t)) [obsSensor (G := G) (X.map fun x => Q • x + t)] sumup agg =
        map4 (Q • ·) (coreBF flipX entries [obsSensor (G := G) X] sumup agg) := by
      unfold coreBF
      rw [tensor_positions_moved flipX Q t entries X he]
      cases agg with
      | none =>
        cases sumup
        · rfl
        · simp only [if_true]; exact sumupT_map4 _ (fun a b => smul_add Q a b) _
      | some f =>
        simp only []
        rw [aggTF_map4 _ f (hagg f rfl)]
        cases sumup
        · rfl
        · simp only [if_true]; exact sumupT_map4 _ (fun a b => smul_add Q a b) _
    rw [hshape, hcore, flat4_map4]
    rfl
end positions

/-! ### sumup after pixel_agg -/
section sumupAgg
variable [Group G] [AddCommGroup V] [DistribMulAction G V] [BEq G] [LawfulBEq G]

/-- element `(l, m, k)` of the array returned with `pixel_agg = f` (no sumup), in terms of the specification -/
theorem getBHF_agg_elem (flipX : V → V) (entries : List (Entry G V)) (sensors : List (Sens G V))
    (f : List V → V) (out : Out V) (hs : ∀ k ∈ sensors, k.WF)
    (h : getBHF flipX entries sensors false false (some f) = .ok out) (l m k : Nat)
    (e : Entry G V) (s : Sens G V) (hl : entries[l]? = some e)
    (hm : m < pathLen (entries.flatMap Entry.leaves) sensors) (hk : sensors[k]? = some s) :
    out.data[(l * pathLen (entries.flatMap Entry.leaves) sensors + m) * sensors.length + k]? =
      some (f ((pixPos s m).map (specValue flipX e s m))) := by
  have hok := not_bad_of_getBHF_ok h
  have he : ∀ e ∈ entries, e.leaves ≠ [] := fun e he hl => hok (Or.inr (Or.inr (Or.inl ⟨e, he, hl⟩)))
  have hne : sensors ≠ [] := fun hs => hok (Or.inr (Or.inl hs))
  obtain ⟨k0, ks, hks⟩ := List.exists_cons_of_ne_nil hne
  have hk0 : sensors.head? = some k0 := by rw [hks]; rfl
  have hr := coreBF_rect flipX entries sensors false (some f) hok hs k0 hk0
  rw [getBHF_ok flipX entries sensors false false (some f) hok] at h
  cases h
  simp only [Bool.false_eq_true, if_false, Option.isNone_some] at hr ⊢
  have := flat4_getElem? hr l m k 0 hm (List.getElem?_eq_some_iff.mp hk).1 Nat.one_pos
  rw [Nat.mul_one, Nat.add_zero] at this
  rw [this]
  simp only [coreBF, Bool.false_eq_true, if_false, id]
  rw [aggTF_getElem? f _ l m k, tensor_eq_spec flipX entries sensors he hs,
    specTensor_pixels flipX entries sensors l m k e s hl hm hk, Option.map_some]

/-- **sumup is the sum over the source axis of what is there at that point of the code** — i.e. AFTER pixel_agg:
flat element `j` of the `sumup=True` result is the sum over the entries `l` of flat element `l·N + j` of the
`sumup=False` result (any reduction, or none) -/
theorem getBHF_sumup_is_sum (flipX : V → V) (entries : List (Entry G V))
    (sensors : List (Sens G V)) (agg : Option (List V → V)) (out0 out1 : Out V) (hs : ∀ k ∈ sensors, k.WF)
    (h0 : getBHF flipX entries sensors false false agg = .ok out0)
    (h1 : getBHF flipX entries sensors true false agg = .ok out1) :
    out0.data.length = entries.length * out1.data.length ∧
    ∀ j < out1.data.length,
      out1.data[j]? = some (((List.range entries.length).map fun l =>
        out0.data.getD (l * out1.data.length + j) 0).sum) := by
  have hok := not_bad_of_getBHF_ok h0
  have hne : sensors ≠ [] := fun hs => hok (Or.inr (Or.inl hs))
  obtain ⟨k0, ks, hks⟩ := List.exists_cons_of_ne_nil hne
  have hk0 : sensors.head? = some k0 := by rw [hks]; rfl
  have hL : 0 < entries.length := List.length_pos_iff.mpr (fun h => hok (Or.inl h))
  have hr0 := coreBF_rect flipX entries sensors false agg hok hs k0 hk0
  have hr1 := coreBF_rect flipX entries sensors true agg hok hs k0 hk0
  rw [getBHF_ok flipX entries sensors false false agg hok] at h0
  rw [getBHF_ok flipX entries sensors true false agg hok] at h1
  cases h0; cases h1
  simp only [Bool.false_eq_true, if_false, if_true] at hr0 hr1 ⊢
  rw [flat4_length hr0, flat4_length hr1, Nat.one_mul]
  refine ⟨rfl, ?_⟩
  intro j hj
  have := sumupT_getElem? hr0 hL j hj
  simpa [coreBF] using this

/-- **what the code does with a non-linear pixel_agg and sumup**: the element `(m, k)` of the `sumup=True`,
`pixel_agg=f` result is the SUM over the source entries of the AGGREGATED sensor-frame values
`Σ_e f [reading of e at px for px in pixels]` — not the aggregate of the summed field -/
theorem getBHF_sumup_agg_elem (flipX : V → V) (entries : List (Entry G V)) (sensors : List (Sens G V))
    (f : List V → V) (out1 : Out V) (hs : ∀ k ∈ sensors, k.WF)
    (h1 : getBHF flipX entries sensors true false (some f) = .ok out1) (m k : Nat) (s : Sens G V)
    (hm : m < pathLen (entries.flatMap Entry.leaves) sensors) (hk : sensors[k]? = some s) :
    out1.data[m * sensors.length + k]? =
      some ((entries.map fun e => f ((pixPos s m).map (specValue flipX e s m))).sum) := by
  have hok := not_bad_of_getBHF_ok h1
  have h0 := getBHF_ok flipX entries sensors false false (some f) hok
  obtain ⟨_, hsum⟩ := getBHF_sumup_is_sum flipX entries sensors (some f) _ out1 hs h0 h1
  have hne : sensors ≠ [] := fun hs => hok (Or.inr (Or.inl hs))
  obtain ⟨k0, ks, hks⟩ := List.exists_cons_of_ne_nil hne
  have hk0 : sensors.head? = some k0 := by rw [hks]; rfl
  have hr1 := coreBF_rect flipX entries sensors true (some f) hok hs k0 hk0
  have hklt : k < sensors.length := (List.getElem?_eq_some_iff.mp hk).1
  have hlen : out1.data.length = pathLen (entries.flatMap Entry.leaves) sensors * (sensors.length * 1) := by
    rw [getBHF_ok flipX entries sensors true false (some f) hok] at h1
    cases h1
    simp only [if_true, Option.isNone_some, Bool.false_eq_true, if_false] at hr1
    rw [flat4_length hr1, Nat.one_mul]
  have hj : m * sensors.length + k < out1.data.length := by
    rw [hlen, Nat.mul_one]; exact idx_lt hm hklt
  rw [hsum _ hj]
  congr 2
  apply List.ext_getElem
  · simp
  · intro l hl1 hl2
    have hl : l < entries.length := by simpa using hl1
    simp only [List.getElem_map, List.getElem_range, List.getD_eq_getElem?_getD]
    have hidx : l * out1.data.length + (m * sensors.length + k) =
        (l * pathLen (entries.flatMap Entry.leaves) sensors + m) * sensors.length + k := by
      rw [hlen]; ring
    rw [hidx, getBHF_agg_elem flipX entries sensors f _ hs h0 l m k entries[l] s
      (List.getElem?_eq_getElem hl) hm hk]
    rfl

/-- for an ADDITIVE reduction (`sum`, `mean`: `f` of a pointwise sum is the sum of the `f`s, `f` of zeros is zero) the
sum over the sources of the aggregated values is the aggregate of the summed values -/
theorem sum_agg_eq_agg_sum (f : List V → V)
    (hadd : ∀ (P : List V) (a b : V → V), f (P.map fun x => a x + b x) = f (P.map a) + f (P.map b))
    (hzero : ∀ P : List V, f (P.map fun _ => 0) = 0) {ι : Type} (es : List ι) (g : ι → V → V) (P : List V) :
    (es.map fun e => f (P.map (g e))).sum = f (P.map fun x => (es.map fun e => g e x).sum) := by
  induction es with
  | nil => simp only [List.map_nil, List.sum_nil]; exact (hzero P).symm
  | cons e es ih => simp only [List.map_cons, List.sum_cons, ih, hadd]

/-- element `(l, m, k, p)` of the array returned without pixel_agg and without sumup, in terms of the specification -/
theorem getBHF_elem (flipX : V → V) (entries : List (Entry G V)) (sensors : List (Sens G V))
    (out : Out V) (hs : ∀ k ∈ sensors, k.WF)
    (h : getBHF flipX entries sensors false false none = .ok out) (k0 : Sens G V) (hk0 : sensors.head? = some k0)
    (l m k p : Nat) (e : Entry G V) (s : Sens G V) (x : V) (hl : entries[l]? = some e)
    (hm : m < pathLen (entries.flatMap Entry.leaves) sensors) (hk : sensors[k]? = some s)
    (hp : (pixPos s m)[p]? = some x) :
    out.data[((l * pathLen (entries.flatMap Entry.leaves) sensors + m) * sensors.length + k) * pixNum k0 + p]? =
      some (specValue flipX e s m x) := by
  have hok := not_bad_of_getBHF_ok h
  have he : ∀ e ∈ entries, e.leaves ≠ [] := fun e he hl => hok (Or.inr (Or.inr (Or.inl ⟨e, he, hl⟩)))
  have hr := coreBF_rect flipX entries sensors false none hok hs k0 hk0
  rw [getBHF_ok flipX entries sensors false false none hok] at h
  cases h
  simp only [Bool.false_eq_true, if_false, Option.isNone_none, if_true] at hr ⊢
  have hsmem : s ∈ sensors := List.mem_of_getElem? hk
  have hk0mem : k0 ∈ sensors := List.mem_of_mem_head? (by rw [hk0]; rfl)
  have hshape : s.pixShape = k0.pixShape := by
    by_contra hne
    exact hok (Or.inr (Or.inr (Or.inr ⟨rfl, s, hsmem, k0, hk0mem, hne⟩)))
  have hplt : p < pixNum k0 := by
    have := (List.getElem?_eq_some_iff.mp hp).1
    rw [pixPos_length s (hs s hsmem).1 (hs s hsmem).2.1, (hs s hsmem).2.2, pixNum_congr s k0 hshape] at this
    exact this
  rw [flat4_getElem? hr l m k p hm (List.getElem?_eq_some_iff.mp hk).1 hplt]
  simp only [coreBF, Bool.false_eq_true, if_false, id]
  rw [tensor_eq_spec flipX entries sensors he hs, specTensor_pixels flipX entries sensors l m k e s hl hm hk]
  simp only [Option.bind_some, List.getElem?_map, hp, Option.map_some]

/-- **sumup commutes with the (linear) sensor-frame rotation and flip**: without pixel_agg, element `(m, k, p)` of the
`sumup=True` result is the reading of ONE compound source made of all entries (`.coll entries`: field summed in the
global frame BEFORE rotation / flip) — although the code sums AFTER them; `flipX` only has to be additive -/
theorem getBHF_sumup_elem (flipX : V → V) (hf : ∀ a b, flipX (a + b) = flipX a + flipX b) (hf0 : flipX 0 = 0)
    (entries : List (Entry G V)) (sensors : List (Sens G V))
    (out1 : Out V) (hs : ∀ k ∈ sensors, k.WF)
    (h1 : getBHF flipX entries sensors true false none = .ok out1) (k0 : Sens G V) (hk0 : sensors.head? = some k0)
    (m k p : Nat) (s : Sens G V) (x : V)
    (hm : m < pathLen (entries.flatMap Entry.leaves) sensors) (hk : sensors[k]? = some s)
    (hp : (pixPos s m)[p]? = some x) :
    out1.data[(m * sensors.length + k) * pixNum k0 + p]? = some (specValue flipX (.coll entries) s m x) := by
  have hok := not_bad_of_getBHF_ok h1
  have h0 := getBHF_ok flipX entries sensors false false none hok
  obtain ⟨_, hsum⟩ := getBHF_sumup_is_sum flipX entries sensors none _ out1 hs h0 h1
  have hr1 := coreBF_rect flipX entries sensors true none hok hs k0 hk0
  have hklt : k < sensors.length := (List.getElem?_eq_some_iff.mp hk).1
  have hsmem : s ∈ sensors := List.mem_of_getElem? hk
  have hk0mem : k0 ∈ sensors := List.mem_of_mem_head? (by rw [hk0]; rfl)
  have hshape : s.pixShape = k0.pixShape := by
    by_contra hne
    exact hok (Or.inr (Or.inr (Or.inr ⟨rfl, s, hsmem, k0, hk0mem, hne⟩)))
  have hplt : p < pixNum k0 := by
    have := (List.getElem?_eq_some_iff.mp hp).1
    rw [pixPos_length s (hs s hsmem).1 (hs s hsmem).2.1, (hs s hsmem).2.2, pixNum_congr s k0 hshape] at this
    exact this
  have hlen : out1.data.length = pathLen (entries.flatMap Entry.leaves) sensors * (sensors.length * pixNum k0) := by
    rw [getBHF_ok flipX entries sensors true false none hok] at h1
    cases h1
    simp only [if_true, Option.isNone_none] at hr1
    rw [flat4_length hr1, Nat.one_mul]
  have hj : (m * sensors.length + k) * pixNum k0 + p < out1.data.length := by
    rw [hlen, ← Nat.mul_assoc]; exact idx_lt (idx_lt hm hklt) hplt
  rw [hsum _ hj, specValue_coll flipX hf hf0]
  congr 2
  apply List.ext_getElem
  · simp
  · intro l hl1 hl2
    have hl : l < entries.length := by simpa using hl1
    simp only [List.getElem_map, List.getElem_range, List.getD_eq_getElem?_getD]
    have hidx : l * out1.data.length + ((m * sensors.length + k) * pixNum k0 + p) =
        ((l * pathLen (entries.flatMap Entry.leaves) sensors + m) * sensors.length + k) * pixNum k0 + p := by
      rw [hlen]; ring
    rw [hidx, getBHF_elem flipX entries sensors _ hs h0 k0 hk0 l m k p entries[l] s x
      (List.getElem?_eq_getElem hl) hm hk hp]
    rfl
end sumupAgg

/-! ### naturality in a homomorphism of the rotation carrier (for the `…_on_driver_carrier` corollaries) -/
section natural
variable {H : Type}
variable [Mul G] [Inv G] [One G] [SMul G V] [BEq G] [Mul H] [Inv H] [One H] [SMul H V] [BEq H]
variable [Add V] [Sub V] [Zero V]
variable {φ : G → H}

theorem level2CoreF_mapG (hφ : OpHom V φ) (flipX : V → V)
    (es : List (Entry G V)) (ks : List (Sens G V)) (sumup : Bool) (agg : Option (List V → V)) :
    level2CoreF flipX (es.map (Entry.mapG φ)) (ks.map (Sens.mapG φ)) sumup agg =
      level2CoreF flipX es ks sumup agg := by
  unfold level2CoreF
  have h3 : (es.map (Entry.mapG φ)).any (fun e => e.leaves.isEmpty) = es.any (fun e => e.leaves.isEmpty) := by
    rw [List.any_map]
    congr 1
    funext e
    simp [Entry.mapG_leaves]
  have h4 : (ks.map (Sens.mapG φ)).map (·.pixShape) = ks.map (·.pixShape) := by
    rw [List.map_map]; rfl
  simp only [tensor_mapG hφ, flatMap_leaves_mapG, pathLen_mapG, h3, h4, List.isEmpty_map, List.length_map]

theorem getBHF_mapG (hφ : OpHom V φ) (flipX : V → V)
    (es : List (Entry G V)) (ks : List (Sens G V)) (sumup squeeze : Bool) (agg : Option (List V → V)) :
    getBHF flipX (es.map (Entry.mapG φ)) (ks.map (Sens.mapG φ)) sumup squeeze agg =
      getBHF flipX es ks sumup squeeze agg := by
  unfold getBHF
  simp only [level2CoreF_mapG hφ, List.length_map]
end natural

end MagpyVerif.Level2
