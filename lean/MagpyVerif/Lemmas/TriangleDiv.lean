/-
Lemmas/TriangleDiv.lean — C14, local laws for the Triangle sheet kernel (`triangle_Bfield`, Model/Kernels.lean `triangleB`):
off the plane of the triangle — where the code does not clamp the solid angle and the observer is strictly outside the `on_edge`
tolerance tubes — all nine partial derivatives of `triangleB` exist, with an explicit Jacobian, its trace (div B) vanishes and it
is symmetric (curl B = curl H = 0).

  B = σ/(4π) · (Ω n − n × Σ_i I_i L_i),      σ = n·J,   Ω = 2·arg(D + iN),   I_i = log((r_{i+1} + c_i)/(r_i + a_i))/l_i

Route (no integration; the closed form is differentiated):
  * a small calculus of gradients of scalar functions of the observer by one-variable sections (`HasGrad`: const, coordinates,
    sums, products, quotients, `√`, `log`, `arg (D + iN)` through `HasDerivAt.clog_real`);
  * `∇r_i = −R_i/r_i`, `∇(R_i·R_j) = −(R_i + R_j)`, `∇N = (v1 − v0) × (v2 − v0)` (N is affine), `∇D` (`hasGrad_saD`);
  * `∇I_i = s₁ R_i + t₁ L_i − s₂ R_{i+1} − t₂ L_i` with `s₁ = 1/(r_i (l r_i + R_i·L))`, `t₁ = 1/(l (l r_i + R_i·L))`, `s₂`, `t₂` the
    same at the end point (`hasGrad_edgeI`);
  * **the gradient of the solid angle is the Biot–Savart field of the boundary**: `∇Ω = −Σ_i β_i R_i × L_i`,
    `β_i = (r_i + r_{i+1})/(r_i r_{i+1} (r_i r_{i+1} + R_i·R_{i+1}))` (`hasGrad_solidAngleRaw`; Cramer's rule in the basis
    `R_1×R_2, R_2×R_0, R_0×R_1` reduces it to an identity in the lengths and scalar products);
  * per edge `s₁ − s₂ = β` (`edge_beta`), `s₁ R·L + t₁ l² = 1/r_i`, `s₂ R_{i+1}·L + t₂ l² = 1/r_{i+1}`: the trace of the Jacobian
    cancels edge by edge, its antisymmetric part is `−n Σ_i (1/r_i − 1/r_{i+1}) = 0` (telescoping).
-/
import MagpyVerif.Lemmas.SolidAngle
import MagpyVerif.Lemmas.CuboidDiv
import MagpyVerif.Lemmas.TrimeshGlue
import Mathlib.Analysis.SpecialFunctions.Complex.LogDeriv
import Mathlib.Analysis.SpecialFunctions.Log.Deriv
import Mathlib.Analysis.SpecialFunctions.Sqrt

namespace MagpyVerif.TriDiv
open MagpyVerif MagpyVerif.Kern MagpyVerif.CuboidDiv Filter Topology

/-! ### Part 0: gradients of scalar functions of the observer, by one-variable sections -/

/-- `f` has at `p` the three partial derivatives collected in `g` -/
structure HasGrad (f : V3 ℝ → ℝ) (p : V3 ℝ) (g : V3 ℝ) : Prop where
  dx : HasDerivAt (fun t => f ⟨t, p.y, p.z⟩) g.x p.x
  dy : HasDerivAt (fun t => f ⟨p.x, t, p.z⟩) g.y p.y
  dz : HasDerivAt (fun t => f ⟨p.x, p.y, t⟩) g.z p.z

variable {f h : V3 ℝ → ℝ} {p gf gh : V3 ℝ}

theorem HasGrad.congr_grad {g' : V3 ℝ} (hf : HasGrad f p gf) (e : gf = g') : HasGrad f p g' := e ▸ hf

theorem HasGrad.congr_fun {f' : V3 ℝ → ℝ} (hf : HasGrad f p gf) (e : ∀ q, f' q = f q) : HasGrad f' p gf := by
  have : f' = f := funext e
  rw [this]; exact hf

theorem hasGrad_const (c : ℝ) (p : V3 ℝ) : HasGrad (fun _ => c) p ⟨0, 0, 0⟩ :=
  ⟨hasDerivAt_const _ _, hasDerivAt_const _ _, hasDerivAt_const _ _⟩

theorem hasGrad_x (p : V3 ℝ) : HasGrad (fun q => q.x) p ⟨1, 0, 0⟩ :=
  ⟨hasDerivAt_id' _, hasDerivAt_const _ _, hasDerivAt_const _ _⟩
theorem hasGrad_y (p : V3 ℝ) : HasGrad (fun q => q.y) p ⟨0, 1, 0⟩ :=
  ⟨hasDerivAt_const _ _, hasDerivAt_id' _, hasDerivAt_const _ _⟩
theorem hasGrad_z (p : V3 ℝ) : HasGrad (fun q => q.z) p ⟨0, 0, 1⟩ :=
  ⟨hasDerivAt_const _ _, hasDerivAt_const _ _, hasDerivAt_id' _⟩

theorem HasGrad.add (hf : HasGrad f p gf) (hh : HasGrad h p gh) : HasGrad (fun q => f q + h q) p (gf + gh) :=
  ⟨hf.dx.add hh.dx, hf.dy.add hh.dy, hf.dz.add hh.dz⟩

theorem HasGrad.sub (hf : HasGrad f p gf) (hh : HasGrad h p gh) : HasGrad (fun q => f q - h q) p (gf - gh) :=
  ⟨hf.dx.sub hh.dx, hf.dy.sub hh.dy, hf.dz.sub hh.dz⟩

theorem HasGrad.const_mul (c : ℝ) (hf : HasGrad f p gf) : HasGrad (fun q => c * f q) p (vs c gf) :=
  ⟨hf.dx.const_mul c, hf.dy.const_mul c, hf.dz.const_mul c⟩

theorem HasGrad.div_const (hf : HasGrad f p gf) (c : ℝ) : HasGrad (fun q => f q / c) p (vs (1 / c) gf) :=
  ⟨(hf.dx.div_const c).congr_deriv (by simp only [vs]; ring), (hf.dy.div_const c).congr_deriv (by simp only [vs]; ring),
   (hf.dz.div_const c).congr_deriv (by simp only [vs]; ring)⟩

theorem HasGrad.mul (hf : HasGrad f p gf) (hh : HasGrad h p gh) :
    HasGrad (fun q => f q * h q) p (vs (h p) gf + vs (f p) gh) :=
  ⟨(hf.dx.mul hh.dx).congr_deriv (by simp only [vs, V3.add_x]; ring),
   (hf.dy.mul hh.dy).congr_deriv (by simp only [vs, V3.add_y]; ring),
   (hf.dz.mul hh.dz).congr_deriv (by simp only [vs, V3.add_z]; ring)⟩

theorem HasGrad.sqrt (hf : HasGrad f p gf) (h0 : f p ≠ 0) : HasGrad (fun q => √(f q)) p (vs (1 / (2 * √(f p))) gf) :=
  ⟨(hf.dx.sqrt h0).congr_deriv (by simp only [vs]; ring), (hf.dy.sqrt h0).congr_deriv (by simp only [vs]; ring),
   (hf.dz.sqrt h0).congr_deriv (by simp only [vs]; ring)⟩

theorem HasGrad.log (hf : HasGrad f p gf) (h0 : f p ≠ 0) : HasGrad (fun q => Real.log (f q)) p (vs (1 / f p) gf) :=
  ⟨(hf.dx.log h0).congr_deriv (by simp only [vs]; ring), (hf.dy.log h0).congr_deriv (by simp only [vs]; ring),
   (hf.dz.log h0).congr_deriv (by simp only [vs]; ring)⟩

/-- the argument of `D(t) + i N(t)` along a line on which `N ≠ 0` (the slit plane): `d/dt arg = (D N' − N D')/(D² + N²)` -/
theorem hasDerivAt_arg_mk {D N : ℝ → ℝ} {D' N' t : ℝ} (hD : HasDerivAt D D' t) (hN : HasDerivAt N N' t) (h0 : N t ≠ 0) :
    HasDerivAt (fun s => Complex.arg ⟨D s, N s⟩) (1 / (D t ^ 2 + N t ^ 2) * (D t * N' - N t * D')) t := by
  have hz : HasDerivAt (fun s => ((D s : ℂ)) + (N s : ℂ) * Complex.I) ((D' : ℂ) + (N' : ℂ) * Complex.I) t :=
    hD.ofReal_comp.add (hN.ofReal_comp.mul_const Complex.I)
  have hmem : ((D t : ℂ)) + (N t : ℂ) * Complex.I ∈ Complex.slitPlane := by
    rw [Complex.mem_slitPlane_iff]
    right
    simpa using h0
  have hlog := hz.clog_real hmem
  have him := Complex.imCLM.hasFDerivAt.comp_hasDerivAt t hlog
  have hpos : 0 < D t ^ 2 + N t ^ 2 := by positivity
  have hne : D t * D t + N t * N t ≠ 0 := by nlinarith
  have hne2 : D t ^ 2 + N t ^ 2 ≠ 0 := hpos.ne'
  refine (him.congr_deriv ?_).congr_of_eventuallyEq (Eventually.of_forall fun s => ?_)
  · simp only [Complex.imCLM_apply, Complex.div_im, Complex.add_re, Complex.add_im, Complex.mul_re, Complex.mul_im,
      Complex.ofReal_re, Complex.ofReal_im, Complex.I_re, Complex.I_im, Complex.normSq_apply]
    simp only [mul_zero, mul_one, add_zero, zero_add, sub_self]
    field_simp
  · simp only [Function.comp, Complex.imCLM_apply, Complex.log_im]
    congr 1
    apply Complex.ext <;> simp

theorem HasGrad.arg {D N : V3 ℝ → ℝ} {gD gN : V3 ℝ} (hD : HasGrad D p gD) (hN : HasGrad N p gN) (h0 : N p ≠ 0) :
    HasGrad (fun q => Complex.arg ⟨D q, N q⟩) p (vs (1 / (D p ^ 2 + N p ^ 2)) (vs (D p) gN - vs (N p) gD)) :=
  ⟨(hasDerivAt_arg_mk hD.dx hN.dx h0).congr_deriv (by simp only [vs, V3.sub_x]),
   (hasDerivAt_arg_mk hD.dy hN.dy h0).congr_deriv (by simp only [vs, V3.sub_y]),
   (hasDerivAt_arg_mk hD.dz hN.dz h0).congr_deriv (by simp only [vs, V3.sub_z])⟩


/-! ### Part 1: lengths, scalar products, `N`, `D` as functions of the observer -/

theorem hasDerivAt_lin_mul (a b c x : ℝ) : HasDerivAt (fun t : ℝ => (a - t) * (b - t) + c) (-((a - x) + (b - x))) x := by
  have h1 := (hasDerivAt_id' x).const_sub a
  have h2 := (hasDerivAt_id' x).const_sub b
  exact ((h1.mul h2).add_const c).congr_deriv (by ring)

theorem hasDerivAt_lin_const (a k c x : ℝ) : HasDerivAt (fun t : ℝ => (a - t) * k + c) (-k) x := by
  have h1 := (hasDerivAt_id' x).const_sub a
  exact ((h1.mul_const k).add_const c).congr_deriv (by ring)

theorem hasDerivAt_affine (c k x : ℝ) : HasDerivAt (fun t : ℝ => c + k * (t - x)) k x := by
  have h1 := (hasDerivAt_id' x).sub_const x
  exact ((h1.const_mul k).const_add c).congr_deriv (by ring)

/-- `∇ (a − q)·(b − q) = −((a − q) + (b − q))` -/
theorem hasGrad_dotSub (a b p : V3 ℝ) : HasGrad (fun q => V3.dot (a - q) (b - q)) p (-((a - p) + (b - p))) := by
  refine ⟨?_, ?_, ?_⟩
  · have e : (fun t => V3.dot (a - ⟨t, p.y, p.z⟩) (b - ⟨t, p.y, p.z⟩)) =
        fun t => (a.x - t) * (b.x - t) + ((a.y - p.y) * (b.y - p.y) + (a.z - p.z) * (b.z - p.z)) := by
      funext t; simp only [V3.dot, V3.sub_x, V3.sub_y, V3.sub_z]; ring
    rw [e]; exact hasDerivAt_lin_mul _ _ _ _
  · have e : (fun t => V3.dot (a - ⟨p.x, t, p.z⟩) (b - ⟨p.x, t, p.z⟩)) =
        fun t => (a.y - t) * (b.y - t) + ((a.x - p.x) * (b.x - p.x) + (a.z - p.z) * (b.z - p.z)) := by
      funext t; simp only [V3.dot, V3.sub_x, V3.sub_y, V3.sub_z]; ring
    rw [e]; exact hasDerivAt_lin_mul _ _ _ _
  · have e : (fun t => V3.dot (a - ⟨p.x, p.y, t⟩) (b - ⟨p.x, p.y, t⟩)) =
        fun t => (a.z - t) * (b.z - t) + ((a.x - p.x) * (b.x - p.x) + (a.y - p.y) * (b.y - p.y)) := by
      funext t; simp only [V3.dot, V3.sub_x, V3.sub_y, V3.sub_z]; ring
    rw [e]; exact hasDerivAt_lin_mul _ _ _ _

/-- `∇ (a − q)·L = −L` -/
theorem hasGrad_dotSubL (a L p : V3 ℝ) : HasGrad (fun q => V3.dot (a - q) L) p (-L) := by
  refine ⟨?_, ?_, ?_⟩
  · have e : (fun t => V3.dot (a - ⟨t, p.y, p.z⟩) L) = fun t => (a.x - t) * L.x + ((a.y - p.y) * L.y + (a.z - p.z) * L.z) := by
      funext t; simp only [V3.dot, V3.sub_x, V3.sub_y, V3.sub_z]; ring
    rw [e]; exact hasDerivAt_lin_const _ _ _ _
  · have e : (fun t => V3.dot (a - ⟨p.x, t, p.z⟩) L) = fun t => (a.y - t) * L.y + ((a.x - p.x) * L.x + (a.z - p.z) * L.z) := by
      funext t; simp only [V3.dot, V3.sub_x, V3.sub_y, V3.sub_z]; ring
    rw [e]; exact hasDerivAt_lin_const _ _ _ _
  · have e : (fun t => V3.dot (a - ⟨p.x, p.y, t⟩) L) = fun t => (a.z - t) * L.z + ((a.x - p.x) * L.x + (a.y - p.y) * L.y) := by
      funext t; simp only [V3.dot, V3.sub_x, V3.sub_y, V3.sub_z]; ring
    rw [e]; exact hasDerivAt_lin_const _ _ _ _

theorem norm_eq_sqrt_dot (w : V3 ℝ) : Kern.norm w = √(V3.dot w w) := rfl

/-- `∇ |v − q| = −(v − q)/|v − q|` off the vertex -/
theorem hasGrad_norm (v p : V3 ℝ) (h0 : Kern.norm (v - p) ≠ 0) :
    HasGrad (fun q => Kern.norm (v - q)) p (vs (-(1 / Kern.norm (v - p))) (v - p)) := by
  have hd : V3.dot (v - p) (v - p) ≠ 0 := by
    intro h; apply h0; rw [norm_eq_sqrt_dot, h, Real.sqrt_zero]
  have hs := (hasGrad_dotSub v v p).sqrt hd
  refine (hs.congr_fun fun q => norm_eq_sqrt_dot _).congr_grad ?_
  rw [← norm_eq_sqrt_dot]
  apply V3.ext' <;> simp only [vs, neg_x, neg_y, neg_z, V3.add_x, V3.add_y, V3.add_z] <;> field_simp <;> ring

/-- `N = R2·(R1 × R0)` is affine in the observer: `∇N = (v1 − v0) × (v2 − v0)` -/
theorem hasGrad_saN (v0 v1 v2 p : V3 ℝ) :
    HasGrad (fun q => saN (v0 - q) (v1 - q) (v2 - q)) p (V3.cross (v1 - v0) (v2 - v0)) := by
  refine ⟨?_, ?_, ?_⟩
  · have e : (fun t => saN (v0 - ⟨t, p.y, p.z⟩) (v1 - ⟨t, p.y, p.z⟩) (v2 - ⟨t, p.y, p.z⟩)) =
        fun t => saN (v0 - p) (v1 - p) (v2 - p) + (V3.cross (v1 - v0) (v2 - v0)).x * (t - p.x) := by
      funext t; simp only [saN, V3.dot, V3.cross, V3.sub_x, V3.sub_y, V3.sub_z]; ring
    rw [e]; exact hasDerivAt_affine _ _ _
  · have e : (fun t => saN (v0 - ⟨p.x, t, p.z⟩) (v1 - ⟨p.x, t, p.z⟩) (v2 - ⟨p.x, t, p.z⟩)) =
        fun t => saN (v0 - p) (v1 - p) (v2 - p) + (V3.cross (v1 - v0) (v2 - v0)).y * (t - p.y) := by
      funext t; simp only [saN, V3.dot, V3.cross, V3.sub_x, V3.sub_y, V3.sub_z]; ring
    rw [e]; exact hasDerivAt_affine _ _ _
  · have e : (fun t => saN (v0 - ⟨p.x, p.y, t⟩) (v1 - ⟨p.x, p.y, t⟩) (v2 - ⟨p.x, p.y, t⟩)) =
        fun t => saN (v0 - p) (v1 - p) (v2 - p) + (V3.cross (v1 - v0) (v2 - v0)).z * (t - p.z) := by
      funext t; simp only [saN, V3.dot, V3.cross, V3.sub_x, V3.sub_y, V3.sub_z]; ring
    rw [e]; exact hasDerivAt_affine _ _ _

/-- the coefficients of `∇D = −(d0 R0 + d1 R1 + d2 R2)` -/
noncomputable def saDcoef (ra rb rc pbc : ℝ) : ℝ := (rb * rc + pbc) / ra + rb + rc

theorem hasGrad_saD (v0 v1 v2 p : V3 ℝ) (h0 : Kern.norm (v0 - p) ≠ 0) (h1 : Kern.norm (v1 - p) ≠ 0)
    (h2 : Kern.norm (v2 - p) ≠ 0) :
    HasGrad (fun q => saD (v0 - q) (v1 - q) (v2 - q)) p
      (-(vs (saDcoef (Kern.norm (v0 - p)) (Kern.norm (v1 - p)) (Kern.norm (v2 - p)) (V3.dot (v2 - p) (v1 - p))) (v0 - p) +
         vs (saDcoef (Kern.norm (v1 - p)) (Kern.norm (v0 - p)) (Kern.norm (v2 - p)) (V3.dot (v2 - p) (v0 - p))) (v1 - p) +
         vs (saDcoef (Kern.norm (v2 - p)) (Kern.norm (v0 - p)) (Kern.norm (v1 - p)) (V3.dot (v1 - p) (v0 - p))) (v2 - p))) := by
  have r0 := hasGrad_norm v0 p h0
  have r1 := hasGrad_norm v1 p h1
  have r2 := hasGrad_norm v2 p h2
  have H := ((((r0.mul r1).mul r2).add ((hasGrad_dotSub v2 v1 p).mul r0)).add ((hasGrad_dotSub v2 v0 p).mul r1)).add
    ((hasGrad_dotSub v1 v0 p).mul r2)
  refine (H.congr_fun fun q => rfl).congr_grad ?_
  unfold saDcoef
  generalize Kern.norm (v0 - p) = a0 at *
  generalize Kern.norm (v1 - p) = a1 at *
  generalize Kern.norm (v2 - p) = a2 at *
  generalize V3.dot (v2 - p) (v1 - p) = p21
  generalize V3.dot (v2 - p) (v0 - p) = p20
  generalize V3.dot (v1 - p) (v0 - p) = p10
  apply V3.ext' <;> simp only [vs, neg_x, neg_y, neg_z, V3.add_x, V3.add_y, V3.add_z] <;> field_simp <;> ring


/-! ### Part 2: the edge integral -/

/-- the edge integral in the form that is differentiated: `(log(l·r_b + R_b·L) − log(l·r_a + R_a·L))/l`, `L = b − a`, `l = |L|` -/
noncomputable def edgeI (a b q : V3 ℝ) : ℝ :=
  (Real.log (√(V3.dot (b - a) (b - a)) * Kern.norm (b - q) + V3.dot (b - q) (b - a)) -
    Real.log (√(V3.dot (b - a) (b - a)) * Kern.norm (a - q) + V3.dot (a - q) (b - a))) / √(V3.dot (b - a) (b - a))

/-- `∇I = s₁ R_a + t₁ L − s₂ R_b − t₂ L` -/
noncomputable def edgeGrad (A B L : V3 ℝ) (l rA rB : ℝ) : V3 ℝ :=
  vs (1 / (rA * (l * rA + V3.dot A L))) A + vs (1 / (l * (l * rA + V3.dot A L))) L -
    vs (1 / (rB * (l * rB + V3.dot B L))) B - vs (1 / (l * (l * rB + V3.dot B L))) L

theorem hasGrad_edgeI (a b p : V3 ℝ) (hl : √(V3.dot (b - a) (b - a)) ≠ 0) (hra : Kern.norm (a - p) ≠ 0)
    (hrb : Kern.norm (b - p) ≠ 0)
    (hga : √(V3.dot (b - a) (b - a)) * Kern.norm (a - p) + V3.dot (a - p) (b - a) ≠ 0)
    (hgb : √(V3.dot (b - a) (b - a)) * Kern.norm (b - p) + V3.dot (b - p) (b - a) ≠ 0) :
    HasGrad (edgeI a b) p
      (edgeGrad (a - p) (b - p) (b - a) (√(V3.dot (b - a) (b - a))) (Kern.norm (a - p)) (Kern.norm (b - p))) := by
  have hA := (((hasGrad_norm a p hra).const_mul (√(V3.dot (b - a) (b - a)))).add (hasGrad_dotSubL a (b - a) p)).log hga
  have hB := (((hasGrad_norm b p hrb).const_mul (√(V3.dot (b - a) (b - a)))).add (hasGrad_dotSubL b (b - a) p)).log hgb
  have H := (hB.sub hA).div_const (√(V3.dot (b - a) (b - a)))
  refine (H.congr_fun fun q => rfl).congr_grad ?_
  unfold edgeGrad
  generalize √(V3.dot (b - a) (b - a)) = l at *
  generalize Kern.norm (a - p) = rA at *
  generalize Kern.norm (b - p) = rB at *
  generalize V3.dot (a - p) (b - a) = qa at *
  generalize V3.dot (b - p) (b - a) = qb at *
  apply V3.ext' <;> simp only [vs, neg_x, neg_y, neg_z, V3.add_x, V3.add_y, V3.add_z, V3.sub_x, V3.sub_y, V3.sub_z] <;>
    field_simp <;> ring

/-- the model's `triEdgeI` is `edgeI` off the line of the edge and outside the `on_edge` branch -/
theorem triEdgeI_eq_edgeI (a b q : V3 ℝ) (hL : 0 < V3.dot (b - a) (b - a))
    (hX : 0 < V3.dot (V3.cross (a - q) (b - a)) (V3.cross (a - q) (b - a)))
    (hoff : ¬ TriEdgeOnV (a - q) (b - q) (b - a)) :
    triEdgeI (a - q) (b - q) (b - a) = edgeI a b q ∧
      0 < √(V3.dot (b - a) (b - a)) * Kern.norm (a - q) + V3.dot (a - q) (b - a) ∧
      0 < √(V3.dot (b - a) (b - a)) * Kern.norm (b - q) + V3.dot (b - q) (b - a) := by
  have eB : a - q + vs 1 (b - a) = b - q := by apply V3.ext' <;> simp [vs]
  obtain ⟨g1, g2, g3⟩ := triEdgeI_canon (a - q) (b - a) 1 one_pos hL hX (by rw [eB, vs_one]; exact hoff)
  rw [eB] at g2 g3
  rw [vs_one, one_mul] at g3
  have hl : 0 < √(V3.dot (b - a) (b - a)) := Real.sqrt_pos.mpr hL
  unfold edgeI
  simp only [norm_eq_sqrt_dot]
  set l := √(V3.dot (b - a) (b - a)) with hldef
  set rA := √(V3.dot (a - q) (a - q)) with hrA
  set rB := √(V3.dot (b - q) (b - q)) with hrB
  have k1 : 0 < l * rA + V3.dot (a - q) (b - a) := by
    have := mul_pos hl g1
    have e : l * (rA + V3.dot (a - q) (b - a) / l) = l * rA + V3.dot (a - q) (b - a) := by field_simp
    rwa [e] at this
  have k2 : 0 < l * rB + V3.dot (b - q) (b - a) := by
    have := mul_pos hl g2
    have e : l * (rB + V3.dot (b - q) (b - a) / l) = l * rB + V3.dot (b - q) (b - a) := by field_simp
    rwa [e] at this
  refine ⟨?_, k1, k2⟩
  rw [g3, ← Real.log_div k2.ne' k1.ne']
  congr 2
  rw [div_eq_div_iff g1.ne' k1.ne']
  field_simp

/-! ### Part 3: the gradient of the solid angle -/

/-- the Biot–Savart scalar of the segment from `A` to `B` seen from the origin -/
noncomputable def bsBeta (rA rB pAB : ℝ) : ℝ := (rA + rB) / (rA * rB * (rA * rB + pAB))

/-- the algebra behind `∇Ω = −Σ β_i R_i × L_i`, in the lengths `r_i`, the scalar products `p_ij` and one component
`c_0, c_1, c_2` of `R_1×R_2, R_2×R_0, R_0×R_1`; `x_k` is that component of `R_k` (Cramer: `N x_k = −Σ_j p_kj c_j`) -/
theorem gradOmega_alg (r0 r1 r2 p01 p02 p12 c0 c1 c2 x0 x1 x2 D N : ℝ) (h0 : r0 ≠ 0) (h1 : r1 ≠ 0) (h2 : r2 ≠ 0)
    (g01 : r0 * r1 + p01 ≠ 0) (g12 : r1 * r2 + p12 ≠ 0) (g02 : r0 * r2 + p02 ≠ 0)
    (hD : D = r0 * r1 * r2 + p12 * r0 + p02 * r1 + p01 * r2)
    (hZ : D ^ 2 + N ^ 2 = 2 * (r0 * r1 + p01) * (r1 * r2 + p12) * (r0 * r2 + p02))
    (k0 : N * x0 = -(r0 ^ 2 * c0 + p01 * c1 + p02 * c2)) (k1 : N * x1 = -(p01 * c0 + r1 ^ 2 * c1 + p12 * c2))
    (k2 : N * x2 = -(p02 * c0 + p12 * c1 + r2 ^ 2 * c2)) :
    2 * (1 / (D ^ 2 + N ^ 2) * (D * (c0 + c1 + c2) -
      N * -(saDcoef r0 r1 r2 p12 * x0 + saDcoef r1 r0 r2 p02 * x1 + saDcoef r2 r0 r1 p01 * x2))) =
    -(bsBeta r0 r1 p01 * c2 + bsBeta r1 r2 p12 * c0 + bsBeta r2 r0 p02 * c1) := by
  have e : N * -(saDcoef r0 r1 r2 p12 * x0 + saDcoef r1 r0 r2 p02 * x1 + saDcoef r2 r0 r1 p01 * x2) =
      -(saDcoef r0 r1 r2 p12 * (N * x0) + saDcoef r1 r0 r2 p02 * (N * x1) + saDcoef r2 r0 r1 p01 * (N * x2)) := by ring
  rw [e, k0, k1, k2, hZ, hD]
  unfold saDcoef bsBeta
  field_simp
  ring


/-- off the plane of the triangle no two of the three vertex directions are parallel, and no vertex is at the observer -/
theorem offplane_cross (R0 R1 R2 : V3 ℝ) (hN : saN R0 R1 R2 ≠ 0) :
    0 < V3.dot (V3.cross R0 R1) (V3.cross R0 R1) ∧ 0 < V3.dot (V3.cross R1 R2) (V3.cross R1 R2) ∧
      0 < V3.dot (V3.cross R0 R2) (V3.cross R0 R2) := by
  refine ⟨?_, ?_, ?_⟩ <;> apply dot_self_pos_of_ne <;> intro hc <;> obtain ⟨x, y, z⟩ := eq_zero_of_dot_self _ hc <;>
    apply hN <;> simp only [V3.cross] at x y z <;> simp only [saN, V3.dot, V3.cross]
  · linear_combination (-R2.x) * x - R2.y * y - R2.z * z
  · linear_combination (-R0.x) * x - R0.y * y - R0.z * z
  · linear_combination R1.x * x + R1.y * y + R1.z * z

theorem offplane_norm_ne (R0 R1 R2 : V3 ℝ) (hN : saN R0 R1 R2 ≠ 0) :
    Kern.norm R0 ≠ 0 ∧ Kern.norm R1 ≠ 0 ∧ Kern.norm R2 ≠ 0 := by
  refine ⟨?_, ?_, ?_⟩ <;> intro h <;> apply hN <;> rw [norm_eq_zero_iff] at h <;> rw [h] <;>
    simp [saN, V3.dot, V3.cross]

/-- Cramer's rule in the basis `R1×R2, R2×R0, R0×R1` -/
theorem cramer (R0 R1 R2 V : V3 ℝ) :
    vs (saN R0 R1 R2) V = -(vs (V3.dot V R0) (V3.cross R1 R2) + vs (V3.dot V R1) (V3.cross R2 R0) +
      vs (V3.dot V R2) (V3.cross R0 R1)) := by
  apply V3.ext' <;> simp only [vs, saN, V3.dot, V3.cross, neg_x, neg_y, neg_z, V3.add_x, V3.add_y, V3.add_z] <;> ring

/-- `∇Ω` as the (negative) Biot–Savart sum over the three edges -/
noncomputable def omegaGrad (R0 R1 R2 L0 L1 L2 : V3 ℝ) : V3 ℝ :=
  -(vs (bsBeta (Kern.norm R0) (Kern.norm R1) (V3.dot R1 R0)) (V3.cross R0 L0) +
    vs (bsBeta (Kern.norm R1) (Kern.norm R2) (V3.dot R2 R1)) (V3.cross R1 L1) +
    vs (bsBeta (Kern.norm R2) (Kern.norm R0) (V3.dot R2 R0)) (V3.cross R2 L2))

theorem gradOmega_vec (R0 R1 R2 : V3 ℝ) (hN : saN R0 R1 R2 ≠ 0) :
    vs 2 (vs (1 / (saD R0 R1 R2 ^ 2 + saN R0 R1 R2 ^ 2)) (vs (saD R0 R1 R2) (V3.cross (R1 - R0) (R2 - R0)) -
      vs (saN R0 R1 R2)
        (-(vs (saDcoef (Kern.norm R0) (Kern.norm R1) (Kern.norm R2) (V3.dot R2 R1)) R0 +
           vs (saDcoef (Kern.norm R1) (Kern.norm R0) (Kern.norm R2) (V3.dot R2 R0)) R1 +
           vs (saDcoef (Kern.norm R2) (Kern.norm R0) (Kern.norm R1) (V3.dot R1 R0)) R2)))) =
    omegaGrad R0 R1 R2 (R1 - R0) (R2 - R1) (R0 - R2) := by
  obtain ⟨c01, c12, c02⟩ := offplane_cross R0 R1 R2 hN
  obtain ⟨h0, h1, h2⟩ := offplane_norm_ne R0 R1 R2 hN
  have g01 := (norm_mul_add_dot_pos R0 R1 c01).ne'
  have g12 := (norm_mul_add_dot_pos R1 R2 c12).ne'
  have g02 := (norm_mul_add_dot_pos R0 R2 c02).ne'
  have hD : saD R0 R1 R2 = Kern.norm R0 * Kern.norm R1 * Kern.norm R2 + V3.dot R2 R1 * Kern.norm R0 +
      V3.dot R2 R0 * Kern.norm R1 + V3.dot R1 R0 * Kern.norm R2 := rfl
  have hZ := saZ_normSq R0 R1 R2
  have q0 := cramer R0 R1 R2 R0
  have q1 := cramer R0 R1 R2 R1
  have q2 := cramer R0 R1 R2 R2
  have s0 := norm_sq_dot R0
  have s1 := norm_sq_dot R1
  have s2 := norm_sq_dot R2
  have d01 : V3.dot R0 R1 = V3.dot R1 R0 := by simp only [V3.dot]; ring
  have d02 : V3.dot R0 R2 = V3.dot R2 R0 := by simp only [V3.dot]; ring
  have d12 : V3.dot R1 R2 = V3.dot R2 R1 := by simp only [V3.dot]; ring
  rw [← s0, d01, d02] at q0
  rw [← s1, d12] at q1
  rw [← s2] at q2
  unfold omegaGrad
  apply V3.ext'
  · have key := gradOmega_alg (Kern.norm R0) (Kern.norm R1) (Kern.norm R2) (V3.dot R1 R0) (V3.dot R2 R0) (V3.dot R2 R1)
      (V3.cross R1 R2).x (V3.cross R2 R0).x (V3.cross R0 R1).x R0.x R1.x R2.x (saD R0 R1 R2) (saN R0 R1 R2) h0 h1 h2 g01 g12 g02
      hD hZ
      (by have := congrArg V3.x q0; simpa only [vs, neg_x, V3.add_x] using this)
      (by have := congrArg V3.x q1; simpa only [vs, neg_x, V3.add_x] using this)
      (by have := congrArg V3.x q2; simpa only [vs, neg_x, V3.add_x] using this)
    simp only [V3.cross] at key
    simp only [vs, neg_x, V3.add_x, V3.sub_x, V3.sub_y, V3.sub_z, V3.cross]
    linear_combination key
  · have key := gradOmega_alg (Kern.norm R0) (Kern.norm R1) (Kern.norm R2) (V3.dot R1 R0) (V3.dot R2 R0) (V3.dot R2 R1)
      (V3.cross R1 R2).y (V3.cross R2 R0).y (V3.cross R0 R1).y R0.y R1.y R2.y (saD R0 R1 R2) (saN R0 R1 R2) h0 h1 h2 g01 g12 g02
      hD hZ
      (by have := congrArg V3.y q0; simpa only [vs, neg_y, V3.add_y] using this)
      (by have := congrArg V3.y q1; simpa only [vs, neg_y, V3.add_y] using this)
      (by have := congrArg V3.y q2; simpa only [vs, neg_y, V3.add_y] using this)
    simp only [V3.cross] at key
    simp only [vs, neg_y, V3.add_y, V3.sub_x, V3.sub_y, V3.sub_z, V3.cross]
    linear_combination key
  · have key := gradOmega_alg (Kern.norm R0) (Kern.norm R1) (Kern.norm R2) (V3.dot R1 R0) (V3.dot R2 R0) (V3.dot R2 R1)
      (V3.cross R1 R2).z (V3.cross R2 R0).z (V3.cross R0 R1).z R0.z R1.z R2.z (saD R0 R1 R2) (saN R0 R1 R2) h0 h1 h2 g01 g12 g02
      hD hZ
      (by have := congrArg V3.z q0; simpa only [vs, neg_z, V3.add_z] using this)
      (by have := congrArg V3.z q1; simpa only [vs, neg_z, V3.add_z] using this)
      (by have := congrArg V3.z q2; simpa only [vs, neg_z, V3.add_z] using this)
    simp only [V3.cross] at key
    simp only [vs, neg_z, V3.add_z, V3.sub_x, V3.sub_y, V3.sub_z, V3.cross]
    linear_combination key

/-- **the gradient of the solid angle** (before the clamp) at an observer off the plane of the triangle -/
theorem hasGrad_solidAngleRaw (v0 v1 v2 p : V3 ℝ) (hN : saN (v0 - p) (v1 - p) (v2 - p) ≠ 0) :
    HasGrad (fun q => solidAngleRaw (v0 - q) (v1 - q) (v2 - q)) p
      (omegaGrad (v0 - p) (v1 - p) (v2 - p) (v1 - v0) (v2 - v1) (v0 - v2)) := by
  obtain ⟨h0, h1, h2⟩ := offplane_norm_ne _ _ _ hN
  have H := ((hasGrad_saD v0 v1 v2 p h0 h1 h2).arg (hasGrad_saN v0 v1 v2 p) hN).const_mul 2
  refine (H.congr_fun fun q => rfl).congr_grad ?_
  have e1 : V3.cross (v1 - v0) (v2 - v0) = V3.cross (v1 - p - (v0 - p)) (v2 - p - (v0 - p)) := by
    congr 1 <;> apply V3.ext' <;> simp
  have e2 : v1 - v0 = v1 - p - (v0 - p) := by apply V3.ext' <;> simp
  have e3 : v2 - v1 = v2 - p - (v1 - p) := by apply V3.ext' <;> simp
  have e4 : v0 - v2 = v0 - p - (v2 - p) := by apply V3.ext' <;> simp
  rw [e1, e2, e3, e4]
  exact gradOmega_vec _ _ _ hN


/-! ### Part 4: per-edge algebra -/

/-- `s₁ − s₂ = β`: the difference of the two end-point terms of `∇I` is the Biot–Savart scalar of the edge -/
theorem edge_beta_scalar (rA rB l q : ℝ) (hrA : rA ≠ 0) (hrB : rB ≠ 0) (hGA : l * rA + q ≠ 0) (hGB : l * rB + (q + l ^ 2) ≠ 0)
    (hg : rA * rB + (rA ^ 2 + q) ≠ 0) (hrel : rB ^ 2 = rA ^ 2 + 2 * q + l ^ 2) :
    1 / (rA * (l * rA + q)) - 1 / (rB * (l * rB + (q + l ^ 2))) = (rA + rB) / (rA * rB * (rA * rB + (rA ^ 2 + q))) := by
  rw [div_sub_div _ _ (mul_ne_zero hrA hGA) (mul_ne_zero hrB hGB), div_eq_div_iff (mul_ne_zero (mul_ne_zero hrA hGA) (mul_ne_zero hrB hGB))
    (mul_ne_zero (mul_ne_zero hrA hrB) hg)]
  linear_combination (rA * rB * (rA * q + rA * rB * l + rA ^ 2 * l)) * hrel

theorem edge_inv_scalar (r l q : ℝ) (hr : r ≠ 0) (_hl : l ≠ 0) (hG : l * r + q ≠ 0) :
    1 / (r * (l * r + q)) * q + 1 / (l * (l * r + q)) * l ^ 2 = 1 / r := by
  obtain ⟨G, rfl⟩ : ∃ G, q = G - l * r := ⟨l * r + q, by ring⟩
  have hG' : G ≠ 0 := by simpa using hG
  have e : l * r + (G - l * r) = G := by ring
  rw [e]
  field_simp
  ring

theorem dot_comm' (a b : V3 ℝ) : V3.dot a b = V3.dot b a := by simp only [V3.dot]; ring

theorem edge_dots (A L : V3 ℝ) : V3.dot (A + L) L = V3.dot A L + V3.dot L L ∧ V3.dot (A + L) A = V3.dot A A + V3.dot A L ∧
    V3.dot (A + L) (A + L) = V3.dot A A + 2 * V3.dot A L + V3.dot L L := by
  refine ⟨?_, ?_, ?_⟩ <;> simp only [V3.dot, V3.add_x, V3.add_y, V3.add_z] <;> ring

/-- `s₁ − s₂ = β` for an edge from `A` to `B = A + L` -/
theorem edge_beta (A B L : V3 ℝ) (l : ℝ) (hB : B = A + L) (hl : l ^ 2 = V3.dot L L) (hrA : Kern.norm A ≠ 0) (hrB : Kern.norm B ≠ 0)
    (hGA : l * Kern.norm A + V3.dot A L ≠ 0) (hGB : l * Kern.norm B + V3.dot B L ≠ 0)
    (hg : Kern.norm A * Kern.norm B + V3.dot B A ≠ 0) :
    1 / (Kern.norm A * (l * Kern.norm A + V3.dot A L)) - 1 / (Kern.norm B * (l * Kern.norm B + V3.dot B L)) =
      bsBeta (Kern.norm A) (Kern.norm B) (V3.dot B A) := by
  subst hB
  obtain ⟨d1, d2, d3⟩ := edge_dots A L
  have sA := norm_sq_dot A
  have sB := norm_sq_dot (A + L)
  rw [d1, ← hl] at hGB ⊢
  rw [d2, ← sA] at hg ⊢
  unfold bsBeta
  exact edge_beta_scalar _ _ _ _ hrA hrB hGA hGB hg (by rw [sB, d3, sA, hl])

/-- the trace of the Jacobian cancels edge by edge -/
theorem edge_div (n A B L : V3 ℝ) (l rA rB β : ℝ) (hB : B = A + L)
    (hβ : 1 / (rA * (l * rA + V3.dot A L)) - 1 / (rB * (l * rB + V3.dot B L)) = β) :
    V3.dot (V3.cross L n) (edgeGrad A B L l rA rB) = V3.dot n (vs β (V3.cross A L)) := by
  subst hB
  rw [← hβ]
  unfold edgeGrad
  generalize 1 / (rA * (l * rA + V3.dot A L)) = s1
  generalize 1 / (l * (l * rA + V3.dot A L)) = t1
  generalize 1 / (rB * (l * rB + V3.dot (A + L) L)) = s2
  generalize 1 / (l * (l * rB + V3.dot (A + L) L)) = t2
  simp only [V3.dot, V3.cross, vs, V3.add_x, V3.add_y, V3.add_z, V3.sub_x, V3.sub_y, V3.sub_z]
  ring

/-- the antisymmetric part of the Jacobian, edge by edge: what is left is `n·(1/r_a − 1/r_b)` -/
theorem edge_curl (n A B L : V3 ℝ) (l rA rB β ia ib : ℝ) (hB : B = A + L) (hnL : V3.dot n L = 0)
    (hβ : 1 / (rA * (l * rA + V3.dot A L)) - 1 / (rB * (l * rB + V3.dot B L)) = β)
    (h1 : 1 / (rA * (l * rA + V3.dot A L)) * V3.dot A L + 1 / (l * (l * rA + V3.dot A L)) * V3.dot L L = ia)
    (h2 : 1 / (rB * (l * rB + V3.dot B L)) * V3.dot B L + 1 / (l * (l * rB + V3.dot B L)) * V3.dot L L = ib) :
    V3.cross (vs β (V3.cross A L)) n - V3.cross (edgeGrad A B L l rA rB) (V3.cross L n) = vs (ia - ib) n := by
  subst hB
  unfold edgeGrad
  generalize 1 / (rA * (l * rA + V3.dot A L)) = s1 at *
  generalize 1 / (l * (l * rA + V3.dot A L)) = t1 at *
  generalize 1 / (rB * (l * rB + V3.dot (A + L) L)) = s2 at *
  generalize 1 / (l * (l * rB + V3.dot (A + L) L)) = t2 at *
  simp only [V3.dot, V3.add_x, V3.add_y, V3.add_z] at hnL h1 h2
  apply V3.ext' <;> simp only [V3.cross, vs, V3.add_x, V3.add_y, V3.add_z, V3.sub_x, V3.sub_y, V3.sub_z]
  · linear_combination (-β * A.x - t1 * L.x + s2 * L.x + t2 * L.x) * hnL -
      ((n.x * A.x + n.y * A.y + n.z * A.z) * L.x) * hβ + n.x * (h1 - h2)
  · linear_combination (-β * A.y - t1 * L.y + s2 * L.y + t2 * L.y) * hnL -
      ((n.x * A.x + n.y * A.y + n.z * A.z) * L.y) * hβ + n.y * (h1 - h2)
  · linear_combination (-β * A.z - t1 * L.z + s2 * L.z + t2 * L.z) * hnL -
      ((n.x * A.x + n.y * A.y + n.z * A.z) * L.z) * hβ + n.z * (h1 - h2)


/-! ### Part 5: the smooth form of `triangleB`, its Jacobian, div and curl -/

/-- the Jacobian of `q ↦ f(q)·v` (`v` constant) -/
noncomputable def outer (v g : V3 ℝ) : M3 ℝ := ⟨vs v.x g, vs v.y g, vs v.z g⟩

theorem jacDiv_outer (v g : V3 ℝ) : jacDiv (outer v g) = V3.dot v g := by simp only [jacDiv, outer, vs, V3.dot]

theorem jacCurl_outer (v g : V3 ℝ) : jacCurl (outer v g) = V3.cross g v := by
  apply V3.ext' <;> simp only [jacCurl, outer, vs, V3.cross] <;> ring

theorem HasGrad.smul_const {g : V3 ℝ} (hf : HasGrad f p g) (v : V3 ℝ) : HasPartials (fun q => vs (f q) v) p (outer v g) :=
  ⟨(hf.dx.mul_const v.x).congr_deriv (by simp only [outer, vs]; ring), (hf.dy.mul_const v.x).congr_deriv (by simp only [outer, vs]; ring),
   (hf.dz.mul_const v.x).congr_deriv (by simp only [outer, vs]; ring), (hf.dx.mul_const v.y).congr_deriv (by simp only [outer, vs]; ring),
   (hf.dy.mul_const v.y).congr_deriv (by simp only [outer, vs]; ring), (hf.dz.mul_const v.y).congr_deriv (by simp only [outer, vs]; ring),
   (hf.dx.mul_const v.z).congr_deriv (by simp only [outer, vs]; ring), (hf.dy.mul_const v.z).congr_deriv (by simp only [outer, vs]; ring),
   (hf.dz.mul_const v.z).congr_deriv (by simp only [outer, vs]; ring)⟩

/-- the unit normal of the triangle as `triangle_Bfield` computes it -/
noncomputable def triNormal (v0 v1 v2 : V3 ℝ) : V3 ℝ :=
  vd (V3.cross (v1 - v0) (v2 - v0)) (Kern.norm (V3.cross (v1 - v0) (v2 - v0)))

theorem triNormal_perp (v0 v1 v2 : V3 ℝ) :
    V3.dot (triNormal v0 v1 v2) (v1 - v0) = 0 ∧ V3.dot (triNormal v0 v1 v2) (v2 - v1) = 0 ∧
      V3.dot (triNormal v0 v1 v2) (v0 - v2) = 0 := by
  refine ⟨?_, ?_, ?_⟩ <;> simp only [triNormal, vd, V3.dot, V3.cross, V3.sub_x, V3.sub_y, V3.sub_z] <;> ring

/-- `triangle_Bfield` without its branches: `σ/(4π)·(Ω n + Σ_i I_i L_i × n)` with the unclamped solid angle and the
cancellation-free edge integrals in their common closed form -/
noncomputable def triSmooth (v0 v1 v2 pol q : V3 ℝ) : V3 ℝ :=
  vs (V3.dot (triNormal v0 v1 v2) pol / Real.pi / 4)
    (vs (solidAngleRaw (v0 - q) (v1 - q) (v2 - q)) (triNormal v0 v1 v2) + vs (edgeI v0 v1 q) (V3.cross (v1 - v0) (triNormal v0 v1 v2)) +
      vs (edgeI v1 v2 q) (V3.cross (v2 - v1) (triNormal v0 v1 v2)) + vs (edgeI v2 v0 q) (V3.cross (v0 - v2) (triNormal v0 v1 v2)))

/-- the nine partial derivatives of `triangle_Bfield` off the plane of the triangle -/
noncomputable def triJac (v0 v1 v2 pol p : V3 ℝ) : M3 ℝ :=
  jacScale (V3.dot (triNormal v0 v1 v2) pol / Real.pi / 4)
    (jacAdd (jacAdd (jacAdd
      (outer (triNormal v0 v1 v2) (omegaGrad (v0 - p) (v1 - p) (v2 - p) (v1 - v0) (v2 - v1) (v0 - v2)))
      (outer (V3.cross (v1 - v0) (triNormal v0 v1 v2))
        (edgeGrad (v0 - p) (v1 - p) (v1 - v0) (√(V3.dot (v1 - v0) (v1 - v0))) (Kern.norm (v0 - p)) (Kern.norm (v1 - p)))))
      (outer (V3.cross (v2 - v1) (triNormal v0 v1 v2))
        (edgeGrad (v1 - p) (v2 - p) (v2 - v1) (√(V3.dot (v2 - v1) (v2 - v1))) (Kern.norm (v1 - p)) (Kern.norm (v2 - p)))))
      (outer (V3.cross (v0 - v2) (triNormal v0 v1 v2))
        (edgeGrad (v2 - p) (v0 - p) (v0 - v2) (√(V3.dot (v0 - v2) (v0 - v2))) (Kern.norm (v2 - p)) (Kern.norm (v0 - p)))))

/-- the observer is strictly outside the closed `on_edge` tolerance tube of the edge (`rho2 ≤ 1e-30·l2` alongside the edge): an
open condition, which is what differentiability needs -/
def TriEdgeClear (R Rn L : V3 ℝ) : Prop :=
  1 / 1000000000000000000000000000000 * V3.dot L L < V3.dot (V3.cross R L) (V3.cross R L) / V3.dot L L ∨ 0 < V3.dot R L ∨
    V3.dot Rn L < 0

theorem triEdgeClear_off (R L : V3 ℝ) (hL : 0 < V3.dot L L) (h : TriEdgeClear R (R + L) L) : ¬ TriEdgeOnV R (R + L) L := by
  have hX : V3.dot (V3.cross (R + L) L) (V3.cross (R + L) L) = V3.dot (V3.cross R L) (V3.cross R L) := by
    simp only [V3.dot, V3.cross, V3.add_x, V3.add_y, V3.add_z]; ring
  have hs : 0 < √(V3.dot L L) := Real.sqrt_pos.mpr hL
  unfold TriEdgeOnV triEdgeOn
  rw [hX, ite_self]
  rintro ⟨⟨a1, a2⟩, a3⟩
  rcases h with h | h | h
  · exact absurd a1 (not_le.mpr h)
  · exact absurd a2 (not_lt.mpr (div_pos h hs).le)
  · exact absurd a3 (not_lt.mpr (div_neg_of_neg_of_pos h hs).le)

/-- the conditions under which `triangle_Bfield` is its smooth closed form near the observer `q`: off the plane of the triangle,
the solid angle strictly below the clamp threshold `6.2831853` of the code, strictly outside the three `on_edge` tubes -/
def TriClear (v0 v1 v2 q : V3 ℝ) : Prop :=
  saN (v0 - q) (v1 - q) (v2 - q) ≠ 0 ∧ |solidAngleRaw (v0 - q) (v1 - q) (v2 - q)| < 62831853 / 10000000 ∧
    TriEdgeClear (v0 - q) (v1 - q) (v1 - v0) ∧ TriEdgeClear (v1 - q) (v2 - q) (v2 - v1) ∧ TriEdgeClear (v2 - q) (v0 - q) (v0 - v2)

/-- a triangle that is seen from somewhere off its plane has an area -/
theorem area_of_offplane (v0 v1 v2 q : V3 ℝ) (hN : saN (v0 - q) (v1 - q) (v2 - q) ≠ 0) :
    Kern.norm (V3.cross (v1 - v0) (v2 - v0)) ≠ 0 := by
  intro h
  apply hN
  rw [norm_eq_zero_iff] at h
  have hx := congrArg V3.x h
  have hy := congrArg V3.y h
  have hz := congrArg V3.z h
  simp only [V3.cross, V3.sub_x, V3.sub_y, V3.sub_z] at hx hy hz
  simp only [saN, V3.dot, V3.cross, V3.sub_x, V3.sub_y, V3.sub_z]
  linear_combination (q.x - v0.x) * hx + (q.y - v0.y) * hy + (q.z - v0.z) * hz

/-- what is known about one edge `a → b` at an observer `q` off its line and strictly outside its tube -/
theorem edge_facts (a b q : V3 ℝ) (hL : 0 < V3.dot (b - a) (b - a))
    (hX : 0 < V3.dot (V3.cross (a - q) (b - q)) (V3.cross (a - q) (b - q))) (hc : TriEdgeClear (a - q) (b - q) (b - a)) :
    triEdgeI (a - q) (b - q) (b - a) = edgeI a b q ∧
      0 < √(V3.dot (b - a) (b - a)) * Kern.norm (a - q) + V3.dot (a - q) (b - a) ∧
      0 < √(V3.dot (b - a) (b - a)) * Kern.norm (b - q) + V3.dot (b - q) (b - a) := by
  have eB : b - q = a - q + (b - a) := by apply V3.ext' <;> simp
  have hX' : 0 < V3.dot (V3.cross (a - q) (b - a)) (V3.cross (a - q) (b - a)) := by
    have : V3.dot (V3.cross (a - q) (b - a)) (V3.cross (a - q) (b - a)) =
        V3.dot (V3.cross (a - q) (b - q)) (V3.cross (a - q) (b - q)) := by
      simp only [V3.dot, V3.cross, V3.sub_x, V3.sub_y, V3.sub_z]; ring
    rw [this]; exact hX
  have hoff : ¬ TriEdgeOnV (a - q) (b - q) (b - a) := by
    rw [eB] at hc ⊢
    exact triEdgeClear_off _ _ hL hc
  exact triEdgeI_eq_edgeI a b q hL hX' hoff

theorem cross_self_swap (U V : V3 ℝ) : V3.dot (V3.cross V U) (V3.cross V U) = V3.dot (V3.cross U V) (V3.cross U V) := by
  simp only [V3.dot, V3.cross]; ring

private theorem smooth_algebra (nv L0 L1 L2 : V3 ℝ) (σ sa I0 I1 I2 P F : ℝ) :
    vd (vd (vs σ (vs sa nv - V3.cross nv (vs I0 L0 + vs I1 L1 + vs I2 L2))) P) F =
      vs (σ / P / F) (vs sa nv + vs I0 (V3.cross L0 nv) + vs I1 (V3.cross L1 nv) + vs I2 (V3.cross L2 nv)) := by
  apply V3.ext' <;> simp only [vd, vs, V3.cross, V3.add_x, V3.add_y, V3.add_z, V3.sub_x, V3.sub_y, V3.sub_z] <;> ring

/-- **`triangle_Bfield` is its smooth closed form** at every observer satisfying `TriClear` -/
theorem triangleB_eq_smooth (v0 v1 v2 pol q : V3 ℝ) (h : TriClear v0 v1 v2 q) :
    triangleB v0 v1 v2 pol q = triSmooth v0 v1 v2 pol q := by
  obtain ⟨hN, hcl, c0, c1, c2⟩ := h
  have hA := area_of_offplane v0 v1 v2 q hN
  obtain ⟨x01, x12, x02⟩ := offplane_cross _ _ _ hN
  obtain ⟨p0, p2, p1⟩ := edges_pos_of_area _ _ hA
  have p1' : 0 < V3.dot (v2 - v1) (v2 - v1) := by
    have : V3.dot (v2 - v1) (v2 - v1) = V3.dot (v2 - v0 - (v1 - v0)) (v2 - v0 - (v1 - v0)) := by simp [V3.dot]
    rw [this]; exact p1
  have p2' : 0 < V3.dot (v0 - v2) (v0 - v2) := by
    have : V3.dot (v0 - v2) (v0 - v2) = V3.dot (v2 - v0) (v2 - v0) := by simp [V3.dot]; ring
    rw [this]; exact p2
  obtain ⟨e0, -, -⟩ := edge_facts v0 v1 q p0 x01 c0
  obtain ⟨e1, -, -⟩ := edge_facts v1 v2 q p1' x12 c1
  obtain ⟨e2, -, -⟩ := edge_facts v2 v0 q p2' (by rw [cross_self_swap]; exact x02) c2
  have hsa : solidAngle (v0 - q) (v1 - q) (v2 - q) (Kern.norm (v0 - q)) (Kern.norm (v1 - q)) (Kern.norm (v2 - q)) =
      solidAngleRaw (v0 - q) (v1 - q) (v2 - q) := by
    rw [solidAngle_clamp, if_neg (not_lt.mpr hcl.le)]
  simp only [triangleB, eq0_real, hA, decide_false, Bool.false_eq_true, if_false, e0, e1, e2, hsa, triSmooth, triNormal, pi_real, n,
    ofNat_real, Nat.cast_ofNat]
  exact smooth_algebra _ _ _ _ _ _ _ _ _ _ _


/-- positivity and edge facts at an observer satisfying `TriClear`, collected -/
theorem triClear_facts (v0 v1 v2 q : V3 ℝ) (h : TriClear v0 v1 v2 q) :
    (Kern.norm (v0 - q) ≠ 0 ∧ Kern.norm (v1 - q) ≠ 0 ∧ Kern.norm (v2 - q) ≠ 0) ∧
    (√(V3.dot (v1 - v0) (v1 - v0)) ≠ 0 ∧ √(V3.dot (v2 - v1) (v2 - v1)) ≠ 0 ∧ √(V3.dot (v0 - v2) (v0 - v2)) ≠ 0) ∧
    (√(V3.dot (v1 - v0) (v1 - v0)) * Kern.norm (v0 - q) + V3.dot (v0 - q) (v1 - v0) ≠ 0 ∧
      √(V3.dot (v1 - v0) (v1 - v0)) * Kern.norm (v1 - q) + V3.dot (v1 - q) (v1 - v0) ≠ 0) ∧
    (√(V3.dot (v2 - v1) (v2 - v1)) * Kern.norm (v1 - q) + V3.dot (v1 - q) (v2 - v1) ≠ 0 ∧
      √(V3.dot (v2 - v1) (v2 - v1)) * Kern.norm (v2 - q) + V3.dot (v2 - q) (v2 - v1) ≠ 0) ∧
    (√(V3.dot (v0 - v2) (v0 - v2)) * Kern.norm (v2 - q) + V3.dot (v2 - q) (v0 - v2) ≠ 0 ∧
      √(V3.dot (v0 - v2) (v0 - v2)) * Kern.norm (v0 - q) + V3.dot (v0 - q) (v0 - v2) ≠ 0) ∧
    (Kern.norm (v0 - q) * Kern.norm (v1 - q) + V3.dot (v1 - q) (v0 - q) ≠ 0 ∧
      Kern.norm (v1 - q) * Kern.norm (v2 - q) + V3.dot (v2 - q) (v1 - q) ≠ 0 ∧
      Kern.norm (v2 - q) * Kern.norm (v0 - q) + V3.dot (v0 - q) (v2 - q) ≠ 0) := by
  obtain ⟨hN, -, c0, c1, c2⟩ := h
  have hA := area_of_offplane v0 v1 v2 q hN
  obtain ⟨x01, x12, x02⟩ := offplane_cross _ _ _ hN
  obtain ⟨p0, p2, p1⟩ := edges_pos_of_area _ _ hA
  have p1' : 0 < V3.dot (v2 - v1) (v2 - v1) := by
    have : V3.dot (v2 - v1) (v2 - v1) = V3.dot (v2 - v0 - (v1 - v0)) (v2 - v0 - (v1 - v0)) := by simp [V3.dot]
    rw [this]; exact p1
  have p2' : 0 < V3.dot (v0 - v2) (v0 - v2) := by
    have : V3.dot (v0 - v2) (v0 - v2) = V3.dot (v2 - v0) (v2 - v0) := by simp [V3.dot]; ring
    rw [this]; exact p2
  have x20 : 0 < V3.dot (V3.cross (v2 - q) (v0 - q)) (V3.cross (v2 - q) (v0 - q)) := by rw [cross_self_swap]; exact x02
  obtain ⟨-, a0, b0⟩ := edge_facts v0 v1 q p0 x01 c0
  obtain ⟨-, a1, b1⟩ := edge_facts v1 v2 q p1' x12 c1
  obtain ⟨-, a2, b2⟩ := edge_facts v2 v0 q p2' x20 c2
  exact ⟨offplane_norm_ne _ _ _ hN, ⟨(Real.sqrt_pos.mpr p0).ne', (Real.sqrt_pos.mpr p1').ne', (Real.sqrt_pos.mpr p2').ne'⟩,
    ⟨a0.ne', b0.ne'⟩, ⟨a1.ne', b1.ne'⟩, ⟨a2.ne', b2.ne'⟩,
    ⟨(norm_mul_add_dot_pos _ _ x01).ne', (norm_mul_add_dot_pos _ _ x12).ne', (norm_mul_add_dot_pos _ _ x20).ne'⟩⟩

/-- the smooth closed form has all nine partial derivatives, collected in `triJac` -/
theorem triSmooth_hasPartials (v0 v1 v2 pol p : V3 ℝ) (h : TriClear v0 v1 v2 p) :
    HasPartials (triSmooth v0 v1 v2 pol) p (triJac v0 v1 v2 pol p) := by
  obtain ⟨⟨r0, r1, r2⟩, ⟨l0, l1, l2⟩, ⟨a0, b0⟩, ⟨a1, b1⟩, ⟨a2, b2⟩, -⟩ := triClear_facts v0 v1 v2 p h
  have hΩ := hasGrad_solidAngleRaw v0 v1 v2 p h.1
  have h0 := hasGrad_edgeI v0 v1 p l0 r0 r1 a0 b0
  have h1 := hasGrad_edgeI v1 v2 p l1 r1 r2 a1 b1
  have h2 := hasGrad_edgeI v2 v0 p l2 r2 r0 a2 b2
  exact ((((hΩ.smul_const (triNormal v0 v1 v2)).add (h0.smul_const _)).add (h1.smul_const _)).add (h2.smul_const _)).const_smul _

/-! #### `TriClear` is an open condition along every coordinate line -/

section eventually
variable (γ : ℝ → V3 ℝ) (hx : Continuous fun t => (γ t).x) (hy : Continuous fun t => (γ t).y) (hz : Continuous fun t => (γ t).z)
include hx hy hz

theorem triEdgeClear_eventually (a b : V3 ℝ) (t0 : ℝ) (h : TriEdgeClear (a - γ t0) (b - γ t0) (b - a)) :
    ∀ᶠ t in 𝓝 t0, TriEdgeClear (a - γ t) (b - γ t) (b - a) := by
  rcases h with h | h | h
  · have c : Continuous fun t => V3.dot (V3.cross (a - γ t) (b - a)) (V3.cross (a - γ t) (b - a)) / V3.dot (b - a) (b - a) := by
      simp only [V3.dot, V3.cross, V3.sub_x, V3.sub_y, V3.sub_z]; fun_prop
    exact (c.continuousAt.eventually (lt_mem_nhds h)).mono fun t ht => Or.inl ht
  · have c : Continuous fun t => V3.dot (a - γ t) (b - a) := by
      simp only [V3.dot, V3.sub_x, V3.sub_y, V3.sub_z]; fun_prop
    exact (c.continuousAt.eventually (lt_mem_nhds h)).mono fun t ht => Or.inr (Or.inl ht)
  · have c : Continuous fun t => V3.dot (b - γ t) (b - a) := by
      simp only [V3.dot, V3.sub_x, V3.sub_y, V3.sub_z]; fun_prop
    exact (c.continuousAt.eventually (gt_mem_nhds h)).mono fun t ht => Or.inr (Or.inr ht)

end eventually

theorem triClear_eventually (v0 v1 v2 p : V3 ℝ) (h : TriClear v0 v1 v2 p) :
    (∀ᶠ t in 𝓝 p.x, TriClear v0 v1 v2 ⟨t, p.y, p.z⟩) ∧ (∀ᶠ t in 𝓝 p.y, TriClear v0 v1 v2 ⟨p.x, t, p.z⟩) ∧
      (∀ᶠ t in 𝓝 p.z, TriClear v0 v1 v2 ⟨p.x, p.y, t⟩) := by
  obtain ⟨hN, hcl, c0, c1, c2⟩ := h
  have gN := hasGrad_saN v0 v1 v2 p
  have gΩ := hasGrad_solidAngleRaw v0 v1 v2 p hN
  refine ⟨?_, ?_, ?_⟩
  · have k1 := gN.dx.continuousAt.eventually_ne hN
    have k2 := gΩ.dx.continuousAt.abs.eventually (gt_mem_nhds hcl)
    have k3 := triEdgeClear_eventually (fun t => ⟨t, p.y, p.z⟩) continuous_id continuous_const continuous_const v0 v1 p.x c0
    have k4 := triEdgeClear_eventually (fun t => ⟨t, p.y, p.z⟩) continuous_id continuous_const continuous_const v1 v2 p.x c1
    have k5 := triEdgeClear_eventually (fun t => ⟨t, p.y, p.z⟩) continuous_id continuous_const continuous_const v2 v0 p.x c2
    filter_upwards [k1, k2, k3, k4, k5] with t t1 t2 t3 t4 t5
    exact ⟨t1, t2, t3, t4, t5⟩
  · have k1 := gN.dy.continuousAt.eventually_ne hN
    have k2 := gΩ.dy.continuousAt.abs.eventually (gt_mem_nhds hcl)
    have k3 := triEdgeClear_eventually (fun t => ⟨p.x, t, p.z⟩) continuous_const continuous_id continuous_const v0 v1 p.y c0
    have k4 := triEdgeClear_eventually (fun t => ⟨p.x, t, p.z⟩) continuous_const continuous_id continuous_const v1 v2 p.y c1
    have k5 := triEdgeClear_eventually (fun t => ⟨p.x, t, p.z⟩) continuous_const continuous_id continuous_const v2 v0 p.y c2
    filter_upwards [k1, k2, k3, k4, k5] with t t1 t2 t3 t4 t5
    exact ⟨t1, t2, t3, t4, t5⟩
  · have k1 := gN.dz.continuousAt.eventually_ne hN
    have k2 := gΩ.dz.continuousAt.abs.eventually (gt_mem_nhds hcl)
    have k3 := triEdgeClear_eventually (fun t => ⟨p.x, p.y, t⟩) continuous_const continuous_const continuous_id v0 v1 p.z c0
    have k4 := triEdgeClear_eventually (fun t => ⟨p.x, p.y, t⟩) continuous_const continuous_const continuous_id v1 v2 p.z c1
    have k5 := triEdgeClear_eventually (fun t => ⟨p.x, p.y, t⟩) continuous_const continuous_const continuous_id v2 v0 p.z c2
    filter_upwards [k1, k2, k3, k4, k5] with t t1 t2 t3 t4 t5
    exact ⟨t1, t2, t3, t4, t5⟩

/-- **the nine partial derivatives of the model of `triangle_Bfield`** at an observer satisfying `TriClear` -/
theorem triangleB_hasPartials (v0 v1 v2 pol p : V3 ℝ) (h : TriClear v0 v1 v2 p) :
    HasPartials (triangleB v0 v1 v2 pol) p (triJac v0 v1 v2 pol p) := by
  obtain ⟨ex, ey, ez⟩ := triClear_eventually v0 v1 v2 p h
  exact (triSmooth_hasPartials v0 v1 v2 pol p h).congr_on (fun q hq => triangleB_eq_smooth v0 v1 v2 pol q hq) ex ey ez


/-! #### div and curl -/

theorem edge_inv (A L : V3 ℝ) (l r : ℝ) (hl : l ^ 2 = V3.dot L L) (hr : r ≠ 0) (hl0 : l ≠ 0) (hG : l * r + V3.dot A L ≠ 0) :
    1 / (r * (l * r + V3.dot A L)) * V3.dot A L + 1 / (l * (l * r + V3.dot A L)) * V3.dot L L = 1 / r := by
  rw [← hl]; exact edge_inv_scalar r l _ hr hl0 hG

theorem div_sum (n a b c g0 g1 g2 m0 m1 m2 : V3 ℝ) (e0 : V3.dot m0 g0 = V3.dot n a) (e1 : V3.dot m1 g1 = V3.dot n b)
    (e2 : V3.dot m2 g2 = V3.dot n c) : V3.dot n (-(a + b + c)) + V3.dot m0 g0 + V3.dot m1 g1 + V3.dot m2 g2 = 0 := by
  rw [e0, e1, e2]
  simp only [V3.dot, neg_x, neg_y, neg_z, V3.add_x, V3.add_y, V3.add_z]; ring

theorem curl_sum (n a b c g0 g1 g2 m0 m1 m2 : V3 ℝ) (i0 i1 i2 : ℝ) (e0 : V3.cross a n - V3.cross g0 m0 = vs (i0 - i1) n)
    (e1 : V3.cross b n - V3.cross g1 m1 = vs (i1 - i2) n) (e2 : V3.cross c n - V3.cross g2 m2 = vs (i2 - i0) n) :
    V3.cross (-(a + b + c)) n + V3.cross g0 m0 + V3.cross g1 m1 + V3.cross g2 m2 = ⟨0, 0, 0⟩ := by
  have x0 := congrArg V3.x e0
  have x1 := congrArg V3.x e1
  have x2 := congrArg V3.x e2
  have y0 := congrArg V3.y e0
  have y1 := congrArg V3.y e1
  have y2 := congrArg V3.y e2
  have z0 := congrArg V3.z e0
  have z1 := congrArg V3.z e1
  have z2 := congrArg V3.z e2
  simp only [V3.cross, vs, V3.sub_x, V3.sub_y, V3.sub_z] at x0 x1 x2 y0 y1 y2 z0 z1 z2
  apply V3.ext' <;> simp only [V3.cross, neg_x, neg_y, neg_z, V3.add_x, V3.add_y, V3.add_z]
  · linear_combination -x0 - x1 - x2
  · linear_combination -y0 - y1 - y2
  · linear_combination -z0 - z1 - z2

/-- the three Biot–Savart relations `s₁ − s₂ = β` of a triangle at an observer satisfying `TriClear` -/
theorem triClear_betas (v0 v1 v2 p : V3 ℝ) (h : TriClear v0 v1 v2 p) :
    (1 / (Kern.norm (v0 - p) * (√(V3.dot (v1 - v0) (v1 - v0)) * Kern.norm (v0 - p) + V3.dot (v0 - p) (v1 - v0))) -
      1 / (Kern.norm (v1 - p) * (√(V3.dot (v1 - v0) (v1 - v0)) * Kern.norm (v1 - p) + V3.dot (v1 - p) (v1 - v0))) =
      bsBeta (Kern.norm (v0 - p)) (Kern.norm (v1 - p)) (V3.dot (v1 - p) (v0 - p))) ∧
    (1 / (Kern.norm (v1 - p) * (√(V3.dot (v2 - v1) (v2 - v1)) * Kern.norm (v1 - p) + V3.dot (v1 - p) (v2 - v1))) -
      1 / (Kern.norm (v2 - p) * (√(V3.dot (v2 - v1) (v2 - v1)) * Kern.norm (v2 - p) + V3.dot (v2 - p) (v2 - v1))) =
      bsBeta (Kern.norm (v1 - p)) (Kern.norm (v2 - p)) (V3.dot (v2 - p) (v1 - p))) ∧
    (1 / (Kern.norm (v2 - p) * (√(V3.dot (v0 - v2) (v0 - v2)) * Kern.norm (v2 - p) + V3.dot (v2 - p) (v0 - v2))) -
      1 / (Kern.norm (v0 - p) * (√(V3.dot (v0 - v2) (v0 - v2)) * Kern.norm (v0 - p) + V3.dot (v0 - p) (v0 - v2))) =
      bsBeta (Kern.norm (v2 - p)) (Kern.norm (v0 - p)) (V3.dot (v2 - p) (v0 - p))) := by
  obtain ⟨⟨r0, r1, r2⟩, -, ⟨a0, b0⟩, ⟨a1, b1⟩, ⟨a2, b2⟩, g01, g12, g20⟩ := triClear_facts v0 v1 v2 p h
  have sq : ∀ L : V3 ℝ, √(V3.dot L L) ^ 2 = V3.dot L L := fun L => Real.sq_sqrt (by
    simp only [V3.dot]; nlinarith [mul_self_nonneg L.x, mul_self_nonneg L.y, mul_self_nonneg L.z])
  refine ⟨?_, ?_, ?_⟩
  · exact edge_beta (v0 - p) (v1 - p) (v1 - v0) _ (by apply V3.ext' <;> simp) (sq _) r0 r1 a0 b0 g01
  · exact edge_beta (v1 - p) (v2 - p) (v2 - v1) _ (by apply V3.ext' <;> simp) (sq _) r1 r2 a1 b1 g12
  · rw [dot_comm' (v2 - p) (v0 - p)]
    exact edge_beta (v2 - p) (v0 - p) (v0 - v2) _ (by apply V3.ext' <;> simp) (sq _) r2 r0 a2 b2 g20

/-- **div B = 0**: the trace of the Jacobian of `triangle_Bfield` vanishes -/
theorem triJac_div (v0 v1 v2 pol p : V3 ℝ) (h : TriClear v0 v1 v2 p) : jacDiv (triJac v0 v1 v2 pol p) = 0 := by
  obtain ⟨β0, β1, β2⟩ := triClear_betas v0 v1 v2 p h
  unfold triJac
  rw [jacDiv_scale, jacDiv_add, jacDiv_add, jacDiv_add, jacDiv_outer, jacDiv_outer, jacDiv_outer, jacDiv_outer]
  have e0 := edge_div (triNormal v0 v1 v2) (v0 - p) (v1 - p) (v1 - v0) _ _ _ _ (by apply V3.ext' <;> simp) β0
  have e1 := edge_div (triNormal v0 v1 v2) (v1 - p) (v2 - p) (v2 - v1) _ _ _ _ (by apply V3.ext' <;> simp) β1
  have e2 := edge_div (triNormal v0 v1 v2) (v2 - p) (v0 - p) (v0 - v2) _ _ _ _ (by apply V3.ext' <;> simp) β2
  unfold omegaGrad
  rw [div_sum _ _ _ _ _ _ _ _ _ _ e0 e1 e2, mul_zero]

/-- **curl B = 0**: the Jacobian of `triangle_Bfield` is symmetric -/
theorem triJac_curl (v0 v1 v2 pol p : V3 ℝ) (h : TriClear v0 v1 v2 p) : jacCurl (triJac v0 v1 v2 pol p) = ⟨0, 0, 0⟩ := by
  obtain ⟨β0, β1, β2⟩ := triClear_betas v0 v1 v2 p h
  obtain ⟨⟨r0, r1, r2⟩, ⟨l0, l1, l2⟩, ⟨a0, b0⟩, ⟨a1, b1⟩, ⟨a2, b2⟩, -⟩ := triClear_facts v0 v1 v2 p h
  obtain ⟨n0, n1, n2⟩ := triNormal_perp v0 v1 v2
  have sq : ∀ L : V3 ℝ, √(V3.dot L L) ^ 2 = V3.dot L L := fun L => Real.sq_sqrt (by
    simp only [V3.dot]; nlinarith [mul_self_nonneg L.x, mul_self_nonneg L.y, mul_self_nonneg L.z])
  unfold triJac
  apply jacCurl_scale_zero
  rw [jacCurl_add, jacCurl_add, jacCurl_add, jacCurl_outer, jacCurl_outer, jacCurl_outer, jacCurl_outer]
  have e0 := edge_curl (triNormal v0 v1 v2) (v0 - p) (v1 - p) (v1 - v0) _ _ _ _ _ _ (by apply V3.ext' <;> simp) n0 β0
    (edge_inv _ _ _ _ (sq _) r0 l0 a0) (edge_inv _ _ _ _ (sq _) r1 l0 b0)
  have e1 := edge_curl (triNormal v0 v1 v2) (v1 - p) (v2 - p) (v2 - v1) _ _ _ _ _ _ (by apply V3.ext' <;> simp) n1 β1
    (edge_inv _ _ _ _ (sq _) r1 l1 a1) (edge_inv _ _ _ _ (sq _) r2 l1 b1)
  have e2 := edge_curl (triNormal v0 v1 v2) (v2 - p) (v0 - p) (v0 - v2) _ _ _ _ _ _ (by apply V3.ext' <;> simp) n2 β2
    (edge_inv _ _ _ _ (sq _) r2 l2 a2) (edge_inv _ _ _ _ (sq _) r0 l2 b2)
  unfold omegaGrad
  exact curl_sum _ _ _ _ _ _ _ _ _ _ _ _ _ e0 e1 e2

/-- **the local laws for the Triangle sheet**: all nine partial derivatives exist, div = 0, curl = 0 -/
theorem triangleB_dcfree (v0 v1 v2 pol p : V3 ℝ) (h : TriClear v0 v1 v2 p) : DCFree (triangleB v0 v1 v2 pol) p :=
  ⟨_, triangleB_hasPartials v0 v1 v2 pol p h, triJac_div v0 v1 v2 pol p h, triJac_curl v0 v1 v2 pol p h⟩


/-- a sufficient condition for "strictly below the clamp" that needs no transcendental estimate: `D ≥ 0` (solid angle at most π) -/
theorem solidAngleRaw_lt_of_D_nonneg (R0 R1 R2 : V3 ℝ) (hD : 0 ≤ saD R0 R1 R2) :
    |solidAngleRaw R0 R1 R2| < 62831853 / 10000000 := by
  have h := Complex.abs_arg_le_pi_div_two_iff.mpr (show 0 ≤ (saZ R0 R1 R2).re from hD)
  unfold solidAngleRaw
  rw [abs_mul, abs_of_pos (by norm_num : (0 : ℝ) < 2)]
  have := Real.pi_lt_d6
  linarith

/-- `|arg z| ≤ π − |Im z|/|z|`: how far the argument stays from the cut -/
theorem abs_arg_le_of_im (z : ℂ) (hz : z.im ≠ 0) : |Complex.arg z| ≤ Real.pi - |z.im| / ‖z‖ := by
  have hzn : 0 < ‖z‖ := norm_pos_iff.mpr fun h => hz (by simp [h])
  have ht0 : 0 ≤ |z.im| / ‖z‖ := div_nonneg (abs_nonneg _) hzn.le
  have ht1 : |z.im| / ‖z‖ ≤ 1 := (div_le_one hzn).mpr (Complex.abs_im_le_norm z)
  have hasin : |z.im| / ‖z‖ ≤ Real.arcsin (|z.im| / ‖z‖) := by
    have := Real.sin_le (Real.arcsin_nonneg.mpr ht0)
    rwa [Real.sin_arcsin (by linarith) ht1] at this
  have hpi := Real.pi_gt_three
  have hle := Real.arcsin_le_pi_div_two (|z.im| / ‖z‖)
  by_cases hre : 0 ≤ z.re
  · have := Complex.abs_arg_le_pi_div_two_iff.mpr hre
    linarith
  · have hre := not_le.mp hre
    rcases lt_or_gt_of_ne hz with him | him
    · rw [Complex.arg_of_re_neg_of_im_neg hre him]
      have e : (-z).im / ‖z‖ = |z.im| / ‖z‖ := by rw [Complex.neg_im, abs_of_neg him]
      rw [e, abs_of_nonpos (by linarith)]
      linarith
    · rw [Complex.arg_of_re_neg_of_im_nonneg hre him.le]
      have e : (-z).im / ‖z‖ = -(|z.im| / ‖z‖) := by rw [Complex.neg_im, abs_of_pos him, neg_div]
      rw [e, Real.arcsin_neg, abs_of_nonneg (by linarith)]
      linarith

/-- Cauchy–Schwarz for the model's scalar product -/
theorem abs_dot_le (a b : V3 ℝ) : |V3.dot a b| ≤ Kern.norm a * Kern.norm b := by
  apply abs_le_of_sq_le_sq _ (mul_nonneg (norm_nonneg' a) (norm_nonneg' b))
  rw [mul_pow, norm_sq_dot, norm_sq_dot]
  have : 0 ≤ V3.dot (V3.cross a b) (V3.cross a b) := by
    simp only [V3.dot]
    nlinarith [mul_self_nonneg (V3.cross a b).x, mul_self_nonneg (V3.cross a b).y, mul_self_nonneg (V3.cross a b).z]
  have e : V3.dot (V3.cross a b) (V3.cross a b) = V3.dot a a * V3.dot b b - V3.dot a b ^ 2 := by
    simp only [V3.dot, V3.cross]; ring
  linarith

theorem abs_saD_le (R0 R1 R2 : V3 ℝ) : |saD R0 R1 R2| ≤ 4 * (Kern.norm R0 * Kern.norm R1 * Kern.norm R2) := by
  have h0 := norm_nonneg' R0
  have h1 := norm_nonneg' R1
  have h2 := norm_nonneg' R2
  have a := mul_le_mul_of_nonneg_right (abs_dot_le R2 R1) h0
  have b := mul_le_mul_of_nonneg_right (abs_dot_le R2 R0) h1
  have c := mul_le_mul_of_nonneg_right (abs_dot_le R1 R0) h2
  have a' := (abs_le.mp (abs_dot_le R2 R1))
  have b' := (abs_le.mp (abs_dot_le R2 R0))
  have c' := (abs_le.mp (abs_dot_le R1 R0))
  unfold saD
  rw [abs_le]
  constructor
  · nlinarith [mul_nonneg (mul_nonneg h0 h1) h2, mul_le_mul_of_nonneg_right a'.1 h0, mul_le_mul_of_nonneg_right b'.1 h1,
      mul_le_mul_of_nonneg_right c'.1 h2]
  · nlinarith [mul_nonneg (mul_nonneg h0 h1) h2, mul_le_mul_of_nonneg_right a'.2 h0, mul_le_mul_of_nonneg_right b'.2 h1,
      mul_le_mul_of_nonneg_right c'.2 h2]

/-- **the clamp of the code is far away unless the observer almost touches the plane**: `4 r0 r1 r2 ≤ 1e8·|N|` (in squares, so
that it can be checked in rational arithmetic) gives `|Ω| < 6.2831853` -/
theorem solidAngleRaw_lt_of_far (R0 R1 R2 : V3 ℝ) (hN : saN R0 R1 R2 ≠ 0)
    (h : 16 * (V3.dot R0 R0 * V3.dot R1 R1 * V3.dot R2 R2) ≤ 10000000000000000 * saN R0 R1 R2 ^ 2) :
    |solidAngleRaw R0 R1 R2| < 62831853 / 10000000 := by
  have him : (saZ R0 R1 R2).im ≠ 0 := hN
  have hb := abs_arg_le_of_im _ him
  have hzn : 0 < ‖saZ R0 R1 R2‖ := norm_pos_iff.mpr fun h0 => him (by simp [h0])
  have hP : 0 ≤ Kern.norm R0 * Kern.norm R1 * Kern.norm R2 :=
    mul_nonneg (mul_nonneg (norm_nonneg' R0) (norm_nonneg' R1)) (norm_nonneg' R2)
  have h4 : 4 * (Kern.norm R0 * Kern.norm R1 * Kern.norm R2) ≤ 100000000 * |saN R0 R1 R2| := by
    have hsq : (4 * (Kern.norm R0 * Kern.norm R1 * Kern.norm R2)) ^ 2 ≤ (100000000 * |saN R0 R1 R2|) ^ 2 := by
      rw [mul_pow, mul_pow, mul_pow, mul_pow, norm_sq_dot, norm_sq_dot, norm_sq_dot, sq_abs]
      norm_num
      linarith
    have := abs_le_of_sq_le_sq hsq (by positivity)
    exact le_trans (le_abs_self _) this
  have hnorm : ‖saZ R0 R1 R2‖ ≤ 100000001 * |saN R0 R1 R2| := by
    have := Complex.norm_le_abs_re_add_abs_im (saZ R0 R1 R2)
    have hD := abs_saD_le R0 R1 R2
    have e1 : (saZ R0 R1 R2).re = saD R0 R1 R2 := rfl
    have e2 : (saZ R0 R1 R2).im = saN R0 R1 R2 := rfl
    rw [e1, e2] at this
    linarith
  have ht : 1 / 100000001 ≤ |(saZ R0 R1 R2).im| / ‖saZ R0 R1 R2‖ := by
    rw [le_div_iff₀ hzn]
    have e2 : (saZ R0 R1 R2).im = saN R0 R1 R2 := rfl
    rw [e2]
    linarith
  unfold solidAngleRaw
  rw [abs_mul, abs_of_pos (by norm_num : (0 : ℝ) < 2)]
  have hpi := Real.pi_lt_d20
  norm_num at hpi ht ⊢
  linarith

/-! ### Part 6: sums of sheets — TriangularMesh rows, Tetrahedron -/

theorem dcfree_const (v p : V3 ℝ) : DCFree (fun _ => v) p := ⟨jacZero, HasPartials.const v p, jacDiv_zero, jacCurl_zero⟩

theorem dcfree_add {F G : V3 ℝ → V3 ℝ} {p : V3 ℝ} (hF : DCFree F p) (hG : DCFree G p) : DCFree (fun q => F q + G q) p := by
  obtain ⟨J, hJ, d1, c1⟩ := hF
  obtain ⟨K, hK, d2, c2⟩ := hG
  refine ⟨jacAdd J K, hJ.add hK, by rw [jacDiv_add, d1, d2, add_zero], ?_⟩
  rw [jacCurl_add, c1, c2]
  apply V3.ext' <;> simp

/-- every face of the list is seen under the conditions of `TriClear` -/
def FacesClear (faces : List (Tri ℝ)) (p : V3 ℝ) : Prop := ∀ t ∈ faces, TriClear t.1 t.2.1 t.2.2 p

/-- the sum of the sheets of a list of triangles (one row of `BHJM_magnet_trimesh` before the inside term; the four faces of a
Tetrahedron) has all partial derivatives, div = 0 and curl = 0, at every observer at which every face satisfies `TriClear` -/
theorem sheetSum_dcfree (faces : List (Tri ℝ)) (pol p : V3 ℝ) (h : FacesClear faces p) :
    DCFree (fun q => sheetSum faces pol q) p := by
  induction faces with
  | nil => exact dcfree_const _ _
  | cons t l ih =>
    have e : (fun q => sheetSum (t :: l) pol q) = fun q => triangleB t.1 t.2.1 t.2.2 pol q + sheetSum l pol q :=
      funext (sheetSum_cons t l pol)
    rw [e]
    exact dcfree_add (triangleB_dcfree _ _ _ pol p (h t (by simp))) (ih fun s hs => h s (by simp [hs]))

/-- the sign of a continuous function that does not vanish at `t0` is locally constant -/
theorem pos_iff_eventually {f : ℝ → ℝ} {t0 : ℝ} (hc : ContinuousAt f t0) (h0 : f t0 ≠ 0) :
    ∀ᶠ t in 𝓝 t0, (0 < f t ↔ 0 < f t0) := by
  rcases lt_or_gt_of_ne h0 with h | h
  · filter_upwards [hc.eventually (gt_mem_nhds h)] with t ht
    exact ⟨fun hp => absurd hp (not_lt.mpr ht.le), fun hp => absurd hp (not_lt.mpr h.le)⟩
  · filter_upwards [hc.eventually (lt_mem_nhds h)] with t ht
    exact ⟨fun _ => h, fun _ => ht⟩

/-- off the four face planes: inside ⇔ the four barycentric coordinates are positive -/
theorem tetraInside_strict (v0 v1 v2 v3 x : V3 ℝ) (hΔ : det3 (v1 - v0) (v2 - v0) (v3 - v0) ≠ 0)
    (h1 : det3 (x - v0) (v2 - v0) (v3 - v0) / det3 (v1 - v0) (v2 - v0) (v3 - v0) ≠ 0)
    (h2 : det3 (v1 - v0) (x - v0) (v3 - v0) / det3 (v1 - v0) (v2 - v0) (v3 - v0) ≠ 0)
    (h3 : det3 (v1 - v0) (v2 - v0) (x - v0) / det3 (v1 - v0) (v2 - v0) (v3 - v0) ≠ 0)
    (h4 : 1 - (det3 (x - v0) (v2 - v0) (v3 - v0) / det3 (v1 - v0) (v2 - v0) (v3 - v0) +
      det3 (v1 - v0) (x - v0) (v3 - v0) / det3 (v1 - v0) (v2 - v0) (v3 - v0) +
      det3 (v1 - v0) (v2 - v0) (x - v0) / det3 (v1 - v0) (v2 - v0) (v3 - v0)) ≠ 0) :
    tetraInside v0 v1 v2 v3 x = true ↔
      (0 < det3 (x - v0) (v2 - v0) (v3 - v0) / det3 (v1 - v0) (v2 - v0) (v3 - v0) ∧
       0 < det3 (v1 - v0) (x - v0) (v3 - v0) / det3 (v1 - v0) (v2 - v0) (v3 - v0) ∧
       0 < det3 (v1 - v0) (v2 - v0) (x - v0) / det3 (v1 - v0) (v2 - v0) (v3 - v0) ∧
       0 < 1 - (det3 (x - v0) (v2 - v0) (v3 - v0) / det3 (v1 - v0) (v2 - v0) (v3 - v0) +
        det3 (v1 - v0) (x - v0) (v3 - v0) / det3 (v1 - v0) (v2 - v0) (v3 - v0) +
        det3 (v1 - v0) (v2 - v0) (x - v0) / det3 (v1 - v0) (v2 - v0) (v3 - v0))) := by
  rw [tetraInside_iff]
  generalize det3 (x - v0) (v2 - v0) (v3 - v0) / det3 (v1 - v0) (v2 - v0) (v3 - v0) = l1 at *
  generalize det3 (v1 - v0) (x - v0) (v3 - v0) / det3 (v1 - v0) (v2 - v0) (v3 - v0) = l2 at *
  generalize det3 (v1 - v0) (v2 - v0) (x - v0) / det3 (v1 - v0) (v2 - v0) (v3 - v0) = l3 at *
  constructor
  · rintro ⟨-, a1, a2, a3, -, -, -, a7⟩
    exact ⟨lt_of_le_of_ne a1 (Ne.symm h1), lt_of_le_of_ne a2 (Ne.symm h2), lt_of_le_of_ne a3 (Ne.symm h3),
      lt_of_le_of_ne (by linarith) (Ne.symm h4)⟩
  · rintro ⟨a1, a2, a3, a4⟩
    exact ⟨hΔ, a1.le, a2.le, a3.le, by linarith, by linarith, by linarith, by linarith⟩

/-- off the planes of its four faces the inside test of `BHJM_magnet_tetrahedron` is locally constant along every line -/
theorem tetraInside_eventually (γ : ℝ → V3 ℝ) (hx : Continuous fun t => (γ t).x) (hy : Continuous fun t => (γ t).y)
    (hz : Continuous fun t => (γ t).z) (v0 v1 v2 v3 : V3 ℝ) (t0 : ℝ)
    (h1 : det3 (γ t0 - v0) (v2 - v0) (v3 - v0) ≠ 0) (h2 : det3 (v1 - v0) (γ t0 - v0) (v3 - v0) ≠ 0)
    (h3 : det3 (v1 - v0) (v2 - v0) (γ t0 - v0) ≠ 0)
    (h4 : det3 (v1 - v0) (v2 - v0) (v3 - v0) - det3 (γ t0 - v0) (v2 - v0) (v3 - v0) - det3 (v1 - v0) (γ t0 - v0) (v3 - v0) -
      det3 (v1 - v0) (v2 - v0) (γ t0 - v0) ≠ 0) :
    ∀ᶠ t in 𝓝 t0, tetraInside v0 v1 v2 v3 (γ t) = tetraInside v0 v1 v2 v3 (γ t0) := by
  by_cases hΔ : det3 (v1 - v0) (v2 - v0) (v3 - v0) = 0
  · have hf : ∀ x, tetraInside v0 v1 v2 v3 x = false := fun x =>
      Bool.eq_false_iff.mpr fun h => ((tetraInside_iff v0 v1 v2 v3 x).mp h).1 hΔ
    exact Eventually.of_forall fun t => by rw [hf, hf]
  · set Δ := det3 (v1 - v0) (v2 - v0) (v3 - v0) with hΔdef
    have c1 : Continuous fun t => det3 (γ t - v0) (v2 - v0) (v3 - v0) / Δ := by
      simp only [det3, V3.sub_x, V3.sub_y, V3.sub_z]; fun_prop
    have c2 : Continuous fun t => det3 (v1 - v0) (γ t - v0) (v3 - v0) / Δ := by
      simp only [det3, V3.sub_x, V3.sub_y, V3.sub_z]; fun_prop
    have c3 : Continuous fun t => det3 (v1 - v0) (v2 - v0) (γ t - v0) / Δ := by
      simp only [det3, V3.sub_x, V3.sub_y, V3.sub_z]; fun_prop
    have c4 : Continuous fun t => 1 - (det3 (γ t - v0) (v2 - v0) (v3 - v0) / Δ + det3 (v1 - v0) (γ t - v0) (v3 - v0) / Δ +
        det3 (v1 - v0) (v2 - v0) (γ t - v0) / Δ) := (continuous_const.sub ((c1.add c2).add c3))
    have n1 : det3 (γ t0 - v0) (v2 - v0) (v3 - v0) / Δ ≠ 0 := div_ne_zero h1 hΔ
    have n2 : det3 (v1 - v0) (γ t0 - v0) (v3 - v0) / Δ ≠ 0 := div_ne_zero h2 hΔ
    have n3 : det3 (v1 - v0) (v2 - v0) (γ t0 - v0) / Δ ≠ 0 := div_ne_zero h3 hΔ
    have n4 : 1 - (det3 (γ t0 - v0) (v2 - v0) (v3 - v0) / Δ + det3 (v1 - v0) (γ t0 - v0) (v3 - v0) / Δ +
        det3 (v1 - v0) (v2 - v0) (γ t0 - v0) / Δ) ≠ 0 := by
      have : 1 - (det3 (γ t0 - v0) (v2 - v0) (v3 - v0) / Δ + det3 (v1 - v0) (γ t0 - v0) (v3 - v0) / Δ +
          det3 (v1 - v0) (v2 - v0) (γ t0 - v0) / Δ) =
          (Δ - det3 (γ t0 - v0) (v2 - v0) (v3 - v0) - det3 (v1 - v0) (γ t0 - v0) (v3 - v0) - det3 (v1 - v0) (v2 - v0) (γ t0 - v0)) / Δ := by
        field_simp
        ring
      rw [this]; exact div_ne_zero h4 hΔ
    filter_upwards [pos_iff_eventually c1.continuousAt n1, pos_iff_eventually c2.continuousAt n2,
      pos_iff_eventually c3.continuousAt n3, pos_iff_eventually c4.continuousAt n4,
      c1.continuousAt.eventually_ne n1, c2.continuousAt.eventually_ne n2, c3.continuousAt.eventually_ne n3,
      c4.continuousAt.eventually_ne n4] with t p1 p2 p3 p4 m1 m2 m3 m4
    rw [Bool.eq_iff_iff, tetraInside_strict v0 v1 v2 v3 (γ t) hΔ m1 m2 m3 m4, tetraInside_strict v0 v1 v2 v3 (γ t0) hΔ n1 n2 n3 n4,
      p1, p2, p3, p4]

/-- an observer off the planes of the four faces of `BHJM_magnet_tetrahedron` (in either chirality) is off the four zero sets of
the barycentric coordinates -/
theorem tetraFaces_offplane (v0 v1 v2 v3 q : V3 ℝ)
    (h : ∀ t ∈ tetraFaces (v0, v1, v2, v3), saN (t.1 - q) (t.2.1 - q) (t.2.2 - q) ≠ 0) :
    det3 (q - v0) (v2 - v0) (v3 - v0) ≠ 0 ∧ det3 (v1 - v0) (q - v0) (v3 - v0) ≠ 0 ∧ det3 (v1 - v0) (v2 - v0) (q - v0) ≠ 0 ∧
      det3 (v1 - v0) (v2 - v0) (v3 - v0) - det3 (q - v0) (v2 - v0) (v3 - v0) - det3 (v1 - v0) (q - v0) (v3 - v0) -
        det3 (v1 - v0) (v2 - v0) (q - v0) ≠ 0 := by
  unfold tetraFaces tetraChirality at h
  by_cases hc : det3 (v1 - v0) (v2 - v0) (v3 - v0) < 0
  · simp only [lt_real, n, ofNat_real, Nat.cast_zero, hc, decide_true, if_true, List.mem_cons, List.not_mem_nil, or_false,
      forall_eq_or_imp, forall_eq] at h
    obtain ⟨f1, f2, f3, f4⟩ := h
    refine ⟨fun e => f4 ?_, fun e => f1 ?_, fun e => f2 ?_, fun e => f3 ?_⟩ <;>
      simp only [saN, det3, V3.dot, V3.cross, V3.sub_x, V3.sub_y, V3.sub_z] at e ⊢ <;>
      linear_combination e
  · simp only [lt_real, n, ofNat_real, Nat.cast_zero, hc, decide_false, Bool.false_eq_true, if_false, List.mem_cons,
      List.not_mem_nil, or_false, forall_eq_or_imp, forall_eq] at h
    obtain ⟨f1, f2, f3, f4⟩ := h
    refine ⟨fun e => f4 ?_, fun e => f2 ?_, fun e => f1 ?_, fun e => f3 ?_⟩ <;>
      simp only [saN, det3, V3.dot, V3.cross, V3.sub_x, V3.sub_y, V3.sub_z] at e ⊢ <;>
      first | linear_combination e | linear_combination -e

/-- **Tetrahedron, H**: `μ₀H` is the sum of the four sheets; it has all partial derivatives, div = 0, curl = 0 at every observer
at which the four faces satisfy `TriClear` -/
theorem tetraH_dcfree (v0 v1 v2 v3 pol p : V3 ℝ) (h : FacesClear (tetraFaces (v0, v1, v2, v3)) p) :
    DCFree (bhjmTetra .H v0 v1 v2 v3 pol) p := by
  have e : bhjmTetra .H v0 v1 v2 v3 pol = fun q => vd (sheetSum (tetraFaces (v0, v1, v2, v3)) pol q) mu0R :=
    funext fun q => tetra_is_wrapH_of_sheetSum .H (v0, v1, v2, v3) pol q
  rw [e]
  exact (sheetSum_dcfree _ pol p h).vd mu0R

/-- **Tetrahedron, B**: the four sheets plus the polarization inside (constant near an observer off the face planes) -/
theorem tetraB_dcfree (v0 v1 v2 v3 pol p : V3 ℝ) (h : FacesClear (tetraFaces (v0, v1, v2, v3)) p) :
    DCFree (bhjmTetra .B v0 v1 v2 v3 pol) p := by
  obtain ⟨o1, o2, o3, o4⟩ := tetraFaces_offplane v0 v1 v2 v3 p fun t ht => (h t ht).1
  have hs := (sheetSum_dcfree _ pol p h).add_const (if tetraInside v0 v1 v2 v3 p then pol else zero3)
  refine hs.congr_on (P := fun q => tetraInside v0 v1 v2 v3 q = tetraInside v0 v1 v2 v3 p) (fun q hq => ?_) ?_ ?_ ?_
  · have := tetra_is_wrapH_of_sheetSum .B (v0, v1, v2, v3) pol q
    simp only at this
    rw [this, wrapH, hq]
  · exact tetraInside_eventually (fun t => ⟨t, p.y, p.z⟩) continuous_id continuous_const continuous_const v0 v1 v2 v3 p.x o1 o2 o3 o4
  · exact tetraInside_eventually (fun t => ⟨p.x, t, p.z⟩) continuous_const continuous_id continuous_const v0 v1 v2 v3 p.y o1 o2 o3 o4
  · exact tetraInside_eventually (fun t => ⟨p.x, p.y, t⟩) continuous_const continuous_const continuous_id v0 v1 v2 v3 p.z o1 o2 o3 o4

end MagpyVerif.TriDiv
