/- Lemmas/TrimeshBatch.lean — loop invariant of the row-grouping loop of BHJM_magnet_trimesh -/
import MagpyVerif.Model.TrimeshBatch
namespace MagpyVerif.Trimesh
variable {M O V : Type} [DecidableEq M] [Add V]

theorem loop_eq (inside : M → O → Bool) (m : M) (grp rest : List (Row M O V))
    (h : ∀ r ∈ grp, r.mesh = m) :
    loop inside m grp rest = (grp ++ rest).map (rowwise inside) := by
  induction rest generalizing m grp with
  | nil =>
    simp only [loop, closeGroup, List.append_nil]
    apply List.map_congr_left
    intro r hr
    simp only [rowwise, h r hr]
  | cons r rest ih =>
    simp only [loop]
    split
    · rename_i hm
      rw [ih m (grp ++ [r])]
      · simp
      · intro x hx
        rcases List.mem_append.mp hx with hx | hx
        · exact h x hx
        · simp only [List.mem_singleton] at hx; rw [hx]; exact hm
    · rw [ih r.mesh [r] (by intro x hx; simp only [List.mem_singleton] at hx; rw [hx])]
      simp only [closeGroup, List.map_append, List.map_cons, List.singleton_append]
      congr 1
      apply List.map_congr_left
      intro x hx
      simp only [rowwise, h x hx]

theorem addInside_rowwise (inside : M → O → Bool) (rows : List (Row M O V)) :
    addInside inside rows = rows.map (rowwise inside) := by
  cases rows with
  | nil => rfl
  | cons r rest =>
    simp only [addInside]
    rw [loop_eq inside r.mesh [r] rest (by intro x hx; simp only [List.mem_singleton] at hx; rw [hx])]
    simp
end MagpyVerif.Trimesh
