/- helper lemmas for C18, keyword part: `copy(**kwargs)` with ANY keywords (`copyKwG`) against "plain copy, then the
assignments in keyword order".  Two executions are related by `EqvX` (same forest, same content of every non-style
container, same class and scalars — heap addresses may differ, because the style object of the copy is created at a
different moment); every setter behind a keyword respects `EqvX` (it never reads a style) and leaves every style view
alone; the style keywords are pure functions on the style view of the copy (`SData` algebra). -/
import Mathlib.Tactic
import MagpyVerif.Model.ForestAttr
import MagpyVerif.Lemmas.ForestAttr
namespace MagpyVerif
namespace AForest
open Forest

/-! ### `copyKwG` on accepted attribute keywords is `copyKw` -/

theorem foldl_kwStep_false (root : Nat) (kws : List Kw) (t : AForest) :
    kws.foldl (kwStep root) (t, false) = (t, false) := by
  induction kws with
  | nil => rfl
  | cons kw kws ih => simpa [kwStep] using ih

theorem kwStep_attr (root : Nat) (t : AForest) (ov : Ov) (h : (kwStep root (t, true) (.attr ov)).2 = true) :
    kwStep root (t, true) (.attr ov) = (applyOv t root ov, true) := by
  cases ov <;> simp only [kwStep, kwOp, stepBase, applyOv, if_true] at h ⊢ <;> split at h <;> simp_all

theorem foldl_kwStep_attr (root : Nat) : ∀ (kw : List Ov) (t : AForest),
    (((kw.map Kw.attr).foldl (kwStep root) (t, true)).2 = true) →
      (kw.map Kw.attr).foldl (kwStep root) (t, true) = (kw.foldl (fun t ov => applyOv t root ov) t, true) := by
  intro kw
  induction kw with
  | nil => intro t _; rfl
  | cons ov kw ih =>
    intro t h
    simp only [List.map_cons, List.foldl_cons] at h ⊢
    by_cases h1 : (kwStep root (t, true) (.attr ov)).2 = true
    · rw [kwStep_attr root t ov h1] at h ⊢
      exact ih _ h
    · exfalso
      have h2 : kwStep root (t, true) (.attr ov) = ((kwStep root (t, true) (.attr ov)).1, false) := by
        cases hk : kwStep root (t, true) (.attr ov) with
        | mk u b => rw [hk] at h1; simp at h1; simp [h1]
      rw [h2, foldl_kwStep_false] at h
      simp at h

theorem attrs_map (kw : List Ov) : attrs (kw.map Kw.attr) = kw := by
  induction kw with
  | nil => rfl
  | cons ov kw ih => simpa [attrs] using ih

/-- when no setter raises, the general `copy(**kwargs)` on attribute keywords is `copyKw` — what (a)–(d) are about -/
theorem copyKwG_attr (s : AForest) (o : Nat) (kw : List Ov) (h : (s.copyKwG o (kw.map Kw.attr)).2 = true) :
    s.copyKwG o (kw.map Kw.attr) = (s.copyKw o kw, true) := by
  unfold copyKwG at h ⊢
  simp only [attrs_map] at h ⊢
  have hr : ((kw.map Kw.attr).foldl (kwStep s.f.n) (labelStep s (s.copy0 o) o, true)).2 = true := by
    by_contra hc
    simp only [Bool.not_eq_true] at hc
    rw [hc] at h
    simp [hc] at h
  rw [foldl_kwStep_attr s.f.n kw _ hr]
  unfold copyKw
  simp only [Bool.true_and]
  split <;> rfl

/-! ### `EqvX`: equal up to heap addresses and styles -/

structure EqvX (a b : AForest) : Prop where
  wfa : WF a
  wfb : WF b
  f_eq : a.f = b.f
  inv : a.f.Inv
  cell : ∀ i sl, i < a.f.n → sl ≠ .style → a.cellAt i sl = b.cellAt i sl
  recs : ∀ i, i < a.f.n → (a.na i).cls = (b.na i).cls ∧ (a.na i).scal = (b.na i).scal

namespace EqvX
variable {a b : AForest}

theorem posOf (h : EqvX a b) (i : Nat) (hi : i < a.f.n) : a.posOf i = b.posOf i := by
  unfold AForest.posOf; rw [h.cell i .pos hi (by decide)]
theorem oriOf (h : EqvX a b) (i : Nat) (hi : i < a.f.n) : a.oriOf i = b.oriOf i := by
  unfold AForest.oriOf; rw [h.cell i .ori hi (by decide)]
theorem objOf (h : EqvX a b) (i : Nat) (hi : i < a.f.n) : a.objOf i = b.objOf i := by
  unfold AForest.objOf; rw [h.posOf i hi, h.oriOf i hi]
theorem intsOf (h : EqvX a b) (i : Nat) (hi : i < a.f.n) (sl : Slot) (hs : sl ≠ .style) :
    a.intsOf i sl = b.intsOf i sl := by
  unfold AForest.intsOf; rw [h.cell i sl hi hs]

theorem of_steps {P : Nat → Slot → Prop} {M : Nat → Prop} {a' b' : AForest} (h : EqvX a b) (ha : Step P M a a')
    (hb : Step P M b b')
    (hc : ∀ i sl, i < a.f.n → sl ≠ .style → ¬ P i sl → a'.cellAt i sl = b'.cellAt i sl)
    (hm : ∀ i, i < a.f.n → ¬ M i → (a'.na i).scal = (b'.na i).scal) : EqvX a' b' := by
  refine ⟨ha.wf, hb.wf, by rw [ha.f_eq, hb.f_eq, h.f_eq], by rw [ha.f_eq]; exact h.inv, ?_, ?_⟩
  · intro i sl hi hs
    rw [ha.f_eq] at hi
    by_cases hp : P i sl
    · rw [ha.keeps.cellAt i sl hp hi, hb.keeps.cellAt i sl hp (h.f_eq ▸ hi), h.cell i sl hi hs]
    · exact hc i sl hi hs hp
  · intro i hi
    rw [ha.f_eq] at hi
    refine ⟨by rw [ha.cls_eq, hb.cls_eq, (h.recs i hi).1], ?_⟩
    by_cases hM : M i
    · rw [(ha.keeps.meta_eq i hM hi).2.1, (hb.keeps.meta_eq i hM (h.f_eq ▸ hi)).2.1, (h.recs i hi).2]
    · exact hm i hi hM

theorem setFresh (h : EqvX a b) (i : Nat) (sl : Slot) (c : Cell) : EqvX (a.setFresh i sl c) (b.setFresh i sl c) := by
  refine h.of_steps (setFresh_spec a i sl c h.wfa).1 (setFresh_spec b i sl c h.wfb).1 ?_ (fun _ _ hm => absurd trivial hm)
  intro j tl _ _ hp
  obtain ⟨rfl, rfl⟩ := not_not.mp hp
  rw [(setFresh_spec a j tl c h.wfa).2, (setFresh_spec b j tl c h.wfb).2]

theorem write (h : EqvX a b) (i : Nat) (sl : Slot) (c : Cell) (hi : i < a.f.n) :
    EqvX (a.write i sl c) (b.write i sl c) := by
  have hib : i < b.f.n := h.f_eq ▸ hi
  refine h.of_steps (write_spec a i sl c h.wfa hi).1 (write_spec b i sl c h.wfb hib).1 ?_ (fun _ _ hm => absurd trivial hm)
  intro j tl _ _ hp
  obtain ⟨rfl, rfl⟩ := not_not.mp hp
  rw [(write_spec a j tl c h.wfa hi).2, (write_spec b j tl c h.wfb hib).2]

theorem setMeta (h : EqvX a b) (i : Nat) (scal : List (Nat × Int)) (k k' : SData) :
    EqvX (a.setMeta i scal k) (b.setMeta i scal k') := by
  have ha := setMeta_spec a i scal k h.wfa
  have hb := setMeta_spec b i scal k' h.wfb
  refine ⟨ha.1.wf, hb.1.wf, by rw [ha.1.f_eq, hb.1.f_eq, h.f_eq], by rw [ha.1.f_eq]; exact h.inv, ?_, ?_⟩
  · intro j sl hj hs
    rw [ha.1.f_eq] at hj
    rw [ha.1.keeps.cellAt j sl trivial hj, hb.1.keeps.cellAt j sl trivial (h.f_eq ▸ hj), h.cell j sl hj hs]
  · intro j hj
    rw [ha.1.f_eq] at hj
    refine ⟨by rw [ha.1.cls_eq, hb.1.cls_eq, (h.recs j hj).1], ?_⟩
    by_cases hji : j = i
    · subst hji; rw [ha.2.2.1, hb.2.2.1]
    · rw [(ha.1.keeps.meta_eq j hji hj).2.1, (hb.1.keeps.meta_eq j hji (h.f_eq ▸ hj)).2.1, (h.recs j hj).2]

theorem child_lt (h : EqvX a b) {c y : Nat} (hy : y ∈ a.f.children c) : y < a.f.n :=
  (h.inv.inScope y c ((h.inv.parent_iff y c).mpr hy)).2

theorem closed (h : EqvX a b) : ChildClosed a.f (fun _ => True) := fun _ _ _ hy => ⟨trivial, h.child_lt hy⟩

end EqvX

/-- folds of a state transformer that respects `EqvX` and keeps the forest -/
theorem foldl_eqvX (f0 : Forest) (g : AForest → Nat → AForest)
    (hg : ∀ a b c, EqvX a b → a.f = f0 → c < f0.n → EqvX (g a c) (g b c) ∧ (g a c).f = f0) :
    ∀ (l : List Nat) (a b : AForest), EqvX a b → a.f = f0 → (∀ c ∈ l, c < f0.n) →
      EqvX (l.foldl g a) (l.foldl g b) ∧ (l.foldl g a).f = f0 := by
  intro l
  induction l with
  | nil => intro a b h hf _; exact ⟨h, hf⟩
  | cons c l ih =>
    intro a b h hf hl
    obtain ⟨h1, h2⟩ := hg a b c h hf (hl c (by simp))
    exact ih _ _ h1 h2 (fun c' hc' => hl c' (by simp [hc']))

theorem setPos_f : ∀ (k : Nat) (s : AForest) (x : Nat) (p : List AVec), (setPos k s x p).f = s.f := by
  intro k
  induction k with
  | zero => intro s x p; rfl
  | succ k ih =>
    intro s x p
    unfold setPos
    simp only
    have key : ∀ (l : List Nat) (t : AForest) (g : AForest → Nat → List AVec),
        (l.foldl (fun s c => setPos k s c (g s c)) t).f = t.f := by
      intro l
      induction l with
      | nil => intro t g; rfl
      | cons c l ihl => intro t g; rw [List.foldl_cons, ihl, ih]
    exact (key _ _ _).trans rfl

theorem setPos_eqvX : ∀ (k : Nat) (a b : AForest) (x : Nat) (p : List AVec), EqvX a b → x < a.f.n →
    EqvX (setPos k a x p) (setPos k b x p) := by
  intro k
  induction k with
  | zero => intro a b x p h _; exact h
  | succ k ih =>
    intro a b x p h hx
    unfold setPos
    simp only
    rw [← h.posOf x hx, ← h.oriOf x hx, ← h.f_eq]
    have h1 := (h.setFresh x .pos (.vecs p)).setFresh x .ori (.rots (padSlice p.length (a.oriOf x)))
    refine (foldl_eqvX a.f _ ?_ _ _ _ h1 rfl (fun c hc => h.child_lt hc)).1
    intro u v c huv huf hc
    have hcu : c < u.f.n := huf ▸ hc
    refine ⟨?_, (setPos_f _ _ _ _).trans huf⟩
    rw [← huv.posOf c hcu]
    exact ih u v c _ huv hcu

theorem write_f (s : AForest) (i : Nat) (sl : Slot) (c : Cell) : (s.write i sl c).f = s.f := by
  unfold AForest.write; split <;> rfl

theorem rotOne_eqvX (rot : PathIn ARot) (anchor : Option (PathIn AVec)) (start : Option Int) (pp : Option (List AVec))
    (a b : AForest) (i : Nat) (h : EqvX a b) (hi : i < a.f.n) :
    EqvX (rotOne rot anchor start pp a i) (rotOne rot anchor start pp b i) := by
  unfold rotOne
  simp only
  rw [← h.objOf i hi]
  have key : ∀ (q : Bool) (c d : Cell),
      EqvX ((if q then a.setFresh i .pos c else a.write i .pos c).setFresh i .ori d)
        ((if q then b.setFresh i .pos c else b.write i .pos c).setFresh i .ori d) := by
    intro q c d
    cases q
    · exact (h.write i .pos _ hi).setFresh i .ori _
    · exact (h.setFresh i .pos _).setFresh i .ori _
  exact key _ _ _

theorem rotOne_f (rot : PathIn ARot) (anchor : Option (PathIn AVec)) (start : Option Int) (pp : Option (List AVec))
    (s : AForest) (i : Nat) : (rotOne rot anchor start pp s i).f = s.f := by
  unfold rotOne
  simp only
  have key : ∀ (q : Bool) (c d : Cell), ((if q then s.setFresh i .pos c else s.write i .pos c).setFresh i .ori d).f = s.f := by
    intro q c d
    cases q
    · exact write_f s i .pos c
    · rfl
  exact key _ _ _

theorem rotate_eqvX (a b : AForest) (x : Nat) (rot : PathIn ARot) (anchor : Option (PathIn AVec)) (start : Option Int)
    (h : EqvX a b) (hx : x < a.f.n) : EqvX (a.rotate x rot anchor start) (b.rotate x rot anchor start) := by
  unfold rotate targets
  simp only
  rw [← h.posOf x hx, ← h.f_eq]
  refine (foldl_eqvX a.f _ ?_ _ _ _ h rfl ?_).1
  · intro u v c huv huf hc
    exact ⟨rotOne_eqvX _ _ _ _ u v c huv (huf ▸ hc), (rotOne_f _ _ _ _ _ _).trans huf⟩
  · intro c hc
    exact (targets_in a (fun _ => True) h.closed x trivial hx c hc).1

theorem rotate_f (s : AForest) (x : Nat) (rot : PathIn ARot) (anchor : Option (PathIn AVec)) (start : Option Int) :
    (s.rotate x rot anchor start).f = s.f := by
  unfold rotate
  simp only
  have key : ∀ (l : List Nat) (t : AForest) (g : Nat → Option (List AVec)),
      (l.foldl (fun s i => rotOne rot anchor start (g i) s i) t).f = t.f := by
    intro l
    induction l with
    | nil => intro t g; rfl
    | cons c l ihl => intro t g; rw [List.foldl_cons, ihl, rotOne_f]
  exact key _ _ _

theorem setOri_f (s : AForest) (x : Nat) (inp : List ARot) : (s.setOri x inp).f = s.f := by
  unfold setOri
  simp only
  have key : ∀ (l : List Nat) (t : AForest) (g : AForest → Nat → List AVec) (r : PathIn ARot) (an : Option (PathIn AVec))
      (st : Option Int), (l.foldl (fun s c => (setPos (s.f.n + 1) s c (g s c)).rotate c r an st) t).f = t.f := by
    intro l
    induction l with
    | nil => intro t g r an st; rfl
    | cons c l ihl => intro t g r an st; rw [List.foldl_cons, ihl, rotate_f, setPos_f]
  rw [key]
  split
  · rfl
  · exact write_f _ _ _ _

theorem setOri_eqvX (a b : AForest) (x : Nat) (inp : List ARot) (h : EqvX a b) (hx : x < a.f.n) :
    EqvX (a.setOri x inp) (b.setOri x inp) := by
  unfold setOri
  simp only
  rw [← h.posOf x hx, ← h.oriOf x hx, ← h.f_eq]
  have h1 := h.setFresh x .ori (.rots inp)
  have hx1 : x < (a.setFresh x .ori (.rots inp)).f.n := hx
  have h2 : EqvX
      (if (a.posOf x).length < inp.length then
        (a.setFresh x .ori (.rots inp)).setFresh x .pos (.vecs (padSlice inp.length (a.posOf x)))
       else (a.setFresh x .ori (.rots inp)).write x .pos (.vecs (padSlice inp.length (a.posOf x))))
      (if (a.posOf x).length < inp.length then
        (b.setFresh x .ori (.rots inp)).setFresh x .pos (.vecs (padSlice inp.length (a.posOf x)))
       else (b.setFresh x .ori (.rots inp)).write x .pos (.vecs (padSlice inp.length (a.posOf x)))) := by
    split
    · exact h1.setFresh x .pos _
    · exact h1.write x .pos _ hx1
  have hf2 : (if (a.posOf x).length < inp.length then
        (a.setFresh x .ori (.rots inp)).setFresh x .pos (.vecs (padSlice inp.length (a.posOf x)))
       else (a.setFresh x .ori (.rots inp)).write x .pos (.vecs (padSlice inp.length (a.posOf x)))).f = a.f := by
    split
    · rfl
    · exact write_f _ _ _ _
  refine (foldl_eqvX a.f _ ?_ _ _ _ h2 hf2 (fun c hc => h.child_lt hc)).1
  intro u v c huv huf hc
  have hcu : c < u.f.n := huf ▸ hc
  rw [← huv.posOf c hcu, ← huv.f_eq]
  have e1 := setPos_eqvX (u.f.n + 1) u v c (padSlice (padSlice inp.length (a.posOf x)).length (u.posOf c)) huv hcu
  have hf1 := setPos_f (u.f.n + 1) u c (padSlice (padSlice inp.length (a.posOf x)).length (u.posOf c))
  exact ⟨rotate_eqvX _ _ c _ _ _ e1 (by rw [hf1]; exact hcu), (rotate_f _ _ _ _ _).trans (hf1.trans huf)⟩

/-! ### the setters behind the keywords respect `EqvX` -/

/-- the tree operations a keyword can stand for -/
def treeKw : FOp → Prop
  | .setParent _ _ => True
  | .setChildren _ _ => True
  | .rejected => True
  | _ => False

theorem treeKw_n (f : Forest) (hi : f.Inv) (op : FOp) (h : treeKw op) : (f.step op).1.n = f.n := by
  cases op with
  | setParent o p =>
    cases p with
    | none => exact (detach_kind f o).2
    | some c => exact (add_inv f c [o] true hi).2.2
  | setChildren c objs =>
    simp only [Forest.step]
    split
    · exact (setChildren_inv f c objs hi).2.2
    · rfl
  | rejected => rfl
  | add _ _ _ => exact h.elim
  | remove _ _ _ _ => exact h.elim
  | setTyped _ _ _ => exact h.elim
  | plus _ _ => exact h.elim

theorem withF_eqvX (a b : AForest) (h : EqvX a b) (f' : Forest) (hn : f'.n = a.f.n) (hi : f'.Inv) :
    EqvX ({ a with f := f' } : AForest) ({ b with f := f' } : AForest) := by
  have hnb : f'.n = b.f.n := by rw [hn, h.f_eq]
  refine ⟨⟨?_, ?_⟩, ⟨?_, ?_⟩, rfl, hi, ?_, ?_⟩
  · intro i sl x hlt hx; exact h.wfa.bound i sl x (hn ▸ hlt) hx
  · intro i j sl tl x h1 h2 hx hy; exact h.wfa.inj i j sl tl x (hn ▸ h1) (hn ▸ h2) hx hy
  · intro i sl x hlt hx; exact h.wfb.bound i sl x (hnb ▸ hlt) hx
  · intro i j sl tl x h1 h2 hx hy; exact h.wfb.inj i j sl tl x (hnb ▸ h1) (hnb ▸ h2) hx hy
  · intro i sl hlt hs; exact h.cell i sl (hn ▸ hlt) hs
  · intro i hlt; exact h.recs i (hn ▸ hlt)

theorem tree_eqvX (a b : AForest) (op : FOp) (h : EqvX a b) (ht : treeKw op) :
    EqvX (a.stepBase (.tree op)).1 (b.stepBase (.tree op)).1 ∧
    (a.stepBase (.tree op)).2 = (b.stepBase (.tree op)).2 ∧ (a.stepBase (.tree op)).1.f.n = a.f.n := by
  have hn := treeKw_n a.f h.inv op ht
  have hinv := step_inv a.f op h.inv
  simp only [stepBase]
  have hne : ¬ (a.f.step op).1.n = a.f.n + 1 := by omega
  rw [← h.f_eq, if_neg hne, if_neg hne]
  have base := withF_eqvX a b h (a.f.step op).1 hn hinv
  cases hq : (if (a.f.step op).2 = true then newList op else none) with
  | none => exact ⟨base, rfl, hn⟩
  | some c => exact ⟨base.setFresh c .kids .list, rfl, hn⟩

theorem kwOp_eqvX (root : Nat) (kw : Kw) (op : AOp) (hk : kwOp root kw = some op) (a b : AForest) (h : EqvX a b) :
    EqvX (a.stepBase op).1 (b.stepBase op).1 ∧ (a.stepBase op).2 = (b.stepBase op).2 ∧
    (a.stepBase op).1.f.n = a.f.n := by
  cases kw with
  | attr ov =>
    cases ov with
    | pos p =>
      simp only [kwOp, Option.some.injEq] at hk; subst hk
      simp only [stepBase]
      rw [← h.f_eq]
      by_cases hc : (decide (root < a.f.n) && !p.isEmpty) = true
      · rw [if_pos hc, if_pos hc]
        have hlt : root < a.f.n := by simp at hc; exact hc.1
        exact ⟨setPos_eqvX _ a b root p h hlt, rfl, by rw [setPos_f]⟩
      · rw [if_neg hc, if_neg hc]; exact ⟨h, rfl, rfl⟩
    | ori r =>
      simp only [kwOp, Option.some.injEq] at hk; subst hk
      simp only [stepBase]
      rw [← h.f_eq]
      by_cases hc : (decide (root < a.f.n) && !(oriArg r).isEmpty) = true
      · rw [if_pos hc, if_pos hc]
        have hlt : root < a.f.n := by simp at hc; exact hc.1
        have e := setOri_eqvX a b root (oriArg r) h hlt
        exact ⟨e, rfl, by rw [setOri_f]⟩
      · rw [if_neg hc, if_neg hc]; exact ⟨h, rfl, rfl⟩
    | arr sl v =>
      simp only [kwOp, Option.some.injEq] at hk; subst hk
      simp only [stepBase]
      rw [← h.f_eq]
      by_cases hlt : root < a.f.n
      · by_cases hs : sl.isArr = true
        · have hne : sl ≠ .style := by intro e; subst e; simp [Slot.isArr] at hs
          rw [← h.intsOf root hlt sl hne]
          by_cases hc : (decide (root < a.f.n) && (sl.isArr && (a.intsOf root sl).isSome)) = true
          · rw [if_pos hc, if_pos hc]; exact ⟨h.setFresh root sl _, rfl, rfl⟩
          · rw [if_neg hc, if_neg hc]; exact ⟨h, rfl, rfl⟩
        · simp only [Bool.not_eq_true] at hs
          simp only [hs, Bool.false_and, Bool.and_false]
          exact ⟨h, rfl, rfl⟩
      · simp only [hlt, decide_false, Bool.false_and]
        exact ⟨h, rfl, rfl⟩
    | scal k v =>
      simp only [kwOp, Option.some.injEq] at hk; subst hk
      simp only [stepBase]
      rw [← h.f_eq]
      by_cases hlt : root < a.f.n
      · rw [← (h.recs root hlt).2]
        by_cases hc : (decide (root < a.f.n) && (a.na root).scal.any (fun e => decide (e.1 = k))) = true
        · rw [if_pos hc, if_pos hc]; exact ⟨h.setMeta root _ _ _, rfl, rfl⟩
        · rw [if_neg hc, if_neg hc]; exact ⟨h, rfl, rfl⟩
      · simp only [hlt, decide_false, Bool.false_and]
        exact ⟨h, rfl, rfl⟩
    | label l => simp [kwOp] at hk
    | sprop k v => simp [kwOp] at hk
  | parent p =>
    simp only [kwOp, Option.some.injEq] at hk; subst hk
    exact tree_eqvX a b _ h trivial
  | children objs =>
    simp only [kwOp, Option.some.injEq] at hk; subst hk
    exact tree_eqvX a b _ h trivial
  | bad =>
    simp only [kwOp, Option.some.injEq] at hk; subst hk
    exact tree_eqvX a b _ h trivial

/-! ### … and leave every style view alone -/

theorem styleView_of_step {P : Nat → Slot → Prop} {M : Nat → Prop} {s t : AForest} (h : Step P M s t)
    (hp : ∀ i, P i .style) (hm : ∀ i, M i) (i : Nat) (hi : i < s.f.n) : t.styleView i = s.styleView i :=
  styleView_congr s t i i (h.keeps.cellAt i .style (hp i) hi) (h.keeps.meta_eq i (hm i) hi).2.2

theorem inv_closed (f : Forest) (hi : f.Inv) : ChildClosed f (fun _ => True) :=
  fun c y _ hy => ⟨trivial, (hi.inScope y c ((hi.parent_iff y c).mpr hy)).2⟩

theorem tree_style (s : AForest) (hw : WF s) (hi : s.f.Inv) (op : FOp) (ht : treeKw op) (i : Nat) (hlt : i < s.f.n) :
    (s.stepBase (.tree op)).1.styleView i = s.styleView i := by
  have hn := treeKw_n s.f hi op ht
  have hne : ¬ (s.f.step op).1.n = s.f.n + 1 := by omega
  simp only [stepBase]
  rw [if_neg hne]
  cases hq : (if (s.f.step op).2 = true then newList op else none) with
  | none => rfl
  | some c =>
    have hw' : WF ({ s with f := (s.f.step op).1 } : AForest) :=
      ⟨fun j sl x hj hx => hw.bound j sl x (hn ▸ hj) hx,
       fun j k sl tl x h1 h2 hx hy => hw.inj j k sl tl x (hn ▸ h1) (hn ▸ h2) hx hy⟩
    have st := (setFresh_spec ({ s with f := (s.f.step op).1 } : AForest) c .kids .list hw').1
    have := styleView_congr ({ s with f := (s.f.step op).1 } : AForest) _ i i
      (st.keeps.cellAt i .style (fun h => by cases h.2) (by show i < (s.f.step op).1.n; omega))
      (st.keeps.meta_eq i trivial (by show i < (s.f.step op).1.n; omega)).2.2
    exact this

theorem kwOp_style (root : Nat) (kw : Kw) (op : AOp) (hk : kwOp root kw = some op) (s : AForest) (hw : WF s)
    (hi : s.f.Inv) (i : Nat) (hlt : i < s.f.n) : (s.stepBase op).1.styleView i = s.styleView i := by
  cases kw with
  | attr ov =>
    cases ov with
    | pos p =>
      simp only [kwOp, Option.some.injEq] at hk; subst hk
      simp only [stepBase]
      split
      · rename_i hc
        simp only [Bool.and_eq_true, decide_eq_true_eq] at hc
        exact styleView_of_step (setPos_step (fun _ => True) s.f (inv_closed s.f hi) _ s root p rfl hw trivial hc.1)
          (fun _ => Or.inr ⟨by decide, by decide⟩) (fun _ => trivial) i hlt
      · rfl
    | ori r =>
      simp only [kwOp, Option.some.injEq] at hk; subst hk
      simp only [stepBase]
      split
      · rename_i hc
        simp only [Bool.and_eq_true, decide_eq_true_eq] at hc
        exact styleView_of_step (setOri_step (fun _ => True) s hw (inv_closed s.f hi) root trivial hc.1 _)
          (fun _ => Or.inr ⟨by decide, by decide⟩) (fun _ => trivial) i hlt
      · rfl
    | arr sl v =>
      simp only [kwOp, Option.some.injEq] at hk; subst hk
      simp only [stepBase]
      split
      · rename_i hc
        simp only [Bool.and_eq_true, decide_eq_true_eq] at hc
        have hne : sl ≠ .style := by intro e; rw [e] at hc; simp [Slot.isArr] at hc
        exact styleView_of_step (setFresh_spec s root sl (.ints v) hw).1 (fun _ h => hne h.2.symm) (fun _ => trivial) i hlt
      · rfl
    | scal k v =>
      simp only [kwOp, Option.some.injEq] at hk; subst hk
      simp only [stepBase]
      split
      · obtain ⟨st, _, _, k3⟩ := setMeta_spec s root (setScalList (s.na root).scal k v) (s.na root).skw hw
        refine styleView_congr s _ i i (st.keeps.cellAt i .style trivial hlt) ?_
        by_cases hir : i = root
        · subst hir; exact k3
        · exact (st.keeps.meta_eq i hir hlt).2.2
      · rfl
    | label l => simp [kwOp] at hk
    | sprop k v => simp [kwOp] at hk
  | parent p =>
    simp only [kwOp, Option.some.injEq] at hk; subst hk
    exact tree_style s hw hi (.setParent root p) trivial i hlt
  | children objs =>
    simp only [kwOp, Option.some.injEq] at hk; subst hk
    exact tree_style s hw hi (.setChildren root objs) trivial i hlt
  | bad =>
    simp only [kwOp, Option.some.injEq] at hk; subst hk
    exact tree_style s hw hi .rejected trivial i hlt

/-! ### style keywords: one `style.update` at the end = the assignments one after the other -/

/-- what one keyword adds to the collected `style.update` argument -/
def accStep (d : SData) : Ov → SData
  | .label l => { d with label := some l }
  | .sprop k v => { d with props := SData.setProp d.props k v }
  | _ => d

theorem styleKw_eq (kw : List Ov) : styleKw kw = kw.foldl accStep SData.empty := by
  unfold styleKw
  congr 1 <;> (funext d ov; cases ov <;> rfl)

theorem filter_comm_congr {α : Type} (p q : α → Bool) (A B : List α) (h : A.filter p = B.filter p) :
    (A.filter q).filter p = (B.filter q).filter p := by
  have hc : ∀ m : List α, (m.filter q).filter p = (m.filter p).filter q := by
    intro m
    rw [List.filter_filter, List.filter_filter]
    congr 1
    funext a
    exact Bool.and_comm _ _
  rw [hc, hc, h]

theorem foldr_setProp_filter (k : Nat) (base : List (Nat × Int)) : ∀ l : List (Nat × Int),
    (l.foldr (fun e ps => SData.setProp ps e.1 e.2) base).filter (fun e => e.1 ≠ k) =
    ((l.filter (fun e => e.1 ≠ k)).foldr (fun e ps => SData.setProp ps e.1 e.2) base).filter (fun e => e.1 ≠ k) := by
  intro l
  induction l with
  | nil => rfl
  | cons x l ih =>
    by_cases hx : x.1 = k
    · have h1 : (x :: l).filter (fun e => decide (e.1 ≠ k)) = l.filter (fun e => decide (e.1 ≠ k)) := by
        simp [List.filter_cons, hx]
      rw [h1, ← ih, List.foldr_cons]
      generalize List.foldr (fun e ps => SData.setProp ps e.1 e.2) base l = A
      simp [SData.setProp, List.filter_cons, hx, List.filter_filter]
    · have h1 : (x :: l).filter (fun e => decide (e.1 ≠ k)) = x :: l.filter (fun e => decide (e.1 ≠ k)) := by
        simp [List.filter_cons, hx]
      rw [h1, List.foldr_cons, List.foldr_cons]
      generalize List.foldr (fun e ps => SData.setProp ps e.1 e.2) base l = A at ih ⊢
      generalize List.foldr (fun e ps => SData.setProp ps e.1 e.2) base (l.filter (fun e => decide (e.1 ≠ k))) = B at ih ⊢
      have e1 : ∀ C : List (Nat × Int), (SData.setProp C x.1 x.2).filter (fun e => decide (e.1 ≠ k)) =
          (x.1, x.2) :: (C.filter (fun e => decide (e.1 ≠ x.1))).filter (fun e => decide (e.1 ≠ k)) := by
        intro C; simp [SData.setProp, List.filter_cons, hx]
      rw [e1, e1]
      congr 1
      exact filter_comm_congr _ _ A B ih

/-- assigning a style value to a style that was `update`d with `e` = `update` with `e` extended by the value -/
theorem accStep_update (d e : SData) (ov : Ov) (hs : (∃ l, ov = .label l) ∨ (∃ k v, ov = .sprop k v)) :
    accStep (d.update e) ov = d.update (accStep e ov) := by
  rcases hs with ⟨l, rfl⟩ | ⟨k, v, rfl⟩
  · simp [accStep, SData.update]
  · simp only [accStep, SData.update]
    congr 1
    show SData.setProp _ k v = List.foldr _ d.props (SData.setProp e.props k v)
    simp only [SData.setProp, List.foldr_cons]
    congr 1
    exact foldr_setProp_filter k d.props e.props

/-! ### the induction over the keyword list -/

/-- `a`: `copy(**kw)` so far (non-style keywords applied, style keywords collected in `e`); `b`: the plain copy with
the assignments so far -/
structure Rel (root : Nat) (e : SData) (a b : AForest) : Prop where
  eqv : EqvX a b
  root_lt : root < a.f.n
  others : ∀ i, i < a.f.n → i ≠ root → b.styleView i = a.styleView i
  own : b.styleView root = (a.styleView root).update e

def accKw (e : SData) : Kw → SData
  | .attr ov => accStep e ov
  | _ => e

theorem attrs_foldl : ∀ (kws : List Kw) (e : SData), (attrs kws).foldl accStep e = kws.foldl accKw e := by
  intro kws
  induction kws with
  | nil => intro e; rfl
  | cons kw kws ih =>
    intro e
    cases kw with
    | attr ov => simpa [attrs, accKw] using ih (accStep e ov)
    | parent p => simpa [attrs, accKw] using ih e
    | children objs => simpa [attrs, accKw] using ih e
    | bad => simpa [attrs, accKw] using ih e

theorem rel_style (root : Nat) (e e' : SData) (a b : AForest) (g : SData → SData)
    (hg : ∀ d : SData, g (d.update e) = d.update e') (h : Rel root e a b) : Rel root e' a (b.setStyle root g) := by
  have hrb : root < b.f.n := h.eqv.f_eq ▸ h.root_lt
  obtain ⟨st, sv, _, sc⟩ := setStyle_spec b root g h.eqv.wfb hrb
  have hfe : a.f = (b.setStyle root g).f := h.eqv.f_eq.trans st.f_eq.symm
  refine ⟨⟨h.eqv.wfa, st.wf, hfe, h.eqv.inv, ?_, ?_⟩, h.root_lt, ?_, ?_⟩
  · intro i sl hi hs
    rw [h.eqv.cell i sl hi hs]
    exact (st.keeps.cellAt i sl (fun hh => hs hh.2) (h.eqv.f_eq ▸ hi)).symm
  · intro i hi
    refine ⟨(h.eqv.recs i hi).1.trans (st.cls_eq i).symm, ?_⟩
    by_cases hir : i = root
    · subst hir; rw [sc]; exact (h.eqv.recs i hi).2
    · rw [(st.keeps.meta_eq i hir (h.eqv.f_eq ▸ hi)).2.1]; exact (h.eqv.recs i hi).2
  · intro i hi hne
    rw [styleView_congr b _ i i (st.keeps.cellAt i .style (fun hh => hne hh.1) (h.eqv.f_eq ▸ hi))
      (st.keeps.meta_eq i hne (h.eqv.f_eq ▸ hi)).2.2]
    exact h.others i hi hne
  · rw [sv, h.own, hg]

theorem rel_op (root : Nat) (e : SData) (a b : AForest) (kw : Kw) (op : AOp) (hk : kwOp root kw = some op)
    (h : Rel root e a b) :
    (a.stepBase op).2 = (b.stepBase op).2 ∧ Rel root e (a.stepBase op).1 (b.stepBase op).1 := by
  obtain ⟨e1, e2, e3⟩ := kwOp_eqvX root kw op hk a b h.eqv
  have sa := kwOp_style root kw op hk a h.eqv.wfa h.eqv.inv
  have sb := kwOp_style root kw op hk b h.eqv.wfb (h.eqv.f_eq ▸ h.eqv.inv)
  refine ⟨e2, e1, by rw [e3]; exact h.root_lt, ?_, ?_⟩
  · intro i hi hne
    rw [e3] at hi
    rw [sb i (h.eqv.f_eq ▸ hi), sa i hi]
    exact h.others i hi hne
  · rw [sb root (h.eqv.f_eq ▸ h.root_lt), sa root h.root_lt]
    exact h.own

theorem kwOp_none (root : Nat) (kw : Kw) (h : kwOp root kw = none) :
    (∃ l, kw = .attr (.label l)) ∨ (∃ k v, kw = .attr (.sprop k v)) := by
  cases kw with
  | attr ov =>
    cases ov with
    | label l => exact Or.inl ⟨l, rfl⟩
    | sprop k v => exact Or.inr ⟨k, v, rfl⟩
    | pos p => simp [kwOp] at h
    | ori r => simp [kwOp] at h
    | arr sl v => simp [kwOp] at h
    | scal k v => simp [kwOp] at h
  | parent p => simp [kwOp] at h
  | children objs => simp [kwOp] at h
  | bad => simp [kwOp] at h

theorem assign_of_kwOp (root : Nat) (kw : Kw) (op : AOp) (hk : kwOp root kw = some op) (b : AForest) :
    b.step (assignOp root kw) = b.stepBase op := by
  cases kw with
  | attr ov => cases ov <;> simp [kwOp] at hk <;> subst hk <;> rfl
  | parent p => simp [kwOp] at hk; subst hk; rfl
  | children objs => simp [kwOp] at hk; subst hk; rfl
  | bad => simp [kwOp] at hk; subst hk; rfl

theorem foldl_assignStep_false (root : Nat) (kws : List Kw) (t : AForest) :
    kws.foldl (assignStep root) (t, false) = (t, false) := by
  induction kws with
  | nil => rfl
  | cons kw kws ih => simpa [assignStep] using ih

theorem rel_fold (root : Nat) : ∀ (kws : List Kw) (e : SData) (a b : AForest), Rel root e a b →
    (kws.foldl (kwStep root) (a, true)).2 = (kws.foldl (assignStep root) (b, true)).2 ∧
    ((kws.foldl (kwStep root) (a, true)).2 = true →
      Rel root (kws.foldl accKw e) (kws.foldl (kwStep root) (a, true)).1 (kws.foldl (assignStep root) (b, true)).1) := by
  intro kws
  induction kws with
  | nil => intro e a b h; exact ⟨rfl, fun _ => h⟩
  | cons kw kws ih =>
    intro e a b h
    simp only [List.foldl_cons]
    have hrb : root < b.f.n := h.eqv.f_eq ▸ h.root_lt
    cases hk : kwOp root kw with
    | none =>
      have ka : kwStep root (a, true) kw = (a, true) := by simp [kwStep, hk]
      rw [ka]
      rcases kwOp_none root kw hk with ⟨l, rfl⟩ | ⟨k, v, rfl⟩
      · have kb : assignStep root (b, true) (.attr (.label l)) =
            (b.setStyle root (fun d => { d with label := some l }), true) := by
          simp [assignStep, assignOp, step, stepBase, hrb]
        rw [kb]
        exact ih _ a _ (rel_style root e (accStep e (.label l)) a b _
          (fun d => accStep_update d e (.label l) (Or.inl ⟨l, rfl⟩)) h)
      · have kb : assignStep root (b, true) (.attr (.sprop k v)) =
            (b.setStyle root (fun d => { d with props := SData.setProp d.props k v }), true) := by
          simp [assignStep, assignOp, step, stepBase, hrb]
        rw [kb]
        exact ih _ a _ (rel_style root e (accStep e (.sprop k v)) a b _
          (fun d => accStep_update d e (.sprop k v) (Or.inr ⟨k, v, rfl⟩)) h)
    | some op =>
      have ka : kwStep root (a, true) kw = a.stepBase op := by simp [kwStep, hk]
      have kb : assignStep root (b, true) kw = b.stepBase op := by
        simp only [assignStep, if_true]; exact assign_of_kwOp root kw op hk b
      rw [ka, kb]
      obtain ⟨hflag, hrel⟩ := rel_op root e a b kw op hk h
      have hacc : accKw e kw = e := by
        cases kw with
        | attr ov => cases ov <;> simp [kwOp] at hk <;> rfl
        | parent p => rfl
        | children objs => rfl
        | bad => rfl
      rw [hacc]
      cases hfa : (a.stepBase op).2 with
      | true =>
        have ea : a.stepBase op = ((a.stepBase op).1, true) := by rw [← hfa]
        have eb : b.stepBase op = ((b.stepBase op).1, true) := by rw [← hfa, hflag]
        rw [ea, eb]
        exact ih e _ _ hrel
      | false =>
        have ea : a.stepBase op = ((a.stepBase op).1, false) := by rw [← hfa]
        have eb : b.stepBase op = ((b.stepBase op).1, false) := by rw [← hfa, hflag]
        rw [ea, eb, foldl_kwStep_false, foldl_assignStep_false]
        exact ⟨rfl, fun hc => by simp at hc⟩

theorem not_nonempty (e : SData) (h : e.nonempty = false) : e = SData.empty := by
  cases e with
  | mk l p =>
    simp only [SData.nonempty, Bool.or_eq_false_iff, Bool.not_eq_false', Option.isSome_eq_false_iff,
      Option.isNone_iff_eq_none, List.isEmpty_iff] at h
    simp [SData.empty, h.1, h.2]

/-- the last step of `copy(**kw)`: ONE `style.update` with the collected style keywords -/
theorem rel_final (root : Nat) (e : SData) (a b : AForest) (h : Rel root e a b) :
    (if e.nonempty then a.setStyle root (fun d => d.update e) else a).f = b.f ∧
    ∀ i, i < b.f.n → (if e.nonempty then a.setStyle root (fun d => d.update e) else a).view i = b.view i := by
  cases hne : e.nonempty with
  | false =>
    have he := not_nonempty e hne
    simp only [Bool.false_eq_true, if_false]
    refine ⟨h.eqv.f_eq, fun i hi => ?_⟩
    have hia : i < a.f.n := h.eqv.f_eq ▸ hi
    refine (view_congr a b i i (fun sl hs => (h.eqv.cell i sl hia hs).symm) ?_ (h.eqv.recs i hia).1.symm
      (h.eqv.recs i hia).2.symm).symm
    by_cases hir : i = root
    · subst hir; rw [h.own, he, SData.update_empty]
    · exact h.others i hia hir
  | true =>
    simp only [if_true]
    obtain ⟨st, sv, _, sc⟩ := setStyle_spec a root (fun d => d.update e) h.eqv.wfa h.root_lt
    refine ⟨st.f_eq.trans h.eqv.f_eq, fun i hi => ?_⟩
    have hia : i < a.f.n := h.eqv.f_eq ▸ hi
    refine view_congr b _ i i ?_ ?_ ?_ ?_
    · intro sl hs
      rw [st.keeps.cellAt i sl (fun hh => hs hh.2) hia]; exact h.eqv.cell i sl hia hs
    · by_cases hir : i = root
      · subst hir; rw [sv, h.own]
      · rw [styleView_congr a _ i i (st.keeps.cellAt i .style (fun hh => hir hh.1) hia)
          (st.keeps.meta_eq i hir hia).2.2]
        exact (h.others i hia hir).symm
    · rw [st.cls_eq]; exact (h.eqv.recs i hia).1
    · by_cases hir : i = root
      · subst hir; rw [sc]; exact (h.eqv.recs i hia).2
      · rw [(st.keeps.meta_eq i hir hia).2.1]; exact (h.eqv.recs i hia).2

/-- `copy(**kw)` against the plain copy with the assignments in keyword order, from the state after deep copy and
label step on -/
theorem copyKwG_vs_assign (s : AForest) (hw : WF s) (hi : s.f.Inv) (ha : s.f.Acyclic) (o : Nat) (ho : o < s.f.n)
    (kws : List Kw) :
    (s.copyKwG o kws).2 = (assignRun s.f.n kws (s.copyKw o [])).2 ∧
    ((s.copyKwG o kws).2 = true →
      (s.copyKwG o kws).1.f = (assignRun s.f.n kws (s.copyKw o [])).1.f ∧
      ∀ j, j < (s.copyKwG o kws).1.f.n →
        (s.copyKwG o kws).1.view j = (assignRun s.f.n kws (s.copyKw o [])).1.view j) := by
  have hA := (labelStep_spec s o hw ho).1
  have hf := hA.f_eq
  have hinv : (labelStep s (s.copy0 o) o).f.Inv := by rw [hf]; exact copy_inv s.f hi ha o
  have hroot : s.f.n < (labelStep s (s.copy0 o) o).f.n := by rw [hf]; exact (root_new s o).2
  have h0 : Rel s.f.n SData.empty (labelStep s (s.copy0 o) o) (labelStep s (s.copy0 o) o) :=
    ⟨⟨hA.wf, hA.wf, rfl, hinv, fun _ _ _ _ => rfl, fun _ _ => ⟨rfl, rfl⟩⟩, hroot, fun _ _ _ => rfl,
      (SData.update_empty _).symm⟩
  obtain ⟨hflag, hrel⟩ := rel_fold s.f.n kws SData.empty _ _ h0
  have hE : styleKw (attrs kws) = kws.foldl accKw SData.empty := by rw [styleKw_eq, attrs_foldl]
  rw [copyKw_nil]
  unfold copyKwG assignRun
  simp only
  rw [hE]
  cases hr : (kws.foldl (kwStep s.f.n) (labelStep s (s.copy0 o) o, true)).2 with
  | false =>
    simp only [Bool.false_and, Bool.false_eq_true, if_false]
    exact ⟨by rw [hr, ← hflag, hr], fun hc => by rw [hr] at hc; simp at hc⟩
  | true =>
    have r := hrel hr
    obtain ⟨f1, f2⟩ := rel_final s.f.n _ _ _ r
    simp only [Bool.true_and]
    split
    · rename_i hne
      rw [hne] at f1 f2
      simp only [if_true] at f1 f2
      refine ⟨by rw [← hflag, hr], fun _ => ⟨f1, fun j hj => f2 j (by rw [← f1]; exact hj)⟩⟩
    · rename_i hne
      simp only [Bool.not_eq_true] at hne
      rw [hne] at f1 f2
      simp only [Bool.false_eq_true, if_false] at f1 f2
      refine ⟨by rw [← hflag], fun _ => ⟨f1, fun j hj => f2 j (by rw [← f1]; exact hj)⟩⟩

/-! ### keyword lists without `parent=` / `children=`: the state is a `copyKw` state, also when a setter raises -/

/-- attribute keywords and rejected values (no `parent=` / `children=`) -/
def Kw.plain : Kw → Prop
  | .attr _ => True
  | .bad => True
  | _ => False

def isStyleOv : Ov → Bool
  | .label _ => true
  | .sprop _ _ => true
  | _ => false

theorem kwStep_bad (root : Nat) (t : AForest) : kwStep root (t, true) .bad = (t, false) := by
  simp [kwStep, kwOp, stepBase, Forest.step, newList]

/-- a setter that raises has changed nothing -/
theorem kwStep_fail_state (root : Nat) (t : AForest) (kw : Kw) (hp : kw.plain)
    (h : (kwStep root (t, true) kw).2 = false) : kwStep root (t, true) kw = (t, false) := by
  cases kw with
  | attr ov =>
    cases ov <;> simp only [kwStep, kwOp, stepBase, if_true] at h ⊢ <;> first | (split at h <;> simp_all) | simp_all
  | bad => exact kwStep_bad root t
  | parent p => exact hp.elim
  | children objs => exact hp.elim

theorem styleKw_noStyle (acc : List Ov) (h : ∀ ov ∈ acc, isStyleOv ov = false) : styleKw acc = SData.empty := by
  rw [styleKw_eq]
  have key : ∀ (l : List Ov) (e : SData), (∀ ov ∈ l, isStyleOv ov = false) → l.foldl accStep e = e := by
    intro l
    induction l with
    | nil => intro e _; rfl
    | cons ov l ih =>
      intro e hl
      have h1 : accStep e ov = e := by
        have := hl ov (by simp)
        cases ov <;> simp [isStyleOv] at this <;> rfl
      rw [List.foldl_cons, h1]
      exact ih e (fun ov' h' => hl ov' (by simp [h']))
  exact key acc _ h

theorem foldl_plain (root : Nat) : ∀ (kws : List Kw) (t : AForest), (∀ kw ∈ kws, kw.plain) →
    ∃ acc : List Ov, (∀ ov ∈ acc, isStyleOv ov = false) ∧
      (kws.foldl (kwStep root) (t, true)).1 = acc.foldl (fun t ov => applyOv t root ov) t := by
  intro kws
  induction kws with
  | nil => intro t _; exact ⟨[], by simp, rfl⟩
  | cons kw kws ih =>
    intro t hp
    rw [List.foldl_cons]
    cases hflag : (kwStep root (t, true) kw).2 with
    | false =>
      rw [kwStep_fail_state root t kw (hp kw (by simp)) hflag, foldl_kwStep_false]
      exact ⟨[], by simp, rfl⟩
    | true =>
      cases kw with
      | attr ov =>
        rw [kwStep_attr root t ov hflag]
        obtain ⟨acc, h1, h2⟩ := ih (applyOv t root ov) (fun kw' h' => hp kw' (by simp [h']))
        by_cases hs : isStyleOv ov = true
        · have : applyOv t root ov = t := by cases ov <;> simp [isStyleOv] at hs <;> rfl
          rw [this] at h2 ⊢
          exact ⟨acc, h1, h2⟩
        · refine ⟨ov :: acc, ?_, by rw [List.foldl_cons]; exact h2⟩
          intro ov' h'
          rcases List.mem_cons.mp h' with rfl | h''
          · simpa using hs
          · exact h1 ov' h''
      | bad => rw [kwStep_bad] at hflag; simp at hflag
      | parent p => exact (hp (.parent p) (by simp)).elim
      | children objs => exact (hp (.children objs) (by simp)).elim

theorem foldl_true_attr (root : Nat) : ∀ (kws : List Kw) (t : AForest), (∀ kw ∈ kws, kw.plain) →
    (kws.foldl (kwStep root) (t, true)).2 = true → kws = (attrs kws).map Kw.attr := by
  intro kws
  induction kws with
  | nil => intro t _ _; rfl
  | cons kw kws ih =>
    intro t hp h
    rw [List.foldl_cons] at h
    cases hflag : (kwStep root (t, true) kw).2 with
    | false =>
      rw [kwStep_fail_state root t kw (hp kw (by simp)) hflag, foldl_kwStep_false] at h
      simp at h
    | true =>
      cases kw with
      | attr ov =>
        rw [kwStep_attr root t ov hflag] at h
        have := ih _ (fun kw' h' => hp kw' (by simp [h'])) h
        simp only [attrs, List.filterMap_cons, List.map_cons]
        exact congrArg _ this
      | bad => rw [kwStep_bad] at hflag; simp at hflag
      | parent p => exact (hp (.parent p) (by simp)).elim
      | children objs => exact (hp (.children objs) (by simp)).elim

/-- without `parent=` / `children=` keywords the state after `copy(**kw)` — finished or abandoned at a raising
setter — is the state after a successful `copy` with (some of the) attribute keywords -/
theorem copyKwG_plain (s : AForest) (o : Nat) (kws : List Kw) (hp : ∀ kw ∈ kws, kw.plain) :
    ∃ kw' : List Ov, (s.copyKwG o kws).1 = s.copyKw o kw' := by
  cases hflag : (s.copyKwG o kws).2 with
  | true =>
    have hr : (kws.foldl (kwStep s.f.n) (labelStep s (s.copy0 o) o, true)).2 = true := by
      by_contra hc
      simp only [Bool.not_eq_true] at hc
      unfold copyKwG at hflag
      simp only [hc, Bool.false_and, Bool.false_eq_true, if_false] at hflag
    have hk := foldl_true_attr s.f.n kws _ hp hr
    refine ⟨attrs kws, ?_⟩
    rw [hk] at hflag ⊢
    rw [copyKwG_attr s o _ hflag, attrs_map]
  | false =>
    have hr : (kws.foldl (kwStep s.f.n) (labelStep s (s.copy0 o) o, true)).2 = false := by
      by_contra hc
      simp only [Bool.not_eq_false] at hc
      unfold copyKwG at hflag
      simp only at hflag
      split at hflag
      · simp at hflag
      · rw [hc] at hflag; simp at hflag
    obtain ⟨acc, h1, h2⟩ := foldl_plain s.f.n kws (labelStep s (s.copy0 o) o) hp
    refine ⟨acc, ?_⟩
    unfold copyKwG copyKw
    simp only [hr, Bool.false_and, Bool.false_eq_true, if_false, styleKw_noStyle acc h1]
    rw [h2]
    simp [SData.nonempty, SData.empty]

theorem foldl_kwStep_flag (root : Nat) (kws : List Kw) (r : AForest × Bool) (h : r.2 = false) :
    (kws.foldl (kwStep root) r).2 = false := by
  have : r = (r.1, false) := by rw [← h]
  rw [this, foldl_kwStep_false]

/-- a keyword list with a rejected value makes `copy` raise -/
theorem copyKwG_bad (s : AForest) (o : Nat) (kws : List Kw) (hb : Kw.bad ∈ kws) : (s.copyKwG o kws).2 = false := by
  have key : ∀ (l : List Kw) (r : AForest × Bool), Kw.bad ∈ l → (l.foldl (kwStep s.f.n) r).2 = false := by
    intro l
    induction l with
    | nil => intro r h; simp at h
    | cons kw l ih =>
      intro r h
      rw [List.foldl_cons]
      rcases List.mem_cons.mp h with rfl | h'
      · apply foldl_kwStep_flag
        cases hr : r.2 with
        | false => simp [kwStep, hr]
        | true =>
          have : r = (r.1, true) := by rw [← hr]
          rw [this, kwStep_bad]
      · exact ih _ h'
  unfold copyKwG
  simp only [key kws _ hb, Bool.false_and, Bool.false_eq_true, if_false]

end AForest
end MagpyVerif
