/-
Lemmas/DisplayGroup.lean — `group_traces` (Model/DisplayGroup.lean): the grouping loop in closed form.
-/
import Mathlib.Tactic
import MagpyVerif.Model.DisplayGroup
namespace MagpyVerif.Display

section
variable {κ τ : Type} [BEq κ] [LawfulBEq κ]

theorem groupBy_snoc (key : τ → κ) (l : List τ) (t : τ) :
    groupBy key (l ++ [t]) = insertGroup (groupBy key l) (key t) t := by
  simp [groupBy, List.foldl_append]

/-- the dict built by `for t in ts: d.setdefault(key(t), []).append(t)`: the keys in order of first appearance, each with
the sub-list of the inputs having that key, in input order -/
theorem groupBy_spec (key : τ → κ) (l : List τ) :
    groupBy key l = (l.map key).eraseDups.map (fun k => (k, l.filter (fun t => key t == k))) := by
  induction l using List.reverseRecOn with
  | nil => simp [groupBy]
  | append_singleton l t ih =>
    rw [groupBy_snoc, ih, List.map_append, List.eraseDups_append]
    by_cases hm : key t ∈ l.map key
    · have h1 : ([key t].removeAll (l.map key)) = [] := by simp [List.removeAll, hm]
      have hany : ((l.map key).eraseDups.map (fun k => (k, l.filter (fun t => key t == k)))).any (·.1 == key t) = true := by
        simp only [List.any_map, List.any_eq_true, Function.comp]
        exact ⟨key t, List.mem_eraseDups.2 hm, by simp⟩
      simp only [insertGroup, hany, if_true, List.map_cons, List.map_nil, h1, List.eraseDups_nil, List.append_nil, List.map_map]
      apply List.map_congr_left
      intro k _
      simp only [Function.comp, List.filter_append, List.filter_cons, List.filter_nil]
      by_cases hk : k = key t
      · subst hk; simp
      · have : (key t == k) = false := by simpa using fun h => hk h.symm
        simp [hk, this]
    · have h1 : ([key t].removeAll (l.map key)) = [key t] := by simp [List.removeAll, hm]
      have hany : ((l.map key).eraseDups.map (fun k => (k, l.filter (fun t => key t == k)))).any (·.1 == key t) = false := by
        simp only [List.any_map, List.any_eq_false, Function.comp]
        intro k hk
        have hk' := List.mem_eraseDups.1 hk
        simp only [beq_iff_eq]
        intro h
        exact hm (h ▸ hk')
      have hnone : l.filter (fun x => key x == key t) = [] := by
        rw [List.filter_eq_nil_iff]
        intro x hx
        simp only [beq_iff_eq]
        intro h
        exact hm (List.mem_map.2 ⟨x, hx, h⟩)
      simp only [insertGroup, hany, Bool.false_eq_true, if_false, List.map_cons, List.map_nil, h1, List.map_append]
      congr 1
      · apply List.map_congr_left
        intro k hk
        have hk' := List.mem_eraseDups.1 hk
        have : (key t == k) = false := by
          simp only [beq_eq_false_iff_ne, ne_eq]
          intro h
          exact hm (h ▸ hk')
        simp [List.filter_append, this]
      · simp [List.eraseDups_cons, List.filter_append, hnone]
end


theorem nodup_eraseDups {α : Type} [BEq α] [LawfulBEq α] : ∀ (l : List α), l.eraseDups.Nodup
  | [] => by simp
  | a :: as => by
    rw [List.eraseDups_cons]
    have ih := nodup_eraseDups (as.filter fun b => !b == a)
    refine List.nodup_cons.2 ⟨?_, ih⟩
    intro h
    have := List.mem_eraseDups.1 h
    simp at this
termination_by l => l.length
decreasing_by
  simp only [List.length_cons]
  exact Nat.lt_succ_of_le (List.length_filter_le _ _)

theorem mem_groupBy_members {κ τ : Type} [BEq κ] [LawfulBEq κ] (key : τ → κ) (l : List τ) (t : τ) :
    (∃ g ∈ groupBy key l, t ∈ g.2) ↔ t ∈ l := by
  rw [groupBy_spec]
  constructor
  · rintro ⟨g, hg, ht⟩
    obtain ⟨k, _, rfl⟩ := List.mem_map.1 hg
    exact (List.mem_filter.1 ht).1
  · intro ht
    exact ⟨(key t, l.filter (fun x => key x == key t)),
      List.mem_map.2 ⟨key t, List.mem_eraseDups.2 (List.mem_map.2 ⟨t, ht, rfl⟩), rfl⟩, List.mem_filter.2 ⟨ht, by simp⟩⟩

theorem members_map_single (l : List GTrace) : (l.map GOut.single).flatMap GOut.members = l := by
  induction l with
  | nil => rfl
  | cons a l ih => simp [GOut.members, List.flatMap_cons, ih]

theorem members_mergeDispatch (ty : String) (l : List GTrace) : (mergeDispatch ty l).flatMap GOut.members = l := by
  unfold mergeDispatch
  split
  · rfl
  · rfl
  · split_ifs
    · simp [GOut.members]
    · simp [GOut.members]
    · exact members_map_single _


theorem mem_mergeTraces_members (l : List GTrace) (t : GTrace) : t ∈ (mergeTraces l).flatMap GOut.members ↔ t ∈ l := by
  unfold mergeTraces
  rw [List.flatMap_assoc]
  simp only [members_mergeDispatch, List.mem_flatMap]
  exact mem_groupBy_members (·.ty) l t

/-- every output of `merge_traces` consists of inputs of ONE type; a merged output has at least two members and its type is
the one the merge function is for -/
theorem mergeTraces_outputs (l : List GTrace) : ∀ o ∈ mergeTraces l,
    (∃ ty, ∀ t ∈ o.members, t.ty = ty ∧ t ∈ l) ∧
    (∀ m, o = .mergedMesh m → 2 ≤ m.length ∧ ∀ t ∈ m, t.ty = "mesh3d") ∧
    (∀ m, o = .mergedScatter m → 2 ≤ m.length ∧ ∀ t ∈ m, t.ty = "scatter3d") := by
  intro o ho
  unfold mergeTraces at ho
  rw [groupBy_spec] at ho
  simp only [List.mem_flatMap, List.mem_map] at ho
  obtain ⟨g, ⟨ty, _, rfl⟩, ho⟩ := ho
  have hall : ∀ t ∈ l.filter (fun t => t.ty == ty), t.ty = ty ∧ t ∈ l := by
    intro t ht
    obtain ⟨h1, h2⟩ := List.mem_filter.1 ht
    exact ⟨by simpa using h2, h1⟩
  generalize l.filter (fun t => t.ty == ty) = m at ho hall
  simp only at ho
  unfold mergeDispatch at ho
  split at ho
  · simp at ho
  · rename_i t
    simp only [List.mem_singleton] at ho
    subst ho
    exact ⟨⟨ty, by simpa [GOut.members] using hall⟩, by simp, by simp⟩
  · rename_i hn1 hn2
    have hlen : 2 ≤ m.length := by
      match m, hn1, hn2 with
      | [], h, _ => exact absurd rfl h
      | [t], _, h => exact absurd rfl (h t)
      | _ :: _ :: _, _, _ => simp
    split_ifs at ho with h1 h2
    · simp only [List.mem_singleton] at ho
      subst ho
      have e : ty = "mesh3d" := by simpa using h1
      exact ⟨⟨ty, by simpa [GOut.members] using hall⟩,
        fun m' hm => by cases hm; exact ⟨hlen, fun t ht => e ▸ (hall t ht).1⟩, by simp⟩
    · simp only [List.mem_singleton] at ho
      subst ho
      have e : ty = "scatter3d" := by simpa using h2
      exact ⟨⟨ty, by simpa [GOut.members] using hall⟩, by simp,
        fun m' hm => by cases hm; exact ⟨hlen, fun t ht => e ▸ (hall t ht).1⟩⟩
    · obtain ⟨t, ht, rfl⟩ := List.mem_map.1 ho
      exact ⟨⟨ty, by simpa [GOut.members] using hall t ht⟩, by simp, by simp⟩

end MagpyVerif.Display
