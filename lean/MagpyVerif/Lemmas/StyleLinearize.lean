/-
Lemmas/StyleLinearize.lean — what `linearize_dict` computes on a good tree (string keys without the separator,
pairwise different at every level): the flat dictionary `sep.join(path) ↦ value` of its non-dict values.
-/
import MagpyVerif.Lemmas.StyleMagic

namespace MagpyVerif.StyleNested

/-! ### pairwise different keys -/

def nodupK {α : Type} : List (Key × α) → Bool
  | [] => true
  | (k, _) :: r => (lookup k r).isNone && nodupK r

theorem nodupK_cons {α : Type} (k : Key) (v : α) (r : List (Key × α)) :
    nodupK ((k, v) :: r) = ((lookup k r).isNone && nodupK r) := rfl

theorem nodupK_setKey {α : Type} (k : Key) (v : α) : ∀ {l : List (Key × α)}, nodupK l = true → nodupK (setKey k v l) = true := by
  intro l
  induction l with
  | nil => intro _; simp [setKey, nodupK]
  | cons hd t ih =>
    intro h
    obtain ⟨k', v'⟩ := hd
    rw [nodupK_cons] at h
    simp only [Bool.and_eq_true, Option.isNone_iff_eq_none] at h
    by_cases e : k' = k
    · simp only [setKey, e, if_true, nodupK_cons, Bool.and_eq_true, Option.isNone_iff_eq_none]
      subst e; exact h
    · simp only [setKey, e, if_false, nodupK_cons, Bool.and_eq_true, Option.isNone_iff_eq_none]
      refine ⟨?_, ih h.2⟩
      rw [lookup_setKey_ne (fun x => e x.symm)]; exact h.1

theorem nodupK_mergeDict {α : Type} : ∀ (Y acc : List (Key × α)), nodupK acc = true → nodupK (mergeDict acc Y) = true := by
  intro Y
  induction Y with
  | nil => intro acc h; exact h
  | cons hd t ih =>
    intro acc h
    exact ih _ (nodupK_setKey hd.1 hd.2 h)

theorem mergeDict_cons {α : Type} (acc : List (Key × α)) (kv : Key × α) (Y : List (Key × α)) :
    mergeDict acc (kv :: Y) = mergeDict (setKey kv.1 kv.2 acc) Y := rfl

/-- `{**acc, **Y}` for `Y` with pairwise different keys: `Y`'s value if it has the key, else `acc`'s -/
theorem lookup_mergeDict_nodup {α : Type} (key : Key) : ∀ (Y acc : List (Key × α)), nodupK Y = true →
    lookup key (mergeDict acc Y) = match lookup key Y with | some v => some v | none => lookup key acc := by
  intro Y
  induction Y with
  | nil => intro acc _; rfl
  | cons hd t ih =>
    intro acc h
    obtain ⟨k, v⟩ := hd
    rw [nodupK_cons] at h
    simp only [Bool.and_eq_true, Option.isNone_iff_eq_none] at h
    rw [mergeDict_cons, ih _ h.2]
    by_cases e : k = key
    · subst e
      simp [lookup_cons, h.1, lookup_setKey_self]
    · simp only [lookup_cons, e, if_false, lookup_setKey_ne e]

theorem lookup_isSome_of_mem {α : Type} {k : Key} {v : α} {l : List (Key × α)} (h : (k, v) ∈ l) : ∃ v', lookup k l = some v' := by
  induction l with
  | nil => cases h
  | cons hd t ih =>
    obtain ⟨k', v'⟩ := hd
    by_cases e : k' = k
    · exact ⟨v', by simp [lookup_cons, e]⟩
    · rcases List.mem_cons.mp h with h1 | h1
      · cases h1; exact absurd rfl e
      · obtain ⟨w, hw⟩ := ih h1
        exact ⟨w, by simp [lookup_cons, e, hw]⟩

/-- lookup in a dict whose keys were renamed by a function injective on them -/
theorem lookup_map_keys_iff {α : Type} (g : Key → Key) (key : Key) (v : α) : ∀ (X : List (Key × α)),
    (∀ a ∈ X, ∀ b ∈ X, g a.1 = g b.1 → a.1 = b.1) →
    (lookup key (X.map fun kv => (g kv.1, kv.2)) = some v ↔ ∃ key0, g key0 = key ∧ lookup key0 X = some v) := by
  intro X
  induction X with
  | nil => intro _; simp
  | cons hd t ih =>
    intro hinj
    obtain ⟨k1, v1⟩ := hd
    have hinj' : ∀ a ∈ t, ∀ b ∈ t, g a.1 = g b.1 → a.1 = b.1 :=
      fun a ha b hb => hinj a (List.mem_cons_of_mem _ ha) b (List.mem_cons_of_mem _ hb)
    simp only [List.map_cons, lookup_cons]
    by_cases e : g k1 = key
    · simp only [e, if_true, Option.some.injEq]
      constructor
      · intro h; subst h; exact ⟨k1, e, by simp⟩
      · rintro ⟨key0, h1, h2⟩
        by_cases e2 : k1 = key0
        · simpa [e2] using h2
        · simp only [e2, if_false] at h2
          have hm := mem_of_lookup h2
          have := hinj (k1, v1) (by simp) (key0, v) (List.mem_cons_of_mem _ hm) (by simp [e, h1])
          exact absurd this e2
    · simp only [e, if_false]
      rw [ih hinj']
      constructor
      · rintro ⟨key0, h1, h2⟩
        have : k1 ≠ key0 := by intro e2; subst e2; exact e h1
        exact ⟨key0, h1, by simp [this, h2]⟩
      · rintro ⟨key0, h1, h2⟩
        have : k1 ≠ key0 := by intro e2; subst e2; exact e h1
        simp only [this, if_false] at h2
        exact ⟨key0, h1, h2⟩

theorem nodupK_map_keys {α : Type} (g : Key → Key) : ∀ (X : List (Key × α)),
    (∀ a ∈ X, ∀ b ∈ X, g a.1 = g b.1 → a.1 = b.1) → nodupK X = true →
    nodupK (X.map fun kv => (g kv.1, kv.2)) = true := by
  intro X
  induction X with
  | nil => intro _ _; rfl
  | cons hd t ih =>
    intro hinj h
    obtain ⟨k1, v1⟩ := hd
    rw [nodupK_cons] at h
    simp only [Bool.and_eq_true, Option.isNone_iff_eq_none] at h
    have hinj' : ∀ a ∈ t, ∀ b ∈ t, g a.1 = g b.1 → a.1 = b.1 :=
      fun a ha b hb => hinj a (List.mem_cons_of_mem _ ha) b (List.mem_cons_of_mem _ hb)
    simp only [List.map_cons, nodupK_cons, Bool.and_eq_true, Option.isNone_iff_eq_none]
    refine ⟨?_, ih hinj' h.2⟩
    apply lookup_eq_none_iff.mpr
    intro kv hkv
    simp only [List.mem_map] at hkv
    obtain ⟨x, hx, rfl⟩ := hkv
    intro heq
    have := hinj x (List.mem_cons_of_mem _ hx) (k1, v1) (by simp) heq
    exact lookup_eq_none_iff.mp h.1 x hx this

/-! ### equations of the linearize loop -/

theorem linVal_leaf (sep : Str) (acc : FlatD) (k : Key) (v : Option Val) :
    linVal sep acc k (.leaf v) = setKey k v acc := by
  simp only [linVal]

theorem linVal_node (sep : Str) (acc : FlatD) (k : Key) (kv : Dict) :
    linVal sep acc k (.node kv) =
      mergeDict acc ((linLoop sep [] kv).map fun kv' => (Key.str (k.toStr ++ sep ++ kv'.1.toStr), kv'.2)) := by
  simp only [linVal, mergeDict, List.foldl_map]

theorem linLoop_nil (sep : Str) (acc : FlatD) : linLoop sep acc [] = acc := by
  simp only [linLoop]

theorem linLoop_cons (sep : Str) (acc : FlatD) (k : Key) (v : Tree) (rest : Dict) :
    linLoop sep acc ((k, v) :: rest) = linLoop sep (linVal sep acc k v) rest := by
  simp only [linLoop]

theorem nodupK_linVal (sep : Str) (acc : FlatD) (k : Key) (t : Tree) (h : nodupK acc = true) :
    nodupK (linVal sep acc k t) = true := by
  cases t with
  | leaf v => rw [linVal_leaf]; exact nodupK_setKey _ _ h
  | node kv => rw [linVal_node]; exact nodupK_mergeDict _ _ h

theorem nodupK_linLoop (sep : Str) : ∀ (kids : Dict) (acc : FlatD), nodupK acc = true → nodupK (linLoop sep acc kids) = true := by
  intro kids
  induction kids with
  | nil => intro acc h; rw [linLoop_nil]; exact h
  | cons hd t ih =>
    intro acc h
    obtain ⟨k, v⟩ := hd
    rw [linLoop_cons]
    exact ih _ (nodupK_linVal sep acc k v h)

/-! ### paths in good trees -/

theorem good_of_lookup {c : Char} {kids : Dict} (hg : goodKids c kids = true) {k : Key} {ch : Tree}
    (h : lookup k kids = some ch) : keyOK c k = true ∧ ch.good c = true := by
  have hm := mem_of_lookup h
  rw [goodKids_iff] at hg
  exact ⟨keyOK_of_mem hg.1 hm, hg.2 _ hm⟩

theorem good_getPath {c : Char} : ∀ (q : List Str) (t x : Tree), t.good c = true →
    getPath t (q.map Key.str) = some x → (∀ w ∈ q, c ∉ w) ∧ x.good c = true := by
  intro q
  induction q with
  | nil => intro t x hg h; simp only [List.map_nil, getPath_nil, Option.some.injEq] at h; subst h; exact ⟨by simp, hg⟩
  | cons k0 q' ih =>
    intro t x hg h
    cases t with
    | leaf v => simp [getPath_leaf_cons] at h
    | node kids =>
      simp only [List.map_cons, getPath_node_cons] at h
      cases hl : lookup (Key.str k0) kids with
      | none => rw [hl] at h; cases h
      | some ch =>
        rw [hl] at h; simp only [] at h
        have hg' : goodKids c kids = true := by simpa [Tree.good] using hg
        obtain ⟨h1, h2⟩ := good_of_lookup hg' hl
        obtain ⟨h3, h4⟩ := ih ch x h2 h
        obtain ⟨s, hs, hs2⟩ := keyOK_iff.mp h1
        injection hs with hs; subst hs
        refine ⟨?_, h4⟩
        intro w hw
        rcases List.mem_cons.mp hw with e | e
        · subst e; exact hs2
        · exact h3 w e

/-! ### the flat dictionary of a good tree -/

/-- `key` is the joined path `s.q` and the subtree `t` under `s` has the non-dict value `v` at `q` -/
def PV (c : Char) (s : Str) (t : Tree) (key : Key) (v : Option Val) : Prop :=
  ∃ q : List Str, key = .str (joinWith c (s :: q)) ∧ getPath t (q.map Key.str) = some (.leaf v)

/-- `key` is a joined non-empty path at which the dict `kids` has the non-dict value `v` -/
def P (c : Char) (kids : Dict) (key : Key) (v : Option Val) : Prop :=
  ∃ (s : Str) (q : List Str), key = .str (joinWith c (s :: q)) ∧
    getPath (.node kids) ((s :: q).map Key.str) = some (.leaf v)

theorem P_cons {c : Char} {s0 : Str} {t : Tree} {rest : Dict} (hnone : lookup (.str s0) rest = none)
    (key : Key) (v : Option Val) :
    P c ((.str s0, t) :: rest) key v ↔ PV c s0 t key v ∨ P c rest key v := by
  constructor
  · rintro ⟨s, q, hk, hp⟩
    simp only [List.map_cons, getPath_node_cons, lookup_cons] at hp
    by_cases e : s0 = s
    · subst e
      simp only [if_true] at hp
      exact Or.inl ⟨q, hk, hp⟩
    · have : Key.str s0 ≠ Key.str s := by intro x; injection x with x; exact e x
      simp only [this, if_false] at hp
      exact Or.inr ⟨s, q, hk, by simpa [getPath_node_cons] using hp⟩
  · rintro (⟨q, hk, hp⟩ | ⟨s, q, hk, hp⟩)
    · exact ⟨s0, q, hk, by simpa [getPath_node_cons, lookup_cons] using hp⟩
    · refine ⟨s, q, hk, ?_⟩
      simp only [List.map_cons, getPath_node_cons, lookup_cons] at hp ⊢
      have : Key.str s0 ≠ Key.str s := by
        intro x; injection x with x; subst x
        rw [hnone] at hp; cases hp
      simp only [this, if_false]
      exact hp

theorem PV_P_exclusive {c : Char} {s0 : Str} {t : Tree} {rest : Dict} (hs0 : c ∉ s0) (ht : t.good c = true)
    (hrest : goodKids c rest = true) (hnone : lookup (.str s0) rest = none) {key : Key} {v v' : Option Val}
    (h1 : PV c s0 t key v) (h2 : P c rest key v') : False := by
  obtain ⟨q, hk, hp⟩ := h1
  obtain ⟨s1, q1, hk1, hp1⟩ := h2
  have hq := (good_getPath q t _ ht hp).1
  have hq1 := (good_getPath (s1 :: q1) (.node rest) _ (by simpa [Tree.good] using hrest) hp1).1
  have hj : joinWith c (s0 :: q) = joinWith c (s1 :: q1) := by
    rw [hk] at hk1; injection hk1
  have hq0 : ∀ w ∈ s0 :: q, c ∉ w := by
    intro w hw
    rcases List.mem_cons.mp hw with e | e
    · subst e; exact hs0
    · exact hq w e
  have := joinWith_inj (by simp) (by simp) hq0 hq1 hj
  injection this with e1 e2
  subst e1
  simp only [List.map_cons, getPath_node_cons, hnone] at hp1
  cases hp1

theorem option_eq_some_iff_of_match {α : Type} (a b : Option α) (v : α) :
    (match a with | some x => some x | none => b) = some v ↔ a = some v ∨ ((∀ v', a ≠ some v') ∧ b = some v) := by
  cases a with
  | none => simp
  | some x => simp

mutual
/-- one item of the loop of `linearize_dict` on a good subtree -/
theorem lookup_linVal (c : Char) : ∀ (t : Tree), t.good c = true → ∀ (s : Str), c ∉ s →
    ∀ (acc : FlatD) (key : Key) (v : Option Val),
      lookup key (linVal [c] acc (.str s) t) = some v ↔
        PV c s t key v ∨ ((∀ v', ¬ PV c s t key v') ∧ lookup key acc = some v)
  | .leaf x, _, s, _, acc, key, v => by
    rw [linVal_leaf, lookup_setKey]
    have hpv : ∀ w, PV c s (.leaf x) key w ↔ (key = .str s ∧ w = x) := by
      intro w
      constructor
      · rintro ⟨q, hk, hp⟩
        cases q with
        | nil => simp only [List.map_nil, getPath_nil, Option.some.injEq, Tree.leaf.injEq] at hp; exact ⟨by simpa [joinWith] using hk, hp.symm⟩
        | cons a b => simp [getPath_leaf_cons] at hp
      · rintro ⟨hk, hw⟩
        exact ⟨[], by simpa [joinWith] using hk, by simp [getPath_nil, hw]⟩
    by_cases e : Key.str s = key
    · simp only [e, if_true, Option.some.injEq]
      constructor
      · intro h; exact Or.inl ((hpv v).mpr ⟨e.symm, h.symm⟩)
      · rintro (h | ⟨h, _⟩)
        · exact ((hpv v).mp h).2.symm
        · exact absurd ((hpv x).mpr ⟨e.symm, rfl⟩) (h x)
    · simp only [e, if_false]
      constructor
      · intro h; exact Or.inr ⟨fun v' hv => e ((hpv v').mp hv).1.symm, h⟩
      · rintro (h | ⟨_, h⟩)
        · exact absurd ((hpv v).mp h).1.symm e
        · exact h
  | .node kv, hg, s, hs, acc, key, v => by
    have hgk : goodKids c kv = true := by simpa [Tree.good] using hg
    -- the flat dictionary of the sub-dict
    have hX : ∀ key0 w, lookup key0 (linLoop [c] [] kv) = some w ↔ P c kv key0 w := by
      intro key0 w
      rw [lookup_linLoop c kv hgk [] key0 w]
      simp
    have hstr : ∀ a ∈ linLoop [c] [] kv, ∃ s', a.1 = Key.str s' := by
      intro a ha
      obtain ⟨w, hw⟩ := lookup_isSome_of_mem (k := a.1) (v := a.2) ha
      obtain ⟨s1, q1, hk, _⟩ := (hX a.1 w).mp hw
      exact ⟨_, hk⟩
    have hinj : ∀ a ∈ linLoop [c] [] kv, ∀ b ∈ linLoop [c] [] kv,
        Key.str ((Key.str s).toStr ++ [c] ++ a.1.toStr) = Key.str ((Key.str s).toStr ++ [c] ++ b.1.toStr) → a.1 = b.1 := by
      intro a ha b hb h
      obtain ⟨sa, hsa⟩ := hstr a ha
      obtain ⟨sb, hsb⟩ := hstr b hb
      rw [hsa, hsb] at h ⊢
      injection h with h
      simp only [Key.toStr, List.append_assoc] at h
      have := List.append_cancel_left h
      simpa using this
    have hnd := nodupK_map_keys (fun k0 => Key.str ((Key.str s).toStr ++ [c] ++ k0.toStr)) _ hinj
      (nodupK_linLoop [c] kv [] rfl)
    rw [linVal_node, lookup_mergeDict_nodup key _ acc hnd, option_eq_some_iff_of_match]
    have hY : ∀ w, lookup key ((linLoop [c] [] kv).map fun kv' => (Key.str ((Key.str s).toStr ++ [c] ++ kv'.1.toStr), kv'.2)) = some w ↔
        PV c s (.node kv) key w := by
      intro w
      rw [lookup_map_keys_iff (fun k0 => Key.str ((Key.str s).toStr ++ [c] ++ k0.toStr)) key w _ hinj]
      constructor
      · rintro ⟨key0, h1, h2⟩
        obtain ⟨s1, q1, hk, hp⟩ := (hX key0 w).mp h2
        refine ⟨s1 :: q1, ?_, hp⟩
        rw [← h1, hk, joinWith_cons_cons]
        simp [Key.toStr]
      · rintro ⟨q, hk, hp⟩
        cases q with
        | nil => simp [getPath_nil] at hp
        | cons s1 q1 =>
          refine ⟨.str (joinWith c (s1 :: q1)), ?_, (hX _ w).mpr ⟨s1, q1, rfl, hp⟩⟩
          rw [hk, joinWith_cons_cons]
          simp [Key.toStr]
    constructor
    · rintro (h | ⟨h1, h2⟩)
      · exact Or.inl ((hY v).mp h)
      · exact Or.inr ⟨fun v' hv => h1 v' ((hY v').mpr hv), h2⟩
    · rintro (h | ⟨h1, h2⟩)
      · exact Or.inl ((hY v).mpr h)
      · exact Or.inr ⟨fun v' hv => h1 v' ((hY v').mp hv), h2⟩
/-- the loop of `linearize_dict` on a good dict: a key of the result is a joined path to a non-dict value -/
theorem lookup_linLoop (c : Char) : ∀ (kids : Dict), goodKids c kids = true →
    ∀ (acc : FlatD) (key : Key) (v : Option Val),
      lookup key (linLoop [c] acc kids) = some v ↔
        P c kids key v ∨ ((∀ v', ¬ P c kids key v') ∧ lookup key acc = some v)
  | [], _, acc, key, v => by
    rw [linLoop_nil]
    have : ∀ w, ¬ P c [] key w := by
      rintro w ⟨s, q, _, hp⟩
      simp [getPath_node_cons] at hp
    simp [this]
  | (k, t) :: rest, hg, acc, key, v => by
    rw [goodKids_cons] at hg
    simp only [Bool.and_eq_true, Option.isNone_iff_eq_none] at hg
    obtain ⟨⟨⟨hk, hnone⟩, ht⟩, hrest⟩ := hg
    obtain ⟨s0, rfl, hs0⟩ := keyOK_iff.mp hk
    rw [linLoop_cons, lookup_linLoop c rest hrest, lookup_linVal c t ht s0 hs0]
    simp only [P_cons hnone]
    constructor
    · rintro (h | ⟨h1, (h2 | ⟨h2, h3⟩)⟩)
      · exact Or.inl (Or.inr h)
      · exact Or.inl (Or.inl h2)
      · exact Or.inr ⟨fun v' hv => hv.elim (h2 v') (h1 v'), h3⟩
    · rintro ((h | h) | ⟨h1, h2⟩)
      · exact Or.inr ⟨fun v' hv => PV_P_exclusive hs0 ht hrest hnone h hv, Or.inl h⟩
      · exact Or.inl h
      · exact Or.inr ⟨fun v' hv => h1 v' (Or.inr hv), Or.inr ⟨fun v' hv => h1 v' (Or.inl hv), h2⟩⟩
end

/-- `linearize_dict` of a good tree: `key ↦ v` iff `key` is the joined path of a non-dict value `v` -/
theorem lookup_linearize (c : Char) (kids : Dict) (hg : goodKids c kids = true) (key : Key) (v : Option Val) :
    lookup key (linLoop [c] [] kids) = some v ↔ P c kids key v := by
  rw [lookup_linLoop c kids hg [] key v]
  simp

/-! ### the flat keyword dictionary itself -/

/-- the flat dictionary `{sep.join(path): value}` as `linearize_dict` returns it -/
def flatOf (c : Char) (E : Entries) : FlatD := E.map fun e => (Key.str (joinWith c e.1), e.2)

theorem lookup_flatOf {c : Char} : ∀ {E : Entries}, SF c E → PF E → ∀ {q : List Str} {v : Option Val}, (q, v) ∈ E →
    lookup (.str (joinWith c q)) (flatOf c E) = some v := by
  intro E
  induction E with
  | nil => intro _ _ q v h; cases h
  | cons e0 E' ih =>
    intro hsf hpf q v hm
    obtain ⟨q0, v0⟩ := e0
    have hpf' : PF E' := (List.pairwise_cons.mp hpf).2
    have hinc := (List.pairwise_cons.mp hpf).1
    have hsf' : SF c E' := fun x hx => hsf x (List.mem_cons_of_mem _ hx)
    simp only [flatOf, List.map_cons, lookup_cons]
    rcases List.mem_cons.mp hm with e | e
    · cases e; simp
    · have hne : Key.str (joinWith c q0) ≠ Key.str (joinWith c q) := by
        intro h
        injection h with h
        have h0 := hsf (q0, v0) (by simp)
        have h1 := hsf (q, v) (List.mem_cons_of_mem _ e)
        have := joinWith_inj h0.1 h1.1 h0.2 h1.2 h
        subst this
        exact (hinc _ e).1 List.prefix_rfl
      simp only [hne, if_false]
      exact ih hsf' hpf' e

theorem mem_of_lookup_flatOf {c : Char} {E : Entries} {key : Key} {v : Option Val}
    (h : lookup key (flatOf c E) = some v) : ∃ q, key = .str (joinWith c q) ∧ (q, v) ∈ E := by
  have hm := mem_of_lookup h
  simp only [flatOf, List.mem_map] at hm
  obtain ⟨e, he, heq⟩ := hm
  cases heq
  exact ⟨e.1, rfl, he⟩

end MagpyVerif.StyleNested
