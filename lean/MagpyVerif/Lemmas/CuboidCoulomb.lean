/-
Lemmas/CuboidCoulomb.lean — the Cuboid closed form (`cuboidB`, port of `magnet_cuboid_Bfield`) equals
the Coulombian surface-charge integral over the six faces.

Route.
  * `Lemmas/RectCharge.lean`: the field of a uniformly charged rectangle is the mixed second
    difference (`d2`) over the corners of arctan(u v/(w r)) (normal) resp. log(r − v) (tangential).
  * Part A (pure reals): each of the six factors `ff1*`, `ff2*` of the model, as a function of the six
    corner offsets, is a difference of two such corner sums (the two opposite faces); the arctan2 of
    the code differs from arctan of the quotient by ±π when its second argument is negative, and
    these corrections add up to 4π exactly when the observer is inside (`d2_atan2`).
  * Part B: the six face integrals `faceX/Y/Z` in source coordinates, substitution to offsets,
    closed forms.
  * Part C: mirror symmetry of the integral and of `cuboidAssemble`; the code's reflection into
    the bottom-Q4 octant is therefore invisible in exact arithmetic.
-/
import MagpyVerif.Lemmas.RectCharge
import MagpyVerif.Lemmas.KernReal

namespace MagpyVerif.CuboidCoulomb
open MagpyVerif MagpyVerif.Kern MagpyVerif.RectCharge Real intervalIntegral

/-- corner distance in the model's argument order -/
noncomputable def dist3 (x y z : ℝ) : ℝ := Real.sqrt (x * x + y * y + z * z)

theorem dist3_def (x y z : ℝ) : Real.sqrt (x * x + y * y + z * z) = dist3 x y z := rfl

theorem rr_123 (a b c : ℝ) : rr a b c = dist3 a b c := by unfold rr dist3; congr 1; ring
theorem rr_231 (a b c : ℝ) : rr b c a = dist3 a b c := by unfold rr dist3; congr 1; ring
theorem rr_132 (a b c : ℝ) : rr a c b = dist3 a b c := by unfold rr dist3; congr 1; ring

theorem abs_lt_sqrt_of {t s : ℝ} (h : t * t < s) : |t| < Real.sqrt s := by
  rw [← Real.sqrt_mul_self_eq_abs]; exact Real.sqrt_lt_sqrt (mul_self_nonneg t) h

theorem abs_x_lt {x y z : ℝ} (hy : y ≠ 0) : |x| < dist3 x y z :=
  abs_lt_sqrt_of (by nlinarith [mul_self_pos.mpr hy, mul_self_nonneg z])
theorem abs_y_lt {x y z : ℝ} (hx : x ≠ 0) : |y| < dist3 x y z :=
  abs_lt_sqrt_of (by nlinarith [mul_self_pos.mpr hx, mul_self_nonneg z])
theorem abs_z_lt {x y z : ℝ} (hx : x ≠ 0) : |z| < dist3 x y z :=
  abs_lt_sqrt_of (by nlinarith [mul_self_pos.mpr hx, mul_self_nonneg y])

theorem dist3_pos {x y z : ℝ} (hx : x ≠ 0) : 0 < dist3 x y z :=
  lt_of_le_of_lt (abs_nonneg z) (abs_z_lt hx)

theorem ne_x_add {x y z : ℝ} (hy : y ≠ 0) : x + dist3 x y z ≠ 0 := by
  have := abs_x_lt (x := x) (z := z) hy; have := neg_abs_le x; intro h; linarith
theorem ne_sub_y {x y z : ℝ} (hx : x ≠ 0) : dist3 x y z - y ≠ 0 := by
  have := abs_y_lt (y := y) (z := z) hx; have := le_abs_self y; intro h; linarith
theorem ne_sub_z {x y z : ℝ} (hx : x ≠ 0) : dist3 x y z - z ≠ 0 := by
  have := abs_z_lt (y := y) (z := z) hx; have := le_abs_self z; intro h; linarith

theorem ne_y_sub {x y z : ℝ} (hx : x ≠ 0) : y - dist3 x y z ≠ 0 :=
  sub_ne_zero.mpr (sub_ne_zero.mp (ne_sub_y hx)).symm
theorem ne_z_sub {x y z : ℝ} (hx : x ≠ 0) : z - dist3 x y z ≠ 0 :=
  sub_ne_zero.mpr (sub_ne_zero.mp (ne_sub_z hx)).symm

theorem log_mul4 {a b c d : ℝ} (ha : a ≠ 0) (hb : b ≠ 0) (hc : c ≠ 0) (hd : d ≠ 0) :
    Real.log (a * b * c * d) = Real.log a + Real.log b + Real.log c + Real.log d := by
  rw [Real.log_mul (mul_ne_zero (mul_ne_zero ha hb) hc) hd, Real.log_mul (mul_ne_zero ha hb) hc,
    Real.log_mul ha hb]

theorem log_sub_comm (a b : ℝ) : Real.log (a - b) = Real.log (b - a) := by
  rw [← Real.log_neg_eq_log]; ring_nf

/-! ### arctan2 versus arctan of the quotient -/

theorem arg_eq_arctan {x : ℝ} (y : ℝ) (hx : x ≠ 0) :
    Complex.arg ⟨x, y⟩ = Real.arctan (y / x) + (if x < 0 then (if 0 ≤ y then Real.pi else -Real.pi) else 0) := by
  have hpos : ∀ x y : ℝ, 0 < x → Complex.arg ⟨x, y⟩ = Real.arctan (y / x) := by
    intro x y hx
    have h1 : |Complex.arg ⟨x, y⟩| < Real.pi / 2 := Complex.abs_arg_lt_pi_div_two_iff.mpr (Or.inl hx)
    rw [abs_lt] at h1
    have h2 := Complex.tan_arg ⟨x, y⟩
    simp only at h2
    rw [← h2, Real.arctan_tan h1.1 h1.2]
  rcases lt_or_gt_of_ne hx with hneg | hp
  · have hX := hpos (-x) (-y) (by linarith)
    rw [neg_div_neg_eq] at hX
    have hz : (⟨x, y⟩ : ℂ) = -(⟨-x, -y⟩ : ℂ) := by apply Complex.ext <;> simp
    rcases lt_trichotomy y 0 with hy | hy | hy
    · have := Complex.arg_neg_eq_arg_sub_pi_of_im_pos (x := ⟨-x, -y⟩) (by simpa using hy)
      rw [hz, this, hX]; simp [hneg, not_le.mpr hy]; ring
    · subst hy
      have : (⟨x, 0⟩ : ℂ) = ((x : ℝ) : ℂ) := by apply Complex.ext <;> simp
      rw [this, Complex.arg_ofReal_of_neg hneg]; simp [hneg]
    · have := Complex.arg_neg_eq_arg_add_pi_of_im_neg (x := ⟨-x, -y⟩) (by simpa using hy)
      rw [hz, this, hX]; simp [hneg, hy.le]
  · rw [hpos x y hp]; simp [not_lt.mpr hp.le]

/-- sign of a non-zero real as a real number -/
noncomputable def sg (u : ℝ) : ℝ := if 0 < u then 1 else -1

theorem pm_pi_mul {u v : ℝ} (hu : u ≠ 0) (hv : v ≠ 0) :
    (if 0 ≤ u * v then Real.pi else -Real.pi) = Real.pi * sg u * sg v := by
  unfold sg
  rcases lt_or_gt_of_ne hu with hu | hu <;> rcases lt_or_gt_of_ne hv with hv | hv
  · simp [(mul_pos_of_neg_of_neg hu hv).le, not_lt.mpr hu.le, not_lt.mpr hv.le]
  · simp [not_le.mpr (mul_neg_of_neg_of_pos hu hv), not_lt.mpr hu.le, hv]
  · simp [not_le.mpr (mul_neg_of_pos_of_neg hu hv), not_lt.mpr hv.le, hu]
  · simp [(mul_pos hu hv).le, hu, hv]

theorem sg_diff {u1 u2 : ℝ} (h1 : u1 ≠ 0) (h2 : u2 ≠ 0) (h : u1 < u2) :
    sg u2 - sg u1 = if u1 < 0 ∧ 0 < u2 then 2 else 0 := by
  unfold sg
  rcases lt_or_gt_of_ne h1 with h1 | h1 <;> rcases lt_or_gt_of_ne h2 with h2 | h2
  · simp [not_lt.mpr h1.le, not_lt.mpr h2.le]
  · simp [not_lt.mpr h1.le, h2, h1]; norm_num
  · exfalso; linarith
  · simp [h1, h2, not_lt.mpr h1.le]

/-- the corner sum of arctan2 terms equals the corner sum of arctan terms plus 4π when the face is
seen from its negative side (`w < 0`) and the foot point of the observer lies inside the rectangle -/
theorem d2_atan2 {w : ℝ} (hw : w ≠ 0) (D : ℝ → ℝ → ℝ) (hD : ∀ u v, 0 < D u v) {u1 u2 v1 v2 : ℝ}
    (hu1 : u1 ≠ 0) (hu2 : u2 ≠ 0) (hv1 : v1 ≠ 0) (hv2 : v2 ≠ 0) (hu : u1 < u2) (hv : v1 < v2) :
    d2 (fun u v => Complex.arg ⟨w * D u v, u * v⟩) u1 u2 v1 v2 =
      d2 (fun u v => Real.arctan (u * v / (w * D u v))) u1 u2 v1 v2 +
        (if w < 0 ∧ (u1 < 0 ∧ 0 < u2) ∧ (v1 < 0 ∧ 0 < v2) then 4 * Real.pi else 0) := by
  have hne : ∀ u v, w * D u v ≠ 0 := fun u v => mul_ne_zero hw (hD u v).ne'
  simp only [d2, arg_eq_arctan _ (hne _ _)]
  rcases lt_or_gt_of_ne hw with hneg | hp
  · have hlt : ∀ u v, w * D u v < 0 := fun u v => mul_neg_of_neg_of_pos hneg (hD u v)
    simp only [hlt, if_true, pm_pi_mul hu1 hv1, pm_pi_mul hu1 hv2, pm_pi_mul hu2 hv1, pm_pi_mul hu2 hv2,
      hneg, true_and]
    have e1 := sg_diff hu1 hu2 hu
    have e2 := sg_diff hv1 hv2 hv
    have key : Real.pi * sg u2 * sg v2 - Real.pi * sg u2 * sg v1 - Real.pi * sg u1 * sg v2 + Real.pi * sg u1 * sg v1 =
        Real.pi * ((sg u2 - sg u1) * (sg v2 - sg v1)) := by ring
    have key2 : Real.pi * ((sg u2 - sg u1) * (sg v2 - sg v1)) =
        if (u1 < 0 ∧ 0 < u2) ∧ (v1 < 0 ∧ 0 < v2) then 4 * Real.pi else 0 := by
      rw [e1, e2]
      by_cases c1 : u1 < 0 ∧ 0 < u2 <;> by_cases c2 : v1 < 0 ∧ 0 < v2 <;> simp [c1, c2]
      ring
    linarith
  · have hlt : ∀ u v, ¬ w * D u v < 0 := fun u v => not_lt.mpr (mul_pos hp (hD u v)).le
    simp [hlt, not_lt.mpr hp.le]

/-! ### Part A: the six factors of the model as corner sums -/

section FF
variable (xma xpa ymb ypb zmc zpc : ℝ)

theorem ff2z_eq_Y (hxma : xma ≠ 0) (hxpa : xpa ≠ 0) :
    (cuboidFF xma xpa ymb ypb zmc zpc).ff2z =
      d2 (fun u v => Real.log (dist3 u ymb v - v)) xma xpa zmc zpc -
      d2 (fun u v => Real.log (dist3 u ypb v - v)) xma xpa zmc zpc := by
  simp only [cuboidFF, log_real, sqrt_real, d2, dist3_def, neg_add_eq_sub]
  rw [log_mul4 (ne_sub_z hxma) (ne_sub_z hxpa) (ne_sub_z hxpa) (ne_sub_z hxma),
    log_mul4 (ne_sub_z hxpa) (ne_z_sub hxma) (ne_sub_z hxma) (ne_z_sub hxpa),
    log_sub_comm zmc, log_sub_comm zpc]
  ring

theorem ff2z_eq_X (hxma : xma ≠ 0) (hxpa : xpa ≠ 0) :
    (cuboidFF xma xpa ymb ypb zmc zpc).ff2z =
      d2 (fun u v => Real.log (dist3 xma u v - v)) ymb ypb zmc zpc -
      d2 (fun u v => Real.log (dist3 xpa u v - v)) ymb ypb zmc zpc := by
  simp only [cuboidFF, log_real, sqrt_real, d2, dist3_def, neg_add_eq_sub]
  rw [log_mul4 (ne_sub_z hxma) (ne_sub_z hxpa) (ne_sub_z hxpa) (ne_sub_z hxma),
    log_mul4 (ne_sub_z hxpa) (ne_z_sub hxma) (ne_sub_z hxma) (ne_z_sub hxpa),
    log_sub_comm zmc, log_sub_comm zpc]
  ring

theorem ff2y_eq_Z (hxma : xma ≠ 0) (hxpa : xpa ≠ 0) :
    (cuboidFF xma xpa ymb ypb zmc zpc).ff2y =
      d2 (fun u v => Real.log (dist3 u v zmc - v)) xma xpa ymb ypb -
      d2 (fun u v => Real.log (dist3 u v zpc - v)) xma xpa ymb ypb := by
  simp only [cuboidFF, log_real, sqrt_real, d2, dist3_def, neg_add_eq_sub]
  rw [log_mul4 (ne_sub_y hxma) (ne_sub_y hxpa) (ne_sub_y hxpa) (ne_sub_y hxma),
    log_mul4 (ne_sub_y hxpa) (ne_sub_y hxma) (ne_y_sub hxma) (ne_y_sub hxpa),
    log_sub_comm ymb, log_sub_comm ypb]
  ring

theorem ff2y_eq_X (hxma : xma ≠ 0) (hxpa : xpa ≠ 0) :
    (cuboidFF xma xpa ymb ypb zmc zpc).ff2y =
      d2 (fun u v => Real.log (dist3 xma u v - u)) ymb ypb zmc zpc -
      d2 (fun u v => Real.log (dist3 xpa u v - u)) ymb ypb zmc zpc := by
  simp only [cuboidFF, log_real, sqrt_real, d2, dist3_def, neg_add_eq_sub]
  rw [log_mul4 (ne_sub_y hxma) (ne_sub_y hxpa) (ne_sub_y hxpa) (ne_sub_y hxma),
    log_mul4 (ne_sub_y hxpa) (ne_sub_y hxma) (ne_y_sub hxma) (ne_y_sub hxpa),
    log_sub_comm ymb, log_sub_comm ypb]
  ring

theorem ff2x_eq_Z (hymb : ymb ≠ 0) (hypb : ypb ≠ 0) :
    -(cuboidFF xma xpa ymb ypb zmc zpc).ff2x =
      d2 (fun u v => -Real.log (u + dist3 u v zmc)) xma xpa ymb ypb -
      d2 (fun u v => -Real.log (u + dist3 u v zpc)) xma xpa ymb ypb := by
  simp only [cuboidFF, log_real, sqrt_real, d2, dist3_def]
  rw [log_mul4 (ne_x_add hymb) (ne_x_add hypb) (ne_x_add hymb) (ne_x_add hypb),
    log_mul4 (ne_x_add hymb) (ne_x_add hypb) (ne_x_add hymb) (ne_x_add hypb)]
  ring

theorem ff2x_eq_Y (hymb : ymb ≠ 0) (hypb : ypb ≠ 0) :
    -(cuboidFF xma xpa ymb ypb zmc zpc).ff2x =
      d2 (fun u v => -Real.log (u + dist3 u ymb v)) xma xpa zmc zpc -
      d2 (fun u v => -Real.log (u + dist3 u ypb v)) xma xpa zmc zpc := by
  simp only [cuboidFF, log_real, sqrt_real, d2, dist3_def]
  rw [log_mul4 (ne_x_add hymb) (ne_x_add hypb) (ne_x_add hymb) (ne_x_add hypb),
    log_mul4 (ne_x_add hymb) (ne_x_add hypb) (ne_x_add hymb) (ne_x_add hypb)]
  ring

/-- indicator (times 4π) of "the face at normal offset `w` is seen from its negative side and the
foot point is inside the rectangle `[u1,u2] × [v1,v2]`" -/
noncomputable def ind (w u1 u2 v1 v2 : ℝ) : ℝ :=
  if w < 0 ∧ (u1 < 0 ∧ 0 < u2) ∧ (v1 < 0 ∧ 0 < v2) then 4 * Real.pi else 0

theorem ff1x_eq (hxma : xma ≠ 0) (hxpa : xpa ≠ 0) (hymb : ymb ≠ 0) (hypb : ypb ≠ 0) (hzmc : zmc ≠ 0)
    (hzpc : zpc ≠ 0) (hy : ymb < ypb) (hz : zmc < zpc) :
    (cuboidFF xma xpa ymb ypb zmc zpc).ff1x =
      d2 (fun u v => Real.arctan (u * v / (xma * dist3 xma u v))) ymb ypb zmc zpc -
      d2 (fun u v => Real.arctan (u * v / (xpa * dist3 xpa u v))) ymb ypb zmc zpc +
      (ind xma ymb ypb zmc zpc - ind xpa ymb ypb zmc zpc) := by
  have h1 := d2_atan2 hxma (fun u v => dist3 xma u v) (fun _ _ => dist3_pos hxma) hymb hypb hzmc hzpc hy hz
  have h2 := d2_atan2 hxpa (fun u v => dist3 xpa u v) (fun _ _ => dist3_pos hxpa) hymb hypb hzmc hzpc hy hz
  simp only [cuboidFF, atan2_real, sqrt_real, dist3_def, ind]
  simp only [d2] at h1 h2 ⊢
  linarith

theorem dist3_pos_y {x y z : ℝ} (hy : y ≠ 0) : 0 < dist3 x y z :=
  lt_of_le_of_lt (abs_nonneg x) (abs_x_lt hy)
theorem dist3_pos_z {x y z : ℝ} (hz : z ≠ 0) : 0 < dist3 x y z := by
  unfold dist3; apply Real.sqrt_pos.mpr; nlinarith [mul_self_pos.mpr hz, mul_self_nonneg x, mul_self_nonneg y]

theorem ff1y_eq (hxma : xma ≠ 0) (hxpa : xpa ≠ 0) (hymb : ymb ≠ 0) (hypb : ypb ≠ 0) (hzmc : zmc ≠ 0)
    (hzpc : zpc ≠ 0) (hx : xma < xpa) (hz : zmc < zpc) :
    (cuboidFF xma xpa ymb ypb zmc zpc).ff1y =
      d2 (fun u v => Real.arctan (u * v / (ymb * dist3 u ymb v))) xma xpa zmc zpc -
      d2 (fun u v => Real.arctan (u * v / (ypb * dist3 u ypb v))) xma xpa zmc zpc +
      (ind ymb xma xpa zmc zpc - ind ypb xma xpa zmc zpc) := by
  have h1 := d2_atan2 hymb (fun u v => dist3 u ymb v) (fun _ _ => dist3_pos_y hymb) hxma hxpa hzmc hzpc hx hz
  have h2 := d2_atan2 hypb (fun u v => dist3 u ypb v) (fun _ _ => dist3_pos_y hypb) hxma hxpa hzmc hzpc hx hz
  simp only [cuboidFF, atan2_real, sqrt_real, dist3_def, ind]
  simp only [d2] at h1 h2 ⊢
  linarith

theorem ff1z_eq (hxma : xma ≠ 0) (hxpa : xpa ≠ 0) (hymb : ymb ≠ 0) (hypb : ypb ≠ 0) (hzmc : zmc ≠ 0)
    (hzpc : zpc ≠ 0) (hx : xma < xpa) (hy : ymb < ypb) :
    (cuboidFF xma xpa ymb ypb zmc zpc).ff1z =
      d2 (fun u v => Real.arctan (u * v / (zmc * dist3 u v zmc))) xma xpa ymb ypb -
      d2 (fun u v => Real.arctan (u * v / (zpc * dist3 u v zpc))) xma xpa ymb ypb +
      (ind zmc xma xpa ymb ypb - ind zpc xma xpa ymb ypb) := by
  have h1 := d2_atan2 hzmc (fun u v => dist3 u v zmc) (fun _ _ => dist3_pos_z hzmc) hxma hxpa hymb hypb hx hy
  have h2 := d2_atan2 hzpc (fun u v => dist3 u v zpc) (fun _ _ => dist3_pos_z hzpc) hxma hxpa hymb hypb hx hy
  simp only [cuboidFF, atan2_real, sqrt_real, dist3_def, ind]
  simp only [d2] at h1 h2 ⊢
  linarith

end FF

/-! ### Part B: the surface-charge integral over the six faces -/

/-- Coulomb kernel `(p − q)/|p − q|³`: field at `p` of a unit point charge at `q` (times 4π) -/
noncomputable def coulombK (p q : V3 ℝ) : V3 ℝ := vd (p - q) (Kern.norm (p - q) ^ 3)

/-- component `i` of the Coulomb kernel integrated over the face `x' = s`, `|y'| ≤ dim.y/2`, `|z'| ≤ dim.z/2` -/
noncomputable def faceX (dim : V3 ℝ) (s : ℝ) (p : V3 ℝ) (i : V3 ℝ → ℝ) : ℝ :=
  ∫ y' in -(dim.y / 2)..(dim.y / 2), ∫ z' in -(dim.z / 2)..(dim.z / 2), i (coulombK p ⟨s, y', z'⟩)
/-- the same for the face `y' = s` -/
noncomputable def faceY (dim : V3 ℝ) (s : ℝ) (p : V3 ℝ) (i : V3 ℝ → ℝ) : ℝ :=
  ∫ x' in -(dim.x / 2)..(dim.x / 2), ∫ z' in -(dim.z / 2)..(dim.z / 2), i (coulombK p ⟨x', s, z'⟩)
/-- the same for the face `z' = s` -/
noncomputable def faceZ (dim : V3 ℝ) (s : ℝ) (p : V3 ℝ) (i : V3 ℝ → ℝ) : ℝ :=
  ∫ x' in -(dim.x / 2)..(dim.x / 2), ∫ y' in -(dim.y / 2)..(dim.y / 2), i (coulombK p ⟨x', y', s⟩)

/-- component `i` of `1/(4π) ∮ σ(q) (p − q)/|p − q|³ dA(q)` over the surface of the cuboid with side
lengths `dim` centred at the origin, `σ = J·n`: `+J_x` on the face `x' = +dim.x/2`, `−J_x` on
`x' = −dim.x/2`, and likewise for y and z.  This is `μ₀ H` of the homogeneously polarised cuboid. -/
noncomputable def cuboidCoulombComp (dim pol p : V3 ℝ) (i : V3 ℝ → ℝ) : ℝ :=
  1 / (4 * Real.pi) *
    (pol.x * faceX dim (dim.x / 2) p i + (-pol.x) * faceX dim (-(dim.x / 2)) p i +
     pol.y * faceY dim (dim.y / 2) p i + (-pol.y) * faceY dim (-(dim.y / 2)) p i +
     pol.z * faceZ dim (dim.z / 2) p i + (-pol.z) * faceZ dim (-(dim.z / 2)) p i)

noncomputable def cuboidCoulombB (dim pol p : V3 ℝ) : V3 ℝ :=
  ⟨cuboidCoulombComp dim pol p V3.x, cuboidCoulombComp dim pol p V3.y, cuboidCoulombComp dim pol p V3.z⟩

theorem coulombK_x (p q : V3 ℝ) :
    (coulombK p q).x = (p.x - q.x) / dist3 (p.x - q.x) (p.y - q.y) (p.z - q.z) ^ 3 := rfl
theorem coulombK_y (p q : V3 ℝ) :
    (coulombK p q).y = (p.y - q.y) / dist3 (p.x - q.x) (p.y - q.y) (p.z - q.z) ^ 3 := rfl
theorem coulombK_z (p q : V3 ℝ) :
    (coulombK p q).z = (p.z - q.z) / dist3 (p.x - q.x) (p.y - q.y) (p.z - q.z) ^ 3 := rfl

/-- source coordinates → offsets observer − source -/
theorem face_subst (f : ℝ → ℝ → ℝ) (b c py pz : ℝ) :
    ∫ y' in -b..b, ∫ z' in -c..c, f (py - y') (pz - z') =
      ∫ u in (py - b)..(py + b), ∫ v in (pz - c)..(pz + c), f u v := by
  have h1 : ∀ y' : ℝ, ∫ z' in -c..c, f (py - y') (pz - z') = ∫ v in (pz - c)..(pz + c), f (py - y') v := by
    intro y'
    rw [intervalIntegral.integral_comp_sub_left (fun v => f (py - y') v)]
    simp
  simp_rw [h1]
  rw [intervalIntegral.integral_comp_sub_left (fun u => ∫ v in (pz - c)..(pz + c), f u v)]
  simp

section faces
variable (dim p : V3 ℝ) (s : ℝ)

theorem faceX_x (hw : p.x - s ≠ 0) :
    faceX dim s p V3.x =
      d2 (fun u v => Real.arctan (u * v / ((p.x - s) * dist3 (p.x - s) u v)))
        (p.y - dim.y / 2) (p.y + dim.y / 2) (p.z - dim.z / 2) (p.z + dim.z / 2) := by
  have h : ∀ y' z' : ℝ, (coulombK p ⟨s, y', z'⟩).x =
      (fun u v => (p.x - s) / rr u v (p.x - s) ^ 3) (p.y - y') (p.z - z') := by
    intro y' z'; simp only [coulombK_x, rr_231]
  unfold faceX
  simp_rw [h]
  refine (face_subst (fun u v => (p.x - s) / rr u v (p.x - s) ^ 3) _ _ _ _).trans ?_
  rw [rect_normal' hw]
  simp only [d2, FN, rr_231]

theorem faceX_y (hw : p.x - s ≠ 0) :
    faceX dim s p V3.y =
      d2 (fun u v => Real.log (dist3 (p.x - s) u v - v))
        (p.y - dim.y / 2) (p.y + dim.y / 2) (p.z - dim.z / 2) (p.z + dim.z / 2) := by
  have h : ∀ y' z' : ℝ, (coulombK p ⟨s, y', z'⟩).y =
      (fun u v => u / rr u v (p.x - s) ^ 3) (p.y - y') (p.z - z') := by
    intro y' z'; simp only [coulombK_y, rr_231]
  unfold faceX
  simp_rw [h]
  refine (face_subst (fun u v => u / rr u v (p.x - s) ^ 3) _ _ _ _).trans ?_
  rw [rect_tangential' hw]
  simp only [d2, FLm, rr_231]

theorem faceX_z (hw : p.x - s ≠ 0) :
    faceX dim s p V3.z =
      d2 (fun u v => Real.log (dist3 (p.x - s) u v - u))
        (p.y - dim.y / 2) (p.y + dim.y / 2) (p.z - dim.z / 2) (p.z + dim.z / 2) := by
  have h : ∀ y' z' : ℝ, (coulombK p ⟨s, y', z'⟩).z =
      (fun u v => v / rr u v (p.x - s) ^ 3) (p.y - y') (p.z - z') := by
    intro y' z'; simp only [coulombK_z, rr_231]
  unfold faceX
  simp_rw [h]
  refine (face_subst (fun u v => v / rr u v (p.x - s) ^ 3) _ _ _ _).trans ?_
  rw [rect_tangential_y hw]
  simp only [d2, FLm', rr_231]

theorem faceY_x (hw : p.y - s ≠ 0) :
    faceY dim s p V3.x =
      d2 (fun u v => Real.log (dist3 u (p.y - s) v - v))
        (p.x - dim.x / 2) (p.x + dim.x / 2) (p.z - dim.z / 2) (p.z + dim.z / 2) := by
  have h : ∀ x' z' : ℝ, (coulombK p ⟨x', s, z'⟩).x =
      (fun u v => u / rr u v (p.y - s) ^ 3) (p.x - x') (p.z - z') := by
    intro x' z'; simp only [coulombK_x, rr_132]
  unfold faceY
  simp_rw [h]
  refine (face_subst (fun u v => u / rr u v (p.y - s) ^ 3) _ _ _ _).trans ?_
  rw [rect_tangential' hw]
  simp only [d2, FLm, rr_132]

theorem faceY_y (hw : p.y - s ≠ 0) :
    faceY dim s p V3.y =
      d2 (fun u v => Real.arctan (u * v / ((p.y - s) * dist3 u (p.y - s) v)))
        (p.x - dim.x / 2) (p.x + dim.x / 2) (p.z - dim.z / 2) (p.z + dim.z / 2) := by
  have h : ∀ x' z' : ℝ, (coulombK p ⟨x', s, z'⟩).y =
      (fun u v => (p.y - s) / rr u v (p.y - s) ^ 3) (p.x - x') (p.z - z') := by
    intro x' z'; simp only [coulombK_y, rr_132]
  unfold faceY
  simp_rw [h]
  refine (face_subst (fun u v => (p.y - s) / rr u v (p.y - s) ^ 3) _ _ _ _).trans ?_
  rw [rect_normal' hw]
  simp only [d2, FN, rr_132]

theorem faceY_z (hw : p.y - s ≠ 0) :
    faceY dim s p V3.z =
      d2 (fun u v => -Real.log (u + dist3 u (p.y - s) v))
        (p.x - dim.x / 2) (p.x + dim.x / 2) (p.z - dim.z / 2) (p.z + dim.z / 2) := by
  have h : ∀ x' z' : ℝ, (coulombK p ⟨x', s, z'⟩).z =
      (fun u v => v / rr u v (p.y - s) ^ 3) (p.x - x') (p.z - z') := by
    intro x' z'; simp only [coulombK_z, rr_132]
  unfold faceY
  simp_rw [h]
  refine (face_subst (fun u v => v / rr u v (p.y - s) ^ 3) _ _ _ _).trans ?_
  rw [rect_tangential_y hw, d2_FLm'_eq_FLp' hw]
  simp only [d2, FLp', rr_132]

theorem faceZ_x (hw : p.z - s ≠ 0) :
    faceZ dim s p V3.x =
      d2 (fun u v => Real.log (dist3 u v (p.z - s) - v))
        (p.x - dim.x / 2) (p.x + dim.x / 2) (p.y - dim.y / 2) (p.y + dim.y / 2) := by
  have h : ∀ x' y' : ℝ, (coulombK p ⟨x', y', s⟩).x =
      (fun u v => u / rr u v (p.z - s) ^ 3) (p.x - x') (p.y - y') := by
    intro x' y'; simp only [coulombK_x, rr_123]
  unfold faceZ
  simp_rw [h]
  refine (face_subst (fun u v => u / rr u v (p.z - s) ^ 3) _ _ _ _).trans ?_
  rw [rect_tangential' hw]
  simp only [d2, FLm, rr_123]

theorem faceZ_y (hw : p.z - s ≠ 0) :
    faceZ dim s p V3.y =
      d2 (fun u v => -Real.log (u + dist3 u v (p.z - s)))
        (p.x - dim.x / 2) (p.x + dim.x / 2) (p.y - dim.y / 2) (p.y + dim.y / 2) := by
  have h : ∀ x' y' : ℝ, (coulombK p ⟨x', y', s⟩).y =
      (fun u v => v / rr u v (p.z - s) ^ 3) (p.x - x') (p.y - y') := by
    intro x' y'; simp only [coulombK_y, rr_123]
  unfold faceZ
  simp_rw [h]
  refine (face_subst (fun u v => v / rr u v (p.z - s) ^ 3) _ _ _ _).trans ?_
  rw [rect_tangential_y hw, d2_FLm'_eq_FLp' hw]
  simp only [d2, FLp', rr_123]

theorem faceZ_z (hw : p.z - s ≠ 0) :
    faceZ dim s p V3.z =
      d2 (fun u v => Real.arctan (u * v / ((p.z - s) * dist3 u v (p.z - s))))
        (p.x - dim.x / 2) (p.x + dim.x / 2) (p.y - dim.y / 2) (p.y + dim.y / 2) := by
  have h : ∀ x' y' : ℝ, (coulombK p ⟨x', y', s⟩).z =
      (fun u v => (p.z - s) / rr u v (p.z - s) ^ 3) (p.x - x') (p.y - y') := by
    intro x' y'; simp only [coulombK_z, rr_123]
  unfold faceZ
  simp_rw [h]
  refine (face_subst (fun u v => (p.z - s) / rr u v (p.z - s) ^ 3) _ _ _ _).trans ?_
  rw [rect_normal' hw]
  simp only [d2, FN, rr_123]

end faces

/-! ### Part C1: the closed form without reflection equals the integral (every observer off the face planes) -/

/-- the observer is strictly inside the cuboid -/
def insideP (dim p : V3 ℝ) : Prop := |p.x| < dim.x / 2 ∧ |p.y| < dim.y / 2 ∧ |p.z| < dim.z / 2

noncomputable instance (dim p : V3 ℝ) : Decidable (insideP dim p) :=
  inferInstanceAs (Decidable (|p.x| < dim.x / 2 ∧ |p.y| < dim.y / 2 ∧ |p.z| < dim.z / 2))

theorem ind_diff {w1 w2 : ℝ} (u1 u2 v1 v2 : ℝ) (h : w1 < w2) (h2 : w2 ≠ 0) :
    ind w1 u1 u2 v1 v2 - ind w2 u1 u2 v1 v2 =
      if (w1 < 0 ∧ 0 < w2) ∧ (u1 < 0 ∧ 0 < u2) ∧ (v1 < 0 ∧ 0 < v2) then 4 * Real.pi else 0 := by
  unfold ind
  rcases lt_or_gt_of_ne h2 with h2 | h2
  · have h1 : w1 < 0 := by linarith
    simp [h1, h2, not_lt.mpr h2.le]
  · simp [not_lt.mpr h2.le, h2]

theorem abs_lt_half (x a : ℝ) : |x| < a ↔ (x - a < 0 ∧ 0 < x + a) := by
  rw [abs_lt]; constructor <;> rintro ⟨h1, h2⟩ <;> constructor <;> linarith

section assemble0
variable (dim pol q : V3 ℝ)
variable (hdx : 0 < dim.x) (hdy : 0 < dim.y) (hdz : 0 < dim.z)
variable (hx1 : q.x - dim.x / 2 ≠ 0) (hx2 : q.x + dim.x / 2 ≠ 0)
variable (hy1 : q.y - dim.y / 2 ≠ 0) (hy2 : q.y + dim.y / 2 ≠ 0)
variable (hz1 : q.z - dim.z / 2 ≠ 0) (hz2 : q.z + dim.z / 2 ≠ 0)

/-- the six factors at the observer `q` -/
noncomputable abbrev FFq : CuboidFF ℝ :=
  cuboidFF (q.x - dim.x / 2) (q.x + dim.x / 2) (q.y - dim.y / 2) (q.y + dim.y / 2) (q.z - dim.z / 2) (q.z + dim.z / 2)

include hdx hdy hdz hx1 hx2 hy1 hy2 hz1 hz2

theorem compX_eq :
    (pol.x * (FFq dim q).ff1x + pol.y * (FFq dim q).ff2z + pol.z * (FFq dim q).ff2y) / (4 * Real.pi) =
      cuboidCoulombComp dim pol q V3.x + (if insideP dim q then pol.x else 0) := by
  have hx2' : q.x - -(dim.x / 2) ≠ 0 := by rwa [sub_neg_eq_add]
  have hy2' : q.y - -(dim.y / 2) ≠ 0 := by rwa [sub_neg_eq_add]
  have hz2' : q.z - -(dim.z / 2) ≠ 0 := by rwa [sub_neg_eq_add]
  unfold cuboidCoulombComp
  rw [faceX_x dim q _ hx1, faceX_x dim q _ hx2', faceY_x dim q _ hy1, faceY_x dim q _ hy2',
    faceZ_x dim q _ hz1, faceZ_x dim q _ hz2']
  simp only [sub_neg_eq_add]
  rw [ff1x_eq _ _ _ _ _ _ hx1 hx2 hy1 hy2 hz1 hz2 (by linarith) (by linarith),
    ff2z_eq_Y _ _ _ _ _ _ hx1 hx2, ff2y_eq_Z _ _ _ _ _ _ hx1 hx2,
    ind_diff _ _ _ _ (by linarith) hx2]
  have hin : insideP dim q ↔ ((q.x - dim.x / 2 < 0 ∧ 0 < q.x + dim.x / 2) ∧
      (q.y - dim.y / 2 < 0 ∧ 0 < q.y + dim.y / 2) ∧ (q.z - dim.z / 2 < 0 ∧ 0 < q.z + dim.z / 2)) := by
    simp only [insideP, abs_lt_half]
  have hpi : Real.pi ≠ 0 := Real.pi_ne_zero
  by_cases hi : insideP dim q
  · rw [if_pos hi, if_pos (hin.mp hi)]; field_simp; ring_nf
  · rw [if_neg hi, if_neg (fun h => hi (hin.mpr h))]; field_simp; ring_nf

theorem compY_eq :
    (pol.x * (FFq dim q).ff2z + pol.y * (FFq dim q).ff1y + (-pol.z) * (FFq dim q).ff2x) / (4 * Real.pi) =
      cuboidCoulombComp dim pol q V3.y + (if insideP dim q then pol.y else 0) := by
  have hx2' : q.x - -(dim.x / 2) ≠ 0 := by rwa [sub_neg_eq_add]
  have hy2' : q.y - -(dim.y / 2) ≠ 0 := by rwa [sub_neg_eq_add]
  have hz2' : q.z - -(dim.z / 2) ≠ 0 := by rwa [sub_neg_eq_add]
  unfold cuboidCoulombComp
  rw [faceX_y dim q _ hx1, faceX_y dim q _ hx2', faceY_y dim q _ hy1, faceY_y dim q _ hy2',
    faceZ_y dim q _ hz1, faceZ_y dim q _ hz2']
  simp only [sub_neg_eq_add]
  have e := ff2x_eq_Z (q.x - dim.x / 2) (q.x + dim.x / 2) _ _ (q.z - dim.z / 2) (q.z + dim.z / 2) hy1 hy2
  rw [neg_eq_iff_eq_neg] at e
  rw [ff1y_eq _ _ _ _ _ _ hx1 hx2 hy1 hy2 hz1 hz2 (by linarith) (by linarith),
    ff2z_eq_X _ _ _ _ _ _ hx1 hx2, e,
    ind_diff _ _ _ _ (by linarith) hy2]
  have hin : insideP dim q ↔ ((q.y - dim.y / 2 < 0 ∧ 0 < q.y + dim.y / 2) ∧
      (q.x - dim.x / 2 < 0 ∧ 0 < q.x + dim.x / 2) ∧ (q.z - dim.z / 2 < 0 ∧ 0 < q.z + dim.z / 2)) := by
    simp only [insideP, abs_lt_half]; tauto
  have hpi : Real.pi ≠ 0 := Real.pi_ne_zero
  by_cases hi : insideP dim q
  · rw [if_pos hi, if_pos (hin.mp hi)]; field_simp; ring
  · rw [if_neg hi, if_neg (fun h => hi (hin.mpr h))]; field_simp; ring

theorem compZ_eq :
    (pol.x * (FFq dim q).ff2y + (-pol.y) * (FFq dim q).ff2x + pol.z * (FFq dim q).ff1z) / (4 * Real.pi) =
      cuboidCoulombComp dim pol q V3.z + (if insideP dim q then pol.z else 0) := by
  have hx2' : q.x - -(dim.x / 2) ≠ 0 := by rwa [sub_neg_eq_add]
  have hy2' : q.y - -(dim.y / 2) ≠ 0 := by rwa [sub_neg_eq_add]
  have hz2' : q.z - -(dim.z / 2) ≠ 0 := by rwa [sub_neg_eq_add]
  unfold cuboidCoulombComp
  rw [faceX_z dim q _ hx1, faceX_z dim q _ hx2', faceY_z dim q _ hy1, faceY_z dim q _ hy2',
    faceZ_z dim q _ hz1, faceZ_z dim q _ hz2']
  simp only [sub_neg_eq_add]
  have e := ff2x_eq_Y (q.x - dim.x / 2) (q.x + dim.x / 2) _ _ (q.z - dim.z / 2) (q.z + dim.z / 2) hy1 hy2
  rw [neg_eq_iff_eq_neg] at e
  rw [ff1z_eq _ _ _ _ _ _ hx1 hx2 hy1 hy2 hz1 hz2 (by linarith) (by linarith),
    ff2y_eq_X _ _ _ _ _ _ hx1 hx2, e,
    ind_diff _ _ _ _ (by linarith) hz2]
  have hin : insideP dim q ↔ ((q.z - dim.z / 2 < 0 ∧ 0 < q.z + dim.z / 2) ∧
      (q.x - dim.x / 2 < 0 ∧ 0 < q.x + dim.x / 2) ∧ (q.y - dim.y / 2 < 0 ∧ 0 < q.y + dim.y / 2)) := by
    simp only [insideP, abs_lt_half]; tauto
  have hpi : Real.pi ≠ 0 := Real.pi_ne_zero
  by_cases hi : insideP dim q
  · rw [if_pos hi, if_pos (hin.mp hi)]; field_simp; ring
  · rw [if_neg hi, if_neg (fun h => hi (hin.mpr h))]; field_simp; ring

/-- **no reflection**: the code's combination of the six factors, evaluated directly at the
observer `q` (any octant), is the surface-charge integral, plus the polarization inside -/
theorem assemble0_eq :
    cuboidAssemble ⟨false, false, false⟩ pol (FFq dim q) =
      cuboidCoulombB dim pol q + (if insideP dim q then pol else ⟨0, 0, 0⟩) := by
  have hX := compX_eq dim pol q hdx hdy hdz hx1 hx2 hy1 hy2 hz1 hz2
  have hY := compY_eq dim pol q hdx hdy hdz hx1 hx2 hy1 hy2 hz1 hz2
  have hZ := compZ_eq dim pol q hdx hdy hdz hx1 hx2 hy1 hy2 hz1 hz2
  simp only [cuboidAssemble, vd, n, ofNat_real, pi_real, Nat.cast_ofNat, Nat.cast_one, Bool.false_eq_true,
    if_false, mul_one]
  by_cases hi : insideP dim q
  · simp only [if_pos hi] at hX hY hZ ⊢
    apply V3.ext'
    · simpa [cuboidCoulombB] using hX
    · simpa [cuboidCoulombB] using hY
    · simpa [cuboidCoulombB] using hZ
  · simp only [if_neg hi] at hX hY hZ ⊢
    apply V3.ext'
    · simpa [cuboidCoulombB] using hX
    · simpa [cuboidCoulombB] using hY
    · simpa [cuboidCoulombB] using hZ

end assemble0

/-! ### Part C2: mirror symmetry of the integral -/

/-- componentwise product with a sign vector -/
def sm (S v : V3 ℝ) : V3 ℝ := ⟨S.x * v.x, S.y * v.y, S.z * v.z⟩

/-- all three entries are ±1 -/
def IsSign (S : V3 ℝ) : Prop := (S.x = 1 ∨ S.x = -1) ∧ (S.y = 1 ∨ S.y = -1) ∧ (S.z = 1 ∨ S.z = -1)

theorem sq_one {s : ℝ} (h : s = 1 ∨ s = -1) : s * s = 1 := by rcases h with h | h <;> rw [h] <;> norm_num

theorem sm_sm {S : V3 ℝ} (hS : IsSign S) (v : V3 ℝ) : sm S (sm S v) = v := by
  obtain ⟨hx, hy, hz⟩ := hS
  apply V3.ext' <;> simp only [sm, ← mul_assoc, sq_one hx, sq_one hy, sq_one hz, one_mul]

theorem int_sym (f : ℝ → ℝ) (b : ℝ) {s : ℝ} (hs : s = 1 ∨ s = -1) :
    ∫ t in -b..b, f t = ∫ t in -b..b, f (s * t) := by
  rcases hs with h | h
  · simp [h]
  · have := intervalIntegral.integral_comp_neg (a := -b) (b := b) f
    rw [neg_neg] at this
    rw [h, ← this]
    simp

theorem dist3_sm {S : V3 ℝ} (hS : IsSign S) (a b c : ℝ) :
    dist3 (S.x * a) (S.y * b) (S.z * c) = dist3 a b c := by
  obtain ⟨hx, hy, hz⟩ := hS
  unfold dist3
  congr 1
  rw [show S.x * a * (S.x * a) + S.y * b * (S.y * b) + S.z * c * (S.z * c) =
    (S.x * S.x) * (a * a) + (S.y * S.y) * (b * b) + (S.z * S.z) * (c * c) by ring,
    sq_one hx, sq_one hy, sq_one hz]
  ring

theorem coulombK_sm {S : V3 ℝ} (hS : IsSign S) (p q : V3 ℝ) :
    coulombK (sm S p) (sm S q) = sm S (coulombK p q) := by
  have hd := dist3_sm hS (p.x - q.x) (p.y - q.y) (p.z - q.z)
  apply V3.ext'
  · simp only [coulombK_x, sm, ← mul_sub, hd, mul_div_assoc]
  · simp only [coulombK_y, sm, ← mul_sub, hd, mul_div_assoc]
  · simp only [coulombK_z, sm, ← mul_sub, hd, mul_div_assoc]

section sym
variable (dim : V3 ℝ) {S : V3 ℝ} (hS : IsSign S) (p : V3 ℝ) (i : V3 ℝ → ℝ) (c : ℝ)
  (hi : ∀ v, i (sm S v) = c * i v)
include hS hi

theorem faceX_sm (s : ℝ) : faceX dim s (sm S p) i = c * faceX dim (S.x * s) p i := by
  obtain ⟨hx, hy, hz⟩ := hS
  have key : ∀ y' z' : ℝ, i (coulombK (sm S p) ⟨s, S.y * y', S.z * z'⟩) = c * i (coulombK p ⟨S.x * s, y', z'⟩) := by
    intro y' z'
    rw [← hi, ← coulombK_sm ⟨hx, hy, hz⟩]
    congr 2
    simp only [sm, ← mul_assoc, sq_one hx, one_mul]
  unfold faceX
  rw [int_sym (fun y' => ∫ z' in -(dim.z / 2)..(dim.z / 2), i (coulombK (sm S p) ⟨s, y', z'⟩)) _ hy]
  have e1 : ∀ y' : ℝ, ∫ z' in -(dim.z / 2)..(dim.z / 2), i (coulombK (sm S p) ⟨s, S.y * y', z'⟩) =
      c * ∫ z' in -(dim.z / 2)..(dim.z / 2), i (coulombK p ⟨S.x * s, y', z'⟩) := by
    intro y'
    rw [int_sym (fun z' => i (coulombK (sm S p) ⟨s, S.y * y', z'⟩)) _ hz]
    simp only [key]
    rw [intervalIntegral.integral_const_mul]
  simp only [e1]
  rw [intervalIntegral.integral_const_mul]

theorem faceY_sm (s : ℝ) : faceY dim s (sm S p) i = c * faceY dim (S.y * s) p i := by
  obtain ⟨hx, hy, hz⟩ := hS
  have key : ∀ x' z' : ℝ, i (coulombK (sm S p) ⟨S.x * x', s, S.z * z'⟩) = c * i (coulombK p ⟨x', S.y * s, z'⟩) := by
    intro x' z'
    rw [← hi, ← coulombK_sm ⟨hx, hy, hz⟩]
    congr 2
    simp only [sm, ← mul_assoc, sq_one hy, one_mul]
  unfold faceY
  rw [int_sym (fun x' => ∫ z' in -(dim.z / 2)..(dim.z / 2), i (coulombK (sm S p) ⟨x', s, z'⟩)) _ hx]
  have e1 : ∀ x' : ℝ, ∫ z' in -(dim.z / 2)..(dim.z / 2), i (coulombK (sm S p) ⟨S.x * x', s, z'⟩) =
      c * ∫ z' in -(dim.z / 2)..(dim.z / 2), i (coulombK p ⟨x', S.y * s, z'⟩) := by
    intro x'
    rw [int_sym (fun z' => i (coulombK (sm S p) ⟨S.x * x', s, z'⟩)) _ hz]
    simp only [key]
    rw [intervalIntegral.integral_const_mul]
  simp only [e1]
  rw [intervalIntegral.integral_const_mul]

theorem faceZ_sm (s : ℝ) : faceZ dim s (sm S p) i = c * faceZ dim (S.z * s) p i := by
  obtain ⟨hx, hy, hz⟩ := hS
  have key : ∀ x' y' : ℝ, i (coulombK (sm S p) ⟨S.x * x', S.y * y', s⟩) = c * i (coulombK p ⟨x', y', S.z * s⟩) := by
    intro x' y'
    rw [← hi, ← coulombK_sm ⟨hx, hy, hz⟩]
    congr 2
    simp only [sm, ← mul_assoc, sq_one hz, one_mul]
  unfold faceZ
  rw [int_sym (fun x' => ∫ y' in -(dim.y / 2)..(dim.y / 2), i (coulombK (sm S p) ⟨x', y', s⟩)) _ hx]
  have e1 : ∀ x' : ℝ, ∫ y' in -(dim.y / 2)..(dim.y / 2), i (coulombK (sm S p) ⟨S.x * x', y', s⟩) =
      c * ∫ y' in -(dim.y / 2)..(dim.y / 2), i (coulombK p ⟨x', y', S.z * s⟩) := by
    intro x'
    rw [int_sym (fun y' => i (coulombK (sm S p) ⟨S.x * x', y', s⟩)) _ hy]
    simp only [key]
    rw [intervalIntegral.integral_const_mul]
  simp only [e1]
  rw [intervalIntegral.integral_const_mul]

theorem cuboidCoulombComp_sm (pol : V3 ℝ) :
    cuboidCoulombComp dim (sm S pol) (sm S p) i = c * cuboidCoulombComp dim pol p i := by
  unfold cuboidCoulombComp
  rw [faceX_sm dim hS p i c hi, faceX_sm dim hS p i c hi, faceY_sm dim hS p i c hi, faceY_sm dim hS p i c hi,
    faceZ_sm dim hS p i c hi, faceZ_sm dim hS p i c hi]
  obtain ⟨hx, hy, hz⟩ := hS
  simp only [sm]
  rcases hx with hx | hx <;> rcases hy with hy | hy <;> rcases hz with hz | hz <;>
    simp only [hx, hy, hz, one_mul, neg_mul, neg_neg] <;> ring

end sym

/-- mirror images: reflecting observer and polarization through coordinate planes reflects the field -/
theorem cuboidCoulombB_sm (dim : V3 ℝ) {S : V3 ℝ} (hS : IsSign S) (pol p : V3 ℝ) :
    cuboidCoulombB dim (sm S pol) (sm S p) = sm S (cuboidCoulombB dim pol p) := by
  apply V3.ext'
  · exact cuboidCoulombComp_sm dim hS p V3.x S.x (fun _ => rfl) pol
  · exact cuboidCoulombComp_sm dim hS p V3.y S.y (fun _ => rfl) pol
  · exact cuboidCoulombComp_sm dim hS p V3.z S.z (fun _ => rfl) pol

/-! ### Part C3: the code's reflection into the bottom-Q4 octant -/

/-- the sign vector of a flip mask -/
def signOf (fl : CuboidFlip) : V3 ℝ :=
  ⟨if fl.fx then -1 else 1, if fl.fy then -1 else 1, if fl.fz then -1 else 1⟩

theorem signOf_isSign (fl : CuboidFlip) : IsSign (signOf fl) := by
  rcases fl with ⟨_ | _, _ | _, _ | _⟩ <;> simp [IsSign, signOf]

theorem cuboidReflect_eq (p : V3 ℝ) : cuboidReflect p = sm (signOf (cuboidFlip p)) p := by
  simp only [cuboidReflect, sm, signOf, n, ofNat_real, Nat.cast_one]
  apply V3.ext' <;> simp only <;> split_ifs <;> ring

/-- the `qsigns` table of the code is the outer product of the flip signs with themselves -/
theorem cuboidAssemble_flip (fl : CuboidFlip) (pol : V3 ℝ) (F : CuboidFF ℝ) :
    cuboidAssemble fl pol F = sm (signOf fl) (cuboidAssemble ⟨false, false, false⟩ (sm (signOf fl) pol) F) := by
  rcases fl with ⟨_ | _, _ | _, _ | _⟩ <;>
    (simp only [cuboidAssemble, signOf, sm, vd, n, ofNat_real, Nat.cast_one, Bool.false_eq_true, if_false, if_true]
     apply V3.ext' <;> simp only <;> ring)

theorem insideP_sm (dim : V3 ℝ) {S : V3 ℝ} (hS : IsSign S) (p : V3 ℝ) : insideP dim (sm S p) ↔ insideP dim p := by
  obtain ⟨hx, hy, hz⟩ := hS
  have h : ∀ {s : ℝ}, (s = 1 ∨ s = -1) → ∀ t : ℝ, |s * t| = |t| := by
    intro s hs t; rcases hs with h | h <;> simp [h]
  simp only [insideP, sm, h hx, h hy, h hz]

theorem off_plane_sm {s : ℝ} (hs : s = 1 ∨ s = -1) {t a : ℝ} (h1 : t - a ≠ 0) (h2 : t + a ≠ 0) :
    s * t - a ≠ 0 ∧ s * t + a ≠ 0 := by
  rcases hs with h | h
  · simp only [h, one_mul]; exact ⟨h1, h2⟩
  · simp only [h, neg_mul, one_mul]
    constructor
    · intro e; apply h2; linarith
    · intro e; apply h1; linarith

/-- **Cuboid = Coulomb integral**: for positive side lengths and every observer off the six face
planes, the port of `magnet_cuboid_Bfield` — reflection into the bottom-Q4 octant, the six factors,
the `qsigns` table — equals the surface-charge integral, plus the polarization for observers
strictly inside. -/
theorem cuboidB_eq_coulomb (dim pol p : V3 ℝ) (hdx : 0 < dim.x) (hdy : 0 < dim.y) (hdz : 0 < dim.z)
    (hx1 : p.x - dim.x / 2 ≠ 0) (hx2 : p.x + dim.x / 2 ≠ 0)
    (hy1 : p.y - dim.y / 2 ≠ 0) (hy2 : p.y + dim.y / 2 ≠ 0)
    (hz1 : p.z - dim.z / 2 ≠ 0) (hz2 : p.z + dim.z / 2 ≠ 0) :
    cuboidB dim pol p = cuboidCoulombB dim pol p + (if insideP dim p then pol else ⟨0, 0, 0⟩) := by
  have hS := signOf_isSign (cuboidFlip p)
  obtain ⟨sx, sy, sz⟩ := hS
  set S := signOf (cuboidFlip p) with hSdef
  have hS : IsSign S := ⟨sx, sy, sz⟩
  have hX := off_plane_sm sx hx1 hx2
  have hY := off_plane_sm sy hy1 hy2
  have hZ := off_plane_sm sz hz1 hz2
  have h0 := assemble0_eq dim (sm S pol) (sm S p) hdx hdy hdz hX.1 hX.2 hY.1 hY.2 hZ.1 hZ.2
  have hB : cuboidB dim pol p = cuboidAssemble (cuboidFlip p) pol (FFq dim (sm S p)) := by
    simp only [cuboidB, cuboidReflect_eq, n, ofNat_real, Nat.cast_ofNat, ← hSdef]
  rw [hB, cuboidAssemble_flip, ← hSdef, h0, cuboidCoulombB_sm dim hS]
  by_cases hi : insideP dim p
  · rw [if_pos hi, if_pos ((insideP_sm dim hS p).mpr hi)]
    apply V3.ext' <;>
      simp only [sm, V3.add_x, V3.add_y, V3.add_z, mul_add, ← mul_assoc, sq_one sx, sq_one sy, sq_one sz, one_mul]
  · rw [if_neg hi, if_neg (fun h => hi ((insideP_sm dim hS p).mp h))]
    apply V3.ext' <;>
      simp only [sm, V3.add_x, V3.add_y, V3.add_z, mul_add, ← mul_assoc, sq_one sx, sq_one sy, sq_one sz, one_mul, mul_zero]

/-! ### the wrapper's masks away from the surface shells -/

/-- the relative tolerance of `BHJM_magnet_cuboid` -/
noncomputable def rtol : ℝ := 1 / 1000000000000000

theorem rtol_pos : 0 < rtol := by unfold rtol; norm_num

/-- one axis: outside the shell `||t| − a| < rtol·a` the code's comparisons are the geometric ones -/
theorem shell_clear {t a : ℝ} (ha : 0 < a) (h : rtol * a ≤ |(|t| - a)|) :
    ¬ (|(|t| - a)| < rtol * a) ∧ ((|t| - a < rtol * a) ↔ |t| < a) ∧ |t| ≠ a := by
  have hr : 0 < rtol * a := mul_pos rtol_pos ha
  refine ⟨not_lt.mpr h, ⟨fun h1 => ?_, fun h1 => by linarith⟩, fun e => ?_⟩
  · by_contra h2
    have : 0 ≤ |t| - a := by linarith
    rw [abs_of_nonneg this] at h
    linarith
  · rw [e, sub_self, abs_zero] at h; linarith

theorem cuboidCoulombB_zero_pol (dim p : V3 ℝ) : cuboidCoulombB dim ⟨0, 0, 0⟩ p = ⟨0, 0, 0⟩ := by
  apply V3.ext' <;> simp [cuboidCoulombB, cuboidCoulombComp]

/-- masks of `BHJM_magnet_cuboid` for an observer outside the three surface shells: no edge case,
inside mask = geometric interior -/
theorem cuboidMasks_clear (dim pol p : V3 ℝ) (hdx : 0 < dim.x) (hdy : 0 < dim.y) (hdz : 0 < dim.z)
    (hx : rtol * (dim.x / 2) ≤ |(|p.x| - dim.x / 2)|) (hy : rtol * (dim.y / 2) ≤ |(|p.y| - dim.y / 2)|)
    (hz : rtol * (dim.z / 2) ≤ |(|p.z| - dim.z / 2)|) :
    (cuboidMasks dim pol p).inside = decide (insideP dim p) ∧
    (cuboidMasks dim pol p).general = !decide (pol.x = 0 ∧ pol.y = 0 ∧ pol.z = 0) := by
  obtain ⟨x1, x2, _⟩ := shell_clear (half_pos hdx) hx
  obtain ⟨y1, y2, _⟩ := shell_clear (half_pos hdy) hy
  obtain ⟨z1, z2, _⟩ := shell_clear (half_pos hdz) hz
  have hprod : ¬ (dim.x / 2 * (dim.y / 2) * (dim.z / 2) = 0) :=
    (mul_pos (mul_pos (half_pos hdx) (half_pos hdy)) (half_pos hdz)).ne'
  unfold rtol at x1 x2 y1 y2 z1 z2
  simp only [cuboidMasks, lt_real, abs_real, eq0_real, n, ofNat_real, Nat.cast_ofNat, Nat.cast_one,
    abs_of_pos hdx, abs_of_pos hdy, abs_of_pos hdz, x1, x2, y1, y2, z1, z2, hprod, insideP,
    decide_false, Bool.false_and, Bool.and_false, Bool.or_false, Bool.not_false, Bool.and_true,
    Bool.decide_and]
  refine ⟨by rw [Bool.eq_iff_iff]; simp [and_assoc]; exact decide_eq_true_iff.symm, ?_⟩
  rw [Bool.eq_iff_iff]; simp; tauto

end MagpyVerif.CuboidCoulomb
