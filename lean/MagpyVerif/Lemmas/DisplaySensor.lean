/-
Lemmas/DisplaySensor.lean — Model/DisplaySensor.lean at α = ℝ: the axes glyph of a Sensor (origin, arrow tips, handedness), and
Model/DisplayExtra.lean (the frames of a user trace do not depend on each other).
-/
import Mathlib.Tactic
import MagpyVerif.Lemmas.DisplayArrow
import MagpyVerif.Model.DisplaySensor
import MagpyVerif.Model.DisplayExtra
namespace MagpyVerif.DisplayTrig
open MagpyVerif MagpyVerif.Kern

/-- a template vertex as it enters the mask / scaling step -/
def glyphTurn {α : Type} [Num α] (left : Bool) (v : (Int × Nat) × (Int × Nat) × (Int × Nat)) : V3 α :=
  let p : V3 α := ⟨dyadic v.1, dyadic v.2.1, dyadic v.2.2⟩
  if left then (⟨-p.z, p.y, p.x⟩ : V3 α) else p

theorem sensorGlyph_getElem? (left : Bool) (d : V3 ℝ) (i : Nat) (v : (Int × Nat) × (Int × Nat) × (Int × Nat))
    (h : Gen.SensorMesh.verts[i]? = some v) : (sensorGlyph left d)[i]? = some (glyphVertex d (glyphTurn left v)) := by
  unfold sensorGlyph glyphTemplate
  rw [List.getElem?_map, List.getElem?_map, h]
  rfl

/-- the eight corners of the template's centre cube (`(±1/2, ±1/2, ±1/2)`) -/
def cubeCorners : List Nat := [0, 1, 2, 3, 64, 65, 75, 76]

/-- the faces of the centre cube (`indices[0] = (0, 12)`) use these eight vertices only -/
theorem centre_faces_use_corners :
    (Gen.SensorMesh.faces.take 12).all (fun f => cubeCorners.contains f.1 && cubeCorners.contains f.2.1 && cubeCorners.contains f.2.2) = true := by
  decide

/-- which arrow a tip belongs to: vertex 97 is used by faces of the range (12, 68) only, 34 by (68, 124) only, 33 by (124, 180) only
(`indices` of `get_sensor_mesh`: the ranges coloured x, y, z for a right-handed sensor and z, y, x for a left-handed one) -/
theorem tips_belong_to_ranges :
    Gen.SensorMesh.ranges = [(0, 12), (12, 68), (68, 124), (124, 180)] ∧ Gen.SensorMesh.faces.length = 180 ∧
    (let uses (v : Nat) (f : Nat × Nat × Nat) : Bool := f.1 == v || f.2.1 == v || f.2.2 == v
     ∀ k < 180, ((Gen.SensorMesh.faces.getD k (0, 0, 0)) |> uses 97) = true → 12 ≤ k ∧ k < 68) ∧
    (let uses (v : Nat) (f : Nat × Nat × Nat) : Bool := f.1 == v || f.2.1 == v || f.2.2 == v
     ∀ k < 180, ((Gen.SensorMesh.faces.getD k (0, 0, 0)) |> uses 34) = true → 68 ≤ k ∧ k < 124) ∧
    (let uses (v : Nat) (f : Nat × Nat × Nat) : Bool := f.1 == v || f.2.1 == v || f.2.2 == v
     ∀ k < 180, ((Gen.SensorMesh.faces.getD k (0, 0, 0)) |> uses 33) = true → 124 ≤ k ∧ k < 180) := by
  refine ⟨by decide, by rfl, ?_, ?_, ?_⟩ <;> decide +kernel

theorem glyph_corner_is_origin (left : Bool) (d : V3 ℝ) (i : Nat) (hi : i ∈ cubeCorners) :
    (sensorGlyph left d)[i]? = some ⟨0, 0, 0⟩ := by
  simp only [cubeCorners, List.mem_cons, List.not_mem_nil, or_false] at hi
  rcases hi with rfl | rfl | rfl | rfl | rfl | rfl | rfl | rfl <;>
  · rw [sensorGlyph_getElem? left d _ _ rfl]
    cases left <;>
      norm_num [glyphVertex, glyphTurn, dyadic, abs_lt]

/-- the tips of the three arrows of the template: `(2, ε, ε)`, `(ε, 2, ε)`, `(ε, 0, 2)` with `|ε| < 2⁻⁵⁰` (rounding noise of the literal table) -/
theorem glyph_tips_right (d : V3 ℝ) :
    (sensorGlyph false d)[97]? = some ⟨d.x, d.y * (8052135434725825 / 2 ^ 106), d.z * (-5249326743147243 / 2 ^ 108)⟩ ∧
    (sensorGlyph false d)[34]? = some ⟨d.x * (-7751120502399483 / 2 ^ 106), d.y, d.z * (-2545433574297143 / 2 ^ 106)⟩ ∧
    (sensorGlyph false d)[33]? = some ⟨d.x * (-131941395258825 / 2 ^ 100), 0, d.z⟩ := by
  refine ⟨?_, ?_, ?_⟩ <;>
  · rw [sensorGlyph_getElem? false d _ _ rfl]
    congr 1
    apply V3.ext' <;> (norm_num [glyphVertex, glyphTurn, dyadic, abs_lt]) <;> ring

/-- left-handed: the same three vertices after the turn `(x, y, z) ↦ (-z, y, x)` -/
theorem glyph_tips_left (d : V3 ℝ) :
    (sensorGlyph true d)[33]? = some ⟨-d.x, 0, d.z * (-131941395258825 / 2 ^ 100)⟩ ∧
    (sensorGlyph true d)[34]? = some ⟨d.x * (2545433574297143 / 2 ^ 106), d.y, d.z * (-7751120502399483 / 2 ^ 106)⟩ ∧
    (sensorGlyph true d)[97]? = some ⟨d.x * (5249326743147243 / 2 ^ 108), d.y * (8052135434725825 / 2 ^ 106), d.z⟩ := by
  refine ⟨?_, ?_, ?_⟩ <;>
  · rw [sensorGlyph_getElem? true d _ _ rfl]
    congr 1
    apply V3.ext' <;> (norm_num [glyphVertex, glyphTurn, dyadic, abs_lt]) <;> ring

end MagpyVerif.DisplayTrig

namespace MagpyVerif.Display
variable {α : Type} [Add α] [Mul α] [OfNat α 0] [OfNat α 1] [BEq α]

/-- with the copy, a call leaves the user's dict as it was -/
theorem processExtraTrace_user (u : ExtraTrace α) (R : M3 α) (p : V3 α) (kw : List (String × TVal α)) (t : PlaceOut α)
    (h : processExtraTrace u R p = .ok (kw, t)) : kw = u.kwargs := by
  unfold processExtraTrace processExtraTraceWith at h
  split at h
  · cases h
  · simp only [if_true, Except.ok.injEq, Prod.mk.injEq] at h
    exact h.1.symm

/-- the frame loop: the user's dict after the loop is the one before it, and frame `k` is `process_extra_trace` of the ORIGINAL user
trace at pose `k` -/
theorem extraFrames_spec (u : ExtraTrace α) (poses : List (M3 α × V3 α)) (kw : List (String × TVal α)) (ts : List (PlaceOut α))
    (h : extraFrames u poses = .ok (kw, ts)) :
    kw = u.kwargs ∧ ts.length = poses.length ∧
    ∀ k (hk : k < poses.length), ∃ t, ts[k]? = some t ∧ processExtraTrace u poses[k].1 poses[k].2 = .ok (u.kwargs, t) := by
  induction poses generalizing kw ts with
  | nil =>
    simp only [extraFrames, extraFramesWith, Except.ok.injEq, Prod.mk.injEq] at h
    obtain ⟨rfl, rfl⟩ := h
    exact ⟨rfl, rfl, fun k hk => absurd hk (by simp)⟩
  | cons rp rest ih =>
    obtain ⟨R, p⟩ := rp
    simp only [extraFrames, extraFramesWith] at h
    cases h1 : processExtraTraceWith true u R p with
    | error e => rw [h1] at h; cases h
    | ok r =>
      obtain ⟨kw', t⟩ := r
      have hkw : kw' = u.kwargs := processExtraTrace_user u R p kw' t h1
      subst hkw
      rw [h1] at h
      simp only at h
      cases h2 : extraFramesWith true { u with kwargs := u.kwargs } rest with
      | error e => rw [h2] at h; cases h
      | ok r2 =>
        obtain ⟨kw'', ts'⟩ := r2
        rw [h2] at h
        simp only [Except.ok.injEq, Prod.mk.injEq] at h
        obtain ⟨rfl, rfl⟩ := h
        obtain ⟨i1, i2, i3⟩ := ih kw'' ts' h2
        refine ⟨i1, by simp [i2], ?_⟩
        intro k hk
        cases k with
        | zero => exact ⟨t, rfl, h1⟩
        | succ k =>
          obtain ⟨t', ht', hp⟩ := i3 k (by simpa using hk)
          exact ⟨t', by simpa using ht', by simpa using hp⟩

end MagpyVerif.Display
