/- output shaping of getBH_level2 (Model/Level2.lean: `level2Core`, `getBH`, `dataframe`):
row-major indexing of the flattened `[source][m][sensor][pixel]` tensor, pixel_agg, sumup, squeeze,
the error exits, and the `itertools.product` index of the dataframe branch.  Used by Props/C04–C07. -/
import MagpyVerif.Lemmas.Level2Compose
import Mathlib.Algebra.BigOperators.Group.List.Basic
import Mathlib.Tactic.Ring
namespace MagpyVerif.Level2
variable {G V : Type}

/-! ### row-major indexing of nested lists with uniform inner lengths -/
section lists
variable {α : Type}

theorem idx_lt {a b n m : Nat} (ha : a < n) (hb : b < m) : a * m + b < n * m := by
  calc a * m + b < a * m + m := by omega
    _ = (a + 1) * m := by rw [Nat.add_mul, Nat.one_mul]
    _ ≤ n * m := Nat.mul_le_mul_right m ha

theorem length_flatten_uniform (xs : List (List α)) (n : Nat) (h : ∀ x ∈ xs, x.length = n) :
    xs.flatten.length = xs.length * n := by
  induction xs with
  | nil => simp
  | cons x xs ih =>
    simp only [List.flatten_cons, List.length_append, List.length_cons]
    rw [ih (fun y hy => h y (by simp [hy])), h x (by simp), Nat.add_mul, Nat.one_mul, Nat.add_comm]

/-- element `j` of block `i` of a concatenation of equally long blocks -/
theorem getElem?_flatten_uniform (xs : List (List α)) (n : Nat) (h : ∀ x ∈ xs, x.length = n)
    (i j : Nat) (hj : j < n) : xs.flatten[i * n + j]? = xs[i]?.bind (·[j]?) := by
  induction xs generalizing i with
  | nil => simp
  | cons x xs ih =>
    have hx : x.length = n := h x (by simp)
    have hxs : ∀ y ∈ xs, y.length = n := fun y hy => h y (by simp [hy])
    cases i with
    | zero =>
      simp only [Nat.zero_mul, Nat.zero_add, List.flatten_cons, List.getElem?_cons_zero,
        Option.bind_some]
      rw [List.getElem?_append_left (by omega)]
    | succ i =>
      simp only [List.flatten_cons, List.getElem?_cons_succ]
      rw [List.getElem?_append_right (by rw [hx, Nat.add_mul]; omega)]
      have : (i + 1) * n + j - x.length = i * n + j := by rw [hx, Nat.add_mul]; omega
      rw [this, ih hxs]

theorem prod_filter_ne_one (sh : List Nat) : (sh.filter (· ≠ 1)).prod = sh.prod := by
  induction sh with
  | nil => rfl
  | cons a sh ih =>
    by_cases h1 : a = 1
    · rw [List.filter_cons_of_neg (by simp [h1]), ih, h1, List.prod_cons, one_mul]
    · rw [List.filter_cons_of_pos (by simp [h1]), List.prod_cons, List.prod_cons, ih]

/-- row-major data of a `[m][sensor][pixel]` block -/
def flat3 (a : List (List (List α))) : List α := (a.map fun b => b.flatten).flatten

theorem flat4_eq (T : List (List (List (List α)))) : flat4 T = (T.map flat3).flatten := rfl

/-- the first three axes of `T` have lengths `L, M, K` -/
structure Rect3 (T : List (List (List (List α)))) (L M K : Nat) : Prop where
  len : T.length = L
  l1 : ∀ a ∈ T, a.length = M
  l2 : ∀ a ∈ T, ∀ b ∈ a, b.length = K

/-- `T` is a rectangular `L × M × K × P` array -/
structure Rect4 (T : List (List (List (List α)))) (L M K P : Nat) : Prop where
  r3 : Rect3 T L M K
  l3 : ∀ a ∈ T, ∀ b ∈ a, ∀ c ∈ b, c.length = P

theorem flat3_length (a : List (List (List α))) (M K P : Nat) (h1 : a.length = M)
    (h2 : ∀ b ∈ a, b.length = K) (h3 : ∀ b ∈ a, ∀ c ∈ b, c.length = P) :
    (flat3 a).length = M * (K * P) := by
  unfold flat3
  rw [length_flatten_uniform _ (K * P), List.length_map, h1]
  intro x hx
  obtain ⟨b, hb, rfl⟩ := List.mem_map.mp hx
  rw [length_flatten_uniform b P (h3 b hb), h2 b hb]

theorem flat3_getElem? (a : List (List (List α))) (K P : Nat)
    (h2 : ∀ b ∈ a, b.length = K) (h3 : ∀ b ∈ a, ∀ c ∈ b, c.length = P)
    (m k p : Nat) (hk : k < K) (hp : p < P) :
    (flat3 a)[m * (K * P) + (k * P + p)]? = (a[m]?.bind (·[k]?)).bind (·[p]?) := by
  unfold flat3
  rw [getElem?_flatten_uniform _ (K * P) _ m (k * P + p) (idx_lt hk hp), List.getElem?_map]
  · cases hb : a[m]? with
    | none => simp
    | some b =>
      have hmem : b ∈ a := List.mem_of_getElem? hb
      simp only [Option.map_some, Option.bind_some]
      exact getElem?_flatten_uniform b P (h3 b hmem) k p hp
  · intro x hx
    obtain ⟨b, hb, rfl⟩ := List.mem_map.mp hx
    rw [length_flatten_uniform b P (h3 b hb), h2 b hb]

theorem flat4_length {T : List (List (List (List α)))} {L M K P : Nat} (h : Rect4 T L M K P) :
    (flat4 T).length = L * (M * (K * P)) := by
  rw [flat4_eq, length_flatten_uniform _ (M * (K * P)), List.length_map, h.r3.len]
  intro x hx
  obtain ⟨a, ha, rfl⟩ := List.mem_map.mp hx
  exact flat3_length a M K P (h.r3.l1 a ha) (h.r3.l2 a ha) (h.l3 a ha)

/-- element `j` of source block `l` (stride = size of one block) -/
theorem flat4_block_getElem? {T : List (List (List (List α)))} {L M K P : Nat} (h : Rect4 T L M K P)
    (l j : Nat) (hj : j < M * (K * P)) :
    (flat4 T)[l * (M * (K * P)) + j]? = (T[l]?.map flat3).bind (·[j]?) := by
  rw [flat4_eq, getElem?_flatten_uniform _ (M * (K * P)) _ l j hj, List.getElem?_map]
  intro x hx
  obtain ⟨a, ha, rfl⟩ := List.mem_map.mp hx
  exact flat3_length a M K P (h.r3.l1 a ha) (h.r3.l2 a ha) (h.l3 a ha)

/-- **row-major index**: flat position `((l*M + m)*K + k)*P + p` holds element `[l][m][k][p]` -/
theorem flat4_getElem? {T : List (List (List (List α)))} {L M K P : Nat} (h : Rect4 T L M K P)
    (l m k p : Nat) (hm : m < M) (hk : k < K) (hp : p < P) :
    (flat4 T)[((l * M + m) * K + k) * P + p]? =
      ((T[l]?.bind (·[m]?)).bind (·[k]?)).bind (·[p]?) := by
  have idx : ((l * M + m) * K + k) * P + p = l * (M * (K * P)) + (m * (K * P) + (k * P + p)) := by
    ring
  rw [idx, flat4_block_getElem? h l _ (idx_lt hm (idx_lt hk hp))]
  cases ha : T[l]? with
  | none => simp
  | some a =>
    have hmem : a ∈ T := List.mem_of_getElem? ha
    simp only [Option.map_some, Option.bind_some]
    exact flat3_getElem? a K P (h.r3.l2 a hmem) (h.l3 a hmem) m k p hk hp

theorem Rect4.index_lt {L M K P l m k p : Nat} (hl : l < L) (hm : m < M) (hk : k < K) (hp : p < P) :
    ((l * M + m) * K + k) * P + p < L * (M * (K * P)) := by
  have idx : ((l * M + m) * K + k) * P + p = l * (M * (K * P)) + (m * (K * P) + (k * P + p)) := by
    ring
  rw [idx]
  exact idx_lt hl (idx_lt hm (idx_lt hk hp))

end lists

/-! ### pixel_agg -/
section agg
variable [Add V] [Zero V]

theorem aggT_rect {T : List (List (List (List V)))} {L M K : Nat} (a : Agg) (vmin vmax : V → V → V)
    (h : Rect3 T L M K) : Rect4 (aggT a vmin vmax T) L M K 1 := by
  refine ⟨⟨?_, ?_, ?_⟩, ?_⟩
  · simp [aggT, h.len]
  · intro x hx
    simp only [aggT, List.mem_map] at hx
    obtain ⟨y, hy, rfl⟩ := hx
    simp [h.l1 y hy]
  · intro x hx b hb
    simp only [aggT, List.mem_map] at hx
    obtain ⟨y, hy, rfl⟩ := hx
    simp only [List.mem_map] at hb
    obtain ⟨z, hz, rfl⟩ := hb
    simp [h.l2 y hy z hz]
  · intro x hx b hb c hc
    simp only [aggT, List.mem_map] at hx
    obtain ⟨y, hy, rfl⟩ := hx
    simp only [List.mem_map] at hb
    obtain ⟨z, hz, rfl⟩ := hb
    simp only [List.mem_map] at hc
    obtain ⟨w, _, rfl⟩ := hc
    rfl

/-- the single value pixel_agg leaves for `[l][m][k]` is the reduction of that sensor's pixel list -/
theorem aggT_getElem? (a : Agg) (vmin vmax : V → V → V) (T : List (List (List (List V))))
    (l m k : Nat) :
    ((((aggT a vmin vmax T)[l]?.bind (·[m]?)).bind (·[k]?)).bind (·[0]?)) =
      ((T[l]?.bind (·[m]?)).bind (·[k]?)).map (aggList a vmin vmax) := by
  simp only [aggT, List.getElem?_map]
  cases T[l]? with
  | none => rfl
  | some x =>
    simp only [Option.map_some, Option.bind_some, List.getElem?_map]
    cases x[m]? with
    | none => rfl
    | some y =>
      simp only [Option.map_some, Option.bind_some, List.getElem?_map]
      cases y[k]? with
      | none => rfl
      | some z => rfl
end agg

/-! ### sumup -/
section sumup
variable [AddCommMonoid V]

/-- shape of a `[m][sensor][pixel]` block -/
def sh3 {α : Type} (a : List (List (List α))) : List (List Nat) := a.map (·.map List.length)

def zip3 (a b : List (List (List V))) : List (List (List V)) :=
  List.zipWith (List.zipWith (List.zipWith (· + ·))) a b

theorem sum_map_length_eq {α : Type} (x y : List (List α)) (h : x.map List.length = y.map List.length) :
    x.flatten.length = y.flatten.length := by
  rw [List.length_flatten, List.length_flatten, h]

theorem flatten_zipWith_zipWith (x y : List (List V)) (h : x.map List.length = y.map List.length) :
    (List.zipWith (List.zipWith (· + ·)) x y).flatten = List.zipWith (· + ·) x.flatten y.flatten := by
  induction x generalizing y with
  | nil => simp
  | cons u x ih =>
    cases y with
    | nil => simp at h
    | cons v y =>
      simp only [List.map_cons, List.cons.injEq] at h
      simp only [List.zipWith_cons_cons, List.flatten_cons]
      rw [ih y h.2, List.zipWith_append h.1]

theorem map_length_zipWith_zipWith (x y : List (List V)) (h : x.map List.length = y.map List.length) :
    (List.zipWith (List.zipWith (· + ·)) x y).map List.length = x.map List.length := by
  induction x generalizing y with
  | nil => simp
  | cons u x ih =>
    cases y with
    | nil => simp at h
    | cons v y =>
      simp only [List.map_cons, List.cons.injEq] at h
      simp only [List.zipWith_cons_cons, List.map_cons, ih y h.2, List.length_zipWith, ← h.1,
        Nat.min_self]

theorem flat3_zip3 (a b : List (List (List V))) (h : sh3 a = sh3 b) :
    flat3 (zip3 a b) = List.zipWith (· + ·) (flat3 a) (flat3 b) := by
  induction a generalizing b with
  | nil => simp [flat3, zip3]
  | cons x a ih =>
    cases b with
    | nil => simp [sh3] at h
    | cons y b =>
      simp only [sh3, List.map_cons, List.cons.injEq] at h
      have := ih b h.2
      simp only [flat3, zip3, List.zipWith_cons_cons, List.map_cons, List.flatten_cons] at this ⊢
      rw [this, flatten_zipWith_zipWith x y h.1,
        List.zipWith_append (sum_map_length_eq x y h.1)]

theorem sh3_zip3 (a b : List (List (List V))) (h : sh3 a = sh3 b) : sh3 (zip3 a b) = sh3 a := by
  induction a generalizing b with
  | nil => simp [sh3, zip3]
  | cons x a ih =>
    cases b with
    | nil => simp [sh3] at h
    | cons y b =>
      simp only [sh3, List.map_cons, List.cons.injEq] at h
      have := ih b h.2
      simp only [sh3, zip3, List.zipWith_cons_cons, List.map_cons] at this ⊢
      rw [this, map_length_zipWith_zipWith x y h.1]

theorem flat3_foldl_zip3 (ts : List (List (List (List V)))) (t : List (List (List V)))
    (h : ∀ u ∈ ts, sh3 u = sh3 t) :
    flat3 (ts.foldl zip3 t) = (ts.map flat3).foldl (List.zipWith (· + ·)) (flat3 t) ∧
      sh3 (ts.foldl zip3 t) = sh3 t := by
  induction ts generalizing t with
  | nil => simp
  | cons u ts ih =>
    have hu : sh3 t = sh3 u := (h u (by simp)).symm
    have hs : sh3 (zip3 t u) = sh3 t := sh3_zip3 t u hu
    have := ih (zip3 t u) (fun w hw => by rw [hs]; exact h w (by simp [hw]))
    simp only [List.foldl_cons, List.map_cons]
    rw [this.1, this.2, hs, flat3_zip3 t u hu]
    exact ⟨rfl, rfl⟩

/-- folding `zipWith (+)` over equally long rows adds position by position -/
theorem foldl_zipWith_getElem? (fs : List (List V)) (f0 : List V) (N j : Nat) (hj : j < N)
    (h0 : f0.length = N) (h : ∀ f ∈ fs, f.length = N) :
    (fs.foldl (List.zipWith (· + ·)) f0)[j]? = some (((f0 :: fs).map fun f => f.getD j 0).sum) := by
  induction fs generalizing f0 with
  | nil =>
    simp only [List.foldl_nil, List.map_cons, List.map_nil, List.sum_cons, List.sum_nil, add_zero]
    rw [List.getD_eq_getElem?_getD, List.getElem?_eq_getElem (by omega)]
    rfl
  | cons f fs ih =>
    have hf : f.length = N := h f (by simp)
    have hlen : (List.zipWith (· + ·) f0 f).length = N := by simp [h0, hf]
    rw [List.foldl_cons, ih _ hlen (fun g hg => h g (by simp [hg]))]
    simp only [List.map_cons, List.sum_cons]
    have : (List.zipWith (· + ·) f0 f).getD j 0 = f0.getD j 0 + f.getD j 0 := by
      simp only [List.getD_eq_getElem?_getD, List.getElem?_zipWith]
      rw [List.getElem?_eq_getElem (by omega : j < f0.length),
        List.getElem?_eq_getElem (by omega : j < f.length)]
      rfl
    rw [this, add_assoc]

theorem sh3_of_rect {T : List (List (List (List V)))} {L M K P : Nat} (h : Rect4 T L M K P)
    (a : List (List (List V))) (ha : a ∈ T) : sh3 a = List.replicate M (List.replicate K P) := by
  unfold sh3
  apply List.ext_getElem
  · simp [h.r3.l1 a ha]
  · intro i h1 h2
    simp only [List.getElem_map, List.getElem_replicate]
    have hb : a[i]'(by simpa using h1) ∈ a := List.getElem_mem _
    apply List.ext_getElem
    · simp [h.r3.l2 a ha _ hb]
    · intro j h3 h4
      simp only [List.getElem_map, List.getElem_replicate]
      exact h.l3 a ha _ hb _ (List.getElem_mem _)

/-- `np.sum(B, axis=0, keepdims=True)` of a rectangular array keeps the block shape -/
theorem sumupT_rect {T : List (List (List (List V)))} {L M K P : Nat} (h : Rect4 T L M K P)
    (hL : 0 < L) : Rect4 (sumupT T) 1 M K P := by
  cases T with
  | nil => have := h.r3.len; simp at this; omega
  | cons t ts =>
    have hsh : ∀ u ∈ ts, sh3 u = sh3 t := fun u hu => by
      rw [sh3_of_rect h u (by simp [hu]), sh3_of_rect h t (by simp)]
    have hfold : sh3 (ts.foldl zip3 t) = List.replicate M (List.replicate K P) := by
      rw [(flat3_foldl_zip3 ts t hsh).2, sh3_of_rect h t (by simp)]
    have hlen : (ts.foldl zip3 t).length = M := by
      have := congrArg List.length hfold
      simpa [sh3] using this
    have hrow : ∀ b ∈ ts.foldl zip3 t, b.map List.length = List.replicate K P := by
      intro b hb
      obtain ⟨i, hi, rfl⟩ := List.getElem_of_mem hb
      have := congrArg (fun l => l[i]?) hfold
      simp only [sh3, List.getElem?_map, List.getElem?_eq_getElem hi, Option.map_some,
        List.getElem?_replicate] at this
      split at this
      · exact Option.some.inj this
      · cases this
    refine ⟨⟨by simp [sumupT], ?_, ?_⟩, ?_⟩
    · intro a ha
      simp only [sumupT, List.mem_singleton] at ha
      subst ha; exact hlen
    · intro a ha b hb
      simp only [sumupT, List.mem_singleton] at ha
      subst ha
      have := congrArg List.length (hrow b hb)
      simpa using this
    · intro a ha b hb c hc
      simp only [sumupT, List.mem_singleton] at ha
      subst ha
      obtain ⟨i, hi, rfl⟩ := List.getElem_of_mem hc
      have := congrArg (fun l => l[i]?) (hrow b hb)
      simp only [List.getElem?_map, List.getElem?_eq_getElem hi, Option.map_some,
        List.getElem?_replicate] at this
      split at this
      · exact Option.some.inj this
      · cases this

/-- **sumup**: flat element `j` of the summed array is the sum over the source axis of the flat
elements `l * N + j` of the unsummed array (`N` = size of one source block) -/
theorem sumupT_getElem? {T : List (List (List (List V)))} {L M K P : Nat} (h : Rect4 T L M K P)
    (hL : 0 < L) (j : Nat) (hj : j < M * (K * P)) :
    (flat4 (sumupT T))[j]? =
      some (((List.range L).map fun l => (flat4 T).getD (l * (M * (K * P)) + j) 0).sum) := by
  have hblock : ∀ a ∈ T, (flat3 a).length = M * (K * P) := fun a ha =>
    flat3_length a M K P (h.r3.l1 a ha) (h.r3.l2 a ha) (h.l3 a ha)
  have hrange : (List.range L).map (fun l => (flat4 T).getD (l * (M * (K * P)) + j) 0) =
      T.map fun a => (flat3 a).getD j 0 := by
    apply List.ext_getElem
    · simp [h.r3.len]
    · intro l h1 h2
      have hl : l < T.length := by simpa using h2
      simp only [List.getElem_map, List.getElem_range, List.getD_eq_getElem?_getD]
      rw [flat4_block_getElem? h l j hj, List.getElem?_eq_getElem hl]
      rfl
  rw [hrange]
  cases T with
  | nil => have := h.r3.len; simp at this; omega
  | cons t ts =>
    have hsh : ∀ u ∈ ts, sh3 u = sh3 t := fun u hu => by
      rw [sh3_of_rect h u (by simp [hu]), sh3_of_rect h t (by simp)]
    have hflat : flat4 (sumupT (t :: ts)) = flat3 (ts.foldl zip3 t) := by
      simp only [flat4_eq, sumupT, List.map_cons, List.map_nil, List.flatten_cons, List.flatten_nil,
        List.append_nil]
      rfl
    rw [hflat, (flat3_foldl_zip3 ts t hsh).1,
      foldl_zipWith_getElem? (ts.map flat3) (flat3 t) (M * (K * P)) j hj (hblock t (by simp))
        (by intro f hf
            obtain ⟨a, ha, rfl⟩ := List.mem_map.mp hf
            exact hblock a (by simp [ha]))]
    simp [List.map_map, Function.comp_def]
end sumup

/-! ### the error exits and the value of `level2Core` -/
section core
variable [Mul G] [Inv G] [One G] [SMul G V] [Add V] [Sub V] [Zero V] [BEq G]

/-- the inputs getBH_level2 rejects: no sources, no observers, a collection without any source,
or different pixel shapes without pixel_agg -/
def BadInput (entries : List (Entry G V)) (sensors : List (Sens G V)) (agg : Agg) : Prop :=
  entries = [] ∨ sensors = [] ∨ (∃ e ∈ entries, e.leaves = []) ∨
    (agg = .none ∧ ∃ k ∈ sensors, ∃ k' ∈ sensors, k.pixShape ≠ k'.pixShape)

theorem allSame_iff (sensors : List (Sens G V)) :
    ((sensors.map (·.pixShape)).all (· == (sensors.map (·.pixShape)).headD [])) = true ↔
      ∀ k ∈ sensors, ∀ k' ∈ sensors, k.pixShape = k'.pixShape := by
  cases sensors with
  | nil => simp
  | cons k0 ks =>
    simp only [List.map_cons, List.headD_cons, List.all_eq_true, beq_iff_eq]
    constructor
    · intro h k hk k' hk'
      have h1 := h k.pixShape (by
        rw [← List.map_cons (f := fun k : Sens G V => k.pixShape)]; exact List.mem_map_of_mem hk)
      have h2 := h k'.pixShape (by
        rw [← List.map_cons (f := fun k : Sens G V => k.pixShape)]; exact List.mem_map_of_mem hk')
      rw [h1, h2]
    · intro h x hx
      rw [← List.map_cons (f := fun k : Sens G V => k.pixShape)] at hx
      obtain ⟨k, hk, rfl⟩ := List.mem_map.mp hx
      exact h k hk k0 (by simp)

theorem level2Core_error_iff (flipX : V → V) (vmin vmax : V → V → V) (entries : List (Entry G V))
    (sensors : List (Sens G V)) (sumup : Bool) (agg : Agg) (err : Err) :
    level2Core flipX vmin vmax entries sensors sumup agg = .error err ↔
      err = .badUserInput ∧ BadInput entries sensors agg := by
  have hall := allSame_iff sensors
  unfold level2Core BadInput
  by_cases h1 : (entries.isEmpty || sensors.isEmpty || entries.any fun e => e.leaves.isEmpty) = true
  · rw [if_pos h1]
    simp only [Bool.or_eq_true, List.isEmpty_iff, List.any_eq_true] at h1
    constructor
    · intro h
      refine ⟨by cases h; rfl, ?_⟩
      rcases h1 with (h1 | h1) | h1
      · exact Or.inl h1
      · exact Or.inr (Or.inl h1)
      · exact Or.inr (Or.inr (Or.inl h1))
    · rintro ⟨rfl, _⟩; rfl
  · rw [if_neg h1]
    simp only [Bool.or_eq_true, List.isEmpty_iff, List.any_eq_true, not_or, not_exists, not_and] at h1
    obtain ⟨⟨hE, hS⟩, hC⟩ := h1
    by_cases h2 : (agg == Agg.none && !((sensors.map (·.pixShape)).all
        (· == (sensors.map (·.pixShape)).headD []))) = true
    · simp only [] at h2 ⊢
      rw [if_pos h2]
      simp only [Bool.and_eq_true, beq_iff_eq, Bool.not_eq_true'] at h2
      constructor
      · intro h
        refine ⟨by cases h; rfl, Or.inr (Or.inr (Or.inr ⟨h2.1, ?_⟩))⟩
        by_contra hcon
        have : ∀ k ∈ sensors, ∀ k' ∈ sensors, k.pixShape = k'.pixShape := by
          intro k hk k' hk'
          by_contra hne
          exact hcon ⟨k, hk, k', hk', hne⟩
        rw [hall.mpr this] at h2
        exact Bool.noConfusion h2.2
      · rintro ⟨rfl, _⟩; rfl
    · simp only [] at h2 ⊢
      rw [if_neg h2]
      simp only [Bool.and_eq_true, beq_iff_eq, Bool.not_eq_true', not_and, Bool.not_eq_false] at h2
      constructor
      · intro h; cases agg <;> cases h
      · rintro ⟨_, hbad⟩
        exfalso
        rcases hbad with h | h | ⟨e, he, hl⟩ | ⟨ha, k, hk, k', hk', hne⟩
        · exact hE h
        · exact hS h
        · exact hC e he (by simp [hl])
        · exact hne ((hall.mp (h2 ha)) k hk k' hk')

/-- value of the shared part of getBH_level2 on accepted input -/
theorem level2Core_ok (flipX : V → V) (vmin vmax : V → V → V) (entries : List (Entry G V))
    (sensors : List (Sens G V)) (sumup : Bool) (agg : Agg) (hok : ¬ BadInput entries sensors agg) :
    level2Core flipX vmin vmax entries sensors sumup agg = .ok
      { nsrc := if sumup then 1 else entries.length
        M := pathLen (entries.flatMap Entry.leaves) sensors
        pixShapeOut := if agg = .none then (sensors.map (·.pixShape)).headD [] else []
        B := (if sumup then sumupT else id)
          (if agg = .none then tensor flipX entries sensors
           else aggT agg vmin vmax (tensor flipX entries sensors)) } := by
  cases hc : level2Core flipX vmin vmax entries sensors sumup agg with
  | error err => exact absurd ((level2Core_error_iff _ _ _ _ _ _ _ _).mp hc).2 hok
  | ok c =>
    have hall := allSame_iff sensors
    unfold level2Core at hc
    split at hc
    · cases hc
    · simp only [] at hc
      split at hc
      · cases hc
      · cases agg <;> cases sumup <;> simp_all
end core

/-! ### shape of the tensor -/
section spec
variable [Group G] [AddCommGroup V] [DistribMulAction G V] [BEq G] [LawfulBEq G]

theorem specTensor_rect3 (flipX : V → V) (entries : List (Entry G V)) (sensors : List (Sens G V)) :
    Rect3 (specTensor flipX entries sensors) entries.length
      (pathLen (entries.flatMap Entry.leaves) sensors) sensors.length := by
  refine ⟨by simp [specTensor], ?_, ?_⟩
  · intro a ha
    simp only [specTensor, List.mem_map] at ha
    obtain ⟨e, _, rfl⟩ := ha
    simp
  · intro a ha b hb
    simp only [specTensor, List.mem_map] at ha
    obtain ⟨e, _, rfl⟩ := ha
    simp only [List.mem_map] at hb
    obtain ⟨m, _, rfl⟩ := hb
    simp

theorem specTensor_rect4 (flipX : V → V) (entries : List (Entry G V)) (sensors : List (Sens G V))
    (P : Nat) (hs : ∀ k ∈ sensors, k.WF ∧ pixNum k = P) :
    Rect4 (specTensor flipX entries sensors) entries.length
      (pathLen (entries.flatMap Entry.leaves) sensors) sensors.length P := by
  refine ⟨specTensor_rect3 flipX entries sensors, ?_⟩
  intro a ha b hb c hc
  simp only [specTensor, List.mem_map] at ha
  obtain ⟨e, _, rfl⟩ := ha
  simp only [List.mem_map] at hb
  obtain ⟨m, _, rfl⟩ := hb
  simp only [List.mem_map] at hc
  obtain ⟨k, hk, rfl⟩ := hc
  obtain ⟨⟨h1, h2, h3⟩, h4⟩ := hs k hk
  rw [List.length_map, pixPos_length k h1 h2, h3, h4]
end spec

/-! ### `itertools.product` -/
section product
variable {α β γ δ : Type}

theorem product4_eq_flat4 (as : List α) (bs : List β) (cs : List γ) (ds : List δ) :
    product4 as bs cs ds =
      flat4 (as.map fun a => bs.map fun b => cs.map fun c => ds.map fun d => (a, b, c, d)) := by
  simp only [product4, flat4, List.flatMap_def, List.map_map, Function.comp_def]

theorem product4_length (as : List α) (bs : List β) (cs : List γ) (ds : List δ) :
    (product4 as bs cs ds).length = as.length * (bs.length * (cs.length * ds.length)) := by
  rw [product4_eq_flat4]
  apply flat4_length
  refine ⟨⟨by simp, ?_, ?_⟩, ?_⟩
  · intro x hx; obtain ⟨a, _, rfl⟩ := List.mem_map.mp hx; simp
  · intro x hx y hy
    obtain ⟨a, _, rfl⟩ := List.mem_map.mp hx
    obtain ⟨b, _, rfl⟩ := List.mem_map.mp hy
    simp
  · intro x hx y hy z hz
    obtain ⟨a, _, rfl⟩ := List.mem_map.mp hx
    obtain ⟨b, _, rfl⟩ := List.mem_map.mp hy
    obtain ⟨c, _, rfl⟩ := List.mem_map.mp hz
    simp

/-- the `itertools.product` index runs in row-major order: last factor fastest -/
theorem product4_getElem? (as : List α) (bs : List β) (cs : List γ) (ds : List δ)
    (i j k l : Nat) (a : α) (b : β) (c : γ) (d : δ)
    (hi : as[i]? = some a) (hj : bs[j]? = some b) (hk : cs[k]? = some c) (hl : ds[l]? = some d) :
    (product4 as bs cs ds)[((i * bs.length + j) * cs.length + k) * ds.length + l]? =
      some (a, b, c, d) := by
  have hj' : j < bs.length := (List.getElem?_eq_some_iff.mp hj).1
  have hk' : k < cs.length := (List.getElem?_eq_some_iff.mp hk).1
  have hl' : l < ds.length := (List.getElem?_eq_some_iff.mp hl).1
  rw [product4_eq_flat4, flat4_getElem? (L := as.length) (M := bs.length) (K := cs.length)
    (P := ds.length) _ i j k l hj' hk' hl']
  · simp [List.getElem?_map, hi, hj, hk, hl]
  · refine ⟨⟨by simp, ?_, ?_⟩, ?_⟩
    · intro x hx; obtain ⟨a, _, rfl⟩ := List.mem_map.mp hx; simp
    · intro x hx y hy
      obtain ⟨a, _, rfl⟩ := List.mem_map.mp hx
      obtain ⟨b, _, rfl⟩ := List.mem_map.mp hy
      simp
    · intro x hx y hy z hz
      obtain ⟨a, _, rfl⟩ := List.mem_map.mp hx
      obtain ⟨b, _, rfl⟩ := List.mem_map.mp hy
      obtain ⟨c, _, rfl⟩ := List.mem_map.mp hz
      simp
end product

/-! ### `getBH` and `dataframe` in closed form -/
section out
variable [Mul G] [Inv G] [One G] [SMul G V] [Add V] [Sub V] [Zero V] [BEq G]

/-- B after pixel_agg and sumup -/
def coreB (flipX : V → V) (vmin vmax : V → V → V) (entries : List (Entry G V))
    (sensors : List (Sens G V)) (sumup : Bool) (agg : Agg) : List (List (List (List V))) :=
  (if sumup then sumupT else id)
    (if agg = .none then tensor flipX entries sensors
     else aggT agg vmin vmax (tensor flipX entries sensors))

/-- shape of B after pixel_agg and sumup -/
def shape0 (entries : List (Entry G V)) (sensors : List (Sens G V)) (sumup : Bool) (agg : Agg) :
    List Nat :=
  [if sumup then 1 else entries.length, pathLen (entries.flatMap Entry.leaves) sensors,
    sensors.length] ++ (if agg = .none then (sensors.map (·.pixShape)).headD [] else [])

theorem getBH_ok (flipX : V → V) (vmin vmax : V → V → V) (entries : List (Entry G V))
    (sensors : List (Sens G V)) (sumup squeeze : Bool) (agg : Agg)
    (hok : ¬ BadInput entries sensors agg) :
    getBH flipX vmin vmax entries sensors sumup squeeze agg = .ok
      { shape := if squeeze then (shape0 entries sensors sumup agg).filter (· ≠ 1)
                 else if agg = .none then shape0 entries sensors sumup agg
                 else shape0 entries sensors sumup agg ++ [1]
        data := flat4 (coreB flipX vmin vmax entries sensors sumup agg) } := by
  unfold getBH
  rw [level2Core_ok flipX vmin vmax entries sensors sumup agg hok]
  cases agg <;> cases squeeze <;> simp [shape0, coreB]

theorem getBH_error_iff (flipX : V → V) (vmin vmax : V → V → V) (entries : List (Entry G V))
    (sensors : List (Sens G V)) (sumup squeeze : Bool) (agg : Agg) (err : Err) :
    getBH flipX vmin vmax entries sensors sumup squeeze agg = .error err ↔
      err = .badUserInput ∧ BadInput entries sensors agg := by
  rw [← level2Core_error_iff flipX vmin vmax entries sensors sumup agg err]
  unfold getBH
  cases level2Core flipX vmin vmax entries sensors sumup agg <;> simp

theorem not_bad_of_getBH_ok {flipX : V → V} {vmin vmax : V → V → V} {entries : List (Entry G V)}
    {sensors : List (Sens G V)} {sumup squeeze : Bool} {agg : Agg} {out : Out V}
    (h : getBH flipX vmin vmax entries sensors sumup squeeze agg = .ok out) :
    ¬ BadInput entries sensors agg := by
  intro hbad
  have := (getBH_error_iff flipX vmin vmax entries sensors sumup squeeze agg .badUserInput).mpr
    ⟨rfl, hbad⟩
  rw [this] at h
  cases h

/-- source ids of the dataframe -/
def srcIds (entries : List (Entry G V)) (sumup : Bool) : List SrcId :=
  if sumup && entries.length > 1 then [.sumup entries.length]
  else (List.range entries.length).map .src

theorem dataframe_ok (flipX : V → V) (vmin vmax : V → V → V) (entries : List (Entry G V))
    (sensors : List (Sens G V)) (sumup : Bool) (agg : Agg)
    (hok : ¬ BadInput entries sensors agg) :
    dataframe flipX vmin vmax entries sensors sumup agg = .ok
      { index := product4 (srcIds entries sumup)
          (List.range (pathLen (entries.flatMap Entry.leaves) sensors)) (List.range sensors.length)
          (List.range (if agg = .none then ((sensors.map (·.pixShape)).headD []).foldl (· * ·) 1 else 1))
        values := flat4 (coreB flipX vmin vmax entries sensors sumup agg) } := by
  unfold dataframe
  rw [level2Core_ok flipX vmin vmax entries sensors sumup agg hok]
  cases agg <;> simp [srcIds, coreB]

theorem dataframe_error_iff (flipX : V → V) (vmin vmax : V → V → V) (entries : List (Entry G V))
    (sensors : List (Sens G V)) (sumup : Bool) (agg : Agg) (err : Err) :
    dataframe flipX vmin vmax entries sensors sumup agg = .error err ↔
      err = .badUserInput ∧ BadInput entries sensors agg := by
  rw [← level2Core_error_iff flipX vmin vmax entries sensors sumup agg err]
  unfold dataframe
  cases level2Core flipX vmin vmax entries sensors sumup agg <;> simp

theorem headD_pixShape (sensors : List (Sens G V)) (k0 : Sens G V) (h : sensors.head? = some k0) :
    (sensors.map (·.pixShape)).headD [] = k0.pixShape := by
  cases sensors with
  | nil => cases h
  | cons k ks => simp only [List.head?_cons, Option.some.injEq] at h; subst h; rfl

theorem srcIds_length (entries : List (Entry G V)) (sumup : Bool) (h : entries ≠ []) :
    (srcIds entries sumup).length = if sumup then 1 else entries.length := by
  have : 0 < entries.length := List.length_pos_iff.mpr h
  unfold srcIds
  cases sumup
  · simp
  · by_cases h1 : entries.length > 1
    · simp [h1]
    · have : entries.length = 1 := by omega
      simp [this]

theorem srcIds_getElem? (entries : List (Entry G V)) (sumup : Bool) (l : Nat)
    (hl : l < if sumup then 1 else entries.length) (h : entries ≠ []) :
    (srcIds entries sumup)[l]? =
      some (if sumup = true ∧ entries.length > 1 then .sumup entries.length else .src l) := by
  have hpos : 0 < entries.length := List.length_pos_iff.mpr h
  unfold srcIds
  cases sumup
  · simp only [Bool.false_eq_true, if_false] at hl
    simp [hl]
  · simp only [if_true] at hl
    have : l = 0 := by omega
    subst this
    by_cases h1 : entries.length > 1
    · simp [h1]
    · have : entries.length = 1 := by omega
      simp [this]
end out

section rect
variable [Group G] [AddCommGroup V] [DistribMulAction G V] [BEq G] [LawfulBEq G]

theorem pixNum_eq_prod (k : Sens G V) : pixNum k = k.pixShape.prod := by
  unfold pixNum; rw [List.prod_eq_foldl]

theorem pixNum_congr (k k' : Sens G V) (h : k.pixShape = k'.pixShape) : pixNum k = pixNum k' := by
  unfold pixNum; rw [h]

/-- the array the library returns is rectangular, with the documented axis lengths -/
theorem coreB_rect (flipX : V → V) (vmin vmax : V → V → V) (entries : List (Entry G V))
    (sensors : List (Sens G V)) (sumup : Bool) (agg : Agg)
    (hok : ¬ BadInput entries sensors agg) (hs : ∀ k ∈ sensors, k.WF)
    (k0 : Sens G V) (hk0 : sensors.head? = some k0) :
    Rect4 (coreB flipX vmin vmax entries sensors sumup agg)
      (if sumup then 1 else entries.length) (pathLen (entries.flatMap Entry.leaves) sensors)
      sensors.length (if agg = .none then pixNum k0 else 1) := by
  have he : ∀ e ∈ entries, e.leaves ≠ [] := fun e he hl => hok (Or.inr (Or.inr (Or.inl ⟨e, he, hl⟩)))
  have hL : 0 < entries.length := List.length_pos_iff.mpr (fun h => hok (Or.inl h))
  have hk0mem : k0 ∈ sensors := List.mem_of_mem_head? (by rw [hk0]; rfl)
  have hbase : Rect4 (if agg = .none then tensor flipX entries sensors
      else aggT agg vmin vmax (tensor flipX entries sensors)) entries.length
      (pathLen (entries.flatMap Entry.leaves) sensors) sensors.length
      (if agg = .none then pixNum k0 else 1) := by
    rw [tensor_eq_spec flipX entries sensors he hs]
    by_cases ha : agg = .none
    · simp only [ha, if_true]
      apply specTensor_rect4
      intro k hk
      refine ⟨hs k hk, pixNum_congr k k0 ?_⟩
      by_contra hne
      exact hok (Or.inr (Or.inr (Or.inr ⟨ha, k, hk, k0, hk0mem, hne⟩)))
    · simp only [ha, if_false]
      exact aggT_rect agg vmin vmax (specTensor_rect3 flipX entries sensors)
  unfold coreB
  cases sumup
  · simpa using hbase
  · simp only [if_true]
    exact sumupT_rect hbase hL

/-- one element of the specification tensor, spelled out -/
theorem specTensor_elem (flipX : V → V) (entries : List (Entry G V)) (sensors : List (Sens G V))
    (i m n j : Nat) (e : Entry G V) (k : Sens G V) (r : G) (p px : V)
    (hi : entries[i]? = some e) (hm : m < pathLen (entries.flatMap Entry.leaves) sensors)
    (hn : sensors[n]? = some k) (hr : clampGet k.ori m = some r) (hp : clampGet k.pos m = some p)
    (hj : k.pixels[j]? = some px) :
    ((((specTensor flipX entries sensors)[i]?.bind (·[m]?)).bind (·[n]?)).bind (·[j]?)) =
      some (let v := r⁻¹ • ((e.leaves.map fun s => level1 s m (r • px + p)).sum)
            if k.left then flipX v else v) := by
  unfold specTensor
  simp only [List.getElem?_map, hi, Option.map_some, Option.bind_some, List.getElem?_range hm, hn]
  simp only [pixPos, hr, hp, List.getElem?_map, hj, Option.map_some, specValue, sensT]

/-- the pixel list of the specification tensor for (entry, path index, sensor) -/
theorem specTensor_pixels (flipX : V → V) (entries : List (Entry G V)) (sensors : List (Sens G V))
    (i m n : Nat) (e : Entry G V) (k : Sens G V)
    (hi : entries[i]? = some e) (hm : m < pathLen (entries.flatMap Entry.leaves) sensors)
    (hn : sensors[n]? = some k) :
    (((specTensor flipX entries sensors)[i]?.bind (·[m]?)).bind (·[n]?)) =
      some ((pixPos k m).map (specValue flipX e k m)) := by
  unfold specTensor
  simp only [List.getElem?_map, hi, Option.map_some, Option.bind_some, List.getElem?_range hm, hn]
end rect

/-! ### a concrete scene for the non-vacuity examples of Props/C04–C07 -/
namespace Example
/-- one bare source, one collection of two (one of them with a 2-step path) -/
def exEntries : List (Entry (M3 Int) (V3 Int)) :=
  [.leaf { pos := [⟨1, 0, 0⟩], ori := [1], F := fun x => x },
   .coll [.leaf { pos := [⟨0, 1, 0⟩, ⟨0, 2, 0⟩], ori := [1, 1], F := fun x => x + x },
          .leaf { pos := [⟨0, 0, 1⟩], ori := [1], F := fun _ => ⟨1, 1, 1⟩ }]]
/-- two sensors with pixel shape (2,), the first left-handed -/
def exSensors : List (Sens (M3 Int) (V3 Int)) :=
  [{ pos := [⟨5, 0, 0⟩], ori := [1], pixels := [⟨0, 0, 0⟩, ⟨1, 0, 0⟩], pixShape := [2], left := true },
   { pos := [⟨0, 5, 0⟩], ori := [1], pixels := [⟨0, 0, 0⟩, ⟨0, 0, 1⟩], pixShape := [2], left := false }]
/-- the same sensors, the second with three pixels (only usable with pixel_agg) -/
def exSensorsMixed : List (Sens (M3 Int) (V3 Int)) :=
  [{ pos := [⟨5, 0, 0⟩], ori := [1], pixels := [⟨0, 0, 0⟩, ⟨1, 0, 0⟩], pixShape := [2], left := true },
   { pos := [⟨0, 5, 0⟩], ori := [1], pixels := [⟨0, 0, 0⟩, ⟨0, 0, 1⟩, ⟨0, 0, 2⟩], pixShape := [3],
     left := false }]
def exFlip (a : V3 Int) : V3 Int := ⟨-a.x, a.y, a.z⟩
def exMin (a b : V3 Int) : V3 Int := ⟨min a.x b.x, min a.y b.y, min a.z b.z⟩
def exMax (a b : V3 Int) : V3 Int := ⟨max a.x b.x, max a.y b.y, max a.z b.z⟩

theorem exNotBad (agg : Agg) : ¬ BadInput exEntries exSensors agg := by
  simp [BadInput, exEntries, exSensors, Entry.leaves]

theorem exNotBadMixed (agg : Agg) (h : agg ≠ .none) : ¬ BadInput exEntries exSensorsMixed agg := by
  simp [BadInput, exEntries, exSensorsMixed, Entry.leaves, h]

theorem exBadMixed : BadInput exEntries exSensorsMixed .none := by
  refine Or.inr (Or.inr (Or.inr ⟨rfl, ?_⟩))
  simp [exSensorsMixed]

theorem exPathLen : pathLen (exEntries.flatMap Entry.leaves) exSensors = 2 := by
  simp [pathLen, exEntries, exSensors, Entry.leaves]

theorem exPathLenMixed : pathLen (exEntries.flatMap Entry.leaves) exSensorsMixed = 2 := by
  simp [pathLen, exEntries, exSensorsMixed, Entry.leaves]
end Example

end MagpyVerif.Level2
