/- Lemmas/TrimeshSum.lean — BHJM_magnet_trimesh for a batch equals its one-row version mapped over the rows -/
import MagpyVerif.Model.TrimeshSum
import MagpyVerif.Lemmas.Polyline
import MagpyVerif.Lemmas.TrimeshBatch
namespace MagpyVerif.Kern
variable {α : Type} [Num α]

def meshRowSegs (r : MeshRow α) : List (V3 α) := r.faces.map fun t => triangleB t.1 t.2.1 t.2.2 r.pol r.obs

theorem meshFlat_eq (rows : List (MeshRow α)) : meshFlat rows = (rows.map meshRowSegs).flatten := by
  unfold meshFlat
  simp only
  rw [zip_flatMap rows _ _ (by intro i _; simp)]
  rw [zip_flatMap rows _ _ (by intro i _; simp)]
  rw [List.map_flatMap, List.flatMap_def]
  congr 1
  apply List.map_congr_left
  intro r _
  simp only [meshRowSegs]
  apply List.ext_getElem
  · simp
  · intro n h1 h2
    simp

theorem meshSumRagged_rowwise (rows : List (MeshRow α)) : meshSumRagged rows = rows.map meshRowSheets := by
  unfold meshSumRagged
  rw [meshFlat_eq]
  have : (rows.map fun r => r.faces.length) = (rows.map meshRowSegs).map List.length := by
    simp [meshRowSegs]
  rw [this, splitLens_flatten]
  simp [meshRowSheets, meshRowSegs]

theorem meshSumEqual_rowwise (n1 : Nat) (rows : List (MeshRow α)) (h : ∀ r ∈ rows, r.faces.length = n1) :
    meshSumEqual n1 rows = rows.map meshRowSheets := by
  rw [← meshSumRagged_rowwise]
  unfold meshSumEqual meshSumRagged
  congr 2
  apply List.ext_getElem
  · simp
  · intro n h1 h2
    simp only [List.getElem_replicate, List.getElem_map]
    rw [h _ (List.getElem_mem _)]

theorem meshSheets_rowwise (rows : List (MeshRow α)) : meshSheets rows = rows.map meshRowSheets := by
  cases rows with
  | nil => rfl
  | cons r0 rest =>
    simp only [meshSheets]
    split
    · rename_i hall
      apply meshSumEqual_rowwise
      intro r hr
      have := List.all_eq_true.mp hall r hr
      simpa using this
    · exact meshSumRagged_rowwise _

theorem zip_map_self {β γ : Type} (l : List β) (g : β → γ) : l.zip (l.map g) = l.map fun x => (x, g x) := by
  induction l with
  | nil => rfl
  | cons x xs ih => simp [ih]

/-- what `BHJM_magnet_trimesh` gives one row evaluated alone (same operations, one row) -/
def bhjmTrimeshRow {M : Type} (f : Field) (meshId : MeshRow α → M) (inside : M → V3 α → Bool) (r : MeshRow α) : V3 α :=
  match f with
  | .H => vd (meshRowSheets r) Num.mu0
  | .B => if inside (meshId r) r.obs then meshRowSheets r + r.pol else meshRowSheets r
  | .J => if inside (meshId r) r.obs then zero3 + r.pol else zero3
  | .M => vd (if inside (meshId r) r.obs then zero3 + r.pol else zero3) Num.mu0

theorem bhjmTrimesh_rowwise {M : Type} [DecidableEq M] (f : Field) (meshId : MeshRow α → M) (inside : M → V3 α → Bool)
    (rows : List (MeshRow α)) :
    bhjmTrimesh f meshId inside rows = rows.map (bhjmTrimeshRow f meshId inside) := by
  cases f <;>
    simp only [bhjmTrimesh, meshSheets_rowwise, Trimesh.addInside_rowwise, zip_map_self, List.map_map] <;>
    (apply List.map_congr_left; intro r _; simp [bhjmTrimeshRow, Trimesh.rowwise, Function.comp])

end MagpyVerif.Kern
