/- the generated `pathPaddingParam` against the documented window (re-proved on every run
against whatever /repo's source translates to) -/
import MagpyVerif.Gen.PathPad
import MagpyVerif.Model.Path
import MagpyVerif.Spec.PathSpec

namespace MagpyVerif
open Gen Spec

/-- closed form of the translated `path_padding_param` over all integer arguments -/
theorem pathPaddingParam_int (scalar : Bool) (n l : Int) (start : Option Int)
    (hn : 0 ≤ n) (hl : 0 ≤ l) :
    let r := pathPaddingParam scalar n l start
    let s := normStart scalar n start
    let pb := max 0 (-s)
    let pe := max 0 (max 0 s + l - (n + pb))
    r.2 = max 0 s ∧ r.1 = if pb + pe > 0 then some (pb, pe) else none := by
  intro r s pb pe
  simp only [r, s, pb, pe, pathPaddingParam, normStart]
  cases start <;> cases scalar <;> simp <;> (repeat' split) <;> (try simp) <;> (try omega)

/-- … and in the `Nat` form the path model consumes -/
theorem pathPaddingParam_spec (scalar : Bool) (n l : Nat) (start : Option Int)
    (hl : scalar = true → l = 1) :
    let r := pathPaddingParam scalar n l start
    let w := window scalar n l start
    (padOf r.1).1 = w.b ∧ r.2.toNat = w.s0 ∧ 0 ≤ r.2 ∧
    n + (padOf r.1).1 + (padOf r.1).2 = w.newLen ∧ w.s0 + l ≤ w.newLen := by
  intro r w
  have h := pathPaddingParam_int scalar n l start (by omega) (by omega)
  simp only at h
  obtain ⟨h2, h1⟩ := h
  have hw : w = window scalar n l start := rfl
  simp only [window] at hw
  generalize normStart scalar (↑n) start = s at *
  simp only [r, h1, h2, hw]
  cases scalar
  · simp only [Bool.false_eq_true, if_false]
    split <;> simp only [padOf] <;> omega
  · have := hl rfl; subst this
    simp only [if_true]
    split <;> simp only [padOf] <;> omega

end MagpyVerif
