/-
Lemmas/CelAGM.lean — termination of the Bulirsch `cel` loops (`cel_iter0`, `cel0` of
special_cel.py; models `celIter`, `cel0Loop` of Model/Kernels.lean) in exact real arithmetic.

The loops' control variables evolve as  k' = 2√kk, kk' = k'·em, g' = em, em' = em + k'.
After one step (and from the start in every call the library makes) `em = g + k`, `kk = k·g`
hold, and the pair (a, b) = (g, k) moves by the doubled arithmetic–geometric-mean step
  a' = a + b,   b' = 2√(b a).
With s = √a, t = √b:  a' − b' = (s − t)² ≤ |s − t|(s + t) = |a − b|  and  b' = 2st ≥ 2·min(a, b),
b' ≤ a'.  So if |a − b| ≤ D·min(a, b) then |a' − b'| ≤ (D/2)·min(a', b'): the relative gap at
least halves per step, and the exit tests `|g − qc| < qc·1e-8` / `|g − k| ≤ g·1e-6` are met as
soon as D·2⁻ⁿ is below the tolerance.
-/
import Mathlib.Analysis.SpecialFunctions.Pow.Real
import Mathlib.Analysis.SpecialFunctions.Log.Basic
import Mathlib.Tactic
import MagpyVerif.Lemmas.KernReal

namespace MagpyVerif.Kern
open Classical

/-! ### the doubled AGM step -/

theorem agm_step_sq {s t : ℝ} (hs : 0 < s) (ht : 0 < t) :
    2 * min (s * s) (t * t) ≤ 2 * (t * s) ∧ |s * s + t * t - 2 * (t * s)| ≤ |s * s - t * t| := by
  constructor
  · rcases le_total s t with h | h
    · have : s * s ≤ t * t := by nlinarith
      rw [min_eq_left this]; nlinarith
    · have : t * t ≤ s * s := by nlinarith
      rw [min_eq_right this]; nlinarith
  · have e1 : s * s + t * t - 2 * (t * s) = |s - t| * |s - t| := by
      rw [abs_mul_abs_self]; ring
    have e2 : s * s - t * t = (s - t) * (s + t) := by ring
    have hst : |s - t| ≤ s + t := by
      rw [abs_le]; constructor <;> linarith
    rw [e2, abs_mul, abs_of_pos (by linarith : 0 < s + t), e1,
      abs_of_nonneg (mul_nonneg (abs_nonneg _) (abs_nonneg _))]
    exact mul_le_mul_of_nonneg_left hst (abs_nonneg _)

/-- one step `(a, b) ↦ (a + b, 2√(b a))` on positive reals: the new pair is positive and ordered,
the absolute gap does not grow and the smaller entry at least doubles -/
theorem agm_step {a b : ℝ} (ha : 0 < a) (hb : 0 < b) :
    0 < 2 * √(b * a) ∧ 2 * √(b * a) ≤ a + b ∧ 2 * min a b ≤ 2 * √(b * a) ∧
      |a + b - 2 * √(b * a)| ≤ |a - b| := by
  have hs : 0 < √a := Real.sqrt_pos.2 ha
  have ht : 0 < √b := Real.sqrt_pos.2 hb
  have hsa : a = √a * √a := (Real.mul_self_sqrt ha.le).symm
  have htb : b = √b * √b := (Real.mul_self_sqrt hb.le).symm
  have hm : √(b * a) = √b * √a := Real.sqrt_mul hb.le a
  rw [hm]
  obtain ⟨h1, h2⟩ := agm_step_sq hs ht
  rw [← hsa, ← htb] at h1 h2
  refine ⟨by positivity, ?_, h1, h2⟩
  nlinarith [sq_nonneg (√a - √b)]

/-- the invariant propagated by one step: relative gap `D` becomes `D / 2` -/
theorem agm_gap_halves {a b D : ℝ} (ha : 0 < a) (hb : 0 < b) (hD : |a - b| ≤ D * min a b) :
    |a + b - 2 * √(b * a)| ≤ D / 2 * min (a + b) (2 * √(b * a)) := by
  obtain ⟨_, h2, h3, h4⟩ := agm_step ha hb
  have hmin : 0 < min a b := lt_min ha hb
  have hD0 : 0 ≤ D := by
    by_contra hneg
    have : D * min a b < 0 := mul_neg_of_neg_of_pos (not_le.mp hneg) hmin
    linarith [abs_nonneg (a - b)]
  rw [min_eq_right h2]
  calc |a + b - 2 * √(b * a)| ≤ |a - b| := h4
    _ ≤ D * min a b := hD
    _ = D / 2 * (2 * min a b) := by ring
    _ ≤ D / 2 * (2 * √(b * a)) := mul_le_mul_of_nonneg_left h3 (by linarith)

/-! ### explicit fuel -/

/-- number of halvings after which a relative gap `D` is below `tol`: the least `n` with
`⌈D / tol⌉ + 1 ≤ 2ⁿ` -/
noncomputable def agmSteps (D tol : ℝ) : ℕ := Nat.clog 2 (⌈D / tol⌉₊ + 1)

theorem agmSteps_spec (D tol : ℝ) (htol : 0 < tol) : D < 2 ^ agmSteps D tol * tol := by
  have h1 : ⌈D / tol⌉₊ + 1 ≤ 2 ^ agmSteps D tol := Nat.le_pow_clog (by norm_num) _
  have h2 : D / tol ≤ (⌈D / tol⌉₊ : ℝ) := Nat.le_ceil _
  have h3 : ((⌈D / tol⌉₊ + 1 : ℕ) : ℝ) ≤ ((2 ^ agmSteps D tol : ℕ) : ℝ) := by exact_mod_cast h1
  have h4 : D / tol < (2 : ℝ) ^ agmSteps D tol := by
    push_cast at h3; linarith
  rwa [div_lt_iff₀ htol] at h4

/-! ### `celIter` (cel_iter0) -/

/-- a result does not depend on the fuel left over: more fuel, same value -/
theorem celIter_fuel_mono (n k : ℕ) : ∀ (qc p g cc ss em kk v : ℝ),
    celIter n qc p g cc ss em kk = some v → celIter (n + k) qc p g cc ss em kk = some v := by
  induction n with
  | zero => intro qc p g cc ss em kk v h; simp [celIter] at h
  | succ m ih =>
    intro qc p g cc ss em kk v h
    rw [show m + 1 + k = (m + k) + 1 by omega]
    rw [celIter] at h ⊢
    split_ifs at h ⊢ with hc
    · exact ih _ _ _ _ _ _ _ _ h
    · exact h

theorem celIter_isSome_mono {n m : ℕ} (hnm : n ≤ m) {qc p g cc ss em kk : ℝ}
    (h : (celIter n qc p g cc ss em kk).isSome) : (celIter m qc p g cc ss em kk).isSome := by
  obtain ⟨v, hv⟩ := Option.isSome_iff_exists.mp h
  obtain ⟨k, rfl⟩ := Nat.exists_eq_add_of_le hnm
  rw [celIter_fuel_mono n k _ _ _ _ _ _ _ v hv]; rfl

/-- the loop invariant `em = g + qc`, `kk = qc·g`, relative gap ≤ `D`, with `D < 2ⁿ·1e-8`:
at most `n` iterations are executed -/
theorem celIter_isSome_of_inv (n : ℕ) : ∀ (D qc p g cc ss em kk : ℝ), 0 < g → 0 < qc →
    em = g + qc → kk = qc * g → |g - qc| ≤ D * min g qc → D < 2 ^ n * (1 / 100000000) →
    (celIter (n + 1) qc p g cc ss em kk).isSome := by
  induction n with
  | zero =>
    intro D qc p g cc ss em kk hg hq _ _ hD hlt
    have hexit : ¬ (qc * (1 / 100000000) ≤ |g - qc|) := by
      have hmin : min g qc ≤ qc := min_le_right _ _
      have hmin0 : 0 < min g qc := lt_min hg hq
      have hD0 : 0 ≤ D := by
        by_contra hneg
        have : D * min g qc < 0 := mul_neg_of_neg_of_pos (not_le.mp hneg) hmin0
        linarith [abs_nonneg (g - qc)]
      have : D * min g qc ≤ D * qc := mul_le_mul_of_nonneg_left hmin hD0
      have : D * qc < 1 / 100000000 * qc := by
        apply mul_lt_mul_of_pos_right _ hq
        simpa using hlt
      linarith
    rw [celIter]
    simp only [Kern.n, ofNat_real, le_real, abs_real, Nat.cast_one, Nat.cast_ofNat, decide_eq_true_eq]
    rw [if_neg hexit]; rfl
  | succ m ih =>
    intro D qc p g cc ss em kk hg hq hem hkk hD hlt
    rw [celIter]
    simp only [Kern.n, ofNat_real, le_real, abs_real, sqrt_real, Nat.cast_one, Nat.cast_ofNat,
      decide_eq_true_eq]
    split_ifs with hc
    · have hem0 : 0 < em := by rw [hem]; linarith
      obtain ⟨h1, _, _, _⟩ := agm_step hg hq
      have hgap := agm_gap_halves hg hq hD
      rw [hkk]
      apply ih (D / 2) _ _ _ _ _ _ _ hem0 h1 rfl (by rw [hem])
      · rw [hem]; exact hgap
      · rw [pow_succ] at hlt; linarith
    · rfl

/-- fuel sufficient for `cel_iter0` started with loop variables `em`, `kk` (any `qc`, `g`):
one step to establish the invariant, then `agmSteps` halvings of the relative gap between
`em` and `2√kk`, then the exit test -/
noncomputable def celFuel (em kk : ℝ) : ℕ :=
  agmSteps (|em - 2 * √kk| / min em (2 * √kk)) (1 / 100000000) + 2

/-- fuel sufficient when the invariant holds at the start with `g = 1` (the Circle call
`qc = q, g = 1, em = 1 + q, kk = q`, and `cel0` with `q = |kc|`) -/
noncomputable def celFuel1 (q tol : ℝ) : ℕ := agmSteps (|1 - q| / min 1 q) tol + 1

theorem celIter_isSome_celFuel (qc p g cc ss em kk : ℝ) (hem : 0 < em) (hkk : 0 < kk) :
    (celIter (celFuel em kk) qc p g cc ss em kk).isSome := by
  unfold celFuel
  rw [celIter]
  simp only [Kern.n, ofNat_real, le_real, abs_real, sqrt_real, Nat.cast_one, Nat.cast_ofNat,
    decide_eq_true_eq]
  split_ifs with hc
  · have hq : 0 < 2 * √kk := by have := Real.sqrt_pos.2 hkk; positivity
    have hmin : 0 < min em (2 * √kk) := lt_min hem hq
    apply celIter_isSome_of_inv _ (|em - 2 * √kk| / min em (2 * √kk)) _ _ _ _ _ _ _ hem hq rfl rfl
    · rw [div_mul_cancel₀ _ hmin.ne']
    · exact agmSteps_spec _ _ (by norm_num)
  · rfl

theorem celIter_isSome_celFuel1 (q p cc ss : ℝ) (hq : 0 < q) :
    (celIter (celFuel1 q (1 / 100000000)) q p 1 cc ss (1 + q) q).isSome := by
  have hmin : 0 < min 1 q := lt_min one_pos hq
  apply celIter_isSome_of_inv _ (|1 - q| / min 1 q) _ _ _ _ _ _ _ one_pos hq rfl (mul_one q).symm
  · rw [div_mul_cancel₀ _ hmin.ne']
  · exact agmSteps_spec _ _ (by norm_num)

/-! ### `cel0Loop`, `cel0` -/

theorem cel0Loop_fuel_mono (n k : ℕ) : ∀ (kc kk cc ss pp g em v : ℝ),
    cel0Loop n kc kk cc ss pp g em = some v → cel0Loop (n + k) kc kk cc ss pp g em = some v := by
  induction n with
  | zero => intro kc kk cc ss pp g em v h; simp [cel0Loop] at h
  | succ m ih =>
    intro kc kk cc ss pp g em v h
    rw [show m + 1 + k = (m + k) + 1 by omega]
    rw [cel0Loop] at h ⊢
    split_ifs at h ⊢ with hc
    · exact ih _ _ _ _ _ _ _ _ h
    · exact h

theorem cel0Loop_isSome_mono {n m : ℕ} (hnm : n ≤ m) {kc kk cc ss pp g em : ℝ}
    (h : (cel0Loop n kc kk cc ss pp g em).isSome) : (cel0Loop m kc kk cc ss pp g em).isSome := by
  obtain ⟨v, hv⟩ := Option.isSome_iff_exists.mp h
  obtain ⟨k, rfl⟩ := Nat.exists_eq_add_of_le hnm
  rw [cel0Loop_fuel_mono n k _ _ _ _ _ _ _ v hv]; rfl

/-- same invariant for the `cel0` loop, whose exit test is `|g − k| ≤ g·1e-6` -/
theorem cel0Loop_isSome_of_inv (n : ℕ) : ∀ (D k kk cc ss pp g em : ℝ), 0 < g → 0 < k →
    em = g + k → kk = k * g → |g - k| ≤ D * min g k → D < 2 ^ n * (1 / 1000000) →
    (cel0Loop (n + 1) k kk cc ss pp g em).isSome := by
  induction n with
  | zero =>
    intro D k kk cc ss pp g em hg hk _ _ hD hlt
    have hexit : ¬ (g * (1 / 1000000) < |g - k|) := by
      have hmin : min g k ≤ g := min_le_left _ _
      have hmin0 : 0 < min g k := lt_min hg hk
      have hD0 : 0 ≤ D := by
        by_contra hneg
        have : D * min g k < 0 := mul_neg_of_neg_of_pos (not_le.mp hneg) hmin0
        linarith [abs_nonneg (g - k)]
      have : D * min g k ≤ D * g := mul_le_mul_of_nonneg_left hmin hD0
      have : D * g < 1 / 1000000 * g := by
        apply mul_lt_mul_of_pos_right _ hg
        simpa using hlt
      linarith
    rw [cel0Loop]
    simp only [Kern.n, ofNat_real, lt_real, abs_real, Nat.cast_one, Nat.cast_ofNat, decide_eq_true_eq]
    rw [if_neg hexit]; rfl
  | succ m ih =>
    intro D k kk cc ss pp g em hg hk hem hkk hD hlt
    rw [cel0Loop]
    simp only [Kern.n, ofNat_real, lt_real, abs_real, sqrt_real, Nat.cast_one, Nat.cast_ofNat,
      decide_eq_true_eq]
    split_ifs with hc
    · have hem0 : 0 < em := by rw [hem]; linarith
      obtain ⟨h1, _, _, _⟩ := agm_step hg hk
      have hgap := agm_gap_halves hg hk hD
      rw [hkk]
      apply ih (D / 2) _ _ _ _ _ _ _ hem0 h1 (add_comm _ _) (by rw [hem])
      · rw [hem]; exact hgap
      · rw [pow_succ] at hlt; linarith
    · rfl

theorem cel0_isSome_celFuel1 (kc p c s : ℝ) (hkc : kc ≠ 0) :
    (cel0 (celFuel1 |kc| (1 / 1000000)) kc p c s).isSome := by
  have hk : 0 < |kc| := abs_pos.mpr hkc
  have hmin : 0 < min 1 |kc| := lt_min one_pos hk
  unfold cel0
  simp only [eq0_real, decide_eq_true_eq, if_neg hkc, abs_real, Kern.n, ofNat_real, Nat.cast_one]
  apply cel0Loop_isSome_of_inv _ (|1 - (|kc|)| / min 1 (|kc|)) _ _ _ _ _ _ _ one_pos hk (add_comm _ _)
    (mul_one _).symm
  · rw [div_mul_cancel₀ _ hmin.ne']
  · exact agmSteps_spec _ _ (by norm_num)

theorem cel0_eq_none_of_zero (fuel : ℕ) (p c s : ℝ) : cel0 fuel 0 p c s = none := by
  unfold cel0; simp

theorem cel0_fuel_mono (n k : ℕ) (kc p c s v : ℝ) (h : cel0 n kc p c s = some v) :
    cel0 (n + k) kc p c s = some v := by
  unfold cel0 at h ⊢
  split_ifs at h ⊢ with h0
  exact cel0Loop_fuel_mono n k _ _ _ _ _ _ _ v h

/-! ### Circle: `circleHcyl`, `bhjmCircle` -/

/-- the quantity `q2` of `current_circle_Hfield` (observer `(r, z)` in cylinder coordinates, loop
radius `r0`), in plain real arithmetic -/
noncomputable def circleQ2 (r0 r z : ℝ) : ℝ :=
  (z / r0 * (z / r0) + (r / r0 - 1) * (r / r0 - 1)) / (z / r0 * (z / r0) + (r / r0 + 1) * (r / r0 + 1))

theorem circleQ2_pos {r0 r z : ℝ} (hr0 : r0 ≠ 0) (hr : 0 ≤ r / r0) (hwire : ¬ (z = 0 ∧ r = r0)) :
    0 < circleQ2 r0 r z := by
  unfold circleQ2
  have hden : 0 < z / r0 * (z / r0) + (r / r0 + 1) * (r / r0 + 1) := by
    nlinarith [mul_self_nonneg (z / r0)]
  have hnum : 0 < z / r0 * (z / r0) + (r / r0 - 1) * (r / r0 - 1) := by
    by_cases hz : z = 0
    · have hne : r ≠ r0 := fun h => hwire ⟨hz, h⟩
      have : r / r0 - 1 ≠ 0 := by
        intro h
        apply hne
        have : r / r0 = 1 := by linarith
        rwa [div_eq_one_iff_eq hr0] at this
      nlinarith [mul_self_nonneg (z / r0), mul_self_pos.mpr this]
    · have : z / r0 ≠ 0 := div_ne_zero hz hr0
      nlinarith [mul_self_pos.mpr this, mul_self_nonneg (r / r0 - 1)]
  exact div_pos hnum hden

/-- fuel sufficient for both cel iterations of one Circle row -/
noncomputable def circleFuel (r0 r z : ℝ) : ℕ := celFuel1 (√(circleQ2 r0 r z)) (1 / 100000000)

theorem circleHcyl_isSome (fuel : ℕ) (r0 r z i0 : ℝ) (hq : 0 < circleQ2 r0 r z)
    (hf : circleFuel r0 r z ≤ fuel) : (circleHcyl fuel r0 r z i0).isSome := by
  have H : ∀ cc ss : ℝ, celIter fuel (√(circleQ2 r0 r z)) (1 + √(circleQ2 r0 r z)) 1 cc ss
      (1 + √(circleQ2 r0 r z)) (√(circleQ2 r0 r z)) ≠ none := fun cc ss =>
    Option.isSome_iff_ne_none.mp
      (celIter_isSome_mono hf (celIter_isSome_celFuel1 _ _ cc ss (Real.sqrt_pos.2 hq)))
  unfold circleHcyl
  simp only [Kern.n, ofNat_real, sqrt_real, Nat.cast_one]
  split
  · rename_i heq; exact absurd heq (H _ _)
  · split
    · rename_i heq; exact absurd heq (H _ _)
    · rfl

/-- fuel sufficient for `BHJM_circle` at observer `x` (loop of diameter `d` in the xy-plane) -/
noncomputable def circleFuelX (d : ℝ) (x : V3 ℝ) : ℕ :=
  circleFuel |d / 2| (√(x.x * x.x + x.y * x.y)) x.z

/-- the wrapper's masks (`mask1`: zero radius, `mask2`: on the wire up to 1e-15·r0, `mask3`: on the
axis) leave for the general branch exactly rows with `q2 > 0` -/
theorem circle_masks_imply_q2_pos (d : ℝ) (x : V3 ℝ)
    (h1 : ¬ (|d / 2| = 0))
    (h2 : ¬ (|√(x.x * x.x + x.y * x.y) - (|d / 2|)| < 1 / 1000000000000000 * |d / 2| ∧
      |x.z| < 1 / 1000000000000000 * |d / 2|)) :
    0 < circleQ2 |d / 2| (√(x.x * x.x + x.y * x.y)) x.z := by
  have hr0 : 0 < |d / 2| := lt_of_le_of_ne (abs_nonneg _) (Ne.symm h1)
  apply circleQ2_pos h1 (div_nonneg (Real.sqrt_nonneg _) (abs_nonneg _))
  rintro ⟨hz, hr⟩
  apply h2
  rw [hr, hz, sub_self, abs_zero]
  exact ⟨by positivity, by positivity⟩

theorem bhjmCircle_isSome (fuel : ℕ) (f : Field) (d cur : ℝ) (x : V3 ℝ)
    (hf : circleFuelX d x ≤ fuel) : (bhjmCircle fuel f d cur x).isSome := by
  have key : ¬ (|d / 2| = 0) →
      ¬ (|√(x.x * x.x + x.y * x.y) - (|d / 2|)| < 1 / 1000000000000000 * |d / 2| ∧
        |x.z| < 1 / 1000000000000000 * |d / 2|) →
      circleHcyl fuel |d / 2| (√(x.x * x.x + x.y * x.y)) x.z cur ≠ none := fun h1 h2 =>
    Option.isSome_iff_ne_none.mp
      (circleHcyl_isSome fuel _ _ _ cur (circle_masks_imply_q2_pos d x h1 h2) hf)
  unfold bhjmCircle
  cases f
  case M => rfl
  case J => rfl
  all_goals
    simp only [Kern.n, ofNat_real, sqrt_real, abs_real, eq0_real, lt_real, Nat.cast_one, Nat.cast_ofNat,
      Option.isSome_map, Bool.or_eq_true, Bool.and_eq_true, decide_eq_true_eq]
    split_ifs with h3 h1 h12
    · rfl
    · rfl
    · rfl
    · rw [not_or] at h12
      split
      · rename_i heq
        exact absurd heq (key h12.1 h12.2)
      · rfl

/-! ### the loop as an iterated map on rows (`CelRow`): which divisions are executed -/

theorem celRowCont_iff (s : CelRow ℝ) :
    celRowCont s = true ↔ s.qc * (1 / 100000000) ≤ |s.g - s.qc| := by
  simp only [celRowCont, Kern.n, ofNat_real, le_real, abs_real, Nat.cast_one, Nat.cast_ofNat,
    decide_eq_true_eq]

theorem celRowCont_eq_false_iff (s : CelRow ℝ) :
    celRowCont s = false ↔ |s.g - s.qc| < s.qc * (1 / 100000000) := by
  rw [← not_le, ← celRowCont_iff, Bool.not_eq_true]

@[simp] theorem celRowStep_qc (s : CelRow ℝ) : (celRowStep s).qc = 2 * √s.kk := by
  simp [celRowStep, Kern.n]
@[simp] theorem celRowStep_g (s : CelRow ℝ) : (celRowStep s).g = s.em := rfl
@[simp] theorem celRowStep_em (s : CelRow ℝ) : (celRowStep s).em = s.em + 2 * √s.kk := by
  simp [celRowStep, Kern.n]
@[simp] theorem celRowStep_kk (s : CelRow ℝ) : (celRowStep s).kk = 2 * √s.kk * s.em := by
  simp [celRowStep, Kern.n]
@[simp] theorem celRowStep_p (s : CelRow ℝ) : (celRowStep s).p = s.p + 2 * √s.kk * s.em / s.p := by
  simp [celRowStep, Kern.n]

theorem celRowOut_eq (s : CelRow ℝ) :
    celRowOut s = Real.pi / 2 * (s.ss + s.cc * s.em) / (s.em * (s.em + s.p)) := by
  simp [celRowOut, Kern.n]

/-- unfolding of the scalar loop on a row (any carrier) -/
theorem celIterRow_succ {α : Type} [Num α] (fuel : ℕ) (s : CelRow α) :
    celIterRow (fuel + 1) s = if celRowCont s then celIterRow fuel (celRowStep s) else some (celRowOut s) := by
  unfold celIterRow
  rw [celIter]
  rfl

/-- a value returned by the scalar loop is the return expression at the first state of the orbit
of the loop body at which the `while` condition fails; the loop body ran on all earlier states -/
theorem celIterRow_some_spec {α : Type} [Num α] (fuel : ℕ) : ∀ (s : CelRow α) (v : α),
    celIterRow fuel s = some v →
    ∃ m, m < fuel ∧ (∀ j, j < m → celRowCont (celRowStep^[j] s) = true) ∧
      celRowCont (celRowStep^[m] s) = false ∧ v = celRowOut (celRowStep^[m] s) := by
  induction fuel with
  | zero => intro s v h; simp [celIterRow, celIter] at h
  | succ n ih =>
    intro s v h
    rw [celIterRow_succ] at h
    split_ifs at h with hc
    · obtain ⟨m, hm, hall, hex, hv⟩ := ih _ _ h
      refine ⟨m + 1, by omega, ?_, ?_, ?_⟩
      · intro j hj
        cases j with
        | zero => exact hc
        | succ j => rw [Function.iterate_succ_apply]; exact hall j (by omega)
      · rw [Function.iterate_succ_apply]; exact hex
      · rw [Function.iterate_succ_apply]; exact hv
    · refine ⟨0, by omega, ?_, by simpa using hc, ?_⟩
      · intro j hj; omega
      · simpa using (Option.some.inj h).symm

theorem celRowStep_pos {s : CelRow ℝ} (hp : 0 < s.p) (hem : 0 < s.em) (hkk : 0 < s.kk) :
    0 < (celRowStep s).p ∧ 0 < (celRowStep s).em ∧ 0 < (celRowStep s).kk := by
  have hs : 0 < √s.kk := Real.sqrt_pos.2 hkk
  simp only [celRowStep_p, celRowStep_em, celRowStep_kk]
  exact ⟨by positivity, by positivity, by positivity⟩

theorem celRowIterate_pos {s : CelRow ℝ} (hp : 0 < s.p) (hem : 0 < s.em) (hkk : 0 < s.kk) (n : ℕ) :
    0 < (celRowStep^[n] s).p ∧ 0 < (celRowStep^[n] s).em ∧ 0 < (celRowStep^[n] s).kk := by
  induction n with
  | zero => exact ⟨hp, hem, hkk⟩
  | succ n ih =>
    rw [Function.iterate_succ_apply']
    exact celRowStep_pos ih.1 ih.2.1 ih.2.2

/-! ### the invariant on rows; the exit test stays met (what `cel_iterv` needs) -/

/-- loop invariant with relative gap `D` -/
def CelInv (D : ℝ) (s : CelRow ℝ) : Prop :=
  0 < s.g ∧ 0 < s.qc ∧ s.em = s.g + s.qc ∧ s.kk = s.qc * s.g ∧ |s.g - s.qc| ≤ D * min s.g s.qc

theorem CelInv.step {D : ℝ} {s : CelRow ℝ} (h : CelInv D s) : CelInv (D / 2) (celRowStep s) := by
  obtain ⟨hg, hq, hem, hkk, hD⟩ := h
  obtain ⟨h1, _, _, _⟩ := agm_step hg hq
  have hgap := agm_gap_halves hg hq hD
  refine ⟨?_, ?_, ?_, ?_, ?_⟩
  · rw [celRowStep_g, hem]; linarith
  · rw [celRowStep_qc, hkk]; exact h1
  · rw [celRowStep_em, celRowStep_g, celRowStep_qc]
  · rw [celRowStep_kk, celRowStep_g, celRowStep_qc]
  · rw [celRowStep_g, celRowStep_qc, hem, hkk]; exact hgap

theorem CelInv.iterate {D : ℝ} {s : CelRow ℝ} (h : CelInv D s) (m : ℕ) :
    CelInv (D / 2 ^ m) (celRowStep^[m] s) := by
  induction m with
  | zero => simpa using h
  | succ m ih =>
    rw [Function.iterate_succ_apply', pow_succ, ← div_div]
    exact ih.step

theorem CelInv.nonneg {D : ℝ} {s : CelRow ℝ} (h : CelInv D s) : 0 ≤ D := by
  obtain ⟨hg, hq, _, _, hD⟩ := h
  by_contra hneg
  have : D * min s.g s.qc < 0 := mul_neg_of_neg_of_pos (not_le.mp hneg) (lt_min hg hq)
  linarith [abs_nonneg (s.g - s.qc)]

theorem CelInv.exit {D : ℝ} {s : CelRow ℝ} (h : CelInv D s) (hD : D < 1 / 100000000) :
    celRowCont s = false := by
  rw [celRowCont_eq_false_iff]
  have h0 := h.nonneg
  obtain ⟨hg, hq, _, _, hgap⟩ := h
  have : D * min s.g s.qc ≤ D * s.qc := mul_le_mul_of_nonneg_left (min_le_right _ _) h0
  have : D * s.qc < 1 / 100000000 * s.qc := mul_lt_mul_of_pos_right hD hq
  linarith

/-- once the gap is below tolerance it stays there: the exit test holds at every later state -/
theorem CelInv.exit_stable {D : ℝ} {s : CelRow ℝ} (h : CelInv D s) {n : ℕ}
    (hD : D < 2 ^ n * (1 / 100000000)) (m : ℕ) (hm : n ≤ m) :
    celRowCont (celRowStep^[m] s) = false := by
  apply (h.iterate m).exit
  have h2 : (2 : ℝ) ^ n ≤ 2 ^ m := pow_le_pow_right₀ (by norm_num) hm
  have hpos : (0 : ℝ) < 2 ^ m := by positivity
  rw [div_lt_iff₀ hpos]
  nlinarith

theorem CelInv.first {s : CelRow ℝ} (hem : 0 < s.em) (hkk : 0 < s.kk) :
    CelInv (|s.em - 2 * √s.kk| / min s.em (2 * √s.kk)) (celRowStep s) := by
  have hq : 0 < 2 * √s.kk := by have := Real.sqrt_pos.2 hkk; positivity
  have hmin : 0 < min s.em (2 * √s.kk) := lt_min hem hq
  refine ⟨hem, by rw [celRowStep_qc]; exact hq, by simp, by simp, ?_⟩
  rw [celRowStep_g, celRowStep_qc, div_mul_cancel₀ _ hmin.ne']

/-- from `celFuel em kk − 1` passes on, the row meets the exit test at every state of its orbit -/
theorem celRow_exit_stable {s : CelRow ℝ} (hem : 0 < s.em) (hkk : 0 < s.kk) (m : ℕ)
    (hm : celFuel s.em s.kk ≤ m + 1) : celRowCont (celRowStep^[m] s) = false := by
  unfold celFuel at hm
  obtain ⟨m', rfl⟩ : ∃ m', m = m' + 1 := ⟨m - 1, by omega⟩
  rw [Function.iterate_succ_apply]
  exact (CelInv.first hem hkk).exit_stable (agmSteps_spec _ _ (by norm_num)) m' (by omega)

/-! ### `celIterV`, `celIterDispatch` (cel_iterv, cel_iter) -/

theorem celIterV_isSome_of_exit {α : Type} [Num α] (m : ℕ) : ∀ (fuel : ℕ) (rows : List (CelRow α)),
    m < fuel → (∀ s ∈ rows, celRowCont (celRowStep^[m] s) = false) → (celIterV fuel rows).isSome := by
  induction m with
  | zero =>
    intro fuel rows hf hall
    obtain ⟨f, rfl⟩ : ∃ f, fuel = f + 1 := ⟨fuel - 1, by omega⟩
    rw [celIterV]
    have : rows.any celRowCont = false := by
      rw [List.any_eq_false]
      intro s hs
      simpa using hall s hs
    simp [this]
  | succ m ih =>
    intro fuel rows hf hall
    obtain ⟨f, rfl⟩ : ∃ f, fuel = f + 1 := ⟨fuel - 1, by omega⟩
    rw [celIterV]
    split_ifs with hany
    · apply ih f _ (by omega)
      intro s' hs'
      obtain ⟨s, hs, rfl⟩ := List.mem_map.mp hs'
      have := hall s hs
      rwa [Function.iterate_succ_apply] at this
    · rfl

/-- a single row: the batch loop is the scalar loop -/
theorem celIterV_singleton {α : Type} [Num α] (fuel : ℕ) : ∀ s : CelRow α,
    celIterV fuel [s] = (celIterRow fuel s).map (fun v => [v]) := by
  induction fuel with
  | zero => intro s; rfl
  | succ n ih =>
    intro s
    rw [celIterV, celIterRow_succ]
    simp only [List.any_cons, List.any_nil, Bool.or_false, List.map_cons, List.map_nil]
    split_ifs with hc
    · exact ih _
    · rfl

/-- fuel sufficient for a batch: the largest of the rows' bounds -/
noncomputable def celFuelV (rows : List (CelRow ℝ)) : ℕ :=
  rows.foldr (fun s acc => max (celFuel s.em s.kk) acc) 1

theorem celFuelV_pos (rows : List (CelRow ℝ)) : 1 ≤ celFuelV rows := by
  induction rows with
  | nil => exact le_rfl
  | cons s t ih => exact le_trans ih (le_max_right _ _)

theorem celFuel_le_celFuelV {rows : List (CelRow ℝ)} {s : CelRow ℝ} (hs : s ∈ rows) :
    celFuel s.em s.kk ≤ celFuelV rows := by
  induction rows with
  | nil => cases hs
  | cons a t ih =>
    rcases List.mem_cons.mp hs with rfl | h
    · exact le_max_left _ _
    · exact le_trans (ih h) (le_max_right _ _)

theorem celIterV_isSome_celFuelV (rows : List (CelRow ℝ)) (hpos : ∀ s ∈ rows, 0 < s.em ∧ 0 < s.kk)
    (fuel : ℕ) (hf : celFuelV rows ≤ fuel) : (celIterV fuel rows).isSome := by
  have h1 := celFuelV_pos rows
  apply celIterV_isSome_of_exit (celFuelV rows - 1) fuel rows (by omega)
  intro s hs
  apply celRow_exit_stable (hpos s hs).1 (hpos s hs).2
  have := celFuel_le_celFuelV hs
  omega

theorem celIterDispatch_isSome_celFuelV (rows : List (CelRow ℝ))
    (hpos : ∀ s ∈ rows, 0 < s.em ∧ 0 < s.kk) (fuel : ℕ) (hf : celFuelV rows ≤ fuel) :
    (celIterDispatch fuel rows).isSome := by
  have hV := celIterV_isSome_celFuelV rows hpos fuel hf
  have hall : rows.all (fun s => (celIterRow fuel s).isSome) = true := by
    rw [List.all_eq_true]
    intro s hs
    exact celIter_isSome_mono (le_trans (celFuel_le_celFuelV hs) hf)
      (celIter_isSome_celFuel _ _ _ _ _ _ _ (hpos s hs).1 (hpos s hs).2)
  unfold celIterDispatch
  split_ifs
  · exact hV
  · exact hV

/-! ### sharpness: with `kk = 0` the loop never exits; numeric size of the explicit fuel -/

theorem celIter_none_of_kk_zero (fuel : ℕ) : ∀ (qc p g cc ss em : ℝ), qc ≤ 0 →
    celIter fuel qc p g cc ss em 0 = none := by
  induction fuel with
  | zero => intro qc p g cc ss em _; rfl
  | succ n ih =>
    intro qc p g cc ss em hq
    rw [celIter]
    simp only [Kern.n, ofNat_real, le_real, abs_real, sqrt_real, Nat.cast_one, Nat.cast_ofNat,
      decide_eq_true_eq, Real.sqrt_zero, mul_zero, zero_mul]
    rw [if_pos (by nlinarith [abs_nonneg (g - qc)])]
    exact ih _ _ _ _ _ _ le_rfl

theorem agmSteps_le {D tol : ℝ} {B n : ℕ} (hB : D / tol ≤ B) (hn : B + 1 ≤ 2 ^ n) :
    agmSteps D tol ≤ n := by
  unfold agmSteps
  apply Nat.clog_le_of_le_pow
  have : ⌈D / tol⌉₊ ≤ B := Nat.ceil_le.mpr hB
  omega

/-- for `q` between 1e-40 and 1e40 the explicit fuel is at most 200 (the driver's constant) -/
theorem celFuel1_le_200 {q : ℝ} (h1 : 1 / 10 ^ 40 ≤ q) (h2 : q ≤ 10 ^ 40) :
    celFuel1 q (1 / 100000000) ≤ 200 := by
  have hq : 0 < q := lt_of_lt_of_le (by positivity) h1
  have hD : |1 - q| / min 1 q ≤ 10 ^ 40 := by
    rcases le_total 1 q with h | h
    · rw [min_eq_left h, abs_of_nonpos (by linarith), div_one]; linarith
    · rw [min_eq_right h, abs_of_nonneg (by linarith), div_le_iff₀ hq]
      have : (1 : ℝ) ≤ 10 ^ 40 * q := by
        calc (1 : ℝ) = 10 ^ 40 * (1 / 10 ^ 40) := by norm_num
          _ ≤ 10 ^ 40 * q := mul_le_mul_of_nonneg_left h1 (by positivity)
      linarith
  unfold celFuel1
  have : agmSteps (|1 - q| / min 1 q) (1 / 100000000) ≤ 199 := by
    apply agmSteps_le (B := 10 ^ 48) _ (by norm_num)
    rw [div_div_eq_mul_div, div_one]
    push_cast
    linarith
  omega

end MagpyVerif.Kern
