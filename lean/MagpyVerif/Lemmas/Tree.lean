/- invariants of the path model over collection trees (C09/C10) -/
import MagpyVerif.Lemmas.Path
import MagpyVerif.Model.Tree
namespace MagpyVerif
open Gen Spec
variable {G V : Type}

/-- induction over collection trees -/
theorem Node.induct {motive : Node G V → Prop}
    (h : ∀ o cs, (∀ c ∈ cs, motive c) → motive (Node.mk o cs)) : ∀ n, motive n := by
  intro n
  exact Node.rec (motive_1 := motive) (motive_2 := fun cs => ∀ c ∈ cs, motive c)
    (fun o cs ih => h o cs ih) (by simp) (fun c cs hc hcs => by simpa using ⟨hc, hcs⟩) n

/-- `P` holds for the object of every node of the tree -/
inductive Node.All (P : Obj G V → Prop) : Node G V → Prop
  | mk {o cs} : P o → (∀ c ∈ cs, Node.All P c) → Node.All P (Node.mk o cs)

theorem Node.all_mk {P : Obj G V → Prop} {o cs} :
    Node.All P (Node.mk o cs) ↔ P o ∧ ∀ c ∈ cs, Node.All P c :=
  ⟨fun h => by cases h with | mk a b => exact ⟨a, b⟩, fun h => .mk h.1 h.2⟩

/-- the path invariant of one object: both paths have the same length ≥ 1 -/
def Obj.Inv (o : Obj G V) : Prop := o.pos.length = o.ori.length ∧ 1 ≤ o.pos.length

theorem ne_nil_of_one_le {α} {xs : List α} (h : 1 ≤ xs.length) : xs ≠ [] := by
  intro e; rw [e] at h; simp at h

theorem applyMove_inv [Add V] (inp : PathIn V) (start : Option Int) (o : Obj G V) (h : o.Inv) :
    (applyMove inp start o).Inv := by
  obtain ⟨h1, h2⟩ := h
  have hp := ne_nil_of_one_le h2
  have hq : o.ori ≠ [] := ne_nil_of_one_le (h1 ▸ h2)
  simp only [Obj.Inv, applyMove, pathPadding, length_mapSlice, length_edgePad _ _ _ hp,
    length_edgePad _ _ _ hq]
  omega

theorem applyRotationAligned_inv [Mul G] [SMul G V] [Add V] [Sub V] (rot : PathIn G)
    (anchor : Option (PathIn V)) (start : Option Int) (pp : Option (List V)) (o : Obj G V)
    (h : o.Inv) : (applyRotationAligned rot anchor start pp o).Inv := by
  obtain ⟨h1, h2⟩ := h
  have hp := ne_nil_of_one_le h2
  have hq : o.ori ≠ [] := ne_nil_of_one_le (h1 ▸ h2)
  simp only [Obj.Inv, applyRotationAligned, pathPadding]
  split <;> simp only [length_mapSlice, length_edgePad _ _ _ hp, length_edgePad _ _ _ hq] <;> omega

theorem applyRotation_inv [Mul G] [SMul G V] [Add V] [Sub V] (rot : PathIn G)
    (anchor : Option (PathIn V)) (start : Option Int) (pp : Option (List V)) (o : Obj G V)
    (h : o.Inv) : (applyRotation rot anchor start pp o).Inv := by
  unfold applyRotation
  split <;> exact applyRotationAligned_inv _ _ _ _ _ h

theorem setPositionObj_inv (inp : List V) (hi : inp ≠ []) (o : Obj G V) (h : o.Inv) :
    (setPositionObj inp o).Inv := by
  obtain ⟨h1, h2⟩ := h
  have hq : o.ori ≠ [] := ne_nil_of_one_le (h1 ▸ h2)
  have : 0 < inp.length := List.length_pos_iff.mpr hi
  simp only [Obj.Inv, setPositionObj]
  rw [length_padSlice _ _ hq]
  omega

theorem Node.move_inv [Add V] (inp : PathIn V) (start : Option Int) :
    ∀ n : Node G V, n.All Obj.Inv → (n.move inp start).All Obj.Inv := by
  apply Node.induct
  intro o cs ih h
  rw [Node.all_mk] at h
  rw [Node.move, Node.all_mk]
  refine ⟨applyMove_inv _ _ _ h.1, ?_⟩
  intro c hc
  obtain ⟨c0, hc0, rfl⟩ := List.mem_map.mp hc
  exact ih c0 hc0 (h.2 c0 hc0)

theorem Node.rotate_inv [Mul G] [SMul G V] [Add V] [Sub V] (rot : PathIn G)
    (anchor : Option (PathIn V)) (start : Option Int) :
    ∀ (n : Node G V) (pp : Option (List V)), n.All Obj.Inv →
      (n.rotate rot anchor start pp).All Obj.Inv := by
  apply Node.induct
  intro o cs ih pp h
  rw [Node.all_mk] at h
  rw [Node.rotate.eq_def]
  simp only
  rw [Node.all_mk]
  refine ⟨applyRotation_inv _ _ _ _ _ h.1, ?_⟩
  intro c hc
  obtain ⟨c0, hc0, rfl⟩ := List.mem_map.mp hc
  exact ih c0 hc0 _ (h.2 c0 hc0)

theorem Node.setPosition_inv [Add V] [Sub V] :
    ∀ (n : Node G V) (inp : List V), inp ≠ [] → n.All Obj.Inv →
      (n.setPosition inp).All Obj.Inv := by
  apply Node.induct
  intro o cs ih inp hi h
  rw [Node.all_mk] at h
  rw [Node.setPosition, Node.all_mk]
  refine ⟨setPositionObj_inv _ hi _ h.1, ?_⟩
  intro c hc
  obtain ⟨c0, hc0, rfl⟩ := List.mem_map.mp hc
  refine ih c0 hc0 _ ?_ (h.2 c0 hc0)
  have : 0 < inp.length := List.length_pos_iff.mpr hi
  apply ne_nil_of_one_le
  have hc0inv : c0.obj.Inv := by
    have := h.2 c0 hc0
    cases c0 with | mk oc ccs => exact (Node.all_mk.mp this).1
  have hop : o.pos ≠ [] := ne_nil_of_one_le h.1.2
  have hcp : c0.obj.pos ≠ [] := ne_nil_of_one_le hc0inv.2
  simp only [List.length_zipWith, length_padSlice _ _ hop, length_padSlice _ _ hcp]
  omega

theorem Node.obj_inv_of_all {n : Node G V} (h : n.All Obj.Inv) : n.obj.Inv := by
  cases n with | mk o cs => exact (Node.all_mk.mp h).1

theorem Node.setOrientation_inv [Mul G] [Inv G] [SMul G V] [Add V] [Sub V]
    (n : Node G V) (inp : List G) (hi : inp ≠ []) (h : n.All Obj.Inv) :
    (n.setOrientation inp).All Obj.Inv := by
  cases n with | mk o cs =>
  rw [Node.all_mk] at h
  have hl : 0 < inp.length := List.length_pos_iff.mpr hi
  have hop : o.pos ≠ [] := ne_nil_of_one_le h.1.2
  rw [Node.setOrientation.eq_def]
  simp only
  rw [Node.all_mk]
  refine ⟨⟨by simp only; rw [length_padSlice _ _ hop], by simp only; rw [length_padSlice _ _ hop]; omega⟩, ?_⟩
  intro c hc
  obtain ⟨c0, hc0, rfl⟩ := List.mem_map.mp hc
  apply Node.rotate_inv
  apply Node.setPosition_inv _ _ _ (h.2 c0 hc0)
  apply ne_nil_of_one_le
  have hcp : c0.obj.pos ≠ [] := ne_nil_of_one_le (Node.obj_inv_of_all (h.2 c0 hc0)).2
  rw [length_padSlice _ _ hcp, length_padSlice _ _ hop]
  omega

theorem Node.resetPath_inv [Mul G] [Inv G] [One G] [SMul G V] [Add V] [Sub V] [Zero V]
    (n : Node G V) (h : n.All Obj.Inv) : n.resetPath.All Obj.Inv := by
  unfold Node.resetPath
  exact Node.setOrientation_inv _ _ (by simp) (Node.setPosition_inv _ _ (by simp) h)

theorem Node.modifyAt_all {P : Obj G V → Prop} (f : Node G V → Node G V)
    (hf : ∀ m, m.All P → (f m).All P) :
    ∀ (addr : List Nat) (n : Node G V), n.All P → (Node.modifyAt f addr n).All P := by
  intro addr
  induction addr with
  | nil => intro n h; exact hf n h
  | cons i rest ih =>
    intro n h
    cases n with | mk o cs =>
    rw [Node.all_mk] at h
    rw [Node.modifyAt, Node.all_mk]
    refine ⟨h.1, ?_⟩
    intro c hc
    obtain ⟨j, hj, rfl⟩ := List.mem_mapIdx.mp hc
    have hmem : cs[j] ∈ cs := List.getElem_mem hj
    split
    · exact ih _ (h.2 _ hmem)
    · exact h.2 _ hmem

theorem Node.step_inv [Mul G] [Inv G] [One G] [SMul G V] [Add V] [Sub V] [Zero V]
    (t : Node G V) (op : Op G V) (h : t.All Obj.Inv) : (t.step op).All Obj.Inv := by
  cases op with
  | move a inp start => exact Node.modifyAt_all _ (Node.move_inv inp start) a t h
  | rotate a rot anchor start =>
    exact Node.modifyAt_all _ (fun m hm => Node.rotate_inv rot anchor start m none hm) a t h
  | setPos a inp =>
    simp only [Node.step]
    split
    · exact h
    · rename_i hne
      exact Node.modifyAt_all _ (fun m hm => Node.setPosition_inv m inp (by simpa using hne) hm) a t h
  | setOri a inp =>
    simp only [Node.step]
    split
    · exact h
    · rename_i hne
      exact Node.modifyAt_all _ (fun m hm => Node.setOrientation_inv m inp (by simpa using hne) hm) a t h
  | reset a => exact Node.modifyAt_all _ (fun m hm => Node.resetPath_inv m hm) a t h
  | rejected => exact h
end MagpyVerif
