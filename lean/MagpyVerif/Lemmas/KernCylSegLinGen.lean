-- statements generated from magpylib/_src/fields/field_BH_cylinder_segment.py by translate/cylseg2lean.py (render_lin); proofs by the tactic of MagpyVerif.Lemmas.KernCylSegLinBase
import MagpyVerif.Lemmas.KernCylSegLinBase

set_option linter.unusedVariables false

namespace MagpyVerif.Kern.CylSeg
open MagpyVerif MagpyVerif.Kern MagpyVerif.Kern.CylSeg

theorem Hphi_zk_case112_sphlin (μ : ℝ) (S : SegSpecial) (r_i : ℝ) :
    SphLin fun φ θ => @Hphi_zk_case112 ℝ (realNumX μ S) r_i θ := by
  cylseg_sphlin Hphi_zk_case112

theorem Hz_ri_case112_sphlin (μ : ℝ) (S : SegSpecial) (δ : ℝ) :
    SphLin fun φ θ => @Hz_ri_case112 ℝ (realNumX μ S) (φ - δ) θ := by
  cylseg_sphlin Hz_ri_case112

theorem Hz_phij_case112_sphlin (μ : ℝ) (S : SegSpecial) (r_i δ : ℝ) :
    SphLin fun φ θ => @Hz_phij_case112 ℝ (realNumX μ S) r_i (φ - δ) θ := by
  cylseg_sphlin Hz_phij_case112

theorem Hphi_zk_case113_sphlin (μ : ℝ) (S : SegSpecial) (r : ℝ) :
    SphLin fun φ θ => @Hphi_zk_case113 ℝ (realNumX μ S) r θ := by
  cylseg_sphlin Hphi_zk_case113

theorem Hz_phij_case113_sphlin (μ : ℝ) (S : SegSpecial) (r δ : ℝ) :
    SphLin fun φ θ => @Hz_phij_case113 ℝ (realNumX μ S) r (φ - δ) θ := by
  cylseg_sphlin Hz_phij_case113

theorem Hr_zk_case115_sphlin (μ : ℝ) (S : SegSpecial) (r r_i r_bar_i phi_bar_j : ℝ) :
    SphLin fun φ θ => @Hr_zk_case115 ℝ (realNumX μ S) r r_i r_bar_i phi_bar_j θ := by
  cylseg_sphlin Hr_zk_case115

theorem Hphi_zk_case115_sphlin (μ : ℝ) (S : SegSpecial) (r r_i r_bar_i : ℝ) :
    SphLin fun φ θ => @Hphi_zk_case115 ℝ (realNumX μ S) r r_i r_bar_i θ := by
  cylseg_sphlin Hphi_zk_case115

theorem Hz_ri_case115_sphlin (μ : ℝ) (S : SegSpecial) (r r_i r_bar_i phi_bar_j δ : ℝ) :
    SphLin fun φ θ => @Hz_ri_case115 ℝ (realNumX μ S) r r_i r_bar_i phi_bar_j (φ - δ) θ := by
  cylseg_sphlin Hz_ri_case115

theorem Hz_phij_case115_sphlin (μ : ℝ) (S : SegSpecial) (r_bar_i δ : ℝ) :
    SphLin fun φ θ => @Hz_phij_case115 ℝ (realNumX μ S) r_bar_i (φ - δ) θ := by
  cylseg_sphlin Hz_phij_case115

theorem Hphi_zk_case122_sphlin (μ : ℝ) (S : SegSpecial) (r_i : ℝ) :
    SphLin fun φ θ => @Hphi_zk_case122 ℝ (realNumX μ S) r_i θ := by
  cylseg_sphlin Hphi_zk_case122

theorem Hz_ri_case122_sphlin (μ : ℝ) (S : SegSpecial) (δ : ℝ) :
    SphLin fun φ θ => @Hz_ri_case122 ℝ (realNumX μ S) (φ - δ) θ := by
  cylseg_sphlin Hz_ri_case122

theorem Hz_phij_case122_sphlin (μ : ℝ) (S : SegSpecial) (r_i δ : ℝ) :
    SphLin fun φ θ => @Hz_phij_case122 ℝ (realNumX μ S) r_i (φ - δ) θ := by
  cylseg_sphlin Hz_phij_case122

theorem Hphi_zk_case123_sphlin (μ : ℝ) (S : SegSpecial) (r : ℝ) :
    SphLin fun φ θ => @Hphi_zk_case123 ℝ (realNumX μ S) r θ := by
  cylseg_sphlin Hphi_zk_case123

theorem Hz_phij_case123_sphlin (μ : ℝ) (S : SegSpecial) (r δ : ℝ) :
    SphLin fun φ θ => @Hz_phij_case123 ℝ (realNumX μ S) r (φ - δ) θ := by
  cylseg_sphlin Hz_phij_case123

theorem Hphi_zk_case124_sphlin (μ : ℝ) (S : SegSpecial) (r : ℝ) :
    SphLin fun φ θ => @Hphi_zk_case124 ℝ (realNumX μ S) r θ := by
  cylseg_sphlin Hphi_zk_case124

theorem Hz_ri_case124_sphlin (μ : ℝ) (S : SegSpecial) (δ : ℝ) :
    SphLin fun φ θ => @Hz_ri_case124 ℝ (realNumX μ S) (φ - δ) θ := by
  cylseg_sphlin Hz_ri_case124

theorem Hz_phij_case124_sphlin (μ : ℝ) (S : SegSpecial) (r δ : ℝ) :
    SphLin fun φ θ => @Hz_phij_case124 ℝ (realNumX μ S) r (φ - δ) θ := by
  cylseg_sphlin Hz_phij_case124

theorem Hr_zk_case125_sphlin (μ : ℝ) (S : SegSpecial) (r r_i r_bar_i phi_bar_j : ℝ) :
    SphLin fun φ θ => @Hr_zk_case125 ℝ (realNumX μ S) r r_i r_bar_i phi_bar_j θ := by
  cylseg_sphlin Hr_zk_case125

theorem Hphi_zk_case125_sphlin (μ : ℝ) (S : SegSpecial) (r r_i : ℝ) :
    SphLin fun φ θ => @Hphi_zk_case125 ℝ (realNumX μ S) r r_i θ := by
  cylseg_sphlin Hphi_zk_case125

theorem Hz_ri_case125_sphlin (μ : ℝ) (S : SegSpecial) (r r_i r_bar_i phi_bar_j δ : ℝ) :
    SphLin fun φ θ => @Hz_ri_case125 ℝ (realNumX μ S) r r_i r_bar_i phi_bar_j (φ - δ) θ := by
  cylseg_sphlin Hz_ri_case125

theorem Hz_phij_case125_sphlin (μ : ℝ) (S : SegSpecial) (r r_i δ : ℝ) :
    SphLin fun φ θ => @Hz_phij_case125 ℝ (realNumX μ S) r r_i (φ - δ) θ := by
  cylseg_sphlin Hz_phij_case125

theorem Hr_zk_case132_sphlin (μ : ℝ) (S : SegSpecial) (r_i phi_bar_j : ℝ) :
    SphLin fun φ θ => @Hr_zk_case132 ℝ (realNumX μ S) r_i phi_bar_j θ := by
  cylseg_sphlin Hr_zk_case132

theorem Hphi_zk_case132_sphlin (μ : ℝ) (S : SegSpecial) (r_i phi_bar_j : ℝ) :
    SphLin fun φ θ => @Hphi_zk_case132 ℝ (realNumX μ S) r_i phi_bar_j θ := by
  cylseg_sphlin Hphi_zk_case132

theorem Hz_ri_case132_sphlin (μ : ℝ) (S : SegSpecial) (δj : ℝ) :
    SphLin fun φ θ => @Hz_ri_case132 ℝ (realNumX μ S) (φ - δj) θ := by
  cylseg_sphlin Hz_ri_case132

theorem Hz_phij_case132_sphlin (μ : ℝ) (S : SegSpecial) (r_i δj : ℝ) :
    SphLin fun φ θ => @Hz_phij_case132 ℝ (realNumX μ S) r_i (φ - δj) θ := by
  cylseg_sphlin Hz_phij_case132

theorem Hr_zk_case133_sphlin (μ : ℝ) (S : SegSpecial) (r phi_bar_j : ℝ) :
    SphLin fun φ θ => @Hr_zk_case133 ℝ (realNumX μ S) r phi_bar_j θ := by
  cylseg_sphlin Hr_zk_case133

theorem Hphi_zk_case133_sphlin (μ : ℝ) (S : SegSpecial) (phi_bar_j : ℝ) :
    SphLin fun φ θ => @Hphi_zk_case133 ℝ (realNumX μ S) phi_bar_j θ := by
  cylseg_sphlin Hphi_zk_case133

theorem Hz_phij_case133_sphlin (μ : ℝ) (S : SegSpecial) (phi_bar_j δj : ℝ) :
    SphLin fun φ θ => @Hz_phij_case133 ℝ (realNumX μ S) phi_bar_j (φ - δj) θ := by
  cylseg_sphlin Hz_phij_case133

theorem Hr_zk_case134_sphlin (μ : ℝ) (S : SegSpecial) (r phi_bar_j : ℝ) :
    SphLin fun φ θ => @Hr_zk_case134 ℝ (realNumX μ S) r phi_bar_j θ := by
  cylseg_sphlin Hr_zk_case134

theorem Hphi_zk_case134_sphlin (μ : ℝ) (S : SegSpecial) (phi_bar_j : ℝ) :
    SphLin fun φ θ => @Hphi_zk_case134 ℝ (realNumX μ S) phi_bar_j θ := by
  cylseg_sphlin Hphi_zk_case134

theorem Hz_ri_case134_sphlin (μ : ℝ) (S : SegSpecial) (phi_bar_j δ : ℝ) :
    SphLin fun φ θ => @Hz_ri_case134 ℝ (realNumX μ S) phi_bar_j (φ - δ) θ := by
  cylseg_sphlin Hz_ri_case134

theorem Hz_phij_case134_sphlin (μ : ℝ) (S : SegSpecial) (phi_bar_j δj : ℝ) :
    SphLin fun φ θ => @Hz_phij_case134 ℝ (realNumX μ S) phi_bar_j (φ - δj) θ := by
  cylseg_sphlin Hz_phij_case134

theorem Hr_zk_case135_sphlin (μ : ℝ) (S : SegSpecial) (r r_i r_bar_i phi_bar_j : ℝ) :
    SphLin fun φ θ => @Hr_zk_case135 ℝ (realNumX μ S) r r_i r_bar_i phi_bar_j θ := by
  cylseg_sphlin Hr_zk_case135

theorem Hphi_zk_case135_sphlin (μ : ℝ) (S : SegSpecial) (r r_i phi_bar_j : ℝ) :
    SphLin fun φ θ => @Hphi_zk_case135 ℝ (realNumX μ S) r r_i phi_bar_j θ := by
  cylseg_sphlin Hphi_zk_case135

theorem Hz_ri_case135_sphlin (μ : ℝ) (S : SegSpecial) (r r_i r_bar_i phi_bar_j δ : ℝ) :
    SphLin fun φ θ => @Hz_ri_case135 ℝ (realNumX μ S) r r_i r_bar_i phi_bar_j (φ - δ) θ := by
  cylseg_sphlin Hz_ri_case135

theorem Hz_phij_case135_sphlin (μ : ℝ) (S : SegSpecial) (r r_i phi_bar_j δj : ℝ) :
    SphLin fun φ θ => @Hz_phij_case135 ℝ (realNumX μ S) r r_i phi_bar_j (φ - δj) θ := by
  cylseg_sphlin Hz_phij_case135

theorem Hr_phij_case211_sphlin (μ : ℝ) (S : SegSpecial) (z_bar_k δ : ℝ) :
    SphLin fun φ θ => @Hr_phij_case211 ℝ (realNumX μ S) (φ - δ) θ z_bar_k := by
  cylseg_sphlin Hr_phij_case211

theorem Hz_zk_case211_sphlin (μ : ℝ) (S : SegSpecial) (phi_j z_bar_k : ℝ) :
    SphLin fun φ θ => @Hz_zk_case211 ℝ (realNumX μ S) phi_j θ z_bar_k := by
  cylseg_sphlin Hz_zk_case211

theorem Hr_ri_case212_sphlin (μ : ℝ) (S : SegSpecial) (r_i phi_j z_bar_k δ : ℝ) :
    SphLin fun φ θ => @Hr_ri_case212 ℝ (realNumX μ S) r_i phi_j (φ - δ) θ z_bar_k := by
  cylseg_sphlin Hr_ri_case212

theorem Hr_phij_case212_sphlin (μ : ℝ) (S : SegSpecial) (r_i z_bar_k δ : ℝ) :
    SphLin fun φ θ => @Hr_phij_case212 ℝ (realNumX μ S) r_i (φ - δ) θ z_bar_k := by
  cylseg_sphlin Hr_phij_case212

theorem Hphi_ri_case212_sphlin (μ : ℝ) (S : SegSpecial) (r_i phi_j z_bar_k δ : ℝ) :
    SphLin fun φ θ => @Hphi_ri_case212 ℝ (realNumX μ S) r_i phi_j (φ - δ) θ z_bar_k := by
  cylseg_sphlin Hphi_ri_case212

theorem Hphi_zk_case212_sphlin (μ : ℝ) (S : SegSpecial) (r_i z_bar_k : ℝ) :
    SphLin fun φ θ => @Hphi_zk_case212 ℝ (realNumX μ S) r_i θ z_bar_k := by
  cylseg_sphlin Hphi_zk_case212

theorem Hz_ri_case212_sphlin (μ : ℝ) (S : SegSpecial) (r_i z_bar_k δ : ℝ) :
    SphLin fun φ θ => @Hz_ri_case212 ℝ (realNumX μ S) r_i (φ - δ) θ z_bar_k := by
  cylseg_sphlin Hz_ri_case212

theorem Hz_phij_case212_sphlin (μ : ℝ) (S : SegSpecial) (r_i z_bar_k δ : ℝ) :
    SphLin fun φ θ => @Hz_phij_case212 ℝ (realNumX μ S) r_i (φ - δ) θ z_bar_k := by
  cylseg_sphlin Hz_phij_case212

theorem Hz_zk_case212_sphlin (μ : ℝ) (S : SegSpecial) (r_i phi_j z_bar_k : ℝ) :
    SphLin fun φ θ => @Hz_zk_case212 ℝ (realNumX μ S) r_i phi_j θ z_bar_k := by
  cylseg_sphlin Hz_zk_case212

theorem Hr_phij_case213_sphlin (μ : ℝ) (S : SegSpecial) (r z_bar_k δ : ℝ) :
    SphLin fun φ θ => @Hr_phij_case213 ℝ (realNumX μ S) r (φ - δ) θ z_bar_k := by
  cylseg_sphlin Hr_phij_case213

theorem Hphi_zk_case213_sphlin (μ : ℝ) (S : SegSpecial) (r z_bar_k : ℝ) :
    SphLin fun φ θ => @Hphi_zk_case213 ℝ (realNumX μ S) r θ z_bar_k := by
  cylseg_sphlin Hphi_zk_case213

theorem Hz_phij_case213_sphlin (μ : ℝ) (S : SegSpecial) (r z_bar_k δ : ℝ) :
    SphLin fun φ θ => @Hz_phij_case213 ℝ (realNumX μ S) r (φ - δ) θ z_bar_k := by
  cylseg_sphlin Hz_phij_case213

theorem Hz_zk_case213_sphlin (μ : ℝ) (S : SegSpecial) (phi_bar_j z_bar_k : ℝ) :
    SphLin fun φ θ => @Hz_zk_case213 ℝ (realNumX μ S) phi_bar_j θ z_bar_k := by
  cylseg_sphlin Hz_zk_case213

theorem Hr_ri_case214_sphlin (μ : ℝ) (S : SegSpecial) (r phi_bar_j z_bar_k δ : ℝ) :
    SphLin fun φ θ => @Hr_ri_case214 ℝ (realNumX μ S) r phi_bar_j (φ - δ) θ z_bar_k := by
  cylseg_sphlin Hr_ri_case214

theorem Hr_phij_case214_sphlin (μ : ℝ) (S : SegSpecial) (z_bar_k δ : ℝ) :
    SphLin fun φ θ => @Hr_phij_case214 ℝ (realNumX μ S) (φ - δ) θ z_bar_k := by
  cylseg_sphlin Hr_phij_case214

theorem Hr_zk_case214_sphlin (μ : ℝ) (S : SegSpecial) (r phi_bar_j z_bar_k : ℝ) :
    SphLin fun φ θ => @Hr_zk_case214 ℝ (realNumX μ S) r phi_bar_j θ z_bar_k := by
  cylseg_sphlin Hr_zk_case214

theorem Hphi_ri_case214_sphlin (μ : ℝ) (S : SegSpecial) (r phi_j phi_bar_j z_bar_k δ : ℝ) :
    SphLin fun φ θ => @Hphi_ri_case214 ℝ (realNumX μ S) r phi_j phi_bar_j (φ - δ) θ z_bar_k := by
  cylseg_sphlin Hphi_ri_case214

theorem Hphi_zk_case214_sphlin (μ : ℝ) (S : SegSpecial) (r z_bar_k : ℝ) :
    SphLin fun φ θ => @Hphi_zk_case214 ℝ (realNumX μ S) r θ z_bar_k := by
  cylseg_sphlin Hphi_zk_case214

theorem Hz_ri_case214_sphlin (μ : ℝ) (S : SegSpecial) (r phi_bar_j z_bar_k δ : ℝ) :
    SphLin fun φ θ => @Hz_ri_case214 ℝ (realNumX μ S) r phi_bar_j (φ - δ) θ z_bar_k := by
  cylseg_sphlin Hz_ri_case214

theorem Hz_zk_case214_sphlin (μ : ℝ) (S : SegSpecial) (r phi_bar_j z_bar_k : ℝ) :
    SphLin fun φ θ => @Hz_zk_case214 ℝ (realNumX μ S) r phi_bar_j θ z_bar_k := by
  cylseg_sphlin Hz_zk_case214

theorem Hr_ri_case215_sphlin (μ : ℝ) (S : SegSpecial) (r r_i r_bar_i phi_bar_j z_bar_k δ : ℝ) :
    SphLin fun φ θ => @Hr_ri_case215 ℝ (realNumX μ S) r r_i r_bar_i phi_bar_j (φ - δ) θ z_bar_k := by
  cylseg_sphlin Hr_ri_case215

theorem Hr_phij_case215_sphlin (μ : ℝ) (S : SegSpecial) (r_bar_i z_bar_k δ : ℝ) :
    SphLin fun φ θ => @Hr_phij_case215 ℝ (realNumX μ S) r_bar_i (φ - δ) θ z_bar_k := by
  cylseg_sphlin Hr_phij_case215

theorem Hr_zk_case215_sphlin (μ : ℝ) (S : SegSpecial) (r r_i r_bar_i phi_bar_j z_bar_k : ℝ) :
    SphLin fun φ θ => @Hr_zk_case215 ℝ (realNumX μ S) r r_i r_bar_i phi_bar_j θ z_bar_k := by
  cylseg_sphlin Hr_zk_case215

theorem Hphi_ri_case215_sphlin (μ : ℝ) (S : SegSpecial) (r r_i r_bar_i phi_bar_j z_bar_k δ : ℝ) :
    SphLin fun φ θ => @Hphi_ri_case215 ℝ (realNumX μ S) r r_i r_bar_i phi_bar_j (φ - δ) θ z_bar_k := by
  cylseg_sphlin Hphi_ri_case215

theorem Hphi_zk_case215_sphlin (μ : ℝ) (S : SegSpecial) (r r_bar_i z_bar_k : ℝ) :
    SphLin fun φ θ => @Hphi_zk_case215 ℝ (realNumX μ S) r r_bar_i θ z_bar_k := by
  cylseg_sphlin Hphi_zk_case215

theorem Hz_ri_case215_sphlin (μ : ℝ) (S : SegSpecial) (r r_i r_bar_i phi_bar_j z_bar_k δ : ℝ) :
    SphLin fun φ θ => @Hz_ri_case215 ℝ (realNumX μ S) r r_i r_bar_i phi_bar_j (φ - δ) θ z_bar_k := by
  cylseg_sphlin Hz_ri_case215

theorem Hz_phij_case215_sphlin (μ : ℝ) (S : SegSpecial) (r_bar_i z_bar_k δ : ℝ) :
    SphLin fun φ θ => @Hz_phij_case215 ℝ (realNumX μ S) r_bar_i (φ - δ) θ z_bar_k := by
  cylseg_sphlin Hz_phij_case215

theorem Hz_zk_case215_sphlin (μ : ℝ) (S : SegSpecial) (r r_i r_bar_i phi_bar_j z_bar_k : ℝ) :
    SphLin fun φ θ => @Hz_zk_case215 ℝ (realNumX μ S) r r_i r_bar_i phi_bar_j θ z_bar_k := by
  cylseg_sphlin Hz_zk_case215

theorem Hr_phij_case221_sphlin (μ : ℝ) (S : SegSpecial) (z_bar_k δ : ℝ) :
    SphLin fun φ θ => @Hr_phij_case221 ℝ (realNumX μ S) (φ - δ) θ z_bar_k := by
  cylseg_sphlin Hr_phij_case221

theorem Hz_zk_case221_sphlin (μ : ℝ) (S : SegSpecial) (phi_j z_bar_k : ℝ) :
    SphLin fun φ θ => @Hz_zk_case221 ℝ (realNumX μ S) phi_j θ z_bar_k := by
  cylseg_sphlin Hz_zk_case221

theorem Hr_ri_case222_sphlin (μ : ℝ) (S : SegSpecial) (r_i phi_j z_bar_k δ : ℝ) :
    SphLin fun φ θ => @Hr_ri_case222 ℝ (realNumX μ S) r_i phi_j (φ - δ) θ z_bar_k := by
  cylseg_sphlin Hr_ri_case222

theorem Hr_phij_case222_sphlin (μ : ℝ) (S : SegSpecial) (r_i z_bar_k δ : ℝ) :
    SphLin fun φ θ => @Hr_phij_case222 ℝ (realNumX μ S) r_i (φ - δ) θ z_bar_k := by
  cylseg_sphlin Hr_phij_case222

theorem Hphi_ri_case222_sphlin (μ : ℝ) (S : SegSpecial) (r_i phi_j z_bar_k δ : ℝ) :
    SphLin fun φ θ => @Hphi_ri_case222 ℝ (realNumX μ S) r_i phi_j (φ - δ) θ z_bar_k := by
  cylseg_sphlin Hphi_ri_case222

theorem Hphi_zk_case222_sphlin (μ : ℝ) (S : SegSpecial) (r_i z_bar_k : ℝ) :
    SphLin fun φ θ => @Hphi_zk_case222 ℝ (realNumX μ S) r_i θ z_bar_k := by
  cylseg_sphlin Hphi_zk_case222

theorem Hz_ri_case222_sphlin (μ : ℝ) (S : SegSpecial) (r_i z_bar_k δ : ℝ) :
    SphLin fun φ θ => @Hz_ri_case222 ℝ (realNumX μ S) r_i (φ - δ) θ z_bar_k := by
  cylseg_sphlin Hz_ri_case222

theorem Hz_phij_case222_sphlin (μ : ℝ) (S : SegSpecial) (r_i z_bar_k δ : ℝ) :
    SphLin fun φ θ => @Hz_phij_case222 ℝ (realNumX μ S) r_i (φ - δ) θ z_bar_k := by
  cylseg_sphlin Hz_phij_case222

theorem Hz_zk_case222_sphlin (μ : ℝ) (S : SegSpecial) (r_i phi_j z_bar_k : ℝ) :
    SphLin fun φ θ => @Hz_zk_case222 ℝ (realNumX μ S) r_i phi_j θ z_bar_k := by
  cylseg_sphlin Hz_zk_case222

theorem Hr_phij_case223_sphlin (μ : ℝ) (S : SegSpecial) (r z_bar_k δ : ℝ) :
    SphLin fun φ θ => @Hr_phij_case223 ℝ (realNumX μ S) r (φ - δ) θ z_bar_k := by
  cylseg_sphlin Hr_phij_case223

theorem Hphi_zk_case223_sphlin (μ : ℝ) (S : SegSpecial) (r z_bar_k : ℝ) :
    SphLin fun φ θ => @Hphi_zk_case223 ℝ (realNumX μ S) r θ z_bar_k := by
  cylseg_sphlin Hphi_zk_case223

theorem Hz_phij_case223_sphlin (μ : ℝ) (S : SegSpecial) (r z_bar_k δ : ℝ) :
    SphLin fun φ θ => @Hz_phij_case223 ℝ (realNumX μ S) r (φ - δ) θ z_bar_k := by
  cylseg_sphlin Hz_phij_case223

theorem Hz_zk_case223_sphlin (μ : ℝ) (S : SegSpecial) (r phi_bar_j z_bar_k : ℝ) :
    SphLin fun φ θ => @Hz_zk_case223 ℝ (realNumX μ S) r phi_bar_j θ z_bar_k := by
  cylseg_sphlin Hz_zk_case223

theorem Hr_ri_case224_sphlin (μ : ℝ) (S : SegSpecial) (r phi_bar_j z_bar_k δ : ℝ) :
    SphLin fun φ θ => @Hr_ri_case224 ℝ (realNumX μ S) r phi_bar_j (φ - δ) θ z_bar_k := by
  cylseg_sphlin Hr_ri_case224

theorem Hr_phij_case224_sphlin (μ : ℝ) (S : SegSpecial) (r z_bar_k δ : ℝ) :
    SphLin fun φ θ => @Hr_phij_case224 ℝ (realNumX μ S) r (φ - δ) θ z_bar_k := by
  cylseg_sphlin Hr_phij_case224

theorem Hr_zk_case224_sphlin (μ : ℝ) (S : SegSpecial) (r phi_bar_j z_bar_k : ℝ) :
    SphLin fun φ θ => @Hr_zk_case224 ℝ (realNumX μ S) r phi_bar_j θ z_bar_k := by
  cylseg_sphlin Hr_zk_case224

theorem Hphi_ri_case224_sphlin (μ : ℝ) (S : SegSpecial) (r phi_bar_j z_bar_k δ : ℝ) :
    SphLin fun φ θ => @Hphi_ri_case224 ℝ (realNumX μ S) r phi_bar_j (φ - δ) θ z_bar_k := by
  cylseg_sphlin Hphi_ri_case224

theorem Hphi_zk_case224_sphlin (μ : ℝ) (S : SegSpecial) (r z_bar_k : ℝ) :
    SphLin fun φ θ => @Hphi_zk_case224 ℝ (realNumX μ S) r θ z_bar_k := by
  cylseg_sphlin Hphi_zk_case224

theorem Hz_ri_case224_sphlin (μ : ℝ) (S : SegSpecial) (r phi_bar_j z_bar_k δ : ℝ) :
    SphLin fun φ θ => @Hz_ri_case224 ℝ (realNumX μ S) r phi_bar_j (φ - δ) θ z_bar_k := by
  cylseg_sphlin Hz_ri_case224

theorem Hz_phij_case224_sphlin (μ : ℝ) (S : SegSpecial) (r z_bar_k δ : ℝ) :
    SphLin fun φ θ => @Hz_phij_case224 ℝ (realNumX μ S) r (φ - δ) θ z_bar_k := by
  cylseg_sphlin Hz_phij_case224

theorem Hz_zk_case224_sphlin (μ : ℝ) (S : SegSpecial) (r phi_bar_j z_bar_k : ℝ) :
    SphLin fun φ θ => @Hz_zk_case224 ℝ (realNumX μ S) r phi_bar_j θ z_bar_k := by
  cylseg_sphlin Hz_zk_case224

theorem Hr_ri_case225_sphlin (μ : ℝ) (S : SegSpecial) (r r_i r_bar_i phi_bar_j z_bar_k δ : ℝ) :
    SphLin fun φ θ => @Hr_ri_case225 ℝ (realNumX μ S) r r_i r_bar_i phi_bar_j (φ - δ) θ z_bar_k := by
  cylseg_sphlin Hr_ri_case225

theorem Hr_phij_case225_sphlin (μ : ℝ) (S : SegSpecial) (r r_i z_bar_k δ : ℝ) :
    SphLin fun φ θ => @Hr_phij_case225 ℝ (realNumX μ S) r r_i (φ - δ) θ z_bar_k := by
  cylseg_sphlin Hr_phij_case225

theorem Hr_zk_case225_sphlin (μ : ℝ) (S : SegSpecial) (r r_i r_bar_i phi_bar_j z_bar_k : ℝ) :
    SphLin fun φ θ => @Hr_zk_case225 ℝ (realNumX μ S) r r_i r_bar_i phi_bar_j θ z_bar_k := by
  cylseg_sphlin Hr_zk_case225

theorem Hphi_ri_case225_sphlin (μ : ℝ) (S : SegSpecial) (r r_i r_bar_i phi_bar_j z_bar_k δ : ℝ) :
    SphLin fun φ θ => @Hphi_ri_case225 ℝ (realNumX μ S) r r_i r_bar_i phi_bar_j (φ - δ) θ z_bar_k := by
  cylseg_sphlin Hphi_ri_case225

theorem Hphi_zk_case225_sphlin (μ : ℝ) (S : SegSpecial) (r r_i z_bar_k : ℝ) :
    SphLin fun φ θ => @Hphi_zk_case225 ℝ (realNumX μ S) r r_i θ z_bar_k := by
  cylseg_sphlin Hphi_zk_case225

theorem Hz_ri_case225_sphlin (μ : ℝ) (S : SegSpecial) (r r_i r_bar_i phi_bar_j z_bar_k δ : ℝ) :
    SphLin fun φ θ => @Hz_ri_case225 ℝ (realNumX μ S) r r_i r_bar_i phi_bar_j (φ - δ) θ z_bar_k := by
  cylseg_sphlin Hz_ri_case225

theorem Hz_phij_case225_sphlin (μ : ℝ) (S : SegSpecial) (r r_i z_bar_k δ : ℝ) :
    SphLin fun φ θ => @Hz_phij_case225 ℝ (realNumX μ S) r r_i (φ - δ) θ z_bar_k := by
  cylseg_sphlin Hz_phij_case225

theorem Hz_zk_case225_sphlin (μ : ℝ) (S : SegSpecial) (r r_i r_bar_i phi_bar_j z_bar_k : ℝ) :
    SphLin fun φ θ => @Hz_zk_case225 ℝ (realNumX μ S) r r_i r_bar_i phi_bar_j θ z_bar_k := by
  cylseg_sphlin Hz_zk_case225

theorem Hr_phij_case231_sphlin (μ : ℝ) (S : SegSpecial) (phi_bar_j z_bar_k δj : ℝ) :
    SphLin fun φ θ => @Hr_phij_case231 ℝ (realNumX μ S) phi_bar_j (φ - δj) θ z_bar_k := by
  cylseg_sphlin Hr_phij_case231

theorem Hphi_phij_case231_sphlin (μ : ℝ) (S : SegSpecial) (phi_bar_j z_bar_k δj : ℝ) :
    SphLin fun φ θ => @Hphi_phij_case231 ℝ (realNumX μ S) phi_bar_j (φ - δj) θ z_bar_k := by
  cylseg_sphlin Hphi_phij_case231

theorem Hz_zk_case231_sphlin (μ : ℝ) (S : SegSpecial) (phi_j z_bar_k : ℝ) :
    SphLin fun φ θ => @Hz_zk_case231 ℝ (realNumX μ S) phi_j θ z_bar_k := by
  cylseg_sphlin Hz_zk_case231

theorem Hr_ri_case232_sphlin (μ : ℝ) (S : SegSpecial) (r_i phi_j phi_bar_j z_bar_k δ δj : ℝ) :
    SphLin fun φ θ => @Hr_ri_case232 ℝ (realNumX μ S) r_i phi_j phi_bar_j (φ - δ) (φ - δj) θ z_bar_k := by
  cylseg_sphlin Hr_ri_case232

theorem Hr_phij_case232_sphlin (μ : ℝ) (S : SegSpecial) (r_i phi_bar_j z_bar_k δj : ℝ) :
    SphLin fun φ θ => @Hr_phij_case232 ℝ (realNumX μ S) r_i phi_bar_j (φ - δj) θ z_bar_k := by
  cylseg_sphlin Hr_phij_case232

theorem Hr_zk_case232_sphlin (μ : ℝ) (S : SegSpecial) (r_i phi_bar_j z_bar_k : ℝ) :
    SphLin fun φ θ => @Hr_zk_case232 ℝ (realNumX μ S) r_i phi_bar_j θ z_bar_k := by
  cylseg_sphlin Hr_zk_case232

theorem Hphi_ri_case232_sphlin (μ : ℝ) (S : SegSpecial) (r_i phi_j phi_bar_j z_bar_k δ δj : ℝ) :
    SphLin fun φ θ => @Hphi_ri_case232 ℝ (realNumX μ S) r_i phi_j phi_bar_j (φ - δ) (φ - δj) θ z_bar_k := by
  cylseg_sphlin Hphi_ri_case232

theorem Hphi_phij_case232_sphlin (μ : ℝ) (S : SegSpecial) (r_i phi_bar_j z_bar_k δj : ℝ) :
    SphLin fun φ θ => @Hphi_phij_case232 ℝ (realNumX μ S) r_i phi_bar_j (φ - δj) θ z_bar_k := by
  cylseg_sphlin Hphi_phij_case232

theorem Hphi_zk_case232_sphlin (μ : ℝ) (S : SegSpecial) (r_i phi_bar_j z_bar_k : ℝ) :
    SphLin fun φ θ => @Hphi_zk_case232 ℝ (realNumX μ S) r_i phi_bar_j θ z_bar_k := by
  cylseg_sphlin Hphi_zk_case232

theorem Hz_ri_case232_sphlin (μ : ℝ) (S : SegSpecial) (r_i z_bar_k δj : ℝ) :
    SphLin fun φ θ => @Hz_ri_case232 ℝ (realNumX μ S) r_i (φ - δj) θ z_bar_k := by
  cylseg_sphlin Hz_ri_case232

theorem Hz_phij_case232_sphlin (μ : ℝ) (S : SegSpecial) (r_i z_bar_k δj : ℝ) :
    SphLin fun φ θ => @Hz_phij_case232 ℝ (realNumX μ S) r_i (φ - δj) θ z_bar_k := by
  cylseg_sphlin Hz_phij_case232

theorem Hz_zk_case232_sphlin (μ : ℝ) (S : SegSpecial) (r_i phi_j z_bar_k : ℝ) :
    SphLin fun φ θ => @Hz_zk_case232 ℝ (realNumX μ S) r_i phi_j θ z_bar_k := by
  cylseg_sphlin Hz_zk_case232

theorem Hr_phij_case233_sphlin (μ : ℝ) (S : SegSpecial) (r phi_bar_j z_bar_k δj : ℝ) :
    SphLin fun φ θ => @Hr_phij_case233 ℝ (realNumX μ S) r phi_bar_j (φ - δj) θ z_bar_k := by
  cylseg_sphlin Hr_phij_case233

theorem Hr_zk_case233_sphlin (μ : ℝ) (S : SegSpecial) (r phi_bar_j z_bar_k : ℝ) :
    SphLin fun φ θ => @Hr_zk_case233 ℝ (realNumX μ S) r phi_bar_j θ z_bar_k := by
  cylseg_sphlin Hr_zk_case233

theorem Hphi_phij_case233_sphlin (μ : ℝ) (S : SegSpecial) (r phi_bar_j z_bar_k δj : ℝ) :
    SphLin fun φ θ => @Hphi_phij_case233 ℝ (realNumX μ S) r phi_bar_j (φ - δj) θ z_bar_k := by
  cylseg_sphlin Hphi_phij_case233

theorem Hphi_zk_case233_sphlin (μ : ℝ) (S : SegSpecial) (r phi_bar_j z_bar_k : ℝ) :
    SphLin fun φ θ => @Hphi_zk_case233 ℝ (realNumX μ S) r phi_bar_j θ z_bar_k := by
  cylseg_sphlin Hphi_zk_case233

theorem Hz_phij_case233_sphlin (μ : ℝ) (S : SegSpecial) (r phi_bar_j z_bar_k δj : ℝ) :
    SphLin fun φ θ => @Hz_phij_case233 ℝ (realNumX μ S) r phi_bar_j (φ - δj) θ z_bar_k := by
  cylseg_sphlin Hz_phij_case233

theorem Hz_zk_case233_sphlin (μ : ℝ) (S : SegSpecial) (r phi_bar_j z_bar_k : ℝ) :
    SphLin fun φ θ => @Hz_zk_case233 ℝ (realNumX μ S) r phi_bar_j θ z_bar_k := by
  cylseg_sphlin Hz_zk_case233

theorem Hr_ri_case234_sphlin (μ : ℝ) (S : SegSpecial) (r phi_bar_j z_bar_k δ : ℝ) :
    SphLin fun φ θ => @Hr_ri_case234 ℝ (realNumX μ S) r phi_bar_j (φ - δ) θ z_bar_k := by
  cylseg_sphlin Hr_ri_case234

theorem Hr_phij_case234_sphlin (μ : ℝ) (S : SegSpecial) (r phi_bar_j z_bar_k δj : ℝ) :
    SphLin fun φ θ => @Hr_phij_case234 ℝ (realNumX μ S) r phi_bar_j (φ - δj) θ z_bar_k := by
  cylseg_sphlin Hr_phij_case234

theorem Hr_zk_case234_sphlin (μ : ℝ) (S : SegSpecial) (r phi_bar_j z_bar_k : ℝ) :
    SphLin fun φ θ => @Hr_zk_case234 ℝ (realNumX μ S) r phi_bar_j θ z_bar_k := by
  cylseg_sphlin Hr_zk_case234

theorem Hphi_ri_case234_sphlin (μ : ℝ) (S : SegSpecial) (r phi_bar_j z_bar_k δ : ℝ) :
    SphLin fun φ θ => @Hphi_ri_case234 ℝ (realNumX μ S) r phi_bar_j (φ - δ) θ z_bar_k := by
  cylseg_sphlin Hphi_ri_case234

theorem Hphi_phij_case234_sphlin (μ : ℝ) (S : SegSpecial) (r phi_bar_j z_bar_k δj : ℝ) :
    SphLin fun φ θ => @Hphi_phij_case234 ℝ (realNumX μ S) r phi_bar_j (φ - δj) θ z_bar_k := by
  cylseg_sphlin Hphi_phij_case234

theorem Hphi_zk_case234_sphlin (μ : ℝ) (S : SegSpecial) (r phi_bar_j z_bar_k : ℝ) :
    SphLin fun φ θ => @Hphi_zk_case234 ℝ (realNumX μ S) r phi_bar_j θ z_bar_k := by
  cylseg_sphlin Hphi_zk_case234

theorem Hz_ri_case234_sphlin (μ : ℝ) (S : SegSpecial) (r phi_bar_j z_bar_k δ : ℝ) :
    SphLin fun φ θ => @Hz_ri_case234 ℝ (realNumX μ S) r phi_bar_j (φ - δ) θ z_bar_k := by
  cylseg_sphlin Hz_ri_case234

theorem Hz_phij_case234_sphlin (μ : ℝ) (S : SegSpecial) (r phi_bar_j z_bar_k δj : ℝ) :
    SphLin fun φ θ => @Hz_phij_case234 ℝ (realNumX μ S) r phi_bar_j (φ - δj) θ z_bar_k := by
  cylseg_sphlin Hz_phij_case234

theorem Hz_zk_case234_sphlin (μ : ℝ) (S : SegSpecial) (r phi_bar_j z_bar_k : ℝ) :
    SphLin fun φ θ => @Hz_zk_case234 ℝ (realNumX μ S) r phi_bar_j θ z_bar_k := by
  cylseg_sphlin Hz_zk_case234

theorem Hr_ri_case235_sphlin (μ : ℝ) (S : SegSpecial) (r r_i r_bar_i phi_bar_j z_bar_k δ : ℝ) :
    SphLin fun φ θ => @Hr_ri_case235 ℝ (realNumX μ S) r r_i r_bar_i phi_bar_j (φ - δ) θ z_bar_k := by
  cylseg_sphlin Hr_ri_case235

theorem Hr_phij_case235_sphlin (μ : ℝ) (S : SegSpecial) (r r_i phi_bar_j z_bar_k δj : ℝ) :
    SphLin fun φ θ => @Hr_phij_case235 ℝ (realNumX μ S) r r_i phi_bar_j (φ - δj) θ z_bar_k := by
  cylseg_sphlin Hr_phij_case235

theorem Hr_zk_case235_sphlin (μ : ℝ) (S : SegSpecial) (r r_i r_bar_i phi_bar_j z_bar_k : ℝ) :
    SphLin fun φ θ => @Hr_zk_case235 ℝ (realNumX μ S) r r_i r_bar_i phi_bar_j θ z_bar_k := by
  cylseg_sphlin Hr_zk_case235

theorem Hphi_ri_case235_sphlin (μ : ℝ) (S : SegSpecial) (r r_i r_bar_i phi_bar_j z_bar_k δ : ℝ) :
    SphLin fun φ θ => @Hphi_ri_case235 ℝ (realNumX μ S) r r_i r_bar_i phi_bar_j (φ - δ) θ z_bar_k := by
  cylseg_sphlin Hphi_ri_case235

theorem Hphi_phij_case235_sphlin (μ : ℝ) (S : SegSpecial) (r r_i phi_bar_j z_bar_k δj : ℝ) :
    SphLin fun φ θ => @Hphi_phij_case235 ℝ (realNumX μ S) r r_i phi_bar_j (φ - δj) θ z_bar_k := by
  cylseg_sphlin Hphi_phij_case235

theorem Hphi_zk_case235_sphlin (μ : ℝ) (S : SegSpecial) (r r_i phi_bar_j z_bar_k : ℝ) :
    SphLin fun φ θ => @Hphi_zk_case235 ℝ (realNumX μ S) r r_i phi_bar_j θ z_bar_k := by
  cylseg_sphlin Hphi_zk_case235

theorem Hz_ri_case235_sphlin (μ : ℝ) (S : SegSpecial) (r r_i r_bar_i phi_bar_j z_bar_k δ : ℝ) :
    SphLin fun φ θ => @Hz_ri_case235 ℝ (realNumX μ S) r r_i r_bar_i phi_bar_j (φ - δ) θ z_bar_k := by
  cylseg_sphlin Hz_ri_case235

theorem Hz_phij_case235_sphlin (μ : ℝ) (S : SegSpecial) (r r_i phi_bar_j z_bar_k δj : ℝ) :
    SphLin fun φ θ => @Hz_phij_case235 ℝ (realNumX μ S) r r_i phi_bar_j (φ - δj) θ z_bar_k := by
  cylseg_sphlin Hz_phij_case235

theorem Hz_zk_case235_sphlin (μ : ℝ) (S : SegSpecial) (r r_i r_bar_i phi_bar_j z_bar_k : ℝ) :
    SphLin fun φ θ => @Hz_zk_case235 ℝ (realNumX μ S) r r_i r_bar_i phi_bar_j θ z_bar_k := by
  cylseg_sphlin Hz_zk_case235

theorem case112_sphlin (μ : ℝ) (S : SegSpecial) (r_i δ : ℝ) :
    SphLinB fun φ θ => @case112 ℝ (realNumX μ S) r_i (φ - δ) θ := by
  intro φ θ
  apply blockExt
  · exact sphLin_zero μ φ θ
  · exact sphLin_zero μ φ θ
  · exact sphLin_zero μ φ θ
  · exact sphLin_zero μ φ θ
  · exact sphLin_zero μ φ θ
  · exact Hphi_zk_case112_sphlin μ S (r_i) φ θ
  · exact Hz_ri_case112_sphlin μ S δ φ θ
  · exact Hz_phij_case112_sphlin μ S (r_i) δ φ θ
  · exact sphLin_zero μ φ θ

theorem case113_sphlin (μ : ℝ) (S : SegSpecial) (r δ : ℝ) :
    SphLinB fun φ θ => @case113 ℝ (realNumX μ S) r (φ - δ) θ := by
  intro φ θ
  apply blockExt
  · exact sphLin_zero μ φ θ
  · exact sphLin_zero μ φ θ
  · exact sphLin_zero μ φ θ
  · exact sphLin_zero μ φ θ
  · exact sphLin_zero μ φ θ
  · exact Hphi_zk_case113_sphlin μ S (r) φ θ
  · exact sphLin_zero μ φ θ
  · exact Hz_phij_case113_sphlin μ S (r) δ φ θ
  · exact sphLin_zero μ φ θ

theorem case115_sphlin (μ : ℝ) (S : SegSpecial) (r r_i r_bar_i phi_bar_j δ : ℝ) :
    SphLinB fun φ θ => @case115 ℝ (realNumX μ S) r r_i r_bar_i phi_bar_j (φ - δ) θ := by
  intro φ θ
  apply blockExt
  · exact sphLin_zero μ φ θ
  · exact sphLin_zero μ φ θ
  · exact Hr_zk_case115_sphlin μ S (r) (r_i) (r_bar_i) (phi_bar_j) φ θ
  · exact sphLin_zero μ φ θ
  · exact sphLin_zero μ φ θ
  · exact Hphi_zk_case115_sphlin μ S (r) (r_i) (r_bar_i) φ θ
  · exact Hz_ri_case115_sphlin μ S (r) (r_i) (r_bar_i) (phi_bar_j) δ φ θ
  · exact Hz_phij_case115_sphlin μ S (r_bar_i) δ φ θ
  · exact sphLin_zero μ φ θ

theorem case122_sphlin (μ : ℝ) (S : SegSpecial) (r_i δ : ℝ) :
    SphLinB fun φ θ => @case122 ℝ (realNumX μ S) r_i (φ - δ) θ := by
  intro φ θ
  apply blockExt
  · exact sphLin_zero μ φ θ
  · exact sphLin_zero μ φ θ
  · exact sphLin_zero μ φ θ
  · exact sphLin_zero μ φ θ
  · exact sphLin_zero μ φ θ
  · exact Hphi_zk_case122_sphlin μ S (r_i) φ θ
  · exact Hz_ri_case122_sphlin μ S δ φ θ
  · exact Hz_phij_case122_sphlin μ S (r_i) δ φ θ
  · exact sphLin_zero μ φ θ

theorem case123_sphlin (μ : ℝ) (S : SegSpecial) (r δ : ℝ) :
    SphLinB fun φ θ => @case123 ℝ (realNumX μ S) r (φ - δ) θ := by
  intro φ θ
  apply blockExt
  · exact sphLin_zero μ φ θ
  · exact sphLin_zero μ φ θ
  · exact sphLin_zero μ φ θ
  · exact sphLin_zero μ φ θ
  · exact sphLin_zero μ φ θ
  · exact Hphi_zk_case123_sphlin μ S (r) φ θ
  · exact sphLin_zero μ φ θ
  · exact Hz_phij_case123_sphlin μ S (r) δ φ θ
  · exact sphLin_zero μ φ θ

theorem case124_sphlin (μ : ℝ) (S : SegSpecial) (r δ : ℝ) :
    SphLinB fun φ θ => @case124 ℝ (realNumX μ S) r (φ - δ) θ := by
  intro φ θ
  apply blockExt
  · exact sphLin_zero μ φ θ
  · exact sphLin_zero μ φ θ
  · exact sphLin_zero μ φ θ
  · exact sphLin_zero μ φ θ
  · exact sphLin_zero μ φ θ
  · exact Hphi_zk_case124_sphlin μ S (r) φ θ
  · exact Hz_ri_case124_sphlin μ S δ φ θ
  · exact Hz_phij_case124_sphlin μ S (r) δ φ θ
  · exact sphLin_zero μ φ θ

theorem case125_sphlin (μ : ℝ) (S : SegSpecial) (r r_i r_bar_i phi_bar_j δ : ℝ) :
    SphLinB fun φ θ => @case125 ℝ (realNumX μ S) r r_i r_bar_i phi_bar_j (φ - δ) θ := by
  intro φ θ
  apply blockExt
  · exact sphLin_zero μ φ θ
  · exact sphLin_zero μ φ θ
  · exact Hr_zk_case125_sphlin μ S (r) (r_i) (r_bar_i) (phi_bar_j) φ θ
  · exact sphLin_zero μ φ θ
  · exact sphLin_zero μ φ θ
  · exact Hphi_zk_case125_sphlin μ S (r) (r_i) φ θ
  · exact Hz_ri_case125_sphlin μ S (r) (r_i) (r_bar_i) (phi_bar_j) δ φ θ
  · exact Hz_phij_case125_sphlin μ S (r) (r_i) δ φ θ
  · exact sphLin_zero μ φ θ

theorem case132_sphlin (μ : ℝ) (S : SegSpecial) (r r_i phi_bar_j δj : ℝ) :
    SphLinB fun φ θ => @case132 ℝ (realNumX μ S) r r_i phi_bar_j (φ - δj) θ := by
  intro φ θ
  apply blockExt
  · exact sphLin_zero μ φ θ
  · exact sphLin_zero μ φ θ
  · exact Hr_zk_case132_sphlin μ S (r_i) (phi_bar_j) φ θ
  · exact sphLin_zero μ φ θ
  · exact sphLin_zero μ φ θ
  · exact Hphi_zk_case132_sphlin μ S (r_i) (phi_bar_j) φ θ
  · exact Hz_ri_case132_sphlin μ S δj φ θ
  · exact Hz_phij_case132_sphlin μ S (r_i) δj φ θ
  · exact sphLin_zero μ φ θ

theorem case133_sphlin (μ : ℝ) (S : SegSpecial) (r phi_bar_j δj : ℝ) :
    SphLinB fun φ θ => @case133 ℝ (realNumX μ S) r phi_bar_j (φ - δj) θ := by
  intro φ θ
  apply blockExt
  · exact sphLin_zero μ φ θ
  · exact sphLin_zero μ φ θ
  · exact Hr_zk_case133_sphlin μ S (r) (phi_bar_j) φ θ
  · exact sphLin_zero μ φ θ
  · exact sphLin_zero μ φ θ
  · exact Hphi_zk_case133_sphlin μ S (phi_bar_j) φ θ
  · exact sphLin_zero μ φ θ
  · exact Hz_phij_case133_sphlin μ S (phi_bar_j) δj φ θ
  · exact sphLin_zero μ φ θ

theorem case134_sphlin (μ : ℝ) (S : SegSpecial) (r phi_bar_j δ δj : ℝ) :
    SphLinB fun φ θ => @case134 ℝ (realNumX μ S) r phi_bar_j (φ - δ) (φ - δj) θ := by
  intro φ θ
  apply blockExt
  · exact sphLin_zero μ φ θ
  · exact sphLin_zero μ φ θ
  · exact Hr_zk_case134_sphlin μ S (r) (phi_bar_j) φ θ
  · exact sphLin_zero μ φ θ
  · exact sphLin_zero μ φ θ
  · exact Hphi_zk_case134_sphlin μ S (phi_bar_j) φ θ
  · exact Hz_ri_case134_sphlin μ S (phi_bar_j) δ φ θ
  · exact Hz_phij_case134_sphlin μ S (phi_bar_j) δj φ θ
  · exact sphLin_zero μ φ θ

theorem case135_sphlin (μ : ℝ) (S : SegSpecial) (r r_i r_bar_i phi_bar_j δ δj : ℝ) :
    SphLinB fun φ θ => @case135 ℝ (realNumX μ S) r r_i r_bar_i phi_bar_j (φ - δ) (φ - δj) θ := by
  intro φ θ
  apply blockExt
  · exact sphLin_zero μ φ θ
  · exact sphLin_zero μ φ θ
  · exact Hr_zk_case135_sphlin μ S (r) (r_i) (r_bar_i) (phi_bar_j) φ θ
  · exact sphLin_zero μ φ θ
  · exact sphLin_zero μ φ θ
  · exact Hphi_zk_case135_sphlin μ S (r) (r_i) (phi_bar_j) φ θ
  · exact Hz_ri_case135_sphlin μ S (r) (r_i) (r_bar_i) (phi_bar_j) δ φ θ
  · exact Hz_phij_case135_sphlin μ S (r) (r_i) (phi_bar_j) δj φ θ
  · exact sphLin_zero μ φ θ

theorem case211_sphlin (μ : ℝ) (S : SegSpecial) (phi_j z_bar_k δ : ℝ) :
    SphLinB fun φ θ => @case211 ℝ (realNumX μ S) phi_j (φ - δ) θ z_bar_k := by
  intro φ θ
  apply blockExt
  · exact sphLin_zero μ φ θ
  · exact Hr_phij_case211_sphlin μ S (z_bar_k) δ φ θ
  · exact sphLin_zero μ φ θ
  · exact sphLin_zero μ φ θ
  · exact sphLin_zero μ φ θ
  · exact sphLin_zero μ φ θ
  · exact sphLin_zero μ φ θ
  · exact sphLin_zero μ φ θ
  · exact Hz_zk_case211_sphlin μ S (phi_j) (z_bar_k) φ θ

theorem case212_sphlin (μ : ℝ) (S : SegSpecial) (r_i phi_j z_bar_k δ : ℝ) :
    SphLinB fun φ θ => @case212 ℝ (realNumX μ S) r_i phi_j (φ - δ) θ z_bar_k := by
  intro φ θ
  apply blockExt
  · exact Hr_ri_case212_sphlin μ S (r_i) (phi_j) (z_bar_k) δ φ θ
  · exact Hr_phij_case212_sphlin μ S (r_i) (z_bar_k) δ φ θ
  · exact sphLin_zero μ φ θ
  · exact Hphi_ri_case212_sphlin μ S (r_i) (phi_j) (z_bar_k) δ φ θ
  · exact sphLin_zero μ φ θ
  · exact Hphi_zk_case212_sphlin μ S (r_i) (z_bar_k) φ θ
  · exact Hz_ri_case212_sphlin μ S (r_i) (z_bar_k) δ φ θ
  · exact Hz_phij_case212_sphlin μ S (r_i) (z_bar_k) δ φ θ
  · exact Hz_zk_case212_sphlin μ S (r_i) (phi_j) (z_bar_k) φ θ

theorem case213_sphlin (μ : ℝ) (S : SegSpecial) (r phi_bar_j z_bar_k δ : ℝ) :
    SphLinB fun φ θ => @case213 ℝ (realNumX μ S) r phi_bar_j (φ - δ) θ z_bar_k := by
  intro φ θ
  apply blockExt
  · exact sphLin_zero μ φ θ
  · exact Hr_phij_case213_sphlin μ S (r) (z_bar_k) δ φ θ
  · exact sphLin_zero μ φ θ
  · exact sphLin_zero μ φ θ
  · exact sphLin_zero μ φ θ
  · exact Hphi_zk_case213_sphlin μ S (r) (z_bar_k) φ θ
  · exact sphLin_zero μ φ θ
  · exact Hz_phij_case213_sphlin μ S (r) (z_bar_k) δ φ θ
  · exact Hz_zk_case213_sphlin μ S (phi_bar_j) (z_bar_k) φ θ

theorem case214_sphlin (μ : ℝ) (S : SegSpecial) (r phi_j phi_bar_j z_bar_k δ : ℝ) :
    SphLinB fun φ θ => @case214 ℝ (realNumX μ S) r phi_j phi_bar_j (φ - δ) θ z_bar_k := by
  intro φ θ
  apply blockExt
  · exact Hr_ri_case214_sphlin μ S (r) (phi_bar_j) (z_bar_k) δ φ θ
  · exact Hr_phij_case214_sphlin μ S (z_bar_k) δ φ θ
  · exact Hr_zk_case214_sphlin μ S (r) (phi_bar_j) (z_bar_k) φ θ
  · exact Hphi_ri_case214_sphlin μ S (r) (phi_j) (phi_bar_j) (z_bar_k) δ φ θ
  · exact sphLin_zero μ φ θ
  · exact Hphi_zk_case214_sphlin μ S (r) (z_bar_k) φ θ
  · exact Hz_ri_case214_sphlin μ S (r) (phi_bar_j) (z_bar_k) δ φ θ
  · exact sphLin_zero μ φ θ
  · exact Hz_zk_case214_sphlin μ S (r) (phi_bar_j) (z_bar_k) φ θ

theorem case215_sphlin (μ : ℝ) (S : SegSpecial) (r r_i r_bar_i phi_bar_j z_bar_k δ : ℝ) :
    SphLinB fun φ θ => @case215 ℝ (realNumX μ S) r r_i r_bar_i phi_bar_j (φ - δ) θ z_bar_k := by
  intro φ θ
  apply blockExt
  · exact Hr_ri_case215_sphlin μ S (r) (r_i) (r_bar_i) (phi_bar_j) (z_bar_k) δ φ θ
  · exact Hr_phij_case215_sphlin μ S (r_bar_i) (z_bar_k) δ φ θ
  · exact Hr_zk_case215_sphlin μ S (r) (r_i) (r_bar_i) (phi_bar_j) (z_bar_k) φ θ
  · exact Hphi_ri_case215_sphlin μ S (r) (r_i) (r_bar_i) (phi_bar_j) (z_bar_k) δ φ θ
  · exact sphLin_zero μ φ θ
  · exact Hphi_zk_case215_sphlin μ S (r) (r_bar_i) (z_bar_k) φ θ
  · exact Hz_ri_case215_sphlin μ S (r) (r_i) (r_bar_i) (phi_bar_j) (z_bar_k) δ φ θ
  · exact Hz_phij_case215_sphlin μ S (r_bar_i) (z_bar_k) δ φ θ
  · exact Hz_zk_case215_sphlin μ S (r) (r_i) (r_bar_i) (phi_bar_j) (z_bar_k) φ θ

theorem case221_sphlin (μ : ℝ) (S : SegSpecial) (phi_j z_bar_k δ : ℝ) :
    SphLinB fun φ θ => @case221 ℝ (realNumX μ S) phi_j (φ - δ) θ z_bar_k := by
  intro φ θ
  apply blockExt
  · exact sphLin_zero μ φ θ
  · exact Hr_phij_case221_sphlin μ S (z_bar_k) δ φ θ
  · exact sphLin_zero μ φ θ
  · exact sphLin_zero μ φ θ
  · exact sphLin_zero μ φ θ
  · exact sphLin_zero μ φ θ
  · exact sphLin_zero μ φ θ
  · exact sphLin_zero μ φ θ
  · exact Hz_zk_case221_sphlin μ S (phi_j) (z_bar_k) φ θ

theorem case222_sphlin (μ : ℝ) (S : SegSpecial) (r_i phi_j z_bar_k δ : ℝ) :
    SphLinB fun φ θ => @case222 ℝ (realNumX μ S) r_i phi_j (φ - δ) θ z_bar_k := by
  intro φ θ
  apply blockExt
  · exact Hr_ri_case222_sphlin μ S (r_i) (phi_j) (z_bar_k) δ φ θ
  · exact Hr_phij_case222_sphlin μ S (r_i) (z_bar_k) δ φ θ
  · exact sphLin_zero μ φ θ
  · exact Hphi_ri_case222_sphlin μ S (r_i) (phi_j) (z_bar_k) δ φ θ
  · exact sphLin_zero μ φ θ
  · exact Hphi_zk_case222_sphlin μ S (r_i) (z_bar_k) φ θ
  · exact Hz_ri_case222_sphlin μ S (r_i) (z_bar_k) δ φ θ
  · exact Hz_phij_case222_sphlin μ S (r_i) (z_bar_k) δ φ θ
  · exact Hz_zk_case222_sphlin μ S (r_i) (phi_j) (z_bar_k) φ θ

theorem case223_sphlin (μ : ℝ) (S : SegSpecial) (r phi_bar_j z_bar_k δ : ℝ) :
    SphLinB fun φ θ => @case223 ℝ (realNumX μ S) r phi_bar_j (φ - δ) θ z_bar_k := by
  intro φ θ
  apply blockExt
  · exact sphLin_zero μ φ θ
  · exact Hr_phij_case223_sphlin μ S (r) (z_bar_k) δ φ θ
  · exact sphLin_zero μ φ θ
  · exact sphLin_zero μ φ θ
  · exact sphLin_zero μ φ θ
  · exact Hphi_zk_case223_sphlin μ S (r) (z_bar_k) φ θ
  · exact sphLin_zero μ φ θ
  · exact Hz_phij_case223_sphlin μ S (r) (z_bar_k) δ φ θ
  · exact Hz_zk_case223_sphlin μ S (r) (phi_bar_j) (z_bar_k) φ θ

theorem case224_sphlin (μ : ℝ) (S : SegSpecial) (r phi_bar_j z_bar_k δ : ℝ) :
    SphLinB fun φ θ => @case224 ℝ (realNumX μ S) r phi_bar_j (φ - δ) θ z_bar_k := by
  intro φ θ
  apply blockExt
  · exact Hr_ri_case224_sphlin μ S (r) (phi_bar_j) (z_bar_k) δ φ θ
  · exact Hr_phij_case224_sphlin μ S (r) (z_bar_k) δ φ θ
  · exact Hr_zk_case224_sphlin μ S (r) (phi_bar_j) (z_bar_k) φ θ
  · exact Hphi_ri_case224_sphlin μ S (r) (phi_bar_j) (z_bar_k) δ φ θ
  · exact sphLin_zero μ φ θ
  · exact Hphi_zk_case224_sphlin μ S (r) (z_bar_k) φ θ
  · exact Hz_ri_case224_sphlin μ S (r) (phi_bar_j) (z_bar_k) δ φ θ
  · exact Hz_phij_case224_sphlin μ S (r) (z_bar_k) δ φ θ
  · exact Hz_zk_case224_sphlin μ S (r) (phi_bar_j) (z_bar_k) φ θ

theorem case225_sphlin (μ : ℝ) (S : SegSpecial) (r r_i r_bar_i phi_bar_j z_bar_k δ : ℝ) :
    SphLinB fun φ θ => @case225 ℝ (realNumX μ S) r r_i r_bar_i phi_bar_j (φ - δ) θ z_bar_k := by
  intro φ θ
  apply blockExt
  · exact Hr_ri_case225_sphlin μ S (r) (r_i) (r_bar_i) (phi_bar_j) (z_bar_k) δ φ θ
  · exact Hr_phij_case225_sphlin μ S (r) (r_i) (z_bar_k) δ φ θ
  · exact Hr_zk_case225_sphlin μ S (r) (r_i) (r_bar_i) (phi_bar_j) (z_bar_k) φ θ
  · exact Hphi_ri_case225_sphlin μ S (r) (r_i) (r_bar_i) (phi_bar_j) (z_bar_k) δ φ θ
  · exact sphLin_zero μ φ θ
  · exact Hphi_zk_case225_sphlin μ S (r) (r_i) (z_bar_k) φ θ
  · exact Hz_ri_case225_sphlin μ S (r) (r_i) (r_bar_i) (phi_bar_j) (z_bar_k) δ φ θ
  · exact Hz_phij_case225_sphlin μ S (r) (r_i) (z_bar_k) δ φ θ
  · exact Hz_zk_case225_sphlin μ S (r) (r_i) (r_bar_i) (phi_bar_j) (z_bar_k) φ θ

theorem case231_sphlin (μ : ℝ) (S : SegSpecial) (phi_j phi_bar_j z_bar_k δj : ℝ) :
    SphLinB fun φ θ => @case231 ℝ (realNumX μ S) phi_j phi_bar_j (φ - δj) θ z_bar_k := by
  intro φ θ
  apply blockExt
  · exact sphLin_zero μ φ θ
  · exact Hr_phij_case231_sphlin μ S (phi_bar_j) (z_bar_k) δj φ θ
  · exact sphLin_zero μ φ θ
  · exact sphLin_zero μ φ θ
  · exact Hphi_phij_case231_sphlin μ S (phi_bar_j) (z_bar_k) δj φ θ
  · exact sphLin_zero μ φ θ
  · exact sphLin_zero μ φ θ
  · exact sphLin_zero μ φ θ
  · exact Hz_zk_case231_sphlin μ S (phi_j) (z_bar_k) φ θ

theorem case232_sphlin (μ : ℝ) (S : SegSpecial) (r_i phi_j phi_bar_j z_bar_k δ δj : ℝ) :
    SphLinB fun φ θ => @case232 ℝ (realNumX μ S) r_i phi_j phi_bar_j (φ - δ) (φ - δj) θ z_bar_k := by
  intro φ θ
  apply blockExt
  · exact Hr_ri_case232_sphlin μ S (r_i) (phi_j) (phi_bar_j) (z_bar_k) δ δj φ θ
  · exact Hr_phij_case232_sphlin μ S (r_i) (phi_bar_j) (z_bar_k) δj φ θ
  · exact Hr_zk_case232_sphlin μ S (r_i) (phi_bar_j) (z_bar_k) φ θ
  · exact Hphi_ri_case232_sphlin μ S (r_i) (phi_j) (phi_bar_j) (z_bar_k) δ δj φ θ
  · exact Hphi_phij_case232_sphlin μ S (r_i) (phi_bar_j) (z_bar_k) δj φ θ
  · exact Hphi_zk_case232_sphlin μ S (r_i) (phi_bar_j) (z_bar_k) φ θ
  · exact Hz_ri_case232_sphlin μ S (r_i) (z_bar_k) δj φ θ
  · exact Hz_phij_case232_sphlin μ S (r_i) (z_bar_k) δj φ θ
  · exact Hz_zk_case232_sphlin μ S (r_i) (phi_j) (z_bar_k) φ θ

theorem case233_sphlin (μ : ℝ) (S : SegSpecial) (r phi_bar_j z_bar_k δj : ℝ) :
    SphLinB fun φ θ => @case233 ℝ (realNumX μ S) r phi_bar_j (φ - δj) θ z_bar_k := by
  intro φ θ
  apply blockExt
  · exact sphLin_zero μ φ θ
  · exact Hr_phij_case233_sphlin μ S (r) (phi_bar_j) (z_bar_k) δj φ θ
  · exact Hr_zk_case233_sphlin μ S (r) (phi_bar_j) (z_bar_k) φ θ
  · exact sphLin_zero μ φ θ
  · exact Hphi_phij_case233_sphlin μ S (r) (phi_bar_j) (z_bar_k) δj φ θ
  · exact Hphi_zk_case233_sphlin μ S (r) (phi_bar_j) (z_bar_k) φ θ
  · exact sphLin_zero μ φ θ
  · exact Hz_phij_case233_sphlin μ S (r) (phi_bar_j) (z_bar_k) δj φ θ
  · exact Hz_zk_case233_sphlin μ S (r) (phi_bar_j) (z_bar_k) φ θ

theorem case234_sphlin (μ : ℝ) (S : SegSpecial) (r phi_bar_j z_bar_k δ δj : ℝ) :
    SphLinB fun φ θ => @case234 ℝ (realNumX μ S) r phi_bar_j (φ - δ) (φ - δj) θ z_bar_k := by
  intro φ θ
  apply blockExt
  · exact Hr_ri_case234_sphlin μ S (r) (phi_bar_j) (z_bar_k) δ φ θ
  · exact Hr_phij_case234_sphlin μ S (r) (phi_bar_j) (z_bar_k) δj φ θ
  · exact Hr_zk_case234_sphlin μ S (r) (phi_bar_j) (z_bar_k) φ θ
  · exact Hphi_ri_case234_sphlin μ S (r) (phi_bar_j) (z_bar_k) δ φ θ
  · exact Hphi_phij_case234_sphlin μ S (r) (phi_bar_j) (z_bar_k) δj φ θ
  · exact Hphi_zk_case234_sphlin μ S (r) (phi_bar_j) (z_bar_k) φ θ
  · exact Hz_ri_case234_sphlin μ S (r) (phi_bar_j) (z_bar_k) δ φ θ
  · exact Hz_phij_case234_sphlin μ S (r) (phi_bar_j) (z_bar_k) δj φ θ
  · exact Hz_zk_case234_sphlin μ S (r) (phi_bar_j) (z_bar_k) φ θ

theorem case235_sphlin (μ : ℝ) (S : SegSpecial) (r r_i r_bar_i phi_bar_j z_bar_k δ δj : ℝ) :
    SphLinB fun φ θ => @case235 ℝ (realNumX μ S) r r_i r_bar_i phi_bar_j (φ - δ) (φ - δj) θ z_bar_k := by
  intro φ θ
  apply blockExt
  · exact Hr_ri_case235_sphlin μ S (r) (r_i) (r_bar_i) (phi_bar_j) (z_bar_k) δ φ θ
  · exact Hr_phij_case235_sphlin μ S (r) (r_i) (phi_bar_j) (z_bar_k) δj φ θ
  · exact Hr_zk_case235_sphlin μ S (r) (r_i) (r_bar_i) (phi_bar_j) (z_bar_k) φ θ
  · exact Hphi_ri_case235_sphlin μ S (r) (r_i) (r_bar_i) (phi_bar_j) (z_bar_k) δ φ θ
  · exact Hphi_phij_case235_sphlin μ S (r) (r_i) (phi_bar_j) (z_bar_k) δj φ θ
  · exact Hphi_zk_case235_sphlin μ S (r) (r_i) (phi_bar_j) (z_bar_k) φ θ
  · exact Hz_ri_case235_sphlin μ S (r) (r_i) (r_bar_i) (phi_bar_j) (z_bar_k) δ φ θ
  · exact Hz_phij_case235_sphlin μ S (r) (r_i) (phi_bar_j) (z_bar_k) δj φ θ
  · exact Hz_zk_case235_sphlin μ S (r) (r_i) (r_bar_i) (phi_bar_j) (z_bar_k) φ θ

theorem caseDispatch_sphlin (μ : ℝ) (S : SegSpecial) (cid : Nat) (r phi z r_i phi_j z_k : ℝ) :
    SphLinO fun φ θ => @caseDispatch ℝ (realNumX μ S) cid (@allArgs ℝ (realNumX μ S) r phi z r_i phi_j z_k φ θ) := by
  by_cases hm : cid ∈ caseIds
  · simp only [caseIds, List.mem_cons, List.not_mem_nil, or_false] at hm
    rcases hm with h | h | h | h | h | h | h | h | h | h | h | h | h | h | h | h | h | h | h | h | h | h | h | h | h | h <;> subst h
    · exact SphLinO.of_some (case112_sphlin μ S (r_i) phi)
    · exact SphLinO.of_some (case113_sphlin μ S (r) phi)
    · exact SphLinO.of_some (case115_sphlin μ S (r) (r_i) (r - r_i) (phi - phi_j) phi)
    · exact SphLinO.of_some (case122_sphlin μ S (r_i) phi)
    · exact SphLinO.of_some (case123_sphlin μ S (r) phi)
    · exact SphLinO.of_some (case124_sphlin μ S (r) phi)
    · exact SphLinO.of_some (case125_sphlin μ S (r) (r_i) (r - r_i) (phi - phi_j) phi)
    · exact SphLinO.of_some (case132_sphlin μ S (r) (r_i) (phi - phi_j) phi_j)
    · exact SphLinO.of_some (case133_sphlin μ S (r) (phi - phi_j) phi_j)
    · exact SphLinO.of_some (case134_sphlin μ S (r) (phi - phi_j) phi phi_j)
    · exact SphLinO.of_some (case135_sphlin μ S (r) (r_i) (r - r_i) (phi - phi_j) phi phi_j)
    · exact SphLinO.of_some (case211_sphlin μ S (phi_j) (z - z_k) phi)
    · exact SphLinO.of_some (case212_sphlin μ S (r_i) (phi_j) (z - z_k) phi)
    · exact SphLinO.of_some (case213_sphlin μ S (r) (phi - phi_j) (z - z_k) phi)
    · exact SphLinO.of_some (case214_sphlin μ S (r) (phi_j) (phi - phi_j) (z - z_k) phi)
    · exact SphLinO.of_some (case215_sphlin μ S (r) (r_i) (r - r_i) (phi - phi_j) (z - z_k) phi)
    · exact SphLinO.of_some (case221_sphlin μ S (phi_j) (z - z_k) phi)
    · exact SphLinO.of_some (case222_sphlin μ S (r_i) (phi_j) (z - z_k) phi)
    · exact SphLinO.of_some (case223_sphlin μ S (r) (phi - phi_j) (z - z_k) phi)
    · exact SphLinO.of_some (case224_sphlin μ S (r) (phi - phi_j) (z - z_k) phi)
    · exact SphLinO.of_some (case225_sphlin μ S (r) (r_i) (r - r_i) (phi - phi_j) (z - z_k) phi)
    · exact SphLinO.of_some (case231_sphlin μ S (phi_j) (phi - phi_j) (z - z_k) phi_j)
    · exact SphLinO.of_some (case232_sphlin μ S (r_i) (phi_j) (phi - phi_j) (z - z_k) phi phi_j)
    · exact SphLinO.of_some (case233_sphlin μ S (r) (phi - phi_j) (z - z_k) phi_j)
    · exact SphLinO.of_some (case234_sphlin μ S (r) (phi - phi_j) (z - z_k) phi phi_j)
    · exact SphLinO.of_some (case235_sphlin μ S (r) (r_i) (r - r_i) (phi - phi_j) (z - z_k) phi phi_j)
  · have hn : ∀ a, @caseDispatch ℝ (realNumX μ S) cid a = none := fun a => @caseDispatch_eq_none_of_not_mem ℝ (realNumX μ S) cid a hm
    simp only [hn]
    exact SphLinO.of_none

end MagpyVerif.Kern.CylSeg
