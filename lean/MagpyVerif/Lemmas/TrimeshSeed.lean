/-
Lemmas/TrimeshSeed.lean — C16: the seed test `is_facet_inwards` (Model/TrimeshInside.lean `isFacetInwards`) over the real carrier.
* `seedCheckPoint` is the check point of the model (`isFacetInwards face faces = maskInsideTrimesh faces (seedCheckPoint face)` by `rfl`),
  `touchProj` / `passThroughM` the two factors of the entry of `result_touch` (`faceTest_snd`, by `rfl`);
* for a facet of positive area the check point (displaced by 1e-5 × the LONGEST edge, repo fix ed093b8) has, on the facet's own normal and
  seen from any corner, normalised projection ≥ 1e-5/(1 + 1e-5): the own facet is never 'touched' (`seed_own_facet_not_touched`);
* with the rule before the fix (1e-5 × the FIRST edge, `seedCheckPointOld`) a needle facet of aspect ratio 1000 listed from its short
  edge is within the touch tolerance of its own plane and the outward facet of a valid tetrahedron is judged inwards (`sliverTetra_*`);
* inside the touch band the verdict of `mask_inside_trimesh` depends on which corner a face lists last (`band_outside`, `band_inside`).
-/
import MagpyVerif.Lemmas.TrimeshTetra
import MagpyVerif.Lemmas.TrimeshWinding
namespace MagpyVerif.Kern
open MagpyVerif

section generic
variable {α : Type} [Num α]
open Num

/-- the check point of `is_facet_inwards` -/
def seedCheckPoint (face : Tri α) : V3 α :=
  let v1 := face.1 - face.2.1
  let v2 := face.2.1 - face.2.2
  let orient := V3.cross v1 v2
  let orient := vd orient (norm orient)
  let v3 := face.2.2 - face.1
  let size := pyMax (pyMax (norm v1) (norm v2)) (norm v3)
  let eps := n 1 / n 100000 * size
  let centre := vd (face.1 + face.2.1 + face.2.2) (n 3)
  ⟨centre.x + orient.x * eps, centre.y + orient.y * eps, centre.z + orient.z * eps⟩

theorem isFacetInwards_eq_mask (face : Tri α) (faces : List (Tri α)) :
    isFacetInwards face faces = maskInsideTrimesh faces (seedCheckPoint face) := rfl

/-- `proj1` of `lines_end_in_trimesh` -/
def touchProj (l1 : V3 α) (f : Tri α) : α :=
  vNormProj (l1 - (if lt (vNorm2 (l1 - f.2.2)) (n 1 / n 10000000000000000) then f.2.1 else f.2.2))
    (V3.cross (f.1 - f.2.2) (f.2.1 - f.2.2))

def passThroughM (l0 l1 : V3 α) (f : Tri α) : Bool :=
  let a := f.1 - l0
  let b := f.2.1 - l0
  let c := f.2.2 - l0
  let d := l1 - l0
  let area1 := vDotCross3d a b d
  let area2 := vDotCross3d b c d
  let area3 := vDotCross3d c a d
  let eps := n 1 / n 1000000000000
  (lt (abs area1) eps || lt (abs area2) eps || lt (abs area3) eps) || (signEq area1 area2 && signEq area2 area3)

theorem faceTest_snd (l0 l1 : V3 α) (f : Tri α) :
    (faceTest l0 l1 f).2 = (passThroughM l0 l1 f && lt (abs (touchProj l1 f)) (n 1 / n 10000000)) := rfl
end generic

theorem vNormProj_ge_of (A N : V3 ℝ) (κ : ℝ) (hκ : 0 < κ) (hD : 0 < V3.dot A N)
    (h : κ ^ 2 * (vNorm2 A * vNorm2 N) ≤ (1 + κ) ^ 2 * (V3.dot A N) ^ 2) : κ / (1 + κ) ≤ vNormProj A N := by
  have hQ : 0 < vNorm2 A * vNorm2 N :=
    mul_pos (vNorm2_pos_of_dot_left A N hD.ne') (vNorm2_pos_of_dot_right A N hD.ne')
  have hs := Real.sqrt_pos.mpr hQ
  have hsq : Real.sqrt (vNorm2 A * vNorm2 N) ^ 2 = vNorm2 A * vNorm2 N := Real.sq_sqrt hQ.le
  have h1 : 0 < 1 + κ := by linarith
  simp only [vNormProj, sqrt_real]
  rw [div_le_div_iff₀ h1 hs]
  have hD' : V3.dot A N = A.x * N.x + A.y * N.y + A.z * N.z := rfl
  rw [← hD']
  have : (κ * Real.sqrt (vNorm2 A * vNorm2 N)) ^ 2 ≤ (V3.dot A N * (1 + κ)) ^ 2 := by
    rw [mul_pow, hsq]; nlinarith
  exact (pow_le_pow_iff_left₀ (by positivity) (by positivity) two_ne_zero).mp this

/-- geometric core: a point displaced from `c` by `κ·S` along the unit normal `O/w`, seen from a point `r` of the plane not farther
than `S` from `c`, has normalised projection at least `κ/(1+κ)` on the normal -/
theorem checkpoint_proj_ge (c r O : V3 ℝ) (w S κ : ℝ) (hw : 0 < w) (hww : w * w = vNorm2 O) (hS : 0 < S) (hκ : 0 < κ)
    (hperp : V3.dot (c - r) O = 0) (hdist : vNorm2 (c - r) ≤ S * S) :
    κ / (1 + κ) ≤ vNormProj ((⟨c.x + O.x / w * (κ * S), c.y + O.y / w * (κ * S), c.z + O.z / w * (κ * S)⟩ : V3 ℝ) - r) O := by
  set X : V3 ℝ := ⟨c.x + O.x / w * (κ * S), c.y + O.y / w * (κ * S), c.z + O.z / w * (κ * S)⟩ with hX
  have hw' : w ≠ 0 := hw.ne'
  simp only [vNorm2] at hww
  have hD : V3.dot (X - r) O = κ * S * w := by
    have e : V3.dot (X - r) O = V3.dot (c - r) O + κ * S / w * (O.x * O.x + O.y * O.y + O.z * O.z) := by
      simp only [hX, V3.dot, V3.sub_x, V3.sub_y, V3.sub_z]; ring
    rw [e, hperp, ← hww]; field_simp; ring
  have hN : vNorm2 (X - r) = vNorm2 (c - r) + κ * S * (κ * S) := by
    have e : vNorm2 (X - r) = vNorm2 (c - r) + 2 * (κ * S / w) * V3.dot (c - r) O +
        (κ * S / w) ^ 2 * (O.x * O.x + O.y * O.y + O.z * O.z) := by
      simp only [hX, vNorm2, V3.dot, V3.sub_x, V3.sub_y, V3.sub_z]; ring
    rw [e, hperp, ← hww]; field_simp; ring
  apply vNormProj_ge_of _ _ _ hκ
  · rw [hD]; positivity
  · rw [hD, hN]
    simp only [vNorm2] at hdist ⊢
    rw [← hww]
    have h1 : 0 ≤ κ ^ 2 * w ^ 2 * (S * S - ((c - r).x * (c - r).x + (c - r).y * (c - r).y + (c - r).z * (c - r).z)) :=
      mul_nonneg (by positivity) (sub_nonneg.mpr hdist)
    have h2 : 0 ≤ κ ^ 2 * w ^ 2 * (2 * κ * S * S) := by positivity
    nlinarith [h1, h2]

/-- the centroid of a triangle is not farther from a corner than the longer of the two edges at that corner -/
theorem centroid_dist_le (a b : V3 ℝ) (S : ℝ) (ha : vNorm2 a ≤ S * S) (hb : vNorm2 b ≤ S * S) :
    vNorm2 (⟨(a.x + b.x) / 3, (a.y + b.y) / 3, (a.z + b.z) / 3⟩ : V3 ℝ) ≤ S * S := by
  simp only [vNorm2] at *
  nlinarith [sq_nonneg (a.x - b.x), sq_nonneg (a.y - b.y), sq_nonneg (a.z - b.z), mul_self_nonneg S]


theorem vNorm2_le_of_norm_le (v : V3 ℝ) (S : ℝ) (h : Kern.norm v ≤ S) : vNorm2 v ≤ S * S := by
  have h0 : 0 ≤ Kern.norm v := by simp only [Kern.norm, sqrt_real]; exact Real.sqrt_nonneg _
  have := norm_sq v
  simp only [vNorm2]
  nlinarith

theorem vNorm2_sub_comm (a b : V3 ℝ) : vNorm2 (a - b) = vNorm2 (b - a) := by
  simp only [vNorm2, V3.sub_x, V3.sub_y, V3.sub_z]; ring

/-- Lagrange: `|a × b|² = |a|²|b|² − (a·b)²` -/
theorem vNorm2_cross (a b : V3 ℝ) : vNorm2 (V3.cross a b) = vNorm2 a * vNorm2 b - (V3.dot a b) ^ 2 := by
  simp only [vNorm2, V3.cross, V3.dot]; ring

theorem vNorm2_pos_of_cross_left (a b : V3 ℝ) (h : 0 < vNorm2 (V3.cross a b)) : 0 < vNorm2 a := by
  rw [vNorm2_cross] at h
  rcases (vNorm2_nonneg a).lt_or_eq with h' | h'
  · exact h'
  · rw [← h'] at h; nlinarith [sq_nonneg (V3.dot a b)]

theorem norm_pos_of_vNorm2_pos (v : V3 ℝ) (h : 0 < vNorm2 v) : 0 < Kern.norm v := by
  simp only [Kern.norm, sqrt_real]; exact Real.sqrt_pos.mpr h

/-- the facet normal of `is_facet_inwards` (`cross(f0 − f1, f1 − f2)`) is the facet normal of the ray test (`cross(f0 − f2, f1 − f2)`) -/
theorem seed_normal_eq (p0 p1 p2 : V3 ℝ) : V3.cross (p0 - p2) (p1 - p2) = V3.cross (p0 - p1) (p1 - p2) := by
  apply V3.ext' <;> simp only [V3.cross, V3.sub_x, V3.sub_y, V3.sub_z] <;> ring

/-- **the check point of `is_facet_inwards` clears the facet's own plane**: for a facet of positive area, seen from any of the three
corners, the normalised projection on the facet normal is at least `1e-5 / (1 + 1e-5)` — a hundred times the touch tolerance -/
theorem seedCheckPoint_proj_ge (face : Tri ℝ) (harea : 0 < vNorm2 (V3.cross (face.1 - face.2.1) (face.2.1 - face.2.2)))
    (r : V3 ℝ) (hr : r = face.1 ∨ r = face.2.1 ∨ r = face.2.2) :
    (1 / 100000 : ℝ) / (1 + 1 / 100000) ≤
      vNormProj (seedCheckPoint face - r) (V3.cross (face.1 - face.2.2) (face.2.1 - face.2.2)) := by
  obtain ⟨p0, p1, p2⟩ := face
  simp only at harea hr ⊢
  rw [seed_normal_eq]
  set O := V3.cross (p0 - p1) (p1 - p2) with hO
  set S := max (max (Kern.norm (p0 - p1)) (Kern.norm (p1 - p2))) (Kern.norm (p2 - p0)) with hS
  have h1 : Kern.norm (p0 - p1) ≤ S := (le_max_left _ _).trans (le_max_left _ _)
  have h2 : Kern.norm (p1 - p2) ≤ S := (le_max_right _ _).trans (le_max_left _ _)
  have h3 : Kern.norm (p2 - p0) ≤ S := le_max_right _ _
  have hSpos : 0 < S := lt_of_lt_of_le (norm_pos_of_vNorm2_pos _ (vNorm2_pos_of_cross_left _ _ harea)) h1
  have hw : 0 < Kern.norm O := norm_pos_of_vNorm2_pos _ harea
  have hX : seedCheckPoint (p0, p1, p2) =
      ⟨(vd (p0 + p1 + p2) 3).x + O.x / Kern.norm O * (1 / 100000 * S), (vd (p0 + p1 + p2) 3).y + O.y / Kern.norm O * (1 / 100000 * S),
        (vd (p0 + p1 + p2) 3).z + O.z / Kern.norm O * (1 / 100000 * S)⟩ := by
    simp only [seedCheckPoint, pyMax_real, vd, n, ofNat_real, Nat.cast_one, Nat.cast_ofNat]
    rfl
  rw [hX]
  have e1 := vNorm2_le_of_norm_le _ _ h1
  have e2 := vNorm2_le_of_norm_le _ _ h2
  have e3 := vNorm2_le_of_norm_le _ _ h3
  apply checkpoint_proj_ge (vd (p0 + p1 + p2) 3) r O (Kern.norm O) S (1 / 100000) hw (norm_sq O) hSpos (by norm_num)
  · rcases hr with rfl | rfl | rfl <;>
      (simp only [hO, V3.dot, V3.cross, vd, V3.sub_x, V3.sub_y, V3.sub_z, V3.add_x, V3.add_y, V3.add_z]; ring)
  · rcases hr with rfl | rfl | rfl
    · have := centroid_dist_le (p1 - r) (p2 - r) S (by rw [vNorm2_sub_comm]; exact e1) e3
      convert this using 2
      apply V3.ext' <;> simp only [vd, V3.sub_x, V3.sub_y, V3.sub_z, V3.add_x, V3.add_y, V3.add_z] <;> ring
    · have := centroid_dist_le (p0 - r) (p2 - r) S e1 (by rw [vNorm2_sub_comm]; exact e2)
      convert this using 2
      apply V3.ext' <;> simp only [vd, V3.sub_x, V3.sub_y, V3.sub_z, V3.add_x, V3.add_y, V3.add_z] <;> ring
    · have := centroid_dist_le (p0 - r) (p1 - r) S (by rw [vNorm2_sub_comm]; exact e3) e2
      convert this using 2
      apply V3.ext' <;> simp only [vd, V3.sub_x, V3.sub_y, V3.sub_z, V3.add_x, V3.add_y, V3.add_z] <;> ring


/-! ### the own facet is never 'touched' -/

theorem vd_sub (a b : V3 ℝ) (s : ℝ) : vd a s - vd b s = vd (a - b) s := by
  apply V3.ext' <;> simp only [vd, V3.sub_x, V3.sub_y, V3.sub_z] <;> ring

/-- the normalised projection on a facet normal does not change when all lengths are divided by `s > 0` -/
theorem vNormProj_vd (A B C : V3 ℝ) (s : ℝ) (hs : 0 < s) :
    vNormProj (vd A s) (V3.cross (vd B s) (vd C s)) = vNormProj A (V3.cross B C) := by
  have hs3 : 0 < s ^ 3 := by positivity
  have hq : vNorm2 (vd A s) * vNorm2 (V3.cross (vd B s) (vd C s)) = vNorm2 A * vNorm2 (V3.cross B C) / (s ^ 3) ^ 2 := by
    simp only [vNorm2, V3.cross, vd]; field_simp
  have hd : (vd A s).x * (V3.cross (vd B s) (vd C s)).x + (vd A s).y * (V3.cross (vd B s) (vd C s)).y +
      (vd A s).z * (V3.cross (vd B s) (vd C s)).z =
      (A.x * (V3.cross B C).x + A.y * (V3.cross B C).y + A.z * (V3.cross B C).z) / s ^ 3 := by
    simp only [V3.cross, vd]; field_simp
  simp only [vNormProj, sqrt_real]
  rw [hq, hd, Real.sqrt_div' _ (by positivity), Real.sqrt_sq hs3.le, div_div_div_cancel_right₀ hs3.ne']

theorem touchProj_ge_of_corners (X : V3 ℝ) (f : Tri ℝ) (b : ℝ)
    (h1 : b ≤ vNormProj (X - f.2.1) (V3.cross (f.1 - f.2.2) (f.2.1 - f.2.2)))
    (h2 : b ≤ vNormProj (X - f.2.2) (V3.cross (f.1 - f.2.2) (f.2.1 - f.2.2))) : b ≤ touchProj X f := by
  unfold touchProj; split <;> assumption

theorem touchProj_vd_ge_of_corners (X : V3 ℝ) (f : Tri ℝ) (b s : ℝ) (hs : 0 < s)
    (h1 : b ≤ vNormProj (X - f.2.1) (V3.cross (f.1 - f.2.2) (f.2.1 - f.2.2)))
    (h2 : b ≤ vNormProj (X - f.2.2) (V3.cross (f.1 - f.2.2) (f.2.1 - f.2.2))) : b ≤ touchProj (vd X s) (triDiv s f) := by
  unfold touchProj
  simp only [triDiv, vd_sub]
  split <;> (rw [vd_sub, vNormProj_vd _ _ _ s hs]; assumption)

theorem faceTest_snd_false_of_proj (l0 l1 : V3 ℝ) (f : Tri ℝ) (h : (1 / 10000000 : ℝ) ≤ touchProj l1 f) :
    (faceTest l0 l1 f).2 = false := by
  rw [faceTest_snd]
  have : ¬ |touchProj l1 f| < 1 / 10000000 := not_lt.mpr (h.trans (le_abs_self _))
  simp only [lt_real, abs_real, n, ofNat_real, Nat.cast_one, Nat.cast_ofNat, this, decide_false, Bool.and_false]


/-- **`seed_checkpoint_clears_own_plane`** (Lemmas level): the entry of `result_touch` of `lines_end_in_trimesh` for the seed facet itself
and the check point of `is_facet_inwards` is `False` — for every start point of the line, with the lengths as given (the branch for a
mesh of size 0) and divided by any `s > 0` (the mesh size), whichever reference corner the `coincide` test selects -/
theorem seed_own_facet_not_touched (face : Tri ℝ) (harea : 0 < vNorm2 (V3.cross (face.1 - face.2.1) (face.2.1 - face.2.2)))
    (l0 : V3 ℝ) :
    (faceTest l0 (seedCheckPoint face) face).2 = false ∧
    ∀ s : ℝ, 0 < s → (faceTest l0 (vd (seedCheckPoint face) s) (triDiv s face)).2 = false := by
  have h1 := seedCheckPoint_proj_ge face harea face.2.1 (Or.inr (Or.inl rfl))
  have h2 := seedCheckPoint_proj_ge face harea face.2.2 (Or.inr (Or.inr rfl))
  have hb : (1 / 10000000 : ℝ) ≤ (1 / 100000 : ℝ) / (1 + 1 / 100000) := by norm_num
  refine ⟨faceTest_snd_false_of_proj _ _ _ (hb.trans (touchProj_ge_of_corners _ _ _ h1 h2)), fun s hs => ?_⟩
  exact faceTest_snd_false_of_proj _ _ _ (hb.trans (touchProj_vd_ge_of_corners _ _ _ s hs h1 h2))

/-! ### the rule before repo fix ed093b8 -/

/-- the check point of `is_facet_inwards` BEFORE repo fix ed093b8: displaced by `1e-5 × |v1|`, the facet's FIRST edge -/
def seedCheckPointOld {α : Type} [Num α] (face : Tri α) : V3 α :=
  let v1 := face.1 - face.2.1
  let v2 := face.2.1 - face.2.2
  let orient := V3.cross v1 v2
  let orient := vd orient (norm orient)
  let eps := n 1 / n 100000 * norm v1
  let centre := vd (face.1 + face.2.1 + face.2.2) (n 3)
  ⟨centre.x + orient.x * eps, centre.y + orient.y * eps, centre.z + orient.z * eps⟩

/-- a needle facet: edges 1/1000, √0.998801, 1 (aspect ratio 1000), the short edge first; normal (3/5, 0, 4/5) -/
noncomputable def sliverFacet : Tri ℝ := (⟨0, 0, 0⟩, ⟨1 / 1250, 0, -3 / 5000⟩, ⟨12 / 25, 4 / 5, -9 / 25⟩)
/-- the tetrahedron on the needle facet with apex (−13/25, 0, −1/2) below it: four outward faces, mesh size 1 -/
noncomputable def sliverTetra : List (Tri ℝ) :=
  tetraFaces (⟨-13 / 25, 0, -1 / 2⟩ : V3 ℝ) ⟨0, 0, 0⟩ ⟨1 / 1250, 0, -3 / 5000⟩ ⟨12 / 25, 4 / 5, -9 / 25⟩

theorem sqrt_eq_of_sq (x y : ℝ) (hy : 0 ≤ y) (h : x = y * y) : Real.sqrt x = y := by
  rw [h]; exact Real.sqrt_mul_self hy

theorem sliver_checkOld : seedCheckPointOld sliverFacet =
    ⟨601 / 3750 + 3 / 5 * (1 / 100000000), 4 / 15, -601 / 5000 + 4 / 5 * (1 / 100000000)⟩ := by
  have hn : Kern.norm (V3.cross (sliverFacet.1 - sliverFacet.2.1) (sliverFacet.2.1 - sliverFacet.2.2)) = 1 / 1250 := by
    simp only [Kern.norm, sqrt_real, sliverFacet, V3.cross, V3.sub_x, V3.sub_y, V3.sub_z]
    exact sqrt_eq_of_sq _ _ (by norm_num) (by norm_num)
  have hv : Kern.norm (sliverFacet.1 - sliverFacet.2.1) = 1 / 1000 := by
    simp only [Kern.norm, sqrt_real, sliverFacet, V3.sub_x, V3.sub_y, V3.sub_z]
    exact sqrt_eq_of_sq _ _ (by norm_num) (by norm_num)
  simp only [seedCheckPointOld, hn, hv]
  simp only [sliverFacet, V3.cross, vd, n, ofNat_real, V3.sub_x, V3.sub_y, V3.sub_z, V3.add_x, V3.add_y, V3.add_z]
  apply V3.ext' <;> norm_num

theorem sliver_checkNew : seedCheckPoint sliverFacet =
    ⟨601 / 3750 + 3 / 5 * (1 / 100000), 4 / 15, -601 / 5000 + 4 / 5 * (1 / 100000)⟩ := by
  have hn : Kern.norm (V3.cross (sliverFacet.1 - sliverFacet.2.1) (sliverFacet.2.1 - sliverFacet.2.2)) = 1 / 1250 := by
    simp only [Kern.norm, sqrt_real, sliverFacet, V3.cross, V3.sub_x, V3.sub_y, V3.sub_z]
    exact sqrt_eq_of_sq _ _ (by norm_num) (by norm_num)
  have h1 : Kern.norm (sliverFacet.1 - sliverFacet.2.1) = 1 / 1000 := by
    simp only [Kern.norm, sqrt_real, sliverFacet, V3.sub_x, V3.sub_y, V3.sub_z]
    exact sqrt_eq_of_sq _ _ (by norm_num) (by norm_num)
  have h2 : Kern.norm (sliverFacet.2.1 - sliverFacet.2.2) ≤ 1 := by
    simp only [Kern.norm, sqrt_real, sliverFacet, V3.sub_x, V3.sub_y, V3.sub_z]
    rw [Real.sqrt_le_left (by norm_num)]; norm_num
  have h3 : Kern.norm (sliverFacet.2.2 - sliverFacet.1) = 1 := by
    simp only [Kern.norm, sqrt_real, sliverFacet, V3.sub_x, V3.sub_y, V3.sub_z]
    exact sqrt_eq_of_sq _ _ (by norm_num) (by norm_num)
  have hS : max (max (Kern.norm (sliverFacet.1 - sliverFacet.2.1)) (Kern.norm (sliverFacet.2.1 - sliverFacet.2.2)))
      (Kern.norm (sliverFacet.2.2 - sliverFacet.1)) = 1 := by
    rw [h3, h1]; exact max_eq_right (max_le (by norm_num) h2)
  simp only [seedCheckPoint, pyMax_real, hn, hS]
  simp only [sliverFacet, V3.cross, vd, n, ofNat_real, V3.sub_x, V3.sub_y, V3.sub_z, V3.add_x, V3.add_y, V3.add_z]
  apply V3.ext' <;> norm_num


theorem st_min : vertsMin (meshVerts sliverTetra) = ⟨-13 / 25, 0, -1 / 2⟩ := by
  simp only [sliverTetra, tetraFaces, meshVerts, triVerts, vertsMin, vMin, npMin_real, List.flatMap_cons, List.flatMap_nil,
    List.append_nil, List.cons_append, List.nil_append, List.foldl_cons, List.foldl_nil]
  apply V3.ext' <;> norm_num
theorem st_max : vertsMax (meshVerts sliverTetra) = ⟨12 / 25, 4 / 5, 0⟩ := by
  simp only [sliverTetra, tetraFaces, meshVerts, triVerts, vertsMax, vMax, npMax_real, List.flatMap_cons, List.flatMap_nil,
    List.append_nil, List.cons_append, List.nil_append, List.foldl_cons, List.foldl_nil]
  apply V3.ext' <;> norm_num
theorem st_size : vertsSize (meshVerts sliverTetra) = 1 := by
  simp only [vertsSize, st_min, st_max, npMax_real]; norm_num
theorem st_start : startPointOutside (meshVerts sliverTetra) =
    ⟨-13 / 25 - 120012345 / 10000000, -(59923456 / 10000000), -1 / 2 - 69932109 / 10000000⟩ := by
  simp only [startPointOutside, st_size, st_min, n, ofNat_real]
  apply V3.ext' <;> norm_num

/-- with the OLD rule the outward needle facet of `sliverTetra` is judged INWARDS: the check point is within the touch tolerance of
the facet's own plane -/
theorem sliverTetra_old_inside : maskInsideTrimesh sliverTetra (seedCheckPointOld sliverFacet) = true := by
  rw [sliver_checkOld]
  have hbox : insideBoxV (meshVerts sliverTetra)
      ⟨601 / 3750 + 3 / 5 * (1 / 100000000), 4 / 15, -601 / 5000 + 4 / 5 * (1 / 100000000)⟩ = true := by
    simp only [insideBoxV, st_min, st_max, pyMax_real, n, ofNat_real, lt_real]; norm_num
  simp only [maskInsideTrimesh, hbox, if_true, st_start]
  rw [linesEnd_size_one _ _ _ st_size]
  simp only [linesEndCore, sliverTetra, tetraFaces, List.map_cons, List.map_nil]
  rw [faceTest_eval, faceTest_eval, faceTest_eval, faceTest_eval]
  · norm_num [sgn_real, V3.dot, V3.cross, vNorm2, vDotCross3d]
  all_goals norm_num [V3.cross, vNorm2]


/-- with the rule since ed093b8 (longest edge) the same facet is judged outwards -/
theorem sliverTetra_new_outside : isFacetInwards sliverFacet sliverTetra = false := by
  rw [isFacetInwards_eq_mask, sliver_checkNew]
  have hbox : insideBoxV (meshVerts sliverTetra)
      ⟨601 / 3750 + 3 / 5 * (1 / 100000), 4 / 15, -601 / 5000 + 4 / 5 * (1 / 100000)⟩ = true := by
    simp only [insideBoxV, st_min, st_max, pyMax_real, n, ofNat_real, lt_real]; norm_num
  simp only [maskInsideTrimesh, hbox, if_true, st_start]
  rw [linesEnd_size_one _ _ _ st_size]
  simp only [linesEndCore, sliverTetra, tetraFaces, List.map_cons, List.map_nil]
  rw [faceTest_eval, faceTest_eval, faceTest_eval, faceTest_eval]
  · norm_num [sgn_real, V3.dot, V3.cross, vNorm2, vDotCross3d]
  all_goals norm_num [V3.cross, vNorm2]

theorem sliverTetra_outward : 0 < tdet (⟨-13 / 25, 0, -1 / 2⟩ : V3 ℝ) ⟨0, 0, 0⟩ ⟨1 / 1250, 0, -3 / 5000⟩ ⟨12 / 25, 4 / 5, -9 / 25⟩ := by
  simp only [tdet, det3, V3.sub_x, V3.sub_y, V3.sub_z]; norm_num

/-- the old check point's normalised projection on the own facet normal, from the reference corner `f[2]`: ≈ 1.5e-8 -/
theorem sliver_old_touches : |touchProj (seedCheckPointOld sliverFacet) sliverFacet| < 1 / 10000000 := by
  rw [sliver_checkOld]
  unfold touchProj
  have hc : (Num.lt (vNorm2 ((⟨601 / 3750 + 3 / 5 * (1 / 100000000), 4 / 15, -601 / 5000 + 4 / 5 * (1 / 100000000)⟩ : V3 ℝ) -
      sliverFacet.2.2)) (n 1 / n 10000000000000000)) = false := by
    simp only [lt_real, n, ofNat_real, vNorm2, sliverFacet, V3.sub_x, V3.sub_y, V3.sub_z]; norm_num
  rw [hc]
  simp only [Bool.false_eq_true, if_false]
  rw [vNormProj_abs_lt _ _ _ _ (by norm_num)]
  · simp only [V3.dot, V3.cross, vNorm2, sliverFacet, V3.sub_x, V3.sub_y, V3.sub_z]; norm_num
  · simp only [V3.cross, vNorm2, sliverFacet, V3.sub_x, V3.sub_y, V3.sub_z]; norm_num


/-! ### inside the touch band the verdict depends on which corner a face lists last -/

/-- the unit tetrahedron with its slanted face `x + y + z = 1` listed as `g` -/
noncomputable def unitTetraWith (g : Tri ℝ) : List (Tri ℝ) :=
  [(⟨0, 0, 0⟩, ⟨0, 1, 0⟩, ⟨1, 0, 0⟩), (⟨0, 0, 0⟩, ⟨1, 0, 0⟩, ⟨0, 0, 1⟩), g, (⟨0, 0, 0⟩, ⟨0, 0, 1⟩, ⟨0, 1, 0⟩)]

/-- the slanted face of `unitTetra` -/
noncomputable def utSlant : Tri ℝ := (⟨1, 0, 0⟩, ⟨0, 1, 0⟩, ⟨0, 0, 1⟩)

/-- a rational point 3e-8·(1,1,1) (distance ≈ 5.2e-8) outside the slanted face, above (0.9, 0.05, 0.05) -/
noncomputable def bandPoint : V3 ℝ := ⟨9 / 10 + 3 / 100000000, 1 / 20 + 3 / 100000000, 1 / 20 + 3 / 100000000⟩

theorem utw_min (g : Tri ℝ) (hg : g = triRotate utSlant ∨ g = triRotate (triRotate utSlant)) :
    vertsMin (meshVerts (unitTetraWith g)) = ⟨0, 0, 0⟩ := by
  rcases hg with rfl | rfl <;>
    simp [unitTetraWith, utSlant, triRotate, meshVerts, triVerts, vertsMin, vMin, npMin_real]
theorem utw_max (g : Tri ℝ) (hg : g = triRotate utSlant ∨ g = triRotate (triRotate utSlant)) :
    vertsMax (meshVerts (unitTetraWith g)) = ⟨1, 1, 1⟩ := by
  rcases hg with rfl | rfl <;>
    simp [unitTetraWith, utSlant, triRotate, meshVerts, triVerts, vertsMax, vMax, npMax_real]
theorem utw_size (g : Tri ℝ) (hg : g = triRotate utSlant ∨ g = triRotate (triRotate utSlant)) :
    vertsSize (meshVerts (unitTetraWith g)) = 1 := by
  simp [vertsSize, utw_min g hg, utw_max g hg, npMax_real]
theorem utw_start (g : Tri ℝ) (hg : g = triRotate utSlant ∨ g = triRotate (triRotate utSlant)) :
    startPointOutside (meshVerts (unitTetraWith g)) =
      ⟨-(120012345 / 10000000), -(59923456 / 10000000), -(69932109 / 10000000)⟩ := by
  simp [startPointOutside, utw_size g hg, utw_min g hg, n]

theorem bandPoint_box (g : Tri ℝ) (hg : g = triRotate utSlant ∨ g = triRotate (triRotate utSlant)) :
    insideBoxV (meshVerts (unitTetraWith g)) bandPoint = true := by
  simp only [insideBoxV, utw_min g hg, utw_max g hg, pyMax_real, n, ofNat_real, lt_real, bandPoint]; norm_num

/-- slanted face listed `[2, 3, 1]` (last corner (1,0,0), the one near the point): OUTSIDE -/
theorem band_outside : maskInsideTrimesh (unitTetraWith (triRotate utSlant)) bandPoint = false := by
  have hg : triRotate utSlant = triRotate utSlant ∨ triRotate utSlant = triRotate (triRotate utSlant) := Or.inl rfl
  simp only [maskInsideTrimesh, bandPoint_box _ hg, if_true, utw_start _ hg]
  rw [linesEnd_size_one _ _ _ (utw_size _ hg)]
  simp only [linesEndCore, unitTetraWith, utSlant, triRotate, bandPoint, List.map_cons, List.map_nil]
  rw [faceTest_eval, faceTest_eval, faceTest_eval, faceTest_eval]
  · norm_num [sgn_real, V3.dot, V3.cross, vNorm2, vDotCross3d]
  all_goals norm_num [V3.cross, vNorm2]

/-- slanted face listed `[3, 1, 2]` (last corner (0,1,0), far from the point): INSIDE -/
theorem band_inside : maskInsideTrimesh (unitTetraWith (triRotate (triRotate utSlant))) bandPoint = true := by
  have hg : triRotate (triRotate utSlant) = triRotate utSlant ∨ triRotate (triRotate utSlant) = triRotate (triRotate utSlant) :=
    Or.inr rfl
  simp only [maskInsideTrimesh, bandPoint_box _ hg, if_true, utw_start _ hg]
  rw [linesEnd_size_one _ _ _ (utw_size _ hg)]
  simp only [linesEndCore, unitTetraWith, utSlant, triRotate, bandPoint, List.map_cons, List.map_nil]
  rw [faceTest_eval, faceTest_eval, faceTest_eval, faceTest_eval]
  · norm_num [sgn_real, V3.dot, V3.cross, vNorm2, vDotCross3d]
  all_goals norm_num [V3.cross, vNorm2]

end MagpyVerif.Kern
