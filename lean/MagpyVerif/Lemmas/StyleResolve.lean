/-
Lemmas/StyleResolve.lean — one `update_nested_dict` with the trie of a prefix-free keyword dictionary, seen at a
path where the updated dictionary has a non-dict value (used to link the nested resolution to the flat `getStyle`).
-/
import MagpyVerif.Lemmas.StyleLinearize

namespace MagpyVerif.StyleNested

theorem covers_cases : ∀ (p : List Key) (t : Tree), covers t p = true →
    (∃ p0 v, p0 <+: p ∧ getPath t p0 = some (.leaf v)) ∨ (∃ kids, getPath t p = some (.node kids)) := by
  intro p
  induction p with
  | nil =>
    intro t _
    cases t with
    | leaf v => exact Or.inl ⟨[], v, List.nil_prefix, rfl⟩
    | node kids => exact Or.inr ⟨kids, rfl⟩
  | cons k ps ih =>
    intro t h
    cases t with
    | leaf v => exact Or.inl ⟨[], v, List.nil_prefix, rfl⟩
    | node kids =>
      rw [covers_node_cons] at h
      cases hl : lookup k kids with
      | none => rw [hl] at h; cases h
      | some ch =>
        rw [hl] at h
        rcases ih ch h with ⟨p0, v, hp, hg⟩ | ⟨kd, hg⟩
        · refine Or.inl ⟨k :: p0, v, by simpa [List.cons_prefix_cons] using hp, ?_⟩
          rw [getPath_node_cons, hl]; exact hg
        · refine Or.inr ⟨kd, ?_⟩
          rw [getPath_node_cons, hl]; exact hg

mutual
theorem wf_of_good (c : Char) : ∀ t : Tree, t.good c = true → t.wf = true
  | .leaf _, _ => rfl
  | .node kids, h => by
    simp only [Tree.good] at h
    simp only [Tree.wf]
    exact wfKids_of_goodKids c kids h
theorem wfKids_of_goodKids (c : Char) : ∀ l : List (Key × Tree), goodKids c l = true → wfKids l = true
  | [], _ => rfl
  | (k, v) :: r, h => by
    rw [goodKids_cons] at h
    simp only [Bool.and_eq_true] at h
    rw [wfKids_cons]
    simp only [Bool.and_eq_true]
    exact ⟨⟨h.1.1.2, wf_of_good c v h.1.2⟩, wfKids_of_goodKids c r h.2⟩
end

/-- the trie of `E` does not reach a path `q` that is comparable with no key of `E` -/
theorem not_covers_trie {E : Entries} {R : Dict}
    (hleaf : ∀ (q : List Str) (v : Option Val), getPath (.node R) (q.map Key.str) = some (.leaf v) ↔ (q, v) ∈ E)
    (hne : ∀ (q : List Str) (x : Tree), q ≠ [] → getPath (.node R) (q.map Key.str) = some x → ∃ p v, (p, v) ∈ E ∧ q <+: p)
    {q : List Str} (hq : q ≠ []) (hcomp : ∀ e ∈ E, e.1 <+: q ∨ q <+: e.1 → e.1 = q) (hnot : ∀ v, (q, v) ∉ E) :
    covers (.node R) (q.map Key.str) = false := by
  cases hc : covers (.node R) (q.map Key.str) with
  | false => rfl
  | true =>
    exfalso
    rcases covers_cases _ _ hc with ⟨p0, v, hp, hg⟩ | ⟨kids, hg⟩
    · obtain ⟨q0, hq0, rfl⟩ := List.prefix_map_iff.mp hp
      have hm := (hleaf q0 v).mp hg
      have := hcomp _ hm (Or.inl hq0)
      simp only at this; subst this
      exact hnot v hm
    · obtain ⟨p, v, hm, hp⟩ := hne q _ hq hg
      have := hcomp _ hm (Or.inr hp)
      simp only at this; subst this
      rw [(hleaf _ v).mpr hm] at hg; cases hg

/-- `update_nested_dict(d, trie(E), …)` at a path `q` where `d` has the non-dict value `a`, when `E` has the key `q = v` -/
theorem getPath_updDict_trie_hit (sko rno : Bool) {c : Char} {E : Entries} {R : Dict} (hgood : goodKids c R = true)
    (hleaf : ∀ (q : List Str) (v : Option Val), getPath (.node R) (q.map Key.str) = some (.leaf v) ↔ (q, v) ∈ E)
    (d : Tree) {q : List Str} {a v : Option Val} (hd : getPath d (q.map Key.str) = some (.leaf a)) (hm : (q, v) ∈ E) :
    getPath (updDict sko rno d R) (q.map Key.str) = some (.leaf (if (a.isNone || !rno) = true then v else a)) := by
  rw [getPath_updDict_leaf sko rno v _ d R (wfKids_of_goodKids c R hgood) ((hleaf q v).mpr hm),
    writable_of_getPath_leaf sko rno _ d a hd, hd]
  cases (a.isNone || !rno) <;> rfl

/-- … and when no key of `E` is comparable with `q` -/
theorem getPath_updDict_trie_miss (sko rno : Bool) {c : Char} {E : Entries} {R : Dict} (hgood : goodKids c R = true)
    (hleaf : ∀ (q : List Str) (v : Option Val), getPath (.node R) (q.map Key.str) = some (.leaf v) ↔ (q, v) ∈ E)
    (hne : ∀ (q : List Str) (x : Tree), q ≠ [] → getPath (.node R) (q.map Key.str) = some x → ∃ p v, (p, v) ∈ E ∧ q <+: p)
    (d : Tree) {q : List Str} (hq : q ≠ []) (hcomp : ∀ e ∈ E, e.1 <+: q ∨ q <+: e.1 → e.1 = q) (hnot : ∀ v, (q, v) ∉ E) :
    getPath (updDict sko rno d R) (q.map Key.str) = getPath d (q.map Key.str) :=
  getPath_updDict_untouched sko rno _ d R (wfKids_of_goodKids c R hgood) (not_covers_trie hleaf hne hq hcomp hnot)

end MagpyVerif.StyleNested
