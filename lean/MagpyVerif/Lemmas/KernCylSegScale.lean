/-
Lemmas/KernCylSegScale.lean — C12 and C13 for the CylinderSegment port.

  C12  `segNormalise_scale`, `bhjmCylSeg_scale`, `bhjmCylSegInternal_scale`   the wrappers are exactly unit invariant (they
        work in units of the outer radius); `close_not_scale_invariant`: the tolerance of `close` is not, so the core
        function alone is not
  C13  `segNormalise_add_360`, `bhjmCylSeg_add_360`   the range written one turn further
       `Hz_zk_case223_add_pi`, `Hz_zk_case233_add_pi`, `Hr_zk_case233_add_two_pi`, `Hr_zk_case234_add_two_pi`,
       `Hr_zk_case235_add_two_pi`   the periodic continuation of `arctan_k_tan_2` inside the five case functions that use it
-/
import MagpyVerif.Lemmas.KernCylSegDisp
namespace MagpyVerif.Kern.CylSeg
open MagpyVerif MagpyVerif.Kern

/-! ### C12: unit invariance -/

/-- the prologue of `BHJM_cylinder_segment` works in units of the outer radius: multiplying all lengths
(`r1`, `r2`, `h`, observer) by `l > 0` gives literally the same normalised row, provided the outer radius is not 0 -/
theorem segNormalise_scale (μ : ℝ) (S : SegSpecial) (l : ℝ) (hl : 0 < l) (x : V3 ℝ) (r1 r2 h p1 p2 : ℝ) (hr2 : r2 ≠ 0) :
    @segNormalise ℝ (realNumX μ S) (@vs ℝ (realNum μ) l x) (l * r1) (l * r2) (l * h) p1 p2 =
      @segNormalise ℝ (realNumX μ S) x r1 r2 h p1 p2 := by
  have hl' : l ≠ 0 := hl.ne'
  have h2 : 0 < |r2| := abs_pos.mpr hr2
  have h2l : 0 < l * |r2| := mul_pos hl h2
  unfold segNormalise
  simp only [vs, abs_real, lt_real, n, ofNat_real, Nat.cast_zero, Nat.cast_one, abs_mul, abs_of_pos hl, h2, h2l,
    decide_true, if_true, mul_div_mul_left _ _ hl', neg_div, ← mul_neg]

/-- **C12 for the ported `BHJM_cylinder_segment`**: all four outputs are unchanged when inner and outer radius,
height and observer are multiplied by the same `l > 0` (outer radius ≠ 0), for every observer and polarization:
masks, case ids, every argument of the case functions and of the special functions are computed from the
normalised row, which is the same at every scale -/
theorem bhjmCylSeg_scale (μ : ℝ) (S : SegSpecial) (l : ℝ) (hl : 0 < l) (f : Field) (x : V3 ℝ) (r1 r2 h p1 p2 : ℝ)
    (hr2 : r2 ≠ 0) (pol : V3 ℝ) :
    @bhjmCylSeg ℝ (realNumX μ S) f (@vs ℝ (realNum μ) l x) (l * r1) (l * r2) (l * h) p1 p2 pol =
      @bhjmCylSeg ℝ (realNumX μ S) f x r1 r2 h p1 p2 pol := by
  unfold bhjmCylSeg
  rw [segNormalise_scale μ S l hl x r1 r2 h p1 p2 hr2]

/-- the same for `BHJM_cylinder_segment_internal` (the 360° switch to the Cylinder solution included) -/
theorem bhjmCylSegInternal_scale (μ : ℝ) (S : SegSpecial) (l : ℝ) (hl : 0 < l) (fuel : Nat) (f : Field) (x : V3 ℝ)
    (r1 r2 h p1 p2 : ℝ) (hr2 : r2 ≠ 0) (pol : V3 ℝ) :
    @bhjmCylSegInternal ℝ (realNumX μ S) fuel f (@vs ℝ (realNum μ) l x) (l * r1) (l * r2) (l * h) p1 p2 pol =
      @bhjmCylSegInternal ℝ (realNumX μ S) fuel f x r1 r2 h p1 p2 pol := by
  have hl' : l ≠ 0 := hl.ne'
  have c2 := bhjmCylinder_scale' μ l hl fuel f (2 * r2) h pol x
  have c1 := bhjmCylinder_scale' μ l hl fuel f (2 * r1) h pol x
  have e2 : (2 : ℝ) * (l * r2) = l * (2 * r2) := by ring
  have e1 : (2 : ℝ) * (l * r1) = l * (2 * r1) := by ring
  unfold bhjmCylSegInternal
  simp only [bhjmCylSeg_scale μ S l hl f x r1 r2 h p1 p2 hr2 pol, n, ofNat_real, Nat.cast_ofNat, e1, e2, eq0_real,
    mul_eq_zero, hl', false_or, c1, c2]
  rfl

/-- `close` itself (rtol = atol = 1e-12) is not scale invariant — which is why the core function
`magnet_cylinder_segment_Hfield`, called without the wrapper's normalisation, is not: `2·10⁻¹²` is not close to 0,
a quarter of it is -/
theorem close_not_scale_invariant (μ : ℝ) (S : SegSpecial) :
    @close ℝ (realNumX μ S) (2 / 1000000000000) 0 = false ∧
    @close ℝ (realNumX μ S) (1 / 4 * (2 / 1000000000000)) (1 / 4 * 0) = true := by
  constructor <;> simp [close, isclose, n] <;> norm_num


/-! ### C13: the section angles written one turn further -/

@[simp] theorem ceil_realX (μ : ℝ) (S : SegSpecial) (x : ℝ) : @NumX.ceil ℝ (realNumX μ S) x = (⌈x⌉ : ℝ) := rfl

/-- the prologue maps a range written one full turn further to the same normalised row, whenever the range ends at a
positive angle and either reaches beyond 360° already or starts at −360° or later (then `turns` goes up by exactly one) -/
theorem segNormalise_add_360 (μ : ℝ) (S : SegSpecial) (x : V3 ℝ) (r1 r2 h p1 p2 : ℝ) (hp2 : 0 < p2)
    (hcase : 360 < p2 ∨ -360 ≤ p1) :
    @segNormalise ℝ (realNumX μ S) x r1 r2 h (p1 + 360) (p2 + 360) = @segNormalise ℝ (realNumX μ S) x r1 r2 h p1 p2 := by
  have hpi := Real.pi_pos
  have e1 : (p1 + 360) / 180 * Real.pi = p1 / 180 * Real.pi + 2 * Real.pi := by ring
  have e2 : (p2 + 360) / 180 * Real.pi = p2 / 180 * Real.pi + 2 * Real.pi := by ring
  have hgt : 2 * Real.pi < p2 / 180 * Real.pi + 2 * Real.pi := by
    have : 0 < p2 / 180 * Real.pi := by positivity
    linarith
  have hceil : (⌈(p2 / 180 * Real.pi + 2 * Real.pi - 2 * Real.pi) / (2 * Real.pi)⌉ : ℝ) =
      (⌈(p2 / 180 * Real.pi - 2 * Real.pi) / (2 * Real.pi)⌉ : ℝ) + 1 := by
    have : (p2 / 180 * Real.pi + 2 * Real.pi - 2 * Real.pi) / (2 * Real.pi) =
        (p2 / 180 * Real.pi - 2 * Real.pi) / (2 * Real.pi) + 1 := by field_simp; ring
    rw [this, Int.ceil_add_one]; push_cast; ring
  unfold segNormalise
  simp only [n, ofNat_real, Nat.cast_ofNat, Nat.cast_zero, Nat.cast_one, pi_real, lt_real, ceil_realX, e1, e2, hgt,
    decide_true, if_true, hceil]
  rcases hcase with h360 | hm360
  · have hgt' : 2 * Real.pi < p2 / 180 * Real.pi := by
      have : p2 / 180 * Real.pi = 2 * Real.pi + (p2 - 360) / 180 * Real.pi := by ring
      have h0 : 0 < (p2 - 360) / 180 * Real.pi := by
        apply mul_pos _ hpi
        linarith
      linarith
    simp only [hgt', decide_true, if_true]
    congr 1 <;> ring
  · by_cases hgt' : 2 * Real.pi < p2 / 180 * Real.pi
    · simp only [hgt', decide_true, if_true]
      congr 1 <;> ring
    · have hlo : ¬ (p1 / 180 * Real.pi < -(2 * Real.pi)) := by
        have : p1 / 180 * Real.pi = -(2 * Real.pi) + (p1 + 360) / 180 * Real.pi := by ring
        have h0 : 0 ≤ (p1 + 360) / 180 * Real.pi := by
          apply mul_nonneg _ hpi.le
          linarith
        linarith
      have hc0 : (⌈(p2 / 180 * Real.pi - 2 * Real.pi) / (2 * Real.pi)⌉ : ℝ) = 0 := by
        have hle : (p2 / 180 * Real.pi - 2 * Real.pi) / (2 * Real.pi) ≤ 0 :=
          div_nonpos_of_nonpos_of_nonneg (by linarith) (by positivity)
        have hgt0 : -1 < (p2 / 180 * Real.pi - 2 * Real.pi) / (2 * Real.pi) := by
          rw [lt_div_iff₀ (by positivity)]
          have : 0 < p2 / 180 * Real.pi := by positivity
          linarith
        have : ⌈(p2 / 180 * Real.pi - 2 * Real.pi) / (2 * Real.pi)⌉ = 0 := by
          rw [Int.ceil_eq_iff]; constructor <;> push_cast <;> linarith
        rw [this]; simp
      simp only [hgt', hlo, decide_false, Bool.false_eq_true, if_false, hc0]
      congr 1 <;> ring

/-- hence `BHJM_cylinder_segment` returns the same row for the range written one turn further -/
theorem bhjmCylSeg_add_360 (μ : ℝ) (S : SegSpecial) (f : Field) (x : V3 ℝ) (r1 r2 h p1 p2 : ℝ) (pol : V3 ℝ) (hp2 : 0 < p2)
    (hcase : 360 < p2 ∨ -360 ≤ p1) :
    @bhjmCylSeg ℝ (realNumX μ S) f x r1 r2 h (p1 + 360) (p2 + 360) pol = @bhjmCylSeg ℝ (realNumX μ S) f x r1 r2 h p1 p2 pol := by
  unfold bhjmCylSeg
  rw [segNormalise_add_360 μ S x r1 r2 h p1 p2 hp2 hcase]


/-! ### C13: the periodic continuation `arctan_k_tan_2 k (φ + 2π) = arctan_k_tan_2 k φ + π` inside the case functions -/

/-- `arctan_k_tan_2` does not use the special functions -/
theorem arctan_k_tan_2_indep (μ : ℝ) (S S' : SegSpecial) (k φ : ℝ) :
    @arctan_k_tan_2 ℝ (realNumX μ S) k φ = @arctan_k_tan_2 ℝ (realNumX μ S') k φ := by
  rw [arctan_k_tan_2_real, arctan_k_tan_2_real]

theorem two_mul_add_pi (x : ℝ) : 2 * (x + Real.pi) = 2 * x + 2 * Real.pi := by ring
theorem half_add_two_pi (x : ℝ) : (x + 2 * Real.pi) / 2 = x / 2 + Real.pi := by ring

/-- `Hz_zk_case223` (and the identical `Hz_zk_case233`): the azimuthal difference enters only as
`arctan_k_tan_2 k (2·phi_bar_j)` — half a turn of `phi_bar_j` adds `π · cos θ_M · sign(z_bar_k)` -/
theorem Hz_zk_case223_add_pi (μ : ℝ) (S : SegSpecial) (r pbj θ zb : ℝ) :
    @Hz_zk_case223 ℝ (realNumX μ S) r (pbj + Real.pi) θ zb =
      @Hz_zk_case223 ℝ (realNumX μ S) r pbj θ zb + Real.cos θ * sgnR zb * Real.pi := by
  simp only [Hz_zk_case223, n, ofNat_real, Nat.cast_ofNat, two_mul_add_pi, arctan_k_tan_2_add_two_pi, cos_real, sgn_realX]
  ring

theorem Hz_zk_case233_add_pi (μ : ℝ) (S : SegSpecial) (r pbj θ zb : ℝ) :
    @Hz_zk_case233 ℝ (realNumX μ S) r (pbj + Real.pi) θ zb =
      @Hz_zk_case233 ℝ (realNumX μ S) r pbj θ zb + Real.cos θ * sgnR zb * Real.pi := by
  simp only [Hz_zk_case233, n, ofNat_real, Nat.cast_ofNat, two_mul_add_pi, arctan_k_tan_2_add_two_pi, cos_real, sgn_realX]
  ring

/-- `Hr_zk_case233` is exactly 2π-periodic in `phi_bar_j`: the term with `arctan_k_tan_2 k (2·phi_bar_j)` gains `2π`
with coefficient `−c`, the two terms with `arctan_k_tan_2 k± phi_bar_j` gain `π` each with coefficient `+c` -/
theorem Hr_zk_case233_add_two_pi (μ : ℝ) (S : SegSpecial) (r pbj θ zb : ℝ) :
    @Hr_zk_case233 ℝ (realNumX μ S) r (pbj + 2 * Real.pi) θ zb = @Hr_zk_case233 ℝ (realNumX μ S) r pbj θ zb := by
  have e : (2 : ℝ) * (pbj + 2 * Real.pi) = 2 * pbj + 2 * Real.pi + 2 * Real.pi := by ring
  simp only [Hr_zk_case233, n, ofNat_real, Nat.cast_ofNat, Nat.cast_one, e, arctan_k_tan_2_add_two_pi, sin_real, cos_real,
    Real.sin_add_two_pi, Real.cos_add_two_pi]
  ring

/-- the special functions with their amplitude argument shifted by π -/
noncomputable def SegSpecial.shiftPi (S : SegSpecial) : SegSpecial where
  ellipkinc := fun φ m => S.ellipkinc (φ + Real.pi) m
  ellipeinc := fun φ m => S.ellipeinc (φ + Real.pi) m
  el3angle := fun φ nn m => S.el3angle (φ + Real.pi) nn m

/-- `Hr_zk_case234`, `Hr_zk_case235`: a full turn of `phi_bar_j` acts only on the *amplitudes* of the incomplete
integrals — `phi_bar_j / 2` and `arctan_k_tan_2 k phi_bar_j` both gain exactly π, every other occurrence is through
`sin`, `cos` -/
theorem Hr_zk_case234_add_two_pi (μ : ℝ) (S : SegSpecial) (r pbj θ zb : ℝ) :
    @Hr_zk_case234 ℝ (realNumX μ S) r (pbj + 2 * Real.pi) θ zb = @Hr_zk_case234 ℝ (realNumX μ S.shiftPi) r pbj θ zb := by
  simp only [Hr_zk_case234, n, ofNat_real, Nat.cast_ofNat, Nat.cast_one, half_add_two_pi, arctan_k_tan_2_add_two_pi,
    arctan_k_tan_2_indep μ S.shiftPi S, sin_real, cos_real, Real.sin_add_two_pi, Real.cos_add_two_pi]
  rfl

theorem Hr_zk_case235_add_two_pi (μ : ℝ) (S : SegSpecial) (r ri rb pbj θ zb : ℝ) :
    @Hr_zk_case235 ℝ (realNumX μ S) r ri rb (pbj + 2 * Real.pi) θ zb =
      @Hr_zk_case235 ℝ (realNumX μ S.shiftPi) r ri rb pbj θ zb := by
  simp only [Hr_zk_case235, n, ofNat_real, Nat.cast_ofNat, Nat.cast_one, half_add_two_pi, arctan_k_tan_2_add_two_pi,
    arctan_k_tan_2_indep μ S.shiftPi S, sin_real, cos_real, Real.sin_add_two_pi, Real.cos_add_two_pi]
  rfl

end MagpyVerif.Kern.CylSeg
