/- helper lemmas for C18: the fuel-bounded subtree walk enumerates the descendants exactly once;
the renaming of `Forest.copy`; `copy` keeps the forest consistent and acyclic -/
import Mathlib.Data.List.Nodup
import Mathlib.Data.List.Basic
import Mathlib.Data.List.TakeWhile
import Mathlib.Tactic
import MagpyVerif.Model.Copy
import MagpyVerif.Lemmas.Forest
import MagpyVerif.Lemmas.ForestAcyclic
namespace MagpyVerif
namespace Forest

/-! #### `Reach` (x is o or a descendant of o) -/

theorem reach_trans {s : Forest} {a b c : Nat} (h1 : Reach s a b) (h2 : Reach s b c) : Reach s a c := by
  induction h1 with
  | refl => exact h2
  | step hp _ ih => exact Reach.step hp (ih h2)

/-- the ancestors of an object form a chain -/
theorem reach_linear {s : Forest} {x a b : Nat} (h1 : Reach s x a) (h2 : Reach s x b) :
    Reach s a b ∨ Reach s b a := by
  induction h1 with
  | refl => exact Or.inl h2
  | step hp hr ih =>
    cases h2 with
    | refl => exact Or.inr (Reach.step hp hr)
    | step hp' hr' =>
      rw [hp] at hp'
      cases hp'
      exact ih hr'

theorem reach_of_mem_ancestors (s : Forest) : ∀ (k c a : Nat), a ∈ s.ancestors k c → Reach s c a := by
  intro k
  induction k with
  | zero => intro c a h; simp [ancestors] at h
  | succ k ih =>
    intro c a h
    simp only [ancestors] at h
    cases hp : s.parent c with
    | none => simp [hp] at h
    | some p =>
      simp only [hp, List.mem_cons] at h
      rcases h with rfl | h
      · exact Reach.step hp (Reach.refl _)
      · exact Reach.step hp (ih p a h)

/-! #### the subtree walk -/

theorem mem_subtree_succ (s : Forest) (k o x : Nat) :
    x ∈ s.subtree (k + 1) o ↔ x = o ∨ ∃ c ∈ s.children o, x ∈ s.subtree k c := by
  simp [subtree, List.mem_flatMap]

theorem reach_of_mem_subtree (s : Forest) (hp : ∀ o c, s.parent o = some c ↔ o ∈ s.children c) :
    ∀ (k o x : Nat), x ∈ s.subtree k o → Reach s x o := by
  intro k
  induction k with
  | zero => intro o x h; simp [subtree] at h
  | succ k ih =>
    intro o x h
    rcases (mem_subtree_succ s k o x).mp h with rfl | ⟨c, hc, hx⟩
    · exact Reach.refl _
    · exact reach_trans (ih c x hx) (Reach.step ((hp c o).mpr hc) (Reach.refl _))

theorem subtree_child (s : Forest) : ∀ (k o y x : Nat), y ∈ s.subtree k o → x ∈ s.children y →
    x ∈ s.subtree (k + 1) o := by
  intro k
  induction k with
  | zero => intro o y x h; simp [subtree] at h
  | succ k ih =>
    intro o y x hy hx
    rcases (mem_subtree_succ s k o y).mp hy with rfl | ⟨c, hc, hyc⟩
    · exact (mem_subtree_succ s (k + 1) y x).mpr (Or.inr ⟨x, hx, (mem_subtree_succ s k x x).mpr (Or.inl rfl)⟩)
    · exact (mem_subtree_succ s (k + 1) o x).mpr (Or.inr ⟨c, hc, ih c y x hyc hx⟩)

theorem mem_subtree_of_mem_ancestors (s : Forest) (hp : ∀ o c, s.parent o = some c ↔ o ∈ s.children c) :
    ∀ (k x o : Nat), o ∈ x :: s.ancestors k x → x ∈ s.subtree (k + 1) o := by
  intro k
  induction k with
  | zero =>
    intro x o h
    simp only [ancestors, List.mem_singleton] at h
    subst h
    exact (mem_subtree_succ s 0 o o).mpr (Or.inl rfl)
  | succ k ih =>
    intro x o h
    rcases List.mem_cons.mp h with rfl | h
    · exact (mem_subtree_succ s (k + 1) o o).mpr (Or.inl rfl)
    · simp only [ancestors] at h
      cases hpx : s.parent x with
      | none => simp [hpx] at h
      | some p =>
        simp only [hpx] at h
        exact subtree_child s (k + 1) o p x (ih p o h) ((hp x p).mp hpx)

/-- with fuel `n + 1` the walk below `o` finds exactly `o` and its descendants -/
theorem mem_subtree_iff_reach (s : Forest) (hi : s.Inv) (ha : s.Acyclic) (o x : Nat) :
    x ∈ s.subtree (s.n + 1) o ↔ Reach s x o := by
  constructor
  · exact reach_of_mem_subtree s hi.parent_iff _ o x
  · intro hr
    apply mem_subtree_of_mem_ancestors s hi.parent_iff
    by_cases hx : x < s.n
    · rcases reach_mem_ancestors s s.n x o hr (ancestors_complete s hi ha x hx) with h | h
      · simp [h]
      · simp [h]
    · cases hr with
      | refl => simp
      | step hp _ => exact absurd (hi.inScope _ _ hp).2 hx

theorem subtree_nodup (s : Forest) (hi : s.Inv) (ha : s.Acyclic) : ∀ (k o : Nat), (s.subtree k o).Nodup := by
  intro k
  induction k with
  | zero => intro o; simp [subtree]
  | succ k ih =>
    intro o
    simp only [subtree]
    rw [List.nodup_cons]
    constructor
    · intro hmem
      obtain ⟨c, hc, hoc⟩ := List.mem_flatMap.mp hmem
      have hpc := (hi.parent_iff c o).mpr hc
      exact acyclic_no_self_containment s ha c o hpc (reach_of_mem_subtree s hi.parent_iff k c o hoc)
    · rw [List.nodup_flatMap]
      refine ⟨fun c _ => ih c, ?_⟩
      have hnd := hi.nodup o
      refine List.Pairwise.imp_of_mem ?_ hnd
      intro c c' hc hc' hne
      show List.Disjoint (s.subtree k c) (s.subtree k c')
      intro x hx hx'
      have r1 := reach_of_mem_subtree s hi.parent_iff k c x hx
      have r2 := reach_of_mem_subtree s hi.parent_iff k c' x hx'
      have hpc := (hi.parent_iff c o).mpr hc
      have hpc' := (hi.parent_iff c' o).mpr hc'
      rcases reach_linear r1 r2 with h | h
      · exact acyclic_no_self_containment s ha c' o hpc' ((reach_ne_step hne hpc).mp h)
      · exact acyclic_no_self_containment s ha c o hpc ((reach_ne_step (Ne.symm hne) hpc').mp h)


/-! #### the fields of `s.copy o` -/

/-- the nodes cloned by `s.copy o` -/
def cnodes (s : Forest) (o : Nat) : List Nat := s.subtree (s.n + 1) o
/-- the renaming: a cloned node ↦ the id of its clone -/
def cren (s : Forest) (o x : Nat) : Nat := s.n + (s.cnodes o).idxOf x
/-- a new id ↦ the node it is the clone of -/
def csrc (s : Forest) (o j : Nat) : Nat := (s.cnodes o).getD (j - s.n) 0
/-- `j` is one of the ids created by `s.copy o` -/
def IsNew (s : Forest) (o j : Nat) : Prop := s.n ≤ j ∧ j < s.n + (s.cnodes o).length

instance (s : Forest) (o j : Nat) : Decidable (IsNew s o j) := by unfold IsNew; infer_instance

theorem copy_n (s : Forest) (o : Nat) : (s.copy o).n = s.n + (s.cnodes o).length := rfl

theorem copy_kind (s : Forest) (o j : Nat) :
    (s.copy o).kind j = if IsNew s o j then s.kind (s.csrc o j) else s.kind j := by
  show (if (decide (s.n ≤ j) && decide (j < s.n + (s.cnodes o).length)) = true then s.kind (s.csrc o j) else s.kind j) = _
  by_cases h : IsNew s o j
  · rw [if_pos h, if_pos (by simpa [IsNew] using h)]
  · rw [if_neg h, if_neg (by simpa [IsNew] using h)]

theorem copy_parent (s : Forest) (o j : Nat) :
    (s.copy o).parent j =
      if IsNew s o j then (if j = s.n then none else (s.parent (s.csrc o j)).map (s.cren o)) else s.parent j := by
  show (if (decide (s.n ≤ j) && decide (j < s.n + (s.cnodes o).length)) = true then (if j = s.n then none else (s.parent (s.csrc o j)).map (s.cren o)) else s.parent j) = _
  by_cases h : IsNew s o j
  · rw [if_pos h, if_pos (by simpa [IsNew] using h)]
  · rw [if_neg h, if_neg (by simpa [IsNew] using h)]

theorem copy_children (s : Forest) (o j : Nat) :
    (s.copy o).children j = if IsNew s o j then (s.children (s.csrc o j)).map (s.cren o) else s.children j := by
  show (if (decide (s.n ≤ j) && decide (j < s.n + (s.cnodes o).length)) = true then (s.children (s.csrc o j)).map (s.cren o) else s.children j) = _
  by_cases h : IsNew s o j
  · rw [if_pos h, if_pos (by simpa [IsNew] using h)]
  · rw [if_neg h, if_neg (by simpa [IsNew] using h)]

theorem copy_srcs (s : Forest) (o j : Nat) :
    (s.copy o).srcs j = if IsNew s o j then (s.srcs (s.csrc o j)).map (s.cren o) else s.srcs j := by
  show (if (decide (s.n ≤ j) && decide (j < s.n + (s.cnodes o).length)) = true then (s.srcs (s.csrc o j)).map (s.cren o) else s.srcs j) = _
  by_cases h : IsNew s o j
  · rw [if_pos h, if_pos (by simpa [IsNew] using h)]
  · rw [if_neg h, if_neg (by simpa [IsNew] using h)]

theorem copy_sens (s : Forest) (o j : Nat) :
    (s.copy o).sens j = if IsNew s o j then (s.sens (s.csrc o j)).map (s.cren o) else s.sens j := by
  show (if (decide (s.n ≤ j) && decide (j < s.n + (s.cnodes o).length)) = true then (s.sens (s.csrc o j)).map (s.cren o) else s.sens j) = _
  by_cases h : IsNew s o j
  · rw [if_pos h, if_pos (by simpa [IsNew] using h)]
  · rw [if_neg h, if_neg (by simpa [IsNew] using h)]

theorem copy_colls (s : Forest) (o j : Nat) :
    (s.copy o).colls j = if IsNew s o j then (s.colls (s.csrc o j)).map (s.cren o) else s.colls j := by
  show (if (decide (s.n ≤ j) && decide (j < s.n + (s.cnodes o).length)) = true then (s.colls (s.csrc o j)).map (s.cren o) else s.colls j) = _
  by_cases h : IsNew s o j
  · rw [if_pos h, if_pos (by simpa [IsNew] using h)]
  · rw [if_neg h, if_neg (by simpa [IsNew] using h)]

/-! #### the renaming on the cloned nodes -/

theorem getD_eq_getElem' (l : List Nat) (i : Nat) (h : i < l.length) : l.getD i 0 = l[i] := by
  simp [List.getD_eq_getElem?_getD, h]

theorem cnodes_eq_cons (s : Forest) (o : Nat) : ∃ rest, s.cnodes o = o :: rest := ⟨_, rfl⟩

theorem root_mem_cnodes (s : Forest) (o : Nat) : o ∈ s.cnodes o := by
  obtain ⟨r, hr⟩ := cnodes_eq_cons s o; rw [hr]; simp

theorem cren_root (s : Forest) (o : Nat) : s.cren o o = s.n := by
  obtain ⟨r, hr⟩ := cnodes_eq_cons s o
  simp [cren, hr]

theorem cren_isNew (s : Forest) (o x : Nat) (hx : x ∈ s.cnodes o) : IsNew s o (s.cren o x) := by
  have := List.idxOf_lt_length_of_mem hx
  unfold IsNew cren; omega

theorem cren_ge (s : Forest) (o x : Nat) : s.n ≤ s.cren o x := by unfold cren; omega

theorem csrc_cren (s : Forest) (o x : Nat) (hx : x ∈ s.cnodes o) : s.csrc o (s.cren o x) = x := by
  have h := List.idxOf_lt_length_of_mem hx
  simp only [csrc, cren, Nat.add_sub_cancel_left]
  rw [getD_eq_getElem' _ _ h]
  exact List.getElem_idxOf h

theorem cren_inj (s : Forest) (o x y : Nat) (hx : x ∈ s.cnodes o) (h : s.cren o x = s.cren o y) : x = y := by
  have : (s.cnodes o).idxOf x = (s.cnodes o).idxOf y := by unfold cren at h; omega
  exact (List.idxOf_inj hx).mp this

theorem cren_eq_root_iff (s : Forest) (o x : Nat) (hx : x ∈ s.cnodes o) : s.cren o x = s.n ↔ x = o := by
  constructor
  · intro h
    rw [← cren_root s o] at h
    exact cren_inj s o x o hx h
  · rintro rfl; exact cren_root s x

theorem csrc_mem (s : Forest) (o j : Nat) (hj : IsNew s o j) : s.csrc o j ∈ s.cnodes o := by
  have h : j - s.n < (s.cnodes o).length := by unfold IsNew at hj; omega
  simp only [csrc]
  rw [getD_eq_getElem' _ _ h]
  exact List.getElem_mem h

/-- every new id is the clone of exactly the node `csrc` names (needs: no node is walked twice) -/
theorem cren_csrc (s : Forest) (o j : Nat) (hnd : (s.cnodes o).Nodup) (hj : IsNew s o j) :
    s.cren o (s.csrc o j) = j := by
  have h : j - s.n < (s.cnodes o).length := by unfold IsNew at hj; omega
  simp only [csrc, cren]
  rw [getD_eq_getElem' _ _ h, List.Nodup.idxOf_getElem hnd]
  unfold IsNew at hj; omega


/-! #### the cloned nodes in a consistent, acyclic forest -/

theorem mem_cnodes_iff (s : Forest) (hi : s.Inv) (ha : s.Acyclic) (o x : Nat) :
    x ∈ s.cnodes o ↔ Reach s x o := mem_subtree_iff_reach s hi ha o x

theorem cnodes_nodup (s : Forest) (hi : s.Inv) (ha : s.Acyclic) (o : Nat) : (s.cnodes o).Nodup :=
  subtree_nodup s hi ha _ o

/-- children of cloned nodes are cloned -/
theorem cnodes_child (s : Forest) (hi : s.Inv) (ha : s.Acyclic) (o x y : Nat) (hx : x ∈ s.cnodes o)
    (hy : y ∈ s.children x) : y ∈ s.cnodes o := by
  rw [mem_cnodes_iff s hi ha] at hx ⊢
  exact Reach.step ((hi.parent_iff y x).mpr hy) hx

/-- every cloned node but the root has its parent among the cloned nodes -/
theorem cnodes_parent (s : Forest) (hi : s.Inv) (ha : s.Acyclic) (o x : Nat) (hx : x ∈ s.cnodes o)
    (hne : x ≠ o) : ∃ p, s.parent x = some p ∧ p ∈ s.cnodes o := by
  rw [mem_cnodes_iff s hi ha] at hx
  cases hx with
  | refl => exact absurd rfl hne
  | step hp hr => exact ⟨_, hp, (mem_cnodes_iff s hi ha o _).mpr hr⟩

/-- the parent of the copied object is not cloned -/
theorem root_parent_not_cloned (s : Forest) (hi : s.Inv) (ha : s.Acyclic) (o p : Nat)
    (hp : s.parent o = some p) : p ∉ s.cnodes o := by
  intro h
  exact acyclic_no_self_containment s ha o p hp ((mem_cnodes_iff s hi ha o p).mp h)

/-- existing objects are not among the new ids -/
theorem old_not_new (s : Forest) (o j : Nat) (h : j < s.n) : ¬ IsNew s o j := by
  unfold IsNew; omega

/-! the fields of the clone of `x` -/

theorem copy_kind_cren (s : Forest) (o x : Nat) (hx : x ∈ s.cnodes o) :
    (s.copy o).kind (s.cren o x) = s.kind x := by
  rw [copy_kind, if_pos (cren_isNew s o x hx), csrc_cren s o x hx]

theorem copy_children_cren (s : Forest) (o x : Nat) (hx : x ∈ s.cnodes o) :
    (s.copy o).children (s.cren o x) = (s.children x).map (s.cren o) := by
  rw [copy_children, if_pos (cren_isNew s o x hx), csrc_cren s o x hx]

theorem copy_srcs_cren (s : Forest) (o x : Nat) (hx : x ∈ s.cnodes o) :
    (s.copy o).srcs (s.cren o x) = (s.srcs x).map (s.cren o) := by
  rw [copy_srcs, if_pos (cren_isNew s o x hx), csrc_cren s o x hx]

theorem copy_sens_cren (s : Forest) (o x : Nat) (hx : x ∈ s.cnodes o) :
    (s.copy o).sens (s.cren o x) = (s.sens x).map (s.cren o) := by
  rw [copy_sens, if_pos (cren_isNew s o x hx), csrc_cren s o x hx]

theorem copy_colls_cren (s : Forest) (o x : Nat) (hx : x ∈ s.cnodes o) :
    (s.copy o).colls (s.cren o x) = (s.colls x).map (s.cren o) := by
  rw [copy_colls, if_pos (cren_isNew s o x hx), csrc_cren s o x hx]

theorem copy_parent_cren (s : Forest) (o x : Nat) (hx : x ∈ s.cnodes o) :
    (s.copy o).parent (s.cren o x) = if x = o then none else (s.parent x).map (s.cren o) := by
  rw [copy_parent, if_pos (cren_isNew s o x hx), csrc_cren s o x hx]
  by_cases h : x = o
  · rw [if_pos ((cren_eq_root_iff s o x hx).mpr h), if_pos h]
  · rw [if_neg (fun h' => h ((cren_eq_root_iff s o x hx).mp h')), if_neg h]

/-- the parent of a non-root clone is the clone of the parent -/
theorem copy_parent_cren_inner (s : Forest) (hi : s.Inv) (ha : s.Acyclic) (o x : Nat)
    (hx : x ∈ s.cnodes o) (hne : x ≠ o) :
    ∃ p, s.parent x = some p ∧ p ∈ s.cnodes o ∧ (s.copy o).parent (s.cren o x) = some (s.cren o p) := by
  obtain ⟨p, hp, hpm⟩ := cnodes_parent s hi ha o x hx hne
  refine ⟨p, hp, hpm, ?_⟩
  rw [copy_parent_cren s o x hx, if_neg hne, hp]
  rfl

/-- membership in a renamed children list -/
theorem mem_map_cren (s : Forest) (hi : s.Inv) (ha : s.Acyclic) (o x y : Nat)
    (hy : y ∈ s.cnodes o) : s.cren o x ∈ (s.children y).map (s.cren o) ↔ x ∈ s.children y := by
  constructor
  · intro h
    obtain ⟨z, hz, hzx⟩ := List.mem_map.mp h
    have hzm := cnodes_child s hi ha o y z hy hz
    rw [← cren_inj s o z x hzm hzx]
    exact hz
  · intro h; exact List.mem_map.mpr ⟨x, h, rfl⟩


/-! #### `copy` keeps the forest consistent and acyclic -/

theorem copy_parent_iff (s : Forest) (hi : s.Inv) (ha : s.Acyclic) (o a c : Nat) :
    (s.copy o).parent a = some c ↔ a ∈ (s.copy o).children c := by
  have hnd := cnodes_nodup s hi ha o
  by_cases hA : IsNew s o a
  · -- `a` is the clone of `x`
    have hxm := csrc_mem s o a hA
    have hax := cren_csrc s o a hnd hA
    generalize s.csrc o a = x at hxm hax
    subst hax
    by_cases hC : IsNew s o c
    · have hym := csrc_mem s o c hC
      have hcy := cren_csrc s o c hnd hC
      generalize s.csrc o c = y at hym hcy
      subst hcy
      rw [copy_children_cren s o y hym, mem_map_cren s hi ha o x y hym, copy_parent_cren s o x hxm]
      by_cases hxo : x = o
      · subst hxo
        rw [if_pos rfl]
        constructor
        · intro h; cases h
        · intro h
          exact absurd hym (root_parent_not_cloned s hi ha x y ((hi.parent_iff x y).mpr h))
      · rw [if_neg hxo]
        obtain ⟨p, hp, hpm⟩ := cnodes_parent s hi ha o x hxm hxo
        rw [hp, ← hi.parent_iff x y, hp]
        simp only [Option.map_some, Option.some.injEq]
        constructor
        · intro h; exact cren_inj s o p y hpm h
        · intro h; rw [h]
    · rw [copy_children, if_neg hC, copy_parent_cren s o x hxm]
      constructor
      · intro h
        exfalso
        by_cases hxo : x = o
        · rw [if_pos hxo] at h; cases h
        · rw [if_neg hxo] at h
          obtain ⟨p, hp, hpm⟩ := cnodes_parent s hi ha o x hxm hxo
          rw [hp] at h
          simp only [Option.map_some, Option.some.injEq] at h
          exact hC (h ▸ cren_isNew s o p hpm)
      · intro h
        exfalso
        have := (hi.inScope _ _ ((hi.parent_iff _ _).mpr h)).2
        have := cren_ge s o x
        omega
  · rw [copy_parent, if_neg hA]
    by_cases hC : IsNew s o c
    · rw [copy_children, if_pos hC]
      constructor
      · intro h
        exfalso
        have := (hi.inScope _ _ h).1
        exact old_not_new s o c this hC
      · intro h
        exfalso
        obtain ⟨z, hz, hza⟩ := List.mem_map.mp h
        have hzm := cnodes_child s hi ha o _ z (csrc_mem s o c hC) hz
        exact hA (hza ▸ cren_isNew s o z hzm)
    · rw [copy_children, if_neg hC]
      exact hi.parent_iff a c

theorem copy_children_nodup (s : Forest) (hi : s.Inv) (ha : s.Acyclic) (o c : Nat) :
    ((s.copy o).children c).Nodup := by
  rw [copy_children]
  split
  · rename_i hC
    have hym := csrc_mem s o c hC
    apply List.Nodup.map_on _ (hi.nodup _)
    intro a hav b _ hab
    exact cren_inj s o a b (cnodes_child s hi ha o _ a hym hav) hab
  · exact hi.nodup c

theorem copy_kind_old_child (s : Forest) (hi : s.Inv) (o c z : Nat) (hz : z ∈ s.children c) :
    (s.copy o).kind z = s.kind z := by
  rw [copy_kind, if_neg (old_not_new s o z (hi.inScope _ _ ((hi.parent_iff _ _).mpr hz)).2)]

theorem copy_views (s : Forest) (hi : s.Inv) (ha : s.Acyclic) (o c : Nat) :
    (s.copy o).srcs c = ((s.copy o).children c).filter (fun z => (s.copy o).kind z = .src) ∧
    (s.copy o).sens c = ((s.copy o).children c).filter (fun z => (s.copy o).kind z = .sens) ∧
    (s.copy o).colls c = ((s.copy o).children c).filter (fun z => (s.copy o).kind z = .coll) := by
  by_cases hC : IsNew s o c
  · have hym := csrc_mem s o c hC
    rw [copy_srcs, copy_sens, copy_colls, copy_children, if_pos hC, if_pos hC, if_pos hC, if_pos hC]
    obtain ⟨h1, h2, h3⟩ := hi.views (s.csrc o c)
    rw [h1, h2, h3, List.filter_map, List.filter_map, List.filter_map]
    have hk : ∀ (k : Kind), ∀ z ∈ s.children (s.csrc o c),
        ((fun z => decide ((s.copy o).kind z = k)) ∘ s.cren o) z = decide (s.kind z = k) := by
      intro k z hz
      simp only [Function.comp]
      rw [copy_kind_cren s o z (cnodes_child s hi ha o _ z hym hz)]
    exact ⟨by rw [List.filter_congr (hk .src)], by rw [List.filter_congr (hk .sens)],
      by rw [List.filter_congr (hk .coll)]⟩
  · rw [copy_srcs, copy_sens, copy_colls, copy_children, if_neg hC, if_neg hC, if_neg hC, if_neg hC]
    obtain ⟨h1, h2, h3⟩ := hi.views c
    have hk : ∀ (k : Kind), ∀ z ∈ s.children c,
        decide ((s.copy o).kind z = k) = decide (s.kind z = k) := by
      intro k z hz
      rw [copy_kind_old_child s hi o c z hz]
    exact ⟨by rw [h1, List.filter_congr (hk .src)], by rw [h2, List.filter_congr (hk .sens)],
      by rw [h3, List.filter_congr (hk .coll)]⟩

theorem copy_inScope (s : Forest) (hi : s.Inv) (ha : s.Acyclic) (o a c : Nat)
    (h : (s.copy o).parent a = some c) : c < (s.copy o).n ∧ a < (s.copy o).n := by
  rw [copy_n]
  by_cases hA : IsNew s o a
  · have hxm := csrc_mem s o a hA
    have hax := cren_csrc s o a (cnodes_nodup s hi ha o) hA
    generalize s.csrc o a = x at hxm hax
    subst hax
    refine ⟨?_, (cren_isNew s o x hxm).2⟩
    by_cases hxo : x = o
    · rw [copy_parent_cren s o x hxm, if_pos hxo] at h; cases h
    · obtain ⟨p, _, hpm, hpc⟩ := copy_parent_cren_inner s hi ha o x hxm hxo
      rw [hpc] at h
      cases h
      exact (cren_isNew s o p hpm).2
  · rw [copy_parent, if_neg hA] at h
    have := hi.inScope a c h
    omega

theorem copy_inv (s : Forest) (hi : s.Inv) (ha : s.Acyclic) (o : Nat) : (s.copy o).Inv := by
  refine ⟨copy_parent_iff s hi ha o, copy_children_nodup s hi ha o, copy_views s hi ha o, ?_,
    copy_inScope s hi ha o⟩
  intro c hk
  rw [copy_children]
  rw [copy_kind] at hk
  split
  · rename_i hC
    rw [if_pos hC] at hk
    rw [hi.only_colls _ hk]
    rfl
  · rename_i hC
    rw [if_neg hC] at hk
    exact hi.only_colls c hk

theorem copy_acyclic (s : Forest) (hi : s.Inv) (ha : s.Acyclic) (o : Nat) : (s.copy o).Acyclic := by
  obtain ⟨r, hr⟩ := id ha
  refine ⟨fun j => if IsNew s o j then r (s.csrc o j) else r j, ?_⟩
  intro a c h
  by_cases hA : IsNew s o a
  · have hxm := csrc_mem s o a hA
    have hax := cren_csrc s o a (cnodes_nodup s hi ha o) hA
    generalize s.csrc o a = x at hxm hax
    subst hax
    by_cases hxo : x = o
    · rw [copy_parent_cren s o x hxm, if_pos hxo] at h; cases h
    · obtain ⟨p, hp, hpm, hpc⟩ := copy_parent_cren_inner s hi ha o x hxm hxo
      rw [hpc] at h
      cases h
      simp only [if_pos (cren_isNew s o p hpm), if_pos (cren_isNew s o x hxm), csrc_cren s o p hpm,
        csrc_cren s o x hxm]
      exact hr x p hp
  · rw [copy_parent, if_neg hA] at h
    have hsc := hi.inScope a c h
    simp only [if_neg hA, if_neg (old_not_new s o c hsc.1)]
    exact hr a c h

/-- histories that mix the tree-editing operations with copies -/
theorem stepC_inv_acyclic (s : Forest) (op : COp) (hi : s.Inv) (ha : s.Acyclic) :
    (s.stepC op).1.Inv ∧ (s.stepC op).1.Acyclic := by
  cases op with
  | base op => exact ⟨step_inv s op hi, step_acyclic s op hi ha⟩
  | copy o =>
    simp only [stepC]
    split
    · exact ⟨copy_inv s hi ha o, copy_acyclic s hi ha o⟩
    · exact ⟨hi, ha⟩

end Forest

/-! ### label iteration (`add_iteration_suffix`) -/


theorem isDigit_eq (c : Char) : isDigit c = c.isDigit := by
  simp only [isDigit, Char.isDigit, Char.le_def, UInt32.le_iff_toNat_le, ge_iff_le]

theorem digitsToNat_append (l : List Char) (c : Char) :
    digitsToNat (l ++ [c]) = digitsToNat l * 10 + (c.toNat - 48) := by
  simp [digitsToNat, List.foldl_append]

theorem digitsToNat_toDigits (k : Nat) : digitsToNat (Nat.toDigits 10 k) = k := by
  induction k using Nat.strong_induction_on with
  | _ k ih =>
    rw [Nat.toDigits_eq_if (by decide)]
    split
    · rename_i h
      simp [digitsToNat, Nat.toNat_digitChar_sub_48_of_lt_ten h]
    · rename_i h
      rw [digitsToNat_append, ih (k / 10) (by omega), Nat.toNat_digitChar_sub_48_of_lt_ten (Nat.mod_lt _ (by decide))]
      omega

theorem digitsToNat_zeros (m : Nat) (ds : List Char) :
    digitsToNat (List.replicate m '0' ++ ds) = digitsToNat ds := by
  have h0 : List.foldl (fun acc c => acc * 10 + (c.toNat - '0'.toNat)) 0 (List.replicate m '0') = 0 := by
    induction m with
    | zero => rfl
    | succ m ih => rw [List.replicate_succ, List.foldl_cons]; exact ih
  simp only [digitsToNat, List.foldl_append, h0]

theorem digitsToNat_padded (k w : Nat) : digitsToNat (padded k w) = k := by
  simp only [padded]
  rw [digitsToNat_zeros, digitsToNat_toDigits]

theorem padded_all_digits (k w : Nat) : ∀ c ∈ padded k w, isDigit c = true := by
  intro c hc
  simp only [padded, List.mem_append, List.mem_replicate] at hc
  rcases hc with ⟨_, rfl⟩ | hc
  · decide
  · rw [isDigit_eq]; exact Nat.isDigit_of_mem_toDigits (by decide) (by decide) hc

theorem padded_ne_nil (k w : Nat) : padded k w ≠ [] := by
  simp [padded]

theorem padded_length (k w : Nat) : (padded k w).length = max w (Nat.toDigits 10 k).length := by
  simp only [padded, List.length_append, List.length_replicate]
  omega

/-- the value still fits into the width: exactly `w` characters -/
theorem padded_length_of_lt (k w : Nat) (hw : 0 < w) (h : k < 10 ^ w) : (padded k w).length = w := by
  rw [padded_length]
  have := (Nat.length_toDigits_le_iff (b := 10) (n := k) (by decide) hw).mpr h
  omega

/-- the value no longer fits: the plain decimal numeral, no padding -/
theorem padded_of_ge (k w : Nat) (hw : 0 < w) (h : 10 ^ w ≤ k) : padded k w = Nat.toDigits 10 k := by
  have : ¬ (Nat.toDigits 10 k).length ≤ w := by
    rw [Nat.length_toDigits_le_iff (by decide) hw]; omega
  simp only [padded]
  rw [Nat.sub_eq_zero_of_le (by omega)]
  rfl

theorem toDigits_pow (w : Nat) : Nat.toDigits 10 (10 ^ w) = '1' :: List.replicate w '0' := by
  induction w with
  | zero => rfl
  | succ w ih =>
    have h10 : 10 ≤ 10 ^ (w + 1) := by
      calc 10 = 10 ^ 1 := rfl
        _ ≤ 10 ^ (w + 1) := Nat.pow_le_pow_right (by decide) (by omega)
    rw [Nat.toDigits_of_base_le (by decide) h10]
    have h1 : 10 ^ (w + 1) / 10 = 10 ^ w := by rw [pow_succ]; omega
    have h2 : 10 ^ (w + 1) % 10 = 0 := by rw [pow_succ]; omega
    rw [h1, h2, ih, List.replicate_succ']
    rfl

theorem digitsToNat_nines (w : Nat) : digitsToNat (List.replicate w '9') + 1 = 10 ^ w := by
  induction w with
  | zero => rfl
  | succ w ih =>
    rw [List.replicate_succ', digitsToNat_append, pow_succ]
    have : ('9' : Char).toNat - 48 = 9 := by decide
    omega

/-! #### the trailing digit run -/

theorem split_decomp (name : List Char) :
    name = (splitTrailingDigits name).1 ++ (splitTrailingDigits name).2 ∧
    (∀ c ∈ (splitTrailingDigits name).2, isDigit c = true) ∧
    (∀ c, (splitTrailingDigits name).1.getLast? = some c → isDigit c = false) := by
  have hsplit : name = (name.reverse.dropWhile isDigit).reverse ++ (name.reverse.takeWhile isDigit).reverse := by
    rw [← List.reverse_append, List.takeWhile_append_dropWhile, List.reverse_reverse]
  have hlen : name.length = (name.reverse.dropWhile isDigit).length + (name.reverse.takeWhile isDigit).length := by
    have := congrArg List.length hsplit
    simpa using this
  have hpre : (splitTrailingDigits name).1 = (name.reverse.dropWhile isDigit).reverse := by
    simp only [splitTrailingDigits, List.length_reverse]
    have hk : name.length - (name.reverse.takeWhile isDigit).length = (name.reverse.dropWhile isDigit).reverse.length := by
      simp only [List.length_reverse]; omega
    rw [hk]
    calc List.take _ name = List.take (name.reverse.dropWhile isDigit).reverse.length
          ((name.reverse.dropWhile isDigit).reverse ++ (name.reverse.takeWhile isDigit).reverse) := by rw [← hsplit]
      _ = _ := List.take_left' rfl
  have hds : (splitTrailingDigits name).2 = (name.reverse.takeWhile isDigit).reverse := rfl
  rw [hpre, hds]
  refine ⟨hsplit, ?_, ?_⟩
  · intro c hc
    rw [List.mem_reverse] at hc
    exact List.mem_takeWhile_imp hc
  · intro c hc
    rw [List.getLast?_reverse] at hc
    have := List.head?_dropWhile_not isDigit name.reverse
    rw [hc] at this
    simpa using this

theorem split_append (pre ds : List Char) (hd : ∀ c ∈ ds, isDigit c = true)
    (hpre : ∀ c, pre.getLast? = some c → isDigit c = false) :
    splitTrailingDigits (pre ++ ds) = (pre, ds) := by
  have htw : (pre ++ ds).reverse.takeWhile isDigit = ds.reverse := by
    rw [List.reverse_append, List.takeWhile_append_of_pos (by intro c hc; exact hd c (List.mem_reverse.mp hc))]
    cases hr : pre.reverse with
    | nil => simp
    | cons c rest =>
      have : pre.getLast? = some c := by rw [← List.head?_reverse, hr]; rfl
      simp [hpre c this]
  simp only [splitTrailingDigits, htw, List.reverse_reverse, List.length_append, Nat.add_sub_cancel,
    List.take_left']

/-- a name is in exactly one way `pre ++ ds` with `ds` digits and `pre` not ending in a digit -/
theorem split_unique (pre ds pre' ds' : List Char) (hd : ∀ c ∈ ds, isDigit c = true)
    (hpre : ∀ c, pre.getLast? = some c → isDigit c = false) (hd' : ∀ c ∈ ds', isDigit c = true)
    (hpre' : ∀ c, pre'.getLast? = some c → isDigit c = false) (h : pre ++ ds = pre' ++ ds') :
    pre = pre' ∧ ds = ds' := by
  have h1 := split_append pre ds hd hpre
  have h2 := split_append pre' ds' hd' hpre'
  rw [h] at h1
  rw [h1] at h2
  exact ⟨congrArg Prod.fst h2, congrArg Prod.snd h2⟩

/-- the number written by the trailing digit run (0 when there is none) -/
def labelValue (name : List Char) : Nat := digitsToNat (splitTrailingDigits name).2

theorem addIterationSuffix_of_split (name pre ds : List Char) (h : splitTrailingDigits name = (pre, ds)) :
    addIterationSuffix name =
      if ds = [] then pre ++ (if name.getLast? = some '_' then [] else ['_']) ++ padded 1 2
      else pre ++ padded (digitsToNat ds + 1) ds.length := by
  unfold addIterationSuffix
  rw [h]
  cases ds with
  | nil => simp
  | cons d rest => simp

end MagpyVerif
