/-
Lemmas/Display.lean — helper lemmas about Model/Display.lean (C19): `np.unique` as sorted
de-duplication, the slice `np.arange(n)[::step]`, fancy indexing, and the pieces of
`get_rot_pos_from_path`.
-/
import Mathlib.Data.Finset.Sort
import Mathlib.Data.Int.Order.Basic
import Mathlib.Tactic
import MagpyVerif.Model.Display
namespace MagpyVerif.Display
open MagpyVerif.Mesh

/-! ### `np.unique` -/

theorem mem_insertU {x y : Int} {l : List Int} : y ∈ insertU x l ↔ y = x ∨ y ∈ l := by
  induction l with
  | nil => simp [insertU]
  | cons z zs ih =>
    unfold insertU
    split
    · simp
    · split
      · rename_i h1 h2
        subst h2
        simp
      · simp only [List.mem_cons, ih]
        tauto

theorem pairwise_insertU {x : Int} {l : List Int} (h : l.Pairwise (· < ·)) :
    (insertU x l).Pairwise (· < ·) := by
  induction l with
  | nil => simp [insertU]
  | cons z zs ih =>
    unfold insertU
    rw [List.pairwise_cons] at h
    split
    · rename_i hxz
      refine List.pairwise_cons.2 ⟨?_, List.pairwise_cons.2 h⟩
      intro a ha
      rcases List.mem_cons.1 ha with rfl | ha
      · exact hxz
      · exact lt_trans hxz (h.1 a ha)
    · split
      · exact List.pairwise_cons.2 h
      · rename_i h1 h2
        refine List.pairwise_cons.2 ⟨?_, ih h.2⟩
        intro a ha
        rcases mem_insertU.1 ha with rfl | ha
        · omega
        · exact h.1 a ha

theorem mem_unique {y : Int} {l : List Int} : y ∈ unique l ↔ y ∈ l := by
  induction l with
  | nil => simp [unique]
  | cons z zs ih =>
    have : unique (z :: zs) = insertU z (unique zs) := rfl
    rw [this, mem_insertU, ih]
    simp

theorem pairwise_unique (l : List Int) : (unique l).Pairwise (· < ·) := by
  induction l with
  | nil => simp [unique]
  | cons z zs ih => exact pairwise_insertU ih

theorem unique_eq_nil {l : List Int} : unique l = [] ↔ l = [] := by
  constructor
  · intro h
    cases l with
    | nil => rfl
    | cons z zs =>
      have : z ∈ unique (z :: zs) := mem_unique.2 (by simp)
      rw [h] at this
      simp at this
  · rintro rfl
    rfl

/-- `np.unique` is "the sorted list of the set of values" -/
theorem unique_eq_sort (l : List Int) : unique l = l.toFinset.sort (· ≤ ·) := by
  have hp := pairwise_unique l
  have hnd : (unique l).Nodup := hp.imp (fun h => ne_of_lt h)
  have hle : (unique l).Pairwise (· ≤ ·) := hp.imp le_of_lt
  have hfs : (unique l).toFinset = l.toFinset := by
    ext y
    simp [mem_unique]
  rw [← hfs]
  exact ((List.toFinset_sort (· ≤ ·) hnd).2 hle).symm

/-- a strictly increasing list is determined by its members -/
theorem eq_of_pairwise_lt_of_mem_iff {a b : List Int} (ha : a.Pairwise (· < ·)) (hb : b.Pairwise (· < ·))
    (h : ∀ x, x ∈ a ↔ x ∈ b) : a = b := by
  have e1 : a = a.toFinset.sort (· ≤ ·) :=
    ((List.toFinset_sort (· ≤ ·) (ha.imp (fun h => ne_of_lt h))).2 (ha.imp le_of_lt)).symm
  have e2 : b = b.toFinset.sort (· ≤ ·) :=
    ((List.toFinset_sort (· ≤ ·) (hb.imp (fun h => ne_of_lt h))).2 (hb.imp le_of_lt)).symm
  have : a.toFinset = b.toFinset := by
    ext y
    simp [h]
  rw [e1, e2, this]

/-! ### clipping -/

theorem clipInds_eq_map_min (n : Nat) (l : List Int) :
    clipInds n l = l.map (fun i => min i ((n : Int) - 1)) := by
  unfold clipInds
  apply List.map_congr_left
  intro i _
  split <;> omega

theorem mem_clipInds_lt {n : Nat} {l : List Int} {x : Int} (h : x ∈ clipInds n l) : x < n := by
  unfold clipInds at h
  obtain ⟨i, _, rfl⟩ := List.mem_map.1 h
  split <;> omega

/-! ### fancy indexing -/

/-- the row a (valid) numpy index refers to -/
def normIdx (n : Nat) (i : Int) : Nat := if i < 0 then (i + (n : Int)).toNat else i.toNat

theorem takeInds_ok {n : Nat} {l : List Int} (h : ∀ i ∈ l, -(n : Int) ≤ i ∧ i < n) :
    takeInds n l = .ok (l.map (normIdx n)) := by
  induction l with
  | nil => rfl
  | cons i is ih =>
    have hi := h i (by simp)
    have : fancyIndex n i = .ok (normIdx n i) := by
      unfold fancyIndex normIdx
      rw [if_neg (by omega)]
    simp only [takeInds, this, ih (fun j hj => h j (by simp [hj])), List.map_cons]

theorem takeInds_error {n : Nat} {l : List Int} (h : ∃ i ∈ l, i < -(n : Int) ∨ (n : Int) ≤ i) :
    takeInds n l = .error .indexError := by
  induction l with
  | nil => simp at h
  | cons i is ih =>
    by_cases hi : i < -(n : Int) ∨ (n : Int) ≤ i
    · have : fancyIndex n i = .error .indexError := by
        unfold fancyIndex
        rw [if_pos (by omega)]
      simp only [takeInds, this]
    · have h1 : fancyIndex n i = .ok (normIdx n i) := by
        unfold fancyIndex normIdx
        rw [if_neg (by omega)]
      have h2 : takeInds n is = .error .indexError := by
        apply ih
        obtain ⟨j, hj, hj'⟩ := h
        rcases List.mem_cons.1 hj with rfl | hj
        · exact absurd hj' hi
        · exact ⟨j, hj, hj'⟩
      simp only [takeInds, h1, h2]

theorem normIdx_lt {n : Nat} {i : Int} (h1 : -(n : Int) ≤ i) (h2 : i < n) : normIdx n i < n := by
  unfold normIdx
  split <;> omega

theorem normIdx_of_nonneg {n : Nat} {i : Int} (h : 0 ≤ i) : normIdx n i = i.toNat := by
  unfold normIdx
  rw [if_neg (by omega)]

/-! ### `np.arange(n)[::step]` -/

theorem mem_arangeSlice_pos {n : Nat} {step : Int} (hn : 0 < n) (hs : 0 < step) {x : Int} :
    x ∈ arangeSlice n step ↔ ∃ q : Nat, x = q * step.natAbs ∧ q * step.natAbs < n := by
  unfold arangeSlice
  simp only [if_neg (Nat.pos_iff_ne_zero.1 hn), if_pos hs, List.mem_map, List.mem_range]
  have hs' : 0 < step.natAbs := by omega
  constructor
  · rintro ⟨q, hq, rfl⟩
    refine ⟨q, by push_cast; ring, ?_⟩
    have : q ≤ (n - 1) / step.natAbs := by omega
    have := (Nat.le_div_iff_mul_le hs').1 this
    omega
  · rintro ⟨q, rfl, hq⟩
    refine ⟨q, ?_, by push_cast; ring⟩
    have : q ≤ (n - 1) / step.natAbs := (Nat.le_div_iff_mul_le hs').2 (by omega)
    omega

theorem mem_arangeSlice_neg {n : Nat} {step : Int} (hn : 0 < n) (hs : step < 0) {x : Int} :
    x ∈ arangeSlice n step ↔ ∃ q : Nat, x = (n : Int) - 1 - q * step.natAbs ∧ q * step.natAbs < n := by
  unfold arangeSlice
  simp only [if_neg (Nat.pos_iff_ne_zero.1 hn), if_neg (not_lt.2 (le_of_lt hs)), List.mem_map, List.mem_range]
  have hs' : 0 < step.natAbs := by omega
  constructor
  · rintro ⟨q, hq, rfl⟩
    refine ⟨q, by push_cast; ring, ?_⟩
    have : q ≤ (n - 1) / step.natAbs := by omega
    have := (Nat.le_div_iff_mul_le hs').1 this
    omega
  · rintro ⟨q, rfl, hq⟩
    refine ⟨q, ?_, by push_cast; ring⟩
    have : q ≤ (n - 1) / step.natAbs := (Nat.le_div_iff_mul_le hs').2 (by omega)
    omega

theorem arangeSlice_range {n : Nat} {step : Int} (hs : step ≠ 0) {x : Int} (hx : x ∈ arangeSlice n step) :
    0 ≤ x ∧ x < n := by
  rcases Nat.eq_zero_or_pos n with rfl | hn
  · simp [arangeSlice] at hx
  rcases lt_or_gt_of_ne hs with h | h
  · obtain ⟨q, rfl, hq⟩ := (mem_arangeSlice_neg hn h).1 hx
    have : ((q * step.natAbs : Nat) : Int) < n := by exact_mod_cast hq
    push_cast at this
    omega
  · obtain ⟨q, rfl, hq⟩ := (mem_arangeSlice_pos hn h).1 hx
    have : ((q * step.natAbs : Nat) : Int) < n := by exact_mod_cast hq
    push_cast at this
    constructor
    · positivity
    · omega

theorem arangeSlice_ne_nil {n : Nat} {step : Int} (hn : 0 < n) : arangeSlice n step ≠ [] := by
  unfold arangeSlice
  simp only [if_neg (Nat.pos_iff_ne_zero.1 hn)]
  split <;> simp

/-! ### `get_rot_pos_from_path` -/

/-- the `inds` array that is returned, as a function of the array assigned in the `if / elif` chain -/
def finalInds (n : Nat) (raw : List Int) : List Int :=
  if (unique (clipInds n raw)).isEmpty then [(n : Int) - 1] else unique (clipInds n raw)

theorem getRotPosInds_unfold (n : Nat) (sp : ShowPath) :
    getRotPosInds n sp =
      match rawInds n sp with
      | .error e => .error e
      | .ok raw =>
        match takeInds n (finalInds n raw) with
        | .error e => .error e
        | .ok rows => .ok (finalInds n raw, rows) := rfl

theorem finalInds_nil (n : Nat) : finalInds n [] = [(n : Int) - 1] := rfl

theorem finalInds_of_ne_nil {n : Nat} {raw : List Int} (h : raw ≠ []) :
    finalInds n raw = unique (clipInds n raw) := by
  unfold finalInds
  have : unique (clipInds n raw) ≠ [] := by
    intro h'
    have := unique_eq_nil.1 h'
    simp [clipInds] at this
    exact h this
  rw [if_neg]
  simpa [List.isEmpty_iff] using this

theorem pairwise_finalInds (n : Nat) (raw : List Int) : (finalInds n raw).Pairwise (· < ·) := by
  unfold finalInds
  split
  · simp
  · exact pairwise_unique _

theorem finalInds_ne_nil (n : Nat) (raw : List Int) : finalInds n raw ≠ [] := by
  unfold finalInds
  split
  · simp
  · rename_i h
    simpa [List.isEmpty_iff] using h

theorem mem_finalInds_lt {n : Nat} {raw : List Int} {x : Int} (h : x ∈ finalInds n raw) : x < n := by
  unfold finalInds at h
  split at h
  · simp at h
    omega
  · exact mem_clipInds_lt (mem_unique.1 h)

theorem mem_finalInds_of_ne_nil {n : Nat} {raw : List Int} (h : raw ≠ []) {x : Int} :
    x ∈ finalInds n raw ↔ ∃ i ∈ raw, x = min i ((n : Int) - 1) := by
  rw [finalInds_of_ne_nil h, mem_unique, clipInds_eq_map_min, List.mem_map]
  constructor
  · rintro ⟨i, hi, rfl⟩
    exact ⟨i, hi, rfl⟩
  · rintro ⟨i, hi, rfl⟩
    exact ⟨i, hi, rfl⟩

theorem finalInds_lower {n : Nat} (hn : 0 < n) {raw : List Int} (h : ∀ i ∈ raw, -(n : Int) ≤ i) :
    ∀ x ∈ finalInds n raw, -(n : Int) ≤ x := by
  intro x hx
  by_cases hr : raw = []
  · subst hr
    rw [finalInds_nil] at hx
    simp at hx
    omega
  · obtain ⟨i, hi, rfl⟩ := (mem_finalInds_of_ne_nil hr).1 hx
    have := h i hi
    omega

theorem getRotPosInds_ok_of {n : Nat} (hn : 0 < n) {sp : ShowPath} {raw : List Int}
    (hraw : rawInds n sp = .ok raw) (h : ∀ i ∈ raw, -(n : Int) ≤ i) :
    getRotPosInds n sp = .ok (finalInds n raw, (finalInds n raw).map (normIdx n)) := by
  rw [getRotPosInds_unfold, hraw]
  simp only
  rw [takeInds_ok (fun i hi => ⟨finalInds_lower hn h i hi, mem_finalInds_lt hi⟩)]

theorem getRotPosInds_err_of {n : Nat} {sp : ShowPath} {raw : List Int}
    (hraw : rawInds n sp = .ok raw) (h : ∃ i ∈ raw, i < -(n : Int)) :
    getRotPosInds n sp = .error .indexError := by
  rw [getRotPosInds_unfold, hraw]
  simp only
  obtain ⟨i, hi, hlt⟩ := h
  have hne : raw ≠ [] := by
    rintro rfl
    simp at hi
  rw [takeInds_error ⟨i, (mem_finalInds_of_ne_nil hne).2 ⟨i, hi, by omega⟩, Or.inl hlt⟩]

/-- the array assigned by the `if / elif` chain for everything except an iterable: no index below
`-path_len` -/
theorem rawInds_lower_of_not_list {n : Nat} (hn : 0 < n) {sp : ShowPath} {raw : List Int}
    (hraw : rawInds n sp = .ok raw) (hsp : ∀ l, sp ≠ .list l) : ∀ i ∈ raw, -(n : Int) ≤ i := by
  intro i hi
  cases sp with
  | none => simp [rawInds] at hraw; subst hraw; simp at hi; omega
  | bool b => simp [rawInds] at hraw; subst hraw; simp at hi; omega
  | int k =>
    by_cases hk : k = 0
    · simp [rawInds, hk] at hraw; subst hraw; simp at hi; omega
    · simp [rawInds, hk] at hraw
      subst hraw
      have := arangeSlice_range (step := -k) (by omega) hi
      omega
  | list l => exact absurd rfl (hsp l)
  | other => simp [rawInds] at hraw

theorem clipInds_id {n : Nat} {l : List Int} (h : ∀ i ∈ l, i < n) : clipInds n l = l := by
  unfold clipInds
  conv_rhs => rw [← List.map_id l]
  apply List.map_congr_left
  intro i hi
  have := h i hi
  simp only [id]
  rw [if_neg (by omega)]

/-- `[-1]` (show_path None / True / False / 0): the array `[-1]` is returned, the last row drawn -/
theorem finalInds_neg_one {n : Nat} (hn : 0 < n) : finalInds n [-1] = [-1] := by
  rw [finalInds_of_ne_nil (by simp), clipInds_id (by intro i hi; simp at hi; omega)]
  rfl

theorem normIdx_neg_one {n : Nat} (hn : 0 < n) : normIdx n (-1) = n - 1 := by
  unfold normIdx
  simp
  omega

/-- integer step: the array is `np.unique` of the slice -/
theorem finalInds_arange {n : Nat} (hn : 0 < n) {step : Int} (hs : step ≠ 0) :
    finalInds n (arangeSlice n step) = unique (arangeSlice n step) := by
  rw [finalInds_of_ne_nil (arangeSlice_ne_nil hn),
    clipInds_id (fun i hi => (arangeSlice_range hs hi).2)]

/-- rows selected by indices of one sign are strictly increasing -/
theorem pairwise_map_normIdx {n : Nat} {l : List Int} (hp : l.Pairwise (· < ·))
    (hb : ∀ i ∈ l, -(n : Int) ≤ i ∧ i < n) (hs : (∀ i ∈ l, 0 ≤ i) ∨ (∀ i ∈ l, i < 0)) :
    (l.map (normIdx n)).Pairwise (· < ·) := by
  rw [List.pairwise_map]
  refine hp.imp_of_mem ?_
  intro a b ha hb' hab
  have h1 := hb a ha
  have h2 := hb b hb'
  unfold normIdx
  rcases hs with hs | hs
  · have := hs a ha
    have := hs b hb'
    rw [if_neg (by omega), if_neg (by omega)]
    omega
  · have := hs a ha
    have := hs b hb'
    rw [if_pos (by omega), if_pos (by omega)]
    omega

/-! ### `make_Cuboid` -/

/-- coordinate `a` (0 = x, 1 = y, 2 = z) of a point -/
def coord (a : Fin 3) (v : I3) : Int := if a = 0 then v.1 else if a = 1 then v.2.1 else v.2.2
/-- the sign vectors `(x-sign, y-sign, z-sign)` of the 8 model vertices of `make_Cuboid` -/
def cuboidSigns : List I3 := cuboidSignX.zip (cuboidSignY.zip cuboidSignZ)
/-- sign of model vertex `idx` along axis `a` -/
def sgn (a : Fin 3) (idx : Nat) : Int := coord a (cuboidSigns.getD idx (0, 0, 0))
/-- twice the `position` argument (zero when `position is None`) -/
def posOff : Option I3 → I3
  | none => (0, 0, 0)
  | some p => (2 * p.1, 2 * p.2.1, 2 * p.2.2)
theorem cuboidVerts2_eq (dim : I3) (pos : Option I3) :
    cuboidVerts2 dim pos = cuboidSigns.map (fun s =>
      ((posOff pos).1 + s.1 * dim.1, (posOff pos).2.1 + s.2.1 * dim.2.1, (posOff pos).2.2 + s.2.2 * dim.2.2)) := by
  obtain ⟨a, b, c⟩ := dim
  cases pos with
  | none =>
    simp [cuboidVerts2, cuboidCoords2, placeNoRot2, cuboidLocal2, cuboidSigns, cuboidSignX, cuboidSignY, cuboidSignZ, posOff]
  | some p =>
    obtain ⟨x, y, z⟩ := p
    simp [cuboidVerts2, cuboidCoords2, placeNoRot2, cuboidLocal2, cuboidSigns, cuboidSignX, cuboidSignY, cuboidSignZ, posOff]
    refine ⟨?_, ?_, ?_, ?_, ?_, ?_, ?_, ?_⟩ <;> refine ⟨?_, ?_, ?_⟩ <;> ring


theorem cuboidVerts2_getElem (dim : I3) (pos : Option I3) (idx : Nat) (h : idx < 8) :
    ∃ v, (cuboidVerts2 dim pos)[idx]? = some v ∧
      ∀ a : Fin 3, coord a v = coord a (posOff pos) + sgn a idx * coord a dim := by
  rw [cuboidVerts2_eq]
  interval_cases idx <;>
    refine ⟨_, by simp [cuboidSigns, cuboidSignX, cuboidSignY, cuboidSignZ]; rfl, ?_⟩ <;>
    intro a <;> fin_cases a <;>
    simp [coord, sgn, cuboidSigns, cuboidSignX, cuboidSignY, cuboidSignZ]

/-- all three vertices of `t` have sign `sg` along axis `a`: `t` lies in the face `a = sg·dim/2` -/
def triInFace (a : Fin 3) (sg : Int) (t : Face) : Bool :=
  sgn a t.1 == sg && sgn a t.2.1 == sg && sgn a t.2.2 == sg

theorem cuboid_tri_in_some_face :
    ∀ t ∈ cuboidTriangles, ∃ a : Fin 3, ∃ sg ∈ [(1 : Int), -1], triInFace a sg t = true := by decide

theorem cuboid_face_two_triangles :
    ∀ a : Fin 3, ∀ sg ∈ [(1 : Int), -1],
      (cuboidTriangles.filter (triInFace a sg)).length = 2 ∧
      ∀ idx ∈ List.range 8, sgn a idx = sg → idx ∈ (cuboidTriangles.filter (triInFace a sg)).flatMap verts := by
  decide

theorem cuboid_outward_identity (dim : I3) (pos : Option I3) :
    ∀ t ∈ cuboidTriangles, ∀ vi vj vk, (cuboidVerts2 dim pos)[t.1]? = some vi →
      (cuboidVerts2 dim pos)[t.2.1]? = some vj → (cuboidVerts2 dim pos)[t.2.2]? = some vk →
      dot3 (cross3 (sub3 vj vi) (sub3 vk vi)) (sub3 vi (posOff pos)) = 4 * (dim.1 * dim.2.1 * dim.2.2) := by
  obtain ⟨a, b, c⟩ := dim
  intro t ht vi vj vk h1 h2 h3
  rw [cuboidVerts2_eq] at h1 h2 h3
  simp only [cuboidTriangles, zip3, cuboidI, cuboidJ, cuboidK, List.zip_cons_cons, List.zip_nil_right, List.mem_cons, List.not_mem_nil, or_false] at ht
  rcases ht with rfl | rfl | rfl | rfl | rfl | rfl | rfl | rfl | rfl | rfl | rfl | rfl <;>
    simp [cuboidSigns, cuboidSignX, cuboidSignY, cuboidSignZ] at h1 h2 h3 <;>
    subst h1 h2 h3 <;>
    simp only [dot3, cross3, sub3] <;> ring


/-! ### `make_Tetrahedron` -/

/-- determinant `check_chirality` computes for the four points -/
def tetraDet (p : I3 × I3 × I3 × I3) : Int :=
  det3 (sub3 p.2.1 p.1) (sub3 p.2.2.1 p.1) (sub3 p.2.2.2 p.1)

theorem tetraDet_checkChirality (p : I3 × I3 × I3 × I3) : tetraDet (checkChirality p) = |tetraDet p| := by
  obtain ⟨⟨a0, a1, a2⟩, ⟨b0, b1, b2⟩, ⟨c0, c1, c2⟩, ⟨d0, d1, d2⟩⟩ := p
  unfold checkChirality
  simp only
  split
  · rename_i h
    have h' : tetraDet ((a0, a1, a2), (b0, b1, b2), (c0, c1, c2), (d0, d1, d2)) < 0 := h
    rw [abs_of_neg h']
    simp only [tetraDet, det3, dot3, cross3, sub3]
    ring
  · rename_i h
    have h' : ¬ tetraDet ((a0, a1, a2), (b0, b1, b2), (c0, c1, c2), (d0, d1, d2)) < 0 := h
    rw [abs_of_nonneg (not_lt.1 h')]

theorem tetraPoints_eq (p : I3 × I3 × I3 × I3) :
    tetraPoints p = [(checkChirality p).1, (checkChirality p).2.1, (checkChirality p).2.2.1, (checkChirality p).2.2.2] := rfl

/-- for the index triples of `make_Tetrahedron`: (normal of the face) · (fourth vertex − face vertex) = −det -/
theorem tetra_outward_identity (q0 q1 q2 q3 : I3) :
    ∀ t ∈ tetraTriangles, ∀ vi vj vk vm, [q0, q1, q2, q3][t.1]? = some vi → [q0, q1, q2, q3][t.2.1]? = some vj →
      [q0, q1, q2, q3][t.2.2]? = some vk → [q0, q1, q2, q3][6 - t.1 - t.2.1 - t.2.2]? = some vm →
      dot3 (cross3 (sub3 vj vi) (sub3 vk vi)) (sub3 vm vi) = -tetraDet (q0, q1, q2, q3) := by
  obtain ⟨a0, a1, a2⟩ := q0
  obtain ⟨b0, b1, b2⟩ := q1
  obtain ⟨c0, c1, c2⟩ := q2
  obtain ⟨d0, d1, d2⟩ := q3
  intro t ht vi vj vk vm h1 h2 h3 h4
  simp only [tetraTriangles, List.mem_cons, List.not_mem_nil, or_false] at ht
  rcases ht with rfl | rfl | rfl | rfl <;>
    simp at h1 h2 h3 h4 <;>
    subst h1 h2 h3 h4 <;>
    simp only [tetraDet, det3, dot3, cross3, sub3] <;> ring


/-! ### `make_Prism`, `make_Pyramid` index arrays -/

/-- successor on the ring `0..N-1` -/
def succMod (N q : Nat) : Nat := (q + 1) % N

theorem succMod_cases {N q : Nat} (hq : q < N) :
    (q + 1 < N ∧ succMod N q = q + 1) ∨ (q + 1 = N ∧ succMod N q = 0) := by
  unfold succMod
  by_cases h : q + 1 < N
  · left; exact ⟨h, Nat.mod_eq_of_lt h⟩
  · right
    have : q + 1 = N := by omega
    exact ⟨this, by rw [this, Nat.mod_self]⟩

theorem succMod_lt {N q : Nat} (hq : q < N) : succMod N q < N := Nat.mod_lt _ (by omega)

theorem setLast_of_ne_nil {l : List Nat} (h : l ≠ []) (v : Nat) : setLast l v = .ok (l.dropLast ++ [v]) := by
  cases l with
  | nil => exact absurd rfl h
  | cons a as => rfl

theorem setLast_range_map {N : Nat} (hN : 0 < N) (f g : Nat → Nat) (v : Nat)
    (h1 : ∀ q, q + 1 < N → g q = f q) (h2 : g (N - 1) = v) :
    setLast ((List.range N).map f) v = .ok ((List.range N).map g) := by
  obtain ⟨M, rfl⟩ : ∃ M, N = M + 1 := ⟨N - 1, by omega⟩
  rw [setLast_of_ne_nil (by simp)]
  simp only [List.range_succ, List.map_append, List.map_cons, List.map_nil, List.dropLast_concat]
  congr 2
  · apply List.map_congr_left
    intro q hq
    exact (h1 q (by have := List.mem_range.1 hq; omega)).symm
  · simpa using h2.symm

theorem setLast_succ {N : Nat} (hN : 0 < N) :
    setLast ((List.range N).map (· + 1)) 0 = .ok ((List.range N).map (succMod N)) := by
  apply setLast_range_map hN
  · intro q hq
    exact Nat.mod_eq_of_lt hq
  · unfold succMod
    rw [Nat.sub_add_cancel hN, Nat.mod_self]

theorem setLast_succ_add {N : Nat} (hN : 0 < N) :
    setLast (((List.range N).map (succMod N)).map (· + N)) N = .ok ((List.range N).map (fun q => succMod N q + N)) := by
  rw [List.map_map]
  apply setLast_range_map hN
  · intro q _
    rfl
  · unfold succMod
    rw [Nat.sub_add_cancel hN, Nat.mod_self, Nat.zero_add]

theorem zip3_append {a1 a2 b1 b2 c1 c2 : List Nat} (h1 : a1.length = b1.length) (h2 : b1.length = c1.length) :
    zip3 (a1 ++ a2) (b1 ++ b2) (c1 ++ c2) = zip3 a1 b1 c1 ++ zip3 a2 b2 c2 := by
  unfold zip3
  rw [List.zip_append h2, List.zip_append (by simp [h1, h2])]

theorem zip3_map (l : List Nat) (f g h : Nat → Nat) :
    zip3 (l.map f) (l.map g) (l.map h) = l.map (fun q => (f q, g q, h q)) := by
  unfold zip3
  induction l with
  | nil => rfl
  | cons a as ih => simp [ih]

/-- the triangles of `make_Prism(base=N)`: lower and upper side triangles, bottom and top cap -/
def prismSpec (N : Nat) : List Face :=
  (List.range N).map (fun q => (q, succMod N q, q + N)) ++
  (List.range N).map (fun q => (q + N, succMod N q, succMod N q + N)) ++
  (List.range N).map (fun q => (q, 2 * N, succMod N q)) ++
  (List.range N).map (fun q => (q + N, succMod N q + N, 2 * N + 1))

theorem prismTriangles_eq {N : Nat} (hN : 0 < N) : prismTriangles N = .ok (prismSpec N) := by
  unfold prismTriangles prismIJK
  simp only [setLast_succ hN, setLast_succ_add hN, bind, Except.bind, pure, Except.pure]
  rw [zip3_append (by simp) (by simp), zip3_append (by simp) (by simp), zip3_append (by simp) (by simp)]
  simp only [List.map_map]
  have hid : List.range N = (List.range N).map (fun q => q) := by simp
  conv_lhs =>
    rw [hid]
  simp only [List.map_map, zip3_map]
  unfold prismSpec
  simp [Function.comp_def]

/-! #### the prism mesh is closed for every base N ≥ 3 -/

theorem sortPair_comm' (a b : Nat) : sortPair a b = sortPair b a := by
  unfold sortPair
  by_cases h1 : a ≤ b <;> by_cases h2 : b ≤ a <;> simp [h1, h2]
  · have : a = b := Nat.le_antisymm h1 h2
    simp [this]
  · omega

theorem openEdges_eq_nil_of_count {fs : List Face} (h : ∀ e ∈ edgesOf fs, (edgesOf fs).count e = 2) :
    openEdges fs = [] := by
  rw [List.eq_nil_iff_forall_not_mem]
  intro e he
  simp only [openEdges, List.mem_filter, List.mem_eraseDups, bne_iff_ne, ne_eq] at he
  exact he.2 (h e he.1)

/-- the six edge families of the prism, indexed by `q < N` -/
def prismEdge (N : Nat) (fam q : Nat) : Edge :=
  match fam with
  | 0 => sortPair q (succMod N q)               -- bottom ring
  | 1 => sortPair q (q + N)                     -- vertical
  | 2 => sortPair (succMod N q) (q + N)         -- diagonal of a side quad
  | 3 => sortPair (q + N) (succMod N q + N)     -- top ring
  | 4 => sortPair q (2 * N)                     -- bottom spokes
  | _ => sortPair (q + N) (2 * N + 1)           -- top spokes

def prismFam (N fam : Nat) : List Edge := (List.range N).map (prismEdge N fam)

def prismEdges (N : Nat) : List Edge :=
  prismFam N 0 ++ prismFam N 1 ++ prismFam N 2 ++ prismFam N 3 ++ prismFam N 4 ++ prismFam N 5

/-- recovers (family, q) from an edge -/
def prismKey (N : Nat) (e : Edge) : Nat × Nat :=
  if e.2 = 2 * N + 1 then (5, e.1 - N)
  else if e.2 = 2 * N then (4, e.1)
  else if N ≤ e.1 then (3, if e.2 = e.1 + 1 then e.1 - N else N - 1)
  else if e.2 < N then (0, if e.2 = e.1 + 1 then e.1 else N - 1)
  else if e.2 = e.1 + N then (1, e.1)
  else (2, e.2 - N)

theorem prismKey_edge {N : Nat} (hN : 3 ≤ N) {fam q : Nat} (hf : fam < 6) (hq : q < N) :
    prismKey N (prismEdge N fam q) = (fam, q) := by
  rcases succMod_cases hq with ⟨h1, h2⟩ | ⟨h1, h2⟩
  · interval_cases fam <;> simp only [prismEdge, h2] <;> unfold prismKey sortPair <;>
      split_ifs <;> dsimp only at * <;> simp only [Prod.mk.injEq, true_and] <;> omega
  · interval_cases fam <;> simp only [prismEdge, h2] <;> unfold prismKey sortPair <;>
      split_ifs <;> dsimp only at * <;> simp only [Prod.mk.injEq, true_and] <;> omega

theorem prismEdges_nodup {N : Nat} (hN : 3 ≤ N) : (prismEdges N).Nodup := by
  apply List.Nodup.of_map (prismKey N)
  have : ∀ fam < 6, (prismFam N fam).map (prismKey N) = (List.range N).map (fun q => (fam, q)) := by
    intro fam hf
    unfold prismFam
    rw [List.map_map]
    apply List.map_congr_left
    intro q hq
    exact prismKey_edge hN hf (List.mem_range.1 hq)
  simp only [prismEdges, List.map_append, this 0 (by omega), this 1 (by omega), this 2 (by omega),
    this 3 (by omega), this 4 (by omega), this 5 (by omega)]
  simp [List.nodup_append, List.nodup_map_iff_inj_on, List.nodup_range]
  refine ⟨⟨⟨?_, ?_⟩, ?_⟩, ?_⟩ <;> intro a _ a2 b h h' <;> omega

theorem map_succMod_perm (N : Nat) : ((List.range N).map (succMod N)).Perm (List.range N) := by
  rcases Nat.eq_zero_or_pos N with rfl | hN
  · simp
  have : (List.range N).map (succMod N) = (List.range N).rotate 1 := by
    apply List.ext_getElem
    · simp
    · intro i h1 h2
      simp only [List.length_map, List.length_range] at h1
      simp [List.getElem_rotate, succMod]
  rw [this]
  exact List.rotate_perm _ _

theorem count_map_comp_succMod {α : Type} [BEq α] [LawfulBEq α] (N : Nat) (f : Nat → α) (e : α) :
    ((List.range N).map (fun q => f (succMod N q))).count e = ((List.range N).map f).count e := by
  have : (List.range N).map (fun q => f (succMod N q)) = ((List.range N).map (succMod N)).map f := by
    rw [List.map_map]; rfl
  rw [this]
  exact ((map_succMod_perm N).map f).count_eq e

theorem edgesOf_prismSpec_count (N : Nat) (e : Edge) :
    (edgesOf (prismSpec N)).count e = 2 * (prismEdges N).count e := by
  have c1 := count_map_comp_succMod N (prismEdge N 1) e
  have c4 := count_map_comp_succMod N (prismEdge N 4) e
  have c5 := count_map_comp_succMod N (prismEdge N 5) e
  have e0 : (fun x => sortPair x (succMod N x)) = prismEdge N 0 := rfl
  have e1 : (fun x => sortPair x (x + N)) = prismEdge N 1 := rfl
  have e2 : (fun x => sortPair (succMod N x) (x + N)) = prismEdge N 2 := rfl
  have e2' : (fun x => sortPair (x + N) (succMod N x)) = prismEdge N 2 := by
    funext q; exact sortPair_comm' _ _
  have e3 : (fun x => sortPair (x + N) (succMod N x + N)) = prismEdge N 3 := rfl
  have e4 : (fun x => sortPair x (2 * N)) = prismEdge N 4 := rfl
  have e5 : (fun x => sortPair (x + N) (2 * N + 1)) = prismEdge N 5 := rfl
  have e1s : (fun x => sortPair (succMod N x) (succMod N x + N)) = fun x => prismEdge N 1 (succMod N x) := rfl
  have e4s : (fun x => sortPair (2 * N) (succMod N x)) = fun x => prismEdge N 4 (succMod N x) := by
    funext q; exact sortPair_comm' _ _
  have e5s : (fun x => sortPair (succMod N x + N) (2 * N + 1)) = fun x => prismEdge N 5 (succMod N x) := rfl
  simp only [edgesOf, prismSpec, List.map_append, List.map_map, Function.comp_def, List.count_append,
    prismEdges, prismFam]
  simp only [e0, e1, e2, e2', e3, e4, e5, e1s, e4s, e5s]
  omega

theorem prismSpec_closed {N : Nat} (hN : 3 ≤ N) : openEdges (prismSpec N) = [] := by
  apply openEdges_eq_nil_of_count
  intro e he
  have hc := edgesOf_prismSpec_count N e
  have hpos : 0 < (edgesOf (prismSpec N)).count e := List.count_pos_iff.2 he
  have hmem : e ∈ prismEdges N := by
    apply List.count_pos_iff.1
    omega
  rw [hc, List.count_eq_one_of_mem (prismEdges_nodup hN) hmem]

theorem prismSpec_indices {N : Nat} (hN : 2 ≤ N) :
    ∀ t ∈ prismSpec N, t.1 ≠ t.2.1 ∧ t.2.1 ≠ t.2.2 ∧ t.1 ≠ t.2.2 ∧
      t.1 < 2 * N + 2 ∧ t.2.1 < 2 * N + 2 ∧ t.2.2 < 2 * N + 2 := by
  intro t ht
  simp only [prismSpec, List.mem_append, List.mem_map, List.mem_range] at ht
  rcases ht with ((⟨q, hq, rfl⟩ | ⟨q, hq, rfl⟩) | ⟨q, hq, rfl⟩) | ⟨q, hq, rfl⟩ <;>
    rcases succMod_cases hq with ⟨h1, h2⟩ | ⟨h1, h2⟩ <;> simp only [h2] <;> omega

/-! #### the pyramid (cone side surface) is open exactly along its base ring -/

/-- the triangles of `make_Pyramid(base=N)`: `(q, q+1 mod N, tip)` -/
def pyramidSpec (N : Nat) : List Face := (List.range N).map (fun q => (q, succMod N q, N))

theorem pyramidTriangles_eq {N : Nat} (hN : 0 < N) : pyramidTriangles N = .ok (pyramidSpec N) := by
  unfold pyramidTriangles pyramidIJK
  simp only [setLast_succ hN, bind, Except.bind, pure, Except.pure]
  have hid : List.range N = (List.range N).map (fun q => q) := by simp
  have hrep : List.replicate N N = (List.range N).map (fun _ => N) := by
    apply List.ext_getElem <;> simp
  rw [hrep]
  conv_lhs => rw [hid]
  simp only [List.map_map, zip3_map]
  unfold pyramidSpec
  simp

/-- the edges of the base polygon -/
def baseRing (N : Nat) : List Edge := (List.range N).map (fun q => sortPair q (succMod N q))
/-- the edges from the base vertices to the tip -/
def tipSpokes (N : Nat) : List Edge := (List.range N).map (fun q => sortPair q N)

def pyramidKey (N : Nat) (e : Edge) : Nat × Nat :=
  if e.2 = N then (1, e.1) else (0, if e.2 = e.1 + 1 then e.1 else N - 1)

theorem pyramidEdges_nodup {N : Nat} (hN : 3 ≤ N) : (baseRing N ++ tipSpokes N).Nodup := by
  apply List.Nodup.of_map (pyramidKey N)
  have h0 : (baseRing N).map (pyramidKey N) = (List.range N).map (fun q => (0, q)) := by
    unfold baseRing
    rw [List.map_map]
    apply List.map_congr_left
    intro q hq
    have hq := List.mem_range.1 hq
    rcases succMod_cases hq with ⟨h1, h2⟩ | ⟨h1, h2⟩ <;>
      simp only [Function.comp, h2] <;> unfold pyramidKey sortPair <;>
      split_ifs <;> dsimp only at * <;> simp only [Prod.mk.injEq, true_and] <;> omega
  have h1 : (tipSpokes N).map (pyramidKey N) = (List.range N).map (fun q => (1, q)) := by
    unfold tipSpokes
    rw [List.map_map]
    apply List.map_congr_left
    intro q hq
    have hq := List.mem_range.1 hq
    simp only [Function.comp]
    unfold pyramidKey sortPair
    split_ifs <;> dsimp only at * <;> simp only [Prod.mk.injEq, true_and] <;> omega
  rw [List.map_append, h0, h1]
  simp [List.nodup_append, List.nodup_map_iff_inj_on, List.nodup_range]

theorem edgesOf_pyramidSpec_count (N : Nat) (e : Edge) :
    (edgesOf (pyramidSpec N)).count e = (baseRing N).count e + 2 * (tipSpokes N).count e := by
  have c := count_map_comp_succMod N (fun q => sortPair q N) e
  simp only [edgesOf, pyramidSpec, List.map_map, Function.comp_def, List.count_append, baseRing, tipSpokes]
  omega

theorem mem_openEdges_pyramidSpec {N : Nat} (hN : 3 ≤ N) (e : Edge) :
    e ∈ openEdges (pyramidSpec N) ↔ e ∈ baseRing N := by
  have hnd := pyramidEdges_nodup hN
  rw [List.nodup_append] at hnd
  obtain ⟨hr, hs, hdis⟩ := hnd
  have hc := edgesOf_pyramidSpec_count N e
  simp only [openEdges, List.mem_filter, List.mem_eraseDups, bne_iff_ne, ne_eq]
  constructor
  · rintro ⟨hmem, hne⟩
    by_contra hnot
    have h0 : (baseRing N).count e = 0 := List.count_eq_zero.2 hnot
    have hpos : 0 < (edgesOf (pyramidSpec N)).count e := List.count_pos_iff.2 hmem
    have hsp : e ∈ tipSpokes N := List.count_pos_iff.1 (by omega)
    have := List.count_eq_one_of_mem hs hsp
    omega
  · intro hmem
    have h1 := List.count_eq_one_of_mem hr hmem
    have h0 : (tipSpokes N).count e = 0 := by
      apply List.count_eq_zero.2
      intro h
      exact hdis e hmem e h rfl
    constructor
    · apply List.count_pos_iff.1
      omega
    · omega


end MagpyVerif.Display
