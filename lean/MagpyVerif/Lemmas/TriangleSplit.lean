/-
Lemmas/TriangleSplit.lean — C13: cutting a Triangle sheet through a point of one of its edges.

`Triangle(a, b, c) = Triangle(a, m, c) + Triangle(m, b, c)` for `m = a + τ (b − a)`, `0 < τ < 1`:
  * the normals of the three triangles are positive multiples of each other (same unit normal, same surface charge);
  * the edge integral of `triangle_Bfield` (all branches of the cancellation-free form) is, off the edge's line and outside the
    `on_edge` tolerance, `1/l · log(g(end)/g(start))` with `g(P) = |P| + P·L/|L|` (`triEdgeI_canon`), hence additive over a
    subdivision of the edge: `τ·I(a→m) + (1−τ)·I(m→b) = I(a→b)` (`triEdgeI_split`);
  * the new internal edge `m–c` is run in both directions and cancels (`triEdgeI_reverse`);
  * the solid angles (Van Oosterom–Strackee arctan form with the 2π clamp) must add: the named hypothesis `SolidAngleAdditive`.
-/
import MagpyVerif.Lemmas.TrianglePerm

namespace MagpyVerif.Kern
open MagpyVerif

/-! ### the edge integral in its canonical form -/

/-- off the line of the edge (`X = rr·ll − rl² > 0`) and outside the `on_edge` branch, all three cancellation-free branches of the
edge integral are `log((√nn + c)/(√rr + a))/l` with `a = rl/l`, `c = nl/l` -/
theorem triEdgeS_canon (rr nn ll rl nl X : ℝ) (hll : 0 < ll) (hnn : nn = rr + 2 * rl + ll) (hnl : nl = rl + ll)
    (hX : X = rr * ll - rl ^ 2) (hXp : 0 < X) (hoff : ¬ triEdgeOn rr nn ll rl nl X X) :
    0 < √rr + rl / √ll ∧ 0 < √nn + nl / √ll ∧
      triEdgeS rr nn ll rl nl X X = Real.log ((√nn + nl / √ll) / (√rr + rl / √ll)) / √ll := by
  have hs : 0 < √ll := Real.sqrt_pos.mpr hll
  have hss : √ll * √ll = ll := Real.mul_self_sqrt hll.le
  have hρ : 0 < X / ll := div_pos hXp hll
  have ha2 : (rl / √ll) ^ 2 = rl ^ 2 / ll := by rw [div_pow, sq (√ll), hss]
  have hc2 : (nl / √ll) ^ 2 = nl ^ 2 / ll := by rw [div_pow, sq (√ll), hss]
  have hra : rr - (rl / √ll) ^ 2 = X / ll := by rw [ha2, hX]; field_simp
  have hnc : nn - (nl / √ll) ^ 2 = X / ll := by rw [hc2, hX, hnn, hnl]; field_simp; ring
  set a := rl / √ll with hadef
  set c := nl / √ll with hcdef
  have hrr : 0 ≤ rr := by nlinarith [sq_nonneg a]
  have hn0 : 0 ≤ nn := by nlinarith [sq_nonneg c]
  have hqr : √rr * √rr = rr := Real.mul_self_sqrt hrr
  have hqn : √nn * √nn = nn := Real.mul_self_sqrt hn0
  have har : |a| < √rr := by
    rw [Real.lt_sqrt (abs_nonneg a), sq_abs]; linarith
  have hcn : |c| < √nn := by
    rw [Real.lt_sqrt (abs_nonneg c), sq_abs]; linarith
  obtain ⟨ha1, ha3⟩ := abs_lt.mp har
  obtain ⟨hc1, hc3⟩ := abs_lt.mp hcn
  have p1 : 0 < √rr + a := by linarith
  have p2 : 0 < √rr - a := by linarith
  have p3 : 0 < √nn + c := by linarith
  have p4 : 0 < √nn - c := by linarith
  have e1 : (√rr + a) * (√rr - a) = X / ll := by
    have : (√rr + a) * (√rr - a) = √rr * √rr - a ^ 2 := by ring
    rw [this, hqr, hra]
  have e2 : (√nn + c) * (√nn - c) = X / ll := by
    have : (√nn + c) * (√nn - c) = √nn * √nn - c ^ 2 := by ring
    rw [this, hqn, hnc]
  refine ⟨p1, p3, ?_⟩
  rw [triEdgeS_off _ _ _ _ _ _ _ hoff]
  simp only [← hadef, ← hcdef]
  congr 2
  by_cases h0 : 0 ≤ a
  · simp only [h0, if_true]
  · by_cases h1 : c < 0
    · simp only [h0, h1, if_false, if_true]
      rw [div_eq_div_iff p4.ne' p1.ne']
      linarith [e1, e2, mul_comm (√rr - a) (√rr + a)]
    · simp only [h0, h1, if_false, ite_self]
      rw [div_eq_div_iff hρ.ne' p1.ne', ← e1]
      ring

theorem vs_one (L : V3 ℝ) : vs 1 L = L := by apply V3.ext' <;> simp [vs]

/-- the edge from `R` to `R + s·L` (`s > 0`): `I = log(g(R + s L)/g(R)) / (s·|L|)` with `g(P) = |P| + P·L/|L|`, both `g` positive -/
theorem triEdgeI_canon (R L : V3 ℝ) (s : ℝ) (hs : 0 < s) (hL : 0 < V3.dot L L)
    (hX : 0 < V3.dot (V3.cross R L) (V3.cross R L)) (hoff : ¬ TriEdgeOnV R (R + vs s L) (vs s L)) :
    0 < √(V3.dot R R) + V3.dot R L / √(V3.dot L L) ∧
    0 < √(V3.dot (R + vs s L) (R + vs s L)) + V3.dot (R + vs s L) L / √(V3.dot L L) ∧
    triEdgeI R (R + vs s L) (vs s L) =
      Real.log ((√(V3.dot (R + vs s L) (R + vs s L)) + V3.dot (R + vs s L) L / √(V3.dot L L)) /
        (√(V3.dot R R) + V3.dot R L / √(V3.dot L L))) / (s * √(V3.dot L L)) := by
  have b1 : V3.dot (vs s L) (vs s L) = s ^ 2 * V3.dot L L := by simp [V3.dot, vs]; ring
  have b2 : V3.dot R (vs s L) = s * V3.dot R L := by simp [V3.dot, vs]; ring
  have b3 : V3.dot (R + vs s L) (vs s L) = s * V3.dot R L + s ^ 2 * V3.dot L L := by simp [V3.dot, vs]; ring
  have b4 : V3.dot (R + vs s L) (R + vs s L) = V3.dot R R + 2 * (s * V3.dot R L) + s ^ 2 * V3.dot L L := by
    simp [V3.dot, vs]; ring
  have b5 : V3.dot (V3.cross R (vs s L)) (V3.cross R (vs s L)) = s ^ 2 * V3.dot (V3.cross R L) (V3.cross R L) := by
    simp [V3.dot, V3.cross, vs]; ring
  have b6 : V3.dot (V3.cross (R + vs s L) (vs s L)) (V3.cross (R + vs s L) (vs s L)) =
      s ^ 2 * V3.dot (V3.cross R L) (V3.cross R L) := by
    simp [V3.dot, V3.cross, vs]; ring
  have b7 : V3.dot (V3.cross R L) (V3.cross R L) = V3.dot R R * V3.dot L L - V3.dot R L ^ 2 := by
    simp [V3.dot, V3.cross]; ring
  have b8 : V3.dot (R + vs s L) L = V3.dot R L + s * V3.dot L L := by simp [V3.dot, vs]; ring
  unfold TriEdgeOnV at hoff
  rw [b1, b2, b3, b5, b6] at hoff
  have hs2 : 0 < s ^ 2 := by positivity
  obtain ⟨q1, q2, q3⟩ := triEdgeS_canon (V3.dot R R) (V3.dot (R + vs s L) (R + vs s L)) (s ^ 2 * V3.dot L L) (s * V3.dot R L)
    (s * V3.dot R L + s ^ 2 * V3.dot L L) (s ^ 2 * V3.dot (V3.cross R L) (V3.cross R L)) (by positivity) b4 rfl
    (by rw [b7]; ring) (by positivity) hoff
  have hsq : √(s ^ 2 * V3.dot L L) = s * √(V3.dot L L) := by
    rw [Real.sqrt_mul hs2.le, Real.sqrt_sq hs.le]
  have hl : 0 < √(V3.dot L L) := Real.sqrt_pos.mpr hL
  have c1 : s * V3.dot R L / (s * √(V3.dot L L)) = V3.dot R L / √(V3.dot L L) := mul_div_mul_left _ _ hs.ne'
  have c2 : (s * V3.dot R L + s ^ 2 * V3.dot L L) / (s * √(V3.dot L L)) = V3.dot (R + vs s L) L / √(V3.dot L L) := by
    rw [b8]; field_simp
  rw [hsq, c1] at q1
  rw [hsq, c2] at q2
  rw [hsq, c1, c2] at q3
  refine ⟨q1, q2, ?_⟩
  rw [triEdgeI_eq mu0R, b1, b2, b3, b5, b6]
  exact q3

/-- **the edge integral is additive over a subdivision of the edge** (observer off the edge's line, outside the `on_edge` tolerance
of the whole edge and of the two pieces) -/
theorem triEdgeI_split (R L : V3 ℝ) (τ : ℝ) (h0 : 0 < τ) (h1 : τ < 1) (hL : 0 < V3.dot L L)
    (hX : 0 < V3.dot (V3.cross R L) (V3.cross R L))
    (hoffW : ¬ TriEdgeOnV R (R + L) L) (hoff1 : ¬ TriEdgeOnV R (R + vs τ L) (vs τ L))
    (hoff2 : ¬ TriEdgeOnV (R + vs τ L) (R + L) (vs (1 - τ) L)) :
    τ * triEdgeI R (R + vs τ L) (vs τ L) + (1 - τ) * triEdgeI (R + vs τ L) (R + L) (vs (1 - τ) L) = triEdgeI R (R + L) L := by
  have h1' : 0 < 1 - τ := by linarith
  have eW : R + vs 1 L = R + L := by rw [vs_one]
  have e2 : R + vs τ L + vs (1 - τ) L = R + L := by apply V3.ext' <;> simp [vs] <;> ring
  have hX2 : 0 < V3.dot (V3.cross (R + vs τ L) L) (V3.cross (R + vs τ L) L) := by
    have : V3.dot (V3.cross (R + vs τ L) L) (V3.cross (R + vs τ L) L) = V3.dot (V3.cross R L) (V3.cross R L) := by
      simp [V3.dot, V3.cross, vs]; ring
    rw [this]; exact hX
  obtain ⟨gR, gN, iW⟩ := triEdgeI_canon R L 1 one_pos hL hX (by rw [vs_one]; exact hoffW)
  obtain ⟨_, gM, i1⟩ := triEdgeI_canon R L τ h0 hL hX hoff1
  obtain ⟨_, _, i2⟩ := triEdgeI_canon (R + vs τ L) L (1 - τ) h1' hL hX2 (by rw [e2]; exact hoff2)
  rw [vs_one] at iW gN
  rw [e2] at i2
  rw [iW, i1, i2]
  have hl : 0 < √(V3.dot L L) := Real.sqrt_pos.mpr hL
  set gr := √(V3.dot R R) + V3.dot R L / √(V3.dot L L)
  set gm := √(V3.dot (R + vs τ L) (R + vs τ L)) + V3.dot (R + vs τ L) L / √(V3.dot L L)
  set gn := √(V3.dot (R + L) (R + L)) + V3.dot (R + L) L / √(V3.dot L L)
  rw [Real.log_div gM.ne' gR.ne', Real.log_div gN.ne' gM.ne', Real.log_div gN.ne' gR.ne']
  field_simp
  ring

/-! ### the triangle cut through a point of its first edge -/

/-- the solid angles of the two pieces add up to the solid angle of the whole (Van Oosterom–Strackee arctan form with the 2π clamp of
`triangle_Bfield`, observer at `obs`).  True for every observer off the triangle's plane (the three signed solid angles have the same
sign and are smaller than 2π in absolute value) at which the whole's value is not clamped: Lemmas/SolidAngle.lean
(`solidAngleAdditive_iff_of_offplane`); not proved in this file -/
def SolidAngleAdditive (a m b c obs : V3 ℝ) : Prop :=
  solidAngle (a - obs) (m - obs) (c - obs) (Kern.norm (a - obs)) (Kern.norm (m - obs)) (Kern.norm (c - obs)) +
    solidAngle (m - obs) (b - obs) (c - obs) (Kern.norm (m - obs)) (Kern.norm (b - obs)) (Kern.norm (c - obs)) =
  solidAngle (a - obs) (b - obs) (c - obs) (Kern.norm (a - obs)) (Kern.norm (b - obs)) (Kern.norm (c - obs))

theorem norm_vs_pos (t : ℝ) (ht : 0 < t) (v : V3 ℝ) : Kern.norm (vs t v) = t * Kern.norm v := by
  simp only [Kern.norm, vs, sqrt_real]
  rw [show t * v.x * (t * v.x) + t * v.y * (t * v.y) + t * v.z * (t * v.z) = t ^ 2 * (v.x * v.x + v.y * v.y + v.z * v.z) by ring,
    Real.sqrt_mul (by positivity), Real.sqrt_sq ht.le]

theorem vd_vs_norm (t : ℝ) (ht : 0 < t) (v : V3 ℝ) : vd (vs t v) (t * Kern.norm v) = vd v (Kern.norm v) := by
  apply V3.ext' <;> simp only [vd, vs] <;> exact mul_div_mul_left _ _ ht.ne'

private theorem split_algebra (nv pol L0 L1 L2 D : V3 ℝ) (s1 s2 s I1 I2 I0 Im Ib Ic : ℝ) (τ : ℝ)
    (hs : s1 + s2 = s) (hI : τ * I1 + (1 - τ) * I2 = I0) :
    vd (vd (vs (V3.dot nv pol) (vs s1 nv - V3.cross nv (vs I1 (vs τ L0) + vs Im D + vs Ic L2))) Real.pi) 4 +
      vd (vd (vs (V3.dot nv pol) (vs s2 nv - V3.cross nv (vs I2 (vs (1 - τ) L0) + vs Ib L1 + vs Im (-D)))) Real.pi) 4 =
    vd (vd (vs (V3.dot nv pol) (vs s nv - V3.cross nv (vs I0 L0 + vs Ib L1 + vs Ic L2))) Real.pi) 4 := by
  subst hs hI
  apply V3.ext' <;> simp [vd, vs, V3.cross, V3.dot, neg_x, neg_y, neg_z] <;> ring

/-- **`triangle_split_additive`, everything but the solid angle**: `m = a + τ (b − a)`, `0 < τ < 1`; the observer is off the line
through `a`, `b`, outside the `on_edge` tolerance of the edge `a–b`, of its two pieces and of the new edge `m–c`, and the solid
angles add (`SolidAngleAdditive`).  Then the sheets of `(a, m, c)` and `(m, b, c)` add up to the sheet of `(a, b, c)`. -/
theorem triangleB_split (a b c pol obs : V3 ℝ) (τ : ℝ) (h0 : 0 < τ) (h1 : τ < 1)
    (hline : 0 < V3.dot (V3.cross (a - obs) (b - a)) (V3.cross (a - obs) (b - a)))
    (hoffW : ¬ TriEdgeOnV (a - obs) (b - obs) (b - a))
    (hoff1 : ¬ TriEdgeOnV (a - obs) (a + vs τ (b - a) - obs) (a + vs τ (b - a) - a))
    (hoff2 : ¬ TriEdgeOnV (a + vs τ (b - a) - obs) (b - obs) (b - (a + vs τ (b - a))))
    (hoffM : ¬ TriEdgeOnV (a + vs τ (b - a) - obs) (c - obs) (c - (a + vs τ (b - a))))
    (hsa : SolidAngleAdditive a (a + vs τ (b - a)) b c obs) :
    triangleB a (a + vs τ (b - a)) c pol obs + triangleB (a + vs τ (b - a)) b c pol obs = triangleB a b c pol obs := by
  have h1' : 0 < 1 - τ := by linarith
  set m := a + vs τ (b - a) with hm
  -- the normals
  have hn1 : V3.cross (m - a) (c - a) = vs τ (V3.cross (b - a) (c - a)) := by
    apply V3.ext' <;> simp [hm, vs, V3.cross] <;> ring
  have hn2 : V3.cross (b - m) (c - m) = vs (1 - τ) (V3.cross (b - a) (c - a)) := by
    apply V3.ext' <;> simp [hm, vs, V3.cross] <;> ring
  have hz : (zero3 : V3 ℝ) + zero3 = zero3 := by apply V3.ext' <;> simp [zero3, n]
  by_cases hA : Kern.norm (V3.cross (b - a) (c - a)) = 0
  · simp only [triangleB, hn1, hn2, norm_vs_pos τ h0, norm_vs_pos (1 - τ) h1', eq0_real, hA, mul_zero, decide_true, if_true, hz]
  · have hA1 : ¬ τ * Kern.norm (V3.cross (b - a) (c - a)) = 0 := mul_ne_zero h0.ne' hA
    have hA2 : ¬ (1 - τ) * Kern.norm (V3.cross (b - a) (c - a)) = 0 := mul_ne_zero h1'.ne' hA
    -- the edge vectors of the pieces
    have hL0a : m - a = vs τ (b - a) := by apply V3.ext' <;> simp [hm, vs]
    have hL0b : b - m = vs (1 - τ) (b - a) := by apply V3.ext' <;> simp [hm, vs] <;> ring
    have hRm : m - obs = (a - obs) + vs τ (b - a) := by apply V3.ext' <;> simp [hm, vs] <;> ring
    have hRb : b - obs = (a - obs) + (b - a) := by apply V3.ext' <;> simp
    have hLab : 0 < V3.dot (b - a) (b - a) := (edges_pos_of_area _ _ hA).1
    -- additivity along a–b
    have hsplit := triEdgeI_split (a - obs) (b - a) τ h0 h1 hLab hline (by rw [← hRb]; exact hoffW)
      (by rw [← hRm, ← hL0a]; exact hoff1) (by rw [← hRm, ← hRb, ← hL0b]; exact hoff2)
    rw [← hRm, ← hRb] at hsplit
    -- the internal edge m–c in both directions
    have hLmc : 0 < V3.dot (c - m) (c - m) := by
      have := (edges_pos_of_area (b - m) (c - m) (by rw [hn2, norm_vs_pos _ h1']; exact hA2)).2.1
      exact this
    have hrev : triEdgeI (c - obs) (m - obs) (m - c) = triEdgeI (m - obs) (c - obs) (c - m) :=
      triEdgeI_reverse _ _ _ _ (by apply V3.ext' <;> simp) (by apply V3.ext' <;> simp [neg_x, neg_y, neg_z]) hLmc hoffM
    have hD : m - c = -(c - m) := by apply V3.ext' <;> simp [neg_x, neg_y, neg_z]
    unfold SolidAngleAdditive at hsa
    rw [hL0a] at hn1
    rw [hL0b] at hn2
    rw [hD] at hrev
    simp only [triangleB, hL0a, hL0b, hD]
    simp only [hn1, hn2, norm_vs_pos τ h0, norm_vs_pos (1 - τ) h1', eq0_real, hA, hA1, hA2, decide_false,
      Bool.false_eq_true, if_false, vd_vs_norm τ h0, vd_vs_norm (1 - τ) h1', hrev, pi_real, n, ofNat_real,
      Nat.cast_ofNat]
    rw [← hL0a, ← hL0b] at hsplit
    rw [hL0a, hL0b] at hsplit
    exact split_algebra _ pol (b - a) (c - b) (a - c) (c - m) _ _ _ _ _ _ _ _ _ τ hsa hsplit

end MagpyVerif.Kern

namespace MagpyVerif.Kern
open MagpyVerif

theorem solidAngleS_zero_of_nonneg (D : ℝ) (h : 0 ≤ D) : solidAngleS 0 D = 0 := by
  have : (⟨D, 0⟩ : ℂ) = ((D : ℝ) : ℂ) := by apply Complex.ext <;> simp
  simp [solidAngleS, this, Complex.arg_ofReal_of_nonneg h]

theorem norm_nonneg' (v : V3 ℝ) : 0 ≤ Kern.norm v := Real.sqrt_nonneg _

/-- for an observer IN the plane of the triangle, in the sector where the three corners (and the cut point) are seen under pairwise
acute angles, all three solid angles are 0 — `SolidAngleAdditive` holds there (a sufficient condition, used for non-vacuity) -/
theorem solidAngleAdditive_of_coplanar (a m b c obs : V3 ℝ)
    (hN1 : V3.dot (c - obs) (V3.cross (m - obs) (a - obs)) = 0) (hN2 : V3.dot (c - obs) (V3.cross (b - obs) (m - obs)) = 0)
    (hN : V3.dot (c - obs) (V3.cross (b - obs) (a - obs)) = 0)
    (d1 : 0 ≤ V3.dot (c - obs) (m - obs)) (d2 : 0 ≤ V3.dot (c - obs) (a - obs)) (d3 : 0 ≤ V3.dot (m - obs) (a - obs))
    (d4 : 0 ≤ V3.dot (c - obs) (b - obs)) (d5 : 0 ≤ V3.dot (b - obs) (m - obs)) (d6 : 0 ≤ V3.dot (b - obs) (a - obs)) :
    SolidAngleAdditive a m b c obs := by
  unfold SolidAngleAdditive
  have ha := norm_nonneg' (a - obs)
  have hm := norm_nonneg' (m - obs)
  have hb := norm_nonneg' (b - obs)
  have hc := norm_nonneg' (c - obs)
  rw [solidAngle_eq mu0R, solidAngle_eq mu0R, solidAngle_eq mu0R, hN1, hN2, hN,
    solidAngleS_zero_of_nonneg _ (by positivity), solidAngleS_zero_of_nonneg _ (by positivity),
    solidAngleS_zero_of_nonneg _ (by positivity)]
  norm_num

end MagpyVerif.Kern
