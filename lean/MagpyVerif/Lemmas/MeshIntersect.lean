/-
Lemmas/MeshIntersect.lean — the TriangularMesh self-intersection test (Model/MeshIntersect.lean) over the real carrier with
`rd = id` (no float32 rounding), for the REPAIRED code: what `segments_intersect_facets` decides geometrically (exactly: the
open segment meets the CLOSED facet and both end points are farther than `eps` from its plane), and how
`get_intersecting_triangles` behaves under translation, a common positive length factor (now with `eps` fixed: the
normalisation by the mesh size makes `eps` a relative tolerance) and a permutation of the face list.  Property-level
statements: Props/C16.
-/
import MagpyVerif.Lemmas.TrimeshInside
import MagpyVerif.Lemmas.TrimeshTetra
import MagpyVerif.Model.MeshIntersect

namespace MagpyVerif.Kern
open MagpyVerif

/-! ### `rd = id`: the rounded operations are the plain vector operations -/

@[simp] theorem rsub_id (a b : V3 ℝ) : rsub id a b = a - b := rfl
@[simp] theorem rcross_id (a b : V3 ℝ) : rcross id a b = V3.cross a b := rfl
@[simp] theorem rdot_id (a b : V3 ℝ) : rdot id a b = V3.dot a b := rfl

/-- unnormalised facet normal `(t2 − t0) × (t2 − t1)` -/
noncomputable def rawNormal (t : Tri ℝ) : V3 ℝ := V3.cross (t.2.2 - t.1) (t.2.2 - t.2.1)
/-- `|rawNormal|` = twice the facet's area -/
noncomputable def normalLen (t : Tri ℝ) : ℝ := Real.sqrt (V3.dot (rawNormal t) (rawNormal t))
/-- unnormalised signed distance from the facet's plane -/
noncomputable def rawDist (t : Tri ℝ) (p : V3 ℝ) : ℝ := V3.dot (rawNormal t) (p - t.2.2)

theorem planeDist_id (t : Tri ℝ) (p : V3 ℝ) : planeDist id t p = rawDist t p / normalLen t := by
  simp only [planeDist, facetNormal, rdivs, rnorm, rdot_id, rsub_id, rcross_id, id, sqrt_real, rawDist, rawNormal,
    normalLen, V3.dot]
  ring

theorem normalLen_nonneg (t : Tri ℝ) : 0 ≤ normalLen t := Real.sqrt_nonneg _

/-! ### sign codes -/

theorem signNe_mul_neg {a b : ℝ} (h : signNe a b = true) (ha : a ≠ 0) (hb : b ≠ 0) : a * b < 0 := by
  rw [signNe_real, sgn_real, sgn_real] at h
  rcases lt_or_gt_of_ne ha with ha' | ha' <;> rcases lt_or_gt_of_ne hb with hb' | hb'
  · simp [ha', hb'] at h
  · exact mul_neg_of_neg_of_pos ha' hb'
  · exact mul_neg_of_pos_of_neg ha' hb'
  · simp [ha', hb', not_lt.mpr ha'.le, not_lt.mpr hb'.le] at h

theorem signNe_of_mul_neg {a b : ℝ} (h : a * b < 0) : signNe a b = true := by
  rw [signNe_real, sgn_real, sgn_real]
  rcases mul_neg_iff.mp h with ⟨ha, hb⟩ | ⟨ha, hb⟩
  · simp [ha, hb, not_lt.mpr ha.le]
  · simp [ha, hb, not_lt.mpr hb.le]

theorem sgn_of_neg {x : ℝ} (h : x < 0) : sgn x = 0 := by rw [sgn_real, if_pos h]
theorem sgn_of_pos {x : ℝ} (h : 0 < x) : sgn x = 2 := by rw [sgn_real, if_neg (not_lt.mpr h.le), if_pos h]
theorem sgn_zero_real : sgn (0 : ℝ) = 1 := by rw [sgn_real]; simp

theorem signEq_real_iff (a b : ℝ) :
    signEq a b = true ↔ (a < 0 ∧ b < 0) ∨ (a = 0 ∧ b = 0) ∨ (0 < a ∧ 0 < b) := by
  have h : signEq a b = true ↔ sgn a = sgn b := by simp [signEq, signNe_real]
  rw [h]
  rcases lt_trichotomy a 0 with ha | rfl | ha <;> rcases lt_trichotomy b 0 with hb | rfl | hb
  all_goals
    (first | rw [sgn_of_neg ha] | rw [sgn_of_pos ha] | rw [sgn_zero_real])
  all_goals
    (try (first | rw [sgn_of_neg hb] | rw [sgn_of_pos hb] | rw [sgn_zero_real]))
  all_goals (
    constructor
    · intro h
      first
        | exact absurd h (by decide)
        | exact Or.inl ⟨ha, hb⟩
        | exact Or.inr (Or.inl ⟨rfl, rfl⟩)
        | exact Or.inr (Or.inr ⟨ha, hb⟩)
    · rintro (⟨h1, h2⟩ | ⟨h1, h2⟩ | ⟨h1, h2⟩) <;> first | rfl | (exfalso; linarith))

/-! ### the geometry of one segment against one facet -/

/-- `p` lies on the open segment between `s0` and `s1` -/
def InOpenSegment (s0 s1 p : V3 ℝ) : Prop := ∃ τ : ℝ, 0 < τ ∧ τ < 1 ∧ p = s1 + vs τ (s0 - s1)
/-- `p` lies on the closed segment between `s0` and `s1` -/
def InSegment (s0 s1 p : V3 ℝ) : Prop := ∃ τ : ℝ, 0 ≤ τ ∧ τ ≤ 1 ∧ p = s1 + vs τ (s0 - s1)
/-- `p` is a convex combination of the corners with positive weights (relative interior of the triangle) -/
def InTriInterior (t : Tri ℝ) (p : V3 ℝ) : Prop :=
  ∃ a b c : ℝ, 0 < a ∧ 0 < b ∧ 0 < c ∧ a + b + c = 1 ∧ p = vs a t.1 + vs b t.2.1 + vs c t.2.2
/-- `p` is a convex combination of the corners (closed triangle) -/
def InTriangle (t : Tri ℝ) (p : V3 ℝ) : Prop :=
  ∃ a b c : ℝ, 0 ≤ a ∧ 0 ≤ b ∧ 0 ≤ c ∧ a + b + c = 1 ∧ p = vs a t.1 + vs b t.2.1 + vs c t.2.2

theorem InOpenSegment.closed {s0 s1 p : V3 ℝ} (h : InOpenSegment s0 s1 p) : InSegment s0 s1 p := by
  obtain ⟨τ, h0, h1, hp⟩ := h; exact ⟨τ, h0.le, h1.le, hp⟩
theorem InTriInterior.closed {t : Tri ℝ} {p : V3 ℝ} (h : InTriInterior t p) : InTriangle t p := by
  obtain ⟨a, b, c, ha, hb, hc, hs, hp⟩ := h; exact ⟨a, b, c, ha.le, hb.le, hc.le, hs, hp⟩

/-- the three signed volumes of `segments_intersect_facets` add up to the difference of the raw plane distances -/
theorem signedVol_sum (s0 s1 : V3 ℝ) (t : Tri ℝ) :
    signedVol id s0 s1 t.1 t.2.1 + signedVol id s0 s1 t.2.1 t.2.2 + signedVol id s0 s1 t.2.2 t.1
      = rawDist t s0 - rawDist t s1 := by
  simp only [signedVol, rdot_id, rsub_id, rcross_id, rawDist, rawNormal, V3.dot, V3.cross, V3.sub_x, V3.sub_y, V3.sub_z]
  ring

/-- Cramer's identity behind the test: weighting the corners with the signed volumes gives the point where the carrier
line meets the plane -/
theorem signedVol_point (s0 s1 : V3 ℝ) (t : Tri ℝ) :
    vs (signedVol id s0 s1 t.2.1 t.2.2) t.1 + vs (signedVol id s0 s1 t.2.2 t.1) t.2.1 + vs (signedVol id s0 s1 t.1 t.2.1) t.2.2
      = vs (rawDist t s0 - rawDist t s1) s1 + vs (-rawDist t s1) (s0 - s1) := by
  apply V3.ext' <;>
    simp only [signedVol, rdot_id, rsub_id, rcross_id, rawDist, rawNormal, V3.dot, V3.cross, V3.sub_x, V3.sub_y, V3.sub_z,
      V3.add_x, V3.add_y, V3.add_z, vs] <;> ring

theorem feq_real (a b : ℝ) : feq a b = decide (a = b) := by
  rw [Bool.eq_iff_iff]
  simp only [feq, le_real, Bool.and_eq_true, decide_eq_true_eq]
  exact le_antisymm_iff.symm

theorem veq_iff (p q : V3 ℝ) : veq p q = true ↔ p = q := by
  simp only [veq, feq_real, Bool.and_eq_true, decide_eq_true_eq]
  constructor
  · rintro ⟨⟨h1, h2⟩, h3⟩; exact V3.ext' h1 h2 h3
  · rintro rfl; exact ⟨⟨rfl, rfl⟩, rfl⟩

/-- the corners of a facet lie in its plane -/
theorem rawDist_corner (t : Tri ℝ) : rawDist t t.1 = 0 ∧ rawDist t t.2.1 = 0 ∧ rawDist t t.2.2 = 0 := by
  refine ⟨?_, ?_, ?_⟩ <;>
    simp only [rawDist, rawNormal, V3.dot, V3.cross, V3.sub_x, V3.sub_y, V3.sub_z] <;> ring

theorem planeDist_corner (t : Tri ℝ) :
    planeDist id t t.1 = 0 ∧ planeDist id t t.2.1 = 0 ∧ planeDist id t t.2.2 = 0 := by
  obtain ⟨h0, h1, h2⟩ := rawDist_corner t
  simp only [planeDist_id, h0, h1, h2, zero_div, and_self]

/-- in exact arithmetic the `touch` mask of the repaired code never changes a verdict: an end point that IS a corner of the
facet has plane distance 0, which no `eps ≥ 0` lets pass (in float32 that distance is rounding noise, which is why the code
tests the coordinates) -/
theorem touchesCorner_false_of_far {eps : ℝ} (heps : 0 ≤ eps) {s0 s1 : V3 ℝ} {t : Tri ℝ}
    (h0 : eps < |planeDist id t s0|) (h1 : eps < |planeDist id t s1|) : touchesCorner s0 s1 t = false := by
  obtain ⟨c0, c1, c2⟩ := planeDist_corner t
  have k : ∀ s q : V3 ℝ, eps < |planeDist id t s| → planeDist id t q = 0 → veq s q = false := by
    intro s q hs hq
    rw [Bool.eq_false_iff, ne_eq, veq_iff]
    rintro rfl
    rw [hq, abs_zero] at hs
    linarith
  simp only [touchesCorner, k s0 _ h0 c0, k s0 _ h0 c1, k s0 _ h0 c2, k s1 _ h1 c0, k s1 _ h1 c1, k s1 _ h1 c2,
    Bool.or_self]

/-- unfolding of one entry of `segments_intersect_facets` at ℝ -/
theorem segFacet_id_iff (eps : ℝ) (s0 s1 : V3 ℝ) (t : Tri ℝ) :
    segFacet id eps s0 s1 t = true ↔
      (signNe (planeDist id t s0) (planeDist id t s1) = true ∧ eps < |planeDist id t s0| ∧ eps < |planeDist id t s1|) ∧
      ((0 ≤ signedVol id s0 s1 t.1 t.2.1 ∧ 0 ≤ signedVol id s0 s1 t.2.1 t.2.2 ∧ 0 ≤ signedVol id s0 s1 t.2.2 t.1) ∨
       (signedVol id s0 s1 t.1 t.2.1 ≤ 0 ∧ signedVol id s0 s1 t.2.1 t.2.2 ≤ 0 ∧ signedVol id s0 s1 t.2.2 t.1 ≤ 0)) ∧
      touchesCorner s0 s1 t = false := by
  simp only [segFacet, planeCrossed, sameVolume, Bool.and_eq_true, Bool.or_eq_true, lt_real, le_real, abs_real,
    decide_eq_true_eq, id, and_assoc, n, ofNat_real, Nat.cast_zero, Bool.not_eq_eq_eq_not, Bool.not_true]

/-- the same without the `touch` mask, which is implied (any `eps ≥ 0`) -/
theorem segFacet_id_iff' {eps : ℝ} (heps : 0 ≤ eps) (s0 s1 : V3 ℝ) (t : Tri ℝ) :
    segFacet id eps s0 s1 t = true ↔
      (signNe (planeDist id t s0) (planeDist id t s1) = true ∧ eps < |planeDist id t s0| ∧ eps < |planeDist id t s1|) ∧
      ((0 ≤ signedVol id s0 s1 t.1 t.2.1 ∧ 0 ≤ signedVol id s0 s1 t.2.1 t.2.2 ∧ 0 ≤ signedVol id s0 s1 t.2.2 t.1) ∨
       (signedVol id s0 s1 t.1 t.2.1 ≤ 0 ∧ signedVol id s0 s1 t.2.1 t.2.2 ≤ 0 ∧ signedVol id s0 s1 t.2.2 t.1 ≤ 0)) := by
  rw [segFacet_id_iff]
  constructor
  · rintro ⟨a, b, _⟩; exact ⟨a, b⟩
  · rintro ⟨a, b⟩; exact ⟨a, b, touchesCorner_false_of_far heps a.2.1 a.2.2⟩

/-- a reported crossing has a non-degenerate facet and raw plane distances of opposite strict signs -/
theorem crossed_raw {eps : ℝ} (heps : 0 ≤ eps) {s0 s1 : V3 ℝ} {t : Tri ℝ}
    (hs : signNe (planeDist id t s0) (planeDist id t s1) = true) (h0 : eps < |planeDist id t s0|)
    (h1 : eps < |planeDist id t s1|) : 0 < normalLen t ∧ rawDist t s0 * rawDist t s1 < 0 := by
  have g0 : planeDist id t s0 ≠ 0 := fun h => by rw [h, abs_zero] at h0; linarith
  have g1 : planeDist id t s1 ≠ 0 := fun h => by rw [h, abs_zero] at h1; linarith
  have hL : normalLen t ≠ 0 := fun h => g0 (by rw [planeDist_id, h, div_zero])
  have hLp : 0 < normalLen t := lt_of_le_of_ne (normalLen_nonneg t) (Ne.symm hL)
  refine ⟨hLp, ?_⟩
  have hm := signNe_mul_neg hs g0 g1
  rw [planeDist_id, planeDist_id, div_mul_div_comm] at hm
  have := (div_neg_iff.mp hm)
  rcases this with ⟨_, hneg⟩ | ⟨h, _⟩
  · exact absurd hneg (not_lt.mpr (mul_pos hLp hLp).le)
  · exact h

/-- **soundness of the primitive**: if `segments_intersect_facets` (exact arithmetic, any `eps ≥ 0`) reports segment
`s0 → s1` as intersecting facet `t`, then there is a point in the open segment and in the (closed) facet -/
theorem segFacet_sound {eps : ℝ} (heps : 0 ≤ eps) {s0 s1 : V3 ℝ} {t : Tri ℝ} (h : segFacet id eps s0 s1 t = true) :
    ∃ p, InOpenSegment s0 s1 p ∧ InTriangle t p := by
  obtain ⟨⟨hs, h0, h1⟩, hv⟩ := (segFacet_id_iff' heps s0 s1 t).mp h
  obtain ⟨-, hG⟩ := crossed_raw heps hs h0 h1
  have hsum := signedVol_sum s0 s1 t
  have hpt := signedVol_point s0 s1 t
  set v0 := signedVol id s0 s1 t.1 t.2.1
  set v1 := signedVol id s0 s1 t.2.1 t.2.2
  set v2 := signedVol id s0 s1 t.2.2 t.1
  set G0 := rawDist t s0
  set G1 := rawDist t s1
  set D := G0 - G1 with hD
  have hDne : D ≠ 0 := by
    intro h
    have : G0 = G1 := by linarith
    rw [this] at hG
    exact absurd hG (not_lt.mpr (mul_self_nonneg G1))
  -- all three volumes have the (weak) sign of D
  have hsigns : (0 ≤ v0 / D ∧ 0 ≤ v1 / D ∧ 0 ≤ v2 / D) := by
    rcases hv with ⟨a, b, c⟩ | ⟨a, b, c⟩
    · have hDp : 0 < D := lt_of_le_of_ne (by linarith) (Ne.symm hDne)
      exact ⟨div_nonneg a hDp.le, div_nonneg b hDp.le, div_nonneg c hDp.le⟩
    · have hDn : D < 0 := lt_of_le_of_ne (by linarith) hDne
      exact ⟨div_nonneg_of_nonpos a hDn.le, div_nonneg_of_nonpos b hDn.le, div_nonneg_of_nonpos c hDn.le⟩
  obtain ⟨p0, p1, p2⟩ := hsigns
  have hτ : 0 < -G1 / D ∧ -G1 / D < 1 := by
    rcases mul_neg_iff.mp hG with ⟨a, b⟩ | ⟨a, b⟩
    · have hDp : 0 < D := by linarith
      exact ⟨div_pos (by linarith) hDp, by rw [div_lt_one hDp]; linarith⟩
    · have hDn : D < 0 := by linarith
      exact ⟨div_pos_of_neg_of_neg (by linarith) hDn, by rw [div_lt_one_of_neg hDn]; linarith⟩
  refine ⟨vs (v1 / D) t.1 + vs (v2 / D) t.2.1 + vs (v0 / D) t.2.2, ⟨-G1 / D, hτ.1, hτ.2, ?_⟩,
    ⟨v1 / D, v2 / D, v0 / D, p1, p2, p0, ?_, rfl⟩⟩
  · -- the weighted corner sum is s1 + τ (s0 − s1)
    have hx := congrArg V3.x hpt
    have hy := congrArg V3.y hpt
    have hz := congrArg V3.z hpt
    simp only [V3.add_x, V3.add_y, V3.add_z, V3.sub_x, V3.sub_y, V3.sub_z, vs] at hx hy hz
    apply V3.ext' <;> simp only [V3.add_x, V3.add_y, V3.add_z, V3.sub_x, V3.sub_y, V3.sub_z, vs] <;>
      field_simp <;> linarith
  · rw [← add_div, ← add_div, div_eq_one_iff_eq hDne]; linarith

/-- closed form of the conclusion: a common point of the closed segment and the closed triangle -/
theorem segFacet_sound_closed {eps : ℝ} (heps : 0 ≤ eps) {s0 s1 : V3 ℝ} {t : Tri ℝ} (h : segFacet id eps s0 s1 t = true) :
    ∃ p, InSegment s0 s1 p ∧ InTriangle t p := by
  obtain ⟨p, h1, h2⟩ := segFacet_sound heps h
  exact ⟨p, h1.closed, h2⟩

/-- a point farther than `eps ≥ 0` from the facet's plane certifies a facet of positive area -/
theorem normalLen_pos_of_far {eps : ℝ} (heps : 0 ≤ eps) {t : Tri ℝ} {p : V3 ℝ} (h : eps < |planeDist id t p|) :
    0 < normalLen t ∧ rawDist t p ≠ 0 := by
  have g0 : planeDist id t p ≠ 0 := fun h' => by rw [h', abs_zero] at h; linarith
  have hL : normalLen t ≠ 0 := fun h' => g0 (by rw [planeDist_id, h', div_zero])
  refine ⟨lt_of_le_of_ne (normalLen_nonneg t) (Ne.symm hL), fun h' => g0 ?_⟩
  rw [planeDist_id, h', zero_div]

theorem sign_from_scaled {τ v w G : ℝ} (hτ : 0 < τ) (hw : 0 ≤ w) (h : τ * v = -w * G) : (G < 0 → 0 ≤ v) ∧ (0 < G → v ≤ 0) := by
  constructor
  · intro hG
    have : 0 ≤ τ * v := by rw [h]; nlinarith
    by_contra hn
    exact absurd (mul_neg_of_pos_of_neg hτ (not_le.mp hn)) (not_lt.mpr this)
  · intro hG
    have : τ * v ≤ 0 := by rw [h]; nlinarith
    by_contra hn
    exact absurd (mul_pos hτ (not_le.mp hn)) (not_lt.mpr this)

theorem opp_sign_of_plane {τ G0 G1 : ℝ} (hτ0 : 0 < τ) (hτ1 : τ < 1) (hG1 : G1 ≠ 0) (K : (1 - τ) * G1 + τ * G0 = 0) :
    G0 * G1 < 0 := by
  by_contra hn
  have h1' := mul_nonneg hτ0.le (not_lt.mp hn)
  have h2' := mul_pos (sub_pos.mpr hτ1) (mul_self_pos.mpr hG1)
  have : τ * (G0 * G1) = -((1 - τ) * (G1 * G1)) := by linear_combination G1 * K
  linarith

/-- **completeness of the primitive**: if the open segment meets the CLOSED facet (interior, edge or corner) and both end
points are farther than `eps` from the facet's plane, `segments_intersect_facets` (exact arithmetic) reports it -/
theorem segFacet_complete {eps : ℝ} (heps : 0 ≤ eps) {s0 s1 : V3 ℝ} {t : Tri ℝ}
    (h0 : eps < |planeDist id t s0|) (h1 : eps < |planeDist id t s1|)
    (hp : ∃ p, InOpenSegment s0 s1 p ∧ InTriangle t p) : segFacet id eps s0 s1 t = true := by
  obtain ⟨p, ⟨τ, hτ0, hτ1, hpτ⟩, ⟨a, b, c, ha, hb, hc, hsum, hpt⟩⟩ := hp
  obtain ⟨hL, hG0ne⟩ := normalLen_pos_of_far heps h0
  obtain ⟨-, hG1ne⟩ := normalLen_pos_of_far heps h1
  have heq : s1 + vs τ (s0 - s1) = vs a t.1 + vs b t.2.1 + vs c t.2.2 := hpτ.symm.trans hpt
  have hx := congrArg V3.x heq
  have hy := congrArg V3.y heq
  have hz := congrArg V3.z heq
  have hc' : c = 1 - a - b := by linarith
  subst hc'
  obtain ⟨s0x, s0y, s0z⟩ := s0
  obtain ⟨s1x, s1y, s1z⟩ := s1
  obtain ⟨⟨t0x, t0y, t0z⟩, ⟨t1x, t1y, t1z⟩, ⟨t2x, t2y, t2z⟩⟩ := t
  simp only [V3.add_x, V3.add_y, V3.add_z, V3.sub_x, V3.sub_y, V3.sub_z, vs] at hx hy hz
  -- the plane equation along the segment, and the three volume identities
  have K : (1 - τ) * rawDist (⟨t0x, t0y, t0z⟩, ⟨t1x, t1y, t1z⟩, ⟨t2x, t2y, t2z⟩) ⟨s1x, s1y, s1z⟩
      + τ * rawDist (⟨t0x, t0y, t0z⟩, ⟨t1x, t1y, t1z⟩, ⟨t2x, t2y, t2z⟩) ⟨s0x, s0y, s0z⟩ = 0 := by
    simp only [rawDist, rawNormal, V3.dot, V3.cross, V3.sub_x, V3.sub_y, V3.sub_z]
    linear_combination ((t2y - t0y) * (t2z - t1z) - (t2z - t0z) * (t2y - t1y)) * hx
      + ((t2z - t0z) * (t2x - t1x) - (t2x - t0x) * (t2z - t1z)) * hy
      + ((t2x - t0x) * (t2y - t1y) - (t2y - t0y) * (t2x - t1x)) * hz
  have K1 : τ * signedVol id ⟨s0x, s0y, s0z⟩ ⟨s1x, s1y, s1z⟩ ⟨t1x, t1y, t1z⟩ ⟨t2x, t2y, t2z⟩
      = -a * rawDist (⟨t0x, t0y, t0z⟩, ⟨t1x, t1y, t1z⟩, ⟨t2x, t2y, t2z⟩) ⟨s1x, s1y, s1z⟩ := by
    simp only [signedVol, rdot_id, rsub_id, rcross_id, rawDist, rawNormal, V3.dot, V3.cross, V3.sub_x, V3.sub_y, V3.sub_z]
    linear_combination ((t1y - s1y) * (t2z - s1z) - (t1z - s1z) * (t2y - s1y)) * hx
      + ((t1z - s1z) * (t2x - s1x) - (t1x - s1x) * (t2z - s1z)) * hy
      + ((t1x - s1x) * (t2y - s1y) - (t1y - s1y) * (t2x - s1x)) * hz
  have K2 : τ * signedVol id ⟨s0x, s0y, s0z⟩ ⟨s1x, s1y, s1z⟩ ⟨t2x, t2y, t2z⟩ ⟨t0x, t0y, t0z⟩
      = -b * rawDist (⟨t0x, t0y, t0z⟩, ⟨t1x, t1y, t1z⟩, ⟨t2x, t2y, t2z⟩) ⟨s1x, s1y, s1z⟩ := by
    simp only [signedVol, rdot_id, rsub_id, rcross_id, rawDist, rawNormal, V3.dot, V3.cross, V3.sub_x, V3.sub_y, V3.sub_z]
    linear_combination ((t2y - s1y) * (t0z - s1z) - (t2z - s1z) * (t0y - s1y)) * hx
      + ((t2z - s1z) * (t0x - s1x) - (t2x - s1x) * (t0z - s1z)) * hy
      + ((t2x - s1x) * (t0y - s1y) - (t2y - s1y) * (t0x - s1x)) * hz
  have K0 : τ * signedVol id ⟨s0x, s0y, s0z⟩ ⟨s1x, s1y, s1z⟩ ⟨t0x, t0y, t0z⟩ ⟨t1x, t1y, t1z⟩
      = -(1 - a - b) * rawDist (⟨t0x, t0y, t0z⟩, ⟨t1x, t1y, t1z⟩, ⟨t2x, t2y, t2z⟩) ⟨s1x, s1y, s1z⟩ := by
    simp only [signedVol, rdot_id, rsub_id, rcross_id, rawDist, rawNormal, V3.dot, V3.cross, V3.sub_x, V3.sub_y, V3.sub_z]
    linear_combination ((t0y - s1y) * (t1z - s1z) - (t0z - s1z) * (t1y - s1y)) * hx
      + ((t0z - s1z) * (t1x - s1x) - (t0x - s1x) * (t1z - s1z)) * hy
      + ((t0x - s1x) * (t1y - s1y) - (t0y - s1y) * (t1x - s1x)) * hz
  have hGG := opp_sign_of_plane hτ0 hτ1 hG1ne K
  obtain ⟨n0, q0⟩ := sign_from_scaled hτ0 hc K0
  obtain ⟨n1, q1⟩ := sign_from_scaled hτ0 ha K1
  obtain ⟨n2, q2⟩ := sign_from_scaled hτ0 hb K2
  rw [segFacet_id_iff' heps]
  refine ⟨⟨?_, h0, h1⟩, ?_⟩
  · apply signNe_of_mul_neg
    rw [planeDist_id, planeDist_id, div_mul_div_comm]
    exact div_neg_of_neg_of_pos hGG (mul_pos hL hL)
  · rcases lt_or_gt_of_ne hG1ne with hneg | hpos
    · exact Or.inl ⟨n0 hneg, n1 hneg, n2 hneg⟩
    · exact Or.inr ⟨q0 hpos, q1 hpos, q2 hpos⟩

/-- a common point of the CLOSED segment and the closed facet is as good when both end points are off the plane: it cannot be
an end point -/
theorem open_of_closed_far {eps : ℝ} (heps : 0 ≤ eps) {s0 s1 : V3 ℝ} {t : Tri ℝ}
    (h0 : eps < |planeDist id t s0|) (h1 : eps < |planeDist id t s1|) {p : V3 ℝ} (hs : InSegment s0 s1 p)
    (ht : InTriangle t p) : InOpenSegment s0 s1 p := by
  obtain ⟨τ, hτ0, hτ1, hp⟩ := hs
  obtain ⟨a, b, c, -, -, -, hsum, hpt⟩ := ht
  -- a point of the facet lies in its plane
  have hplane : rawDist t p = 0 := by
    have hc' : c = 1 - a - b := by linarith
    subst hc'
    rw [hpt]
    simp only [rawDist, rawNormal, V3.dot, V3.cross, V3.sub_x, V3.sub_y, V3.sub_z, V3.add_x, V3.add_y, V3.add_z, vs]
    ring
  have far : ∀ s : V3 ℝ, eps < |planeDist id t s| → p ≠ s := by
    rintro s hs rfl
    rw [planeDist_id, hplane, zero_div, abs_zero] at hs
    linarith
  refine ⟨τ, lt_of_le_of_ne hτ0 ?_, lt_of_le_of_ne hτ1 ?_, hp⟩
  · rintro rfl
    apply far s1 h1
    rw [hp]; apply V3.ext' <;> simp [vs]
  · rintro rfl
    apply far s0 h0
    rw [hp]; apply V3.ext' <;> simp [vs]

/-- **what the repaired primitive decides, exactly** (exact arithmetic, `eps ≥ 0`): the segment is reported iff both end
points are farther than `eps` from the facet's plane and the segment has a point in common with the closed facet -/
theorem segFacet_iff_closed {eps : ℝ} (heps : 0 ≤ eps) (s0 s1 : V3 ℝ) (t : Tri ℝ) :
    segFacet id eps s0 s1 t = true ↔
      eps < |planeDist id t s0| ∧ eps < |planeDist id t s1| ∧ ∃ p, InSegment s0 s1 p ∧ InTriangle t p := by
  constructor
  · intro h
    obtain ⟨⟨-, h0, h1⟩, -⟩ := (segFacet_id_iff' heps s0 s1 t).mp h
    exact ⟨h0, h1, segFacet_sound_closed heps h⟩
  · rintro ⟨h0, h1, p, hs, ht⟩
    exact segFacet_complete heps h0 h1 ⟨p, open_of_closed_far heps h0 h1 hs ht, ht⟩

/-- the segment through the midpoint of an edge of the facet that the code before the repair missed for every `eps`
(one signed volume is exactly 0): reported now, for every `eps` in [0, 1) -/
theorem segFacet_edge_crossing {eps : ℝ} (h0 : 0 ≤ eps) (h1 : eps < 1) :
    segFacet id eps (⟨1 / 2, 0, 1⟩ : V3 ℝ) ⟨1 / 2, 0, -1⟩ (⟨0, 0, 0⟩, ⟨1, 0, 0⟩, ⟨0, 1, 0⟩) = true := by
  have hL : normalLen ((⟨0, 0, 0⟩, ⟨1, 0, 0⟩, ⟨0, 1, 0⟩) : Tri ℝ) = 1 := by
    simp [normalLen, rawNormal, V3.dot, V3.cross]
  apply segFacet_complete h0
  · rw [planeDist_id, hL]; simp [rawDist, rawNormal, V3.dot, V3.cross]; exact h1
  · rw [planeDist_id, hL]; simp [rawDist, rawNormal, V3.dot, V3.cross]; exact h1
  · refine ⟨⟨1 / 2, 0, 0⟩, ⟨1 / 2, by norm_num, by norm_num, ?_⟩, ⟨1 / 2, 1 / 2, 0, by norm_num, by norm_num, le_refl _, by norm_num, ?_⟩⟩
    · apply V3.ext' <;> simp [vs] <;> norm_num
    · apply V3.ext' <;> simp [vs]

/-- **what is still not reported**: a segment that ENDS in the facet (here in its relative interior) has a point in common
with it and is reported for no `eps ≥ 0` — the plane distance of that end point is 0.  (Mesh level: an octahedron whose
equator lies in a face of a box, two needles whose tips lie in each other's plane: replays.) -/
theorem segFacet_misses_end_in_facet :
    ∃ (s0 s1 : V3 ℝ) (t : Tri ℝ) (p : V3 ℝ), InSegment s0 s1 p ∧ InTriInterior t p ∧
      ∀ eps : ℝ, 0 ≤ eps → segFacet id eps s0 s1 t = false := by
  refine ⟨⟨1 / 4, 1 / 4, 1⟩, ⟨1 / 4, 1 / 4, 0⟩, (⟨0, 0, 0⟩, ⟨1, 0, 0⟩, ⟨0, 1, 0⟩), ⟨1 / 4, 1 / 4, 0⟩, ⟨0, le_refl _, by norm_num, ?_⟩,
    ⟨1 / 2, 1 / 4, 1 / 4, by norm_num, by norm_num, by norm_num, by norm_num, ?_⟩, ?_⟩
  · apply V3.ext' <;> simp [vs]
  · apply V3.ext' <;> simp [vs]
  · intro eps heps
    rw [Bool.eq_false_iff, ne_eq, segFacet_iff_closed heps]
    rintro ⟨-, h1, -⟩
    have : planeDist id ((⟨0, 0, 0⟩, ⟨1, 0, 0⟩, ⟨0, 1, 0⟩) : Tri ℝ) ⟨1 / 4, 1 / 4, 0⟩ = 0 := by
      rw [planeDist_id]; simp [rawDist, rawNormal, V3.dot, V3.cross]
    rw [this, abs_zero] at h1
    linarith

/-! ### the index bookkeeping of `get_intersecting_triangles` -/

theorem mem_ballPairs (n : Nat) (w : Nat → Nat → Bool) (p : Nat × Nat) :
    p ∈ ballPairs n w ↔ p.1 < n ∧ p.2 < n ∧ w p.2 p.1 = true := by
  simp only [ballPairs, List.mem_flatMap, List.mem_map, List.mem_filter, List.mem_range]
  constructor
  · rintro ⟨j, hj, i, ⟨hi, hw⟩, rfl⟩
    exact ⟨hi, hj, hw⟩
  · rintro ⟨h1, h2, h3⟩
    exact ⟨p.2, h2, p.1, ⟨h1, h3⟩, rfl⟩

/-- the condition under which index `k` is reported -/
def Flagged (n : Nat) (w h : Nat → Nat → Bool) (k : Nat) : Prop :=
  ∃ i j, i < n ∧ j < n ∧ w j i = true ∧ i ≠ j ∧ h i j = true ∧ (i = k ∨ j = k)

theorem mem_intersectingCore (n : Nat) (w h : Nat → Nat → Bool) (k : Nat) :
    k ∈ intersectingCore n w h ↔ k < n ∧ Flagged n w h k := by
  simp only [intersectingCore, List.mem_filter, List.mem_range, List.any_eq_true, mem_ballPairs, Bool.or_eq_true,
    beq_iff_eq, bne_iff_ne, ne_eq, Flagged]
  constructor
  · rintro ⟨hk, ⟨i, j⟩, ⟨⟨⟨hi, hj, hw⟩, hne⟩, hh⟩, hor⟩
    exact ⟨hk, i, j, hi, hj, hw, hne, hh, hor⟩
  · rintro ⟨hk, i, j, hi, hj, hw, hne, hh, hor⟩
    exact ⟨hk, (i, j), ⟨⟨⟨hi, hj, hw⟩, hne⟩, hh⟩, hor⟩

theorem intersectingCore_nodup (n : Nat) (w h : Nat → Nat → Bool) : (intersectingCore n w h).Nodup :=
  List.Nodup.filter _ List.nodup_range

/-- the result only depends on the tests at index pairs below `n` -/
theorem intersectingCore_congr (n : Nat) (w w' h h' : Nat → Nat → Bool)
    (hw : ∀ i j, i < n → j < n → w j i = w' j i) (hh : ∀ i j, i < n → j < n → h i j = h' i j) :
    intersectingCore n w h = intersectingCore n w' h' := by
  have key : ∀ k, k ∈ intersectingCore n w h ↔ k ∈ intersectingCore n w' h' := by
    intro k
    simp only [mem_intersectingCore, Flagged]
    constructor
    · rintro ⟨hk, i, j, hi, hj, a, b, c, d⟩
      exact ⟨hk, i, j, hi, hj, by rw [← hw i j hi hj]; exact a, b, by rw [← hh i j hi hj]; exact c, d⟩
    · rintro ⟨hk, i, j, hi, hj, a, b, c, d⟩
      exact ⟨hk, i, j, hi, hj, by rw [hw i j hi hj]; exact a, b, by rw [hh i j hi hj]; exact c, d⟩
  unfold intersectingCore
  apply List.filter_congr
  intro k hk
  have hk' := List.mem_range.mp hk
  have := key k
  simp only [intersectingCore, List.mem_filter, List.mem_range, hk', true_and] at this
  exact Bool.eq_iff_iff.mpr this

/-- a non-empty report has at least two entries (both faces of a flagged pair are reported): the class's verdict
`len(...) > 1` is "something was reported" -/
theorem intersectingCore_two (n : Nat) (w h : Nat → Nat → Bool) :
    1 < (intersectingCore n w h).length ↔ intersectingCore n w h ≠ [] := by
  constructor
  · intro hl he
    rw [he] at hl
    simp at hl
  · intro hne
    obtain ⟨k, hk⟩ := List.exists_mem_of_ne_nil _ hne
    obtain ⟨_, i, j, hi, hj, a, b, c, _⟩ := (mem_intersectingCore n w h k).mp hk
    have mi : i ∈ intersectingCore n w h := (mem_intersectingCore n w h i).mpr ⟨hi, i, j, hi, hj, a, b, c, Or.inl rfl⟩
    have mj : j ∈ intersectingCore n w h := (mem_intersectingCore n w h j).mpr ⟨hj, i, j, hi, hj, a, b, c, Or.inr rfl⟩
    have hnd : [i, j].Nodup := by simp [b]
    have hsub : [i, j] ⊆ intersectingCore n w h := by
      intro x hx
      simp only [List.mem_cons, List.not_mem_nil, or_false] at hx
      rcases hx with rfl | rfl
      · exact mi
      · exact mj
    have := (List.subperm_of_subset hnd hsub).length_le
    simp only [List.length_cons, List.length_nil] at this
    omega

theorem getD_map_of_lt {β γ : Type} (f : β → γ) (l : List β) (i : Nat) (hi : i < l.length) (d : β) (d' : γ) :
    (l.map f).getD i d' = f (l.getD i d) := by
  simp [List.getD_eq_getElem?_getD, List.getElem?_map, List.getElem?_eq_getElem hi]

/-! ### translation -/
section shift
variable (d : V3 ℝ)

theorem veq_shift (p q : V3 ℝ) : veq (p + d) (q + d) = veq p q := by
  simp only [veq, feq_real, V3.add_x, V3.add_y, V3.add_z, add_left_inj]

theorem touchesCorner_shift (s0 s1 : V3 ℝ) (t : Tri ℝ) :
    touchesCorner (s0 + d) (s1 + d) (triShift d t) = touchesCorner s0 s1 t := by
  simp only [touchesCorner, triShift, veq_shift]

theorem segFacet_shift (eps : ℝ) (s0 s1 : V3 ℝ) (t : Tri ℝ) :
    segFacet id eps (s0 + d) (s1 + d) (triShift d t) = segFacet id eps s0 s1 t := by
  have ht := touchesCorner_shift d s0 s1 t
  simp only [triShift] at ht
  simp only [segFacet, planeCrossed, sameVolume, planeDist, facetNormal, signedVol, rsub_id, triShift, add_sub_add, ht]

theorem edgesHit_shift (eps : ℝ) (f1 f2 : Tri ℝ) :
    edgesHit id eps (triShift d f1) (triShift d f2) = edgesHit id eps f1 f2 := by
  have h := fun a b => segFacet_shift d eps a b f2
  simp only [edgesHit]
  simp only [triShift] at h ⊢
  simp only [h]

theorem facetCentre_shift (t : Tri ℝ) : facetCentre id (triShift d t) = facetCentre id t + d := by
  apply V3.ext' <;> simp [facetCentre, triShift, n] <;> ring

theorem cornerDist_shift (c p : V3 ℝ) : cornerDist id (c + d) (p + d) = cornerDist id c p := by
  simp only [cornerDist, rsub_id, add_sub_add]

theorem maxCornerDist_shift (facets : List (Tri ℝ)) :
    maxCornerDist id (facets.map (triShift d)) = maxCornerDist id facets := by
  simp only [maxCornerDist, List.flatMap_map, facetCentre_shift]
  congr 1
  apply List.flatMap_congr
  intro t _
  simp only [triShift, cornerDist_shift]

theorem withinBall_shift (r : ℝ) (c p : V3 ℝ) : withinBall r (c + d) (p + d) = withinBall r c p := by
  simp only [withinBall, V3.add_x, V3.add_y, V3.add_z, add_sub_add_right_eq_sub]

/-- `get_intersecting_triangles` (exact arithmetic) only looks at differences of positions -/
theorem intersectingFacets_shift (r : Option ℝ) (rf eps : ℝ) (facets : List (Tri ℝ)) :
    intersectingFacets id r rf eps (facets.map (triShift d)) = intersectingFacets id r rf eps facets := by
  simp only [intersectingFacets, List.length_map, maxCornerDist_shift, List.map_map]
  apply intersectingCore_congr
  · intro i j hi hj
    rw [getD_map_of_lt _ _ j (by simpa using hj) zeroTri, getD_map_of_lt _ _ i (by simpa using hi) zeroTri,
      getD_map_of_lt _ _ j (by simpa using hj) zeroTri, getD_map_of_lt _ _ i (by simpa using hi) zeroTri]
    simp only [Function.comp, facetCentre_shift, withinBall_shift]
  · intro i j hi hj
    rw [getD_map_of_lt _ _ i hi zeroTri, getD_map_of_lt _ _ j hj zeroTri, edgesHit_shift]

end shift

/-! ### a common positive length factor -/
section scale
variable (l : ℝ) (hl : 0 < l)
include hl

theorem sgn_mul_pos (x : ℝ) : sgn (l * x) = sgn x := by
  simp only [sgn_real, mul_neg_iff, mul_pos_iff, hl, not_lt.mpr hl.le, true_and, false_and, or_false]

theorem signNe_mul_pos (a b : ℝ) : signNe (l * a) (l * b) = signNe a b := by
  simp only [signNe_real, sgn_mul_pos l hl]

theorem signEq_mul_pos (a b : ℝ) : signEq (l * a) (l * b) = signEq a b := by
  simp only [signEq, signNe_mul_pos l hl]

omit hl in
theorem rawDist_scale (t : Tri ℝ) (p : V3 ℝ) : rawDist (triScale l t) (vs l p) = l * l * (l * rawDist t p) := by
  simp only [rawDist, rawNormal, triScale, V3.dot, V3.cross, V3.sub_x, V3.sub_y, V3.sub_z, vs]
  ring

theorem normalLen_scale (t : Tri ℝ) : normalLen (triScale l t) = l * l * normalLen t := by
  have h : V3.dot (rawNormal (triScale l t)) (rawNormal (triScale l t)) = (l * l) * (l * l) * V3.dot (rawNormal t) (rawNormal t) := by
    simp only [rawNormal, triScale, V3.dot, V3.cross, V3.sub_x, V3.sub_y, V3.sub_z, vs]
    ring
  rw [normalLen, h, Real.sqrt_mul (by positivity), Real.sqrt_mul_self (by positivity), normalLen]

theorem planeDist_scale (t : Tri ℝ) (p : V3 ℝ) : planeDist id (triScale l t) (vs l p) = l * planeDist id t p := by
  rw [planeDist_id, planeDist_id, rawDist_scale l, normalLen_scale l hl,
    mul_div_mul_left _ _ (mul_pos hl hl).ne', mul_div_assoc]

omit hl in
theorem signedVol_scale (s0 s1 a b : V3 ℝ) :
    signedVol id (vs l s0) (vs l s1) (vs l a) (vs l b) = (l * l * l) * signedVol id s0 s1 a b := by
  simp only [signedVol, rdot_id, rsub_id, rcross_id, V3.dot, V3.cross, V3.sub_x, V3.sub_y, V3.sub_z, vs]
  ring

omit hl in
theorem mul_nonpos_iff_of_pos_left' {c v : ℝ} (hc : 0 < c) : c * v ≤ 0 ↔ v ≤ 0 :=
  ⟨fun h => by by_contra hn; exact absurd (mul_pos hc (not_le.mp hn)) (not_lt.mpr h), fun h => mul_nonpos_of_nonneg_of_nonpos hc.le h⟩

theorem veq_scale (p q : V3 ℝ) : veq (vs l p) (vs l q) = veq p q := by
  simp only [veq, feq_real, vs, mul_right_inj' hl.ne']

theorem touchesCorner_scale (s0 s1 : V3 ℝ) (t : Tri ℝ) :
    touchesCorner (vs l s0) (vs l s1) (triScale l t) = touchesCorner s0 s1 t := by
  simp only [touchesCorner, triScale, veq_scale l hl]

/-- one entry of `segments_intersect_facets`: lengths and `eps` multiplied by the same factor give the same verdict -/
theorem segFacet_scale (eps : ℝ) (s0 s1 : V3 ℝ) (t : Tri ℝ) :
    segFacet id (l * eps) (vs l s0) (vs l s1) (triScale l t) = segFacet id eps s0 s1 t := by
  have h3 : 0 < l * l * l := by positivity
  have e : ∀ g : ℝ, (l * eps < |l * g|) ↔ (eps < |g|) := fun g => by
    rw [abs_mul, abs_of_pos hl]; exact ⟨fun h => lt_of_mul_lt_mul_left h hl.le, fun h => mul_lt_mul_of_pos_left h hl⟩
  have e0 : ∀ v : ℝ, (0 ≤ l * l * l * v) ↔ (0 ≤ v) := fun v => mul_nonneg_iff_of_pos_left h3
  have e1 : ∀ v : ℝ, (l * l * l * v ≤ 0) ↔ (v ≤ 0) := fun v => mul_nonpos_iff_of_pos_left' h3
  have ht := touchesCorner_scale l hl s0 s1 t
  simp only [triScale] at ht
  simp only [segFacet, planeCrossed, sameVolume, planeDist_scale l hl, signNe_mul_pos l hl, lt_real, abs_real, id, e]
  simp only [triScale, signedVol_scale l, le_real, n, ofNat_real, Nat.cast_zero, e0, e1, ht]

theorem edgesHit_scale (eps : ℝ) (f1 f2 : Tri ℝ) :
    edgesHit id (l * eps) (triScale l f1) (triScale l f2) = edgesHit id eps f1 f2 := by
  have h := fun a b => segFacet_scale l hl eps a b f2
  simp only [edgesHit]
  simp only [triScale] at h ⊢
  simp only [h]

omit hl in
theorem facetCentre_scale (t : Tri ℝ) : facetCentre id (triScale l t) = vs l (facetCentre id t) := by
  apply V3.ext' <;> simp [facetCentre, triScale, vs, n] <;> ring

theorem cornerDist_scale (c p : V3 ℝ) : cornerDist id (vs l c) (vs l p) = l * cornerDist id c p := by
  have h : V3.dot (vs l p - vs l c) (vs l p - vs l c) = (l * l) * V3.dot (p - c) (p - c) := by
    simp only [V3.dot, V3.sub_x, V3.sub_y, V3.sub_z, vs]; ring
  simp only [cornerDist, rsub_id, rdot_id, id, sqrt_real, h]
  rw [Real.sqrt_mul (by positivity), Real.sqrt_mul_self hl.le]

theorem foldl_npMax_scale (xs : List ℝ) (a : ℝ) :
    (xs.map (l * ·)).foldl npMax (l * a) = l * xs.foldl npMax a := by
  induction xs generalizing a with
  | nil => rfl
  | cons x xs ih => simp only [List.map_cons, List.foldl_cons, npMax_real, ← mul_max_of_nonneg _ _ hl.le, ih]

theorem foldl_npMax_scale0 (xs : List ℝ) :
    (xs.map (l * ·)).foldl npMax (n 0) = l * xs.foldl npMax (n 0) := by
  have h := foldl_npMax_scale l hl xs (n 0)
  have h0 : l * (n 0 : ℝ) = n 0 := by simp [n]
  rw [h0] at h
  exact h

theorem maxCornerDist_scale (facets : List (Tri ℝ)) :
    maxCornerDist id (facets.map (triScale l)) = l * maxCornerDist id facets := by
  simp only [maxCornerDist, List.flatMap_map]
  rw [← foldl_npMax_scale0 l hl, List.map_flatMap]
  congr 1
  apply List.flatMap_congr
  intro t _
  simp only [facetCentre_scale l, List.map_cons, List.map_nil]
  simp only [triScale, cornerDist_scale l hl]

theorem withinBall_scale (r : ℝ) (c p : V3 ℝ) : withinBall (l * r) (vs l c) (vs l p) = withinBall r c p := by
  have e : ∀ u v : ℝ, l * u - l * v = l * (u - v) := fun u v => by ring
  have e2 : ∀ a b c r : ℝ, (l * a * (l * a) + l * b * (l * b) + l * c * (l * c) ≤ l * r * (l * r)) ↔
      (a * a + b * b + c * c ≤ r * r) := by
    intro a b c r
    have h2 : 0 < l * l := mul_pos hl hl
    constructor
    · intro h; have : (l * l) * (a * a + b * b + c * c) ≤ (l * l) * (r * r) := by nlinarith
      exact le_of_mul_le_mul_left this h2
    · intro h; have := mul_le_mul_of_nonneg_left h h2.le; nlinarith
  simp only [withinBall, vs, e, le_real, e2]

/-- `get_intersecting_triangles` (exact arithmetic): vertices, the optional radius and `eps` multiplied by the same positive
factor give the same report -/
theorem intersectingFacets_scale (r : Option ℝ) (rf eps : ℝ) (facets : List (Tri ℝ)) :
    intersectingFacets id (r.map (l * ·)) rf (l * eps) (facets.map (triScale l)) = intersectingFacets id r rf eps facets := by
  cases r with
  | none =>
    simp only [intersectingFacets, Option.map_none, List.length_map, List.map_map, id, maxCornerDist_scale l hl]
    have e : rf * (l * maxCornerDist id facets) = l * (rf * maxCornerDist id facets) := by ring
    rw [e]
    apply intersectingCore_congr
    · intro i j hi hj
      rw [getD_map_of_lt _ _ j (by simpa using hj) zeroTri, getD_map_of_lt _ _ i (by simpa using hi) zeroTri,
        getD_map_of_lt _ _ j (by simpa using hj) zeroTri, getD_map_of_lt _ _ i (by simpa using hi) zeroTri]
      simp only [Function.comp, facetCentre_scale l, withinBall_scale l hl]
    · intro i j hi hj
      rw [getD_map_of_lt _ _ i hi zeroTri, getD_map_of_lt _ _ j hj zeroTri, edgesHit_scale l hl]
  | some r =>
    simp only [intersectingFacets, Option.map_some, List.length_map, List.map_map]
    apply intersectingCore_congr
    · intro i j hi hj
      rw [getD_map_of_lt _ _ j (by simpa using hj) zeroTri, getD_map_of_lt _ _ i (by simpa using hi) zeroTri,
        getD_map_of_lt _ _ j (by simpa using hj) zeroTri, getD_map_of_lt _ _ i (by simpa using hi) zeroTri]
      simp only [Function.comp, facetCentre_scale l, withinBall_scale l hl]
    · intro i j hi hj
      rw [getD_map_of_lt _ _ i hi zeroTri, getD_map_of_lt _ _ j hj zeroTri, edgesHit_scale l hl]

end scale

/-! ### the order of the faces -/

/-- reindexing the tests by a permutation of the indices below `n` reindexes the report -/
theorem intersectingCore_perm (n : Nat) (w h w' h' : Nat → Nat → Bool) (σ : Equiv.Perm ℕ) (hσ : ∀ i, σ i < n ↔ i < n)
    (hw : ∀ i j, i < n → j < n → w' j i = w (σ j) (σ i)) (hh : ∀ i j, i < n → j < n → h' i j = h (σ i) (σ j)) (k : ℕ) :
    k ∈ intersectingCore n w' h' ↔ σ k ∈ intersectingCore n w h := by
  simp only [mem_intersectingCore, Flagged]
  constructor
  · rintro ⟨hk, i, j, hi, hj, a, b, c, d⟩
    exact ⟨(hσ k).mpr hk, σ i, σ j, (hσ i).mpr hi, (hσ j).mpr hj, by rw [← hw i j hi hj]; exact a,
      fun e => b (σ.injective e), by rw [← hh i j hi hj]; exact c, d.imp (congrArg σ) (congrArg σ)⟩
  · rintro ⟨hk, a, b, ha, hb, wa, hne, hc, d⟩
    have hi : σ.symm a < n := (hσ _).mp (by rw [Equiv.apply_symm_apply]; exact ha)
    have hj : σ.symm b < n := (hσ _).mp (by rw [Equiv.apply_symm_apply]; exact hb)
    refine ⟨(hσ k).mp hk, σ.symm a, σ.symm b, hi, hj, ?_, fun e => hne (σ.symm.injective e), ?_, ?_⟩
    · rw [hw _ _ hi hj, Equiv.apply_symm_apply, Equiv.apply_symm_apply]; exact wa
    · rw [hh _ _ hi hj, Equiv.apply_symm_apply, Equiv.apply_symm_apply]; exact hc
    · exact d.imp (fun e => (Equiv.symm_apply_eq σ).mpr e) (fun e => (Equiv.symm_apply_eq σ).mpr e)

/-- the face list read in the order `σ 0, σ 1, …` -/
noncomputable def permuteFacets (σ : ℕ → ℕ) (facets : List (Tri ℝ)) : List (Tri ℝ) :=
  (List.range facets.length).map fun i => facets.getD (σ i) zeroTri

theorem permuteFacets_length (σ : ℕ → ℕ) (facets : List (Tri ℝ)) : (permuteFacets σ facets).length = facets.length := by
  simp [permuteFacets]

theorem permuteFacets_getD (σ : ℕ → ℕ) (facets : List (Tri ℝ)) (i : ℕ) (hi : i < facets.length) :
    (permuteFacets σ facets).getD i zeroTri = facets.getD (σ i) zeroTri := by
  simp [permuteFacets, List.getD_eq_getElem?_getD, List.getElem?_map, List.getElem?_range hi]

theorem range_map_getD (facets : List (Tri ℝ)) : (List.range facets.length).map (fun m => facets.getD m zeroTri) = facets := by
  apply List.ext_getElem
  · simp
  · intro i h1 h2
    simp [List.getD_eq_getElem?_getD, List.getElem?_eq_getElem h2]

theorem permuteFacets_perm (σ : Equiv.Perm ℕ) (facets : List (Tri ℝ)) (hσ : ∀ i, σ i < facets.length ↔ i < facets.length) :
    (permuteFacets σ facets).Perm facets := by
  have h1 : ((List.range facets.length).map σ).Perm (List.range facets.length) := by
    apply (List.perm_ext_iff_of_nodup (List.Nodup.map σ.injective List.nodup_range) List.nodup_range).mpr
    intro a
    simp only [List.mem_map, List.mem_range]
    constructor
    · rintro ⟨i, hi, rfl⟩; exact (hσ i).mpr hi
    · intro ha
      exact ⟨σ.symm a, (hσ _).mp (by rw [Equiv.apply_symm_apply]; exact ha), Equiv.apply_symm_apply σ a⟩
  have h2 := h1.map (fun m => facets.getD m zeroTri)
  rw [List.map_map, range_map_getD] at h2
  exact h2

theorem maxCornerDist_perm {f1 f2 : List (Tri ℝ)} (hp : f1.Perm f2) : maxCornerDist id f1 = maxCornerDist id f2 := by
  have : RightCommutative (npMax : ℝ → ℝ → ℝ) := ⟨fun a b c => by simp only [npMax_real]; exact max_right_comm a b c⟩
  simp only [maxCornerDist]
  exact (hp.flatMap_right _).foldl_eq _

/-- **face order**: listing the faces in another order reindexes the report of `get_intersecting_triangles` accordingly -/
theorem intersectingFacets_perm (r : Option ℝ) (rf eps : ℝ) (facets : List (Tri ℝ)) (σ : Equiv.Perm ℕ)
    (hσ : ∀ i, σ i < facets.length ↔ i < facets.length) (k : ℕ) :
    k ∈ intersectingFacets id r rf eps (permuteFacets σ facets) ↔ σ k ∈ intersectingFacets id r rf eps facets := by
  simp only [intersectingFacets, permuteFacets_length, maxCornerDist_perm (permuteFacets_perm σ facets hσ)]
  apply intersectingCore_perm _ _ _ _ _ σ hσ
  · intro i j hi hj
    rw [getD_map_of_lt _ _ j (by rw [permuteFacets_length]; exact hj) zeroTri,
      getD_map_of_lt _ _ i (by rw [permuteFacets_length]; exact hi) zeroTri,
      getD_map_of_lt _ _ (σ j) ((hσ j).mpr hj) zeroTri, getD_map_of_lt _ _ (σ i) ((hσ i).mpr hi) zeroTri,
      permuteFacets_getD _ _ _ hi, permuteFacets_getD _ _ _ hj]
  · intro i j hi hj
    rw [permuteFacets_getD _ _ _ hi, permuteFacets_getD _ _ _ hj]

/-- the verdict "something is reported" does not depend on the order of the faces -/
theorem intersectingFacets_perm_verdict (r : Option ℝ) (rf eps : ℝ) (facets : List (Tri ℝ)) (σ : Equiv.Perm ℕ)
    (hσ : ∀ i, σ i < facets.length ↔ i < facets.length) :
    intersectingFacets id r rf eps (permuteFacets σ facets) = [] ↔ intersectingFacets id r rf eps facets = [] := by
  simp only [List.eq_nil_iff_forall_not_mem]
  constructor
  · intro h a ha
    apply h (σ.symm a)
    rw [intersectingFacets_perm r rf eps facets σ hσ, Equiv.apply_symm_apply]; exact ha
  · intro h a ha
    exact h (σ a) ((intersectingFacets_perm r rf eps facets σ hσ a).mp ha)

/-- the verdict of `TriangularMesh.check_selfintersecting`, `len(...) > 1`, is "the report is non-empty" -/
theorem intersectingFacets_two (r : Option ℝ) (rf eps : ℝ) (facets : List (Tri ℝ)) :
    1 < (intersectingFacets id r rf eps facets).length ↔ intersectingFacets id r rf eps facets ≠ [] := by
  simp only [intersectingFacets]; exact intersectingCore_two _ _ _

/-! ### from vertices and index triples -/

/-- every index of every triple addresses a vertex (numpy raises IndexError otherwise) -/
def TrisInRange (nv : Nat) (tris : List (Nat × Nat × Nat)) : Prop :=
  ∀ t ∈ tris, t.1 < nv ∧ t.2.1 < nv ∧ t.2.2 < nv

theorem V3_map_id (v : V3 ℝ) : V3.map id v = v := by cases v; rfl

theorem verts_map_id (verts : List (V3 ℝ)) : verts.map (V3.map id) = verts := by
  rw [show (V3.map id : V3 ℝ → V3 ℝ) = id from funext V3_map_id, List.map_id]

theorem gatherFacets_map (f : V3 ℝ → V3 ℝ) (verts : List (V3 ℝ)) (tris : List (Nat × Nat × Nat))
    (h : TrisInRange verts.length tris) :
    gatherFacets (verts.map f) tris = (gatherFacets verts tris).map fun t => (f t.1, f t.2.1, f t.2.2) := by
  simp only [gatherFacets, List.map_map]
  apply List.map_congr_left
  intro t ht
  obtain ⟨h1, h2, h3⟩ := h t ht
  simp only [Function.comp, getD_map_of_lt f verts _ h1 zero3, getD_map_of_lt f verts _ h2 zero3,
    getD_map_of_lt f verts _ h3 zero3]

theorem getIntersectingTrianglesCore_shift (d : V3 ℝ) (r : Option ℝ) (rf eps : ℝ) (verts : List (V3 ℝ))
    (tris : List (Nat × Nat × Nat)) (h : TrisInRange verts.length tris) :
    getIntersectingTrianglesCore id r rf eps (verts.map (· + d)) tris = getIntersectingTrianglesCore id r rf eps verts tris := by
  simp only [getIntersectingTrianglesCore, verts_map_id]
  rw [gatherFacets_map _ _ _ h]
  exact intersectingFacets_shift d r rf eps _

theorem getIntersectingTrianglesCore_scale (l : ℝ) (hl : 0 < l) (r : Option ℝ) (rf eps : ℝ) (verts : List (V3 ℝ))
    (tris : List (Nat × Nat × Nat)) (h : TrisInRange verts.length tris) :
    getIntersectingTrianglesCore id (r.map (l * ·)) rf (l * eps) (verts.map (vs l)) tris
      = getIntersectingTrianglesCore id r rf eps verts tris := by
  simp only [getIntersectingTrianglesCore, verts_map_id]
  rw [gatherFacets_map _ _ _ h]
  exact intersectingFacets_scale l hl r rf eps _

/-! ### the normalisation by the mesh size -/

/-- a mesh whose size is not positive is collapsed to a point -/
theorem verts_eq_of_size_nonpos (verts : List (V3 ℝ)) (h : ¬ 0 < vertsSize verts) (v : V3 ℝ) (hv : v ∈ verts) :
    v = vertsMin verts := by
  obtain ⟨a1, a2, a3⟩ := vertsMin_le verts v hv
  obtain ⟨b1, b2, b3⟩ := le_vertsMax verts v hv
  simp only [vertsSize, npMax_real, not_lt, max_le_iff, sub_nonpos] at h
  obtain ⟨⟨c1, c2⟩, c3⟩ := h
  exact V3.ext' (le_antisymm (b1.trans c1) a1) (le_antisymm (b2.trans c2) a2) (le_antisymm (b3.trans c3) a3)

/-- an end point in a corner of the facet: never reported -/
theorem segFacet_of_touch (eps : ℝ) {s0 s1 : V3 ℝ} {t : Tri ℝ} (h : touchesCorner s0 s1 t = true) :
    segFacet id eps s0 s1 t = false := by
  simp only [segFacet, h, Bool.not_true, Bool.and_false]

theorem intersectingCore_nil_of_no_hit (n : Nat) (w h : Nat → Nat → Bool) (hh : ∀ i j, i < n → j < n → h i j = false) :
    intersectingCore n w h = [] := by
  rw [List.eq_nil_iff_forall_not_mem]
  intro k hk
  obtain ⟨-, i, j, hi, hj, -, -, c, -⟩ := (mem_intersectingCore n w h k).mp hk
  rw [hh i j hi hj] at c
  exact Bool.false_ne_true c

theorem getD_mem_of_lt {β : Type} (l : List β) (d : β) (k : Nat) (hk : k < l.length) : l.getD k d ∈ l := by
  simp only [List.getD_eq_getElem?_getD, List.getElem?_eq_getElem hk, Option.getD_some]
  exact List.getElem_mem hk

/-- a mesh collapsed to a point: nothing is reported, whatever `r`, `r_factor`, `eps` -/
theorem getIntersectingTrianglesCore_degenerate (r : Option ℝ) (rf eps : ℝ) (verts : List (V3 ℝ))
    (tris : List (Nat × Nat × Nat)) (h : TrisInRange verts.length tris) (hs : ¬ 0 < vertsSize verts) :
    getIntersectingTrianglesCore id r rf eps verts tris = [] := by
  simp only [getIntersectingTrianglesCore, verts_map_id, intersectingFacets]
  apply intersectingCore_nil_of_no_hit
  intro i j hi hj
  have hlen : (gatherFacets verts tris).length = tris.length := by simp [gatherFacets]
  have key : ∀ k, k < tris.length → (gatherFacets verts tris).getD k zeroTri = (vertsMin verts, vertsMin verts, vertsMin verts) := by
    intro k hk
    simp only [gatherFacets]
    rw [getD_map_of_lt _ tris k hk (0, 0, 0)]
    obtain ⟨h1, h2, h3⟩ := h _ (getD_mem_of_lt tris (0, 0, 0) k hk)
    have m : ∀ q, q < verts.length → verts.getD q zero3 = vertsMin verts := fun q hq =>
      verts_eq_of_size_nonpos verts hs _ (getD_mem_of_lt verts zero3 q hq)
    rw [m _ h1, m _ h2, m _ h3]
  rw [key i (hlen ▸ hi), key j (hlen ▸ hj)]
  have ht : ∀ a b : V3 ℝ, touchesCorner (vertsMin verts) a (vertsMin verts, b, b) = true := by
    intro a b
    simp only [touchesCorner, (veq_iff _ _).mpr rfl, Bool.true_or]
  simp only [edgesHit, segFacet_of_touch _ (ht _ _)]
  simp

theorem normaliseVerts_pos (r : Option ℝ) (verts : List (V3 ℝ)) (hs : 0 < vertsSize verts) :
    normaliseVerts r verts = (r.map (· / vertsSize verts), verts.map fun v => vd (v - vertsMin verts) (vertsSize verts)) := by
  simp only [normaliseVerts, lt_real, n, ofNat_real, Nat.cast_zero, hs, decide_true, if_true]

theorem normaliseVerts_nonpos (r : Option ℝ) (verts : List (V3 ℝ)) (hs : ¬ 0 < vertsSize verts) :
    normaliseVerts r verts = (r, verts) := by
  simp only [normaliseVerts, lt_real, n, ofNat_real, Nat.cast_zero, hs, decide_false, Bool.false_eq_true, if_false]

theorem normaliseVerts_length (r : Option ℝ) (verts : List (V3 ℝ)) : (normaliseVerts r verts).2.length = verts.length := by
  by_cases hs : 0 < vertsSize verts
  · rw [normaliseVerts_pos r verts hs]; simp
  · rw [normaliseVerts_nonpos r verts hs]

/-- **`eps` is a fraction of the mesh size**: on a mesh of positive size the repaired `get_intersecting_triangles` is the
function as it was before the normalisation, called with the tolerance `size · eps` -/
theorem getIntersectingTriangles_eq_core (r : Option ℝ) (rf eps : ℝ) (verts : List (V3 ℝ)) (tris : List (Nat × Nat × Nat))
    (h : TrisInRange verts.length tris) (hs : 0 < vertsSize verts) :
    getIntersectingTriangles id r rf eps verts tris
      = getIntersectingTrianglesCore id r rf (vertsSize verts * eps) verts tris := by
  set S := vertsSize verts with hS
  set lo := vertsMin verts with hlo
  have hback : verts = ((verts.map fun v => vd (v - lo) S).map (vs S)).map (· + lo) := by
    rw [List.map_map, List.map_map]
    conv_lhs => rw [← List.map_id verts]
    apply List.map_congr_left
    intro v _
    apply V3.ext' <;> simp only [id, Function.comp, V3.add_x, V3.add_y, V3.add_z, V3.sub_x, V3.sub_y, V3.sub_z, vs, vd] <;>
      field_simp <;> ring
  have hr : (r.map (· / S)).map (S * ·) = r := by
    cases r with
    | none => rfl
    | some x => simp only [Option.map_some]; congr 1; field_simp
  simp only [getIntersectingTriangles, normaliseVerts_pos r verts hs]
  conv_rhs => rw [hback]
  rw [getIntersectingTrianglesCore_shift lo _ _ _ _ _ (by simpa using h),
    ← hr, getIntersectingTrianglesCore_scale S hs _ _ _ _ _ (by simpa using h), hr]

theorem getIntersectingTriangles_shift (d : V3 ℝ) (r : Option ℝ) (rf eps : ℝ) (verts : List (V3 ℝ))
    (tris : List (Nat × Nat × Nat)) (h : TrisInRange verts.length tris) :
    getIntersectingTriangles id r rf eps (verts.map (· + d)) tris = getIntersectingTriangles id r rf eps verts tris := by
  by_cases hne : verts = []
  · subst hne; rfl
  by_cases hs : 0 < vertsSize verts
  · have hs' : 0 < vertsSize (verts.map (· + d)) := by rw [vertsSize_shift d verts hne]; exact hs
    simp only [getIntersectingTriangles, normaliseVerts_pos _ _ hs, normaliseVerts_pos _ _ hs', vertsSize_shift d verts hne,
      vertsMin_shift d verts hne, List.map_map]
    congr 1
    apply List.map_congr_left
    intro v _
    apply V3.ext' <;> simp only [Function.comp, vd, V3.add_x, V3.add_y, V3.add_z, V3.sub_x, V3.sub_y, V3.sub_z,
      add_sub_add_right_eq_sub]
  · have hs' : ¬ 0 < vertsSize (verts.map (· + d)) := by rw [vertsSize_shift d verts hne]; exact hs
    simp only [getIntersectingTriangles, normaliseVerts_nonpos _ _ hs, normaliseVerts_nonpos _ _ hs']
    exact getIntersectingTrianglesCore_shift d r rf eps verts tris h

/-- **unit invariance** of the repaired `get_intersecting_triangles` (exact arithmetic): all lengths — vertices and, when
given, the query radius — multiplied by the same `l > 0`, `eps` unchanged: same report -/
theorem getIntersectingTriangles_scale (l : ℝ) (hl : 0 < l) (r : Option ℝ) (rf eps : ℝ) (verts : List (V3 ℝ))
    (tris : List (Nat × Nat × Nat)) (h : TrisInRange verts.length tris) :
    getIntersectingTriangles id (r.map (l * ·)) rf eps (verts.map (vs l)) tris
      = getIntersectingTriangles id r rf eps verts tris := by
  by_cases hs : 0 < vertsSize verts
  · have hs' : 0 < vertsSize (verts.map (vs l)) := by rw [vertsSize_scale l hl]; exact mul_pos hl hs
    simp only [getIntersectingTriangles, normaliseVerts_pos _ _ hs, normaliseVerts_pos _ _ hs', vertsSize_scale l hl,
      vertsMin_scale l hl, List.map_map, Option.map_map]
    congr 1
    · cases r with
      | none => rfl
      | some x => simp only [Option.map_some, Function.comp]; congr 1; exact mul_div_mul_left _ _ hl.ne'
    · apply List.map_congr_left
      intro v _
      apply V3.ext' <;> simp only [Function.comp, vd, vs, V3.sub_x, V3.sub_y, V3.sub_z, ← mul_sub] <;>
        exact mul_div_mul_left _ _ hl.ne'
  · have hs' : ¬ 0 < vertsSize (verts.map (vs l)) := by
      rw [vertsSize_scale l hl]; intro h'; exact hs ((mul_pos_iff_of_pos_left hl).mp h')
    simp only [getIntersectingTriangles, normaliseVerts_nonpos _ _ hs, normaliseVerts_nonpos _ _ hs']
    rw [getIntersectingTrianglesCore_degenerate _ _ _ _ _ h hs,
      getIntersectingTrianglesCore_degenerate _ _ _ _ _ (by simpa using h) hs']

/-- the triangle list read in the order `σ 0, σ 1, …` -/
def permuteTris (σ : ℕ → ℕ) (tris : List (Nat × Nat × Nat)) : List (Nat × Nat × Nat) :=
  (List.range tris.length).map fun i => tris.getD (σ i) (0, 0, 0)

theorem gatherFacets_permute (σ : ℕ → ℕ) (verts : List (V3 ℝ)) (tris : List (Nat × Nat × Nat))
    (hσ : ∀ i, i < tris.length → σ i < tris.length) :
    gatherFacets verts (permuteTris σ tris) = permuteFacets σ (gatherFacets verts tris) := by
  simp only [gatherFacets, permuteTris, permuteFacets, List.map_map, List.length_map]
  apply List.map_congr_left
  intro i hi
  have hi' := hσ i (List.mem_range.mp hi)
  simp only [Function.comp]
  rw [getD_map_of_lt _ tris (σ i) hi' (0, 0, 0)]

theorem getIntersectingTriangles_perm (r : Option ℝ) (rf eps : ℝ) (verts : List (V3 ℝ)) (tris : List (Nat × Nat × Nat))
    (σ : Equiv.Perm ℕ) (hσ : ∀ i, σ i < tris.length ↔ i < tris.length) (k : ℕ) :
    k ∈ getIntersectingTriangles id r rf eps verts (permuteTris σ tris) ↔ σ k ∈ getIntersectingTriangles id r rf eps verts tris := by
  have hlen : ∀ vv : List (V3 ℝ), (gatherFacets (vv.map (V3.map id)) tris).length = tris.length := fun vv => by simp [gatherFacets]
  simp only [getIntersectingTriangles, getIntersectingTrianglesCore]
  rw [gatherFacets_permute σ _ tris (fun i hi => (hσ i).mpr hi)]
  exact intersectingFacets_perm _ rf eps _ σ (by rw [hlen]; exact hσ) k

theorem selfIntersecting_perm (verts : List (V3 ℝ)) (tris : List (Nat × Nat × Nat))
    (σ : Equiv.Perm ℕ) (hσ : ∀ i, σ i < tris.length ↔ i < tris.length) :
    selfIntersecting id verts (permuteTris σ tris) = selfIntersecting id verts tris := by
  have hlen : ∀ vv : List (V3 ℝ), (gatherFacets (vv.map (V3.map id)) tris).length = tris.length := fun vv => by simp [gatherFacets]
  have key : 1 < (selfIntersectingFaces id verts (permuteTris σ tris)).length ↔
      1 < (selfIntersectingFaces id verts tris).length := by
    simp only [selfIntersectingFaces, getIntersectingTriangles, getIntersectingTrianglesCore]
    rw [gatherFacets_permute σ _ tris (fun i hi => (hσ i).mpr hi)]
    simp only [intersectingFacets_two, ne_eq]
    exact not_congr (intersectingFacets_perm_verdict _ _ _ _ σ (by rw [hlen]; exact hσ))
  unfold selfIntersecting
  exact decide_eq_decide.mpr key

/-! ### `r_factor = 2`: the ball query reaches every pair of facets that have a point in common -/

theorem le_foldl_npMax (xs : List ℝ) (a : ℝ) : a ≤ xs.foldl npMax a ∧ ∀ x ∈ xs, x ≤ xs.foldl npMax a := by
  induction xs generalizing a with
  | nil => exact ⟨le_refl _, by simp⟩
  | cons y ys ih =>
    obtain ⟨h1, h2⟩ := ih (npMax a y)
    simp only [List.foldl_cons, List.mem_cons, forall_eq_or_imp]
    have ea : a ≤ npMax a y := by rw [npMax_real]; exact le_max_left _ _
    have ey : y ≤ npMax a y := by rw [npMax_real]; exact le_max_right _ _
    exact ⟨ea.trans h1, ey.trans h1, h2⟩

theorem maxCornerDist_nonneg (facets : List (Tri ℝ)) : 0 ≤ maxCornerDist id facets := by
  have h := (le_foldl_npMax (facets.flatMap fun t =>
    [cornerDist id (facetCentre id t) t.1, cornerDist id (facetCentre id t) t.2.1, cornerDist id (facetCentre id t) t.2.2]) (n 0)).1
  simpa [maxCornerDist, n] using h

theorem cornerDist_sq (c q : V3 ℝ) : cornerDist id c q * cornerDist id c q = V3.dot (q - c) (q - c) := by
  simp only [cornerDist, rsub_id, rdot_id, id, sqrt_real]
  exact Real.mul_self_sqrt (by simp only [V3.dot]; nlinarith [mul_self_nonneg (q - c).x, mul_self_nonneg (q - c).y, mul_self_nonneg (q - c).z])

theorem cornerDist_nonneg (c q : V3 ℝ) : 0 ≤ cornerDist id c q := by
  simp only [cornerDist, id, sqrt_real]; exact Real.sqrt_nonneg _

/-- every corner of every facet is within the largest corner distance of its facet's centroid (squared form) -/
theorem corner_sq_le_max (facets : List (Tri ℝ)) (t : Tri ℝ) (ht : t ∈ facets) :
    let M := maxCornerDist id facets
    let c := facetCentre id t
    V3.dot (t.1 - c) (t.1 - c) ≤ M * M ∧ V3.dot (t.2.1 - c) (t.2.1 - c) ≤ M * M ∧ V3.dot (t.2.2 - c) (t.2.2 - c) ≤ M * M := by
  intro M c
  have hmem : ∀ q ∈ [t.1, t.2.1, t.2.2], cornerDist id c q ≤ M := by
    intro q hq
    apply (le_foldl_npMax _ (n 0)).2
    simp only [List.mem_flatMap]
    refine ⟨t, ht, ?_⟩
    simp only [List.mem_cons, List.not_mem_nil, or_false] at hq ⊢
    rcases hq with rfl | rfl | rfl <;> simp [c]
  have sq : ∀ q, cornerDist id c q ≤ M → V3.dot (q - c) (q - c) ≤ M * M := by
    intro q hq
    rw [← cornerDist_sq]
    exact mul_self_le_mul_self (cornerDist_nonneg c q) hq
  exact ⟨sq _ (hmem _ (by simp)), sq _ (hmem _ (by simp)), sq _ (hmem _ (by simp))⟩

/-- a convex combination of three vectors of length ≤ M has length ≤ M (squared form) -/
theorem convex_sq_le {M : ℝ} {u0 u1 u2 : V3 ℝ} (h0 : V3.dot u0 u0 ≤ M * M) (h1 : V3.dot u1 u1 ≤ M * M)
    (h2 : V3.dot u2 u2 ≤ M * M) {a b c : ℝ} (ha : 0 ≤ a) (hb : 0 ≤ b) (hc : 0 ≤ c) (hs : a + b + c = 1) :
    V3.dot (vs a u0 + vs b u1 + vs c u2) (vs a u0 + vs b u1 + vs c u2) ≤ M * M := by
  simp only [V3.dot, V3.add_x, V3.add_y, V3.add_z, vs] at *
  have h01 : u0.x * u1.x + u0.y * u1.y + u0.z * u1.z ≤ M * M := by
    nlinarith [sq_nonneg (u0.x - u1.x), sq_nonneg (u0.y - u1.y), sq_nonneg (u0.z - u1.z)]
  have h02 : u0.x * u2.x + u0.y * u2.y + u0.z * u2.z ≤ M * M := by
    nlinarith [sq_nonneg (u0.x - u2.x), sq_nonneg (u0.y - u2.y), sq_nonneg (u0.z - u2.z)]
  have h12 : u1.x * u2.x + u1.y * u2.y + u1.z * u2.z ≤ M * M := by
    nlinarith [sq_nonneg (u1.x - u2.x), sq_nonneg (u1.y - u2.y), sq_nonneg (u1.z - u2.z)]
  have e : M * M = (a + b + c) * (a + b + c) * (M * M) := by rw [hs]; ring
  rw [e]
  nlinarith [mul_nonneg (mul_nonneg ha ha) (sub_nonneg.mpr h0), mul_nonneg (mul_nonneg hb hb) (sub_nonneg.mpr h1),
    mul_nonneg (mul_nonneg hc hc) (sub_nonneg.mpr h2), mul_nonneg (mul_nonneg ha hb) (sub_nonneg.mpr h01),
    mul_nonneg (mul_nonneg ha hc) (sub_nonneg.mpr h02), mul_nonneg (mul_nonneg hb hc) (sub_nonneg.mpr h12)]

/-- a point of a facet is within the largest corner distance of the facet's centroid (squared form) -/
theorem point_sq_le_max (facets : List (Tri ℝ)) (t : Tri ℝ) (ht : t ∈ facets) (p : V3 ℝ) (hp : InTriangle t p) :
    V3.dot (p - facetCentre id t) (p - facetCentre id t) ≤ maxCornerDist id facets * maxCornerDist id facets := by
  obtain ⟨a, b, c, ha, hb, hc, hs, rfl⟩ := hp
  obtain ⟨h0, h1, h2⟩ := corner_sq_le_max facets t ht
  have e : vs a t.1 + vs b t.2.1 + vs c t.2.2 - facetCentre id t
      = vs a (t.1 - facetCentre id t) + vs b (t.2.1 - facetCentre id t) + vs c (t.2.2 - facetCentre id t) := by
    have hc' : c = 1 - a - b := by linarith
    subst hc'
    apply V3.ext' <;> simp only [V3.add_x, V3.add_y, V3.add_z, V3.sub_x, V3.sub_y, V3.sub_z, vs] <;> ring
  rw [e]
  exact convex_sq_le h0 h1 h2 ha hb hc hs

/-- **`r_factor = 2` is enough**: two facets of the mesh that have a point in common have their centroids within
`2 · (largest corner–centroid distance)`, the default query radius of the repaired code — the ball query offers every
intersecting pair to the edge tests (with the former 1.5 it did not: two spikes, two needles) -/
theorem withinBall_of_common_point (facets : List (Tri ℝ)) (t1 t2 : Tri ℝ) (h1 : t1 ∈ facets) (h2 : t2 ∈ facets) (p : V3 ℝ)
    (hp1 : InTriangle t1 p) (hp2 : InTriangle t2 p) :
    withinBall (2 * maxCornerDist id facets) (facetCentre id t2) (facetCentre id t1) = true := by
  have a1 := point_sq_le_max facets t1 h1 p hp1
  have a2 := point_sq_le_max facets t2 h2 p hp2
  simp only [V3.dot, V3.sub_x, V3.sub_y, V3.sub_z] at a1 a2
  simp only [withinBall, le_real, decide_eq_true_eq]
  nlinarith [sq_nonneg ((p.x - (facetCentre id t1).x) + (p.x - (facetCentre id t2).x)),
    sq_nonneg ((p.y - (facetCentre id t1).y) + (p.y - (facetCentre id t2).y)),
    sq_nonneg ((p.z - (facetCentre id t1).z) + (p.z - (facetCentre id t2).z))]

/-- a point on an edge of a facet is a point of the (closed) facet -/
theorem inTriangle_of_edge (t : Tri ℝ) (p : V3 ℝ) :
    (InSegment t.1 t.2.1 p → InTriangle t p) ∧ (InSegment t.2.1 t.2.2 p → InTriangle t p) ∧ (InSegment t.2.2 t.1 p → InTriangle t p) := by
  refine ⟨?_, ?_, ?_⟩
  · rintro ⟨τ, h0, h1, rfl⟩
    refine ⟨τ, 1 - τ, 0, h0, by linarith, le_refl _, by ring, ?_⟩
    apply V3.ext' <;> simp only [V3.add_x, V3.add_y, V3.add_z, V3.sub_x, V3.sub_y, V3.sub_z, vs] <;> ring
  · rintro ⟨τ, h0, h1, rfl⟩
    refine ⟨0, τ, 1 - τ, le_refl _, h0, by linarith, by ring, ?_⟩
    apply V3.ext' <;> simp only [V3.add_x, V3.add_y, V3.add_z, V3.sub_x, V3.sub_y, V3.sub_z, vs] <;> ring
  · rintro ⟨τ, h0, h1, rfl⟩
    refine ⟨1 - τ, 0, τ, by linarith, le_refl _, h0, by ring, ?_⟩
    apply V3.ext' <;> simp only [V3.add_x, V3.add_y, V3.add_z, V3.sub_x, V3.sub_y, V3.sub_z, vs] <;> ring

/-- a reported edge of `f1` against `f2` exhibits a point common to both facets -/
theorem common_point_of_edgesHit {eps : ℝ} (heps : 0 ≤ eps) (f1 f2 : Tri ℝ) (h : edgesHit id eps f1 f2 = true) :
    ∃ p, InTriangle f1 p ∧ InTriangle f2 p := by
  by_cases h0 : segFacet id eps f1.1 f1.2.1 f2 = true
  · obtain ⟨p, a, b⟩ := segFacet_sound_closed heps h0; exact ⟨p, (inTriangle_of_edge f1 p).1 a, b⟩
  by_cases h1 : segFacet id eps f1.2.1 f1.2.2 f2 = true
  · obtain ⟨p, a, b⟩ := segFacet_sound_closed heps h1; exact ⟨p, (inTriangle_of_edge f1 p).2.1 a, b⟩
  by_cases h2 : segFacet id eps f1.2.2 f1.1 f2 = true
  · obtain ⟨p, a, b⟩ := segFacet_sound_closed heps h2; exact ⟨p, (inTriangle_of_edge f1 p).2.2 a, b⟩
  · exfalso
    simp only [edgesHit, h0, h1, h2] at h
    simp at h

/-- **no crossing is lost to the ball query** (default `r = None`, `r_factor = 2`): if an edge of facet `i` is reported
against facet `j` by the primitive, both facets are in the report of `get_intersecting_triangles` -/
theorem intersectingFacets_complete {eps : ℝ} (heps : 0 ≤ eps) (facets : List (Tri ℝ)) (i j : ℕ) (hi : i < facets.length)
    (hj : j < facets.length) (hne : i ≠ j) (hit : edgesHit id eps (facets.getD i zeroTri) (facets.getD j zeroTri) = true) :
    i ∈ intersectingFacets id none 2 eps facets ∧ j ∈ intersectingFacets id none 2 eps facets := by
  obtain ⟨p, p1, p2⟩ := common_point_of_edgesHit heps _ _ hit
  have m1 := getD_mem_of_lt facets zeroTri i hi
  have m2 := getD_mem_of_lt facets zeroTri j hj
  have hw := withinBall_of_common_point facets _ _ m1 m2 p p1 p2
  simp only [intersectingFacets, mem_intersectingCore, Flagged, id]
  have hc : ∀ k, k < facets.length → (facets.map (facetCentre id)).getD k zero3 = facetCentre id (facets.getD k zeroTri) :=
    fun k hk => getD_map_of_lt _ facets k hk zeroTri zero3
  refine ⟨⟨hi, i, j, hi, hj, ?_, hne, hit, Or.inl rfl⟩, ⟨hj, i, j, hi, hj, ?_, hne, hit, Or.inr rfl⟩⟩ <;>
    (rw [hc i hi, hc j hj]; exact hw)

/-! ### concrete evaluations (non-vacuity, and the witness that the absolute `eps` breaks unit invariance) -/

/-- the facet (0,0,0), (1,0,0), (0,1,0) -/
noncomputable def witT : Tri ℝ := (⟨0, 0, 0⟩, ⟨1, 0, 0⟩, ⟨0, 1, 0⟩)
/-- the segment from (1/4, 1/4, 1) to (1/4, 1/4, −1): through the interior of `witT`, end points at distance 1 from its plane -/
noncomputable def witS0 : V3 ℝ := ⟨1 / 4, 1 / 4, 1⟩
noncomputable def witS1 : V3 ℝ := ⟨1 / 4, 1 / 4, -1⟩

theorem wit_normalLen : normalLen witT = 1 := by
  simp [normalLen, rawNormal, witT, V3.dot, V3.cross]
theorem wit_g0 : planeDist id witT witS0 = 1 := by
  rw [planeDist_id, wit_normalLen]; simp [rawDist, rawNormal, witT, witS0, V3.dot, V3.cross]
theorem wit_g1 : planeDist id witT witS1 = -1 := by
  rw [planeDist_id, wit_normalLen]; simp [rawDist, rawNormal, witT, witS1, V3.dot, V3.cross]

/-- the segment is reported for every tolerance below the distance 1 of its end points from the plane -/
theorem wit_segFacet_of {eps : ℝ} (h0 : 0 ≤ eps) (h1 : eps < 1) : segFacet id eps witS0 witS1 witT = true := by
  apply segFacet_complete h0
  · rw [wit_g0, abs_one]; exact h1
  · rw [wit_g1, abs_neg, abs_one]; exact h1
  · refine ⟨⟨1 / 4, 1 / 4, 0⟩, ⟨1 / 2, by norm_num, by norm_num, ?_⟩, ⟨1 / 2, 1 / 4, 1 / 4, by norm_num, by norm_num, by norm_num, by norm_num, ?_⟩⟩
    · apply V3.ext' <;> simp [vs, witS0, witS1] <;> norm_num
    · apply V3.ext' <;> simp [vs, witT]

/-- with the code's default `eps = 1e-6` the segment is reported -/
theorem wit_segFacet : segFacet id (1 / 1000000) witS0 witS1 witT = true :=
  wit_segFacet_of (by norm_num) (by norm_num)

/-- with `eps = 10` (larger than the end points' distance from the plane) it is not -/
theorem wit_segFacet_big_eps : segFacet id 10 witS0 witS1 witT = false := by
  simp only [segFacet, planeCrossed, wit_g0, wit_g1, lt_real, abs_real, id]
  norm_num

/-- the same segment and facet at 1e-7 of the size, `eps` unchanged: not reported -/
theorem wit_segFacet_small : segFacet id (1 / 1000000) (vs (1 / 10000000) witS0) (vs (1 / 10000000) witS1)
    (triScale (1 / 10000000) witT) = false := by
  have h := segFacet_scale (1 / 10000000) (by norm_num) 10 witS0 witS1 witT
  rw [show (1 / 10000000 : ℝ) * 10 = 1 / 1000000 by norm_num] at h
  rw [h, wit_segFacet_big_eps]

/-- a two-face mesh: `witT` and a triangle whose first edge is the segment above -/
noncomputable def witVerts : List (V3 ℝ) := [⟨0, 0, 0⟩, ⟨1, 0, 0⟩, ⟨0, 1, 0⟩, ⟨1 / 4, 1 / 4, 1⟩, ⟨1 / 4, 1 / 4, -1⟩, ⟨5, 5, 0⟩]
def witTris : List (Nat × Nat × Nat) := [(0, 1, 2), (3, 4, 5)]

theorem witTris_inRange : TrisInRange witVerts.length witTris := by
  intro t ht
  simp only [witTris, List.mem_cons, List.not_mem_nil, or_false] at ht
  rcases ht with rfl | rfl <;> simp [witVerts]

theorem witVerts_size : vertsSize witVerts = 5 := by
  simp only [vertsSize, vertsMax, vertsMin, witVerts, List.foldl_cons, List.foldl_nil, vMax, vMin, npMax_real, npMin_real]
  norm_num

/-- both faces of the two-face mesh are reported (query radius 10 given explicitly; the mesh size is 5, so the default
`eps = 1e-6` acts as 5e-6) -/
theorem wit_mesh_reported : 0 ∈ getIntersectingTriangles id (some 10) 2 (1 / 1000000) witVerts witTris ∧
    1 ∈ getIntersectingTriangles id (some 10) 2 (1 / 1000000) witVerts witTris := by
  rw [getIntersectingTriangles_eq_core _ _ _ _ _ witTris_inRange (by rw [witVerts_size]; norm_num), witVerts_size]
  have hf : gatherFacets (witVerts.map (V3.map id)) witTris = [witT, (witS0, witS1, ⟨5, 5, 0⟩)] := by
    rw [verts_map_id]; rfl
  have hhit : edgesHit id (5 * (1 / 1000000)) (witS0, witS1, (⟨5, 5, 0⟩ : V3 ℝ)) witT = true := by
    simp only [edgesHit, wit_segFacet_of (eps := 5 * (1 / 1000000)) (by norm_num) (by norm_num), if_true]
    simp
  have hw : withinBall (10 : ℝ) (facetCentre id witT) (facetCentre id (witS0, witS1, (⟨5, 5, 0⟩ : V3 ℝ))) = true := by
    simp [withinBall, facetCentre, witT, witS0, witS1, n]; norm_num
  simp only [getIntersectingTrianglesCore, hf, intersectingFacets, mem_intersectingCore, Flagged]
  refine ⟨⟨by simp, 1, 0, by simp, by simp, ?_, by simp, ?_, Or.inr rfl⟩, ⟨by simp, 1, 0, by simp, by simp, ?_, by simp, ?_, Or.inl rfl⟩⟩
  all_goals first | exact hw | exact hhit

end MagpyVerif.Kern
