/-
Lemmas/MeshIntersect.lean — the TriangularMesh self-intersection test (Model/MeshIntersect.lean) over the real carrier with
`rd = id` (no float32 rounding): what `segments_intersect_facets` decides geometrically (soundness, completeness for proper
crossings), and how `get_intersecting_triangles` behaves under translation, a common positive length factor and a
permutation of the face list.  Property-level statements: Props/C16.
-/
import MagpyVerif.Lemmas.TrimeshInside
import MagpyVerif.Model.MeshIntersect

namespace MagpyVerif.Kern
open MagpyVerif

/-! ### `rd = id`: the rounded operations are the plain vector operations -/

@[simp] theorem rsub_id (a b : V3 ℝ) : rsub id a b = a - b := rfl
@[simp] theorem rcross_id (a b : V3 ℝ) : rcross id a b = V3.cross a b := rfl
@[simp] theorem rdot_id (a b : V3 ℝ) : rdot id a b = V3.dot a b := rfl

/-- unnormalised facet normal `(t2 − t0) × (t2 − t1)` -/
noncomputable def rawNormal (t : Tri ℝ) : V3 ℝ := V3.cross (t.2.2 - t.1) (t.2.2 - t.2.1)
/-- `|rawNormal|` = twice the facet's area -/
noncomputable def normalLen (t : Tri ℝ) : ℝ := Real.sqrt (V3.dot (rawNormal t) (rawNormal t))
/-- unnormalised signed distance from the facet's plane -/
noncomputable def rawDist (t : Tri ℝ) (p : V3 ℝ) : ℝ := V3.dot (rawNormal t) (p - t.2.2)

theorem planeDist_id (t : Tri ℝ) (p : V3 ℝ) : planeDist id t p = rawDist t p / normalLen t := by
  simp only [planeDist, facetNormal, rdivs, rnorm, rdot_id, rsub_id, rcross_id, id, sqrt_real, rawDist, rawNormal,
    normalLen, V3.dot]
  ring

theorem normalLen_nonneg (t : Tri ℝ) : 0 ≤ normalLen t := Real.sqrt_nonneg _

/-! ### sign codes -/

theorem signNe_mul_neg {a b : ℝ} (h : signNe a b = true) (ha : a ≠ 0) (hb : b ≠ 0) : a * b < 0 := by
  rw [signNe_real, sgn_real, sgn_real] at h
  rcases lt_or_gt_of_ne ha with ha' | ha' <;> rcases lt_or_gt_of_ne hb with hb' | hb'
  · simp [ha', hb'] at h
  · exact mul_neg_of_neg_of_pos ha' hb'
  · exact mul_neg_of_pos_of_neg ha' hb'
  · simp [ha', hb', not_lt.mpr ha'.le, not_lt.mpr hb'.le] at h

theorem signNe_of_mul_neg {a b : ℝ} (h : a * b < 0) : signNe a b = true := by
  rw [signNe_real, sgn_real, sgn_real]
  rcases mul_neg_iff.mp h with ⟨ha, hb⟩ | ⟨ha, hb⟩
  · simp [ha, hb, not_lt.mpr ha.le]
  · simp [ha, hb, not_lt.mpr hb.le]

theorem sgn_of_neg {x : ℝ} (h : x < 0) : sgn x = 0 := by rw [sgn_real, if_pos h]
theorem sgn_of_pos {x : ℝ} (h : 0 < x) : sgn x = 2 := by rw [sgn_real, if_neg (not_lt.mpr h.le), if_pos h]
theorem sgn_zero_real : sgn (0 : ℝ) = 1 := by rw [sgn_real]; simp

theorem signEq_real_iff (a b : ℝ) :
    signEq a b = true ↔ (a < 0 ∧ b < 0) ∨ (a = 0 ∧ b = 0) ∨ (0 < a ∧ 0 < b) := by
  have h : signEq a b = true ↔ sgn a = sgn b := by simp [signEq, signNe_real]
  rw [h]
  rcases lt_trichotomy a 0 with ha | rfl | ha <;> rcases lt_trichotomy b 0 with hb | rfl | hb
  all_goals
    (first | rw [sgn_of_neg ha] | rw [sgn_of_pos ha] | rw [sgn_zero_real])
  all_goals
    (try (first | rw [sgn_of_neg hb] | rw [sgn_of_pos hb] | rw [sgn_zero_real]))
  all_goals (
    constructor
    · intro h
      first
        | exact absurd h (by decide)
        | exact Or.inl ⟨ha, hb⟩
        | exact Or.inr (Or.inl ⟨rfl, rfl⟩)
        | exact Or.inr (Or.inr ⟨ha, hb⟩)
    · rintro (⟨h1, h2⟩ | ⟨h1, h2⟩ | ⟨h1, h2⟩) <;> first | rfl | (exfalso; linarith))

/-! ### the geometry of one segment against one facet -/

/-- `p` lies on the open segment between `s0` and `s1` -/
def InOpenSegment (s0 s1 p : V3 ℝ) : Prop := ∃ τ : ℝ, 0 < τ ∧ τ < 1 ∧ p = s1 + vs τ (s0 - s1)
/-- `p` lies on the closed segment between `s0` and `s1` -/
def InSegment (s0 s1 p : V3 ℝ) : Prop := ∃ τ : ℝ, 0 ≤ τ ∧ τ ≤ 1 ∧ p = s1 + vs τ (s0 - s1)
/-- `p` is a convex combination of the corners with positive weights (relative interior of the triangle) -/
def InTriInterior (t : Tri ℝ) (p : V3 ℝ) : Prop :=
  ∃ a b c : ℝ, 0 < a ∧ 0 < b ∧ 0 < c ∧ a + b + c = 1 ∧ p = vs a t.1 + vs b t.2.1 + vs c t.2.2
/-- `p` is a convex combination of the corners (closed triangle) -/
def InTriangle (t : Tri ℝ) (p : V3 ℝ) : Prop :=
  ∃ a b c : ℝ, 0 ≤ a ∧ 0 ≤ b ∧ 0 ≤ c ∧ a + b + c = 1 ∧ p = vs a t.1 + vs b t.2.1 + vs c t.2.2

theorem InOpenSegment.closed {s0 s1 p : V3 ℝ} (h : InOpenSegment s0 s1 p) : InSegment s0 s1 p := by
  obtain ⟨τ, h0, h1, hp⟩ := h; exact ⟨τ, h0.le, h1.le, hp⟩
theorem InTriInterior.closed {t : Tri ℝ} {p : V3 ℝ} (h : InTriInterior t p) : InTriangle t p := by
  obtain ⟨a, b, c, ha, hb, hc, hs, hp⟩ := h; exact ⟨a, b, c, ha.le, hb.le, hc.le, hs, hp⟩

/-- the three signed volumes of `segments_intersect_facets` add up to the difference of the raw plane distances -/
theorem signedVol_sum (s0 s1 : V3 ℝ) (t : Tri ℝ) :
    signedVol id s0 s1 t.1 t.2.1 + signedVol id s0 s1 t.2.1 t.2.2 + signedVol id s0 s1 t.2.2 t.1
      = rawDist t s0 - rawDist t s1 := by
  simp only [signedVol, rdot_id, rsub_id, rcross_id, rawDist, rawNormal, V3.dot, V3.cross, V3.sub_x, V3.sub_y, V3.sub_z]
  ring

/-- Cramer's identity behind the test: weighting the corners with the signed volumes gives the point where the carrier
line meets the plane -/
theorem signedVol_point (s0 s1 : V3 ℝ) (t : Tri ℝ) :
    vs (signedVol id s0 s1 t.2.1 t.2.2) t.1 + vs (signedVol id s0 s1 t.2.2 t.1) t.2.1 + vs (signedVol id s0 s1 t.1 t.2.1) t.2.2
      = vs (rawDist t s0 - rawDist t s1) s1 + vs (-rawDist t s1) (s0 - s1) := by
  apply V3.ext' <;>
    simp only [signedVol, rdot_id, rsub_id, rcross_id, rawDist, rawNormal, V3.dot, V3.cross, V3.sub_x, V3.sub_y, V3.sub_z,
      V3.add_x, V3.add_y, V3.add_z, vs] <;> ring

/-- unfolding of one entry of `segments_intersect_facets` at ℝ -/
theorem segFacet_id_iff (eps : ℝ) (s0 s1 : V3 ℝ) (t : Tri ℝ) :
    segFacet id eps s0 s1 t = true ↔
      (signNe (planeDist id t s0) (planeDist id t s1) = true ∧ eps < |planeDist id t s0| ∧ eps < |planeDist id t s1|) ∧
      (signEq (signedVol id s0 s1 t.1 t.2.1) (signedVol id s0 s1 t.2.1 t.2.2) = true ∧
       signEq (signedVol id s0 s1 t.2.1 t.2.2) (signedVol id s0 s1 t.2.2 t.1) = true) := by
  simp only [segFacet, planeCrossed, sameVolume, Bool.and_eq_true, lt_real, abs_real, decide_eq_true_eq, id, and_assoc]

/-- a reported crossing has a non-degenerate facet and raw plane distances of opposite strict signs -/
theorem crossed_raw {eps : ℝ} (heps : 0 ≤ eps) {s0 s1 : V3 ℝ} {t : Tri ℝ}
    (hs : signNe (planeDist id t s0) (planeDist id t s1) = true) (h0 : eps < |planeDist id t s0|)
    (h1 : eps < |planeDist id t s1|) : 0 < normalLen t ∧ rawDist t s0 * rawDist t s1 < 0 := by
  have g0 : planeDist id t s0 ≠ 0 := fun h => by rw [h, abs_zero] at h0; linarith
  have g1 : planeDist id t s1 ≠ 0 := fun h => by rw [h, abs_zero] at h1; linarith
  have hL : normalLen t ≠ 0 := fun h => g0 (by rw [planeDist_id, h, div_zero])
  have hLp : 0 < normalLen t := lt_of_le_of_ne (normalLen_nonneg t) (Ne.symm hL)
  refine ⟨hLp, ?_⟩
  have hm := signNe_mul_neg hs g0 g1
  rw [planeDist_id, planeDist_id, div_mul_div_comm] at hm
  have := (div_neg_iff.mp hm)
  rcases this with ⟨_, hneg⟩ | ⟨h, _⟩
  · exact absurd hneg (not_lt.mpr (mul_pos hLp hLp).le)
  · exact h

/-- **soundness of the primitive**: if `segments_intersect_facets` (exact arithmetic, any `eps ≥ 0`) reports segment
`s0 → s1` as intersecting facet `t`, then there is a point in the open segment and in the relative interior of the facet -/
theorem segFacet_sound {eps : ℝ} (heps : 0 ≤ eps) {s0 s1 : V3 ℝ} {t : Tri ℝ} (h : segFacet id eps s0 s1 t = true) :
    ∃ p, InOpenSegment s0 s1 p ∧ InTriInterior t p := by
  obtain ⟨⟨hs, h0, h1⟩, hv01, hv12⟩ := (segFacet_id_iff eps s0 s1 t).mp h
  obtain ⟨-, hG⟩ := crossed_raw heps hs h0 h1
  have hsum := signedVol_sum s0 s1 t
  have hpt := signedVol_point s0 s1 t
  set v0 := signedVol id s0 s1 t.1 t.2.1
  set v1 := signedVol id s0 s1 t.2.1 t.2.2
  set v2 := signedVol id s0 s1 t.2.2 t.1
  set G0 := rawDist t s0
  set G1 := rawDist t s1
  set D := G0 - G1 with hD
  have hDne : D ≠ 0 := by
    intro h
    have : G0 = G1 := by linarith
    rw [this] at hG
    exact absurd hG (not_lt.mpr (mul_self_nonneg G1))
  rw [signEq_real_iff] at hv01 hv12
  -- all three volumes have the strict sign of D
  have hsigns : (0 < v0 / D ∧ 0 < v1 / D ∧ 0 < v2 / D) := by
    rcases hv01 with ⟨a, b⟩ | ⟨a, b⟩ | ⟨a, b⟩ <;> rcases hv12 with ⟨c, d⟩ | ⟨c, d⟩ | ⟨c, d⟩
    all_goals first
      | (exfalso; linarith)
      | (have hDn : D < 0 := by linarith
         exact ⟨div_pos_of_neg_of_neg a hDn, div_pos_of_neg_of_neg b hDn, div_pos_of_neg_of_neg d hDn⟩)
      | (have hDp : 0 < D := by linarith
         exact ⟨div_pos a hDp, div_pos b hDp, div_pos d hDp⟩)
      | (exfalso; apply hDne; linarith)
  obtain ⟨p0, p1, p2⟩ := hsigns
  have hτ : 0 < -G1 / D ∧ -G1 / D < 1 := by
    rcases mul_neg_iff.mp hG with ⟨a, b⟩ | ⟨a, b⟩
    · have hDp : 0 < D := by linarith
      exact ⟨div_pos (by linarith) hDp, by rw [div_lt_one hDp]; linarith⟩
    · have hDn : D < 0 := by linarith
      exact ⟨div_pos_of_neg_of_neg (by linarith) hDn, by rw [div_lt_one_of_neg hDn]; linarith⟩
  refine ⟨vs (v1 / D) t.1 + vs (v2 / D) t.2.1 + vs (v0 / D) t.2.2, ⟨-G1 / D, hτ.1, hτ.2, ?_⟩,
    ⟨v1 / D, v2 / D, v0 / D, p1, p2, p0, ?_, rfl⟩⟩
  · -- the weighted corner sum is s1 + τ (s0 − s1)
    have hx := congrArg V3.x hpt
    have hy := congrArg V3.y hpt
    have hz := congrArg V3.z hpt
    simp only [V3.add_x, V3.add_y, V3.add_z, V3.sub_x, V3.sub_y, V3.sub_z, vs] at hx hy hz
    apply V3.ext' <;> simp only [V3.add_x, V3.add_y, V3.add_z, V3.sub_x, V3.sub_y, V3.sub_z, vs] <;>
      field_simp <;> linarith
  · rw [← add_div, ← add_div, div_eq_one_iff_eq hDne]; linarith

/-- closed form of the conclusion: a common point of the closed segment and the closed triangle -/
theorem segFacet_sound_closed {eps : ℝ} (heps : 0 ≤ eps) {s0 s1 : V3 ℝ} {t : Tri ℝ} (h : segFacet id eps s0 s1 t = true) :
    ∃ p, InSegment s0 s1 p ∧ InTriangle t p := by
  obtain ⟨p, h1, h2⟩ := segFacet_sound heps h
  exact ⟨p, h1.closed, h2.closed⟩

/-- a point farther than `eps ≥ 0` from the facet's plane certifies a facet of positive area -/
theorem normalLen_pos_of_far {eps : ℝ} (heps : 0 ≤ eps) {t : Tri ℝ} {p : V3 ℝ} (h : eps < |planeDist id t p|) :
    0 < normalLen t ∧ rawDist t p ≠ 0 := by
  have g0 : planeDist id t p ≠ 0 := fun h' => by rw [h', abs_zero] at h; linarith
  have hL : normalLen t ≠ 0 := fun h' => g0 (by rw [planeDist_id, h', div_zero])
  refine ⟨lt_of_le_of_ne (normalLen_nonneg t) (Ne.symm hL), fun h' => g0 ?_⟩
  rw [planeDist_id, h', zero_div]

theorem sign_from_scaled {τ v w G : ℝ} (hτ : 0 < τ) (hw : 0 < w) (h : τ * v = -w * G) : (G < 0 → 0 < v) ∧ (0 < G → v < 0) := by
  constructor
  · intro hG
    have : 0 < τ * v := by rw [h]; nlinarith
    exact (mul_pos_iff_of_pos_left hτ).mp this
  · intro hG
    have : τ * v < 0 := by rw [h]; nlinarith
    by_contra hn
    exact absurd (mul_nonneg hτ.le (not_lt.mp hn)) (not_le.mpr this)

theorem opp_sign_of_plane {τ G0 G1 : ℝ} (hτ0 : 0 < τ) (hτ1 : τ < 1) (hG1 : G1 ≠ 0) (K : (1 - τ) * G1 + τ * G0 = 0) :
    G0 * G1 < 0 := by
  by_contra hn
  have h1' := mul_nonneg hτ0.le (not_lt.mp hn)
  have h2' := mul_pos (sub_pos.mpr hτ1) (mul_self_pos.mpr hG1)
  have : τ * (G0 * G1) = -((1 - τ) * (G1 * G1)) := by linear_combination G1 * K
  linarith

/-- **completeness of the primitive for proper crossings**: if the open segment meets the relative interior of the facet
and both end points are farther than `eps` from the facet's plane, `segments_intersect_facets` (exact arithmetic) reports it -/
theorem segFacet_complete {eps : ℝ} (heps : 0 ≤ eps) {s0 s1 : V3 ℝ} {t : Tri ℝ}
    (h0 : eps < |planeDist id t s0|) (h1 : eps < |planeDist id t s1|)
    (hp : ∃ p, InOpenSegment s0 s1 p ∧ InTriInterior t p) : segFacet id eps s0 s1 t = true := by
  obtain ⟨p, ⟨τ, hτ0, hτ1, hpτ⟩, ⟨a, b, c, ha, hb, hc, hsum, hpt⟩⟩ := hp
  obtain ⟨hL, hG0ne⟩ := normalLen_pos_of_far heps h0
  obtain ⟨-, hG1ne⟩ := normalLen_pos_of_far heps h1
  have heq : s1 + vs τ (s0 - s1) = vs a t.1 + vs b t.2.1 + vs c t.2.2 := hpτ.symm.trans hpt
  have hx := congrArg V3.x heq
  have hy := congrArg V3.y heq
  have hz := congrArg V3.z heq
  have hc' : c = 1 - a - b := by linarith
  subst hc'
  obtain ⟨s0x, s0y, s0z⟩ := s0
  obtain ⟨s1x, s1y, s1z⟩ := s1
  obtain ⟨⟨t0x, t0y, t0z⟩, ⟨t1x, t1y, t1z⟩, ⟨t2x, t2y, t2z⟩⟩ := t
  simp only [V3.add_x, V3.add_y, V3.add_z, V3.sub_x, V3.sub_y, V3.sub_z, vs] at hx hy hz
  -- the plane equation along the segment, and the three volume identities
  have K : (1 - τ) * rawDist (⟨t0x, t0y, t0z⟩, ⟨t1x, t1y, t1z⟩, ⟨t2x, t2y, t2z⟩) ⟨s1x, s1y, s1z⟩
      + τ * rawDist (⟨t0x, t0y, t0z⟩, ⟨t1x, t1y, t1z⟩, ⟨t2x, t2y, t2z⟩) ⟨s0x, s0y, s0z⟩ = 0 := by
    simp only [rawDist, rawNormal, V3.dot, V3.cross, V3.sub_x, V3.sub_y, V3.sub_z]
    linear_combination ((t2y - t0y) * (t2z - t1z) - (t2z - t0z) * (t2y - t1y)) * hx
      + ((t2z - t0z) * (t2x - t1x) - (t2x - t0x) * (t2z - t1z)) * hy
      + ((t2x - t0x) * (t2y - t1y) - (t2y - t0y) * (t2x - t1x)) * hz
  have K1 : τ * signedVol id ⟨s0x, s0y, s0z⟩ ⟨s1x, s1y, s1z⟩ ⟨t1x, t1y, t1z⟩ ⟨t2x, t2y, t2z⟩
      = -a * rawDist (⟨t0x, t0y, t0z⟩, ⟨t1x, t1y, t1z⟩, ⟨t2x, t2y, t2z⟩) ⟨s1x, s1y, s1z⟩ := by
    simp only [signedVol, rdot_id, rsub_id, rcross_id, rawDist, rawNormal, V3.dot, V3.cross, V3.sub_x, V3.sub_y, V3.sub_z]
    linear_combination ((t1y - s1y) * (t2z - s1z) - (t1z - s1z) * (t2y - s1y)) * hx
      + ((t1z - s1z) * (t2x - s1x) - (t1x - s1x) * (t2z - s1z)) * hy
      + ((t1x - s1x) * (t2y - s1y) - (t1y - s1y) * (t2x - s1x)) * hz
  have K2 : τ * signedVol id ⟨s0x, s0y, s0z⟩ ⟨s1x, s1y, s1z⟩ ⟨t2x, t2y, t2z⟩ ⟨t0x, t0y, t0z⟩
      = -b * rawDist (⟨t0x, t0y, t0z⟩, ⟨t1x, t1y, t1z⟩, ⟨t2x, t2y, t2z⟩) ⟨s1x, s1y, s1z⟩ := by
    simp only [signedVol, rdot_id, rsub_id, rcross_id, rawDist, rawNormal, V3.dot, V3.cross, V3.sub_x, V3.sub_y, V3.sub_z]
    linear_combination ((t2y - s1y) * (t0z - s1z) - (t2z - s1z) * (t0y - s1y)) * hx
      + ((t2z - s1z) * (t0x - s1x) - (t2x - s1x) * (t0z - s1z)) * hy
      + ((t2x - s1x) * (t0y - s1y) - (t2y - s1y) * (t0x - s1x)) * hz
  have K0 : τ * signedVol id ⟨s0x, s0y, s0z⟩ ⟨s1x, s1y, s1z⟩ ⟨t0x, t0y, t0z⟩ ⟨t1x, t1y, t1z⟩
      = -(1 - a - b) * rawDist (⟨t0x, t0y, t0z⟩, ⟨t1x, t1y, t1z⟩, ⟨t2x, t2y, t2z⟩) ⟨s1x, s1y, s1z⟩ := by
    simp only [signedVol, rdot_id, rsub_id, rcross_id, rawDist, rawNormal, V3.dot, V3.cross, V3.sub_x, V3.sub_y, V3.sub_z]
    linear_combination ((t0y - s1y) * (t1z - s1z) - (t0z - s1z) * (t1y - s1y)) * hx
      + ((t0z - s1z) * (t1x - s1x) - (t0x - s1x) * (t1z - s1z)) * hy
      + ((t0x - s1x) * (t1y - s1y) - (t0y - s1y) * (t1x - s1x)) * hz
  have hGG := opp_sign_of_plane hτ0 hτ1 hG1ne K
  obtain ⟨n0, q0⟩ := sign_from_scaled hτ0 hc K0
  obtain ⟨n1, q1⟩ := sign_from_scaled hτ0 ha K1
  obtain ⟨n2, q2⟩ := sign_from_scaled hτ0 hb K2
  rw [segFacet_id_iff]
  refine ⟨⟨?_, h0, h1⟩, ?_⟩
  · apply signNe_of_mul_neg
    rw [planeDist_id, planeDist_id, div_mul_div_comm]
    exact div_neg_of_neg_of_pos hGG (mul_pos hL hL)
  · rw [signEq_real_iff, signEq_real_iff]
    rcases lt_or_gt_of_ne hG1ne with hneg | hpos
    · exact ⟨Or.inr (Or.inr ⟨n0 hneg, n1 hneg⟩), Or.inr (Or.inr ⟨n1 hneg, n2 hneg⟩)⟩
    · exact ⟨Or.inl ⟨q0 hpos, q1 hpos⟩, Or.inl ⟨q1 hpos, q2 hpos⟩⟩

/-- **the primitive is not complete**: a segment through the midpoint of an edge of the facet has a common point with the
facet, but one of the three signed volumes is exactly zero, `np.sign` gives 0 ≠ ±1, and nothing is reported for any `eps` -/
theorem segFacet_misses_edge_crossing :
    ∃ (s0 s1 : V3 ℝ) (t : Tri ℝ) (p : V3 ℝ), InSegment s0 s1 p ∧ InTriangle t p ∧ ∀ eps : ℝ, segFacet id eps s0 s1 t = false := by
  refine ⟨⟨1 / 2, 0, 1⟩, ⟨1 / 2, 0, -1⟩, (⟨0, 0, 0⟩, ⟨1, 0, 0⟩, ⟨0, 1, 0⟩), ⟨1 / 2, 0, 0⟩, ⟨1 / 2, by norm_num, by norm_num, ?_⟩,
    ⟨1 / 2, 1 / 2, 0, by norm_num, by norm_num, le_refl _, by norm_num, ?_⟩, ?_⟩
  · apply V3.ext' <;> simp [vs] <;> norm_num
  · apply V3.ext' <;> simp [vs]
  · intro eps
    have h0 : signedVol id (⟨1 / 2, 0, 1⟩ : V3 ℝ) ⟨1 / 2, 0, -1⟩ ⟨0, 0, 0⟩ ⟨1, 0, 0⟩ = 0 := by
      simp [signedVol, V3.dot, V3.cross]
    have h1 : signedVol id (⟨1 / 2, 0, 1⟩ : V3 ℝ) ⟨1 / 2, 0, -1⟩ ⟨1, 0, 0⟩ ⟨0, 1, 0⟩ = 1 := by
      simp [signedVol, V3.dot, V3.cross]; norm_num
    have hs : sameVolume id (⟨1 / 2, 0, 1⟩ : V3 ℝ) ⟨1 / 2, 0, -1⟩ (⟨0, 0, 0⟩, ⟨1, 0, 0⟩, ⟨0, 1, 0⟩) = false := by
      have : signEq (0 : ℝ) 1 = false := by
        rw [Bool.eq_false_iff, ne_eq, signEq_real_iff]; norm_num
      simp only [sameVolume, h0, h1, this, Bool.false_and]
    simp only [segFacet, hs, Bool.and_false]

/-! ### the index bookkeeping of `get_intersecting_triangles` -/

theorem mem_ballPairs (n : Nat) (w : Nat → Nat → Bool) (p : Nat × Nat) :
    p ∈ ballPairs n w ↔ p.1 < n ∧ p.2 < n ∧ w p.2 p.1 = true := by
  simp only [ballPairs, List.mem_flatMap, List.mem_map, List.mem_filter, List.mem_range]
  constructor
  · rintro ⟨j, hj, i, ⟨hi, hw⟩, rfl⟩
    exact ⟨hi, hj, hw⟩
  · rintro ⟨h1, h2, h3⟩
    exact ⟨p.2, h2, p.1, ⟨h1, h3⟩, rfl⟩

/-- the condition under which index `k` is reported -/
def Flagged (n : Nat) (w h : Nat → Nat → Bool) (k : Nat) : Prop :=
  ∃ i j, i < n ∧ j < n ∧ w j i = true ∧ i ≠ j ∧ h i j = true ∧ (i = k ∨ j = k)

theorem mem_intersectingCore (n : Nat) (w h : Nat → Nat → Bool) (k : Nat) :
    k ∈ intersectingCore n w h ↔ k < n ∧ Flagged n w h k := by
  simp only [intersectingCore, List.mem_filter, List.mem_range, List.any_eq_true, mem_ballPairs, Bool.or_eq_true,
    beq_iff_eq, bne_iff_ne, ne_eq, Flagged]
  constructor
  · rintro ⟨hk, ⟨i, j⟩, ⟨⟨⟨hi, hj, hw⟩, hne⟩, hh⟩, hor⟩
    exact ⟨hk, i, j, hi, hj, hw, hne, hh, hor⟩
  · rintro ⟨hk, i, j, hi, hj, hw, hne, hh, hor⟩
    exact ⟨hk, (i, j), ⟨⟨⟨hi, hj, hw⟩, hne⟩, hh⟩, hor⟩

theorem intersectingCore_nodup (n : Nat) (w h : Nat → Nat → Bool) : (intersectingCore n w h).Nodup :=
  List.Nodup.filter _ List.nodup_range

/-- the result only depends on the tests at index pairs below `n` -/
theorem intersectingCore_congr (n : Nat) (w w' h h' : Nat → Nat → Bool)
    (hw : ∀ i j, i < n → j < n → w j i = w' j i) (hh : ∀ i j, i < n → j < n → h i j = h' i j) :
    intersectingCore n w h = intersectingCore n w' h' := by
  have key : ∀ k, k ∈ intersectingCore n w h ↔ k ∈ intersectingCore n w' h' := by
    intro k
    simp only [mem_intersectingCore, Flagged]
    constructor
    · rintro ⟨hk, i, j, hi, hj, a, b, c, d⟩
      exact ⟨hk, i, j, hi, hj, by rw [← hw i j hi hj]; exact a, b, by rw [← hh i j hi hj]; exact c, d⟩
    · rintro ⟨hk, i, j, hi, hj, a, b, c, d⟩
      exact ⟨hk, i, j, hi, hj, by rw [hw i j hi hj]; exact a, b, by rw [hh i j hi hj]; exact c, d⟩
  unfold intersectingCore
  apply List.filter_congr
  intro k hk
  have hk' := List.mem_range.mp hk
  have := key k
  simp only [intersectingCore, List.mem_filter, List.mem_range, hk', true_and] at this
  exact Bool.eq_iff_iff.mpr this

/-- a non-empty report has at least two entries (both faces of a flagged pair are reported): the class's verdict
`len(...) > 1` is "something was reported" -/
theorem intersectingCore_two (n : Nat) (w h : Nat → Nat → Bool) :
    1 < (intersectingCore n w h).length ↔ intersectingCore n w h ≠ [] := by
  constructor
  · intro hl he
    rw [he] at hl
    simp at hl
  · intro hne
    obtain ⟨k, hk⟩ := List.exists_mem_of_ne_nil _ hne
    obtain ⟨_, i, j, hi, hj, a, b, c, _⟩ := (mem_intersectingCore n w h k).mp hk
    have mi : i ∈ intersectingCore n w h := (mem_intersectingCore n w h i).mpr ⟨hi, i, j, hi, hj, a, b, c, Or.inl rfl⟩
    have mj : j ∈ intersectingCore n w h := (mem_intersectingCore n w h j).mpr ⟨hj, i, j, hi, hj, a, b, c, Or.inr rfl⟩
    have hnd : [i, j].Nodup := by simp [b]
    have hsub : [i, j] ⊆ intersectingCore n w h := by
      intro x hx
      simp only [List.mem_cons, List.not_mem_nil, or_false] at hx
      rcases hx with rfl | rfl
      · exact mi
      · exact mj
    have := (List.subperm_of_subset hnd hsub).length_le
    simp only [List.length_cons, List.length_nil] at this
    omega

theorem getD_map_of_lt {β γ : Type} (f : β → γ) (l : List β) (i : Nat) (hi : i < l.length) (d : β) (d' : γ) :
    (l.map f).getD i d' = f (l.getD i d) := by
  simp [List.getD_eq_getElem?_getD, List.getElem?_map, List.getElem?_eq_getElem hi]

/-! ### translation -/
section shift
variable (d : V3 ℝ)

theorem segFacet_shift (eps : ℝ) (s0 s1 : V3 ℝ) (t : Tri ℝ) :
    segFacet id eps (s0 + d) (s1 + d) (triShift d t) = segFacet id eps s0 s1 t := by
  simp only [segFacet, planeCrossed, sameVolume, planeDist, facetNormal, signedVol, rsub_id, triShift, add_sub_add]

theorem edgesHit_shift (eps : ℝ) (f1 f2 : Tri ℝ) :
    edgesHit id eps (triShift d f1) (triShift d f2) = edgesHit id eps f1 f2 := by
  have h := fun a b => segFacet_shift d eps a b f2
  simp only [edgesHit]
  simp only [triShift] at h ⊢
  simp only [h]

theorem facetCentre_shift (t : Tri ℝ) : facetCentre id (triShift d t) = facetCentre id t + d := by
  apply V3.ext' <;> simp [facetCentre, triShift, n] <;> ring

theorem cornerDist_shift (c p : V3 ℝ) : cornerDist id (c + d) (p + d) = cornerDist id c p := by
  simp only [cornerDist, rsub_id, add_sub_add]

theorem maxCornerDist_shift (facets : List (Tri ℝ)) :
    maxCornerDist id (facets.map (triShift d)) = maxCornerDist id facets := by
  simp only [maxCornerDist, List.flatMap_map, facetCentre_shift]
  congr 1
  apply List.flatMap_congr
  intro t _
  simp only [triShift, cornerDist_shift]

theorem withinBall_shift (r : ℝ) (c p : V3 ℝ) : withinBall r (c + d) (p + d) = withinBall r c p := by
  simp only [withinBall, V3.add_x, V3.add_y, V3.add_z, add_sub_add_right_eq_sub]

/-- `get_intersecting_triangles` (exact arithmetic) only looks at differences of positions -/
theorem intersectingFacets_shift (r : Option ℝ) (rf eps : ℝ) (facets : List (Tri ℝ)) :
    intersectingFacets id r rf eps (facets.map (triShift d)) = intersectingFacets id r rf eps facets := by
  simp only [intersectingFacets, List.length_map, maxCornerDist_shift, List.map_map]
  apply intersectingCore_congr
  · intro i j hi hj
    rw [getD_map_of_lt _ _ j (by simpa using hj) zeroTri, getD_map_of_lt _ _ i (by simpa using hi) zeroTri,
      getD_map_of_lt _ _ j (by simpa using hj) zeroTri, getD_map_of_lt _ _ i (by simpa using hi) zeroTri]
    simp only [Function.comp, facetCentre_shift, withinBall_shift]
  · intro i j hi hj
    rw [getD_map_of_lt _ _ i hi zeroTri, getD_map_of_lt _ _ j hj zeroTri, edgesHit_shift]

end shift

/-! ### a common positive length factor -/
section scale
variable (l : ℝ) (hl : 0 < l)
include hl

theorem sgn_mul_pos (x : ℝ) : sgn (l * x) = sgn x := by
  simp only [sgn_real, mul_neg_iff, mul_pos_iff, hl, not_lt.mpr hl.le, true_and, false_and, or_false]

theorem signNe_mul_pos (a b : ℝ) : signNe (l * a) (l * b) = signNe a b := by
  simp only [signNe_real, sgn_mul_pos l hl]

theorem signEq_mul_pos (a b : ℝ) : signEq (l * a) (l * b) = signEq a b := by
  simp only [signEq, signNe_mul_pos l hl]

omit hl in
theorem rawDist_scale (t : Tri ℝ) (p : V3 ℝ) : rawDist (triScale l t) (vs l p) = l * l * (l * rawDist t p) := by
  simp only [rawDist, rawNormal, triScale, V3.dot, V3.cross, V3.sub_x, V3.sub_y, V3.sub_z, vs]
  ring

theorem normalLen_scale (t : Tri ℝ) : normalLen (triScale l t) = l * l * normalLen t := by
  have h : V3.dot (rawNormal (triScale l t)) (rawNormal (triScale l t)) = (l * l) * (l * l) * V3.dot (rawNormal t) (rawNormal t) := by
    simp only [rawNormal, triScale, V3.dot, V3.cross, V3.sub_x, V3.sub_y, V3.sub_z, vs]
    ring
  rw [normalLen, h, Real.sqrt_mul (by positivity), Real.sqrt_mul_self (by positivity), normalLen]

theorem planeDist_scale (t : Tri ℝ) (p : V3 ℝ) : planeDist id (triScale l t) (vs l p) = l * planeDist id t p := by
  rw [planeDist_id, planeDist_id, rawDist_scale l, normalLen_scale l hl,
    mul_div_mul_left _ _ (mul_pos hl hl).ne', mul_div_assoc]

omit hl in
theorem signedVol_scale (s0 s1 a b : V3 ℝ) :
    signedVol id (vs l s0) (vs l s1) (vs l a) (vs l b) = (l * l * l) * signedVol id s0 s1 a b := by
  simp only [signedVol, rdot_id, rsub_id, rcross_id, V3.dot, V3.cross, V3.sub_x, V3.sub_y, V3.sub_z, vs]
  ring

/-- one entry of `segments_intersect_facets`: lengths and `eps` multiplied by the same factor give the same verdict -/
theorem segFacet_scale (eps : ℝ) (s0 s1 : V3 ℝ) (t : Tri ℝ) :
    segFacet id (l * eps) (vs l s0) (vs l s1) (triScale l t) = segFacet id eps s0 s1 t := by
  have h3 : 0 < l * l * l := by positivity
  have e : ∀ g : ℝ, (l * eps < |l * g|) ↔ (eps < |g|) := fun g => by
    rw [abs_mul, abs_of_pos hl]; exact ⟨fun h => lt_of_mul_lt_mul_left h hl.le, fun h => mul_lt_mul_of_pos_left h hl⟩
  simp only [segFacet, planeCrossed, sameVolume, planeDist_scale l hl, signNe_mul_pos l hl, lt_real, abs_real, id, e]
  simp only [triScale, signedVol_scale l, signEq_mul_pos _ h3]

theorem edgesHit_scale (eps : ℝ) (f1 f2 : Tri ℝ) :
    edgesHit id (l * eps) (triScale l f1) (triScale l f2) = edgesHit id eps f1 f2 := by
  have h := fun a b => segFacet_scale l hl eps a b f2
  simp only [edgesHit]
  simp only [triScale] at h ⊢
  simp only [h]

omit hl in
theorem facetCentre_scale (t : Tri ℝ) : facetCentre id (triScale l t) = vs l (facetCentre id t) := by
  apply V3.ext' <;> simp [facetCentre, triScale, vs, n] <;> ring

theorem cornerDist_scale (c p : V3 ℝ) : cornerDist id (vs l c) (vs l p) = l * cornerDist id c p := by
  have h : V3.dot (vs l p - vs l c) (vs l p - vs l c) = (l * l) * V3.dot (p - c) (p - c) := by
    simp only [V3.dot, V3.sub_x, V3.sub_y, V3.sub_z, vs]; ring
  simp only [cornerDist, rsub_id, rdot_id, id, sqrt_real, h]
  rw [Real.sqrt_mul (by positivity), Real.sqrt_mul_self hl.le]

theorem foldl_npMax_scale (xs : List ℝ) (a : ℝ) :
    (xs.map (l * ·)).foldl npMax (l * a) = l * xs.foldl npMax a := by
  induction xs generalizing a with
  | nil => rfl
  | cons x xs ih => simp only [List.map_cons, List.foldl_cons, npMax_real, ← mul_max_of_nonneg _ _ hl.le, ih]

theorem foldl_npMax_scale0 (xs : List ℝ) :
    (xs.map (l * ·)).foldl npMax (n 0) = l * xs.foldl npMax (n 0) := by
  have h := foldl_npMax_scale l hl xs (n 0)
  have h0 : l * (n 0 : ℝ) = n 0 := by simp [n]
  rw [h0] at h
  exact h

theorem maxCornerDist_scale (facets : List (Tri ℝ)) :
    maxCornerDist id (facets.map (triScale l)) = l * maxCornerDist id facets := by
  simp only [maxCornerDist, List.flatMap_map]
  rw [← foldl_npMax_scale0 l hl, List.map_flatMap]
  congr 1
  apply List.flatMap_congr
  intro t _
  simp only [facetCentre_scale l, List.map_cons, List.map_nil]
  simp only [triScale, cornerDist_scale l hl]

theorem withinBall_scale (r : ℝ) (c p : V3 ℝ) : withinBall (l * r) (vs l c) (vs l p) = withinBall r c p := by
  have e : ∀ u v : ℝ, l * u - l * v = l * (u - v) := fun u v => by ring
  have e2 : ∀ a b c r : ℝ, (l * a * (l * a) + l * b * (l * b) + l * c * (l * c) ≤ l * r * (l * r)) ↔
      (a * a + b * b + c * c ≤ r * r) := by
    intro a b c r
    have h2 : 0 < l * l := mul_pos hl hl
    constructor
    · intro h; have : (l * l) * (a * a + b * b + c * c) ≤ (l * l) * (r * r) := by nlinarith
      exact le_of_mul_le_mul_left this h2
    · intro h; have := mul_le_mul_of_nonneg_left h h2.le; nlinarith
  simp only [withinBall, vs, e, le_real, e2]

/-- `get_intersecting_triangles` (exact arithmetic): vertices, the optional radius and `eps` multiplied by the same positive
factor give the same report -/
theorem intersectingFacets_scale (r : Option ℝ) (rf eps : ℝ) (facets : List (Tri ℝ)) :
    intersectingFacets id (r.map (l * ·)) rf (l * eps) (facets.map (triScale l)) = intersectingFacets id r rf eps facets := by
  cases r with
  | none =>
    simp only [intersectingFacets, Option.map_none, List.length_map, List.map_map, id, maxCornerDist_scale l hl]
    have e : rf * (l * maxCornerDist id facets) = l * (rf * maxCornerDist id facets) := by ring
    rw [e]
    apply intersectingCore_congr
    · intro i j hi hj
      rw [getD_map_of_lt _ _ j (by simpa using hj) zeroTri, getD_map_of_lt _ _ i (by simpa using hi) zeroTri,
        getD_map_of_lt _ _ j (by simpa using hj) zeroTri, getD_map_of_lt _ _ i (by simpa using hi) zeroTri]
      simp only [Function.comp, facetCentre_scale l, withinBall_scale l hl]
    · intro i j hi hj
      rw [getD_map_of_lt _ _ i hi zeroTri, getD_map_of_lt _ _ j hj zeroTri, edgesHit_scale l hl]
  | some r =>
    simp only [intersectingFacets, Option.map_some, List.length_map, List.map_map]
    apply intersectingCore_congr
    · intro i j hi hj
      rw [getD_map_of_lt _ _ j (by simpa using hj) zeroTri, getD_map_of_lt _ _ i (by simpa using hi) zeroTri,
        getD_map_of_lt _ _ j (by simpa using hj) zeroTri, getD_map_of_lt _ _ i (by simpa using hi) zeroTri]
      simp only [Function.comp, facetCentre_scale l, withinBall_scale l hl]
    · intro i j hi hj
      rw [getD_map_of_lt _ _ i hi zeroTri, getD_map_of_lt _ _ j hj zeroTri, edgesHit_scale l hl]

end scale

/-! ### the order of the faces -/

/-- reindexing the tests by a permutation of the indices below `n` reindexes the report -/
theorem intersectingCore_perm (n : Nat) (w h w' h' : Nat → Nat → Bool) (σ : Equiv.Perm ℕ) (hσ : ∀ i, σ i < n ↔ i < n)
    (hw : ∀ i j, i < n → j < n → w' j i = w (σ j) (σ i)) (hh : ∀ i j, i < n → j < n → h' i j = h (σ i) (σ j)) (k : ℕ) :
    k ∈ intersectingCore n w' h' ↔ σ k ∈ intersectingCore n w h := by
  simp only [mem_intersectingCore, Flagged]
  constructor
  · rintro ⟨hk, i, j, hi, hj, a, b, c, d⟩
    exact ⟨(hσ k).mpr hk, σ i, σ j, (hσ i).mpr hi, (hσ j).mpr hj, by rw [← hw i j hi hj]; exact a,
      fun e => b (σ.injective e), by rw [← hh i j hi hj]; exact c, d.imp (congrArg σ) (congrArg σ)⟩
  · rintro ⟨hk, a, b, ha, hb, wa, hne, hc, d⟩
    have hi : σ.symm a < n := (hσ _).mp (by rw [Equiv.apply_symm_apply]; exact ha)
    have hj : σ.symm b < n := (hσ _).mp (by rw [Equiv.apply_symm_apply]; exact hb)
    refine ⟨(hσ k).mp hk, σ.symm a, σ.symm b, hi, hj, ?_, fun e => hne (σ.symm.injective e), ?_, ?_⟩
    · rw [hw _ _ hi hj, Equiv.apply_symm_apply, Equiv.apply_symm_apply]; exact wa
    · rw [hh _ _ hi hj, Equiv.apply_symm_apply, Equiv.apply_symm_apply]; exact hc
    · exact d.imp (fun e => (Equiv.symm_apply_eq σ).mpr e) (fun e => (Equiv.symm_apply_eq σ).mpr e)

/-- the face list read in the order `σ 0, σ 1, …` -/
noncomputable def permuteFacets (σ : ℕ → ℕ) (facets : List (Tri ℝ)) : List (Tri ℝ) :=
  (List.range facets.length).map fun i => facets.getD (σ i) zeroTri

theorem permuteFacets_length (σ : ℕ → ℕ) (facets : List (Tri ℝ)) : (permuteFacets σ facets).length = facets.length := by
  simp [permuteFacets]

theorem permuteFacets_getD (σ : ℕ → ℕ) (facets : List (Tri ℝ)) (i : ℕ) (hi : i < facets.length) :
    (permuteFacets σ facets).getD i zeroTri = facets.getD (σ i) zeroTri := by
  simp [permuteFacets, List.getD_eq_getElem?_getD, List.getElem?_map, List.getElem?_range hi]

theorem range_map_getD (facets : List (Tri ℝ)) : (List.range facets.length).map (fun m => facets.getD m zeroTri) = facets := by
  apply List.ext_getElem
  · simp
  · intro i h1 h2
    simp [List.getD_eq_getElem?_getD, List.getElem?_eq_getElem h2]

theorem permuteFacets_perm (σ : Equiv.Perm ℕ) (facets : List (Tri ℝ)) (hσ : ∀ i, σ i < facets.length ↔ i < facets.length) :
    (permuteFacets σ facets).Perm facets := by
  have h1 : ((List.range facets.length).map σ).Perm (List.range facets.length) := by
    apply (List.perm_ext_iff_of_nodup (List.Nodup.map σ.injective List.nodup_range) List.nodup_range).mpr
    intro a
    simp only [List.mem_map, List.mem_range]
    constructor
    · rintro ⟨i, hi, rfl⟩; exact (hσ i).mpr hi
    · intro ha
      exact ⟨σ.symm a, (hσ _).mp (by rw [Equiv.apply_symm_apply]; exact ha), Equiv.apply_symm_apply σ a⟩
  have h2 := h1.map (fun m => facets.getD m zeroTri)
  rw [List.map_map, range_map_getD] at h2
  exact h2

theorem maxCornerDist_perm {f1 f2 : List (Tri ℝ)} (hp : f1.Perm f2) : maxCornerDist id f1 = maxCornerDist id f2 := by
  have : RightCommutative (npMax : ℝ → ℝ → ℝ) := ⟨fun a b c => by simp only [npMax_real]; exact max_right_comm a b c⟩
  simp only [maxCornerDist]
  exact (hp.flatMap_right _).foldl_eq _

/-- **face order**: listing the faces in another order reindexes the report of `get_intersecting_triangles` accordingly -/
theorem intersectingFacets_perm (r : Option ℝ) (rf eps : ℝ) (facets : List (Tri ℝ)) (σ : Equiv.Perm ℕ)
    (hσ : ∀ i, σ i < facets.length ↔ i < facets.length) (k : ℕ) :
    k ∈ intersectingFacets id r rf eps (permuteFacets σ facets) ↔ σ k ∈ intersectingFacets id r rf eps facets := by
  simp only [intersectingFacets, permuteFacets_length, maxCornerDist_perm (permuteFacets_perm σ facets hσ)]
  apply intersectingCore_perm _ _ _ _ _ σ hσ
  · intro i j hi hj
    rw [getD_map_of_lt _ _ j (by rw [permuteFacets_length]; exact hj) zeroTri,
      getD_map_of_lt _ _ i (by rw [permuteFacets_length]; exact hi) zeroTri,
      getD_map_of_lt _ _ (σ j) ((hσ j).mpr hj) zeroTri, getD_map_of_lt _ _ (σ i) ((hσ i).mpr hi) zeroTri,
      permuteFacets_getD _ _ _ hi, permuteFacets_getD _ _ _ hj]
  · intro i j hi hj
    rw [permuteFacets_getD _ _ _ hi, permuteFacets_getD _ _ _ hj]

/-- the verdict "something is reported" does not depend on the order of the faces -/
theorem intersectingFacets_perm_verdict (r : Option ℝ) (rf eps : ℝ) (facets : List (Tri ℝ)) (σ : Equiv.Perm ℕ)
    (hσ : ∀ i, σ i < facets.length ↔ i < facets.length) :
    intersectingFacets id r rf eps (permuteFacets σ facets) = [] ↔ intersectingFacets id r rf eps facets = [] := by
  simp only [List.eq_nil_iff_forall_not_mem]
  constructor
  · intro h a ha
    apply h (σ.symm a)
    rw [intersectingFacets_perm r rf eps facets σ hσ, Equiv.apply_symm_apply]; exact ha
  · intro h a ha
    exact h (σ a) ((intersectingFacets_perm r rf eps facets σ hσ a).mp ha)

/-- the verdict of `TriangularMesh.check_selfintersecting`, `len(...) > 1`, is "the report is non-empty" -/
theorem intersectingFacets_two (r : Option ℝ) (rf eps : ℝ) (facets : List (Tri ℝ)) :
    1 < (intersectingFacets id r rf eps facets).length ↔ intersectingFacets id r rf eps facets ≠ [] := by
  simp only [intersectingFacets]; exact intersectingCore_two _ _ _

/-! ### from vertices and index triples -/

/-- every index of every triple addresses a vertex (numpy raises IndexError otherwise) -/
def TrisInRange (nv : Nat) (tris : List (Nat × Nat × Nat)) : Prop :=
  ∀ t ∈ tris, t.1 < nv ∧ t.2.1 < nv ∧ t.2.2 < nv

theorem V3_map_id (v : V3 ℝ) : V3.map id v = v := by cases v; rfl

theorem verts_map_id (verts : List (V3 ℝ)) : verts.map (V3.map id) = verts := by
  rw [show (V3.map id : V3 ℝ → V3 ℝ) = id from funext V3_map_id, List.map_id]

theorem gatherFacets_map (f : V3 ℝ → V3 ℝ) (verts : List (V3 ℝ)) (tris : List (Nat × Nat × Nat))
    (h : TrisInRange verts.length tris) :
    gatherFacets (verts.map f) tris = (gatherFacets verts tris).map fun t => (f t.1, f t.2.1, f t.2.2) := by
  simp only [gatherFacets, List.map_map]
  apply List.map_congr_left
  intro t ht
  obtain ⟨h1, h2, h3⟩ := h t ht
  simp only [Function.comp, getD_map_of_lt f verts _ h1 zero3, getD_map_of_lt f verts _ h2 zero3,
    getD_map_of_lt f verts _ h3 zero3]

theorem getIntersectingTriangles_shift (d : V3 ℝ) (r : Option ℝ) (rf eps : ℝ) (verts : List (V3 ℝ))
    (tris : List (Nat × Nat × Nat)) (h : TrisInRange verts.length tris) :
    getIntersectingTriangles id r rf eps (verts.map (· + d)) tris = getIntersectingTriangles id r rf eps verts tris := by
  simp only [getIntersectingTriangles, verts_map_id]
  rw [gatherFacets_map _ _ _ h]
  exact intersectingFacets_shift d r rf eps _

theorem getIntersectingTriangles_scale (l : ℝ) (hl : 0 < l) (r : Option ℝ) (rf eps : ℝ) (verts : List (V3 ℝ))
    (tris : List (Nat × Nat × Nat)) (h : TrisInRange verts.length tris) :
    getIntersectingTriangles id (r.map (l * ·)) rf (l * eps) (verts.map (vs l)) tris
      = getIntersectingTriangles id r rf eps verts tris := by
  simp only [getIntersectingTriangles, verts_map_id]
  rw [gatherFacets_map _ _ _ h]
  exact intersectingFacets_scale l hl r rf eps _

/-- the triangle list read in the order `σ 0, σ 1, …` -/
def permuteTris (σ : ℕ → ℕ) (tris : List (Nat × Nat × Nat)) : List (Nat × Nat × Nat) :=
  (List.range tris.length).map fun i => tris.getD (σ i) (0, 0, 0)

theorem gatherFacets_permute (σ : ℕ → ℕ) (verts : List (V3 ℝ)) (tris : List (Nat × Nat × Nat))
    (hσ : ∀ i, i < tris.length → σ i < tris.length) :
    gatherFacets verts (permuteTris σ tris) = permuteFacets σ (gatherFacets verts tris) := by
  simp only [gatherFacets, permuteTris, permuteFacets, List.map_map, List.length_map]
  apply List.map_congr_left
  intro i hi
  have hi' := hσ i (List.mem_range.mp hi)
  simp only [Function.comp]
  rw [getD_map_of_lt _ tris (σ i) hi' (0, 0, 0)]

theorem getIntersectingTriangles_perm (r : Option ℝ) (rf eps : ℝ) (verts : List (V3 ℝ)) (tris : List (Nat × Nat × Nat))
    (σ : Equiv.Perm ℕ) (hσ : ∀ i, σ i < tris.length ↔ i < tris.length) (k : ℕ) :
    k ∈ getIntersectingTriangles id r rf eps verts (permuteTris σ tris) ↔ σ k ∈ getIntersectingTriangles id r rf eps verts tris := by
  have hlen : (gatherFacets (verts.map (V3.map id)) tris).length = tris.length := by simp [gatherFacets]
  simp only [getIntersectingTriangles]
  rw [gatherFacets_permute σ _ tris (fun i hi => (hσ i).mpr hi)]
  exact intersectingFacets_perm r rf eps _ σ (by rw [hlen]; exact hσ) k

theorem selfIntersecting_perm (verts : List (V3 ℝ)) (tris : List (Nat × Nat × Nat))
    (σ : Equiv.Perm ℕ) (hσ : ∀ i, σ i < tris.length ↔ i < tris.length) :
    selfIntersecting id verts (permuteTris σ tris) = selfIntersecting id verts tris := by
  have hlen : (gatherFacets (verts.map (V3.map id)) tris).length = tris.length := by simp [gatherFacets]
  have key : 1 < (selfIntersectingFaces id verts (permuteTris σ tris)).length ↔
      1 < (selfIntersectingFaces id verts tris).length := by
    simp only [selfIntersectingFaces, getIntersectingTriangles]
    rw [gatherFacets_permute σ _ tris (fun i hi => (hσ i).mpr hi)]
    simp only [intersectingFacets_two, ne_eq]
    exact not_congr (intersectingFacets_perm_verdict _ _ _ _ σ (by rw [hlen]; exact hσ))
  unfold selfIntersecting
  exact decide_eq_decide.mpr key

/-! ### concrete evaluations (non-vacuity, and the witness that the absolute `eps` breaks unit invariance) -/

/-- the facet (0,0,0), (1,0,0), (0,1,0) -/
noncomputable def witT : Tri ℝ := (⟨0, 0, 0⟩, ⟨1, 0, 0⟩, ⟨0, 1, 0⟩)
/-- the segment from (1/4, 1/4, 1) to (1/4, 1/4, −1): through the interior of `witT`, end points at distance 1 from its plane -/
noncomputable def witS0 : V3 ℝ := ⟨1 / 4, 1 / 4, 1⟩
noncomputable def witS1 : V3 ℝ := ⟨1 / 4, 1 / 4, -1⟩

theorem wit_normalLen : normalLen witT = 1 := by
  simp [normalLen, rawNormal, witT, V3.dot, V3.cross]
theorem wit_g0 : planeDist id witT witS0 = 1 := by
  rw [planeDist_id, wit_normalLen]; simp [rawDist, rawNormal, witT, witS0, V3.dot, V3.cross]
theorem wit_g1 : planeDist id witT witS1 = -1 := by
  rw [planeDist_id, wit_normalLen]; simp [rawDist, rawNormal, witT, witS1, V3.dot, V3.cross]

theorem wit_sameVolume : sameVolume id witS0 witS1 witT = true := by
  have h0 : signedVol id witS0 witS1 witT.1 witT.2.1 = 1 / 2 := by
    simp [signedVol, witT, witS0, witS1, V3.dot, V3.cross]; norm_num
  have h1 : signedVol id witS0 witS1 witT.2.1 witT.2.2 = 1 := by
    simp [signedVol, witT, witS0, witS1, V3.dot, V3.cross]; norm_num
  have h2 : signedVol id witS0 witS1 witT.2.2 witT.1 = 1 / 2 := by
    simp [signedVol, witT, witS0, witS1, V3.dot, V3.cross]; norm_num
  simp only [sameVolume, h0, h1, h2, Bool.and_eq_true, signEq_real_iff]
  exact ⟨Or.inr (Or.inr ⟨by norm_num, by norm_num⟩), Or.inr (Or.inr ⟨by norm_num, by norm_num⟩)⟩

/-- with the code's default `eps = 1e-6` the segment is reported -/
theorem wit_segFacet : segFacet id (1 / 1000000) witS0 witS1 witT = true := by
  simp only [segFacet, planeCrossed, wit_g0, wit_g1, wit_sameVolume, Bool.and_true, Bool.and_eq_true, lt_real, abs_real, id,
    decide_eq_true_eq]
  refine ⟨⟨signNe_of_mul_neg (by norm_num), by norm_num⟩, by norm_num⟩

/-- with `eps = 10` (larger than the end points' distance from the plane) it is not -/
theorem wit_segFacet_big_eps : segFacet id 10 witS0 witS1 witT = false := by
  simp only [segFacet, planeCrossed, wit_g0, wit_g1, lt_real, abs_real, id]
  norm_num

/-- the same segment and facet at 1e-7 of the size, `eps` unchanged: not reported -/
theorem wit_segFacet_small : segFacet id (1 / 1000000) (vs (1 / 10000000) witS0) (vs (1 / 10000000) witS1)
    (triScale (1 / 10000000) witT) = false := by
  have h := segFacet_scale (1 / 10000000) (by norm_num) 10 witS0 witS1 witT
  rw [show (1 / 10000000 : ℝ) * 10 = 1 / 1000000 by norm_num] at h
  rw [h, wit_segFacet_big_eps]

/-- a two-face mesh: `witT` and a triangle whose first edge is the segment above -/
noncomputable def witVerts : List (V3 ℝ) := [⟨0, 0, 0⟩, ⟨1, 0, 0⟩, ⟨0, 1, 0⟩, ⟨1 / 4, 1 / 4, 1⟩, ⟨1 / 4, 1 / 4, -1⟩, ⟨5, 5, 0⟩]
def witTris : List (Nat × Nat × Nat) := [(0, 1, 2), (3, 4, 5)]

theorem witTris_inRange : TrisInRange witVerts.length witTris := by
  intro t ht
  simp only [witTris, List.mem_cons, List.not_mem_nil, or_false] at ht
  rcases ht with rfl | rfl <;> simp [witVerts]

/-- both faces of the two-face mesh are reported (query radius 10 given explicitly) -/
theorem wit_mesh_reported : 0 ∈ getIntersectingTriangles id (some 10) (3 / 2) (1 / 1000000) witVerts witTris ∧
    1 ∈ getIntersectingTriangles id (some 10) (3 / 2) (1 / 1000000) witVerts witTris := by
  have hf : gatherFacets (witVerts.map (V3.map id)) witTris = [witT, (witS0, witS1, ⟨5, 5, 0⟩)] := by
    rw [verts_map_id]; rfl
  have hhit : edgesHit id (1 / 1000000) (witS0, witS1, (⟨5, 5, 0⟩ : V3 ℝ)) witT = true := by
    simp only [edgesHit, wit_segFacet, if_true]
    simp
  have hw : withinBall (10 : ℝ) (facetCentre id witT) (facetCentre id (witS0, witS1, (⟨5, 5, 0⟩ : V3 ℝ))) = true := by
    simp [withinBall, facetCentre, witT, witS0, witS1, n]; norm_num
  simp only [getIntersectingTriangles, hf, intersectingFacets, mem_intersectingCore, Flagged]
  refine ⟨⟨by simp, 1, 0, by simp, by simp, ?_, by simp, ?_, Or.inr rfl⟩, ⟨by simp, 1, 0, by simp, by simp, ?_, by simp, ?_, Or.inl rfl⟩⟩
  all_goals first | exact hw | exact hhit

end MagpyVerif.Kern
