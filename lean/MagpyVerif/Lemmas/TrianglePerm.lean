/-
Lemmas/TrianglePerm.lean — C16: the Triangle kernel (`triangle_Bfield`, Model/Kernels.lean `triangleB`) under a relabelling of its
three vertices, over the real carrier: a cyclic rotation leaves the field unchanged, the exchange of two vertices negates it
(the normal, hence the surface charge `σ = n·J`, changes sign; the solid angle changes sign; every edge integral is the same for
the edge run backwards) — EXCEPT for an observer within the `on_edge` tolerance of an edge, where the code replaces the
divergent edge integral by `log(-a/c)/l`, which changes sign with the direction of the edge.
-/
import MagpyVerif.Lemmas.KernAlgebra
import Mathlib.Analysis.Real.Pi.Bounds
namespace MagpyVerif.Kern
open MagpyVerif

/-! ### solid angle -/

theorem solidAngleS_neg (N D : ℝ) : solidAngleS (-N) D = -solidAngleS N D := by
  have hc : (⟨D, -N⟩ : ℂ) = (starRingEnd ℂ) ⟨D, N⟩ := by
    apply Complex.ext <;> simp
  unfold solidAngleS
  rw [hc, Complex.arg_conj]
  by_cases h : Complex.arg ⟨D, N⟩ = Real.pi
  · have h2 : (62831853 : ℝ) / 10000000 < |2 * Real.pi| := by
      rw [abs_of_pos (by positivity)]
      have := Real.pi_gt_d6
      norm_num at this ⊢
      nlinarith [Real.pi_gt_d20]
    simp only [h, if_true, h2, neg_zero]
  · simp only [h, if_false, mul_neg, abs_neg]
    split_ifs <;> simp

theorem solidAngle_cyclic (R0 R1 R2 : V3 ℝ) (r0 r1 r2 : ℝ) :
    solidAngle R1 R2 R0 r1 r2 r0 = solidAngle R0 R1 R2 r0 r1 r2 := by
  rw [solidAngle_eq mu0R, solidAngle_eq mu0R]
  congr 1 <;> simp [V3.dot, V3.cross] <;> ring

theorem solidAngle_flip (R0 R1 R2 : V3 ℝ) (r0 r1 r2 : ℝ) :
    solidAngle R0 R2 R1 r0 r2 r1 = -solidAngle R0 R1 R2 r0 r1 r2 := by
  rw [solidAngle_eq mu0R, solidAngle_eq mu0R, ← solidAngleS_neg]
  congr 1 <;> simp [V3.dot, V3.cross] <;> ring

/-! ### the edge integral for the edge run backwards -/

theorem triEdgeOn_reverse (rr nn ll rl X : ℝ) :
    triEdgeOn nn rr ll (-(rl + ll)) (-rl) X X ↔ triEdgeOn rr nn ll rl (rl + ll) X X := by
  simp only [triEdgeOn, ite_self, neg_div, Left.neg_neg_iff, Left.neg_pos_iff]
  tauto

theorem triEdgeS_reverse (rr nn ll rl X : ℝ) (hll : 0 < ll) (hnn : nn = rr + 2 * rl + ll) (hX : X = rr * ll - rl ^ 2)
    (hoff : ¬ triEdgeOn rr nn ll rl (rl + ll) X X) :
    triEdgeS nn rr ll (-(rl + ll)) (-rl) X X = triEdgeS rr nn ll rl (rl + ll) X X := by
  rw [triEdgeS_off _ _ _ _ _ _ _ hoff, triEdgeS_off _ _ _ _ _ _ _ (fun h => hoff ((triEdgeOn_reverse rr nn ll rl X).mp h))]
  have hs : 0 < √ll := Real.sqrt_pos.mpr hll
  have hss : √ll * √ll = ll := Real.mul_self_sqrt hll.le
  have hc : (rl + ll) / √ll = rl / √ll + √ll := by
    field_simp
    nlinarith
  simp only [ite_self, neg_div]
  set a := rl / √ll with ha
  have hrl : rl = a * √ll := by rw [ha]; field_simp
  rw [hc]
  congr 2
  rcases lt_trichotomy a 0 with h | h | h
  · rcases lt_trichotomy (a + √ll) 0 with h' | h' | h'
    · have e1 : (0 : ℝ) ≤ -(a + √ll) := by linarith
      have e2 : ¬ (0 : ℝ) ≤ a := by linarith
      simp only [e1, e2, h', if_true, if_false, sub_eq_add_neg]
    · have e2 : ¬ (0 : ℝ) ≤ a := by linarith
      have e3 : ¬ a + √ll < 0 := by linarith
      have hXn : X / ll = nn := by
        rw [hX, hnn, div_eq_iff hll.ne']
        have : rl = -ll := by
          have : a = -√ll := by linarith
          rw [hrl, this]; nlinarith
        rw [this]; ring
      simp only [h', neg_zero, le_refl, if_true, e2, if_false, lt_irrefl, hXn, add_zero, sub_zero]
      rcases eq_or_lt_of_le (Real.sqrt_nonneg nn) with h0 | h0
      · rw [← h0]
        have : nn = 0 ∨ nn < 0 := by
          rcases lt_trichotomy nn 0 with q | q | q
          · exact Or.inr q
          · exact Or.inl q
          · exact absurd (Real.sqrt_pos.mpr q) (by rw [← h0]; exact lt_irrefl _)
        simp
      · have hnnpos : 0 < nn := Real.sqrt_pos.mp h0
        have hq : √nn * √nn = nn := Real.mul_self_sqrt hnnpos.le
        rw [div_eq_div_iff h0.ne' hnnpos.ne']
        linear_combination (-(√rr - a)) * hq
    · have e1 : ¬ (0 : ℝ) ≤ -(a + √ll) := by linarith
      have e2 : ¬ (0 : ℝ) ≤ a := by linarith
      have e3 : ¬ a + √ll < 0 := by linarith
      have e4 : ¬ -a < 0 := by linarith
      simp only [e1, e2, e3, e4, if_false]
      ring
  · have e1 : ¬ (0 : ℝ) ≤ -√ll := by linarith
    have hXr : X / ll = rr := by
      rw [hX, div_eq_iff hll.ne', hrl, h]; ring
    simp only [h, e1, lt_irrefl, if_false, le_refl, if_true, hXr, neg_zero, add_zero, sub_zero, zero_add, sub_neg_eq_add]
    rcases eq_or_lt_of_le (Real.sqrt_nonneg rr) with h0 | h0
    · rw [← h0]
      have : rr = 0 ∨ rr < 0 := by
        rcases lt_trichotomy rr 0 with q | q | q
        · exact Or.inr q
        · exact Or.inl q
        · exact absurd (Real.sqrt_pos.mpr q) (by rw [← h0]; exact lt_irrefl _)
      simp
    · have hrrpos : 0 < rr := Real.sqrt_pos.mp h0
      have hq : √rr * √rr = rr := Real.mul_self_sqrt hrrpos.le
      rw [div_eq_div_iff hrrpos.ne' h0.ne']
      linear_combination (√nn + √ll) * hq
  · have e1 : ¬ (0 : ℝ) ≤ -(a + √ll) := by linarith
    have e2 : (0 : ℝ) ≤ a := by linarith
    have e4 : -a < 0 := by linarith
    simp only [e1, e2, e4, if_true, if_false, sub_neg_eq_add]

/-- on the edge itself (the `on_edge` branch) the substitute value changes sign with the direction of the edge -/
theorem triEdgeS_reverse_on (rr nn ll rl X : ℝ) (hon : triEdgeOn rr nn ll rl (rl + ll) X X) :
    triEdgeS nn rr ll (-(rl + ll)) (-rl) X X = -triEdgeS rr nn ll rl (rl + ll) X X := by
  rw [triEdgeS_on _ _ _ _ _ _ _ hon, triEdgeS_on _ _ _ _ _ _ _ ((triEdgeOn_reverse rr nn ll rl X).mpr hon)]
  have key : ∀ x y : ℝ, Real.log (y / x) = -Real.log (x / y) := fun x y => by rw [← Real.log_inv, inv_div]
  have e : -(-(rl + ll) / √ll) / (-rl / √ll) = ((rl + ll) / √ll) / (-(rl / √ll)) := by simp only [neg_div, neg_neg]
  rw [e, key (-(rl / √ll)) ((rl + ll) / √ll), neg_div]

/-- the `on_edge` test of `triangle_Bfield` for the edge from `R` to `Rn` (both relative to the observer) -/
def TriEdgeOnV (R Rn L : V3 ℝ) : Prop :=
  triEdgeOn (V3.dot R R) (V3.dot Rn Rn) (V3.dot L L) (V3.dot R L) (V3.dot Rn L)
    (V3.dot (V3.cross R L) (V3.cross R L)) (V3.dot (V3.cross Rn L) (V3.cross Rn L))

private theorem edge_scalars (R L : V3 ℝ) :
    V3.dot (R + L) (R + L) = V3.dot R R + 2 * V3.dot R L + V3.dot L L ∧
    V3.dot (R + L) L = V3.dot R L + V3.dot L L ∧
    V3.dot (V3.cross (R + L) L) (V3.cross (R + L) L) = V3.dot (V3.cross R L) (V3.cross R L) ∧
    V3.dot (V3.cross R L) (V3.cross R L) = V3.dot R R * V3.dot L L - V3.dot R L ^ 2 := by
  refine ⟨?_, ?_, ?_, ?_⟩ <;> simp [V3.dot, V3.cross] <;> ring

private theorem edge_scalars_neg (R L : V3 ℝ) :
    V3.dot (-L) (-L) = V3.dot L L ∧ V3.dot (R + L) (-L) = -(V3.dot R L + V3.dot L L) ∧ V3.dot R (-L) = -V3.dot R L ∧
    V3.dot (V3.cross (R + L) (-L)) (V3.cross (R + L) (-L)) = V3.dot (V3.cross R L) (V3.cross R L) ∧
    V3.dot (V3.cross R (-L)) (V3.cross R (-L)) = V3.dot (V3.cross R L) (V3.cross R L) := by
  have hx : (-L).x = -L.x := rfl
  have hy : (-L).y = -L.y := rfl
  have hz : (-L).z = -L.z := rfl
  refine ⟨?_, ?_, ?_, ?_, ?_⟩ <;> simp [V3.dot, V3.cross, hx, hy, hz] <;> ring

/-- the edge integral of `triangle_Bfield` is the same for the edge run backwards (`Rn = R + L`, the edge has a length, the
observer is not within the `on_edge` tolerance of the edge) -/
theorem triEdgeI_reverse (R Rn L L' : V3 ℝ) (hRn : Rn = R + L) (hL' : L' = -L) (hL : 0 < V3.dot L L) (hoff : ¬ TriEdgeOnV R Rn L) :
    triEdgeI Rn R L' = triEdgeI R Rn L := by
  subst hRn hL'
  obtain ⟨a1, a2, a3, a4⟩ := edge_scalars R L
  obtain ⟨b1, b2, b3, b4, b5⟩ := edge_scalars_neg R L
  rw [triEdgeI_eq mu0R, triEdgeI_eq mu0R, b1, b2, b3, b4, b5, a1, a2, a3]
  unfold TriEdgeOnV at hoff
  rw [a1, a2, a3] at hoff
  exact triEdgeS_reverse _ _ _ _ _ hL rfl a4 hoff

/-- … and on the edge it changes sign -/
theorem triEdgeI_reverse_on (R Rn L L' : V3 ℝ) (hRn : Rn = R + L) (hL' : L' = -L) (hon : TriEdgeOnV R Rn L) :
    triEdgeI Rn R L' = -triEdgeI R Rn L := by
  subst hRn hL'
  obtain ⟨a1, a2, a3, a4⟩ := edge_scalars R L
  obtain ⟨b1, b2, b3, b4, b5⟩ := edge_scalars_neg R L
  rw [triEdgeI_eq mu0R, triEdgeI_eq mu0R, b1, b2, b3, b4, b5, a1, a2, a3]
  unfold TriEdgeOnV at hon
  rw [a1, a2, a3] at hon
  exact triEdgeS_reverse_on _ _ _ _ _ hon

/-! ### `triangle_Bfield` -/

theorem neg_x (a : V3 ℝ) : (-a).x = -a.x := rfl
theorem neg_y (a : V3 ℝ) : (-a).y = -a.y := rfl
theorem neg_z (a : V3 ℝ) : (-a).z = -a.z := rfl

theorem norm_neg_v (a : V3 ℝ) : Kern.norm (-a) = Kern.norm a := by
  simp only [Kern.norm, neg_x, neg_y, neg_z, neg_mul_neg]

theorem dot_self_pos_of_ne (a : V3 ℝ) (h : V3.dot a a ≠ 0) : 0 < V3.dot a a := by
  have : 0 ≤ V3.dot a a := by
    simp only [V3.dot]; nlinarith [mul_self_nonneg a.x, mul_self_nonneg a.y, mul_self_nonneg a.z]
  exact lt_of_le_of_ne this (Ne.symm h)

theorem eq_zero_of_dot_self (a : V3 ℝ) (h : V3.dot a a = 0) : a.x = 0 ∧ a.y = 0 ∧ a.z = 0 := by
  simp only [V3.dot] at h
  refine ⟨?_, ?_, ?_⟩ <;> nlinarith [mul_self_nonneg a.x, mul_self_nonneg a.y, mul_self_nonneg a.z]

/-- a triangle with area has three edges with a length -/
theorem edges_pos_of_area (a b : V3 ℝ) (h : Kern.norm (V3.cross a b) ≠ 0) :
    0 < V3.dot a a ∧ 0 < V3.dot b b ∧ 0 < V3.dot (b - a) (b - a) := by
  refine ⟨?_, ?_, ?_⟩ <;> apply dot_self_pos_of_ne <;> intro h0 <;> apply h
  · obtain ⟨x, y, z⟩ := eq_zero_of_dot_self _ h0
    simp [Kern.norm, V3.cross, x, y, z]
  · obtain ⟨x, y, z⟩ := eq_zero_of_dot_self _ h0
    simp [Kern.norm, V3.cross, x, y, z]
  · obtain ⟨x, y, z⟩ := eq_zero_of_dot_self _ h0
    simp only [V3.sub_x, V3.sub_y, V3.sub_z] at x y z
    have ex : b.x = a.x := by linarith
    have ey : b.y = a.y := by linarith
    have ez : b.z = a.z := by linarith
    simp only [Kern.norm, V3.cross, ex, ey, ez, sqrt_real]
    rw [show a.y * a.z - a.z * a.y = 0 by ring, show a.z * a.x - a.x * a.z = 0 by ring, show a.x * a.y - a.y * a.x = 0 by ring]
    simp

/-- `triangle_Bfield` does not depend on which vertex of the triangle is listed first -/
theorem triangleB_cyclic (v0 v1 v2 pol obs : V3 ℝ) : triangleB v1 v2 v0 pol obs = triangleB v0 v1 v2 pol obs := by
  have hn : V3.cross (v2 - v1) (v0 - v1) = V3.cross (v1 - v0) (v2 - v0) := by
    apply V3.ext' <;> simp [V3.cross] <;> ring
  have hrot : ∀ a b c : V3 ℝ, b + c + a = a + b + c := fun a b c => by
    apply V3.ext' <;> simp <;> ring
  simp only [triangleB, hn, solidAngle_cyclic (v0 - obs) (v1 - obs) (v2 - obs),
    hrot (vs (triEdgeI (v0 - obs) (v1 - obs) (v1 - v0)) (v1 - v0)) (vs (triEdgeI (v1 - obs) (v2 - obs) (v2 - v1)) (v2 - v1))
      (vs (triEdgeI (v2 - obs) (v0 - obs) (v0 - v2)) (v0 - v2))]

/-- the observer is not within the `on_edge` tolerance of any of the three edges -/
def TriOffEdges (v0 v1 v2 obs : V3 ℝ) : Prop :=
  ¬ TriEdgeOnV (v0 - obs) (v1 - obs) (v1 - v0) ∧ ¬ TriEdgeOnV (v1 - obs) (v2 - obs) (v2 - v1) ∧
    ¬ TriEdgeOnV (v2 - obs) (v0 - obs) (v0 - v2)

private theorem flip_algebra (nn v0 v1 v2 pol : V3 ℝ) (N sa I0 I1 I2 P F : ℝ) :
    vd (vd (vs (V3.dot (vd (-nn) N) pol) (vs (-sa) (vd (-nn) N) -
        V3.cross (vd (-nn) N) (vs I2 (v2 - v0) + vs I1 (v1 - v2) + vs I0 (v0 - v1)))) P) F =
    -(vd (vd (vs (V3.dot (vd nn N) pol) (vs sa (vd nn N) -
        V3.cross (vd nn N) (vs I0 (v1 - v0) + vs I1 (v2 - v1) + vs I2 (v0 - v2)))) P) F) := by
  apply V3.ext' <;> simp [vd, vs, V3.cross, V3.dot, neg_x, neg_y, neg_z] <;> ring

/-- `triangle_Bfield` changes sign when two vertices are exchanged (the winding is reversed), for every observer that is not
within the `on_edge` tolerance (1e-15 edge lengths) of an edge -/
theorem triangleB_flip (v0 v1 v2 pol obs : V3 ℝ) (hoff : TriOffEdges v0 v1 v2 obs) :
    triangleB v0 v2 v1 pol obs = -triangleB v0 v1 v2 pol obs := by
  have hn : V3.cross (v2 - v0) (v1 - v0) = -V3.cross (v1 - v0) (v2 - v0) := by
    apply V3.ext' <;> simp [V3.cross, neg_x, neg_y, neg_z] <;> ring
  have hz : (-(zero3 : V3 ℝ)) = zero3 := by
    apply V3.ext' <;> simp [zero3, n, neg_x, neg_y, neg_z]
  by_cases hA : Kern.norm (V3.cross (v1 - v0) (v2 - v0)) = 0
  · simp only [triangleB, hn, norm_neg_v, eq0_real, hA, decide_true, if_true, hz]
  · obtain ⟨p0, p2, p1⟩ := edges_pos_of_area _ _ hA
    have hI0 : triEdgeI (v1 - obs) (v0 - obs) (v0 - v1) = triEdgeI (v0 - obs) (v1 - obs) (v1 - v0) :=
      triEdgeI_reverse _ _ _ _ (by apply V3.ext' <;> simp) (by apply V3.ext' <;> simp [neg_x, neg_y, neg_z]) p0 hoff.1
    have hI1 : triEdgeI (v2 - obs) (v1 - obs) (v1 - v2) = triEdgeI (v1 - obs) (v2 - obs) (v2 - v1) := by
      refine triEdgeI_reverse _ _ _ _ (by apply V3.ext' <;> simp) (by apply V3.ext' <;> simp [neg_x, neg_y, neg_z]) ?_ hoff.2.1
      have : V3.dot (v2 - v1) (v2 - v1) = V3.dot (v2 - v0 - (v1 - v0)) (v2 - v0 - (v1 - v0)) := by
        simp [V3.dot]
      rw [this]; exact p1
    have hI2 : triEdgeI (v0 - obs) (v2 - obs) (v2 - v0) = triEdgeI (v2 - obs) (v0 - obs) (v0 - v2) := by
      refine triEdgeI_reverse _ _ _ _ (by apply V3.ext' <;> simp) (by apply V3.ext' <;> simp [neg_x, neg_y, neg_z]) ?_ hoff.2.2
      have : V3.dot (v0 - v2) (v0 - v2) = V3.dot (v2 - v0) (v2 - v0) := by
        simp [V3.dot]; ring
      rw [this]; exact p2
    simp only [triangleB, hn, norm_neg_v, eq0_real, hA, decide_false, Bool.false_eq_true, if_false, hI0, hI1, hI2,
      solidAngle_flip (v0 - obs) (v1 - obs) (v2 - obs)]
    exact flip_algebra _ _ _ _ _ _ _ _ _ _ _ _

end MagpyVerif.Kern
