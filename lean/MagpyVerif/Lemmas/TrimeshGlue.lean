/-
Lemmas/TrimeshGlue.lean — C13: gluing bodies that are sums of triangle sheets (TriangularMesh, Tetrahedron) along shared walls.

`sheetSum faces pol obs` is the model's `meshRowSheets` (what one row of `BHJM_magnet_trimesh` sums up before the inside term).
  * `sheetSum_perm`, `sheetSum_append`: the sum does not depend on the order of the faces and is additive over concatenation;
  * `TriFlipped t s`: `s` is `t` with two corners exchanged (any of the three transpositions); `triangleB_flipped`: its sheet
    is the negative, for every observer outside the `on_edge` tolerance of `t`'s edges (`triangleB_flip`, `triangleB_cyclic`);
  * `sheetSum_walls_cancel`: a list of walls and the list of their flipped copies sum to zero;
  * `sheetSum_glue`: (walls ++ rest of A) and (flipped walls ++ rest of B), in any order: rest A ++ rest B sums to A + B;
  * `wrapH_glue`, `wrapH_sum`: with the inside predicate the disjunction of the parts' predicates (at most one of them true)
    the wrapped fields B, H, J, M add;
  * Tetrahedron: `tetraFaces`, `tetra_is_wrapH_of_sheetSum`, `tetra_pair_disjoint`, `tetra_list_glue`.
-/
import MagpyVerif.Lemmas.TrianglePerm
import MagpyVerif.Lemmas.TrimeshSum
import Mathlib.Algebra.BigOperators.Group.List.Basic
import Mathlib.Data.List.Forall2

namespace MagpyVerif.Kern
open MagpyVerif

/-- the sum of the Triangle sheets of a face list: `meshRowSheets` of the row (faces, observer, polarization) -/
noncomputable def sheetSum (faces : List (Tri ℝ)) (pol obs : V3 ℝ) : V3 ℝ :=
  meshRowSheets ({ faces := faces, obs := obs, pol := pol } : MeshRow ℝ)

theorem sheetSum_def (faces : List (Tri ℝ)) (pol obs : V3 ℝ) :
    sheetSum faces pol obs = sum3 (faces.map fun t => triangleB t.1 t.2.1 t.2.2 pol obs) := rfl

/-! ### `sum3` over ℝ, componentwise -/

theorem foldl_add_v3 (l : List (V3 ℝ)) : ∀ a : V3 ℝ, l.foldl (· + ·) a =
    ⟨a.x + (l.map (·.x)).sum, a.y + (l.map (·.y)).sum, a.z + (l.map (·.z)).sum⟩ := by
  induction l with
  | nil => intro a; simp
  | cons b l ih =>
    intro a
    rw [List.foldl_cons, ih]
    apply V3.ext' <;> simp <;> ring

theorem sum3_eq (l : List (V3 ℝ)) : sum3 l = ⟨(l.map (·.x)).sum, (l.map (·.y)).sum, (l.map (·.z)).sum⟩ := by
  unfold sum3
  rw [foldl_add_v3]
  apply V3.ext' <;> simp [zero3, n]

theorem sum3_nil : sum3 ([] : List (V3 ℝ)) = zero3 := rfl

theorem sum3_cons (a : V3 ℝ) (l : List (V3 ℝ)) : sum3 (a :: l) = a + sum3 l := by
  rw [sum3_eq, sum3_eq]; apply V3.ext' <;> simp

theorem sum3_append (l1 l2 : List (V3 ℝ)) : sum3 (l1 ++ l2) = sum3 l1 + sum3 l2 := by
  rw [sum3_eq, sum3_eq, sum3_eq]; apply V3.ext' <;> simp

theorem sum3_perm {l1 l2 : List (V3 ℝ)} (h : l1.Perm l2) : sum3 l1 = sum3 l2 := by
  rw [sum3_eq, sum3_eq]
  apply V3.ext' <;> simp only <;> exact (h.map _).sum_eq

theorem zero3_add (a : V3 ℝ) : (zero3 : V3 ℝ) + a = a := by apply V3.ext' <;> simp [zero3, n]
theorem add_zero3' (a : V3 ℝ) : a + (zero3 : V3 ℝ) = a := by apply V3.ext' <;> simp [zero3, n]
theorem v3_add_assoc (a b c : V3 ℝ) : a + b + c = a + (b + c) := by apply V3.ext' <;> simp <;> ring
theorem v3_add_comm (a b : V3 ℝ) : a + b = b + a := by apply V3.ext' <;> simp <;> ring
theorem v3_add_neg (a : V3 ℝ) : a + -a = zero3 := by apply V3.ext' <;> simp [zero3, n, neg_x, neg_y, neg_z]

/-! ### the sheet sum of a face list -/

theorem sheetSum_nil (pol obs : V3 ℝ) : sheetSum [] pol obs = zero3 := rfl

theorem sheetSum_cons (t : Tri ℝ) (l : List (Tri ℝ)) (pol obs : V3 ℝ) :
    sheetSum (t :: l) pol obs = triangleB t.1 t.2.1 t.2.2 pol obs + sheetSum l pol obs := by
  rw [sheetSum_def, List.map_cons, sum3_cons]; rfl

/-- the order of the faces does not matter -/
theorem sheetSum_perm {A B : List (Tri ℝ)} (h : A.Perm B) (pol obs : V3 ℝ) : sheetSum A pol obs = sheetSum B pol obs := by
  rw [sheetSum_def, sheetSum_def]; exact sum3_perm (h.map _)

theorem sheetSum_append (A B : List (Tri ℝ)) (pol obs : V3 ℝ) :
    sheetSum (A ++ B) pol obs = sheetSum A pol obs + sheetSum B pol obs := by
  rw [sheetSum_def, sheetSum_def, sheetSum_def, List.map_append, sum3_append]

theorem sheetSum_flatMap {β : Type} (g : β → List (Tri ℝ)) (pol obs : V3 ℝ) (l : List β) :
    sheetSum (l.flatMap g) pol obs = sum3 (l.map fun b => sheetSum (g b) pol obs) := by
  induction l with
  | nil => rfl
  | cons b l ih => rw [List.flatMap_cons, sheetSum_append, ih, List.map_cons, sum3_cons]

/-! ### flipped triangles -/

/-- `s` is `t` with two corners exchanged (the winding reversed) -/
inductive TriFlipped : Tri ℝ → Tri ℝ → Prop
  | swap12 (a b c : V3 ℝ) : TriFlipped (a, b, c) (a, c, b)
  | swap01 (a b c : V3 ℝ) : TriFlipped (a, b, c) (b, a, c)
  | swap02 (a b c : V3 ℝ) : TriFlipped (a, b, c) (c, b, a)

/-- the observer is outside the `on_edge` tolerance of the three edges of `t` -/
def TriOff (t : Tri ℝ) (obs : V3 ℝ) : Prop := TriOffEdges t.1 t.2.1 t.2.2 obs

theorem triangleB_flipped {t s : Tri ℝ} (h : TriFlipped t s) (pol obs : V3 ℝ) (hoff : TriOff t obs) :
    triangleB s.1 s.2.1 s.2.2 pol obs = -triangleB t.1 t.2.1 t.2.2 pol obs := by
  cases h with
  | swap12 a b c => exact triangleB_flip a b c pol obs hoff
  | swap01 a b c =>
    show triangleB b a c pol obs = -triangleB a b c pol obs
    rw [triangleB_cyclic c b a pol obs, triangleB_cyclic a c b pol obs]
    exact triangleB_flip a b c pol obs hoff
  | swap02 a b c =>
    show triangleB c b a pol obs = -triangleB a b c pol obs
    rw [triangleB_cyclic a c b pol obs]
    exact triangleB_flip a b c pol obs hoff

/-- walls and their flipped copies cancel -/
theorem sheetSum_walls_cancel {W W' : List (Tri ℝ)} (hf : List.Forall₂ TriFlipped W W') (pol obs : V3 ℝ)
    (hoff : ∀ t ∈ W, TriOff t obs) : sheetSum W pol obs + sheetSum W' pol obs = zero3 := by
  induction hf with
  | nil => rw [sheetSum_nil, zero3_add]
  | @cons t s W W' hts _ ih =>
    rw [sheetSum_cons, sheetSum_cons, triangleB_flipped hts pol obs (hoff t (by simp))]
    have ih' := ih (fun u hu => hoff u (List.mem_cons_of_mem _ hu))
    have hx := congrArg V3.x ih'
    have hy := congrArg V3.y ih'
    have hz := congrArg V3.z ih'
    simp only [V3.add_x, V3.add_y, V3.add_z] at hx hy hz
    apply V3.ext' <;> simp only [V3.add_x, V3.add_y, V3.add_z, neg_x, neg_y, neg_z] <;> linarith

/-- **gluing**: `A` consists of the walls `W` and the rest `A'`, `B` of the flipped walls `W'` and the rest `B'` (in any order):
the mesh `A' ++ B'` without the internal walls has the sheet sum of `A` plus that of `B` -/
theorem sheetSum_glue {A B A' B' W W' : List (Tri ℝ)} (hA : A.Perm (W ++ A')) (hB : B.Perm (W' ++ B'))
    (hf : List.Forall₂ TriFlipped W W') (pol obs : V3 ℝ) (hoff : ∀ t ∈ W, TriOff t obs) :
    sheetSum (A' ++ B') pol obs = sheetSum A pol obs + sheetSum B pol obs := by
  rw [sheetSum_perm hA, sheetSum_perm hB, sheetSum_append, sheetSum_append, sheetSum_append]
  have hc := sheetSum_walls_cancel hf pol obs hoff
  have hx := congrArg V3.x hc
  have hy := congrArg V3.y hc
  have hz := congrArg V3.z hc
  simp only [V3.add_x, V3.add_y, V3.add_z, zero3, n, ofNat_real, Nat.cast_zero] at hx hy hz
  apply V3.ext' <;> simp only [V3.add_x, V3.add_y, V3.add_z] <;> linarith

/-- a boundary `Bd`, internal walls `W` and their flipped copies `W'`, in any order: only the boundary counts -/
theorem sheetSum_boundary {L Bd W W' : List (Tri ℝ)} (hL : L.Perm (Bd ++ (W ++ W'))) (hf : List.Forall₂ TriFlipped W W')
    (pol obs : V3 ℝ) (hoff : ∀ t ∈ W, TriOff t obs) : sheetSum L pol obs = sheetSum Bd pol obs := by
  rw [sheetSum_perm hL, sheetSum_append, sheetSum_append, sheetSum_walls_cancel hf pol obs hoff, add_zero3']

/-! ### the wrapped fields -/

/-- two parts of the same polarization, observer inside at most one of them: B, H, J, M of the union
(inside predicate = disjunction, core = sum of the cores) is the sum of the parts' fields -/
theorem wrapH_glue (f : Field) (insA insB : Bool) (hdisj : ¬ (insA = true ∧ insB = true)) (pol sA sB : V3 ℝ) :
    wrapH f (insA || insB) pol (sA + sB) = wrapH f insA pol sA + wrapH f insB pol sB := by
  cases insA <;> cases insB <;> first | exact absurd ⟨rfl, rfl⟩ hdisj | skip
  all_goals cases f <;> apply V3.ext' <;> simp [wrapH, vd, zero3, n] <;> ring

/-- … without the exclusion the theorem is false: an observer inside both parts gets J twice on the right -/
theorem wrapH_glue_needs_disjoint : wrapH .J (true || true) (⟨0, 0, 1⟩ : V3 ℝ) (zero3 + zero3) ≠
    wrapH .J true ⟨0, 0, 1⟩ zero3 + wrapH .J true ⟨0, 0, 1⟩ zero3 := by
  intro h
  have := congrArg V3.z h
  simp [wrapH] at this

theorem wrapH_zero (f : Field) (pol : V3 ℝ) : wrapH f false pol zero3 = zero3 := by
  cases f <;> apply V3.ext' <;> simp [wrapH, vd, zero3, n]

/-- any number of parts, the observer inside at most one of them -/
theorem wrapH_sum {β : Type} (f : Field) (pol : V3 ℝ) (ins : β → Bool) (core : β → V3 ℝ) (l : List β)
    (hdisj : l.Pairwise fun a b => ¬ (ins a = true ∧ ins b = true)) :
    sum3 (l.map fun b => wrapH f (ins b) pol (core b)) = wrapH f (l.any ins) pol (sum3 (l.map core)) := by
  induction l with
  | nil => simp only [List.map_nil, List.any_nil, sum3_nil, wrapH_zero]
  | cons a l ih =>
    obtain ⟨h1, h2⟩ := List.pairwise_cons.mp hdisj
    rw [List.map_cons, List.map_cons, sum3_cons, sum3_cons, List.any_cons, ih h2]
    refine (wrapH_glue f (ins a) (l.any ins) ?_ pol (core a) _).symm
    rintro ⟨ha, hl⟩
    obtain ⟨b, hb, hbi⟩ := List.any_eq_true.mp hl
    exact h1 b hb ⟨ha, hbi⟩

/-! ### Tetrahedron -/

/-- the four outward Triangle sheets `(0,2,1), (0,1,3), (1,2,3), (0,3,2)` of the chirality-fixed vertices, in the order in which
`BHJM_magnet_tetrahedron` adds them -/
noncomputable def tetraFaces (T : V3 ℝ × V3 ℝ × V3 ℝ × V3 ℝ) : List (Tri ℝ) :=
  let w := tetraChirality T.1 T.2.1 T.2.2.1 T.2.2.2
  [(w.1, w.2.2.1, w.2.1), (w.1, w.2.1, w.2.2.2), (w.2.1, w.2.2.1, w.2.2.2), (w.1, w.2.2.2, w.2.2.1)]

theorem sheetSum_tetraFaces (T : V3 ℝ × V3 ℝ × V3 ℝ × V3 ℝ) (pol x : V3 ℝ) :
    sheetSum (tetraFaces T) pol x = tetraSheets mu0R T.1 T.2.1 T.2.2.1 T.2.2.2 pol x := by
  simp only [tetraFaces, sheetSum_cons, sheetSum_nil, tetraSheets]
  apply V3.ext' <;> simp [zero3, n] <;> ring

/-- `BHJM_magnet_tetrahedron` = the `wrapH` dispatch of the sheet sum of its four faces -/
theorem tetra_is_wrapH_of_sheetSum (f : Field) (T : V3 ℝ × V3 ℝ × V3 ℝ × V3 ℝ) (pol x : V3 ℝ) :
    bhjmTetra f T.1 T.2.1 T.2.2.1 T.2.2.2 pol x =
      wrapH f (tetraInside T.1 T.2.1 T.2.2.1 T.2.2.2 x) pol (sheetSum (tetraFaces T) pol x) := by
  rw [sheetSum_tetraFaces]; exact tetra_wrapH' mu0R f _ _ _ _ pol x

/-- two tetrahedra over the same base `a b c` with apexes on opposite sides: an observer off the base plane is inside at most one -/
theorem tetra_pair_disjoint (a b c d e x : V3 ℝ) (hd : 0 < det3 (b - a) (c - a) (d - a)) (he : det3 (b - a) (c - a) (e - a) < 0)
    (hx : det3 (b - a) (c - a) (x - a) ≠ 0) : ¬ (tetraInside a b c d x = true ∧ tetraInside a b c e x = true) := by
  rintro ⟨h1, h2⟩
  simp only [tetraInside, Bool.and_eq_true, le_real, decide_eq_true_eq, n, ofNat_real, Nat.cast_zero] at h1 h2
  have p1 := h1.1.1.1.1.2
  have p2 := h2.1.1.1.1.2
  have q1 : 0 ≤ det3 (b - a) (c - a) (x - a) := by
    have := mul_nonneg p1 hd.le
    rwa [div_mul_cancel₀ _ hd.ne'] at this
  have q2 : det3 (b - a) (c - a) (x - a) ≤ 0 := by
    have := mul_nonpos_of_nonneg_of_nonpos p2 he.le
    rwa [div_mul_cancel₀ _ he.ne] at this
  exact hx (le_antisymm q2 q1)

/-- **any list of tetrahedra glued along full faces**: the faces of all of them are (in any order) a boundary `Bd`, walls `W` and
the flipped copies `W'` of the walls; the observer is inside at most one tetrahedron and outside the `on_edge` tolerance of the
walls' edges.  Then the fields of the tetrahedra (same polarization) add up to the `wrapH` dispatch of the boundary's sheet sum
with the disjunction of the inside tests: the field of the TriangularMesh `Bd` -/
theorem tetra_list_glue (f : Field) (Ts : List (V3 ℝ × V3 ℝ × V3 ℝ × V3 ℝ)) (Bd W W' : List (Tri ℝ)) (pol x : V3 ℝ)
    (hperm : (Ts.flatMap tetraFaces).Perm (Bd ++ (W ++ W'))) (hf : List.Forall₂ TriFlipped W W')
    (hoff : ∀ t ∈ W, TriOff t x)
    (hdisj : Ts.Pairwise fun S T => ¬ (tetraInside S.1 S.2.1 S.2.2.1 S.2.2.2 x = true ∧ tetraInside T.1 T.2.1 T.2.2.1 T.2.2.2 x = true)) :
    sum3 (Ts.map fun T => bhjmTetra f T.1 T.2.1 T.2.2.1 T.2.2.2 pol x) =
      wrapH f (Ts.any fun T => tetraInside T.1 T.2.1 T.2.2.1 T.2.2.2 x) pol (sheetSum Bd pol x) := by
  have h1 : (Ts.map fun T => bhjmTetra f T.1 T.2.1 T.2.2.1 T.2.2.2 pol x) =
      Ts.map fun T => wrapH f (tetraInside T.1 T.2.1 T.2.2.1 T.2.2.2 x) pol (sheetSum (tetraFaces T) pol x) :=
    List.map_congr_left fun T _ => tetra_is_wrapH_of_sheetSum f T pol x
  have h2 := wrapH_sum f pol (fun T : V3 ℝ × V3 ℝ × V3 ℝ × V3 ℝ => tetraInside T.1 T.2.1 T.2.2.1 T.2.2.2 x)
    (fun T => sheetSum (tetraFaces T) pol x) Ts hdisj
  have h3 : sum3 (Ts.map fun T => sheetSum (tetraFaces T) pol x) = sheetSum Bd pol x := by
    rw [← sheetSum_flatMap]; exact sheetSum_boundary hperm hf pol x hoff
  exact (congrArg sum3 h1).trans (h2.trans (congrArg (wrapH f _ pol) h3))

end MagpyVerif.Kern
