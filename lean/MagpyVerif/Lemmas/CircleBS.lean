/-
Lemmas/CircleBS.lean — the Circle kernel (`current_circle_Hfield`, model `circleHcyl`) and the
Biot–Savart integral of a circular current loop, off the axis.

Bulirsch's general complete elliptic integral
  cel(kc, p, a, b) = ∫₀^{π/2} (a cos²φ + b sin²φ) / ((cos²φ + p sin²φ) √(cos²φ + kc² sin²φ)) dφ
is `celIntegral`.  Proved here, in Mathlib's `intervalIntegral`, with no elliptic-integral theory:
* the vector Biot–Savart integrand of the loop (`loopIntegrand_eq`) and its two cylindrical
  components as integrals over the loop angle;
* the substitution φ = π − 2θ plus the symmetry φ ↦ 2π − φ (`integral_cos_two_pi`);
* the integration by parts that trades the `Δ³` denominator (p = kc²) for the `Δ` denominator
  (p = 1) the kernel uses (`celIntegral_one_eq_cube`);
* the entry state of the cel loop after the prologue of `cel0` (`celEntry`, tied to the model's
  `cel0`), and which `cel(kc, p, a, b)` the two `cel_iter` calls of the Circle kernel stand for;
* the exact identity  kernel value = κ·(Biot–Savart integral) + prefactor·(cel iteration value −
  cel integral)  for both components, κ = 795774.7154594767·4π·1e-7.
-/
import Mathlib.Analysis.SpecialFunctions.Integrals.Basic
import Mathlib.Analysis.SpecialFunctions.Sqrt
import Mathlib.Analysis.Real.Pi.Bounds
import Mathlib.MeasureTheory.Integral.IntervalIntegral.Periodic
import MagpyVerif.Lemmas.KernReal
import MagpyVerif.Lemmas.CelAGM

namespace MagpyVerif.CircleBS
open MagpyVerif MagpyVerif.Kern Real intervalIntegral

/-! ### Bulirsch's `cel` as an interval integral -/

/-- integrand of Bulirsch's general complete elliptic integral -/
noncomputable def celIntegrand (kc p a b φ : ℝ) : ℝ :=
  (a * cos φ ^ 2 + b * sin φ ^ 2) /
    ((cos φ ^ 2 + p * sin φ ^ 2) * √(cos φ ^ 2 + kc ^ 2 * sin φ ^ 2))

/-- `cel(kc, p, a, b) = ∫₀^{π/2} (a cos²φ + b sin²φ) / ((cos²φ + p sin²φ) √(cos²φ + kc² sin²φ)) dφ` -/
noncomputable def celIntegral (kc p a b : ℝ) : ℝ :=
  ∫ φ in (0:ℝ)..(π / 2), celIntegrand kc p a b φ

theorem delta_pos {p : ℝ} (hp : 0 < p) (φ : ℝ) : 0 < cos φ ^ 2 + p * sin φ ^ 2 := by
  have h := sin_sq_add_cos_sq φ
  rcases le_total p 1 with h1 | h1
  · nlinarith [sq_nonneg (cos φ), sq_nonneg (sin φ)]
  · nlinarith [sq_nonneg (cos φ), sq_nonneg (sin φ)]

theorem celIntegrand_continuous {kc p : ℝ} (hkc : kc ≠ 0) (hp : 0 < p) (a b : ℝ) :
    Continuous (celIntegrand kc p a b) := by
  unfold celIntegrand
  have hk : 0 < kc ^ 2 := by positivity
  apply Continuous.div (by fun_prop) (by fun_prop)
  intro φ
  exact (mul_pos (delta_pos hp φ) (Real.sqrt_pos.2 (delta_pos hk φ))).ne'

theorem celIntegrand_intervalIntegrable {kc p : ℝ} (hkc : kc ≠ 0) (hp : 0 < p) (a b x y : ℝ) :
    IntervalIntegrable (celIntegrand kc p a b) MeasureTheory.volume x y :=
  (celIntegrand_continuous hkc hp a b).intervalIntegrable _ _

/-- `cel` is linear in `(a, b)`: scaling -/
theorem celIntegral_smul (kc p a b c : ℝ) :
    celIntegral kc p (c * a) (c * b) = c * celIntegral kc p a b := by
  unfold celIntegral
  rw [← intervalIntegral.integral_const_mul]
  congr 1; funext φ
  unfold celIntegrand
  ring

/-- the boundary term of the integration by parts: `sin θ cos θ / Δ(θ)` -/
theorem hasDerivAt_sincos_div_delta {k : ℝ} (hk : k ≠ 0) (θ : ℝ) :
    HasDerivAt (fun θ => sin θ * cos θ / √(cos θ ^ 2 + k ^ 2 * sin θ ^ 2))
      ((cos θ ^ 4 - k ^ 2 * sin θ ^ 4) /
        ((cos θ ^ 2 + k ^ 2 * sin θ ^ 2) * √(cos θ ^ 2 + k ^ 2 * sin θ ^ 2))) θ := by
  have hk2 : 0 < k ^ 2 := by positivity
  have hu : 0 < cos θ ^ 2 + k ^ 2 * sin θ ^ 2 := delta_pos hk2 θ
  have hsu : 0 < √(cos θ ^ 2 + k ^ 2 * sin θ ^ 2) := Real.sqrt_pos.2 hu
  have hss := Real.mul_self_sqrt hu.le
  have hnum : HasDerivAt (fun θ => sin θ * cos θ) (cos θ * cos θ + sin θ * (-sin θ)) θ :=
    (hasDerivAt_sin θ).mul (hasDerivAt_cos θ)
  have hU : HasDerivAt (fun θ => cos θ ^ 2 + k ^ 2 * sin θ ^ 2)
      (2 * cos θ ^ 1 * (-sin θ) + k ^ 2 * (2 * sin θ ^ 1 * cos θ)) θ :=
    ((hasDerivAt_cos θ).pow 2).add (((hasDerivAt_sin θ).pow 2).const_mul (k ^ 2))
  have hS := hU.sqrt hu.ne'
  have hq := hnum.div hS hsu.ne'
  refine hq.congr_deriv ?_
  set s := √(cos θ ^ 2 + k ^ 2 * sin θ ^ 2) with hs
  have hu' : cos θ ^ 2 + k ^ 2 * sin θ ^ 2 = s * s := hss.symm
  rw [hu']
  field_simp
  have e : s ^ 2 = cos θ ^ 2 + k ^ 2 * sin θ ^ 2 := by rw [hu']; ring
  have hsc : sin θ ^ 2 = 1 - cos θ ^ 2 := by linarith [sin_sq_add_cos_sq θ]
  have e4 : s ^ 4 = (cos θ ^ 2 + k ^ 2 * sin θ ^ 2) ^ 2 := by rw [← e]; ring
  nlinarith [e, hsc, e4]

/-- pointwise form of the integration by parts: the `p = 1` integrand minus the `p = kc²`
integrand with exchanged weights is `(a − b)` times the derivative of `sin θ cos θ / Δ` -/
theorem celIntegrand_one_sub_cube {k : ℝ} (hk : k ≠ 0) (a b θ : ℝ) :
    celIntegrand k 1 a b θ - celIntegrand k (k ^ 2) b (a * k ^ 2) θ =
      (a - b) * ((cos θ ^ 4 - k ^ 2 * sin θ ^ 4) /
        ((cos θ ^ 2 + k ^ 2 * sin θ ^ 2) * √(cos θ ^ 2 + k ^ 2 * sin θ ^ 2))) := by
  have hk2 : 0 < k ^ 2 := by positivity
  have hu : 0 < cos θ ^ 2 + k ^ 2 * sin θ ^ 2 := delta_pos hk2 θ
  have hsu : 0 < √(cos θ ^ 2 + k ^ 2 * sin θ ^ 2) := Real.sqrt_pos.2 hu
  have key : ∀ C S u s : ℝ, S = 1 - C → u = C + k ^ 2 * S → u ≠ 0 → s ≠ 0 →
      (a * C + b * S) / ((C + 1 * S) * s) - (b * C + a * k ^ 2 * S) / (u * s) =
        (a - b) * ((C ^ 2 - k ^ 2 * S ^ 2) / (u * s)) := by
    intro C S u s hS hU hu hs
    rw [show C + 1 * S = 1 by rw [hS]; ring, one_mul]
    field_simp
    rw [hU, hS]
    ring
  have hsc : sin θ ^ 2 = 1 - cos θ ^ 2 := by linarith [sin_sq_add_cos_sq θ]
  unfold celIntegrand
  rw [show cos θ ^ 4 = (cos θ ^ 2) ^ 2 by ring, show sin θ ^ 4 = (sin θ ^ 2) ^ 2 by ring]
  exact key _ _ _ _ hsc rfl hu.ne' hsu.ne'

/-- **integration by parts**: `cel(kc, 1, a, b) = cel(kc, kc², b, a·kc²)` — the form with
denominator `Δ` (which the Circle kernel evaluates) equals the form with denominator `Δ³` (which
the Biot–Savart integral produces) -/
theorem celIntegral_one_eq_cube {k : ℝ} (hk : k ≠ 0) (a b : ℝ) :
    celIntegral k 1 a b = celIntegral k (k ^ 2) b (a * k ^ 2) := by
  have hk2 : 0 < k ^ 2 := by positivity
  rw [← sub_eq_zero]
  unfold celIntegral
  rw [← intervalIntegral.integral_sub (celIntegrand_intervalIntegrable hk one_pos _ _ _ _)
    (celIntegrand_intervalIntegrable hk hk2 _ _ _ _)]
  simp only [celIntegrand_one_sub_cube hk]
  rw [intervalIntegral.integral_const_mul]
  have hcont : Continuous fun θ => (cos θ ^ 4 - k ^ 2 * sin θ ^ 4) /
      ((cos θ ^ 2 + k ^ 2 * sin θ ^ 2) * √(cos θ ^ 2 + k ^ 2 * sin θ ^ 2)) := by
    apply Continuous.div (by fun_prop) (by fun_prop)
    intro φ
    exact (mul_pos (delta_pos hk2 φ) (Real.sqrt_pos.2 (delta_pos hk2 φ))).ne'
  rw [integral_eq_sub_of_hasDerivAt (fun θ _ => hasDerivAt_sincos_div_delta hk θ)
    (hcont.intervalIntegrable _ _)]
  simp

/-! ### the substitution φ = π − 2θ and the symmetry φ ↦ 2π − φ -/

theorem cos_pi_sub_two_mul (θ : ℝ) : cos (π - 2 * θ) = sin θ ^ 2 - cos θ ^ 2 := by
  rw [Real.cos_pi_sub, Real.cos_two_mul]
  linarith [sin_sq_add_cos_sq θ]

/-- an integral over the full loop angle of a function of `cos φ` is four times the integral over
`θ ∈ [0, π/2]` with `cos φ = sin²θ − cos²θ` (φ = π − 2θ, and the half φ ∈ [π, 2π] mirrors
φ ∈ [0, π]) -/
theorem integral_cos_two_pi (F : ℝ → ℝ) (hF : Continuous fun φ => F (cos φ)) :
    ∫ φ in (0:ℝ)..(2 * π), F (cos φ) = 4 * ∫ θ in (0:ℝ)..(π / 2), F (sin θ ^ 2 - cos θ ^ 2) := by
  have hsplit : (∫ φ in (0:ℝ)..(2 * π), F (cos φ)) =
      (∫ φ in (0:ℝ)..π, F (cos φ)) + ∫ φ in π..(2 * π), F (cos φ) :=
    (integral_add_adjacent_intervals (hF.intervalIntegrable _ _) (hF.intervalIntegrable _ _)).symm
  have hmirror : (∫ φ in π..(2 * π), F (cos φ)) = ∫ φ in (0:ℝ)..π, F (cos φ) := by
    have := intervalIntegral.integral_comp_sub_left (fun x => F (cos x)) (2 * π) (a := 0) (b := π)
    simp only [Real.cos_two_pi_sub] at this
    rw [this]
    congr 1 <;> ring
  have hsub : (∫ θ in (0:ℝ)..(π / 2), F (sin θ ^ 2 - cos θ ^ 2)) =
      2⁻¹ * ∫ φ in (0:ℝ)..π, F (cos φ) := by
    have := intervalIntegral.integral_comp_sub_mul (fun x => F (cos x)) (two_ne_zero' ℝ) π
      (a := 0) (b := π / 2)
    simp only [cos_pi_sub_two_mul, smul_eq_mul] at this
    rw [this]
    congr 2 <;> ring
  rw [hsplit, hmirror, hsub]
  ring

/-! ### the Biot–Savart integrand of the loop -/

/-- the Biot–Savart integrand `dl × d / |d|³` of a circular loop of radius `r0` in the plane z = 0 at
loop angle `φ`, for an observer at `(r, 0, z)` (cylinder coordinates `(r, z)`, azimuth 0):
`dl = r0 (−sin φ, cos φ, 0) dφ`, `d = (r, 0, z) − r0 (cos φ, sin φ, 0)` -/
noncomputable def loopIntegrand (r0 r z φ : ℝ) : V3 ℝ :=
  let dl : V3 ℝ := ⟨r0 * (-sin φ), r0 * cos φ, 0⟩
  let d : V3 ℝ := ⟨r - r0 * cos φ, 0 - r0 * sin φ, z - 0⟩
  vd (V3.cross dl d) (Kern.norm d ^ 3)

/-- squared distance observer – loop point -/
noncomputable def loopDist2 (r0 r z φ : ℝ) : ℝ := r0 * r0 + r * r + z * z - 2 * r0 * r * cos φ

theorem loopIntegrand_eq (r0 r z φ : ℝ) :
    loopIntegrand r0 r z φ =
      vd ⟨r0 * z * cos φ, r0 * z * sin φ, r0 * (r0 - r * cos φ)⟩ (√(loopDist2 r0 r z φ) ^ 3) := by
  have hsc := sin_sq_add_cos_sq φ
  unfold loopIntegrand loopDist2
  have hn : Kern.norm (⟨r - r0 * cos φ, 0 - r0 * sin φ, z - 0⟩ : V3 ℝ) =
      √(r0 * r0 + r * r + z * z - 2 * r0 * r * cos φ) := by
    simp only [Kern.norm, sqrt_real]
    congr 1
    nlinarith [hsc]
  simp only [hn]
  congr 1
  apply V3.ext' <;> simp only [V3.cross] <;> nlinarith [hsc]

/-- off the wire the distance to every loop point is positive -/
theorem loopDist2_pos {r0 r z : ℝ} (hr0 : 0 < r0) (hr : 0 < r) (hwire : ¬ (z = 0 ∧ r = r0)) (φ : ℝ) :
    0 < loopDist2 r0 r z φ := by
  unfold loopDist2
  have hc : cos φ ≤ 1 := cos_le_one φ
  have h1 : 0 < (r - r0) * (r - r0) + z * z := by
    by_cases hz : z = 0
    · have : r - r0 ≠ 0 := fun h => hwire ⟨hz, by linarith⟩
      nlinarith [mul_self_pos.mpr this, mul_self_nonneg z]
    · nlinarith [mul_self_pos.mpr hz, mul_self_nonneg (r - r0)]
  nlinarith [mul_pos hr0 hr]

/-- continuity in the loop angle of the scalar integrands `(α + β cos φ) / |d|³` -/
theorem loop_scalar_continuous {r0 r z : ℝ} (hr0 : 0 < r0) (hr : 0 < r)
    (hwire : ¬ (z = 0 ∧ r = r0)) (α β : ℝ) :
    Continuous fun φ => (α + β * cos φ) / √(loopDist2 r0 r z φ) ^ 3 := by
  apply Continuous.div (by fun_prop) (by unfold loopDist2; fun_prop)
  intro φ
  exact (pow_pos (Real.sqrt_pos.2 (loopDist2_pos hr0 hr hwire φ)) 3).ne'

/-- **the Biot–Savart loop integrals in cylinder coordinates**: the x-component (= radial, the observer
has azimuth 0) and the z-component of `∮ dl × d / |d|³` are the classical one-dimensional integrals,
and the y-component (= azimuthal) vanishes -/
theorem circle_loop_integrals (r0 r z : ℝ) :
    (∫ φ in (0:ℝ)..(2 * π), (loopIntegrand r0 r z φ).x) =
        ∫ φ in (0:ℝ)..(2 * π), r0 * z * cos φ / √(r0 * r0 + r * r + z * z - 2 * r0 * r * cos φ) ^ 3 ∧
    (∫ φ in (0:ℝ)..(2 * π), (loopIntegrand r0 r z φ).z) =
        ∫ φ in (0:ℝ)..(2 * π),
          r0 * (r0 - r * cos φ) / √(r0 * r0 + r * r + z * z - 2 * r0 * r * cos φ) ^ 3 ∧
    (∫ φ in (0:ℝ)..(2 * π), (loopIntegrand r0 r z φ).y) = 0 := by
  refine ⟨?_, ?_, ?_⟩
  · simp only [loopIntegrand_eq, vd, loopDist2]
  · simp only [loopIntegrand_eq, vd, loopDist2]
  · simp only [loopIntegrand_eq, vd, loopDist2]
    have h := intervalIntegral.integral_comp_sub_left
      (fun φ => r0 * z * sin φ / √(r0 * r0 + r * r + z * z - 2 * r0 * r * cos φ) ^ 3) (2 * π)
      (a := 0) (b := 2 * π)
    simp only [Real.cos_two_pi_sub, Real.sin_two_pi_sub, sub_self, sub_zero, mul_neg, neg_div,
      intervalIntegral.integral_neg] at h
    linarith

/-! ### the loop integrals as `cel` -/

/-- `E − 2 r0 r cos φ` at `cos φ = sin²θ − cos²θ` is `X0 (cos²θ + q2 sin²θ)`,
`X0 = (r + r0)² + z²`, `q2 = ((r − r0)² + z²) / X0` -/
theorem loop_cube_form {r0 r z : ℝ} (hX : 0 < (r + r0) * (r + r0) + z * z)
    (hY : 0 < (r - r0) * (r - r0) + z * z) (α β θ : ℝ) :
    (α + β * (sin θ ^ 2 - cos θ ^ 2)) /
        √(r0 * r0 + r * r + z * z - 2 * r0 * r * (sin θ ^ 2 - cos θ ^ 2)) ^ 3 =
      1 / (((r + r0) * (r + r0) + z * z) * √((r + r0) * (r + r0) + z * z)) *
        celIntegrand (√(((r - r0) * (r - r0) + z * z) / ((r + r0) * (r + r0) + z * z)))
          (((r - r0) * (r - r0) + z * z) / ((r + r0) * (r + r0) + z * z)) (α - β) (α + β) θ := by
  set X := (r + r0) * (r + r0) + z * z with hXdef
  set Y := (r - r0) * (r - r0) + z * z with hYdef
  have hq2 : 0 < Y / X := div_pos hY hX
  have hsc := sin_sq_add_cos_sq θ
  unfold celIntegrand
  rw [Real.sq_sqrt hq2.le]
  set u := cos θ ^ 2 + Y / X * sin θ ^ 2 with hu
  have hupos : 0 < u := delta_pos hq2 θ
  have hD : r0 * r0 + r * r + z * z - 2 * r0 * r * (sin θ ^ 2 - cos θ ^ 2) = X * u := by
    rw [hu, mul_add, ← mul_assoc, mul_div_cancel₀ _ hX.ne', hXdef, hYdef]
    nlinarith [hsc]
  rw [hD, Real.sqrt_mul hX.le]
  have hsX : 0 < √X := Real.sqrt_pos.2 hX
  have hsu : 0 < √u := Real.sqrt_pos.2 hupos
  have e1 : (√X * √u) ^ 3 = (X * √X) * (u * √u) := by
    have a1 := Real.mul_self_sqrt hX.le
    have a2 := Real.mul_self_sqrt hupos.le
    calc (√X * √u) ^ 3 = ((√X * √X) * √X) * ((√u * √u) * √u) := by ring
      _ = _ := by rw [a1, a2]
  rw [e1]
  have hnum : α + β * (sin θ ^ 2 - cos θ ^ 2) = (α - β) * cos θ ^ 2 + (α + β) * sin θ ^ 2 := by
    rw [show sin θ ^ 2 = 1 - cos θ ^ 2 by linarith]; ring
  rw [hnum]
  field_simp

/-- a full-loop integral `∫₀^{2π} (α + β cos φ) / |d|³ dφ` is `4 / X0^{3/2}` times a `cel` with
`p = 1`: `cel(q, 1, (α + β)/q2, α − β)` -/
theorem loop_integral_as_cel {r0 r z : ℝ} (hr0 : 0 < r0) (hr : 0 < r) (hwire : ¬ (z = 0 ∧ r = r0))
    (α β : ℝ) :
    (∫ φ in (0:ℝ)..(2 * π), (α + β * cos φ) / √(loopDist2 r0 r z φ) ^ 3) =
      4 / (((r + r0) * (r + r0) + z * z) * √((r + r0) * (r + r0) + z * z)) *
        celIntegral (√(((r - r0) * (r - r0) + z * z) / ((r + r0) * (r + r0) + z * z))) 1
          ((α + β) / (((r - r0) * (r - r0) + z * z) / ((r + r0) * (r + r0) + z * z))) (α - β) := by
  have hX : 0 < (r + r0) * (r + r0) + z * z := by nlinarith [mul_self_nonneg z, mul_pos hr0 hr]
  have hY : 0 < (r - r0) * (r - r0) + z * z := by
    by_cases hz : z = 0
    · have : r - r0 ≠ 0 := fun h => hwire ⟨hz, by linarith⟩
      nlinarith [mul_self_pos.mpr this, mul_self_nonneg z]
    · nlinarith [mul_self_pos.mpr hz, mul_self_nonneg (r - r0)]
  have hq2 : 0 < ((r - r0) * (r - r0) + z * z) / ((r + r0) * (r + r0) + z * z) := div_pos hY hX
  have hq : √(((r - r0) * (r - r0) + z * z) / ((r + r0) * (r + r0) + z * z)) ≠ 0 :=
    (Real.sqrt_pos.2 hq2).ne'
  have h1 := integral_cos_two_pi
    (fun c => (α + β * c) / √(r0 * r0 + r * r + z * z - 2 * r0 * r * c) ^ 3)
    (by simpa [loopDist2] using loop_scalar_continuous hr0 hr hwire α β)
  simp only [loopDist2]
  rw [h1]
  simp only [loop_cube_form hX hY]
  rw [intervalIntegral.integral_const_mul, celIntegral_one_eq_cube hq, Real.sq_sqrt hq2.le,
    div_mul_cancel₀ _ hq2.ne']
  unfold celIntegral
  ring

/-! ### the prologue of `cel0` and the named classical fact -/

/-- the loop variables on entry to the iteration after the prologue of `cel0(kc, p, a, b)` in its
`p > 0` branch (special_cel.py: `pp = √p; ss = s/pp; f = cc; cc = cc + ss/pp; g = k/pp;
ss = 2(ss + f g); pp = g + pp; g = em = 1; em = k + em; kk = k`) -/
noncomputable def celEntry (kc p a b : ℝ) : CelRow ℝ :=
  { qc := |kc|, p := |kc| / √p + √p, g := 1, cc := a + b / √p / √p,
    ss := 2 * (b / √p + a * (|kc| / √p)), em := |kc| + 1, kk := |kc| }

/-- `celEntry` is the state in which the model's `cel0` (port of the source's `cel0`) enters its loop -/
theorem cel0_enters_at_celEntry (fuel : ℕ) {kc p : ℝ} (hkc : kc ≠ 0) (hp : 0 < p) (a b : ℝ) :
    cel0 fuel kc p a b =
      cel0Loop fuel (celEntry kc p a b).qc (celEntry kc p a b).kk (celEntry kc p a b).cc
        (celEntry kc p a b).ss (celEntry kc p a b).p (celEntry kc p a b).g (celEntry kc p a b).em := by
  unfold cel0 cel0Pre celEntry
  simp only [eq0_real, decide_eq_true_eq, if_neg hkc, lt_real, Kern.n, ofNat_real, Nat.cast_zero,
    hp, decide_true, if_true, abs_real, sqrt_real, Nat.cast_one, Nat.cast_ofNat]

/-- at `p = 1`, `kc > 0` the entry state is `(kc, 1 + kc, 1, a + b, 2(b + a kc), 1 + kc, kc)` -/
theorem celEntry_one {kc : ℝ} (hkc : 0 < kc) (a b : ℝ) :
    celEntry kc 1 a b = ⟨kc, 1 + kc, 1, a + b, 2 * (b + a * kc), 1 + kc, kc⟩ := by
  unfold celEntry
  rw [abs_of_pos hkc, Real.sqrt_one]
  simp only [div_one, CelRow.mk.injEq, true_and, and_true]
  exact ⟨add_comm _ _, add_comm _ _⟩

/-- the values the loop would return after exactly `m` passes from the entry state of
`cel(kc, p, a, b)` converge to the integral -/
def CelConverges (kc p a b : ℝ) : Prop :=
  Filter.Tendsto (fun m => celRowOut (celRowStep^[m] (celEntry kc p a b))) Filter.atTop
    (nhds (celIntegral kc p a b))

/-- **the named classical fact (Bulirsch 1969; not provable from Mathlib v4.33, which has no
elliptic-integral theory)**, in the form the Circle kernel needs: started in the state the
prologue produces for `cel(kc, 1, a, b)`, `kc > 0` — this is the state in which
`current_circle_Hfield` calls `cel_iter` — the return expression of the cel iteration converges
to the integral `celIntegral kc 1 a b` as the number of passes grows.
An ordinary `Prop`, never assumed as an axiom.

NOT stated as "the value returned by `celIter` equals the integral": in exact real arithmetic
the loop exits at a relative gap below 1e-8 and the returned value differs from the integral by
the truncation error (about gap², observed 1e-22 … 1e-34), so that statement is false. -/
def CelComputesIntegral : Prop := ∀ kc a b : ℝ, 0 < kc → CelConverges kc 1 a b

/-- the same fact for every prologue of the `p > 0` branch -/
def CelComputesIntegralGeneral : Prop := ∀ kc p a b : ℝ, kc ≠ 0 → 0 < p → CelConverges kc p a b

theorem CelComputesIntegralGeneral.circle (h : CelComputesIntegralGeneral) : CelComputesIntegral :=
  fun kc a b hkc => h kc 1 a b hkc.ne' one_pos

/-! ### the Circle kernel: named pieces of `circleHcyl` -/

/-- `x0` of `current_circle_Hfield` (normalised coordinates) -/
noncomputable def circleX0 (r0 r z : ℝ) : ℝ := z / r0 * (z / r0) + (r / r0 + 1) * (r / r0 + 1)
/-- `k2` of `current_circle_Hfield` -/
noncomputable def circleK2 (r0 r z : ℝ) : ℝ := 4 * (r / r0) / circleX0 r0 r z
/-- `q` of `current_circle_Hfield` -/
noncomputable def circleQ (r0 r z : ℝ) : ℝ := √(circleQ2 r0 r z)
/-- `pf = k / sqrt(r) / q2 / 20 / r0 * 1e-6 * i0` -/
noncomputable def circlePf (r0 r z i0 : ℝ) : ℝ :=
  √(circleK2 r0 r z) / √(r / r0) / circleQ2 r0 r z / 20 / r0 * (1 / 1000000) * i0
/-- the literal `795774.7154594767` of the source (its comment: `*1e7/4/np.pi`) -/
noncomputable def csrc : ℝ := 7957747154594767 / 10000000000
/-- `csrc` relative to what it stands for: `κ = 795774.7154594767 · 4π · 1e-7` -/
noncomputable def kappa : ℝ := csrc * (4 * π) / 10000000

/-- loop variables of the first call `cel_iter(q, p, 1, cc, ss, p, q)` (`cc = k2²`, `ss = 2 cc q / p`) -/
noncomputable def circleEntry1 (r0 r z : ℝ) : CelRow ℝ :=
  ⟨circleQ r0 r z, 1 + circleQ r0 r z, 1, circleK2 r0 r z * circleK2 r0 r z,
    2 * (circleK2 r0 r z * circleK2 r0 r z) * circleQ r0 r z / (1 + circleQ r0 r z),
    1 + circleQ r0 r z, circleQ r0 r z⟩

/-- loop variables of the second call (`cc = k2 (k2 − (q2+1)/r)`, `ss = 2 k2 q (k2/p − p/r)`) -/
noncomputable def circleEntry2 (r0 r z : ℝ) : CelRow ℝ :=
  ⟨circleQ r0 r z, 1 + circleQ r0 r z, 1,
    circleK2 r0 r z * (circleK2 r0 r z - (circleQ2 r0 r z + 1) / (r / r0)),
    2 * circleK2 r0 r z * circleQ r0 r z *
      (circleK2 r0 r z / (1 + circleQ r0 r z) - (1 + circleQ r0 r z) / (r / r0)),
    1 + circleQ r0 r z, circleQ r0 r z⟩

/-- a value of `circleHcyl` is assembled from the two cel iterations exactly as in the source -/
theorem circleHcyl_some {fuel : ℕ} {r0 r z i0 hr hz : ℝ}
    (h : circleHcyl fuel r0 r z i0 = some (hr, hz)) :
    ∃ c1 c2, celIterRow fuel (circleEntry1 r0 r z) = some c1 ∧
      celIterRow fuel (circleEntry2 r0 r z) = some c2 ∧
      hr = circlePf r0 r z i0 * (z / r0) / (r / r0) * c1 * csrc ∧
      hz = -(circlePf r0 r z i0) * c2 * csrc := by
  unfold circleHcyl at h
  simp only [Kern.n, ofNat_real, sqrt_real, Nat.cast_one, Nat.cast_ofNat] at h
  split at h
  · cases h
  · rename_i c1 h1
    split at h
    · cases h
    · rename_i c2 h2
      simp only [Option.some.injEq, Prod.mk.injEq] at h
      exact ⟨c1, c2, h1, h2, h.1.symm, h.2.symm⟩

theorem circleHcyl_of_some {fuel : ℕ} {r0 r z i0 c1 c2 : ℝ}
    (h1 : celIterRow fuel (circleEntry1 r0 r z) = some c1)
    (h2 : celIterRow fuel (circleEntry2 r0 r z) = some c2) :
    circleHcyl fuel r0 r z i0 =
      some (circlePf r0 r z i0 * (z / r0) / (r / r0) * c1 * csrc, -(circlePf r0 r z i0) * c2 * csrc) := by
  unfold circleHcyl
  simp only [Kern.n, ofNat_real, sqrt_real, Nat.cast_one, Nat.cast_ofNat]
  have h1' := h1
  have h2' := h2
  unfold celIterRow circleEntry1 circleQ circleK2 circleX0 circleQ2 at h1'
  unfold celIterRow circleEntry2 circleQ circleK2 circleX0 circleQ2 at h2'
  simp only [] at h1' h2'
  rw [h1']
  simp only []
  rw [h2']
  rfl

/-! ### the kernel's dimensionless quantities in unnormalised coordinates -/

section geom
variable {r0 r z : ℝ}

theorem circleX0_eq (hr0 : r0 ≠ 0) :
    circleX0 r0 r z = ((r + r0) * (r + r0) + z * z) / (r0 * r0) := by
  unfold circleX0; field_simp; ring

theorem X_pos (hr0 : 0 < r0) (hr : 0 < r) : 0 < (r + r0) * (r + r0) + z * z := by
  nlinarith [mul_self_nonneg z, mul_pos hr0 hr]

theorem Y_pos (hwire : ¬ (z = 0 ∧ r = r0)) : 0 < (r - r0) * (r - r0) + z * z := by
  by_cases hz : z = 0
  · have : r - r0 ≠ 0 := fun h => hwire ⟨hz, by linarith⟩
    nlinarith [mul_self_pos.mpr this, mul_self_nonneg z]
  · nlinarith [mul_self_pos.mpr hz, mul_self_nonneg (r - r0)]

theorem circleQ2_eq (hr0 : 0 < r0) (hr : 0 < r) :
    circleQ2 r0 r z = ((r - r0) * (r - r0) + z * z) / ((r + r0) * (r + r0) + z * z) := by
  have hX := X_pos (z := z) hr0 hr
  have hx0 : 0 < z / r0 * (z / r0) + (r / r0 + 1) * (r / r0 + 1) := by
    have := circleX0_eq (r := r) (z := z) hr0.ne'
    unfold circleX0 at this
    rw [this]; positivity
  unfold circleQ2
  rw [div_eq_div_iff hx0.ne' hX.ne']
  field_simp
  ring

theorem circleK2_eq (hr0 : 0 < r0) (hr : 0 < r) :
    circleK2 r0 r z = 4 * r * r0 / ((r + r0) * (r + r0) + z * z) := by
  have hX := X_pos (z := z) hr0 hr
  unfold circleK2
  rw [circleX0_eq hr0.ne']
  field_simp

theorem circleK2_add_circleQ2 (hr0 : 0 < r0) (hr : 0 < r) :
    circleK2 r0 r z + circleQ2 r0 r z = 1 := by
  have hX := X_pos (z := z) hr0 hr
  rw [circleK2_eq hr0 hr, circleQ2_eq hr0 hr]
  field_simp
  ring

theorem circleK2_pos (hr0 : 0 < r0) (hr : 0 < r) : 0 < circleK2 r0 r z := by
  have hX := X_pos (z := z) hr0 hr
  rw [circleK2_eq hr0 hr]; positivity

theorem circleQ2_pos' (hr0 : 0 < r0) (hr : 0 < r) (hwire : ¬ (z = 0 ∧ r = r0)) :
    0 < circleQ2 r0 r z := by
  rw [circleQ2_eq hr0 hr]; exact div_pos (Y_pos hwire) (X_pos hr0 hr)

theorem circleQ_pos (hr0 : 0 < r0) (hr : 0 < r) (hwire : ¬ (z = 0 ∧ r = r0)) :
    0 < circleQ r0 r z := Real.sqrt_pos.2 (circleQ2_pos' hr0 hr hwire)

theorem circleQ_sq (hr0 : 0 < r0) (hr : 0 < r) (hwire : ¬ (z = 0 ∧ r = r0)) :
    circleQ r0 r z * circleQ r0 r z = circleQ2 r0 r z :=
  Real.mul_self_sqrt (circleQ2_pos' hr0 hr hwire).le

/-- `k / √r` of the source is `2 r0 / √X0` -/
theorem sqrt_circleK2_div (hr0 : 0 < r0) (hr : 0 < r) :
    √(circleK2 r0 r z) / √(r / r0) = 2 * r0 / √((r + r0) * (r + r0) + z * z) := by
  have hX := X_pos (z := z) hr0 hr
  have hρ : 0 < r / r0 := div_pos hr hr0
  rw [← Real.sqrt_div (circleK2_pos hr0 hr).le, circleK2_eq hr0 hr]
  have e : 4 * r * r0 / ((r + r0) * (r + r0) + z * z) / (r / r0) =
      (2 * r0) ^ 2 / ((r + r0) * (r + r0) + z * z) := by
    field_simp; ring
  rw [e, Real.sqrt_div (by positivity), Real.sqrt_sq (by positivity)]

/-- the loop variables of the first call are the prologue state of `cel(q, 1, k2, −k2 q2)` -/
theorem circleEntry1_eq (hr0 : 0 < r0) (hr : 0 < r) (hwire : ¬ (z = 0 ∧ r = r0)) :
    circleEntry1 r0 r z =
      celEntry (circleQ r0 r z) 1 (circleK2 r0 r z) (-(circleK2 r0 r z * circleQ2 r0 r z)) := by
  have hq := circleQ_pos hr0 hr hwire
  have hqq := circleQ_sq hr0 hr hwire
  have hk : circleK2 r0 r z = 1 - circleQ2 r0 r z := by linarith [circleK2_add_circleQ2 (z := z) hr0 hr]
  rw [celEntry_one hq]
  unfold circleEntry1
  simp only [CelRow.mk.injEq, true_and, and_true]
  constructor
  · rw [hk]; ring
  · rw [hk, ← hqq]
    field_simp
    ring

/-- the loop variables of the second call are the prologue state of
`cel(q, 1, k2 (1 − 1/ρ), −k2 q2 (1 + 1/ρ))`, `ρ = r / r0` -/
theorem circleEntry2_eq (hr0 : 0 < r0) (hr : 0 < r) (hwire : ¬ (z = 0 ∧ r = r0)) :
    circleEntry2 r0 r z =
      celEntry (circleQ r0 r z) 1 (circleK2 r0 r z * (1 - 1 / (r / r0)))
        (-(circleK2 r0 r z * circleQ2 r0 r z * (1 + 1 / (r / r0)))) := by
  have hq := circleQ_pos hr0 hr hwire
  have hqq := circleQ_sq hr0 hr hwire
  have hρ : 0 < r / r0 := div_pos hr hr0
  have hk : circleK2 r0 r z = 1 - circleQ2 r0 r z := by linarith [circleK2_add_circleQ2 (z := z) hr0 hr]
  rw [celEntry_one hq]
  unfold circleEntry2
  simp only [CelRow.mk.injEq, true_and, and_true]
  generalize r / r0 = ρ at hρ
  constructor
  · rw [hk]; field_simp; ring
  · rw [hk, ← hqq]
    field_simp
    ring

end geom

/-! ### item 3: the two Biot–Savart integrals as the `cel` the kernel evaluates -/

/-- **the two loop integrals as Bulirsch `cel`**, with exactly the parameters of the two `cel_iter`
calls of `current_circle_Hfield` (`kc = q`, `p = 1`; first call `a = k2`, `b = −k2 q2`; second call
`a = k2 (1 − 1/ρ)`, `b = −k2 q2 (1 + 1/ρ)`, ρ = r/r0), `X0 = (r + r0)² + z²` -/
theorem circle_integrals_as_cel {r0 r z : ℝ} (hr0 : 0 < r0) (hr : 0 < r)
    (hwire : ¬ (z = 0 ∧ r = r0)) :
    (∫ φ in (0:ℝ)..(2 * π), r0 * z * cos φ / √(r0 * r0 + r * r + z * z - 2 * r0 * r * cos φ) ^ 3) =
      4 / (((r + r0) * (r + r0) + z * z) * √((r + r0) * (r + r0) + z * z)) *
        (r0 * z / (circleK2 r0 r z * circleQ2 r0 r z)) *
        celIntegral (circleQ r0 r z) 1 (circleK2 r0 r z) (-(circleK2 r0 r z * circleQ2 r0 r z)) ∧
    (∫ φ in (0:ℝ)..(2 * π),
        r0 * (r0 - r * cos φ) / √(r0 * r0 + r * r + z * z - 2 * r0 * r * cos φ) ^ 3) =
      4 / (((r + r0) * (r + r0) + z * z) * √((r + r0) * (r + r0) + z * z)) *
        (-(r0 * r) / (circleK2 r0 r z * circleQ2 r0 r z)) *
        celIntegral (circleQ r0 r z) 1 (circleK2 r0 r z * (1 - 1 / (r / r0)))
          (-(circleK2 r0 r z * circleQ2 r0 r z * (1 + 1 / (r / r0)))) := by
  have hk := circleK2_pos (z := z) hr0 hr
  have hq2 := circleQ2_pos' hr0 hr hwire
  constructor
  · have h := loop_integral_as_cel hr0 hr hwire 0 (r0 * z)
    simp only [loopDist2, zero_add, zero_sub] at h
    rw [h, ← circleQ2_eq (z := z) hr0 hr, show √(circleQ2 r0 r z) = circleQ r0 r z from rfl]
    rw [show r0 * z / circleQ2 r0 r z =
        r0 * z / (circleK2 r0 r z * circleQ2 r0 r z) * circleK2 r0 r z by field_simp,
      show -(r0 * z) = r0 * z / (circleK2 r0 r z * circleQ2 r0 r z) *
        (-(circleK2 r0 r z * circleQ2 r0 r z)) by field_simp,
      celIntegral_smul]
    ring
  · have h := loop_integral_as_cel hr0 hr hwire (r0 * r0) (-(r0 * r))
    simp only [loopDist2] at h
    have e : ∀ φ, r0 * (r0 - r * cos φ) = r0 * r0 + -(r0 * r) * cos φ := fun φ => by ring
    simp only [e]
    rw [h, ← circleQ2_eq (z := z) hr0 hr, show √(circleQ2 r0 r z) = circleQ r0 r z from rfl]
    have hρ : 0 < r / r0 := div_pos hr hr0
    rw [show (r0 * r0 + -(r0 * r)) / circleQ2 r0 r z =
        -(r0 * r) / (circleK2 r0 r z * circleQ2 r0 r z) * (circleK2 r0 r z * (1 - 1 / (r / r0))) by
          field_simp; ring,
      show r0 * r0 - -(r0 * r) = -(r0 * r) / (circleK2 r0 r z * circleQ2 r0 r z) *
        (-(circleK2 r0 r z * circleQ2 r0 r z * (1 + 1 / (r / r0)))) by field_simp; ring,
      celIntegral_smul]
    ring

/-! ### the physical side -/

/-- radial component of `I/(4π) ∮ dl × d / |d|³` at the observer `(r, 0, z)` -/
noncomputable def circleBSr (r0 r z i0 : ℝ) : ℝ :=
  i0 / (4 * π) * ∫ φ in (0:ℝ)..(2 * π), (loopIntegrand r0 r z φ).x
/-- axial component -/
noncomputable def circleBSz (r0 r z i0 : ℝ) : ℝ :=
  i0 / (4 * π) * ∫ φ in (0:ℝ)..(2 * π), (loopIntegrand r0 r z φ).z

/-- the prefactors of the source (`pf·z/r`, the literal `795774.7154594767`) against the physics,
radial component: `κ · H_r = pf · z/r · 795774.7154594767 · cel(q, 1, k2, −k2 q2)` -/
theorem kappa_mul_circleBSr {r0 r z : ℝ} (i0 : ℝ) (hr0 : 0 < r0) (hr : 0 < r)
    (hwire : ¬ (z = 0 ∧ r = r0)) :
    kappa * circleBSr r0 r z i0 =
      circlePf r0 r z i0 * (z / r0) / (r / r0) * csrc *
        celIntegral (circleQ r0 r z) 1 (circleK2 r0 r z) (-(circleK2 r0 r z * circleQ2 r0 r z)) := by
  have hX := X_pos (z := z) hr0 hr
  have hsX : 0 < √((r + r0) * (r + r0) + z * z) := Real.sqrt_pos.2 hX
  have hq2 := circleQ2_pos' hr0 hr hwire
  unfold circleBSr kappa circlePf
  rw [(circle_loop_integrals r0 r z).1, (circle_integrals_as_cel hr0 hr hwire).1,
    sqrt_circleK2_div hr0 hr, circleK2_eq hr0 hr]
  generalize celIntegral _ _ _ _ = I
  generalize circleQ2 r0 r z = q2 at hq2
  generalize √((r + r0) * (r + r0) + z * z) = sX at hsX
  generalize (r + r0) * (r + r0) + z * z = X at hX
  have hpi := Real.pi_pos
  field_simp
  ring

/-- axial component: `κ · H_z = −pf · 795774.7154594767 · cel(q, 1, k2 (1 − 1/ρ), −k2 q2 (1 + 1/ρ))` -/
theorem kappa_mul_circleBSz {r0 r z : ℝ} (i0 : ℝ) (hr0 : 0 < r0) (hr : 0 < r)
    (hwire : ¬ (z = 0 ∧ r = r0)) :
    kappa * circleBSz r0 r z i0 =
      -(circlePf r0 r z i0) * csrc *
        celIntegral (circleQ r0 r z) 1 (circleK2 r0 r z * (1 - 1 / (r / r0)))
          (-(circleK2 r0 r z * circleQ2 r0 r z * (1 + 1 / (r / r0)))) := by
  have hX := X_pos (z := z) hr0 hr
  have hsX : 0 < √((r + r0) * (r + r0) + z * z) := Real.sqrt_pos.2 hX
  have hq2 := circleQ2_pos' hr0 hr hwire
  unfold circleBSz kappa circlePf
  rw [(circle_loop_integrals r0 r z).2.1, (circle_integrals_as_cel hr0 hr hwire).2,
    sqrt_circleK2_div hr0 hr, circleK2_eq hr0 hr]
  generalize celIntegral _ _ _ _ = I
  generalize circleQ2 r0 r z = q2 at hq2
  generalize √((r + r0) * (r + r0) + z * z) = sX at hsX
  generalize (r + r0) * (r + r0) + z * z = X at hX
  have hpi := Real.pi_pos
  field_simp
  ring

/-- the source's literal is `1e7/(4π)` to better than 1e-16 relative -/
theorem kappa_close : |kappa - 1| < 1 / 10 ^ 16 := by
  unfold kappa csrc
  have h1 := Real.pi_gt_d20
  have h2 := Real.pi_lt_d20
  rw [abs_lt]
  constructor <;> norm_num at h1 h2 ⊢ <;> linarith

/-! ### item 4: the kernel against the physics -/

/-- the kernel's prefactor of the first cel value: `pf · z/r · 795774.7154594767` -/
noncomputable def circlePr (r0 r z i0 : ℝ) : ℝ := circlePf r0 r z i0 * (z / r0) / (r / r0) * csrc
/-- the kernel's prefactor of the second cel value: `−pf · 795774.7154594767` -/
noncomputable def circlePz (r0 r z i0 : ℝ) : ℝ := -(circlePf r0 r z i0) * csrc

/-- the parameters `(a, b)` of the two calls, `cel(q, 1, a, b)` -/
noncomputable def circleA1 (r0 r z : ℝ) : ℝ := circleK2 r0 r z
noncomputable def circleB1 (r0 r z : ℝ) : ℝ := -(circleK2 r0 r z * circleQ2 r0 r z)
noncomputable def circleA2 (r0 r z : ℝ) : ℝ := circleK2 r0 r z * (1 - 1 / (r / r0))
noncomputable def circleB2 (r0 r z : ℝ) : ℝ := -(circleK2 r0 r z * circleQ2 r0 r z * (1 + 1 / (r / r0)))

/-- **exact identity, no hypothesis about `cel`**: for a loop of radius `r0 > 0`, an observer off the
axis (`r > 0`) and off the wire, and any fuel ≥ `circleFuel r0 r z`, both cel iterations — entered in
the prologue states of `cel(q, 1, a₁, b₁)` and `cel(q, 1, a₂, b₂)` — return values `c₁`, `c₂`, and
`current_circle_Hfield` returns
  H_r = κ · (Biot–Savart H_r) + (pf · z/r · 795774.7154594767) · (c₁ − cel(q, 1, a₁, b₁)),
  H_z = κ · (Biot–Savart H_z) − (pf · 795774.7154594767) · (c₂ − cel(q, 1, a₂, b₂)),
κ = 795774.7154594767·4π·1e-7 (`kappa_close`: |κ − 1| < 1e-16).  The only thing between the kernel and
the physics is the difference between the value of the cel iteration and the cel integral. -/
theorem circleHcyl_eq_bs_add_cel_error {r0 r z : ℝ} (i0 : ℝ) (hr0 : 0 < r0) (hr : 0 < r)
    (hwire : ¬ (z = 0 ∧ r = r0)) (fuel : ℕ) (hfuel : circleFuel r0 r z ≤ fuel) :
    ∃ c1 c2 : ℝ,
      celIterRow fuel (celEntry (circleQ r0 r z) 1 (circleA1 r0 r z) (circleB1 r0 r z)) = some c1 ∧
      celIterRow fuel (celEntry (circleQ r0 r z) 1 (circleA2 r0 r z) (circleB2 r0 r z)) = some c2 ∧
      circleHcyl fuel r0 r z i0 = some
        (kappa * circleBSr r0 r z i0 + circlePr r0 r z i0 *
            (c1 - celIntegral (circleQ r0 r z) 1 (circleA1 r0 r z) (circleB1 r0 r z)),
         kappa * circleBSz r0 r z i0 + circlePz r0 r z i0 *
            (c2 - celIntegral (circleQ r0 r z) 1 (circleA2 r0 r z) (circleB2 r0 r z))) := by
  have hsome := circleHcyl_isSome fuel r0 r z i0 (circleQ2_pos' hr0 hr hwire) hfuel
  obtain ⟨⟨hr', hz'⟩, hv⟩ := Option.isSome_iff_exists.mp hsome
  obtain ⟨c1, c2, h1, h2, -, -⟩ := circleHcyl_some hv
  refine ⟨c1, c2, ?_, ?_, ?_⟩
  · unfold circleA1 circleB1; rw [← circleEntry1_eq hr0 hr hwire]; exact h1
  · unfold circleA2 circleB2; rw [← circleEntry2_eq hr0 hr hwire]; exact h2
  · rw [circleHcyl_of_some h1 h2, kappa_mul_circleBSr i0 hr0 hr hwire,
      kappa_mul_circleBSz i0 hr0 hr hwire]
    unfold circlePr circlePz circleA1 circleB1 circleA2 circleB2
    congr 2 <;> ring

/-- the value `current_circle_Hfield` would return if its two cel loops made exactly `m₁`, `m₂`
passes -/
noncomputable def circleHAt (m1 m2 : ℕ) (r0 r z i0 : ℝ) : ℝ × ℝ :=
  (circlePr r0 r z i0 * celRowOut (celRowStep^[m1]
      (celEntry (circleQ r0 r z) 1 (circleA1 r0 r z) (circleB1 r0 r z))),
   circlePz r0 r z i0 * celRowOut (celRowStep^[m2]
      (celEntry (circleQ r0 r z) 1 (circleA2 r0 r z) (circleB2 r0 r z))))

/-- the model's value is `circleHAt m₁ m₂` for the pass counts `m₁, m₂ < fuel` at which the two loops
first meet their exit test -/
theorem circleHcyl_eq_circleHAt {r0 r z : ℝ} (i0 : ℝ) (hr0 : 0 < r0) (hr : 0 < r)
    (hwire : ¬ (z = 0 ∧ r = r0)) (fuel : ℕ) (hfuel : circleFuel r0 r z ≤ fuel) :
    ∃ m1 m2 : ℕ, m1 < fuel ∧ m2 < fuel ∧
      celRowCont (celRowStep^[m1]
        (celEntry (circleQ r0 r z) 1 (circleA1 r0 r z) (circleB1 r0 r z))) = false ∧
      celRowCont (celRowStep^[m2]
        (celEntry (circleQ r0 r z) 1 (circleA2 r0 r z) (circleB2 r0 r z))) = false ∧
      circleHcyl fuel r0 r z i0 = some (circleHAt m1 m2 r0 r z i0) := by
  have hsome := circleHcyl_isSome fuel r0 r z i0 (circleQ2_pos' hr0 hr hwire) hfuel
  obtain ⟨⟨hr', hz'⟩, hv⟩ := Option.isSome_iff_exists.mp hsome
  obtain ⟨c1, c2, h1, h2, -, -⟩ := circleHcyl_some hv
  have e1 := circleEntry1_eq hr0 hr hwire
  have e2 := circleEntry2_eq hr0 hr hwire
  obtain ⟨m1, hm1, -, hx1, hv1⟩ := celIterRow_some_spec fuel _ _ h1
  obtain ⟨m2, hm2, -, hx2, hv2⟩ := celIterRow_some_spec fuel _ _ h2
  refine ⟨m1, m2, hm1, hm2, ?_, ?_, ?_⟩
  · unfold circleA1 circleB1; rw [← e1]; exact hx1
  · unfold circleA2 circleB2; rw [← e2]; exact hx2
  · rw [circleHcyl_of_some h1 h2, hv1, hv2]
    unfold circleHAt circlePr circlePz circleA1 circleB1 circleA2 circleB2
    rw [← e1, ← e2]
    congr 2 <;> ring

/-- **Circle kernel = Biot–Savart, modulo the named fact about `cel`**: if the cel iteration
converges to the cel integral (`CelComputesIntegral`), then the value of `current_circle_Hfield` with
its loops run for `m` passes converges, as `m → ∞`, to `κ` times the Biot–Savart integrals -/
theorem circleHAt_tendsto (hcel : CelComputesIntegral) {r0 r z : ℝ} (i0 : ℝ) (hr0 : 0 < r0)
    (hr : 0 < r) (hwire : ¬ (z = 0 ∧ r = r0)) :
    Filter.Tendsto (fun m => circleHAt m m r0 r z i0) Filter.atTop
      (nhds (kappa * circleBSr r0 r z i0, kappa * circleBSz r0 r z i0)) := by
  have hq := circleQ_pos hr0 hr hwire
  have t1 := (hcel _ (circleA1 r0 r z) (circleB1 r0 r z) hq).const_mul (circlePr r0 r z i0)
  have t2 := (hcel _ (circleA2 r0 r z) (circleB2 r0 r z) hq).const_mul (circlePz r0 r z i0)
  have k1 := kappa_mul_circleBSr i0 hr0 hr hwire
  have k2 := kappa_mul_circleBSz i0 hr0 hr hwire
  have e1 : kappa * circleBSr r0 r z i0 = circlePr r0 r z i0 *
      celIntegral (circleQ r0 r z) 1 (circleA1 r0 r z) (circleB1 r0 r z) := by
    rw [k1]; unfold circlePr circleA1 circleB1; ring
  have e2 : kappa * circleBSz r0 r z i0 = circlePz r0 r z i0 *
      celIntegral (circleQ r0 r z) 1 (circleA2 r0 r z) (circleB2 r0 r z) := by
    rw [k2]; unfold circlePz circleA2 circleB2; ring
  rw [e1, e2]
  exact t1.prodMk_nhds t2

/-! ### the named fact is provable in the degenerate case `kc = 1` (a circle: `Δ ≡ 1`) -/

theorem celIntegral_one_one (a b : ℝ) : celIntegral 1 1 a b = (a + b) * (π / 4) := by
  unfold celIntegral
  have e : ∀ φ, celIntegrand 1 1 a b φ = a * cos φ ^ 2 + b * sin φ ^ 2 := by
    intro φ
    unfold celIntegrand
    have h1 : cos φ ^ 2 + 1 * sin φ ^ 2 = 1 := by linarith [sin_sq_add_cos_sq φ]
    rw [one_pow, h1, Real.sqrt_one, mul_one, div_one]
  simp only [e]
  rw [intervalIntegral.integral_add (by apply Continuous.intervalIntegrable; fun_prop)
    (by apply Continuous.intervalIntegrable; fun_prop),
    intervalIntegral.integral_const_mul, intervalIntegral.integral_const_mul,
    integral_cos_sq, integral_sin_sq]
  simp only [Real.cos_pi_div_two, Real.sin_pi_div_two, Real.sin_zero, Real.cos_zero]
  ring

/-- orbit of the loop body from the entry state of `cel(1, 1, a, b)`: every variable doubles
(or quadruples) per pass -/
theorem celOrbit_one_one (a b : ℝ) (m : ℕ) :
    celRowStep^[m] (celEntry 1 1 a b) =
      ⟨2 ^ m, 2 * 2 ^ m, 2 ^ m, 2 ^ m * (a + b), 2 * (2 ^ m * 2 ^ m) * (a + b), 2 * 2 ^ m,
        2 ^ m * 2 ^ m⟩ := by
  induction m with
  | zero =>
    rw [Function.iterate_zero, id, celEntry_one one_pos]
    simp only [pow_zero, CelRow.mk.injEq, true_and]
    refine ⟨by norm_num, by ring, by ring, by norm_num, by norm_num⟩
  | succ m ih =>
    rw [Function.iterate_succ_apply', ih]
    have h2 : (0:ℝ) < 2 ^ m := by positivity
    have hs : √((2:ℝ) ^ m * 2 ^ m) = 2 ^ m := Real.sqrt_mul_self h2.le
    unfold celRowStep
    simp only [Kern.n, ofNat_real, sqrt_real, Nat.cast_ofNat, hs, CelRow.mk.injEq]
    refine ⟨by ring, ?_, by ring, ?_, ?_, by ring, by ring⟩
    · field_simp; ring
    · field_simp; ring
    · field_simp; ring

/-- non-vacuity of the shape of `CelComputesIntegral`: at `kc = 1` (where the integrand is
elementary) the return expression equals the integral at every pass, so it converges to it -/
theorem celConverges_one_one (a b : ℝ) : CelConverges 1 1 a b := by
  unfold CelConverges
  have h : ∀ m, celRowOut (celRowStep^[m] (celEntry 1 1 a b)) = celIntegral 1 1 a b := by
    intro m
    have h2 : (0:ℝ) < 2 ^ m := by positivity
    rw [celOrbit_one_one, celRowOut_eq, celIntegral_one_one]
    simp only []
    field_simp
    ring
  simp only [h]
  exact tendsto_const_nhds

/-! ### observers at any azimuth: the loop integral is equivariant under rotation about the axis -/

/-- the Biot–Savart integrand `dl × d / |d|³` of the loop for an observer at an arbitrary point `P` -/
noncomputable def loopIntegrandAt (r0 : ℝ) (P : V3 ℝ) (φ : ℝ) : V3 ℝ :=
  let dl : V3 ℝ := ⟨r0 * (-sin φ), r0 * cos φ, 0⟩
  let d : V3 ℝ := ⟨P.x - r0 * cos φ, P.y - r0 * sin φ, P.z - 0⟩
  vd (V3.cross dl d) (Kern.norm d ^ 3)

/-- at the observer `(r cos ψ, r sin ψ, z)` the integrand is the azimuth-0 integrand at loop angle
`φ − ψ`, rotated by `ψ` about the axis -/
theorem loopIntegrandAt_rot (r0 r z ψ φ : ℝ) :
    loopIntegrandAt r0 ⟨r * cos ψ, r * sin ψ, z⟩ φ =
      ⟨cos ψ * (loopIntegrand r0 r z (φ - ψ)).x - sin ψ * (loopIntegrand r0 r z (φ - ψ)).y,
       sin ψ * (loopIntegrand r0 r z (φ - ψ)).x + cos ψ * (loopIntegrand r0 r z (φ - ψ)).y,
       (loopIntegrand r0 r z (φ - ψ)).z⟩ := by
  have h1 := sin_sq_add_cos_sq ψ
  have h2 := sin_sq_add_cos_sq φ
  rw [loopIntegrand_eq]
  unfold loopIntegrandAt loopDist2
  have hn : Kern.norm (⟨r * cos ψ - r0 * cos φ, r * sin ψ - r0 * sin φ, z - 0⟩ : V3 ℝ) =
      √(r0 * r0 + r * r + z * z - 2 * r0 * r * cos (φ - ψ)) := by
    simp only [Kern.norm, sqrt_real]
    congr 1
    rw [cos_sub]
    linear_combination (r ^ 2) * h1 + (r0 ^ 2) * h2
  simp only [hn, vd, V3.cross]
  rw [cos_sub, sin_sub]
  set D := √(r0 * r0 + r * r + z * z - 2 * r0 * r * (cos φ * cos ψ + sin φ * sin ψ)) ^ 3
  apply V3.ext' <;> simp only
  · rw [← mul_div_assoc, ← mul_div_assoc, ← sub_div]
    congr 1
    linear_combination (-(r0 * z * cos φ)) * h1
  · rw [← mul_div_assoc, ← mul_div_assoc, ← add_div]
    congr 1
    linear_combination (-(r0 * z * sin φ)) * h1
  · congr 1
    linear_combination (r0 ^ 2) * h2

theorem loopIntegrand_periodic (r0 r z : ℝ) :
    Function.Periodic (fun φ => loopIntegrand r0 r z φ) (2 * π) := by
  intro φ
  simp only [loopIntegrand_eq, loopDist2, cos_add_two_pi, sin_add_two_pi]

/-- continuity in the loop angle of `(α + β cos φ + γ sin φ) / |d|³` -/
theorem loop_scalar_continuous' {r0 r z : ℝ} (hr0 : 0 < r0) (hr : 0 < r)
    (hwire : ¬ (z = 0 ∧ r = r0)) (α β γ : ℝ) :
    Continuous fun φ => (α + β * cos φ + γ * sin φ) / √(loopDist2 r0 r z φ) ^ 3 := by
  apply Continuous.div (by fun_prop) (by unfold loopDist2; fun_prop)
  intro φ
  exact (pow_pos (Real.sqrt_pos.2 (loopDist2_pos hr0 hr hwire φ)) 3).ne'

theorem loopIntegrand_x_continuous {r0 r z : ℝ} (hr0 : 0 < r0) (hr : 0 < r)
    (hwire : ¬ (z = 0 ∧ r = r0)) : Continuous fun φ => (loopIntegrand r0 r z φ).x := by
  simp only [loopIntegrand_eq, vd]
  have := loop_scalar_continuous' hr0 hr hwire 0 (r0 * z) 0
  simpa using this

theorem loopIntegrand_y_continuous {r0 r z : ℝ} (hr0 : 0 < r0) (hr : 0 < r)
    (hwire : ¬ (z = 0 ∧ r = r0)) : Continuous fun φ => (loopIntegrand r0 r z φ).y := by
  simp only [loopIntegrand_eq, vd]
  have := loop_scalar_continuous' hr0 hr hwire 0 0 (r0 * z)
  simpa using this

/-- shift invariance of a full-period integral -/
theorem integral_shift_two_pi (f : ℝ → ℝ) (hf : Function.Periodic f (2 * π)) (ψ : ℝ) :
    ∫ φ in (0:ℝ)..(2 * π), f (φ - ψ) = ∫ φ in (0:ℝ)..(2 * π), f φ := by
  rw [intervalIntegral.integral_comp_sub_right]
  have := hf.intervalIntegral_add_eq (0 - ψ) 0
  rw [show 0 - ψ + 2 * π = 2 * π - ψ by ring, zero_add] at this
  exact this

/-- **the loop integral at any azimuth**: for the observer `(r cos ψ, r sin ψ, z)` the Cartesian
components of `∮ dl × d / |d|³` are `(I_r cos ψ, I_r sin ψ, I_z)` with `I_r`, `I_z` the azimuth-0
integrals — what `BHJM_circle` does with `cyl_field_to_cart` -/
theorem loopIntegralAt_eq {r0 r z : ℝ} (hr0 : 0 < r0) (hr : 0 < r) (hwire : ¬ (z = 0 ∧ r = r0))
    (ψ : ℝ) :
    (∫ φ in (0:ℝ)..(2 * π), (loopIntegrandAt r0 ⟨r * cos ψ, r * sin ψ, z⟩ φ).x) =
        (∫ φ in (0:ℝ)..(2 * π), (loopIntegrand r0 r z φ).x) * cos ψ ∧
    (∫ φ in (0:ℝ)..(2 * π), (loopIntegrandAt r0 ⟨r * cos ψ, r * sin ψ, z⟩ φ).y) =
        (∫ φ in (0:ℝ)..(2 * π), (loopIntegrand r0 r z φ).x) * sin ψ ∧
    (∫ φ in (0:ℝ)..(2 * π), (loopIntegrandAt r0 ⟨r * cos ψ, r * sin ψ, z⟩ φ).z) =
        ∫ φ in (0:ℝ)..(2 * π), (loopIntegrand r0 r z φ).z := by
  have hper := loopIntegrand_periodic r0 r z
  have px : Function.Periodic (fun φ => (loopIntegrand r0 r z φ).x) (2 * π) := fun φ => by
    have := hper φ; simp only at this ⊢; rw [this]
  have py : Function.Periodic (fun φ => (loopIntegrand r0 r z φ).y) (2 * π) := fun φ => by
    have := hper φ; simp only at this ⊢; rw [this]
  have pz : Function.Periodic (fun φ => (loopIntegrand r0 r z φ).z) (2 * π) := fun φ => by
    have := hper φ; simp only at this ⊢; rw [this]
  have cx := loopIntegrand_x_continuous hr0 hr hwire
  have cy := loopIntegrand_y_continuous hr0 hr hwire
  have ix : ∀ a b, IntervalIntegrable (fun φ => (loopIntegrand r0 r z (φ - ψ)).x)
      MeasureTheory.volume a b := fun a b =>
    (cx.comp (continuous_id.sub continuous_const)).intervalIntegrable a b
  have iy : ∀ a b, IntervalIntegrable (fun φ => (loopIntegrand r0 r z (φ - ψ)).y)
      MeasureTheory.volume a b := fun a b =>
    (cy.comp (continuous_id.sub continuous_const)).intervalIntegrable a b
  have sx := integral_shift_two_pi _ px ψ
  have sy := integral_shift_two_pi _ py ψ
  have sz := integral_shift_two_pi _ pz ψ
  have y0 := (circle_loop_integrals r0 r z).2.2
  simp only [loopIntegrandAt_rot]
  refine ⟨?_, ?_, sz⟩
  · rw [intervalIntegral.integral_sub ((ix _ _).const_mul _) ((iy _ _).const_mul _),
      intervalIntegral.integral_const_mul, intervalIntegral.integral_const_mul, sx, sy, y0]
    ring
  · rw [intervalIntegral.integral_add ((ix _ _).const_mul _) ((iy _ _).const_mul _),
      intervalIntegral.integral_const_mul, intervalIntegral.integral_const_mul, sx, sy, y0]
    ring

/-! ### the wrapper `BHJM_circle` in its general branch -/

/-- general branch of `BHJM_circle` (masks 1–3 false), field H: the cylinder components of
`current_circle_Hfield` turned back to Cartesian with the observer's azimuth `arctan2(y, x)` -/
theorem bhjmCircle_general (fuel : ℕ) (d cur x y z : ℝ) (h1 : ¬ (|d / 2| = 0))
    (h3 : ¬ (√(x * x + y * y) = 0))
    (h2 : ¬ (|√(x * x + y * y) - (|d / 2|)| < 1 / 1000000000000000 * |d / 2| ∧
      |z| < 1 / 1000000000000000 * |d / 2|)) :
    bhjmCircle fuel .H d cur ⟨x, y, z⟩ =
      (circleHcyl fuel |d / 2| (√(x * x + y * y)) z cur).map
        (fun p => ⟨p.1 * cos (Complex.arg ⟨x, y⟩), p.1 * sin (Complex.arg ⟨x, y⟩), p.2⟩) := by
  unfold bhjmCircle
  simp only [Kern.n, ofNat_real, sqrt_real, abs_real, eq0_real, lt_real, Nat.cast_one, Nat.cast_ofNat,
    atan2_real, cos_real, sin_real, Bool.or_eq_true, Bool.and_eq_true, decide_eq_true_eq, h1, h3, h2,
    if_false, or_self]
  cases circleHcyl fuel |d / 2| (√(x * x + y * y)) z cur with
  | none => rfl
  | some p => rfl

/-- polar form of the observer's horizontal position with the model's `atan2` -/
theorem polar_xy {x y : ℝ} (hxy : ¬ (x = 0 ∧ y = 0)) :
    x = √(x * x + y * y) * cos (Complex.arg ⟨x, y⟩) ∧
    y = √(x * x + y * y) * sin (Complex.arg ⟨x, y⟩) := by
  have hne : (⟨x, y⟩ : ℂ) ≠ 0 := by
    intro h
    exact hxy ⟨by simpa using congrArg Complex.re h, by simpa using congrArg Complex.im h⟩
  have hn : ‖(⟨x, y⟩ : ℂ)‖ = √(x * x + y * y) := by
    rw [Complex.norm_eq_sqrt_sq_add_sq]; simp only [sq]
  have hpos : 0 < √(x * x + y * y) := by rw [← hn]; exact norm_pos_iff.mpr hne
  rw [Complex.cos_arg hne, Complex.sin_arg, hn]
  generalize √(x * x + y * y) = s at hpos
  constructor <;> field_simp

/-- **`BHJM_circle` (field H) against the vector Biot–Savart integral, exact and hypothesis-free**:
diameter `d ≠ 0`, observer `(x, y, z)` off the axis and outside the wrapper's on-the-wire mask.  The
returned vector is κ times `I/(4π) ∮ dl × d / |d|³` (Cartesian, integrand `loopIntegrandAt`) plus the
cel-iteration errors `c_i − cel(q, 1, a_i, b_i)` times the source's prefactors, rotated to the
observer's azimuth -/
theorem bhjmCircle_eq_bs_add_cel_error (fuel : ℕ) (d cur x y z : ℝ) (hd : d ≠ 0)
    (hxy : ¬ (x = 0 ∧ y = 0))
    (h2 : ¬ (|√(x * x + y * y) - (|d / 2|)| < 1 / 1000000000000000 * |d / 2| ∧
      |z| < 1 / 1000000000000000 * |d / 2|))
    (hfuel : circleFuelX d ⟨x, y, z⟩ ≤ fuel) :
    ∃ c1 c2 : ℝ,
      celIterRow fuel (celEntry (circleQ |d / 2| (√(x * x + y * y)) z) 1
        (circleA1 |d / 2| (√(x * x + y * y)) z) (circleB1 |d / 2| (√(x * x + y * y)) z)) = some c1 ∧
      celIterRow fuel (celEntry (circleQ |d / 2| (√(x * x + y * y)) z) 1
        (circleA2 |d / 2| (√(x * x + y * y)) z) (circleB2 |d / 2| (√(x * x + y * y)) z)) = some c2 ∧
      bhjmCircle fuel .H d cur ⟨x, y, z⟩ = some
        (vs kappa (vs (cur / (4 * π))
          ⟨∫ φ in (0:ℝ)..(2 * π), (loopIntegrandAt |d / 2| ⟨x, y, z⟩ φ).x,
           ∫ φ in (0:ℝ)..(2 * π), (loopIntegrandAt |d / 2| ⟨x, y, z⟩ φ).y,
           ∫ φ in (0:ℝ)..(2 * π), (loopIntegrandAt |d / 2| ⟨x, y, z⟩ φ).z⟩) +
         ⟨circlePr |d / 2| (√(x * x + y * y)) z cur *
              (c1 - celIntegral (circleQ |d / 2| (√(x * x + y * y)) z) 1
                (circleA1 |d / 2| (√(x * x + y * y)) z) (circleB1 |d / 2| (√(x * x + y * y)) z)) *
              cos (Complex.arg ⟨x, y⟩),
          circlePr |d / 2| (√(x * x + y * y)) z cur *
              (c1 - celIntegral (circleQ |d / 2| (√(x * x + y * y)) z) 1
                (circleA1 |d / 2| (√(x * x + y * y)) z) (circleB1 |d / 2| (√(x * x + y * y)) z)) *
              sin (Complex.arg ⟨x, y⟩),
          circlePz |d / 2| (√(x * x + y * y)) z cur *
              (c2 - celIntegral (circleQ |d / 2| (√(x * x + y * y)) z) 1
                (circleA2 |d / 2| (√(x * x + y * y)) z) (circleB2 |d / 2| (√(x * x + y * y)) z))⟩) := by
  have hr0 : 0 < |d / 2| := abs_pos.mpr (div_ne_zero hd two_ne_zero)
  have hsum : 0 < x * x + y * y := by
    by_contra hneg
    have hx : x * x = 0 := by nlinarith [mul_self_nonneg x, mul_self_nonneg y]
    have hy : y * y = 0 := by nlinarith [mul_self_nonneg x, mul_self_nonneg y]
    exact hxy ⟨mul_self_eq_zero.mp hx, mul_self_eq_zero.mp hy⟩
  have hr : 0 < √(x * x + y * y) := Real.sqrt_pos.2 hsum
  have hwire : ¬ (z = 0 ∧ √(x * x + y * y) = |d / 2|) := by
    rintro ⟨hz, hrr⟩
    apply h2
    rw [hrr, hz, sub_self, abs_zero]
    exact ⟨by positivity, by positivity⟩
  obtain ⟨c1, c2, e1, e2, hv⟩ :=
    circleHcyl_eq_bs_add_cel_error cur hr0 hr hwire fuel (by simpa [circleFuelX] using hfuel)
  refine ⟨c1, c2, e1, e2, ?_⟩
  rw [bhjmCircle_general fuel d cur x y z hr0.ne' hr.ne' h2, hv, Option.map_some]
  obtain ⟨px, py⟩ := polar_xy hxy
  have hP : (⟨x, y, z⟩ : V3 ℝ) = ⟨√(x * x + y * y) * cos (Complex.arg ⟨x, y⟩),
      √(x * x + y * y) * sin (Complex.arg ⟨x, y⟩), z⟩ := by
    apply V3.ext' <;> simp only
    · exact px
    · exact py
  obtain ⟨ix, iy, iz⟩ := loopIntegralAt_eq hr0 hr hwire (Complex.arg ⟨x, y⟩)
  rw [hP, ix, iy, iz]
  congr 1
  unfold circleBSr circleBSz
  apply V3.ext' <;> simp only [vs, V3.add_x, V3.add_y, V3.add_z] <;> ring

end MagpyVerif.CircleBS
